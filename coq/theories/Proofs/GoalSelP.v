(* C20: lemmas about Model/GoalSel.v — the scan with vector costs is the leftmost minimum of its enumeration; it honours
   best_known_cost (C15's cell_ok); every additive feature's / layer's / goal's realised change = quoted vector + a shift no candidate
   can influence; the selected insertion minimises the realised change (one pair: unconditionally; the grid: under the lower-bound
   hypothesis, witness otherwise); the cost clause with waiting (lower bound, exact cases, witnesses); duration and arrival-time
   objectives are not additive (witnesses). *)
From VRP Require Import Base.Tac Model.CostOrder Model.Reduce Model.Core Spec.Feasible Model.Eval Model.Objectives Model.ObjectivesX Model.Reduce2
  Proofs.CostOrderP Proofs.Reduce2P Proofs.CoreTimeP Proofs.CoreEvalP Proofs.CoreMultiP Proofs.ObjectivesP Proofs.ObjectivesXP Model.GoalSel.

(* ================= the order on cost vectors ================= *)
Lemma zcmp_shift : forall a b s, (a + s ?= b + s) = (a ?= b).
Proof.
  intros a b s. destruct (Z.compare_spec a b); [apply Z.compare_eq_iff|apply Z.compare_lt_iff|apply Z.compare_gt_iff]; lia.
Qed.
Lemma vcmp_from_shift : forall a b s i n,
  vcmp_from (icost_add a s) (icost_add b s) i n = vcmp_from a b i n.
Proof.
  intros a b s i n. revert i. induction n as [|n IH]; intros i; cbn [vcmp_from]; [reflexivity|].
  unfold icost_add. rewrite !getd_zip_pad by reflexivity. fold (icost_add a s) (icost_add b s).
  rewrite IH. rewrite zcmp_shift. reflexivity.
Qed.

Lemma vcost_cmp_shift : forall a b s, vcost_cmp (icost_add a s) (icost_add b s) = vcost_cmp a b.
Proof.
  intros a b s.
  set (N := Nat.max (Nat.max (length (icost_add a s)) (length (icost_add b s))) (Nat.max (length a) (length b))).
  rewrite (vcost_cmp_at (icost_add a s) (icost_add b s) N) by lia.
  rewrite (vcost_cmp_at a b N) by lia. apply vcmp_from_shift.
Qed.

Lemma vlt_shift : forall a b s, vlt (icost_add a s) (icost_add b s) = vlt a b.
Proof. intros. unfold vlt. rewrite vcost_cmp_shift. reflexivity. Qed.

Lemma icost_add_nil_l : forall s, icost_add [] s = s.
Proof.
  intros [|b s]; [reflexivity|]. unfold icost_add. cbn [zip_pad]. f_equal.
  rewrite <- (map_id s) at 2. apply map_ext. intros; lia.
Qed.

(* a vector that is lexicographically >= 0 added to rc is not below rc *)
Lemma vlt_add_nonneg : forall e rc, vlt e [] = false -> vlt (icost_add e rc) rc = false.
Proof.
  intros e rc H. rewrite <- (icost_add_nil_l rc) at 2. rewrite vlt_shift. exact H.
Qed.

(* ================= the scan = leftmost minimum of the enumeration ================= *)
Definition vcore := (nat * option (list Z) * option placed)%type.
Definition core_of (c : vctx) : vcore := (vc_index c, vc_cost c, vc_place c).
Definition pick (c : vcore) (e : vcand) : vcore :=
  if match snd (fst c) with Some o => vlt (vc_vec e) o | None => true end
  then (vc_idx e, Some (vc_vec e), Some (vc_pl e)) else c.

Section ScanP.
Variable ev : list act -> nat -> act -> option (Z * bool).
Variable est : list act -> nat -> act -> list Z.
Variable closed : bool.

Lemma vscan_windows_core : forall t idx j pi p rc ws c,
  snd (vscan_windows ev est t idx j pi p rc ws c) = snd (venum_windows ev est t idx j pi p rc ws) /\
  core_of (fst (vscan_windows ev est t idx j pi p rc ws c)) = fold_left pick (fst (venum_windows ev est t idx j pi p rc ws)) (core_of c).
Proof.
  intros t idx j pi p rc ws. induction ws as [|w ws IH]; intros c; cbn [vscan_windows venum_windows]; [split; reflexivity|].
  destruct (ev t idx _) as [[code [|]]|] eqn:E.
  - cbn [fst snd fold_left]. split; reflexivity.
  - destruct (IH (mkV (Some (code, false)) (vc_index c) (vc_cost c) (vc_place c))) as [H1 H2]. split; [exact H1|exact H2].
  - match goal with |- context [vscan_windows _ _ _ _ _ _ _ _ _ ?c'] => destruct (IH c') as [H1 H2] end.
    destruct (venum_windows ev est t idx j pi p rc ws) as [l st] eqn:El. cbn [fst snd] in *. split; [exact H1|].
    cbn [fold_left]. rewrite H2. f_equal. unfold pick, core_of. cbn [fst snd vc_vec vc_idx vc_pl].
    destruct (match vc_cost c with Some o => vlt _ o | None => true end); reflexivity.
Qed.

Lemma vscan_places_core : forall t idx j rc ps pi c,
  snd (vscan_places ev est t idx j pi rc ps c) = snd (venum_places ev est t idx j pi rc ps) /\
  core_of (fst (vscan_places ev est t idx j pi rc ps c)) = fold_left pick (fst (venum_places ev est t idx j pi rc ps)) (core_of c).
Proof.
  intros t idx j rc ps. induction ps as [|p ps IH]; intros pi c; cbn [vscan_places venum_places]; [split; reflexivity|].
  destruct (vscan_windows_core t idx j pi p rc (p_tws p) c) as [H1 H2].
  destruct (vscan_windows ev est t idx j pi p rc (p_tws p) c) as [c' st].
  destruct (venum_windows ev est t idx j pi p rc (p_tws p)) as [l st']. cbn [fst snd] in H1, H2. subst st'.
  destruct st; cbn [fst snd]; [split; [reflexivity|exact H2]|].
  destruct (IH (S pi) c') as [H3 H4].
  destruct (venum_places ev est t idx j (S pi) rc ps) as [l' st']. cbn [fst snd] in *. split; [exact H3|].
  rewrite fold_left_app, <- H2. exact H4.
Qed.

Lemma vscan_legs_core : forall t j rc n idx c,
  core_of (vscan_legs ev est t j rc idx n c) = fold_left pick (venum_legs ev est t j rc idx n) (core_of c).
Proof.
  intros t j rc n. induction n as [|n IH]; intros idx c; cbn [vscan_legs venum_legs]; [reflexivity|].
  destruct (vscan_places_core t idx j rc (s_places j) 0%nat c) as [H1 H2].
  destruct (vscan_places ev est t idx j 0 rc (s_places j) c) as [c' st].
  destruct (venum_places ev est t idx j 0 rc (s_places j)) as [l st']. cbn [fst snd] in H1, H2. subst st'.
  destruct st; [exact H2|]. rewrite fold_left_app, <- H2. apply IH.
Qed.

Lemma vanalyze_core : forall t j rc known,
  core_of (vanalyze ev est closed t j rc known) = fold_left pick (venum ev est closed t j rc) (0%nat, known, None).
Proof. intros. unfold vanalyze, venum. rewrite vscan_legs_core. reflexivity. Qed.
End ScanP.

(* ---- the fold ---- *)
Definition of_cand (e : vcand) : vcore := (vc_idx e, Some (vc_vec e), Some (vc_pl e)).

(* started from a state that already holds a candidate's cost: the result is either unchanged (nothing strictly better follows) or a
   later candidate, and it is not beaten by any element *)
Lemma pick_fold_some : forall l i o p,
  (fold_left pick l (i, Some o, p) = (i, Some o, p) /\ forall e, In e l -> vlt (vc_vec e) o = false) \/
  (exists m, In m l /\ fold_left pick l (i, Some o, p) = of_cand m /\ vlt (vc_vec m) o = true /\
             forall e, In e l -> vlt (vc_vec e) (vc_vec m) = false).
Proof.
  induction l as [|e l IH]; intros i o p; cbn [fold_left]; [left; split; [reflexivity|intros e []]|].
  replace (pick (i, Some o, p) e) with (if vlt (vc_vec e) o then of_cand e else (i, Some o, p)) by reflexivity.
  unfold of_cand at 1. destruct (vlt (vc_vec e) o) eqn:E.
  - right. destruct (IH (vc_idx e) (vc_vec e) (Some (vc_pl e))) as [[H1 H2]|(m & Hm & H1 & H2 & H3)].
    + exists e. split; [left; reflexivity|]. split; [exact H1|]. split; [exact E|].
      intros e' [<-|He']; [apply vlt_irrefl|apply H2; exact He'].
    + exists m. split; [right; exact Hm|]. split; [exact H1|]. split; [apply (vlt_trans _ _ _ H2 E)|].
      intros e' [<-|He']; [|apply H3; exact He'].
      destruct (vlt (vc_vec e) (vc_vec m)) eqn:E2; [|reflexivity].
      pose proof (vlt_trans _ _ _ H2 E2) as H. rewrite vlt_irrefl in H. discriminate.
  - destruct (IH i o p) as [[H1 H2]|(m & Hm & H1 & H2 & H3)].
    + left. split; [exact H1|]. intros e' [<-|He']; [exact E|apply H2; exact He'].
    + right. exists m. split; [right; exact Hm|]. split; [exact H1|]. split; [exact H2|].
      intros e' [<-|He']; [|apply H3; exact He'].
      destruct (vlt (vc_vec e) (vc_vec m)) eqn:E2; [|reflexivity].
      pose proof (vlt_trans _ _ _ E2 H2) as H. rewrite E in H. discriminate.
Qed.

(* started from nothing *)
Lemma pick_fold_none : forall l i,
  (l = [] /\ fold_left pick l (i, None, None) = (i, None, None)) \/
  (exists m, In m l /\ fold_left pick l (i, None, None) = of_cand m /\ forall e, In e l -> vlt (vc_vec e) (vc_vec m) = false).
Proof.
  intros [|e l] i; [left; split; reflexivity|right]. cbn [fold_left].
  replace (pick (i, None, None) e) with (of_cand e) by reflexivity. unfold of_cand at 1.
  destruct (pick_fold_some l (vc_idx e) (vc_vec e) (Some (vc_pl e))) as [[H1 H2]|(m & Hm & H1 & H2 & H3)].
  - exists e. split; [left; reflexivity|]. split; [exact H1|]. intros e' [<-|He']; [apply vlt_irrefl|apply H2; exact He'].
  - exists m. split; [right; exact Hm|]. split; [exact H1|].
    intros e' [<-|He']; [|apply H3; exact He'].
    destruct (vlt (vc_vec e) (vc_vec m)) eqn:E2; [|reflexivity].
    pose proof (vlt_trans _ _ _ H2 E2) as H. rewrite vlt_irrefl in H. discriminate.
Qed.

(* lockstep of the fold started from best_known_cost = a with the fold started from nothing *)
Definition known_rel (a : list Z) (c1 c2 : vcore) : Prop :=
  (snd c2 = None /\ snd (fst c2) = Some a /\ (forall x, snd (fst c1) = Some x -> vlt x a = false) /\
   (snd c1 <> None -> snd (fst c1) <> None)) \/
  (c1 = c2 /\ exists x p, snd (fst c1) = Some x /\ vlt x a = true /\ snd c1 = Some p).

Lemma pick_known_rel : forall a l c1 c2, known_rel a c1 c2 -> known_rel a (fold_left pick l c1) (fold_left pick l c2).
Proof.
  intros a l. induction l as [|e l IH]; intros c1 c2 H; cbn [fold_left]; [exact H|]. apply IH. clear IH.
  destruct c1 as [[i1 o1] p1], c2 as [[i2 o2] p2]. unfold known_rel in *. cbn [fst snd] in *.
  destruct H as [(H1 & H2 & H3 & H4)|(H1 & x & p & Hx & Hlt & Hp)].
  - subst p2 o2. unfold pick. cbn [fst snd]. destruct (vlt (vc_vec e) a) eqn:Ek.
    + assert (Hb : match o1 with Some o => vlt (vc_vec e) o | None => true end = true).
      { destruct o1 as [o|]; [|reflexivity]. specialize (H3 o eq_refl).
        destruct (vlt (vc_vec e) o) eqn:E; [reflexivity|]. pose proof (vlt_negtrans _ _ _ E H3) as H. rewrite Ek in H. discriminate. }
      rewrite Hb. right. split; [reflexivity|]. exists (vc_vec e), (vc_pl e). cbn [fst snd]. auto.
    + left. destruct (match o1 with Some o => vlt (vc_vec e) o | None => true end); cbn [fst snd].
      * repeat split; [intros x Hx; inversion Hx; subst; exact Ek|discriminate].
      * repeat split; assumption.
  - inversion H1; subst i2 o2 p2. subst o1 p1. right. unfold pick. cbn [fst snd].
    destruct (vlt (vc_vec e) x) eqn:E; cbn [fst snd].
    + split; [reflexivity|]. exists (vc_vec e), (vc_pl e). repeat split. apply (vlt_trans _ _ _ E Hlt).
    + split; [reflexivity|]. exists x, p. auto.
Qed.

(* ================= the pair ================= *)
Section PairP.
Variable dur dist : Z -> Z -> Z.

Lemma gresult_of_core : forall k j c c', core_of c = core_of c' -> vc_place c <> None -> gresult_of k j c = gresult_of k j c'.
Proof.
  intros k j c c' H Hp. unfold core_of in H. inversion H as [[H1 H2 H3]]. unfold gresult_of. rewrite <- H3, <- H2, <- H1.
  destruct (vc_place c); [reflexivity|congruence].
Qed.

(* the pair's own result: a failure when nothing is enumerated, otherwise the leftmost minimum of the enumeration *)
Lemma grun_none : forall g k r j rc,
  let run := fun known => gresult_of k j (vanalyze (gev_act dur r) (gest_act dur dist g r) (gr_closed r) (gr_tour r) j rc known) in
  let l := venum (gev_act dur r) (gest_act dur dist g r) (gr_closed r) (gr_tour r) j rc in
  (l = [] /\ exists f, run None = RFailure f) \/
  (exists m, In m l /\ run None = RSuccess (vc_vec m, (k, s_id j, vc_idx m, vc_pl m)) /\
             forall e, In e l -> vlt (vc_vec e) (vc_vec m) = false).
Proof.
  intros g k r j rc run l. pose proof (vanalyze_core (gev_act dur r) (gest_act dur dist g r) (gr_closed r) (gr_tour r) j rc None) as Hc.
  fold l in Hc. unfold run.
  set (c := vanalyze (gev_act dur r) (gest_act dur dist g r) (gr_closed r) (gr_tour r) j rc None) in *.
  destruct (pick_fold_none l 0%nat) as [[H1 H2]|(m & Hm & H1 & H2)].
  - left. split; [exact H1|]. rewrite H2 in Hc. unfold core_of in Hc. inversion Hc as [[Hi Ho Hp]].
    unfold gresult_of. rewrite Hp. destruct (vc_viol c) as [[code st]|]; eauto.
  - right. exists m. split; [exact Hm|]. split; [|exact H2]. rewrite H1 in Hc. unfold core_of, of_cand in Hc.
    inversion Hc as [[Hi Ho Hp]]. unfold gresult_of. rewrite Hp, Ho, Hi. reflexivity.
Qed.

Lemma grun_respects_known : forall g k r j rc,
  respects_known gsucc (list Z) gcost vlt
    (fun known => gresult_of k j (vanalyze (gev_act dur r) (gest_act dur dist g r) (gr_closed r) (gr_tour r) j rc known)).
Proof.
  intros g k r j rc a. cbv beta.
  set (l := venum (gev_act dur r) (gest_act dur dist g r) (gr_closed r) (gr_tour r) j rc).
  pose proof (vanalyze_core (gev_act dur r) (gest_act dur dist g r) (gr_closed r) (gr_tour r) j rc None) as Hc1.
  pose proof (vanalyze_core (gev_act dur r) (gest_act dur dist g r) (gr_closed r) (gr_tour r) j rc (Some a)) as Hc2.
  fold l in Hc1, Hc2.
  set (c1 := vanalyze (gev_act dur r) (gest_act dur dist g r) (gr_closed r) (gr_tour r) j rc None) in *.
  set (c2 := vanalyze (gev_act dur r) (gest_act dur dist g r) (gr_closed r) (gr_tour r) j rc (Some a)) in *.
  assert (H : known_rel a (core_of c1) (core_of c2)).
  { rewrite Hc1, Hc2. apply pick_known_rel. left. cbn [fst snd]. repeat split; [discriminate|intros H; exfalso; apply H; reflexivity]. }
  unfold known_rel, core_of in H. cbn [fst snd] in H. destruct H as [(H1 & H2 & H3 & H4)|(H1 & x & p & Hx & Hlt & Hp)].
  - assert (Hf : exists f, gresult_of k j c2 = RFailure f).
    { unfold gresult_of. rewrite H1. destruct (vc_viol c2) as [[code st]|]; eauto. }
    unfold gresult_of at 1. destruct (vc_place c1) as [p|] eqn:Ep.
    + destruct (vc_cost c1) as [x|] eqn:Ex; [|exfalso; apply H4; [discriminate|reflexivity]].
      unfold gcost. cbn [fst]. rewrite (H3 x eq_refl). exact Hf.
    + destruct (vc_viol c1) as [[code st]|]; exact Hf.
  - assert (Hr : gresult_of k j c2 = gresult_of k j c1).
    { symmetry. apply gresult_of_core; [unfold core_of; exact H1|rewrite Hp; discriminate]. }
    rewrite Hr. unfold gresult_of. rewrite Hp, Hx. unfold gcost. cbn [fst]. rewrite Hlt. reflexivity.
Qed.

(* every enumerated candidate's cost is the route-level vector plus an activity-level vector of the goal *)
Lemma venum_windows_cost : forall ev est t idx j pi p rc ws e,
  In e (fst (venum_windows ev est t idx j pi p rc ws)) -> exists x, vc_vec e = icost_add (est t idx x) rc /\ vc_idx e = idx.
Proof.
  intros ev est t idx j pi p rc ws e. induction ws as [|w ws IH]; cbn [venum_windows]; [intros []|].
  destruct (ev t idx _) as [[code [|]]|]; [intros []|exact IH|].
  destruct (venum_windows ev est t idx j pi p rc ws) as [l st]. cbn [fst] in *. intros [<-|H]; [|apply IH; exact H].
  eexists. split; reflexivity.
Qed.
Lemma venum_places_cost : forall ev est t idx j rc ps pi e,
  In e (fst (venum_places ev est t idx j pi rc ps)) -> exists x, vc_vec e = icost_add (est t idx x) rc /\ vc_idx e = idx.
Proof.
  intros ev est t idx j rc ps. induction ps as [|p ps IH]; intros pi e; cbn [venum_places]; [intros []|].
  pose proof (venum_windows_cost ev est t idx j pi p rc (p_tws p) e) as Hw.
  destruct (venum_windows ev est t idx j pi p rc (p_tws p)) as [l st]. cbn [fst] in Hw. destruct st; cbn [fst]; [exact Hw|].
  specialize (IH (S pi) e). destruct (venum_places ev est t idx j (S pi) rc ps) as [l' st']. cbn [fst] in *.
  intros H. apply in_app_or in H as [H|H]; auto.
Qed.
Lemma venum_legs_cost : forall ev est t j rc n idx e,
  In e (venum_legs ev est t j rc idx n) -> exists x, vc_vec e = icost_add (est t (vc_idx e) x) rc /\ (idx <= vc_idx e < idx + n)%nat.
Proof.
  intros ev est t j rc n. induction n as [|n IH]; intros idx e; cbn [venum_legs]; [intros []|].
  pose proof (venum_places_cost ev est t idx j rc (s_places j) 0%nat e) as Hp.
  destruct (venum_places ev est t idx j 0 rc (s_places j)) as [l st]. cbn [fst] in Hp.
  assert (Hl : In e l -> exists x, vc_vec e = icost_add (est t (vc_idx e) x) rc /\ (idx <= vc_idx e < idx + S n)%nat).
  { intros H. destruct (Hp H) as (x & Hx & Hi). exists x. rewrite Hi. split; [exact Hx|lia]. }
  destruct st; [exact Hl|]. intros H. apply in_app_or in H as [H|H]; [apply Hl; exact H|].
  destruct (IH (S idx) e H) as (x & Hx & Hi). exists x. split; [exact Hx|lia].
Qed.

(* the lower-bound hypothesis of C15 on this pair: activity-level vectors are lexicographically >= 0 *)
Definition act_nonneg (g : list glayer) (r : groute) : Prop := forall idx x, vlt (goal_est_act dur dist g r idx x) [] = false.

Lemma gcell_ok : forall g skip k r j, act_nonneg g r -> cell_ok gsucc (list Z) gcost vlt (gcell dur dist g skip k r j).
Proof.
  intros g skip k r j Hnn. unfold gcell. destruct skip; [split; exact I|].
  destruct (negb (eval_route_time _ j)); [split; exact I|]. destruct (negb (eval_route_cap _ _ j)); [split; exact I|].
  split; [apply grun_respects_known|]. cbn [cell_lower_bound]. intros s Hs.
  destruct (grun_none g k r j (goal_est_route g r (s_id j))) as [[_ (f & Hf)]|(m & Hm & H1 & _)]; [congruence|].
  rewrite H1 in Hs. inversion Hs; subst s. unfold gcost. cbn [fst].
  apply venum_legs_cost in Hm as (x & Hx & _). rewrite Hx. apply vlt_add_nonneg. apply Hnn.
Qed.
End PairP.


(* ================= sums ================= *)
Lemma sumz_app : forall a b, sumz (a ++ b) = sumz a + sumz b.
Proof. unfold sumz. induction a as [|x a IH]; intros b; cbn [app fold_right]; [lia|]. rewrite IH. lia. Qed.

Lemma sumz_map_replace : forall {A} (f : A -> Z) (l : list A) k d r', (k < length l)%nat ->
  sumz (map f (firstn k l ++ r' :: skipn (S k) l)) = sumz (map f l) - f (nth k l d) + f r'.
Proof.
  intros A f l k d r' Hk. destruct (split_at l k d Hk) as [E _].
  assert (H : sumz (map f l) = sumz (map f (firstn k l)) + (f (nth k l d) + sumz (map f (skipn (S k) l)))).
  { rewrite E at 1. rewrite map_app, sumz_app. reflexivity. }
  rewrite map_app, sumz_app. cbn [map].
  change (sumz (f r' :: map f (skipn (S k) l))) with (f r' + sumz (map f (skipn (S k) l))). lia.
Qed.

Lemma sumz_map_snoc : forall {A} (f : A -> Z) (l : list A) r', sumz (map f (l ++ [r'])) = sumz (map f l) + f r'.
Proof. intros. rewrite map_app, sumz_app. unfold sumz at 2. cbn. lia. Qed.

Lemma sumz_map_sub : forall {A} (f g : A -> Z) (l : list A), sumz (map f l) - sumz (map g l) = sumz (map (fun a => f a - g a) l).
Proof. unfold sumz. induction l as [|a l IH]; cbn [map fold_right]; lia. Qed.

Lemma sumz_map_ext : forall {A} (f g : A -> Z) (l : list A), (forall a, In a l -> f a = g a) -> sumz (map f l) = sumz (map g l).
Proof.
  unfold sumz. induction l as [|a l IH]; intros H; cbn [map fold_right]; [reflexivity|].
  rewrite (H a (or_introl eq_refl)), IH; [reflexivity|]. intros; apply H; right; assumption.
Qed.

Lemma sumz_map_add3 : forall {A} (f g h : A -> Z) (l : list A),
  sumz (map (fun a => f a + g a + h a) l) = sumz (map f l) + sumz (map g l) + sumz (map h l).
Proof. unfold sumz. induction l as [|a l IH]; cbn [map fold_right]; lia. Qed.

Lemma sumz_map_scale3 : forall {A} (w : A -> Z) (f g h : A -> Z) (l : list A),
  sumz (map (fun a => (f a + g a + h a) * w a) l) =
  sumz (map (fun a => f a * w a) l) + sumz (map (fun a => g a * w a) l) + sumz (map (fun a => h a * w a) l).
Proof. unfold sumz. induction l as [|a l IH]; cbn [map fold_right]; lia. Qed.

Lemma sumz_filter_removez : forall (u : Z -> Z) (f : Z -> bool) l j, NoDup l -> In j l -> f j = true ->
  sumz (map u (filter f (removez j l))) = sumz (map u (filter f l)) - u j.
Proof.
  induction l as [|a l IH]; intros j Hnd Hin Hf; [destruct Hin|]. inversion Hnd as [|? ? Hna Hnd']; subst.
  cbn [removez filter]. destruct Hin as [->|Hin].
  - rewrite Z.eqb_refl, Hf. cbn [negb map]. fold (removez j l). rewrite (removez_notin l j Hna). unfold sumz. cbn [fold_right]. lia.
  - assert (a <> j) by (intros ->; contradiction).
    destruct (a =? j) eqn:Ea; [lia|]. cbn [negb filter]. fold (removez j l).
    specialize (IH j Hnd' Hin Hf). destruct (f a); cbn [map]; unfold sumz in *; cbn [fold_right]; lia.
Qed.

(* ================= tours: jobs of a tour after an insertion ================= *)
Section Exact.
Variable dur dist : Z -> Z -> Z.

Lemma tour_job_ids_app : forall A B, tour_job_ids (A ++ B) = tour_job_ids A ++ tour_job_ids B.
Proof. intros. unfold tour_job_ids. rewrite filter_app, map_app. reflexivity. Qed.

Lemma tour_job_ids_resched_from : forall r l d, tour_job_ids (resched_from dur l d r) = tour_job_ids r.
Proof.
  unfold tour_job_ids. induction r as [|a r IH]; intros; cbn [resched_from filter]; [reflexivity|].
  replace (is_terminal (set_sched a (d + dur l (a_loc a)) (est_departure a (d + dur l (a_loc a))))) with (is_terminal a) by reflexivity.
  cbn [a_loc set_sched]. destruct (negb (is_terminal a)); cbn [map]; rewrite IH; reflexivity.
Qed.

Lemma tour_job_ids_reschedule : forall t, tour_job_ids (reschedule dur t) = tour_job_ids t.
Proof.
  intros [|s r]; [reflexivity|]. unfold reschedule.
  change (s :: resched_from dur (a_loc s) (a_dep s) r) with ([s] ++ resched_from dur (a_loc s) (a_dep s) r).
  change (s :: r) with ([s] ++ r). rewrite !tour_job_ids_app, tour_job_ids_resched_from. reflexivity.
Qed.

Lemma tour_job_ids_no_jobs : forall t, has_jobs t = false -> tour_job_ids t = [].
Proof.
  intros t H. apply has_jobs_false_shape in H. unfold tour_job_ids.
  induction H as [|a t Ha _ IH]; [reflexivity|]. cbn [filter]. rewrite Ha. cbn [negb]. exact IH.
Qed.

Lemma sum_jobs_insert : forall (gf : Z -> Z) t idx x, is_terminal x = false ->
  sumz (map gf (tour_job_ids (reschedule dur (insert_after t idx x)))) = sumz (map gf (tour_job_ids t)) + gf (a_job x).
Proof.
  intros gf t idx x Hx. rewrite tour_job_ids_reschedule. unfold insert_after.
  rewrite <- (firstn_skipn (S idx) t) at 3.
  change (x :: skipn (S idx) t) with ([x] ++ skipn (S idx) t).
  rewrite !tour_job_ids_app, !map_app, !sumz_app.
  unfold tour_job_ids at 2. cbn [filter]. rewrite Hx. cbn [negb map]. unfold sumz at 2. cbn [fold_right]. lia.
Qed.

(* ================= hypotheses about the state and the candidate ================= *)
Definition uniform_rates (r : groute) : Prop :=
  v_ptime (gr_veh r) = v_psvc (gr_veh r) /\ v_psvc (gr_veh r) = v_pwait (gr_veh r) /\
  dc_ptime (gr_drv r) = dc_psvc (gr_drv r) /\ dc_psvc (gr_drv r) = dc_pwait (gr_drv r).

(* the solution's routes hold jobs; the registry routes are unused tours of a start (and an end); pending jobs are distinct *)
Definition state_ok (s : gsol) (free : list groute) : Prop :=
  Forall (fun r => has_jobs (gr_tour r) = true) (gs_routes s) /\
  Forall (fun r => has_jobs (gr_tour r) = false /\ (length (gr_tour r) <= 2)%nat /\ leg_count (gr_closed r) (gr_tour r) = 1%nat) free /\
  NoDup (gs_required s).

(* a candidate of the pair (route at position k, job jid): a leg of the tour, a job activity, the job is pending *)
Definition cand_ok (s : gsol) (free : list groute) (k : nat) (jid : Z) (idx : nat) (x : act) : Prop :=
  (k < length (gs_routes s ++ free))%nat /\
  (idx < leg_count (gr_closed (nth k (gs_routes s ++ free) dummy_route)) (gr_tour (nth k (gs_routes s ++ free) dummy_route)))%nat /\
  is_terminal x = false /\ a_job x = jid /\ In jid (gs_required s) /\ ~ In jid (gs_unassigned s).

(* per feature: when its quote is claimed to be exact for this candidate *)
Definition feat_ok (f : feat) (r : groute) (idx : nat) (x : act) : Prop :=
  match f with
  | FUnassigned _ | FMinTours | FMaxTours | FValue _ | FDistance => True
  | FCost => sched_ok dur (gr_tour r) /\ no_wait (gr_tour r) /\ no_wait (reschedule dur (insert_after (gr_tour r) idx x)) /\ uniform_rates r
  | FDuration | FMinArrival => False
  end.
Definition layer_ok (l : glayer) (r : groute) (idx : nat) (x : act) : Prop := Forall (fun f => feat_ok f r idx x) (layer_feats l).

Lemma nth_app_used : forall (l free : list groute) k, (k < length l)%nat -> nth k (l ++ free) dummy_route = nth k l dummy_route.
Proof. intros. apply app_nth1. assumption. Qed.

Lemma cand_route_facts : forall s free k jid idx x, state_ok s free -> cand_ok s free k jid idx x ->
  let r := nth k (gs_routes s ++ free) dummy_route in
  (idx < length (gr_tour r))%nat /\
  (has_jobs (gr_tour r) = false -> (length (gr_tour r) <= 2)%nat /\ idx = 0%nat) /\
  ((k <? length (gs_routes s))%nat = true -> has_jobs (gr_tour r) = true) /\
  ((k <? length (gs_routes s))%nat = false -> has_jobs (gr_tour r) = false).
Proof.
  intros s free k jid idx x (Hu & Hf & _) (Hk & Hidx & _) r.
  pose proof (leg_count_le (gr_closed r) (gr_tour r)) as Hle. fold r in Hidx.
  assert (Hcase : ((k <? length (gs_routes s))%nat = true /\ has_jobs (gr_tour r) = true) \/
                  ((k <? length (gs_routes s))%nat = false /\ has_jobs (gr_tour r) = false /\ (length (gr_tour r) <= 2)%nat /\
                   leg_count (gr_closed r) (gr_tour r) = 1%nat)).
  { destruct (k <? length (gs_routes s))%nat eqn:E.
    - left. split; [reflexivity|]. apply Nat.ltb_lt in E. unfold r. rewrite app_nth1 by exact E.
      rewrite Forall_forall in Hu. apply Hu. apply nth_In. exact E.
    - right. split; [reflexivity|]. apply Nat.ltb_ge in E. unfold r. rewrite app_nth2 by exact E.
      rewrite Forall_forall in Hf. apply Hf. apply nth_In. rewrite app_length in Hk. lia. }
  split; [lia|]. destruct Hcase as [[E Hj]|(E & Hj & Hl & Hc)].
  - split; [intros H; congruence|]. split; [intros _; exact Hj|intros H; congruence].
  - split; [intros _; split; [exact Hl|lia]|]. split; [intros H; congruence|intros _; exact Hj].
Qed.

(* a per-route additive measure: its sum over the solution's routes changes by the route's own change *)
Lemma per_route_delta : forall (fr : groute -> Z) s free k jid idx x,
  (k < length (gs_routes s ++ free))%nat ->
  let r := nth k (gs_routes s ++ free) dummy_route in
  let r' := gr_with r (reschedule dur (insert_after (gr_tour r) idx x)) in
  sumz (map fr (gs_routes (gfinalize (gapply dur s free k jid idx x)))) - sumz (map fr (gs_routes (gfinalize s)))
  = fr r' - (if (k <? length (gs_routes s))%nat then fr r else 0).
Proof.
  intros fr s free k jid idx x Hk r r'. unfold gfinalize, gapply. cbn [gs_routes]. fold r. fold r'.
  destruct (k <? length (gs_routes s))%nat eqn:E.
  - apply Nat.ltb_lt in E. rewrite (sumz_map_replace fr (gs_routes s) k dummy_route r' E).
    unfold r. rewrite app_nth1 by exact E. lia.
  - rewrite sumz_map_snoc. lia.
Qed.

(* ---- every feature: realised change = route-level quote + activity-level quote + the candidate-independent shift ---- *)
Lemma feat_delta : forall f s free k jid idx x,
  state_ok s free -> cand_ok s free k jid idx x ->
  let r := nth k (gs_routes s ++ free) dummy_route in
  feat_ok f r idx x ->
  feat_fitness dist f (gfinalize (gapply dur s free k jid idx x)) - feat_fitness dist f (gfinalize s)
  = feat_est_act dur dist f r idx x + feat_est_route f r jid + feat_shift f s.
Proof.
  intros f s free k jid idx x Hst Hc r Hok.
  pose proof (cand_route_facts s free k jid idx x Hst Hc) as (Hidx & Hemp & Hused & Hnew). fold r in Hidx, Hemp, Hused, Hnew.
  destruct Hc as (Hk & _ & Hx & Hjob & Hreq & Hnu). destruct Hst as (_ & _ & Hnd).
  destruct f as [u| | | |v| | |]; cbn [feat_ok] in Hok; try contradiction.
  - (* unassigned *)
    cbn [feat_fitness feat_est_act feat_est_route feat_shift].
    assert (Hr : match gs_routes (gfinalize (gapply dur s free k jid idx x)) with [] => sumz (map u (gs_ignored (gfinalize (gapply dur s free k jid idx x)))) | _ => 0 end = 0).
    { unfold gfinalize, gapply. cbn [gs_routes]. destruct (k <? length (gs_routes s))%nat.
      - destruct (firstn k (gs_routes s)); reflexivity.
      - destruct (gs_routes s); reflexivity. }
    rewrite Hr. unfold gfinalize, gapply. cbn [gs_routes gs_unassigned gs_required gs_ignored].
    rewrite (removez_notin _ _ Hnu). rewrite !map_app, !sumz_app.
    rewrite (sumz_filter_removez u (fun j => negb (memz j (gs_unassigned s))) _ jid Hnd Hreq).
    2:{ destruct (memz jid (gs_unassigned s)) eqn:E; [apply memz_in in E; contradiction|reflexivity]. }
    destruct (gs_routes s); lia.
  - (* min tours *)
    cbn [feat_fitness feat_est_act feat_est_route feat_shift].
    unfold gfinalize, gapply. cbn [gs_routes]. fold r.
    destruct (k <? length (gs_routes s))%nat eqn:E.
    + rewrite (Hused eq_refl). apply Nat.ltb_lt in E. rewrite app_length, firstn_length, Nat.min_l by lia.
      cbn [length]. rewrite skipn_length. lia.
    + rewrite (Hnew eq_refl). rewrite app_length. cbn [length]. lia.
  - (* max tours *)
    cbn [feat_fitness feat_est_act feat_est_route feat_shift].
    unfold gfinalize, gapply. cbn [gs_routes]. fold r.
    destruct (k <? length (gs_routes s))%nat eqn:E.
    + rewrite (Hused eq_refl). apply Nat.ltb_lt in E. rewrite app_length, firstn_length, Nat.min_l by lia.
      cbn [length]. rewrite skipn_length. lia.
    + rewrite (Hnew eq_refl). rewrite app_length. cbn [length]. lia.
  - (* value *)
    cbn [feat_fitness feat_est_act feat_est_route feat_shift].
    rewrite (per_route_delta (fun r0 => sumz (map (fun j => -1 * v (gr_id r0) j) (tour_job_ids (gr_tour r0)))) s free k jid idx x Hk).
    fold r. cbn [gr_with gr_id gr_tour]. rewrite (sum_jobs_insert (fun j => -1 * v (gr_id r) j) (gr_tour r) idx x Hx). rewrite Hjob.
    destruct (k <? length (gs_routes s))%nat eqn:E; [lia|].
    rewrite (tour_job_ids_no_jobs _ (Hnew eq_refl)). cbn. lia.
  - (* distance *)
    cbn [feat_fitness feat_est_act feat_est_route feat_shift].
    rewrite (per_route_delta (fun r0 => total_distance dist (gr_tour r0)) s free k jid idx x Hk).
    fold r. cbn [gr_with gr_tour]. rewrite total_distance_reschedule.
    pose proof (leg_estimate_exact dist (gr_tour r) idx x Hidx Hemp) as Hle.
    destruct (k <? length (gs_routes s))%nat eqn:E.
    + rewrite (Hused eq_refl) in Hle. lia.
    + rewrite (Hnew eq_refl) in Hle. lia.
  - (* cost *)
    destruct Hok as (Hs & Hn & Hn' & Hu1 & Hu2 & Hu3 & Hu4).
    cbn [feat_fitness feat_est_act feat_est_route feat_shift].
    rewrite (per_route_delta (fun r0 => cost_fitness_d dist (gr_veh r0) (gr_drv r0) (gr_tour r0)) s free k jid idx x Hk).
    fold r. cbn [gr_with gr_tour gr_veh gr_drv].
    pose proof (cost_quote_exact_nowait_driver dur dist (gr_veh r) (gr_drv r) (gr_tour r) idx x Hidx Hs Hn Hn' (conj Hu1 Hu2) (conj Hu3 Hu4) Hemp) as Hq.
    unfold route_cost_d, cost_quote_d in Hq.
    destruct (k <? length (gs_routes s))%nat eqn:E.
    + rewrite (Hused eq_refl) in Hq. lia.
    + rewrite (Hnew eq_refl) in Hq. lia.
Qed.

(* ---- every layer (single objective, sum, weighted sum) ---- *)
Lemma layer_delta : forall l s free k jid idx x,
  state_ok s free -> cand_ok s free k jid idx x ->
  let r := nth k (gs_routes s ++ free) dummy_route in
  layer_ok l r idx x ->
  layer_value dist l (gfinalize (gapply dur s free k jid idx x)) - layer_value dist l (gfinalize s)
  = layer_est_act dur dist l r idx x + layer_est_route l r jid + layer_shift l s.
Proof.
  intros l s free k jid idx x Hst Hc r Hok. unfold layer_ok in Hok. rewrite Forall_forall in Hok.
  destruct l as [f|fs|wfs]; cbn [layer_value layer_est_act layer_est_route layer_shift layer_feats] in *.
  - apply feat_delta; auto. apply Hok. left; reflexivity.
  - rewrite sumz_map_sub. rewrite <- sumz_map_add3. apply sumz_map_ext. intros f Hf. apply feat_delta; auto.
  - rewrite sumz_map_sub.
    rewrite <- (sumz_map_scale3 fst (fun wf => feat_est_act dur dist (snd wf) r idx x) (fun wf => feat_est_route (snd wf) r jid)
                 (fun wf => feat_shift (snd wf) s)).
    apply sumz_map_ext. intros wf Hf.
    rewrite <- Z.mul_sub_distr_r. f_equal. apply feat_delta; auto. apply Hok. apply in_map. exact Hf.
Qed.

Definition goal_ok (g : list glayer) (r : groute) (idx : nat) (x : act) : Prop := Forall (fun l => layer_ok l r idx x) g.

Lemma icost_add_map : forall {A} (f h : A -> Z) (l : list A), icost_add (map f l) (map h l) = map (fun a => f a + h a) l.
Proof. unfold icost_add. induction l as [|a l IH]; cbn [map zip_pad]; [reflexivity|]. rewrite IH. reflexivity. Qed.

(* the realised change of the whole goal: the quoted vector, shifted by a vector no candidate can influence *)
Theorem goal_delta : forall g s free k jid idx x,
  state_ok s free -> cand_ok s free k jid idx x ->
  let r := nth k (gs_routes s ++ free) dummy_route in
  goal_ok g r idx x ->
  map (fun l => layer_value dist l (gfinalize (gapply dur s free k jid idx x)) - layer_value dist l (gfinalize s)) g
  = icost_add (icost_add (goal_est_act dur dist g r idx x) (goal_est_route g r jid)) (goal_shift g s).
Proof.
  intros g s free k jid idx x Hst Hc r Hok. unfold goal_est_act, goal_est_route, goal_shift. rewrite !icost_add_map.
  apply map_ext_in. intros l Hl. unfold goal_ok in Hok. rewrite Forall_forall in Hok. apply layer_delta; auto.
Qed.

(* no shift when the solution already has a route or has no ignored jobs (the complement is finding C20-F1) *)
Lemma goal_shift_zero : forall g s, (gs_routes s <> [] \/ gs_ignored s = []) -> goal_shift g s = map (fun _ => 0) g.
Proof.
  intros g s H. unfold goal_shift. apply map_ext. intros l.
  assert (Hf : forall f, feat_shift f s = 0).
  { intros f. destruct f; cbn [feat_shift]; try reflexivity. destruct H as [H|H]; [destruct (gs_routes s); [congruence|reflexivity]|].
    rewrite H. destruct (gs_routes s); reflexivity. }
  destruct l as [f|fs|wfs]; cbn [layer_shift]; [apply Hf| |].
  - unfold sumz. induction fs as [|f fs IH]; cbn [map fold_right]; [reflexivity|]. rewrite Hf, IH. reflexivity.
  - unfold sumz. induction wfs as [|f fs IH]; cbn [map fold_right]; [reflexivity|]. rewrite Hf, IH. reflexivity.
Qed.

Lemma icost_add_zero_r : forall {A} (a : list Z) (g : list A), length a = length g -> icost_add a (map (fun _ => 0) g) = a.
Proof.
  unfold icost_add. intros A a. induction a as [|x a IH]; intros [|y g] H; cbn in H; try lia; cbn [map zip_pad]; [reflexivity|].
  rewrite IH by lia. f_equal. lia.
Qed.
End Exact.


(* ================= the enumerated candidates: what they are ================= *)
Section EnumP.
Variable ev : list act -> nat -> act -> option (Z * bool).
Variable est : list act -> nat -> act -> list Z.

Lemma venum_windows_shape : forall t idx j pi p rc ws e,
  In e (fst (venum_windows ev est t idx j pi p rc ws)) ->
  vc_idx e = idx /\ vc_vec e = icost_add (est t idx (act_of_place j (vc_pl e))) rc /\ ev t idx (act_of_place j (vc_pl e)) = None.
Proof.
  intros t idx j pi p rc ws e. induction ws as [|w ws IH]; cbn [venum_windows]; [intros []|].
  destruct (ev t idx (mk_target j (nth idx t xd0) p w)) as [[code [|]]|] eqn:E; [intros []|exact IH|].
  destruct (venum_windows ev est t idx j pi p rc ws) as [l st]. cbn [fst] in *. intros [<-|H]; [|apply IH; exact H].
  unfold vc_idx, vc_vec, vc_pl, pdata_of. cbn [fst snd]. rewrite act_of_place_target. auto.
Qed.
Lemma venum_places_shape : forall t idx j rc ps pi e,
  In e (fst (venum_places ev est t idx j pi rc ps)) ->
  vc_idx e = idx /\ vc_vec e = icost_add (est t idx (act_of_place j (vc_pl e))) rc /\ ev t idx (act_of_place j (vc_pl e)) = None.
Proof.
  intros t idx j rc ps. induction ps as [|p ps IH]; intros pi e; cbn [venum_places]; [intros []|].
  pose proof (venum_windows_shape t idx j pi p rc (p_tws p) e) as Hw.
  destruct (venum_windows ev est t idx j pi p rc (p_tws p)) as [l st]. cbn [fst] in Hw. destruct st; cbn [fst]; [exact Hw|].
  specialize (IH (S pi) e). destruct (venum_places ev est t idx j (S pi) rc ps) as [l' st']. cbn [fst] in *.
  intros H. apply in_app_or in H as [H|H]; auto.
Qed.
Lemma venum_legs_shape : forall t j rc n idx e,
  In e (venum_legs ev est t j rc idx n) ->
  (idx <= vc_idx e < idx + n)%nat /\ vc_vec e = icost_add (est t (vc_idx e) (act_of_place j (vc_pl e))) rc /\
  ev t (vc_idx e) (act_of_place j (vc_pl e)) = None.
Proof.
  intros t j rc n. induction n as [|n IH]; intros idx e; cbn [venum_legs]; [intros []|].
  pose proof (venum_places_shape t idx j rc (s_places j) 0%nat e) as Hp.
  destruct (venum_places ev est t idx j 0 rc (s_places j)) as [l st]. cbn [fst] in Hp.
  assert (Hl : In e l -> (idx <= vc_idx e < idx + S n)%nat /\ vc_vec e = icost_add (est t (vc_idx e) (act_of_place j (vc_pl e))) rc /\
                         ev t (vc_idx e) (act_of_place j (vc_pl e)) = None).
  { intros H. destruct (Hp H) as (Hi & Hx & He). rewrite Hi. split; [lia|]. split; assumption. }
  destruct st; [exact Hl|]. intros H. apply in_app_or in H as [H|H]; [apply Hl; exact H|].
  destruct (IH (S idx) e H) as (Hi & Hx). split; [lia|exact Hx].
Qed.
End EnumP.

Lemma in_combine_seq : forall {A} (l : list A) (d : A) k r o, In (k, r) (combine (seq o (length l)) l) -> (o <= k < o + length l)%nat /\ nth (k - o) l d = r.
Proof.
  intros A l d. induction l as [|a l IH]; intros k r o; cbn [length seq combine]; [intros []|].
  intros [H|H].
  - inversion H; subst. split; [lia|]. rewrite Nat.sub_diag. reflexivity.
  - destruct (IH k r (S o) H) as [H1 H2]. split; [lia|]. replace (k - o)%nat with (S (k - S o)) by lia. exact H2.
Qed.

Section MainP.
Variable dur dist : Z -> Z -> Z.

Lemma offered_nth : forall s free k r, In (k, r) (offered s free) ->
  (k < length (gs_routes s ++ free))%nat /\ nth k (gs_routes s ++ free) dummy_route = r.
Proof.
  intros s free k r H. unfold offered in H. rewrite <- app_length in H.
  destruct (in_combine_seq (gs_routes s ++ free) dummy_route k r 0%nat H) as [H1 H2]. rewrite Nat.sub_0_r in H2. split; [lia|exact H2].
Qed.

(* the pair's own result and its candidates *)
Lemma gcell_full : forall g skip k r j,
  (gcands dur dist g skip r j = [] /\ exists f, full_of gsucc (list Z) (gcell dur dist g skip k r j) = RFailure f) \/
  (exists m, In m (gcands dur dist g skip r j) /\
             full_of gsucc (list Z) (gcell dur dist g skip k r j) = RSuccess (vc_vec m, (k, s_id j, vc_idx m, vc_pl m)) /\
             forall e, In e (gcands dur dist g skip r j) -> vlt (vc_vec e) (vc_vec m) = false).
Proof.
  intros g skip k r j. unfold gcell, gcands. destruct skip; [left; split; [reflexivity|eexists; reflexivity]|].
  destruct (negb (eval_route_time _ j)); [left; split; [reflexivity|eexists; reflexivity]|].
  destruct (negb (eval_route_cap _ _ j)); [left; split; [reflexivity|eexists; reflexivity]|].
  cbn [full_of]. apply (grun_none dur dist g k r j (goal_est_route g r (s_id j))).
Qed.

Lemma gcands_shape : forall g skip r j e, In e (gcands dur dist g skip r j) ->
  (vc_idx e < leg_count (gr_closed r) (gr_tour r))%nat /\
  vc_vec e = icost_add (goal_est_act dur dist g r (vc_idx e) (act_of_place j (vc_pl e))) (goal_est_route g r (s_id j)) /\
  eval_activity dur (gr_veh r) (gr_tour r) (vc_idx e) (act_of_place j (vc_pl e)) = None.
Proof.
  intros g skip r j e. unfold gcands. destruct skip; [intros []|].
  destruct (negb (eval_route_time _ j)); [intros []|]. destruct (negb (eval_route_cap _ _ j)); [intros []|].
  intros H. apply venum_legs_shape in H as (H1 & H2 & H3). split; [lia|]. split; [exact H2|exact H3].
Qed.

Definition jobs_ok (s : gsol) (jobs : list single) : Prop :=
  Forall (fun j => 0 <= s_id j /\ In (s_id j) (gs_required s) /\ ~ In (s_id j) (gs_unassigned s)) jobs.

Lemma act_of_place_job : forall j pl, a_job (act_of_place j pl) = s_id j.
Proof. intros j [[[[pi l] sv] a] b]. reflexivity. Qed.

Lemma enumerated_cand_ok : forall g skip s free jobs k r j e,
  jobs_ok s jobs -> In (k, r) (offered s free) -> In j jobs -> In e (gcands dur dist g skip r j) ->
  cand_ok s free k (s_id j) (vc_idx e) (act_of_place j (vc_pl e)).
Proof.
  intros g skip s free jobs k r j e Hj Hr Hin He. destruct (offered_nth s free k r Hr) as [Hk Hn].
  unfold jobs_ok in Hj. rewrite Forall_forall in Hj. destruct (Hj j Hin) as (H0 & H1 & H2).
  destruct (gcands_shape g skip r j e He) as (Hi & _). unfold cand_ok. rewrite Hn.
  repeat split; auto; try apply act_of_place_job.
  unfold is_terminal. rewrite act_of_place_job. lia.
Qed.

(* an enumerated candidate's realised change of the goal = its quoted vector + the shift no candidate can influence *)
Theorem enumerated_realised : forall g skip s free jobs k r j e,
  state_ok s free -> jobs_ok s jobs -> In (k, r) (offered s free) -> In j jobs -> In e (gcands dur dist g skip r j) ->
  goal_ok dur g r (vc_idx e) (act_of_place j (vc_pl e)) ->
  grealised dur dist g s free k j e = icost_add (vc_vec e) (goal_shift g s).
Proof.
  intros g skip s free jobs k r j e Hst Hj Hr Hin He Hok. destruct (offered_nth s free k r Hr) as [Hk Hn].
  pose proof (enumerated_cand_ok g skip s free jobs k r j e Hj Hr Hin He) as Hc.
  destruct (gcands_shape g skip r j e He) as (_ & Hv & _). rewrite Hv. unfold grealised.
  rewrite <- Hn. apply (goal_delta dur dist g s free k (s_id j) (vc_idx e) (act_of_place j (vc_pl e)) Hst Hc). rewrite Hn. exact Hok.
Qed.

(* ---- one pair (eval_job_insertion_in_route with alternative = failure): unconditional ---- *)
Theorem pair_selected_minimises_realised : forall g skip s free jobs k r j cost k0 jid0 idx0 pl0,
  state_ok s free -> jobs_ok s jobs -> In (k, r) (offered s free) -> In j jobs ->
  full_of gsucc (list Z) (gcell dur dist g skip k r j) = RSuccess (cost, (k0, jid0, idx0, pl0)) ->
  In (idx0, pl0, cost) (gcands dur dist g skip r j) /\ k0 = k /\ jid0 = s_id j /\
  forall e, In e (gcands dur dist g skip r j) ->
    goal_ok dur g r (vc_idx e) (act_of_place j (vc_pl e)) -> goal_ok dur g r idx0 (act_of_place j pl0) ->
    vlt (grealised dur dist g s free k j e) (grealised dur dist g s free k j (idx0, pl0, cost)) = false.
Proof.
  intros g skip s free jobs k r j cost k0 jid0 idx0 pl0 Hst Hj Hr Hin Hf.
  destruct (gcell_full g skip k r j) as [[_ (f & Hf')]|(m & Hm & Hs & Hmin)]; [congruence|].
  rewrite Hs in Hf. inversion Hf; subst cost k0 jid0 idx0 pl0.
  assert (Em : (vc_idx m, vc_pl m, vc_vec m) = m) by (destruct m as [[i p] v]; reflexivity). rewrite Em.
  split; [exact Hm|]. split; [reflexivity|]. split; [reflexivity|]. intros e He Hoke Hokm.
  rewrite (enumerated_realised g skip s free jobs k r j e Hst Hj Hr Hin He Hoke).
  rewrite (enumerated_realised g skip s free jobs k r j m Hst Hj Hr Hin Hm Hokm).
  rewrite vlt_shift. apply Hmin. exact He.
Qed.

(* ---- the whole grid under any schedule of the parallel fold ---- *)
Theorem grid_selected_minimises_realised : forall g skip s free jobs tree cost k0 jid0 idx0 pl0,
  state_ok s free -> jobs_ok s jobs ->
  (forall kr, In kr (offered s free) -> act_nonneg dur dist g (snd kr)) ->
  pflatten tree = cartesian_product (offered s free) jobs ->
  gselect dur dist g skip tree = RSuccess (cost, (k0, jid0, idx0, pl0)) ->
  exists r0 j0, In (k0, r0) (offered s free) /\ In j0 jobs /\ s_id j0 = jid0 /\
    In (idx0, pl0, cost) (gcands dur dist g (skip r0 j0) r0 j0) /\
    forall k r j e, In (k, r) (offered s free) -> In j jobs -> In e (gcands dur dist g (skip r j) r j) ->
      goal_ok dur g r (vc_idx e) (act_of_place j (vc_pl e)) -> goal_ok dur g r0 idx0 (act_of_place j0 pl0) ->
      vlt (grealised dur dist g s free k j e) (grealised dur dist g s free k0 j0 (idx0, pl0, cost)) = false.
Proof.
  intros g skip s free jobs tree cost k0 jid0 idx0 pl0 Hst Hj Hnn Ht Hsel. unfold gselect in Hsel.
  pose proof (evaluate_all_minimal gsucc (list Z) gcost vlt vlt_irrefl vlt_trans vlt_negtrans (nat * groute) single (gpair dur dist g skip)
                (offered s free) jobs tree) as Hmin.
  assert (Hgrid : grid_ok gsucc (list Z) gcost vlt (nat * groute) single (gpair dur dist g skip) (offered s free) jobs).
  { intros kr j Hkr _. unfold gpair. apply gcell_ok. apply Hnn. exact Hkr. }
  specialize (Hmin Hgrid Ht). rewrite Hsel in Hmin. destruct Hmin as [([k0' r0] & j0 & Hr0 & Hj0 & Hfull) Hall].
  unfold gpair in Hfull. cbn [fst snd] in Hfull.
  destruct (pair_selected_minimises_realised g (skip r0 j0) s free jobs k0' r0 j0 cost k0 jid0 idx0 pl0 Hst Hj Hr0 Hj0 Hfull)
    as (Hm0 & Hk0 & Hjid & _). subst k0' jid0.
  exists r0, j0. split; [exact Hr0|]. split; [exact Hj0|]. split; [reflexivity|]. split; [exact Hm0|].
  intros k r j e Hr Hjin He Hoke Hok0.
  rewrite (enumerated_realised g (skip r j) s free jobs k r j e Hst Hj Hr Hjin He Hoke).
  rewrite (enumerated_realised g (skip r0 j0) s free jobs k0 r0 j0 (idx0, pl0, cost) Hst Hj Hr0 Hj0 Hm0 Hok0).
  rewrite vlt_shift. change (vc_vec (idx0, pl0, cost)) with cost.
  (* e is not better than its own pair's result, which is not better than the selected one *)
  destruct (gcell_full g (skip r j) k r j) as [[Hnil _]|(m & Hm & Hs & Hminp)]; [rewrite Hnil in He; destruct He|].
  specialize (Hall (k, r) j _ Hr Hjin Hs). unfold gcost in Hall. cbn [fst] in Hall.
  apply (vlt_negtrans _ _ _ (Hminp e He) Hall).
Qed.

(* goals made of the additive objectives only: the hypothesis about the candidates disappears *)
Definition feat_additive (f : feat) : Prop :=
  match f with FUnassigned _ | FMinTours | FMaxTours | FValue _ | FDistance => True | _ => False end.
Definition goal_additive (g : list glayer) : Prop := Forall (fun l => Forall feat_additive (layer_feats l)) g.

Lemma goal_additive_ok : forall g r idx x, goal_additive g -> goal_ok dur g r idx x.
Proof.
  intros g r idx x H. unfold goal_additive, goal_ok, layer_ok in *. rewrite Forall_forall in *. intros l Hl.
  specialize (H l Hl). rewrite Forall_forall in *. intros f Hf. specialize (H f Hf). destruct f; cbn [feat_additive feat_ok] in *; try exact I; contradiction.
Qed.

(* activity-level vectors of an additive goal are >= 0 when the distance matrix is non-negative and satisfies the triangle inequality *)
Lemma sumz_all_zero : forall {A} (f : A -> Z) l, (forall a, In a l -> f a = 0) -> sumz (map f l) = 0.
Proof.
  unfold sumz. induction l as [|a l IH]; intros H; cbn [map fold_right]; [reflexivity|].
  rewrite (H a (or_introl eq_refl)), IH; [reflexivity|]. intros; apply H; right; assumption.
Qed.
End MainP.


(* ================= the cost clause WITH waiting: the quote is a lower bound of the realised change ================= *)
Section CostWait.
Variable dur dist : Z -> Z -> Z.

(* the departure from the last activity when `acts` are carried out from (loc, dep) *)
Fixpoint fin (loc dep : Z) (acts : list act) : Z :=
  match acts with [] => dep | a :: r => fin (a_loc a) (est_departure a (dep + dur loc (a_loc a))) r end.
(* the waiting time the recorded schedule contains, every activity counted *)
Fixpoint wtrue (acts : list act) : Z :=
  match acts with [] => 0 | a :: r => Z.max 0 (a_tws a - a_arr a) + wtrue r end.

Lemma last_dep_cons : forall d a r, last_dep d (a :: r) = last_dep (a_dep a) r.
Proof. reflexivity. Qed.

Lemma last_dep_resched : forall acts loc dep, last_dep dep (resched_from dur loc dep acts) = fin loc dep acts.
Proof.
  induction acts as [|a r IH]; intros loc dep; [reflexivity|]. cbn [resched_from fin]. rewrite last_dep_cons.
  cbn [a_dep set_sched a_loc]. apply IH.
Qed.

Lemma last_dep_sched : forall acts loc dep, sched_ok_from dur loc dep acts -> last_dep dep acts = fin loc dep acts.
Proof.
  induction acts as [|a r IH]; intros loc dep H; [reflexivity|]. destruct H as (H1 & H2 & H3). cbn [fin]. rewrite last_dep_cons.
  rewrite (IH _ _ H3). rewrite H2, H1. reflexivity.
Qed.

Lemma last_dep_app : forall X p B d, last_dep d (X ++ p :: B) = last_dep (a_dep p) B.
Proof. induction X as [|a X IH]; intros p B d; [reflexivity|]. cbn [app]. rewrite last_dep_cons. apply IH. Qed.

(* a delay (or an advance) delta of the departure before `r` moves the final departure by at least delta minus the waiting it can absorb *)
Lemma fin_delay : forall r loc d0 delta, sched_ok_from dur loc d0 r ->
  delta - Z.min (wtrue r) (Z.max 0 delta) <= fin loc (d0 + delta) r - fin loc d0 r.
Proof.
  induction r as [|a r IH]; intros loc d0 delta H; cbn [fin wtrue]; [lia|].
  destruct H as (H1 & H2 & H3).
  set (d' := est_departure a (d0 + delta + dur loc (a_loc a)) - est_departure a (d0 + dur loc (a_loc a))).
  replace (est_departure a (d0 + delta + dur loc (a_loc a))) with (est_departure a (d0 + dur loc (a_loc a)) + d') by (unfold d'; lia).
  rewrite <- H1 in *. rewrite <- H2 in *.
  specialize (IH (a_loc a) (a_dep a) d' H3).
  assert (Hd : delta - Z.min (Z.max 0 (a_tws a - a_arr a) + wtrue r) (Z.max 0 delta) <= d' - Z.min (wtrue r) (Z.max 0 d')).
  { unfold d', est_departure. replace (d0 + delta + dur loc (a_loc a)) with (a_arr a + delta) by lia.
    assert (0 <= wtrue r) by (clear; induction r; cbn [wtrue]; lia). lia. }
  lia.
Qed.

Definition terminals_punctual (acts : list act) : Prop := Forall (fun a => is_terminal a = true -> a_tws a <= a_arr a) acts.

Lemma waiting_of_wtrue : forall r, terminals_punctual r -> waiting_of r = wtrue r.
Proof.
  induction 1 as [|a r Ha _ IH]; cbn [waiting_of wtrue]; [reflexivity|]. rewrite IH. unfold is_terminal in Ha.
  destruct (a_job a <? 0); [specialize (Ha eq_refl); lia|reflexivity].
Qed.

Lemma wtrue_nonneg : forall r, 0 <= wtrue r.
Proof. induction r; cbn [wtrue]; lia. Qed.

(* only the last activity after the start may be a terminal one (the end of a closed tour) *)
Definition jobs_inside (t : list act) : Prop := Forall (fun a => is_terminal a = false) (removelast (tl t)).

Lemma removelast_app_cons : forall {A} (X : list A) a b r, removelast (X ++ a :: b :: r) = X ++ a :: removelast (b :: r).
Proof.
  intros A X a b r. rewrite removelast_app by discriminate. f_equal.
Qed.

Theorem cost_quote_le_realised : forall v t idx x,
  (idx < length t)%nat -> sched_ok dur t ->
  v_ptime v = v_psvc v -> v_psvc v = v_pwait v -> 0 <= v_ptime v ->
  (has_jobs t = false -> (length t <= 2)%nat /\ idx = 0%nat) ->
  terminals_punctual (tl t) -> jobs_inside t ->
  cost_quote dur dist v t idx x <= cost_fitness dist v (reschedule dur (insert_after t idx x)) - route_cost dist v t.
Proof.
  intros v t idx x Hidx Hs Hu1 Hu2 Hc Hempty Htp Hji.
  destruct (split_at t idx x Hidx) as [Et Hl].
  unfold cost_fitness, route_cost, cost_quote, cost_estimate_route, cost_fitness.
  rewrite total_distance_reschedule.
  pose proof (leg_estimate_exact dist t idx x Hidx Hempty) as HD. unfold leg_estimate in HD.
  unfold cost_estimate_activity.
  rewrite (insert_after_split t idx x x Hidx) in *.
  set (A := firstn idx t) in *. set (p := nth idx t x) in *. set (B := skipn (S idx) t) in *.
  rewrite Et in Hs. rewrite (reschedule_insert dur A p B x Hs).
  pose proof (sched_tail dur A p B Hs) as HsB.
  unfold max3. replace (Z.max (Z.max (v_ptime v) (v_psvc v)) (v_pwait v)) with (v_ptime v) by lia.
  (* durations through the final departures *)
  assert (HdurT : exists s0, total_duration (A ++ p :: resched_from dur (a_loc p) (a_dep p) (x :: B)) = fin (a_loc p) (a_dep p) (x :: B) - s0 /\
                             total_duration t = fin (a_loc p) (a_dep p) B - s0 /\ (A = [] -> s0 = a_dep p)).
  { rewrite Et. destruct A as [|s A']; cbn [app].
    - exists (a_dep p). rewrite !total_duration_last_dep. rewrite last_dep_resched, (last_dep_sched B _ _ HsB). auto.
    - exists (a_dep s). rewrite !total_duration_last_dep. rewrite !last_dep_app. rewrite last_dep_resched, (last_dep_sched B _ _ HsB).
      split; [reflexivity|]. split; [reflexivity|discriminate]. }
  destruct HdurT as (s0 & HT' & HT & Hs0). rewrite HT', HT. clear HT' HT.
  unfold route_leg, tp_cost, act_cost.
  set (arrx := a_dep p + dur (a_loc p) (a_loc x)).
  assert (Hwx : (if arrx <? a_tws x then a_tws x - arrx else 0) = est_departure x arrx - arrx - a_svc x) by (unfold est_departure; destruct (arrx <? a_tws x) eqn:E; lia).
  destruct B as [|n r] eqn:EB.
  - (* end of an open tour / an empty open tour *)
    cbn [fin]. fold arrx. rewrite Hwx.
    destruct (has_jobs t) eqn:Hj; cbn [negb] in *.
    + rewrite <- Hu2, <- Hu1. unfold arrx in *. nia.
    + destruct (Hempty eq_refl) as [_ Hi0]. assert (HA : A = []) by (destruct A; [reflexivity|cbn in Hl; lia]).
      rewrite (Hs0 HA). rewrite <- Hu2, <- Hu1. unfold arrx in *. nia.
  - cbn [fin]. fold arrx.
    set (depl := est_departure x arrx).
    set (arrn := depl + dur (a_loc x) (a_loc n)). set (arro := a_dep p + dur (a_loc p) (a_loc n)).
    assert (Hwn : (if arrn <? a_tws n then a_tws n - arrn else 0) = est_departure n arrn - arrn - a_svc n) by (unfold est_departure; destruct (arrn <? a_tws n) eqn:E; lia).
    assert (Hwo : (if arro <? a_tws n then a_tws n - arro else 0) = est_departure n arro - arro - a_svc n) by (unfold est_departure; destruct (arro <? a_tws n) eqn:E; lia).
    rewrite Hwx, Hwn, Hwo.
    destruct HsB as (Ha1 & Ha2 & Ha3). fold arro in Ha1.
    set (delta := est_departure n arrn - est_departure n arro).
    pose proof (fin_delay r (a_loc n) (est_departure n arro) delta) as Hfd. rewrite <- Ha1, <- Ha2 in Hfd. specialize (Hfd Ha3).
    replace (a_dep n + delta) with (est_departure n arrn) in Hfd by (unfold delta; rewrite Ha2, Ha1; lia).
    rewrite Ha2, Ha1 in Hfd.
    destruct (has_jobs t) eqn:Hj; cbn [negb] in *.
    + (* the waiting credit *)
      assert (HW : wtrue r <= (if is_terminal n then 0 else waiting_of (n :: r))).
      { assert (Htr : terminals_punctual r).
        { unfold terminals_punctual in *. rewrite Et in Htp. destruct A as [|s A']; cbn [app tl] in Htp.
          - inversion Htp; assumption.
          - apply Forall_app in Htp as [_ Htp]. inversion Htp as [|? ? _ Htp']. inversion Htp'; assumption. }
        destruct (is_terminal n) eqn:Etn.
        - (* a terminal n is the last activity *)
          destruct r as [|b r']; [cbn; lia|]. exfalso. unfold jobs_inside in Hji. rewrite Et in Hji.
          destruct A as [|s A']; cbn [app tl] in Hji.
          + change (n :: b :: r') with ([] ++ n :: b :: r') in Hji. rewrite removelast_app_cons in Hji. cbn [app] in Hji.
            inversion Hji; congruence.
          + replace (A' ++ p :: n :: b :: r') with ((A' ++ [p]) ++ n :: b :: r') in Hji by (rewrite <- app_assoc; reflexivity).
            rewrite removelast_app_cons in Hji. apply Forall_app in Hji as [_ Hji]. inversion Hji; congruence.
        - cbn [waiting_of]. rewrite (waiting_of_wtrue r Htr). unfold is_terminal in Etn. rewrite Etn. lia. }
      fold delta.
      set (W := if is_terminal n then 0 else waiting_of (n :: r)) in *.
      replace (est_departure n arrn - est_departure n arro) with delta by reflexivity.
      assert (Hmono : delta - Z.min W (Z.max 0 delta) <= fin (a_loc n) (est_departure n arrn) r - fin (a_loc n) (est_departure n arro) r) by lia.
      rewrite <- Hu2, <- Hu1. unfold delta, arrn, arro, depl, arrx in *. nia.
    + destruct (Hempty eq_refl) as [Hlen Hi0]. assert (HA : A = []) by (destruct A; [reflexivity|cbn in Hl; lia]).
      rewrite (Hs0 HA). assert (Hr : r = []).
      { rewrite Et, HA in Hlen. cbn in Hlen. destruct r; [reflexivity|cbn in Hlen; lia]. }
      subst r. cbn [fin]. rewrite <- Hu2, <- Hu1. unfold delta, arrn, arro, depl, arrx in *. nia.
Qed.
End CostWait.


(* ================= cost clause: cases where the quote is exact although the tour waits ================= *)
Section CostExactCases.
Variable dur dist : Z -> Z -> Z.

(* the first insertion into an unused tour, and an insertion behind the last activity of an open tour: nothing after the new
   activity can absorb or add waiting, the waiting AT the new activity is part of the quote *)
Theorem cost_quote_exact_new_tour_or_last : forall v t idx x,
  (idx < length t)%nat -> sched_ok dur t ->
  v_ptime v = v_psvc v -> v_psvc v = v_pwait v ->
  (has_jobs t = false -> (length t <= 2)%nat /\ idx = 0%nat) ->
  (has_jobs t = false \/ skipn (S idx) t = []) ->
  cost_fitness dist v (reschedule dur (insert_after t idx x)) - route_cost dist v t = cost_quote dur dist v t idx x.
Proof.
  intros v t idx x Hidx Hs Hu1 Hu2 Hempty Hcase.
  destruct (split_at t idx x Hidx) as [Et Hl].
  unfold cost_fitness, route_cost, cost_quote, cost_estimate_route, cost_fitness.
  rewrite total_distance_reschedule.
  pose proof (leg_estimate_exact dist t idx x Hidx Hempty) as HD. unfold leg_estimate in HD.
  unfold cost_estimate_activity.
  rewrite (insert_after_split t idx x x Hidx) in *.
  set (A := firstn idx t) in *. set (p := nth idx t x) in *. set (B := skipn (S idx) t) in *.
  rewrite Et in Hs. rewrite (reschedule_insert dur A p B x Hs).
  pose proof (sched_tail dur A p B Hs) as HsB.
  unfold max3. replace (Z.max (Z.max (v_ptime v) (v_psvc v)) (v_pwait v)) with (v_ptime v) by lia.
  assert (HdurT : exists s0, total_duration (A ++ p :: resched_from dur (a_loc p) (a_dep p) (x :: B)) = fin dur (a_loc p) (a_dep p) (x :: B) - s0 /\
                             total_duration t = fin dur (a_loc p) (a_dep p) B - s0 /\ (A = [] -> s0 = a_dep p)).
  { rewrite Et. destruct A as [|s A']; cbn [app].
    - exists (a_dep p). rewrite !total_duration_last_dep. rewrite last_dep_resched, (last_dep_sched dur B _ _ HsB). auto.
    - exists (a_dep s). rewrite !total_duration_last_dep. rewrite !last_dep_app. rewrite last_dep_resched, (last_dep_sched dur B _ _ HsB).
      split; [reflexivity|]. split; [reflexivity|discriminate]. }
  destruct HdurT as (s0 & HT' & HT & Hs0). rewrite HT', HT. clear HT' HT.
  unfold route_leg, tp_cost, act_cost.
  set (arrx := a_dep p + dur (a_loc p) (a_loc x)).
  assert (Hwx : (if arrx <? a_tws x then a_tws x - arrx else 0) = est_departure x arrx - arrx - a_svc x)
    by (unfold est_departure; destruct (arrx <? a_tws x) eqn:E; lia).
  destruct B as [|n r] eqn:EB.
  - cbn [fin]. fold arrx. rewrite Hwx.
    destruct (has_jobs t) eqn:Hj; cbn [negb] in *.
    + rewrite <- Hu2, <- Hu1. unfold arrx in *. nia.
    + destruct (Hempty eq_refl) as [_ Hi0]. assert (HA : A = []) by (destruct A; [reflexivity|cbn in Hl; lia]).
      rewrite (Hs0 HA). rewrite <- Hu2, <- Hu1. unfold arrx in *. nia.
  - destruct Hcase as [Hj|Hc]; [|discriminate]. rewrite Hj in *. cbn [negb] in *.
    cbn [fin]. fold arrx.
    set (depl := est_departure x arrx). set (arrn := depl + dur (a_loc x) (a_loc n)).
    assert (Hwn : (if arrn <? a_tws n then a_tws n - arrn else 0) = est_departure n arrn - arrn - a_svc n)
      by (unfold est_departure; destruct (arrn <? a_tws n) eqn:E; lia).
    rewrite Hwx, Hwn.
    destruct (Hempty eq_refl) as [Hlen Hi0]. assert (HA : A = []) by (destruct A; [reflexivity|cbn in Hl; lia]).
    rewrite (Hs0 HA). assert (Hr : r = []).
    { rewrite Et, HA in Hlen. cbn in Hlen. destruct r; [reflexivity|cbn in Hlen; lia]. }
    subst r. cbn [fin]. rewrite <- Hu2, <- Hu1. unfold arrn, depl, arrx in *. nia.
Qed.

(* with waiting in the tour the quote is in general strictly below the realised change: a stop that waited 50 is reached 80 later,
   its departure (and the end of the tour) moves by 30 (realised change 30), the credit min(50, 30) cancels it in the quote (0) *)
Definition wq_dur (a b : Z) : Z := if a =? b then 0 else if (a =? 2) || (b =? 2) then 45 else 10.
Definition wq_veh : vehicle := mkVeh INF 10 0 0 1 1 1.
Definition wq_tour : list act :=
  reschedule wq_dur [mkAct (-1) 0 0 0 0 dzero 0 0; mkAct 1 1 0 60 INF dzero 0 0; mkAct (-1) 0 0 0 INF dzero 0 0].
Definition wq_x : act := mkAct 9 2 0 0 INF dzero 0 0.

Theorem cost_quote_with_waiting_differs :
  sched_ok wq_dur wq_tour /\ v_ptime wq_veh = v_psvc wq_veh /\ v_psvc wq_veh = v_pwait wq_veh /\ 0 <= v_ptime wq_veh /\
  terminals_punctual (tl wq_tour) /\ jobs_inside wq_tour /\ ~ no_wait wq_tour /\
  cost_quote wq_dur wq_dur wq_veh wq_tour 0 wq_x = 0 /\
  cost_fitness wq_dur wq_veh (reschedule wq_dur (insert_after wq_tour 0 wq_x)) - route_cost wq_dur wq_veh wq_tour = 30.
Proof.
  split; [vm_compute; repeat split|]. repeat (split; [reflexivity|]). split; [cbn; lia|].
  split; [repeat constructor; cbn; intros; try discriminate; lia|].
  split; [repeat constructor|].
  split; [intros H; inversion H as [|? ? H1 _]; cbn in H1; lia|].
  split; vm_compute; reflexivity.
Qed.
End CostExactCases.

(* driver costs: the waiting credit is priced with the VEHICLE's waiting rate only, so with a driver who is paid for waiting the quote
   is no lower bound any more: a later stop absorbs the whole delay (realised change 0) while the quote charges it at the driver's rate *)
Definition dq_dur (a b : Z) : Z := if a =? b then 0 else if (a =? 3) || (b =? 3) then 25 else 10.
Definition dq_veh : vehicle := mkVeh INF 10 0 0 0 0 0.
Definition dq_drv : dcosts := mkDC 0 0 1 1 1.
Definition dq_tour : list act :=
  reschedule dq_dur [mkAct (-1) 0 0 0 0 dzero 0 0; mkAct 1 1 0 0 INF dzero 0 0; mkAct 2 2 0 100 INF dzero 0 0; mkAct (-1) 0 0 0 INF dzero 0 0].
Definition dq_x : act := mkAct 9 3 0 0 INF dzero 0 0.

Theorem cost_quote_driver_waiting_exceeds :
  sched_ok dq_dur dq_tour /\
  v_ptime dq_veh = v_psvc dq_veh /\ v_psvc dq_veh = v_pwait dq_veh /\ dc_ptime dq_drv = dc_psvc dq_drv /\ dc_psvc dq_drv = dc_pwait dq_drv /\
  cost_quote_d dq_dur dq_dur dq_veh dq_drv dq_tour 0 dq_x = 40 /\
  cost_fitness_d dq_dur dq_veh dq_drv (reschedule dq_dur (insert_after dq_tour 0 dq_x)) - route_cost_d dq_dur dq_veh dq_drv dq_tour = 0.
Proof. split; [vm_compute; repeat split|]. repeat split; vm_compute; reflexivity. Qed.

(* ================= duration objective: the quote misses the service time ================= *)
Section Duration.
Variable dur : Z -> Z -> Z.

Theorem duration_quote_plus_service_nowait : forall t idx x,
  (idx < length t)%nat -> sched_ok dur t -> no_wait t -> no_wait (reschedule dur (insert_after t idx x)) ->
  (has_jobs t = false -> (length t <= 2)%nat /\ idx = 0%nat) ->
  (has_jobs t = false -> sum_svc (tl t) = 0) ->
  total_duration (reschedule dur (insert_after t idx x)) - (if has_jobs t then total_duration t else 0)
  = leg_estimate dur t idx x + a_svc x.
Proof.
  intros t idx x Hidx Hs Hn Hn' Hempty Hsvc.
  assert (Hs' := sched_ok_reschedule dur (insert_after t idx x)).
  rewrite (total_duration_nowait dur dur _ Hs' Hn'), (total_duration_nowait dur dur _ Hs Hn).
  rewrite total_distance_reschedule, sum_svc_tl_reschedule.
  pose proof (leg_estimate_exact dur t idx x Hidx Hempty) as HD.
  destruct (split_at t idx x Hidx) as [Et _].
  assert (HI : sum_svc (tl (insert_after t idx x)) = sum_svc (tl t) + a_svc x).
  { rewrite (insert_after_split t idx x x Hidx).
    replace (sum_svc (tl t)) with (sum_svc (tl (firstn idx t ++ nth idx t x :: skipn (S idx) t))) by (rewrite <- Et; reflexivity).
    apply sum_svc_tl_insert. }
  rewrite HI. destruct (has_jobs t) eqn:Hj; [lia|]. rewrite (Hsvc eq_refl). lia.
Qed.

Definition du_tour : list act := [mkAct (-1) 0 0 0 0 dzero 0 0; mkAct 1 1 0 0 INF dzero 10 10; mkAct (-1) 0 0 0 INF dzero 20 20].
Definition du_dur (a b : Z) : Z := if a =? b then 0 else 10.
Theorem duration_quote_differs :
  sched_ok du_dur du_tour /\ no_wait du_tour /\
  leg_estimate du_dur du_tour 0 (mkAct 9 2 7 0 INF dzero 0 0) = 10 /\
  total_duration (reschedule du_dur (insert_after du_tour 0 (mkAct 9 2 7 0 INF dzero 0 0))) - total_duration du_tour = 17.
Proof. split; [vm_compute; repeat split|]. split; [repeat constructor; vm_compute; discriminate|]. split; vm_compute; reflexivity. Qed.
End Duration.

(* ================= arrival-time objective: the quote is the shift start, the objective is the mean arrival ================= *)
Definition ar_route : groute :=
  mkGR 0 (mkVeh INF 10 0 0 0 0 0) (mkDC 0 0 0 0 0) 0 true
       [mkAct (-1) 0 0 0 0 dzero 0 0; mkAct 1 1 0 0 INF dzero 10 10; mkAct (-1) 0 0 0 INF dzero 20 20].
Definition ar_sol : gsol := mkGS [ar_route] [9] [] [].
Definition ar_job : single := mkSingle 9 [mkPlace (Some 2) 0 [(0, INF)]] dzero.

Theorem arrival_quote_differs :
  let x := mkAct 9 2 0 0 INF dzero 0 0 in
  state_ok ar_sol [] /\ cand_ok ar_sol [] 0 9 0 x /\
  feat_est_route FMinArrival ar_route 9 + feat_est_act du_dur du_dur FMinArrival ar_route 0 x = 0 /\
  feat_fit_den FMinArrival (gfinalize ar_sol) = 1 /\ feat_fit_den FMinArrival (gfinalize (gapply du_dur ar_sol [] 0 9 0 x)) = 1 /\
  feat_fitness du_dur FMinArrival (gfinalize (gapply du_dur ar_sol [] 0 9 0 x)) - feat_fitness du_dur FMinArrival (gfinalize ar_sol) = 10.
Proof.
  cbv zeta. split.
  - repeat split; [repeat constructor|constructor|repeat constructor; intros []].
  - split; [unfold cand_ok; vm_compute; repeat split; auto; try lia; intros []|]. repeat split; vm_compute; reflexivity.
Qed.

(* ================= small facts about the pragmatic estimators ================= *)
Lemma merged_value_sum : forall a b, merged_value a b = a + b.
Proof. intros a b. unfold merged_value. destruct (a + b =? a) eqn:E; cbn [negb]; lia. Qed.

Lemma prag_unassigned_est_cases : forall breaks a,
  prag_unassigned_est breaks a =
  match ja_clusters a with
  | Some n => Z.of_nat n
  | None => if ja_break a then match breaks with Some b => b | None => 1 end else 1
  end.
Proof. intros breaks a. unfold prag_unassigned_est. destruct (ja_clusters a); [lia|reflexivity]. Qed.


(* ================= additive goals over a metric matrix satisfy the lower-bound hypothesis ================= *)
Lemma vcmp_from_nonneg : forall v n i, Forall (fun z => 0 <= z) v -> vcmp_from v [] i n <> Lt.
Proof.
  intros v n. induction n as [|n IH]; intros i H; cbn [vcmp_from]; [discriminate|].
  assert (H0 : 0 <= getd v i).
  { unfold getd. destruct (Nat.lt_ge_cases i (length v)) as [Hi|Hi].
    - rewrite Forall_forall in H. apply H. apply nth_In. exact Hi.
    - rewrite nth_overflow by exact Hi. lia. }
  assert (Hn : getd [] i = 0) by (unfold getd; destruct i; reflexivity). rewrite Hn.
  destruct (Z.compare_spec (getd v i) 0); [apply IH; exact H|lia|discriminate].
Qed.

Lemma vlt_nonneg_nil : forall v, Forall (fun z => 0 <= z) v -> vlt v [] = false.
Proof.
  intros v H. unfold vlt, vcost_cmp. pose proof (vcmp_from_nonneg v (Nat.max (length v) (length (@nil Z))) 0%nat H) as Hn.
  destruct (vcmp_from v [] 0 (Nat.max (length v) (length (@nil Z)))); congruence.
Qed.

Lemma sumz_nonneg : forall l, Forall (fun z => 0 <= z) l -> 0 <= sumz l.
Proof. unfold sumz. induction 1; cbn [fold_right]; lia. Qed.

Definition weights_nonneg (g : list glayer) : Prop :=
  Forall (fun l => match l with GWeighted wfs => Forall (fun wf => 0 <= fst wf) wfs | _ => True end) g.

Section Metric.
Variable dur dist : Z -> Z -> Z.
Hypothesis dist_nonneg : forall a b, 0 <= dist a b.
Hypothesis dist_triangle : forall a b c, dist a c <= dist a b + dist b c.

Lemma feat_act_nonneg : forall f r idx x, feat_additive f -> 0 <= feat_est_act dur dist f r idx x.
Proof.
  intros f r idx x H. destruct f; cbn [feat_additive] in H; try contradiction; cbn [feat_est_act]; try lia.
  apply leg_estimate_nonneg; assumption.
Qed.

Lemma additive_act_nonneg : forall g r, goal_additive g -> weights_nonneg g -> act_nonneg dur dist g r.
Proof.
  intros g r Ha Hw idx x. apply vlt_nonneg_nil. unfold goal_est_act. rewrite Forall_map.
  unfold goal_additive, weights_nonneg in *. rewrite Forall_forall in *. intros l Hl.
  specialize (Ha l Hl). specialize (Hw l Hl). rewrite Forall_forall in Ha.
  destruct l as [f|fs|wfs]; cbn [layer_est_act layer_feats] in *.
  - apply feat_act_nonneg. apply Ha. left; reflexivity.
  - apply sumz_nonneg. rewrite Forall_map, Forall_forall. intros f Hf. apply feat_act_nonneg. apply Ha. exact Hf.
  - apply sumz_nonneg. rewrite Forall_map, Forall_forall. intros wf Hf. rewrite Forall_forall in Hw.
    pose proof (Hw wf Hf). assert (0 <= feat_est_act dur dist (snd wf) r idx x) by (apply feat_act_nonneg; apply Ha; apply in_map; exact Hf). nia.
Qed.

(* the consequence clause at full strength for goals of additive objectives: under EVERY schedule of the parallel fold the selected
   insertion is one of the enumerated candidates and no enumerated candidate of any (route, job) pair realises a lexicographically
   smaller change of the goal's values *)
Theorem additive_selected_is_cheapest : forall g skip s free jobs tree cost k0 jid0 idx0 pl0,
  state_ok s free -> jobs_ok s jobs -> goal_additive g -> weights_nonneg g ->
  pflatten tree = cartesian_product (offered s free) jobs ->
  gselect dur dist g skip tree = RSuccess (cost, (k0, jid0, idx0, pl0)) ->
  exists r0 j0, In (k0, r0) (offered s free) /\ In j0 jobs /\ s_id j0 = jid0 /\
    In (idx0, pl0, cost) (gcands dur dist g (skip r0 j0) r0 j0) /\
    forall k r j e, In (k, r) (offered s free) -> In j jobs -> In e (gcands dur dist g (skip r j) r j) ->
      vlt (grealised dur dist g s free k j e) (grealised dur dist g s free k0 j0 (idx0, pl0, cost)) = false.
Proof.
  intros g skip s free jobs tree cost k0 jid0 idx0 pl0 Hst Hj Ha Hw Ht Hsel.
  destruct (grid_selected_minimises_realised dur dist g skip s free jobs tree cost k0 jid0 idx0 pl0 Hst Hj
              (fun kr _ => additive_act_nonneg g (snd kr) Ha Hw) Ht Hsel) as (r0 & j0 & H1 & H2 & H3 & H4 & H5).
  exists r0, j0. repeat (split; [assumption|]). intros k r j e Hr Hjin He.
  apply (H5 k r j e Hr Hjin He); apply goal_additive_ok; exact Ha.
Qed.
End Metric.

(* ================= without the lower bound the selection is NOT the cheapest (the prune-by-route-cost shortcut, finding C15-F1) ================= *)
Ltac nodup_tac := repeat (constructor; [cbn; intuition discriminate|]); constructor.
Ltac state_tac := unfold state_ok; split; [repeat constructor|]; split; [repeat constructor; cbn; lia|nodup_tac].
Ltac jobs_tac := unfold jobs_ok; repeat (constructor; [cbn; split; [lia|split; [intuition lia|intuition discriminate]]|]); constructor.

Definition pr_route : groute :=
  mkGR 0 (mkVeh INF 10 0 1 0 0 0) (mkDC 0 0 0 0 0) 0 true
       [mkAct (-1) 0 0 0 0 dzero 0 0; mkAct 5 1 0 0 INF dzero 0 0; mkAct (-1) 0 0 0 INF dzero 0 0].
Definition pr_sol : gsol := mkGS [pr_route] [8; 7] [] [].
Definition pr_goal : list glayer := [GSingle (FUnassigned (fun _ => 1)); GSingle FMinTours; GSingle FDistance].
Definition pr_jobs : list single := [nm_job 8 3; nm_job 7 2].
Definition pr_noskip (_ : groute) (_ : single) : bool := false.

Theorem selected_not_cheapest_under_prune :
  (forall a b, 0 <= nm_dist a b) /\
  state_ok pr_sol [] /\ jobs_ok pr_sol pr_jobs /\ goal_additive pr_goal /\ weights_nonneg pr_goal /\
  exists cost k0 jid0 idx0 pl0 e,
    gselect (fun _ _ => 0) nm_dist pr_goal pr_noskip (PLeaf (cartesian_product (offered pr_sol []) pr_jobs)) = RSuccess (cost, (k0, jid0, idx0, pl0)) /\
    In e (gcands (fun _ _ => 0) nm_dist pr_goal false pr_route (nm_job 7 2)) /\
    cost = [-1; 0; -80] /\ vc_vec e = [-1; 0; -98] /\
    vlt (grealised (fun _ _ => 0) nm_dist pr_goal pr_sol [] 0 (nm_job 7 2) e)
        (grealised (fun _ _ => 0) nm_dist pr_goal pr_sol [] k0 (nm_job 8 3) (idx0, pl0, cost)) = true.
Proof.
  split; [apply nonmetric_estimate_negative|].
  split; [state_tac|]. split; [jobs_tac|].
  split; [repeat constructor|]. split; [repeat constructor|].
  eexists _, _, _, _, _, (0%nat, (0%nat, 2, 0, 0, INF), [-1; 0; -98]).
  split; [vm_compute; reflexivity|]. split; [vm_compute; left; reflexivity|]. repeat split; vm_compute; reflexivity.
Qed.

(* ================= non-vacuity of the consequence theorem ================= *)
Definition nvs_dist (a b : Z) : Z := Z.abs (a - b) * 10.
Definition nvs_used : groute :=
  mkGR 0 (mkVeh INF 10 7 1 1 1 1) (mkDC 0 0 0 0 0) 0 true
       (reschedule nvs_dist [mkAct (-1) 0 0 0 0 dzero 0 0; mkAct 1 3 0 0 INF dzero 0 0; mkAct (-1) 0 0 0 INF dzero 0 0]).
Definition nvs_free : groute :=
  mkGR 1 (mkVeh INF 10 3 1 1 1 1) (mkDC 0 0 0 0 0) 0 true [mkAct (-1) 0 0 0 0 dzero 0 0; mkAct (-1) 0 0 0 INF dzero 0 0].
Definition nvs_sol : gsol := mkGS [nvs_used] [90; 91] [] [700].
Definition nvs_jobs : list single :=
  [mkSingle 90 [mkPlace (Some 2) 0 [(0, INF)]; mkPlace (Some 5) 0 [(0, INF)]] dzero; mkSingle 91 [mkPlace (Some 4) 0 [(0, 5); (0, INF)]] dzero].
Definition nvs_goal : list glayer :=
  [GSingle (FUnassigned (fun j => if j =? 91 then 3 else 1)); GSum [FMinTours; FValue (fun _ j => j - 89)]; GSingle FDistance].

Theorem consequence_nonvacuous :
  (forall a b, 0 <= nvs_dist a b) /\ (forall a b c, nvs_dist a c <= nvs_dist a b + nvs_dist b c) /\
  state_ok nvs_sol [nvs_free] /\ jobs_ok nvs_sol nvs_jobs /\ goal_additive nvs_goal /\ weights_nonneg nvs_goal /\
  gselect nvs_dist nvs_dist nvs_goal pr_noskip (PNode (PLeaf (firstn 3 (cartesian_product (offered nvs_sol [nvs_free]) nvs_jobs)))
                                                     (PLeaf (skipn 3 (cartesian_product (offered nvs_sol [nvs_free]) nvs_jobs))))
  = RSuccess ([-3; -2; 20], (0%nat, 91, 0%nat, (0%nat, 4, 0, 0, INF))) /\
  length (flat_map (fun p : (nat * groute) * single => gcands nvs_dist nvs_dist nvs_goal false (snd (fst p)) (snd p))
                   (cartesian_product (offered nvs_sol [nvs_free]) nvs_jobs)) = 9%nat.
Proof.
  split; [intros; unfold nvs_dist; lia|]. split; [intros; unfold nvs_dist; lia|].
  split; [state_tac|]. split; [jobs_tac|].
  split; [repeat constructor|]. split; [repeat constructor|]. split; vm_compute; reflexivity.
Qed.

(* ================= the statements in the form Properties/C20.v pins ================= *)
Theorem goal_quote_vector_exact : forall dur dist g s free k jid idx x,
  state_ok s free -> cand_ok s free k jid idx x ->
  goal_ok dur g (nth k (gs_routes s ++ free) dummy_route) idx x ->
  (gs_routes s <> [] \/ gs_ignored s = []) ->
  map (fun l => layer_value dist l (gfinalize (gapply dur s free k jid idx x)) - layer_value dist l (gfinalize s)) g
  = icost_add (goal_est_act dur dist g (nth k (gs_routes s ++ free) dummy_route) idx x)
              (goal_est_route g (nth k (gs_routes s ++ free) dummy_route) jid).
Proof.
  intros dur dist g s free k jid idx x Hst Hc Hok Hr. rewrite (goal_delta dur dist g s free k jid idx x Hst Hc Hok).
  rewrite (goal_shift_zero g s Hr). apply (icost_add_zero_r dur dist).
  unfold goal_est_act, goal_est_route. rewrite icost_add_map, map_length. reflexivity.
Qed.

(* finding C20-F1 on this model: the first route of a solution with ignored jobs *)
Theorem goal_quote_vector_refuted_ignored :
  exists dur dist g s free k jid idx x,
    state_ok s free /\ cand_ok s free k jid idx x /\ goal_ok dur g (nth k (gs_routes s ++ free) dummy_route) idx x /\
    map (fun l => layer_value dist l (gfinalize (gapply dur s free k jid idx x)) - layer_value dist l (gfinalize s)) g
    <> icost_add (goal_est_act dur dist g (nth k (gs_routes s ++ free) dummy_route) idx x)
                 (goal_est_route g (nth k (gs_routes s ++ free) dummy_route) jid).
Proof.
  exists nvs_dist, nvs_dist, [GSingle (FUnassigned (fun _ => 1))], (mkGS [] [90] [] [700; 701]), [nvs_free], 0%nat, 90, 0%nat,
         (mkAct 90 2 0 0 INF dzero 0 0).
  split; [state_tac|]. split; [unfold cand_ok; cbn; repeat split; auto; try lia; intuition discriminate|].
  split; [repeat constructor|]. vm_compute. discriminate.
Qed.

Theorem cost_quote_with_waiting_refuted :
  exists dur dist v t idx x,
    (idx < length t)%nat /\ sched_ok dur t /\ v_ptime v = v_psvc v /\ v_psvc v = v_pwait v /\
    (has_jobs t = false -> (length t <= 2)%nat /\ idx = 0%nat) /\ ~ no_wait t /\
    cost_fitness dist v (reschedule dur (insert_after t idx x)) - route_cost dist v t <> cost_quote dur dist v t idx x.
Proof.
  exists wq_dur, wq_dur, wq_veh, wq_tour, 0%nat, wq_x.
  destruct cost_quote_with_waiting_differs as (H1 & H2 & H3 & _ & _ & _ & H7 & H8 & H9).
  split; [cbn; lia|]. split; [exact H1|]. split; [exact H2|]. split; [exact H3|]. split; [intros H; vm_compute in H; discriminate|].
  split; [exact H7|]. rewrite H8, H9. discriminate.
Qed.

Theorem cost_quote_lower_bound_driver_refuted :
  exists dur dist v d t idx x,
    (idx < length t)%nat /\ sched_ok dur t /\
    v_ptime v = v_psvc v /\ v_psvc v = v_pwait v /\ dc_ptime d = dc_psvc d /\ dc_psvc d = dc_pwait d /\ 0 <= v_ptime v /\ 0 <= dc_ptime d /\
    terminals_punctual (tl t) /\ jobs_inside t /\
    cost_fitness_d dist v d (reschedule dur (insert_after t idx x)) - route_cost_d dist v d t < cost_quote_d dur dist v d t idx x.
Proof.
  exists dq_dur, dq_dur, dq_veh, dq_drv, dq_tour, 0%nat, dq_x.
  destruct cost_quote_driver_waiting_exceeds as (H1 & H2 & H3 & H4 & H5 & H6 & H7).
  split; [cbn; lia|]. split; [exact H1|]. repeat (split; [reflexivity|]). split; [cbn; lia|].
  split; [repeat constructor; cbn; intros; try discriminate; lia|]. split; [repeat constructor|]. rewrite H6, H7. lia.
Qed.

Theorem duration_quote_refuted :
  exists dur t idx x,
    (idx < length t)%nat /\ sched_ok dur t /\ no_wait t /\ no_wait (reschedule dur (insert_after t idx x)) /\ has_jobs t = true /\
    total_duration (reschedule dur (insert_after t idx x)) - total_duration t <> leg_estimate dur t idx x.
Proof.
  exists du_dur, du_tour, 0%nat, (mkAct 9 2 7 0 INF dzero 0 0).
  destruct duration_quote_differs as (H1 & H2 & H3 & H4).
  split; [cbn; lia|]. split; [exact H1|]. split; [exact H2|]. split; [repeat constructor; cbn; lia|]. split; [reflexivity|].
  rewrite H3, H4. discriminate.
Qed.

Theorem arrival_quote_refuted :
  exists dur dist s free k jid idx x,
    state_ok s free /\ cand_ok s free k jid idx x /\
    feat_fit_den FMinArrival (gfinalize s) = 1 /\ feat_fit_den FMinArrival (gfinalize (gapply dur s free k jid idx x)) = 1 /\
    feat_fitness dist FMinArrival (gfinalize (gapply dur s free k jid idx x)) - feat_fitness dist FMinArrival (gfinalize s)
    <> feat_est_route FMinArrival (nth k (gs_routes s ++ free) dummy_route) jid
       + feat_est_act dur dist FMinArrival (nth k (gs_routes s ++ free) dummy_route) idx x.
Proof.
  exists du_dur, du_dur, ar_sol, [], 0%nat, 9, 0%nat, (mkAct 9 2 0 0 INF dzero 0 0).
  destruct arrival_quote_differs as (H1 & H2 & H3 & H4 & H5 & H6).
  split; [exact H1|]. split; [exact H2|]. split; [exact H4|]. split; [exact H5|]. rewrite H6. vm_compute. discriminate.
Qed.

(* the consequence clause fails under the route-cost prune when activity-level estimates are negative (C15-F1): exists-form *)
Theorem selected_is_cheapest_refuted_under_prune :
  exists dur dist g s free jobs cost k0 j0 idx0 pl0 k r j e,
    (forall a b, 0 <= dist a b) /\ state_ok s free /\ jobs_ok s jobs /\ goal_additive g /\ weights_nonneg g /\
    gselect dur dist g (fun _ _ => false) (PLeaf (cartesian_product (offered s free) jobs)) = RSuccess (cost, (k0, s_id j0, idx0, pl0)) /\
    In j0 jobs /\ In (k, r) (offered s free) /\ In j jobs /\ In e (gcands dur dist g false r j) /\
    vlt (grealised dur dist g s free k j e) (grealised dur dist g s free k0 j0 (idx0, pl0, cost)) = true.
Proof.
  destruct selected_not_cheapest_under_prune as (H1 & H2 & H3 & H4 & H5 & cost & k0 & jid0 & idx0 & pl0 & e & H6 & H7 & H8 & H9 & H10).
  assert (Hsel := H6). vm_compute in Hsel. inversion Hsel; subst cost k0 jid0 idx0 pl0.
  exists (fun _ _ => 0), nm_dist, pr_goal, pr_sol, [], pr_jobs, [-1; 0; -80], 0%nat, (nm_job 8 3), 0%nat, (0%nat, 3, 0, 0, INF),
         0%nat, pr_route, (nm_job 7 2), e.
  split; [exact H1|]. split; [exact H2|]. split; [exact H3|]. split; [exact H4|]. split; [exact H5|].
  split; [exact H6|]. split; [left; reflexivity|]. split; [left; reflexivity|]. split; [right; left; reflexivity|].
  split; [exact H7|exact H10].
Qed.
