(* C11 (b) — a written activity matches back to its own job / place when nothing else is indistinguishable from it. *)
From VRP Require Import Base.Tac Base.Json Model.InitReader.
Open Scope string_scope.

Lemma find_idx_first {A} (f : A -> bool) l n i a :
  nth_error l i = Some a -> f a = true ->
  (forall j b, (j < i)%nat -> nth_error l j = Some b -> f b = false) ->
  find_idx f l n = Some ((n + i)%nat, a).
Proof.
  revert n i. induction l as [|x l IH]; intros n i Hn Hf Hlt; [destruct i; discriminate|].
  destruct i as [|i]; cbn in Hn.
  - inversion Hn; subst. cbn. rewrite Hf. f_equal. f_equal. lia.
  - cbn. rewrite (Hlt 0%nat x) by (cbn; auto; lia).
    rewrite (IH (S n) i Hn Hf).
    + f_equal. f_equal. lia.
    + intros j b Hj Hb. apply (Hlt (S j) b); [lia|exact Hb].
Qed.

Lemma rfind_last {A} (f : A -> bool) l k a :
  nth_error l k = Some a -> f a = true ->
  (forall k' b, (k < k')%nat -> nth_error l k' = Some b -> f b = false) ->
  rfind f l = Some a.
Proof.
  revert k. induction l as [|x l IH]; intros k Hn Hf Hgt; [destruct k; discriminate|].
  destruct k as [|k]; cbn in Hn.
  - inversion Hn; subst. cbn.
    assert (Hr : rfind f l = None).
    { clear -Hgt. assert (H : forall k' b, nth_error l k' = Some b -> f b = false).
      { intros k' b Hb. apply (Hgt (S k') b); [lia|exact Hb]. }
      clear Hgt. induction l as [|y l IHl]; [reflexivity|]. cbn.
      rewrite IHl by (intros k' b Hb; apply (H (S k') b Hb)).
      rewrite (H 0%nat y eq_refl). reflexivity. }
    rewrite Hr, Hf. reflexivity.
  - cbn. rewrite (IH k Hn Hf); [reflexivity|].
    intros k' b Hk Hb. apply (Hgt (S k') b); [lia|exact Hb].
Qed.

Lemma intersects_refl w : le_zo (fst w) (snd w) = true -> intersects w w = true.
Proof. intros H. unfold intersects. rewrite H. reflexivity. Qed.

Lemma accepts_intro p loc start w k sp :
  loc_ok p loc = true -> nth_error (p_times p) k = Some sp -> intersects (to_window start sp) w = true ->
  accepts p loc start w = true.
Proof.
  intros Hl Hk Hi. unfold accepts. rewrite Hl. cbn. apply existsb_exists. exists sp. split; [|exact Hi].
  eapply nth_error_In. exact Hk.
Qed.

(* the tag found does not depend on the window as long as exactly place i fits either window *)
Lemma get_job_tag_stable s loc start w1 w2 i p :
  nth_error (s_places s) i = Some p ->
  accepts p loc start w1 = true -> accepts p loc start w2 = true ->
  (forall j q, j <> i -> nth_error (s_places s) j = Some q ->
     accepts q loc start w1 = false /\ accepts q loc start w2 = false) ->
  get_job_tag s loc w1 start = get_job_tag s loc w2 start.
Proof.
  intros Hi H1 H2 Hd. unfold get_job_tag. f_equal.
  induction (s_tags s) as [|[j t] l IH]; [reflexivity|]. cbn [find fst].
  destruct (Nat.eq_dec j i) as [->|Hne].
  - rewrite Hi, H1, H2. reflexivity.
  - destruct (nth_error (s_places s) j) as [q|] eqn:Hq; [|exact IH].
    destruct (Hd j q Hne Hq) as (E1 & E2). rewrite E1, E2. exact IH.
Qed.

Lemma same_tags_refl t : same_tags t t = true.
Proof. destruct t; cbn; [apply String.eqb_refl|reflexivity]. Qed.

(* single job: the reader reconstructs exactly the place and the window the solver used *)
Lemma match_place_back : forall s i p k ws we start loc ts te,
  nth_error (s_places s) i = Some p ->
  loc_ok p loc = true ->
  nth_error (p_times p) k = Some (SWindow ws we) ->
  le_zo ws we = true ->
  intersects (ws, we) (ts, Some te) = true ->
  (forall j q, j <> i -> nth_error (s_places s) j = Some q ->
     accepts q loc start (ws, we) = false /\ accepts q loc start (ts, Some te) = false) ->
  (forall k' sp', (k < k')%nat -> nth_error (p_times p) k' = Some sp' ->
     intersects (to_window start sp') (ts, Some te) = false) ->
  match_place s true (written_actx s start loc (ws, we) ts te) = Some (i, loc, p_dur p, (ws, we)).
Proof.
  intros s i p k ws we start loc ts te Hi Hl Hk Hw Hint Hd Hlater.
  assert (A1 : accepts p loc start (ws, we) = true).
  { eapply accepts_intro; eauto. cbn [to_window]. apply intersects_refl. exact Hw. }
  assert (A2 : accepts p loc start (ts, Some te) = true).
  { eapply accepts_intro; eauto. }
  unfold match_place, written_actx, act_win. cbn [c_loc c_start c_time c_job_id c_tag fst snd].
  rewrite (get_job_tag_stable s loc start (ts, Some te) (ws, we) i p Hi A2 A1)
    by (intros j q Hj Hq; destruct (Hd j q Hj Hq); auto).
  rewrite same_tags_refl, String.eqb_refl. cbn [andb orb].
  rewrite (find_idx_first _ (s_places s) 0%nat i p Hi A2).
  - cbn [Nat.add]. rewrite (rfind_last _ (p_times p) k (SWindow ws we) Hk Hint Hlater). reflexivity.
  - intros j q Hj Hq. apply (Hd j q); [lia|exact Hq].
Qed.

Lemma first_match_at : forall ss c n k s m,
  nth_error ss k = Some s -> match_place s true c = Some m ->
  (forall j s', (j < k)%nat -> nth_error ss j = Some s' -> match_place s' true c = None) ->
  first_match ss c n = Some ((n + k)%nat, m).
Proof.
  induction ss as [|x ss IH]; intros c n k s m Hk Hm Hlt; [destruct k; discriminate|].
  destruct k as [|k]; cbn in Hk.
  - inversion Hk; subst. cbn. rewrite Hm. f_equal. f_equal. lia.
  - cbn. rewrite (Hlt 0%nat x) by (cbn; auto; lia).
    rewrite (IH c (S n) k s m Hk Hm); [f_equal; f_equal; lia|].
    intros j s' Hj Hs'. apply (Hlt (S j) s'); [lia|exact Hs'].
Qed.

(* a sub-job whose tag lookup gives something else than the activity's tag never matches: this is how tags discriminate *)
Lemma match_place_other_tag : forall s c,
  same_tags (get_job_tag s (c_loc c) (act_win c) (c_start c)) (c_tag c) = false -> match_place s true c = None.
Proof. intros s c H. unfold match_place. rewrite H. reflexivity. Qed.

(* multi job: sub-job k is reconstructed when the earlier sub-jobs are told apart by their tags *)
Lemma try_match_multi_back : forall ss k s i p kk ws we start loc ts te,
  (List.length ss <= List.length (dedup_s (flat_map (fun s => map snd (s_tags s)) ss)))%nat ->
  nth_error ss k = Some s ->
  nth_error (s_places s) i = Some p -> loc_ok p loc = true ->
  nth_error (p_times p) kk = Some (SWindow ws we) -> le_zo ws we = true ->
  intersects (ws, we) (ts, Some te) = true ->
  (forall j q, j <> i -> nth_error (s_places s) j = Some q ->
     accepts q loc start (ws, we) = false /\ accepts q loc start (ts, Some te) = false) ->
  (forall k' sp', (kk < k')%nat -> nth_error (p_times p) k' = Some sp' ->
     intersects (to_window start sp') (ts, Some te) = false) ->
  (forall j s', (j < k)%nat -> nth_error ss j = Some s' ->
     same_tags (get_job_tag s' loc (ts, Some te) start) (get_job_tag s loc (ws, we) start) = false) ->
  try_match_job (JMulti ss) (written_actx s start loc (ws, we) ts te) = Some (k, (i, loc, p_dur p, (ws, we))).
Proof.
  intros ss k s i p kk ws we start loc ts te Hlen Hk Hi Hl Hkk Hw Hint Hd Hlater Htags.
  unfold try_match_job. destruct (Nat.ltb_spec (List.length (dedup_s (flat_map (fun s0 => map snd (s_tags s0)) ss))) (List.length ss)) as [Hc|_]; [lia|].
  rewrite (first_match_at ss _ 0%nat k s (i, loc, p_dur p, (ws, we)) Hk).
  - reflexivity.
  - eapply match_place_back; eauto.
  - intros j s' Hj Hs'. apply match_place_other_tag. cbn. apply (Htags j s' Hj Hs').
Qed.

(* ---- the hypotheses are needed: two ways the reader reconstructs something else ---- *)
(* 1. one place, two disjoint windows [0,10] and [15,25]; the solver serves at 8 for 10 seconds within the first window:
      the service interval [8,18] touches the second window and the reader takes the latest one *)
Definition w2_single : single :=
  mk_single "job1" [mk_place (Some 1) 10 [SWindow 0 (Some 10); SWindow 15 (Some 25)]] [].
Lemma later_window_taken :
  match_place w2_single true (written_actx w2_single 0 1 (0, Some 10) 8 18) = Some (0%nat, 1, 10, (15, Some 25)).
Proof. vm_compute. reflexivity. Qed.

(* 2. two places at the same location with intersecting windows and different durations, distinct tags:
      the solver uses place 1 (short service); writer and reader both look the tag up by location / time and find place 0 *)
Definition p2_single : single :=
  mk_single "job1" [mk_place (Some 1) 600 [SWindow 0 (Some 1000)]; mk_place (Some 1) 60 [SWindow 100 (Some 200)]]
            [(0%nat, "slow"); (1%nat, "fast")].
Lemma earlier_place_taken :
  c_tag (written_actx p2_single 0 1 (100, Some 200) 100 160) = Some "slow" /\
  match_place p2_single true (written_actx p2_single 0 1 (100, Some 200) 100 160) = Some (0%nat, 1, 600, (0, Some 1000)).
Proof. split; vm_compute; reflexivity. Qed.

Lemma match_back_nonvacuous :
  match_place w2_single true (written_actx w2_single 0 1 (0, Some 10) 2 9) = Some (0%nat, 1, 10, (0, Some 10)).
Proof. vm_compute. reflexivity. Qed.

Lemma later_window_refuted :
  exists s start loc ws we ts te m,
    nth_error (s_places s) 0%nat = Some (mk_place (Some loc) 10 [SWindow ws (Some we); SWindow 15 (Some 25)]) /\
    ws <= ts <= we /\ ts <= te /\
    match_place s true (written_actx s start loc (ws, Some we) ts te) = Some m /\ snd m <> (ws, Some we).
Proof.
  exists w2_single, 0, 1, 0, 10, 8, 18, (0%nat, 1, 10, (15, Some 25)).
  split; [reflexivity|]. split; [lia|]. split; [lia|]. split; [exact later_window_taken|]. cbn. congruence.
Qed.

Lemma same_location_place_refuted :
  exists s start loc ws we ts te p m,
    nth_error (s_places s) 1%nat = Some p /\ In (SWindow ws (Some we)) (p_times p) /\ loc_ok p loc = true /\
    ws <= ts <= we /\ te = ts + p_dur p /\
    NoDup (map snd (s_tags s)) /\ List.length (s_tags s) = List.length (s_places s) /\
    match_place s true (written_actx s start loc (ws, Some we) ts te) = Some m /\ fst (fst (fst m)) <> 1%nat.
Proof.
  exists p2_single, 0, 1, 100, 200, 100, 160, (mk_place (Some 1) 60 [SWindow 100 (Some 200)]), (0%nat, 1, 600, (0, Some 1000)).
  split; [reflexivity|]. split; [cbn; auto|]. split; [reflexivity|]. split; [lia|]. split; [reflexivity|].
  split; [cbn; repeat constructor; cbn; intuition discriminate|]. split; [reflexivity|].
  split; [exact (proj2 earlier_place_taken)|]. cbn. lia.
Qed.
