(* C11 (b) — a written activity matches back to its own job / place when nothing else is indistinguishable from it. *)
From VRP Require Import Base.Tac Base.Json Model.InitReader.
Open Scope string_scope.

Lemma find_idx_first {A} (f : A -> bool) l n i a :
  nth_error l i = Some a -> f a = true ->
  (forall j b, (j < i)%nat -> nth_error l j = Some b -> f b = false) ->
  find_idx f l n = Some ((n + i)%nat, a).
Proof.
  revert n i. induction l as [|x l IH]; intros n i Hn Hf Hlt; [destruct i; discriminate|].
  destruct i as [|i]; cbn in Hn.
  - inversion Hn; subst. cbn. rewrite Hf. f_equal. f_equal. lia.
  - cbn. rewrite (Hlt 0%nat x) by (cbn; auto; lia).
    rewrite (IH (S n) i Hn Hf).
    + f_equal. f_equal. lia.
    + intros j b Hj Hb. apply (Hlt (S j) b); [lia|exact Hb].
Qed.

Lemma rfind_last {A} (f : A -> bool) l k a :
  nth_error l k = Some a -> f a = true ->
  (forall k' b, (k < k')%nat -> nth_error l k' = Some b -> f b = false) ->
  rfind f l = Some a.
Proof.
  revert k. induction l as [|x l IH]; intros k Hn Hf Hgt; [destruct k; discriminate|].
  destruct k as [|k]; cbn in Hn.
  - inversion Hn; subst. cbn.
    assert (Hr : rfind f l = None).
    { clear -Hgt. assert (H : forall k' b, nth_error l k' = Some b -> f b = false).
      { intros k' b Hb. apply (Hgt (S k') b); [lia|exact Hb]. }
      clear Hgt. induction l as [|y l IHl]; [reflexivity|]. cbn.
      rewrite IHl by (intros k' b Hb; apply (H (S k') b Hb)).
      rewrite (H 0%nat y eq_refl). reflexivity. }
    rewrite Hr, Hf. reflexivity.
  - cbn. rewrite (IH k Hn Hf); [reflexivity|].
    intros k' b Hk Hb. apply (Hgt (S k') b); [lia|exact Hb].
Qed.

Lemma intersects_refl w : le_zo (fst w) (snd w) = true -> intersects w w = true.
Proof. intros H. unfold intersects. rewrite H. reflexivity. Qed.

Lemma accepts_intro p loc start w k sp :
  loc_ok p loc = true -> nth_error (p_times p) k = Some sp -> intersects (to_window start sp) w = true ->
  accepts p loc start w = true.
Proof.
  intros Hl Hk Hi. unfold accepts. rewrite Hl. cbn. apply existsb_exists. exists sp. split; [|exact Hi].
  eapply nth_error_In. exact Hk.
Qed.

(* the tag found does not depend on the window as long as exactly place i fits either window *)
Lemma get_job_tag_stable s loc start w1 w2 i p :
  nth_error (s_places s) i = Some p ->
  accepts p loc start w1 = true -> accepts p loc start w2 = true ->
  (forall j q, j <> i -> nth_error (s_places s) j = Some q ->
     accepts q loc start w1 = false /\ accepts q loc start w2 = false) ->
  get_job_tag s loc w1 start = get_job_tag s loc w2 start.
Proof.
  intros Hi H1 H2 Hd. unfold get_job_tag. f_equal.
  induction (s_tags s) as [|[j t] l IH]; [reflexivity|]. cbn [find fst].
  destruct (Nat.eq_dec j i) as [->|Hne].
  - rewrite Hi, H1, H2. reflexivity.
  - destruct (nth_error (s_places s) j) as [q|] eqn:Hq; [|exact IH].
    destruct (Hd j q Hne Hq) as (E1 & E2). rewrite E1, E2. exact IH.
Qed.

Lemma same_tags_refl t : same_tags t t = true.
Proof. destruct t; cbn; [apply String.eqb_refl|reflexivity]. Qed.

(* single job: the reader reconstructs exactly the place and the window the solver used *)
Lemma match_place_back : forall s i p k ws we start loc ts te,
  nth_error (s_places s) i = Some p ->
  loc_ok p loc = true ->
  nth_error (p_times p) k = Some (SWindow ws we) ->
  le_zo ws we = true ->
  intersects (ws, we) (ts, Some te) = true ->
  (forall j q, j <> i -> nth_error (s_places s) j = Some q ->
     accepts q loc start (ws, we) = false /\ accepts q loc start (ts, Some te) = false) ->
  (forall k' sp', (k < k')%nat -> nth_error (p_times p) k' = Some sp' ->
     intersects (to_window start sp') (ts, Some te) = false) ->
  match_place s true (written_actx s start loc (ws, we) ts te) = Some (i, loc, p_dur p, (ws, we)).
Proof.
  intros s i p k ws we start loc ts te Hi Hl Hk Hw Hint Hd Hlater.
  assert (A1 : accepts p loc start (ws, we) = true).
  { eapply accepts_intro; eauto. cbn [to_window]. apply intersects_refl. exact Hw. }
  assert (A2 : accepts p loc start (ts, Some te) = true).
  { eapply accepts_intro; eauto. }
  unfold match_place, written_actx, act_win. cbn [c_loc c_start c_time c_job_id c_tag fst snd].
  rewrite (get_job_tag_stable s loc start (ts, Some te) (ws, we) i p Hi A2 A1)
    by (intros j q Hj Hq; destruct (Hd j q Hj Hq); auto).
  rewrite same_tags_refl, String.eqb_refl. cbn [andb orb].
  rewrite (find_idx_first _ (s_places s) 0%nat i p Hi A2).
  - cbn [Nat.add]. rewrite (rfind_last (fun sp => span_intersects start sp (ts, Some te)) (p_times p) k (SWindow ws we) Hk Hint Hlater). reflexivity.
  - intros j q Hj Hq. apply (Hd j q); [lia|exact Hq].
Qed.

Lemma first_match_at : forall ss c n k s m,
  nth_error ss k = Some s -> match_place s true c = Some m ->
  (forall j s', (j < k)%nat -> nth_error ss j = Some s' -> match_place s' true c = None) ->
  first_match ss c n = Some ((n + k)%nat, m).
Proof.
  induction ss as [|x ss IH]; intros c n k s m Hk Hm Hlt; [destruct k; discriminate|].
  destruct k as [|k]; cbn in Hk.
  - inversion Hk; subst. cbn. rewrite Hm. f_equal. f_equal. lia.
  - cbn. rewrite (Hlt 0%nat x) by (cbn; auto; lia).
    rewrite (IH c (S n) k s m Hk Hm); [f_equal; f_equal; lia|].
    intros j s' Hj Hs'. apply (Hlt (S j) s'); [lia|exact Hs'].
Qed.

(* a sub-job whose tag lookup gives something else than the activity's tag never matches: this is how tags discriminate *)
Lemma match_place_other_tag : forall s c,
  same_tags (get_job_tag s (c_loc c) (act_win c) (c_start c)) (c_tag c) = false -> match_place s true c = None.
Proof. intros s c H. unfold match_place. rewrite H. reflexivity. Qed.

(* multi job: sub-job k is reconstructed when the earlier sub-jobs are told apart by their tags *)
Lemma try_match_multi_back : forall ss k s i p kk ws we start loc ts te,
  (List.length ss <= List.length (dedup_s (flat_map (fun s => map snd (s_tags s)) ss)))%nat ->
  nth_error ss k = Some s ->
  nth_error (s_places s) i = Some p -> loc_ok p loc = true ->
  nth_error (p_times p) kk = Some (SWindow ws we) -> le_zo ws we = true ->
  intersects (ws, we) (ts, Some te) = true ->
  (forall j q, j <> i -> nth_error (s_places s) j = Some q ->
     accepts q loc start (ws, we) = false /\ accepts q loc start (ts, Some te) = false) ->
  (forall k' sp', (kk < k')%nat -> nth_error (p_times p) k' = Some sp' ->
     intersects (to_window start sp') (ts, Some te) = false) ->
  (forall j s', (j < k)%nat -> nth_error ss j = Some s' ->
     same_tags (get_job_tag s' loc (ts, Some te) start) (get_job_tag s loc (ws, we) start) = false) ->
  try_match_job (JMulti ss) (written_actx s start loc (ws, we) ts te) = Some (k, (i, loc, p_dur p, (ws, we))).
Proof.
  intros ss k s i p kk ws we start loc ts te Hlen Hk Hi Hl Hkk Hw Hint Hd Hlater Htags.
  unfold try_match_job. destruct (Nat.ltb_spec (List.length (dedup_s (flat_map (fun s0 => map snd (s_tags s0)) ss))) (List.length ss)) as [Hc|_]; [lia|].
  rewrite (first_match_at ss _ 0%nat k s (i, loc, p_dur p, (ws, we)) Hk).
  - reflexivity.
  - eapply match_place_back; eauto.
  - intros j s' Hj Hs'. apply match_place_other_tag. cbn. apply (Htags j s' Hj Hs').
Qed.

(* ---- the hypotheses are needed: two ways the reader reconstructs something else ---- *)
(* 1. one place, two disjoint windows [0,10] and [15,25]; the solver serves at 8 for 10 seconds within the first window:
      the service interval [8,18] touches the second window and the reader takes the latest one *)
Definition w2_single : single :=
  mk_single "job1" [mk_place (Some 1) 10 [SWindow 0 (Some 10); SWindow 15 (Some 25)]] [].
Lemma later_window_taken :
  match_place w2_single true (written_actx w2_single 0 1 (0, Some 10) 8 18) = Some (0%nat, 1, 10, (15, Some 25)).
Proof. vm_compute. reflexivity. Qed.

(* 2. two places at the same location with intersecting windows and different durations, distinct tags:
      the solver uses place 1 (short service); writer and reader both look the tag up by location / time and find place 0 *)
Definition p2_single : single :=
  mk_single "job1" [mk_place (Some 1) 600 [SWindow 0 (Some 1000)]; mk_place (Some 1) 60 [SWindow 100 (Some 200)]]
            [(0%nat, "slow"); (1%nat, "fast")].
Lemma earlier_place_taken :
  c_tag (written_actx p2_single 0 1 (100, Some 200) 100 160) = Some "slow" /\
  match_place p2_single true (written_actx p2_single 0 1 (100, Some 200) 100 160) = Some (0%nat, 1, 600, (0, Some 1000)).
Proof. split; vm_compute; reflexivity. Qed.

Lemma match_back_nonvacuous :
  match_place w2_single true (written_actx w2_single 0 1 (0, Some 10) 2 9) = Some (0%nat, 1, 10, (0, Some 10)).
Proof. vm_compute. reflexivity. Qed.

Lemma later_window_refuted :
  exists s start loc ws we ts te m,
    nth_error (s_places s) 0%nat = Some (mk_place (Some loc) 10 [SWindow ws (Some we); SWindow 15 (Some 25)]) /\
    ws <= ts <= we /\ ts <= te /\
    match_place s true (written_actx s start loc (ws, Some we) ts te) = Some m /\ snd m <> (ws, Some we).
Proof.
  exists w2_single, 0, 1, 0, 10, 8, 18, (0%nat, 1, 10, (15, Some 25)).
  split; [reflexivity|]. split; [lia|]. split; [lia|]. split; [exact later_window_taken|]. cbn. congruence.
Qed.

Lemma same_location_place_refuted :
  exists s start loc ws we ts te p m,
    nth_error (s_places s) 1%nat = Some p /\ In (SWindow ws (Some we)) (p_times p) /\ loc_ok p loc = true /\
    ws <= ts <= we /\ te = ts + p_dur p /\
    NoDup (map snd (s_tags s)) /\ List.length (s_tags s) = List.length (s_places s) /\
    match_place s true (written_actx s start loc (ws, Some we) ts te) = Some m /\ fst (fst (fst m)) <> 1%nat.
Proof.
  exists p2_single, 0, 1, 100, 200, 100, 160, (mk_place (Some 1) 60 [SWindow 100 (Some 200)]), (0%nat, 1, 600, (0, Some 1000)).
  split; [reflexivity|]. split; [cbn; auto|]. split; [reflexivity|]. split; [lia|]. split; [reflexivity|].
  split; [cbn; repeat constructor; cbn; intuition discriminate|]. split; [reflexivity|].
  split; [exact (proj2 earlier_place_taken)|]. cbn. lia.
Qed.

(* ==============================================================================================================
   the time-intersection rule for both span kinds, vehicle-specific activities, read_init_solution's bookkeeping *)

(* TimeSpan::intersects: inclusive on both ends, for a time window and for an offset interval counted from `start` *)
Lemma span_intersects_spec start sp ts te :
  span_intersects start sp (ts, Some te) = true <->
  fst (to_window start sp) <= te /\ le_zo ts (snd (to_window start sp)) = true.
Proof.
  unfold span_intersects, intersects. cbn [fst snd le_zo]. rewrite andb_true_iff, Z.leb_le. tauto.
Qed.

Lemma span_intersects_kinds start ts te :
  (forall ws we, span_intersects start (SWindow ws (Some we)) (ts, Some te) = true <-> ws <= te /\ ts <= we) /\
  (forall ws, span_intersects start (SWindow ws None) (ts, Some te) = true <-> ws <= te) /\
  (forall s e, span_intersects start (SOffset s e) (ts, Some te) = true <-> start + s <= te /\ ts <= start + e).
Proof.
  split; [|split]; intros; rewrite span_intersects_spec; cbn [to_window fst snd le_zo]; rewrite ?Z.leb_le; tauto.
Qed.

(* an activity that starts anywhere in the interval - at its first or at its LAST moment included - intersects it *)
Lemma span_intersects_inside start sp ts te :
  fst (to_window start sp) <= ts -> le_zo ts (snd (to_window start sp)) = true -> ts <= te ->
  span_intersects start sp (ts, Some te) = true.
Proof. intros H1 H2 H3. apply span_intersects_spec. split; [lia|exact H2]. Qed.

Lemma find_idx_ext {A} (f g : A -> bool) l n : (forall a, In a l -> f a = g a) -> find_idx f l n = find_idx g l n.
Proof.
  revert n. induction l as [|x l IH]; intros n H; [reflexivity|]. cbn. rewrite (H x) by (left; reflexivity).
  destruct (g x); [reflexivity|]. apply IH. intros a Ha. apply H. right. exact Ha.
Qed.

Lemma rfind_ext {A} (f g : A -> bool) l : (forall a, In a l -> f a = g a) -> rfind f l = rfind g l.
Proof.
  induction l as [|x l IH]; intros H; [reflexivity|]. cbn. rewrite IH by (intros a Ha; apply H; right; exact Ha).
  rewrite (H x) by (left; reflexivity). reflexivity.
Qed.

Lemma existsb_ext_in {A} (f g : A -> bool) l : (forall a, In a l -> f a = g a) -> existsb f l = existsb g l.
Proof.
  induction l as [|x l IH]; intros H; [reflexivity|]. cbn. rewrite (H x) by (left; reflexivity).
  rewrite IH by (intros a Ha; apply H; right; exact Ha). reflexivity.
Qed.

(* a span that is a time window does not depend on the instant offsets are counted from *)
Lemma span_intersects_window st1 st2 sp w : is_offset sp = false -> span_intersects st1 sp w = span_intersects st2 sp w.
Proof. destruct sp; cbn; [reflexivity|discriminate]. Qed.

Definition place_no_offsets (p : place) : bool := forallb (fun sp => negb (is_offset sp)) (p_times p).

Lemma accepts_start_irrel p loc st1 st2 w : place_no_offsets p = true -> accepts p loc st1 w = accepts p loc st2 w.
Proof.
  intros H. unfold accepts. f_equal. apply existsb_ext_in. intros sp Hsp. apply span_intersects_window.
  unfold place_no_offsets in H. rewrite forallb_forall in H. specialize (H sp Hsp). destruct (is_offset sp); [discriminate|reflexivity].
Qed.

Lemma no_offsets_place s i p : no_offsets s = true -> nth_error (s_places s) i = Some p -> place_no_offsets p = true.
Proof.
  unfold no_offsets. rewrite forallb_forall. intros H Hi. apply H. eapply nth_error_In. exact Hi.
Qed.

Lemma get_job_tag_start_irrel s loc w st1 st2 : no_offsets s = true -> get_job_tag s loc w st1 = get_job_tag s loc w st2.
Proof.
  intros H. unfold get_job_tag. f_equal. induction (s_tags s) as [|[j t] l IH]; [reflexivity|]. cbn [find fst].
  destruct (nth_error (s_places s) j) as [q|] eqn:Hq; [|exact IH].
  rewrite (accepts_start_irrel q loc st1 st2 w (no_offsets_place s j q H Hq)). destruct (accepts q loc st2 w); [reflexivity|exact IH].
Qed.

Lemma match_place_start_irrel s b st1 st2 loc tm jid tag :
  no_offsets s = true ->
  match_place s b (mk_actx st1 loc tm jid tag) = match_place s b (mk_actx st2 loc tm jid tag).
Proof.
  intros H. unfold match_place, act_win. cbn [c_loc c_start c_time c_job_id c_tag].
  rewrite (get_job_tag_start_irrel s loc (fst tm, Some (snd tm)) st1 st2 H).
  destruct (same_tags _ tag && _); [|reflexivity].
  rewrite (find_idx_ext (fun p => accepts p loc st1 (fst tm, Some (snd tm))) (fun p => accepts p loc st2 (fst tm, Some (snd tm)))).
  2:{ intros p Hp. apply accepts_start_irrel. destruct (In_nth_error _ _ Hp) as (i & Hi). eapply no_offsets_place; eauto. }
  destruct (find_idx _ (s_places s) 0%nat) as [[idx p]|] eqn:Hf; [|reflexivity].
  assert (Hp : place_no_offsets p = true).
  { clear -H Hf. assert (G : forall l n, find_idx (fun p0 => accepts p0 loc st2 (fst tm, Some (snd tm))) l n = Some (idx, p) -> In p l).
    { induction l as [|x l IH]; intros n E; [discriminate|]. cbn in E. destruct (accepts x _ _ _); [inversion E; left; reflexivity|right; eapply IH; eauto]. }
    apply G in Hf. destruct (In_nth_error _ _ Hf) as (i & Hi). eapply no_offsets_place; eauto. }
  rewrite (rfind_ext (fun sp => span_intersects st1 sp (fst tm, Some (snd tm))) (fun sp => span_intersects st2 sp (fst tm, Some (snd tm)))).
  2:{ intros sp Hsp. apply span_intersects_window. unfold place_no_offsets in Hp. rewrite forallb_forall in Hp.
      specialize (Hp sp Hsp). destruct (is_offset sp); [discriminate|reflexivity]. }
  reflexivity.
Qed.

(* match_place for any span kind (window / offset) and any activity kind (is_job_activity true / false) *)
Lemma match_place_back_gen : forall s is_job i p k sp start loc ts te jid,
  nth_error (s_places s) i = Some p -> loc_ok p loc = true ->
  nth_error (p_times p) k = Some sp ->
  le_zo (fst (to_window start sp)) (snd (to_window start sp)) = true ->
  span_intersects start sp (ts, Some te) = true ->
  (forall j q, j <> i -> nth_error (s_places s) j = Some q ->
     accepts q loc start (to_window start sp) = false /\ accepts q loc start (ts, Some te) = false) ->
  (forall k' sp', (k < k')%nat -> nth_error (p_times p) k' = Some sp' -> span_intersects start sp' (ts, Some te) = false) ->
  (is_job = true -> jid = s_id s) ->
  match_place s is_job (mk_actx start loc (ts, te) jid (get_job_tag s loc (to_window start sp) start)) =
    Some (i, loc, p_dur p, rebuilt_win sp te (p_dur p)).
Proof.
  intros s is_job i p k sp start loc ts te jid Hi Hl Hk Hw Hint Hd Hlater Hid.
  assert (A1 : accepts p loc start (to_window start sp) = true).
  { eapply accepts_intro; eauto. apply intersects_refl. exact Hw. }
  assert (A2 : accepts p loc start (ts, Some te) = true).
  { eapply accepts_intro; eauto. }
  unfold match_place, act_win. cbn [c_loc c_start c_time c_job_id c_tag fst snd].
  rewrite (get_job_tag_stable s loc start (ts, Some te) (to_window start sp) i p Hi A2 A1)
    by (intros j q Hj Hq; destruct (Hd j q Hj Hq); auto).
  rewrite same_tags_refl.
  assert (Hids : (String.eqb jid (s_id s) || negb is_job)%bool = true).
  { destruct is_job; cbn; [rewrite (Hid eq_refl), String.eqb_refl; reflexivity|apply orb_true_r]. }
  rewrite Hids. cbn [andb].
  rewrite (find_idx_first _ (s_places s) 0%nat i p Hi A2).
  - cbn [Nat.add]. rewrite (rfind_last (fun sp0 => span_intersects start sp0 (ts, Some te)) (p_times p) k sp Hk Hint Hlater).
    destruct sp; reflexivity.
  - intros j q Hj Hq. apply (Hd j q); [lia|exact Hq].
Qed.

Lemma le_zo_max a b c : le_zo a c = true -> le_zo b c = true -> le_zo (Z.max a b) c = true.
Proof. destruct c as [c|]; cbn; [|reflexivity]. rewrite !Z.leb_le. lia. Qed.

(* the service interval of a placed activity lies in its window: it may start at the first and at the last moment *)
Lemma placed_service s start a i p k sp :
  placed s start a i p k sp ->
  fst (to_window start sp) <= sa_ts a /\ le_zo (sa_ts a) (snd (to_window start sp)) = true /\ sa_ts a <= sa_te a.
Proof.
  intros H. destruct H as [Hs Hpl Hloc Hdur Hnn Hsp Hwin Hwok Harr Hoth Hlat].
  rewrite <- Hwin. unfold sa_te, sa_ts. split; [lia|]. split; [|lia].
  apply le_zo_max; assumption.
Qed.

(* a placed activity, as the writer puts it into the document, is matched back to its own place by the reader *)
Lemma match_place_written s start ws rs a i p k sp is_job jid :
  placed s start a i p k sp -> starts_agree start ws rs s -> (is_job = true -> jid = s_id s) ->
  match_place s is_job (mk_actx rs (sa_loc a) (sa_ts a, sa_te a) jid (get_job_tag s (sa_loc a) (sa_win a) ws)) =
    Some (expected_place a i sp).
Proof.
  intros Hp Hs Hid.
  assert (G : match_place s is_job (mk_actx start (sa_loc a) (sa_ts a, sa_te a) jid (get_job_tag s (sa_loc a) (sa_win a) start)) =
              Some (expected_place a i sp)).
  { destruct (placed_service _ _ _ _ _ _ _ Hp) as (S1 & S2 & S3).
    destruct Hp as [Hsg Hpl Hloc Hdur Hnn Hsp Hwin Hwok Harr Hoth Hlat].
    rewrite Hwin. unfold expected_place. rewrite <- Hdur.
    apply (match_place_back_gen s is_job i p k sp start (sa_loc a) (sa_ts a) (sa_te a) jid); auto.
    - rewrite <- Hwin. exact Hwok.
    - apply span_intersects_inside; assumption.
    - rewrite <- Hwin. exact Hoth. }
  destruct Hs as [(-> & ->)|Hno]; [exact G|].
  rewrite (get_job_tag_start_irrel s (sa_loc a) (sa_win a) ws start Hno).
  rewrite (match_place_start_irrel s is_job rs start _ _ _ _ Hno). exact G.
Qed.

(* ---- the conditional jobs "<vehicle>_<type>_<shift>_<idx>" tried for a break / reload / recharge activity ---- *)
From Coq Require Import DecimalString Decimal DecimalNat FinFun.

Lemma append_inj_l (a x y : string) : (a ++ x = a ++ y)%string -> x = y.
Proof. induction a as [|c a IH]; cbn; intros H; [exact H|]. injection H as H. auto. Qed.

Lemma dec_nat_inj a b : dec_nat a = dec_nat b -> a = b.
Proof.
  unfold dec_nat. intros H. apply (f_equal NilEmpty.uint_of_string) in H.
  rewrite !NilEmpty.usu in H. injection H as H. apply (f_equal Nat.of_uint) in H.
  rewrite !DecimalNat.Unsigned.of_to in H. exact H.
Qed.

Lemma vjob_id_inj vid ty shift i j : vjob_id vid ty shift i = vjob_id vid ty shift j -> i = j.
Proof.
  unfold vjob_id. intros H. repeat (apply append_inj_l in H). apply dec_nat_inj. exact H.
Qed.

Lemma lookup_in ix k j : lookup ix k = Some j -> In k (map fst ix).
Proof.
  induction ix as [|[k' j'] ix IH]; cbn; [discriminate|]. destruct (String.eqb k k') eqn:E.
  - intros _. left. symmetry. apply String.eqb_eq. exact E.
  - intros H. right. auto.
Qed.

(* the index knows at least as many keys as there are conditional jobs in a row: the fuel of vcands is enough *)
Lemma vkeys_bound ix vid ty shift (ss : list single) :
  (forall j s, nth_error ss j = Some s -> lookup ix (vjob_id vid ty shift (S j)) = Some (JSingle s)) ->
  (List.length ss <= List.length ix)%nat.
Proof.
  intros H. set (keys := map (fun j => vjob_id vid ty shift (S j)) (seq 0 (List.length ss))).
  assert (Hnd : NoDup keys).
  { apply Injective_map_NoDup; [|apply seq_NoDup]. intros a b E. apply vjob_id_inj in E. lia. }
  assert (Hincl : incl keys (map fst ix)).
  { intros k Hk. apply in_map_iff in Hk. destruct Hk as (j & <- & Hj). apply in_seq in Hj.
    destruct (nth_error ss j) as [s|] eqn:E; [|apply nth_error_None in E; lia].
    eapply lookup_in. apply (H j s E). }
  pose proof (NoDup_incl_length Hnd Hincl) as L. unfold keys in L. rewrite map_length, seq_length, map_length in L. exact L.
Qed.

Lemma vcands_nth ix vid ty shift : forall (ss : list single) idx fuel,
  (List.length ss <= fuel)%nat ->
  (forall j s, nth_error ss j = Some s -> lookup ix (vjob_id vid ty shift (idx + j)) = Some (JSingle s)) ->
  forall j s, nth_error ss j = Some s ->
    nth_error (vcands ix vid ty shift idx fuel) j = Some (vjob_id vid ty shift (idx + j), s).
Proof.
  induction ss as [|s0 ss IH]; intros idx fuel Hf Hl j s Hj; [destruct j; discriminate|].
  destruct fuel as [|f]; [cbn in Hf; lia|]. cbn [vcands].
  pose proof (Hl 0%nat s0 eq_refl) as H0. rewrite Nat.add_0_r in H0. rewrite H0.
  destruct j as [|j]; cbn in Hj.
  - inversion Hj; subst. cbn. rewrite Nat.add_0_r. reflexivity.
  - cbn [nth_error]. rewrite (IH (S idx) f) with (s := s) (j := j); [f_equal; f_equal; f_equal; lia| cbn in Hf; lia | | exact Hj].
    intros j' s' Hj'. replace (S idx + j')%nat with (idx + S j')%nat by lia. apply (Hl (S j') s'). exact Hj'.
Qed.

Lemma first_vmatch_at : forall cs c n key s m,
  nth_error cs n = Some (key, s) -> match_place s false c = Some m ->
  (forall j k' s', (j < n)%nat -> nth_error cs j = Some (k', s') -> match_place s' false c = None) ->
  first_vmatch cs c = Some (key, m).
Proof.
  induction cs as [|[k0 s0] cs IH]; intros c n key s m Hn Hm Hlt; [destruct n; discriminate|].
  destruct n as [|n]; cbn in Hn.
  - inversion Hn; subst. cbn. rewrite Hm. reflexivity.
  - cbn. rewrite (Hlt 0%nat k0 s0) by (cbn; auto; lia).
    apply (IH c n key s m Hn Hm). intros j k' s' Hj Hs'. apply (Hlt (S j) k' s'); [lia|exact Hs'].
Qed.

(* the n-th conditional job (n = length ss >= 1) is found when the n-1 before it do not match the activity *)
Lemma try_match_vehicle_job_at ix vid ty shift (ss : list single) s c m :
  (forall j s', nth_error ss j = Some s' -> lookup ix (vjob_id vid ty shift (S j)) = Some (JSingle s')) ->
  nth_error ss (Nat.pred (List.length ss)) = Some s ->
  (forall j s', (S j < List.length ss)%nat -> nth_error ss j = Some s' -> match_place s' false c = None) ->
  match_place s false c = Some m ->
  try_match_vehicle_job ix vid ty shift c = Some (vjob_id vid ty shift (List.length ss), m).
Proof.
  intros Hl Hn Hearlier Hm. unfold try_match_vehicle_job.
  assert (Hpos : (0 < List.length ss)%nat).
  { destruct ss; [discriminate|cbn; lia]. }
  pose proof (vkeys_bound ix vid ty shift ss Hl) as Hb.
  assert (Hnth : forall j s', nth_error ss j = Some s' ->
            nth_error (vcands ix vid ty shift 1%nat (S (List.length ix))) j = Some (vjob_id vid ty shift (1 + j), s')).
  { apply vcands_nth; [lia|]. intros j s' Hj. apply Hl. exact Hj. }
  replace (List.length ss) with (1 + Nat.pred (List.length ss))%nat at 1 by lia.
  eapply first_vmatch_at; [apply Hnth; exact Hn|exact Hm|].
  intros j k' s' Hj Hc. destruct (nth_error ss j) as [s''|] eqn:E; [|apply nth_error_None in E; lia].
  rewrite (Hnth j s'' E) in Hc. inversion Hc; subst. apply (Hearlier j s'); [lia|exact E].
Qed.

(* ---- the dispatch of try_match_point_job on a well written activity ---- *)
Lemma write_act_ctx ws rs a :
  w_ctx (write_act ws rs a) =
  mk_actx rs (sa_loc a) (sa_ts a, sa_te a) (match sa_vtype a with Some ty => ty | None => sa_key a end)
          (get_job_tag (sa_single a) (sa_loc a) (sa_win a) ws).
Proof. reflexivity. Qed.

Lemma vehicle_type_flags ty : In ty ["break"; "reload"; "recharge"]%string ->
  is_terminal ty = false /\ is_customer ty = false /\ is_vehicle_specific ty = true.
Proof. intros [<-|[<-|[<-|[]]]]; repeat split; reflexivity. Qed.

Lemma try_match_written ix vid shift start ws rs a i sp :
  well_written ix vid shift start ws rs a i sp ->
  try_match_point_job ix vid shift (write_act ws rs a) =
    inr (MJob (sa_key a) (is_single_key ix (sa_key a)) (sa_sub a) (expected_place a i sp)).
Proof.
  intros [s p k Hv Hc Ht Hl Hid Hsub Hp Hs | ss s p k Hv Hc Ht Hl Hlen Hn Hid Hearlier Hp Hs
          | ty ss s p k Hv Hty Hin Hsub Hl Hn Hkey Hearlier Hp Hs].
  - (* customer, single job *)
    unfold try_match_point_job. rewrite write_act_ctx. cbn [w_type write_act c_job_id]. rewrite Ht, Hc, Hv, Hl.
    unfold is_single_key. rewrite Hl. cbn [first_match].
    rewrite (pl_single _ _ _ _ _ _ _ Hp).
    rewrite (match_place_written s start ws rs a i p k sp true (sa_key a) Hp Hs) by (intros _; symmetry; exact Hid).
    rewrite Hsub. reflexivity.
  - (* customer, sub-job of a multi job *)
    unfold try_match_point_job. rewrite write_act_ctx. cbn [w_type write_act c_job_id]. rewrite Ht, Hc, Hv, Hl.
    unfold is_single_key. rewrite Hl.
    destruct (Nat.ltb_spec (List.length (dedup_s (flat_map (fun s0 => map snd (s_tags s0)) ss))) (List.length ss)) as [Hlt|_]; [lia|].
    rewrite (first_match_at ss _ 0%nat (sa_sub a) s (expected_place a i sp) Hn).
    + reflexivity.
    + rewrite (pl_single _ _ _ _ _ _ _ Hp).
      apply (match_place_written s start ws rs a i p k sp true (sa_key a) Hp Hs). intros _. symmetry. exact Hid.
    + intros j s' Hj Hs'. specialize (Hearlier j s' Hj Hs'). rewrite write_act_ctx, Hv in Hearlier. exact Hearlier.
  - (* break / reload / recharge *)
    destruct (vehicle_type_flags ty Hin) as (F1 & F2 & F3).
    unfold try_match_point_job. cbn [w_type write_act]. rewrite Hty, F1, F2, F3.
    assert (Hm : match_place s false (w_ctx (write_act ws rs a)) = Some (expected_place a i sp)).
    { rewrite write_act_ctx, Hv, (pl_single _ _ _ _ _ _ _ Hp).
      apply (match_place_written s start ws rs a i p k sp false ty Hp Hs). discriminate. }
    change (mk_actx rs (sa_loc a) (sa_ts a, sa_te a) (match sa_vtype a with Some ty0 => ty0 | None => sa_key a end)
              (get_job_tag (sa_single a) (sa_loc a) (sa_win a) ws)) with (w_ctx (write_act ws rs a)).
    rewrite (try_match_vehicle_job_at ix vid ty shift ss s _ _ Hl Hn Hearlier Hm).
    unfold is_single_key. rewrite Hkey.
    assert (Hpos : (0 < List.length ss)%nat) by (destruct ss; [discriminate|cbn; lia]).
    pose proof (Hl (Nat.pred (List.length ss)) s Hn) as Hk. replace (S (Nat.pred (List.length ss))) with (List.length ss) in Hk by lia.
    rewrite Hk, Hsub. reflexivity.
Qed.

(* ---- try_insert_activity over a tour, read_init_solution over the document ---- *)
Local Open Scope list_scope.

Lemma str_in_true x l : str_in x l = true <-> In x l.
Proof.
  unfold str_in. rewrite existsb_exists. split.
  - intros (y & Hy & E). apply String.eqb_eq in E. subst. exact Hy.
  - intros H. exists x. split; [exact H|apply String.eqb_refl].
Qed.
Lemma str_in_false x l : str_in x l = false <-> ~ In x l.
Proof. rewrite <- str_in_true. destruct (str_in x l); split; intros H; try congruence; try (exfalso; apply H; reflexivity). Qed.

Lemma read_acts_written ix vid shift start rs : forall items ws prev added,
  tour_ok ix vid shift start rs ws prev items ->
  NoDup (single_keys ix items) ->
  (forall k, In k (single_keys ix items) -> ~ In k added) ->
  read_acts ix vid shift (write_acts rs ws prev (map item_act items)) added =
    inr (map item_ract items, List.rev (tour_keys items) ++ added).
Proof.
  induction items as [|[[a i] sp] items IH]; intros ws prev added Hok Hnd Hfresh; [reflexivity|].
  inversion Hok as [|ws0 prev0 a0 i0 sp0 rest Hww Hrest]; subst.
  cbn [map item_act fst write_acts]. set (ws' := if is_reload a then prev else ws) in *.
  cbn [read_acts]. cbn [w_commute w_transit write_act].
  change (mk_wact (sa_type a) false false _) with (write_act ws' rs a).
  rewrite (try_match_written ix vid shift start ws' rs a i sp Hww).
  unfold single_keys, tour_keys in Hnd, Hfresh. cbn [map filter item_act fst] in Hnd, Hfresh.
  destruct (is_single_key ix (sa_key a)) eqn:Hsg.
  - (* a Job::Single: must not have been added before *)
    assert (Hna : str_in (sa_key a) added = false).
    { apply str_in_false. apply Hfresh. left. reflexivity. }
    rewrite Hna. cbn [andb]. inversion Hnd as [|x l Hnin Hnd']; subst.
    rewrite (IH ws' (sa_te a) (sa_key a :: added) Hrest Hnd').
    + cbn [map]. unfold item_ract at 1. cbn [fst snd]. unfold expected_ract. rewrite write_act_ctx. cbn [c_time].
      f_equal. f_equal. unfold tour_keys. cbn [map List.rev item_act fst]. rewrite <- app_assoc. reflexivity.
    + intros k Hk [<-|Hin]; [exact (Hnin Hk)|]. apply (Hfresh k); [right; exact Hk|exact Hin].
  - cbn [andb].
    rewrite (IH ws' (sa_te a) (sa_key a :: added) Hrest Hnd).
    + cbn [map]. unfold item_ract at 1. cbn [fst snd]. unfold expected_ract. rewrite write_act_ctx. cbn [c_time].
      f_equal. f_equal. unfold tour_keys. cbn [map List.rev item_act fst]. rewrite <- app_assoc. reflexivity.
    + intros k Hk [<-|Hin].
      * apply filter_In in Hk. destruct Hk as (_ & Hk). congruence.
      * apply (Hfresh k); [exact Hk|exact Hin].
Qed.

Lemma read_acts_terminals ix vid shift l added : terminals l -> read_acts ix vid shift l added = inr ([], added).
Proof.
  induction 1 as [|a l (Ht & Hc & Htr) _ IH]; [reflexivity|]. cbn [read_acts]. rewrite Hc, Htr.
  unfold try_match_point_job. rewrite Ht. exact IH.
Qed.

Lemma read_acts_app ix vid shift : forall l1 l2 added,
  read_acts ix vid shift (l1 ++ l2) added =
  match read_acts ix vid shift l1 added with
  | inl e => inl e
  | inr (r1, added1) => match read_acts ix vid shift l2 added1 with
                        | inl e => inl e
                        | inr (r2, added2) => inr (r1 ++ r2, added2)
                        end
  end.
Proof.
  induction l1 as [|a l1 IH]; intros l2 added.
  - cbn. destruct (read_acts ix vid shift l2 added) as [e|[r2 a2]]; reflexivity.
  - rewrite <- app_comm_cons. cbn [read_acts]. destruct (w_commute a); [reflexivity|]. destruct (w_transit a); [reflexivity|].
    destruct (try_match_point_job ix vid shift a) as [e|[|key sg sub m]]; [reflexivity|apply IH|].
    destruct (sg && str_in key added); [reflexivity|]. rewrite IH.
    destruct (read_acts ix vid shift l1 (key :: added)) as [e|[r1 a1]]; [reflexivity|].
    destruct (read_acts ix vid shift l2 a1) as [e|[r2 a2]]; reflexivity.
Qed.

Lemma tour_keys_app l1 l2 : tour_keys (l1 ++ l2) = tour_keys l1 ++ tour_keys l2.
Proof. unfold tour_keys. apply map_app. Qed.
Lemma single_keys_app ix l1 l2 : single_keys ix (l1 ++ l2) = single_keys ix l1 ++ single_keys ix l2.
Proof. unfold single_keys. rewrite tour_keys_app. apply filter_app. Qed.

Lemma nodup_app_l {A} (l1 l2 : list A) : NoDup (l1 ++ l2) -> NoDup l1.
Proof. induction l1 as [|a l1 IH]; cbn; intros H; [constructor|]. inversion H; subst. constructor; [intros Hin; apply H2; apply in_or_app; auto|auto]. Qed.
Lemma nodup_app_r {A} (l1 l2 : list A) : NoDup (l1 ++ l2) -> NoDup l2.
Proof. induction l1 as [|a l1 IH]; cbn; intros H; [exact H|]. inversion H; subst. auto. Qed.
Lemma nodup_app_disj {A} (l1 l2 : list A) x : NoDup (l1 ++ l2) -> In x l1 -> In x l2 -> False.
Proof.
  induction l1 as [|a l1 IH]; cbn; intros H H1 H2; [contradiction|]. inversion H; subst. destruct H1 as [<-|H1].
  - apply H4. apply in_or_app. auto.
  - eauto.
Qed.

Lemma read_tour_written ix actors t added :
  stour_ok ix actors t ->
  NoDup (single_keys ix (st_items t)) ->
  (forall k, In k (single_keys ix (st_items t)) -> ~ In k added) ->
  read_acts ix (st_vid t) (st_shift t) (t_acts (doc_tour t)) added =
    inr (map item_ract (st_items t), List.rev (tour_keys (st_items t)) ++ added).
Proof.
  intros (_ & Hpre & Hpost & Hok) Hnd Hfresh. unfold doc_tour. cbn [t_acts].
  rewrite read_acts_app, (read_acts_terminals _ _ _ _ _ Hpre), read_acts_app.
  unfold write_tour, st_acts in *. rewrite (read_acts_written ix _ _ _ _ _ _ _ added Hok Hnd Hfresh).
  rewrite (read_acts_terminals _ _ _ _ _ Hpost). cbn [app]. rewrite app_nil_r. reflexivity.
Qed.

Lemma read_tours_written ix actors : forall tours added,
  Forall (stour_ok ix actors) tours ->
  NoDup (single_keys ix (all_items tours)) ->
  (forall k, In k (single_keys ix (all_items tours)) -> ~ In k added) ->
  read_tours ix actors (map doc_tour tours) added =
    inr (map expected_route tours, List.rev (tour_keys (all_items tours)) ++ added).
Proof.
  induction tours as [|t tours IH]; intros added Hok Hnd Hfresh; [reflexivity|].
  inversion Hok as [|t0 l Ht Hrest]; subst. unfold all_items in *. cbn [flat_map] in *.
  rewrite single_keys_app in Hnd, Hfresh.
  cbn [map read_tours]. cbn [t_vid t_type t_shift doc_tour].
  destruct Ht as (Hactor & Ht'). rewrite Hactor. cbn [negb].
  change (st_pre t ++ write_tour (st_start t) (st_start_loc t) (st_acts t) ++ st_post t) with (t_acts (doc_tour t)).
  rewrite (read_tour_written ix actors t added (conj Hactor Ht') (nodup_app_l _ _ Hnd)).
  2:{ intros k Hk. apply Hfresh. apply in_or_app. auto. }
  rewrite (IH (List.rev (tour_keys (st_items t)) ++ added) Hrest (nodup_app_r _ _ Hnd)).
  - unfold expected_route at 1. rewrite tour_keys_app, rev_app_distr, <- app_assoc. reflexivity.
  - intros k Hk Hin. apply in_app_or in Hin. destruct Hin as [Hin|Hin].
    + apply in_rev in Hin. destruct (is_single_key ix k) eqn:E.
      * apply (nodup_app_disj _ _ k Hnd); [|exact Hk]. unfold single_keys. apply filter_In. auto.
      * unfold single_keys in Hk. apply filter_In in Hk. destruct Hk. congruence.
    + apply (Hfresh k); [apply in_or_app; auto|exact Hin].
Qed.

Lemma read_unassigned_ok ix : forall us added,
  Forall (fun k => lookup ix k <> None) us ->
  read_unassigned ix (map (fun k => (k, true)) us) added = inr (us, List.rev us ++ added).
Proof.
  induction us as [|k us IH]; intros added H; [reflexivity|]. inversion H; subst. cbn [map read_unassigned].
  destruct (lookup ix k); [|congruence]. cbn [negb]. rewrite (IH (k :: added)) by assumption.
  cbn [List.rev]. rewrite <- app_assoc. reflexivity.
Qed.

(* the whole document: the routes are the solver's tours, the unassigned jobs are the listed ones plus every job of the
   problem that is neither served nor listed *)
Lemma read_init_written ix actors all_jobs tours us :
  Forall (stour_ok ix actors) tours ->
  NoDup (single_keys ix (all_items tours)) ->
  Forall (fun k => lookup ix k <> None) us ->
  read_init ix actors all_jobs (map doc_tour tours) (map (fun k => (k, true)) us) =
    ROk (map expected_route tours)
        (us ++ filter (fun k => negb (str_in k (List.rev us ++ List.rev (tour_keys (all_items tours)) ++ []))) all_jobs).
Proof.
  intros Hok Hnd Hus. unfold read_init.
  rewrite (read_tours_written ix actors tours [] Hok Hnd) by (intros k _ []).
  rewrite (read_unassigned_ok ix us _ Hus). reflexivity.
Qed.

Lemma read_init_unassigned_set ix actors all_jobs tours us routes un :
  read_init ix actors all_jobs (map doc_tour tours) (map (fun k => (k, true)) us) = ROk routes un ->
  Forall (stour_ok ix actors) tours -> NoDup (single_keys ix (all_items tours)) -> Forall (fun k => lookup ix k <> None) us ->
  routes = map expected_route tours /\
  forall k, In k un <-> In k us \/ (In k all_jobs /\ ~ In k us /\ ~ In k (tour_keys (all_items tours))).
Proof.
  intros E Hok Hnd Hus. rewrite (read_init_written ix actors all_jobs tours us Hok Hnd Hus) in E. inversion E; subst. split; [reflexivity|].
  intros k. rewrite in_app_iff, filter_In, negb_true_iff, str_in_false, !in_app_iff, <- !in_rev. cbn [In]. tauto.
Qed.

(* the solver's partition of the jobs (served / unassigned) is what the reader reconstructs *)
Lemma read_init_same_unassigned ix actors all_jobs tours us routes un (U : list string) :
  read_init ix actors all_jobs (map doc_tour tours) (map (fun k => (k, true)) us) = ROk routes un ->
  Forall (stour_ok ix actors) tours -> NoDup (single_keys ix (all_items tours)) -> Forall (fun k => lookup ix k <> None) us ->
  (forall k, In k all_jobs <-> In k (tour_keys (all_items tours)) \/ In k U) ->
  (forall k, In k U -> ~ In k (tour_keys (all_items tours))) ->
  incl us U ->
  routes = map expected_route tours /\ forall k, In k un <-> In k U.
Proof.
  intros E Hok Hnd Hus Hall Hdisj Hincl.
  destruct (read_init_unassigned_set ix actors all_jobs tours us routes un E Hok Hnd Hus) as (-> & Hun). split; [reflexivity|].
  intros k. rewrite Hun. split.
  - intros [H|(Ha & Hnu & Hns)]; [apply Hincl; exact H|]. apply Hall in Ha. tauto.
  - intros HU. destruct (in_dec string_dec k us) as [Hi|Hn]; [left; exact Hi|right].
    split; [apply Hall; auto|]. split; [exact Hn|apply Hdisj; exact HU].
Qed.

(* two ways a candidate tried before the activity's own job is told apart *)
Lemma match_place_other_tag_any : forall s b c,
  same_tags (get_job_tag s (c_loc c) (act_win c) (c_start c)) (c_tag c) = false -> match_place s b c = None.
Proof. intros s b c H. unfold match_place. rewrite H. reflexivity. Qed.

Lemma find_idx_none {A} (f : A -> bool) l n : (forall a, In a l -> f a = false) -> find_idx f l n = None.
Proof.
  revert n. induction l as [|x l IH]; intros n H; [reflexivity|]. cbn. rewrite (H x) by (left; reflexivity).
  apply IH. intros a Ha. apply H. right. exact Ha.
Qed.

Lemma match_place_no_place : forall s b c,
  (forall p, In p (s_places s) -> accepts p (c_loc c) (c_start c) (act_win c) = false) -> match_place s b c = None.
Proof.
  intros s b c H. unfold match_place. destruct (same_tags _ _ && _); [|reflexivity].
  rewrite (find_idx_none _ _ _ H). reflexivity.
Qed.

(* ---- witnesses ---- *)
Ltac solve_placed :=
  constructor; cbn;
  [ reflexivity | reflexivity | reflexivity | reflexivity | lia | reflexivity | reflexivity | reflexivity | reflexivity
  | intros j q Hj Hq; destruct j as [|j]; [congruence|destruct j; discriminate]
  | intros k' sp' Hk Hq; destruct k' as [|k']; [lia|destruct k'; discriminate] ].

Definition wdep (t : Z) : wact := mk_wact "departure" false false (mk_actx t 0 (t, t) "departure" None).
Definition warr (t0 t : Z) : wact := mk_wact "arrival" false false (mk_actx t0 0 (t, t) "arrival" None).
Lemma terminals_dep t : terminals [wdep t].
Proof. repeat constructor. Qed.
Lemma terminals_arr t0 t : terminals [warr t0 t].
Proof. repeat constructor. Qed.

(* (1) the boundary case: job1 is reached at the last second of its window [0,9]; the optional break with the offset
   interval [5,10] starts at 10 = departure + latest offset; job3 is unassigned.  Everything is read back. *)
Definition bd_j1 := mk_single "job1" [mk_place (Some 1) 1 [SWindow 0 (Some 9)]] [].
Definition bd_j2 := mk_single "job2" [mk_place (Some 2) 1 [SWindow 0 None]] [].
Definition bd_j3 := mk_single "job3" [mk_place (Some 3) 1 [SWindow 0 (Some 5)]] [].
Definition bd_br := mk_single "v1_break_0_1" [mk_place None 2 [SOffset 5 10]] [].
Definition bd_ix : job_index :=
  [("job1", JSingle bd_j1); ("job2", JSingle bd_j2); ("job3", JSingle bd_j3); ("v1_break_0_1", JSingle bd_br)].
Definition bd_a1 := mk_sact "job1" None "delivery" 0 bd_j1 1 (0, Some 9) 9 1.
Definition bd_a2 := mk_sact "v1_break_0_1" (Some "break") "break" 0 bd_br 1 (5, Some 10) 10 2.
Definition bd_a3 := mk_sact "job2" None "delivery" 0 bd_j2 2 (0, None) 23 1.
Definition bd_tour : stour :=
  mk_stour "v1" "type1" 0 0 0 [(bd_a1, 0%nat, SWindow 0 (Some 9)); (bd_a2, 0%nat, SOffset 5 10); (bd_a3, 0%nat, SWindow 0 None)]
           [wdep 0] [warr 0 44].
Definition bd_actors : list actor_key := [("v1", "type1", 0%nat)].

Lemma bd_tour_ok : stour_ok bd_ix bd_actors bd_tour.
Proof.
  split; [reflexivity|]. split; [apply terminals_dep|]. split; [apply terminals_arr|].
  cbn [bd_tour st_vid st_shift st_start st_start_loc st_items st_acts map item_act fst].
  change (doc_route_start 0 0 [bd_a1; bd_a2; bd_a3]) with 0.
  apply tok_cons.
  { apply (ww_single _ _ _ _ _ _ _ _ _ bd_j1 (mk_place (Some 1) 1 [SWindow 0 (Some 9)]) 0%nat); try reflexivity.
    - solve_placed.
    - left. split; reflexivity. }
  apply tok_cons.
  { apply (ww_vehicle _ _ _ _ _ _ _ _ _ "break" [bd_br] bd_br (mk_place None 2 [SOffset 5 10]) 0%nat); try reflexivity.
    - cbn. auto.
    - intros j s' Hj. destruct j as [|j]; [inversion Hj; reflexivity|destruct j; discriminate].
    - intros j s' Hj. cbn in Hj. lia.
    - solve_placed.
    - left. split; reflexivity. }
  apply tok_cons.
  { apply (ww_single _ _ _ _ _ _ _ _ _ bd_j2 (mk_place (Some 2) 1 [SWindow 0 None]) 0%nat); try reflexivity.
    - solve_placed.
    - left. split; reflexivity. }
  apply tok_nil.
Qed.

Lemma boundary_nonvacuous :
  stour_ok bd_ix bd_actors bd_tour /\
  sa_ts bd_a1 = 9 /\ sa_ts bd_a2 = 0 + 10 /\
  read_init bd_ix bd_actors ["job1"; "job2"; "job3"; "v1_break_0_1"] [doc_tour bd_tour] [("job3", true)] =
    ROk [expected_route bd_tour] ["job3"].
Proof. split; [exact bd_tour_ok|]. repeat split; vm_compute; reflexivity. Qed.

(* (2) finding C11-F6: job1 is served at the start location for 60 s right after departure; the writer merges it into the
   departure stop, whose `departure` becomes 60; the reader counts the break's offsets [70,100] from 60 *)
Definition f6_j1 := mk_single "job1" [mk_place (Some 0) 60 [SWindow 0 (Some 0)]] [].
Definition f6_j2 := mk_single "job2" [mk_place (Some 1) 1 [SWindow 0 None]] [].
Definition f6_br := mk_single "v1_break_0_1" [mk_place None 2 [SOffset 70 100]] [].
Definition f6_ix : job_index := [("job1", JSingle f6_j1); ("job2", JSingle f6_j2); ("v1_break_0_1", JSingle f6_br)].
Definition f6_a1 := mk_sact "job1" None "delivery" 0 f6_j1 0 (0, Some 0) 0 60.
Definition f6_a2 := mk_sact "job2" None "delivery" 0 f6_j2 1 (0, None) 80 1.
Definition f6_a3 := mk_sact "v1_break_0_1" (Some "break") "break" 0 f6_br 1 (70, Some 100) 81 2.
Definition f6_items := [(f6_a1, 0%nat, SWindow 0 (Some 0)); (f6_a2, 0%nat, SWindow 0 None); (f6_a3, 0%nat, SOffset 70 100)].
Definition f6_tour : stour := mk_stour "v1" "type1" 0 0 0 f6_items [wdep 0] [warr 60 103].

Lemma f6_well_written : Forall (fun it => well_written f6_ix "v1" 0 0 0 0 (item_act it) (snd (fst it)) (snd it)) f6_items.
Proof.
  repeat apply Forall_cons; [| | |apply Forall_nil]; cbn [item_act fst snd].
  - apply (ww_single _ _ _ _ _ _ _ _ _ f6_j1 (mk_place (Some 0) 60 [SWindow 0 (Some 0)]) 0%nat); try reflexivity.
    + solve_placed.
    + left. split; reflexivity.
  - apply (ww_single _ _ _ _ _ _ _ _ _ f6_j2 (mk_place (Some 1) 1 [SWindow 0 None]) 0%nat); try reflexivity.
    + solve_placed.
    + left. split; reflexivity.
  - apply (ww_vehicle _ _ _ _ _ _ _ _ _ "break" [f6_br] f6_br (mk_place None 2 [SOffset 70 100]) 0%nat); try reflexivity.
    + cbn. auto.
    + intros j s' Hj. destruct j as [|j]; [inversion Hj; reflexivity|destruct j; discriminate].
    + intros j s' Hj. cbn in Hj. lia.
    + solve_placed.
    + left. split; reflexivity.
Qed.

Lemma merged_departure_stop_refuted :
  exists ix actors all_jobs t,
    Forall (fun it => well_written ix (st_vid t) (st_shift t) (st_start t) (st_start t) (st_start t)
                                   (item_act it) (snd (fst it)) (snd it)) (st_items t) /\
    NoDup (single_keys ix (st_items t)) /\ terminals (st_pre t) /\ terminals (st_post t) /\
    (forall a, In a (st_acts t) -> is_reload a = false) /\
    doc_route_start (st_start t) (st_start_loc t) (st_acts t) <> st_start t /\
    read_init ix actors all_jobs [doc_tour t] [] = RErr ECannotMatchVehicle.
Proof.
  exists f6_ix, bd_actors, ["job1"; "job2"; "v1_break_0_1"], f6_tour.
  split; [exact f6_well_written|]. split; [vm_compute; repeat constructor; cbn; intuition discriminate|].
  split; [apply terminals_dep|]. split; [apply terminals_arr|].
  split; [intros a [<-|[<-|[<-|[]]]]; reflexivity|]. split; [vm_compute; discriminate|]. vm_compute. reflexivity.
Qed.

(* (3) finding C11-F7: the tagged break with the offset interval [45,50] is taken at 47 after a reload; the writer looks the
   tag up with the departure of the activity before the reload (11), finds no fitting place and writes no tag *)
Definition f7_j1 := mk_single "job1" [mk_place (Some 1) 1 [SWindow 0 None]] [].
Definition f7_j2 := mk_single "job2" [mk_place (Some 2) 1 [SWindow 0 (Some 46)]] [].
Definition f7_rl := mk_single "v1_reload_0_1" [mk_place (Some 0) 5 [SWindow 0 None]] [].
Definition f7_br := mk_single "v1_break_0_1" [mk_place None 2 [SOffset 45 50]] [(0%nat, "lunch")].
Definition f7_ix : job_index :=
  [("job1", JSingle f7_j1); ("job2", JSingle f7_j2); ("v1_reload_0_1", JSingle f7_rl); ("v1_break_0_1", JSingle f7_br)].
Definition f7_a1 := mk_sact "job1" None "delivery" 0 f7_j1 1 (0, None) 10 1.
Definition f7_a2 := mk_sact "v1_reload_0_1" (Some "reload") "reload" 0 f7_rl 0 (0, None) 21 5.
Definition f7_a3 := mk_sact "job2" None "delivery" 0 f7_j2 2 (0, Some 46) 46 1.
Definition f7_a4 := mk_sact "v1_break_0_1" (Some "break") "break" 0 f7_br 2 (45, Some 50) 47 2.
Definition f7_items := [(f7_a1, 0%nat, SWindow 0 None); (f7_a2, 0%nat, SWindow 0 None); (f7_a3, 0%nat, SWindow 0 (Some 46));
                        (f7_a4, 0%nat, SOffset 45 50)].
Definition f7_tour : stour := mk_stour "v1" "type1" 0 0 0 f7_items [wdep 0] [warr 0 69].

Lemma f7_well_written : Forall (fun it => well_written f7_ix "v1" 0 0 0 0 (item_act it) (snd (fst it)) (snd it)) f7_items.
Proof.
  repeat apply Forall_cons; [| | | |apply Forall_nil]; cbn [item_act fst snd].
  - apply (ww_single _ _ _ _ _ _ _ _ _ f7_j1 (mk_place (Some 1) 1 [SWindow 0 None]) 0%nat); try reflexivity.
    + solve_placed.
    + left. split; reflexivity.
  - apply (ww_vehicle _ _ _ _ _ _ _ _ _ "reload" [f7_rl] f7_rl (mk_place (Some 0) 5 [SWindow 0 None]) 0%nat); try reflexivity.
    + cbn. auto.
    + intros j s' Hj. destruct j as [|j]; [inversion Hj; reflexivity|destruct j; discriminate].
    + intros j s' Hj. cbn in Hj. lia.
    + solve_placed.
    + left. split; reflexivity.
  - apply (ww_single _ _ _ _ _ _ _ _ _ f7_j2 (mk_place (Some 2) 1 [SWindow 0 (Some 46)]) 0%nat); try reflexivity.
    + solve_placed.
    + left. split; reflexivity.
  - apply (ww_vehicle _ _ _ _ _ _ _ _ _ "break" [f7_br] f7_br (mk_place None 2 [SOffset 45 50]) 0%nat); try reflexivity.
    + cbn. auto.
    + intros j s' Hj. destruct j as [|j]; [inversion Hj; reflexivity|destruct j; discriminate].
    + intros j s' Hj. cbn in Hj. lia.
    + solve_placed.
    + left. split; reflexivity.
Qed.

Lemma tag_after_reload_refuted :
  exists ix actors all_jobs t,
    Forall (fun it => well_written ix (st_vid t) (st_shift t) (st_start t) (st_start t) (st_start t)
                                   (item_act it) (snd (fst it)) (snd it)) (st_items t) /\
    NoDup (single_keys ix (st_items t)) /\ terminals (st_pre t) /\ terminals (st_post t) /\
    doc_route_start (st_start t) (st_start_loc t) (st_acts t) = st_start t /\
    (exists a, In a (st_acts t) /\ is_reload a = true) /\
    read_init ix actors all_jobs [doc_tour t] [] = RErr ECannotMatchVehicle.
Proof.
  exists f7_ix, bd_actors, ["job1"; "job2"; "v1_reload_0_1"; "v1_break_0_1"], f7_tour.
  split; [exact f7_well_written|]. split; [vm_compute; repeat constructor; cbn; intuition discriminate|].
  split; [apply terminals_dep|]. split; [apply terminals_arr|].
  split; [vm_compute; reflexivity|]. split; [exists f7_a2; split; [cbn; auto|reflexivity]|]. vm_compute. reflexivity.
Qed.

(* ---- the round trip of a whole document ---- *)
Lemma init_roundtrip ix actors all_jobs tours us (U : list string) :
  Forall (stour_ok ix actors) tours ->
  NoDup (single_keys ix (all_items tours)) ->
  Forall (fun k => lookup ix k <> None) us ->
  (forall k, In k all_jobs <-> In k (tour_keys (all_items tours)) \/ In k U) ->
  (forall k, In k U -> ~ In k (tour_keys (all_items tours))) ->
  incl us U ->
  exists un, read_init ix actors all_jobs (map doc_tour tours) (map (fun k => (k, true)) us) = ROk (map expected_route tours) un
             /\ forall k, In k un <-> In k U.
Proof.
  intros Hok Hnd Hus Hall Hdisj Hincl.
  pose proof (read_init_written ix actors all_jobs tours us Hok Hnd Hus) as E.
  eexists. split; [exact E|].
  destruct (read_init_same_unassigned ix actors all_jobs tours us _ _ U E Hok Hnd Hus Hall Hdisj Hincl) as (_ & H). exact H.
Qed.

(* a tour without reload in which no job is merged into the departure stop: writer and reader use the tour's departure *)
Lemma tour_ok_plain ix vid shift start : forall items prev,
  (forall it, In it items -> is_reload (item_act it) = false) ->
  Forall (fun it => well_written ix vid shift start start start (item_act it) (snd (fst it)) (snd it)) items ->
  tour_ok ix vid shift start start start prev items.
Proof.
  induction items as [|[[a i] sp] items IH]; intros prev Hnr Hww; [apply tok_nil|].
  inversion Hww as [|x l Hw Hrest]; subst. cbn [item_act fst snd] in Hw.
  pose proof (Hnr (a, i, sp) (or_introl eq_refl)) as Hr. cbn [item_act fst] in Hr.
  apply tok_cons; rewrite Hr; [exact Hw|]. apply IH; [|exact Hrest]. intros it Hit. apply Hnr. right. exact Hit.
Qed.

Lemma stour_ok_plain ix actors t :
  existsb (actor_eqb (st_vid t, st_type t, st_shift t)) actors = true ->
  terminals (st_pre t) -> terminals (st_post t) ->
  (forall a, In a (st_acts t) -> is_reload a = false) ->
  doc_route_start (st_start t) (st_start_loc t) (st_acts t) = st_start t ->
  Forall (fun it => well_written ix (st_vid t) (st_shift t) (st_start t) (st_start t) (st_start t)
                                 (item_act it) (snd (fst it)) (snd it)) (st_items t) ->
  stour_ok ix actors t.
Proof.
  intros Ha Hpre Hpost Hnr Hds Hww. split; [exact Ha|]. split; [exact Hpre|]. split; [exact Hpost|].
  rewrite Hds. apply tour_ok_plain; [|exact Hww]. intros it Hit. apply Hnr. unfold st_acts. apply in_map. exact Hit.
Qed.

(* nothing is merged into the departure stop when the first job activity is elsewhere (or there is none) *)
Lemma doc_route_start_first_elsewhere start start_loc a rest :
  sa_loc a <> start_loc -> doc_route_start start start_loc (a :: rest) = start.
Proof. intros H. cbn. destruct (Z.eqb_spec (sa_loc a) start_loc); [contradiction|reflexivity]. Qed.

Lemma window_spans_ignore_start : forall s b st1 st2 loc w tm jid tag,
  no_offsets s = true ->
  get_job_tag s loc w st1 = get_job_tag s loc w st2 /\
  match_place s b (mk_actx st1 loc tm jid tag) = match_place s b (mk_actx st2 loc tm jid tag).
Proof.
  intros s b st1 st2 loc w tm jid tag H.
  split; [exact (get_job_tag_start_irrel s loc w st1 st2 H)|exact (match_place_start_irrel s b st1 st2 loc tm jid tag H)].
Qed.

Lemma candidate_told_apart : forall s b c,
  same_tags (get_job_tag s (c_loc c) (act_win c) (c_start c)) (c_tag c) = false \/
  (forall p, In p (s_places s) -> accepts p (c_loc c) (c_start c) (act_win c) = false) ->
  match_place s b c = None.
Proof. intros s b c [H|H]; [exact (match_place_other_tag_any s b c H)|exact (match_place_no_place s b c H)]. Qed.

(* finding C11-F8: what break_writer.rs writes for a REQUIRED break is never read back *)
Lemma transit_stop_refused ix vid shift a rest added :
  w_commute a = false -> w_transit a = true -> read_acts ix vid shift (a :: rest) added = inl ETransit.
Proof. intros Hc Ht. cbn [read_acts]. rewrite Hc, Ht. reflexivity. Qed.

Lemma break_without_optional_break_refused ix vid shift a rest added :
  w_commute a = false -> w_transit a = false -> w_type a = "break"%string ->
  lookup ix (vjob_id vid "break" shift 1) = None ->
  read_acts ix vid shift (a :: rest) added = inl ECannotMatchVehicle.
Proof.
  intros Hc Ht Hty Hl. cbn [read_acts]. rewrite Hc, Ht. unfold try_match_point_job. rewrite Hty.
  change (is_terminal "break") with false. change (is_customer "break") with false. change (is_vehicle_specific "break") with true.
  cbn match. unfold try_match_vehicle_job. cbn [vcands]. rewrite Hl. reflexivity.
Qed.
