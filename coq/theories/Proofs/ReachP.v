(* C01, reachability clause: a model of ReachableConstraint::evaluate (vrp-core/src/construction/features/reachable.rs) as
   the gate of an insertion, the theorem that a gated insertion keeps every leg of the tour reachable, and the witness that
   a REMOVAL (remove_at: what the ruin step does, Proofs/CoreRemoveP.v) does not: the two neighbours of the removed
   activity become adjacent and nothing looks at that new leg (finding C01-F4). *)
From VRP Require Import Base.Tac Model.Core Proofs.CoreRemoveP.

Section Reach.
Variable err : Z -> Z -> Z.    (* errorCodes of the routing matrix: a positive value marks the leg as unreachable *)

(* every leg of the visiting order is reachable *)
Fixpoint legs_ok (loc : Z) (l : list act) : bool :=
  match l with [] => true | a :: r => (err loc (a_loc a) <=? 0) && legs_ok (a_loc a) r end.
Definition tour_reachable (t : list act) : bool := match t with [] => true | s :: r => legs_ok (a_loc s) r end.

(* the gate: prev -> target and, when there is a next activity, target -> next (the transport cost of an unreachable leg
   is -1, i.e. "< 0" in the code is "errorCodes > 0" here) *)
Definition reach_gate (t : list act) (idx : nat) (a : act) : bool :=
  match nth_error t idx with
  | None => false
  | Some p => (err (a_loc p) (a_loc a) <=? 0)
              && match nth_error t (S idx) with Some n => err (a_loc a) (a_loc n) <=? 0 | None => true end
  end.

Lemma insert_after_cons p l k a : insert_after (p :: l) (S k) a = p :: insert_after l k a.
Proof. unfold insert_after. reflexivity. Qed.

Lemma legs_insert : forall idx p l a,
  legs_ok (a_loc p) l = true -> reach_gate (p :: l) idx a = true ->
  tour_reachable (insert_after (p :: l) idx a) = true.
Proof.
  induction idx as [|k IH]; intros p l a Hl Hg.
  - unfold insert_after. cbn [firstn skipn app tour_reachable legs_ok].
    unfold reach_gate in Hg. cbn [nth_error] in Hg. apply andb_true_iff in Hg. destruct Hg as [H1 H2].
    rewrite H1. cbn [andb]. destruct l as [|n r]; [reflexivity|].
    cbn [nth_error] in H2. cbn [legs_ok] in Hl |- *. apply andb_true_iff in Hl. destruct Hl as [_ Hr].
    rewrite H2, Hr. reflexivity.
  - destruct l as [|q r].
    + unfold reach_gate in Hg. cbn [nth_error] in Hg. destruct k; discriminate.
    + rewrite insert_after_cons. cbn [legs_ok] in Hl. apply andb_true_iff in Hl. destruct Hl as [Hpq Hr].
      assert (Hg' : reach_gate (q :: r) k a = true) by exact Hg.
      specialize (IH q r a Hr Hg').
      unfold insert_after in IH |- *. cbn [firstn app tour_reachable] in IH |- *.
      cbn [legs_ok]. rewrite Hpq. exact IH.
Qed.

(* an insertion that passed the gate keeps every leg reachable: any position, any tour *)
Theorem reach_insertion_sound : forall t idx a,
  tour_reachable t = true -> reach_gate t idx a = true -> tour_reachable (insert_after t idx a) = true.
Proof.
  intros [|p l] idx a Ht Hg.
  - unfold reach_gate in Hg. destruct idx; discriminate.
  - apply legs_insert; assumption.
Qed.

End Reach.

(* the removal step is not gated: depot 0, jobs at 1 and 2, only the leg 2 -> 0 is unreachable; 0 -> 2 -> 1 -> 0 is fine,
   removing the job at 1 leaves 0 -> 2 -> 0 *)
Definition ex_err (i j : Z) : Z := if (i =? 2) && (j =? 0) then 1 else 0.
Definition ex_act (job loc : Z) : act := mkAct job loc 0 0 1000 dzero 0 0.
Definition ex_reach_tour : list act := [ex_act (-1) 0; ex_act 2 2; ex_act 1 1; ex_act (-1) 0].

Theorem removal_unreachable_refuted :
  exists (err : Z -> Z -> Z) t idx,
    tour_reachable err t = true /\ (0 < idx < length t)%nat /\ tour_reachable err (remove_at t idx) = false.
Proof. exists ex_err, ex_reach_tour, 2%nat. split; [reflexivity|]. split; [cbn; lia|reflexivity]. Qed.

(* and a later gated insertion happily builds on the broken tour: job 1 goes back in front (0 -> 1 -> 2 -> 0), the gate
   sees only 0 -> 1 and 1 -> 2 *)
Theorem insertion_after_removal_keeps_broken_leg :
  reach_gate ex_err (remove_at ex_reach_tour 2) 0 (ex_act 1 1) = true
  /\ tour_reachable ex_err (insert_after (remove_at ex_reach_tour 2) 0 (ex_act 1 1)) = false.
Proof. split; reflexivity. Qed.
