(* Proofs about Model/Lkh.v, part 2: the cost clause and the termination of KOpt::optimize.
   kopt.rs never compares closed-tour costs: a move is accepted when its GAIN (sum of removed edge costs minus sum of
   added edge costs, `relink > 0`) is positive and Tour::try_path can rebuild a tour.  So "the output is never more
   expensive" needs the structural fact that the rebuilt path is exactly the edge set  tour \ X u Y  traversed as ONE
   closed cycle.  It is derived here from the search invariant (alternating trail: every node has the same degree in X
   and in Y; |X| = |Y|) together with the two length checks of try_path. *)
From Coq Require Import Permutation.
From VRP Require Import Base.Tac Model.Lkh Proofs.LkhP.
Local Open Scope nat_scope.

Lemma NoDup_app_intro_e {A} (a b : list A) :
  NoDup a -> NoDup b -> (forall x, In x a -> In x b -> False) -> NoDup (a ++ b).
Proof.
  induction a as [|x a IH]; intros Ha Hb Hd; cbn [app]; [exact Hb|].
  inversion Ha; subst. constructor.
  - intros Hin. apply in_app_or in Hin. destruct Hin as [Hin | Hin]; [auto|]. apply (Hd x); [left; reflexivity | exact Hin].
  - apply IH; [assumption | exact Hb |]. intros y Hy. apply Hd. right. exact Hy.
Qed.

(* ------------------------------------------------------------------ A. sorted edge sets *)
Lemma edge_ltb_irrefl a : edge_ltb a a = false.
Proof. unfold edge_ltb. rewrite !Nat.ltb_irrefl, Nat.eqb_refl. reflexivity. Qed.

Lemma edge_ltb_spec a b :
  edge_ltb a b = true <-> (fst a < fst b \/ (fst a = fst b /\ snd a < snd b)).
Proof.
  unfold edge_ltb. rewrite orb_true_iff, andb_true_iff, !Nat.ltb_lt, Nat.eqb_eq. tauto.
Qed.

Lemma edge_ltb_trans a b c : edge_ltb a b = true -> edge_ltb b c = true -> edge_ltb a c = true.
Proof. rewrite !edge_ltb_spec. lia. Qed.

Lemma edge_ltb_total e x : edge_eqb e x = false -> edge_ltb e x = false -> edge_ltb x e = true.
Proof.
  intros H1 H2. apply edge_ltb_spec.
  assert (N1 : ~ (fst e < fst x \/ (fst e = fst x /\ snd e < snd x))) by (rewrite <- edge_ltb_spec; congruence).
  assert (N2 : e <> x) by (rewrite <- edge_eqb_eq; congruence).
  destruct e as [e1 e2], x as [x1 x2]; cbn [fst snd] in *.
  assert (~ (e1 = x1 /\ e2 = x2)) by (intros [-> ->]; apply N2; reflexivity). lia.
Qed.

Fixpoint ssorted (s : eset) : Prop :=
  match s with
  | [] => True
  | x :: r => (forall y, In y r -> edge_ltb x y = true) /\ ssorted r
  end.

Lemma ssorted_NoDup s : ssorted s -> NoDup s.
Proof.
  induction s as [|x r IH]; intros H; [constructor|]. destruct H as [H1 H2]. constructor; [|auto].
  intros Hin. specialize (H1 x Hin). rewrite edge_ltb_irrefl in H1. discriminate.
Qed.

Lemma eins_sorted e s : ssorted s -> ssorted (eins e s).
Proof.
  induction s as [|x r IH]; intros H; cbn [eins].
  - split; [intros y []|exact I].
  - destruct H as [H1 H2]. destruct (edge_eqb e x) eqn:E1; [split; assumption|].
    destruct (edge_ltb e x) eqn:E2.
    + split; [|split; assumption]. intros y [<- | Hy]; [exact E2|]. eapply edge_ltb_trans; [exact E2 | auto].
    + split; [|auto]. intros y Hy. apply -> eins_In in Hy. destruct Hy as [-> | Hy]; [|auto].
      apply edge_ltb_total; assumption.
Qed.

Lemma eins_in_id e s : ssorted s -> In e s -> eins e s = s.
Proof.
  induction s as [|x r IH]; intros H Hin; [destruct Hin|]. destruct H as [H1 H2]. cbn [eins].
  destruct (edge_eqb e x) eqn:E1; [reflexivity|].
  destruct Hin as [-> | Hin]; [rewrite (proj2 (edge_eqb_eq e e) eq_refl) in E1; discriminate|].
  specialize (H1 e Hin).
  destruct (edge_ltb e x) eqn:E2.
  - pose proof (edge_ltb_trans _ _ _ E2 H1) as C. rewrite edge_ltb_irrefl in C. discriminate.
  - rewrite IH; auto.
Qed.

Lemma eins_new_perm e s : ~ In e s -> Permutation (eins e s) (e :: s).
Proof.
  induction s as [|x r IH]; intros Hn; cbn [eins]; [apply Permutation_refl|].
  destruct (edge_eqb e x) eqn:E1; [apply edge_eqb_eq in E1; subst; exfalso; apply Hn; left; reflexivity|].
  destruct (edge_ltb e x); [apply Permutation_refl|].
  eapply Permutation_trans; [apply perm_skip; apply IH; intros H; apply Hn; right; exact H | apply perm_swap].
Qed.

Lemma fold_eins_sorted (l : list edge) : forall s, ssorted s -> ssorted (fold_left (fun s e => eins e s) l s).
Proof. induction l as [|e l IH]; intros s H; cbn [fold_left]; [exact H|]. apply IH. apply eins_sorted. exact H. Qed.

Lemma filter_sorted f s : ssorted s -> ssorted (filter f s).
Proof.
  induction s as [|x r IH]; intros H; cbn [filter]; [exact I|]. destruct H as [H1 H2].
  destruct (f x); [|auto]. split; [|auto]. intros y Hy. apply filter_In in Hy. apply H1. tauto.
Qed.

Lemma fold_eins_perm (l : list edge) : forall s,
  NoDup l -> (forall x, In x l -> ~ In x s) -> Permutation (fold_left (fun s e => eins e s) l s) (l ++ s).
Proof.
  induction l as [|e l IH]; intros s ND Hd; cbn [fold_left]; [apply Permutation_refl|].
  inversion ND; subst.
  assert (He : ~ In e s) by (apply Hd; left; reflexivity).
  eapply Permutation_trans; [apply IH; [assumption|]|].
  - intros x Hx Hin. apply -> eins_In in Hin. destruct Hin as [-> | Hin]; [auto|]. apply (Hd x); [right; exact Hx | exact Hin].
  - eapply Permutation_trans; [apply Permutation_app_head; apply eins_new_perm; exact He|].
    apply Permutation_sym. apply Permutation_middle.
Qed.

Lemma eunion_len_le : forall j s, length (eunion s j) <= length s + length j.
Proof.
  unfold eunion. induction j as [|e j IH]; intros s; cbn [fold_left length]; [lia|].
  specialize (IH (eins e s)). pose proof (eins_length_le e s). lia.
Qed.

Lemma eunion_full : forall j s, ssorted s ->
  length (eunion s j) = length s + length j -> Permutation (eunion s j) (j ++ s).
Proof.
  induction j as [|e j IH]; intros s Hs Hlen; [apply Permutation_refl|].
  change (eunion s (e :: j)) with (eunion (eins e s) j) in *. cbn [length] in Hlen.
  pose proof (eunion_len_le j (eins e s)) as Hle. pose proof (eins_length_le e s) as Hle2.
  assert (Hnew : ~ In e s).
  { intros Hin. rewrite (eins_in_id e s Hs Hin) in Hle, Hlen. lia. }
  eapply Permutation_trans; [apply IH; [apply eins_sorted; exact Hs | lia]|].
  eapply Permutation_trans; [apply Permutation_app_head; apply eins_new_perm; exact Hnew|].
  apply Permutation_sym. apply Permutation_middle.
Qed.

Lemma filter_split {A} (f : A -> bool) (l : list A) :
  Permutation l (filter f l ++ filter (fun x => negb (f x)) l).
Proof.
  induction l as [|x l IH]; [apply Permutation_refl|]. cbn [filter]. destruct (f x); cbn [negb app].
  - apply perm_skip. exact IH.
  - eapply Permutation_trans; [apply perm_skip; exact IH | apply Permutation_middle].
Qed.

Lemma ediff_split E X : NoDup E -> NoDup X -> incl X E -> Permutation E (X ++ ediff E X).
Proof.
  intros NE NX Hincl. unfold ediff.
  eapply Permutation_trans; [apply (filter_split (fun e => emem e X))|].
  apply Permutation_app_tail. apply NoDup_Permutation; [apply NoDup_filter; exact NE | exact NX|].
  intros x. rewrite filter_In, emem_In. split; [tauto | intros H; split; [apply Hincl; exact H | exact H]].
Qed.

(* ------------------------------------------------------------------ degrees (no costs involved) *)
Definition ind (v a : nat) : nat := if a =? v then 1 else 0.
Definition dg (v : nat) (e : edge) : nat := ind v (fst e) + ind v (snd e).
Fixpoint deg (v : nat) (s : list edge) : nat := match s with [] => 0 | e :: r => dg v e + deg v r end.

Lemma deg_perm v a b : Permutation a b -> deg v a = deg v b.
Proof. induction 1; cbn [deg] in *; lia. Qed.
Lemma deg_app v a b : deg v (a ++ b) = deg v a + deg v b.
Proof. induction a as [|x a IH]; cbn [deg app] in *; lia. Qed.
Lemma dg_mk v a b : dg v (mk_edge a b) = ind v a + ind v b.
Proof. unfold dg. destruct (mk_edge_ends a b) as [[-> ->] | [-> ->]]; lia. Qed.

Lemma deg_zero v s : (forall e, In e s -> fst e <> v /\ snd e <> v) -> deg v s = 0.
Proof.
  induction s as [|e s IH]; intros H; [reflexivity|]. cbn [deg].
  rewrite IH by (intros x Hx; apply H; right; exact Hx).
  destruct (H e (or_introl eq_refl)) as [A B]. unfold dg, ind.
  destruct (fst e =? v) eqn:E1; [apply Nat.eqb_eq in E1; congruence|].
  destruct (snd e =? v) eqn:E2; [apply Nat.eqb_eq in E2; congruence|]. reflexivity.
Qed.

(* ------------------------------------------------------------------ B. the edge set of a tour *)
Definition mkp (e : nat * nat) : edge := mk_edge (fst e) (snd e).
Definition wedges (p : list nat) : list edge := map mkp (windows2 p).

Lemma wedges_ends p e : In e (wedges p) -> In (fst e) p /\ In (snd e) p.
Proof.
  unfold wedges. intros H. apply in_map_iff in H. destruct H as [[a b] [<- Hab]].
  apply windows2_In in Hab. destruct Hab as [Ha Hb]. unfold mkp. cbn [fst snd].
  destruct (mk_edge_ends a b) as [[-> ->] | [-> ->]]; auto.
Qed.

Lemma mk_edge_has_left a b : fst (mk_edge a b) = a \/ snd (mk_edge a b) = a.
Proof. destruct (mk_edge_ends a b) as [[-> _] | [_ ->]]; auto. Qed.

Lemma wedges_cons a b r : wedges (a :: b :: r) = mk_edge a b :: wedges (b :: r).
Proof. reflexivity. Qed.

Lemma wedges_NoDup : forall p, NoDup p -> NoDup (wedges p).
Proof.
  induction p as [|a [|b r] IH]; intros ND.
  - constructor.
  - constructor.
  - rewrite wedges_cons. inversion ND; subst. constructor; [|apply IH; assumption].
    intros Hin. apply wedges_ends in Hin. destruct Hin as [Q1 Q2].
    destruct (mk_edge_has_left a b) as [E | E]; rewrite E in *; auto.
Qed.

Lemma mk_edge_inj x y u v : mk_edge x y = mk_edge u v -> (x = u /\ y = v) \/ (x = v /\ y = u).
Proof.
  intros H. destruct (mk_edge_ends x y) as [[A B] | [A B]], (mk_edge_ends u v) as [[C D] | [C D]];
    rewrite H in A, B; rewrite A in C; rewrite B in D; auto.
Qed.

Definition raw_edges (p : list nat) : list edge := map mkp (windows2 p ++ closing p).

Lemma raw_edges_eq a r : raw_edges (a :: r) = wedges (a :: r) ++ [mk_edge (last (a :: r) a) a].
Proof. unfold raw_edges, wedges. rewrite map_app. reflexivity. Qed.

Lemma last_cons2 (a b : nat) r d : last (a :: b :: r) d = last (b :: r) d.
Proof. reflexivity. Qed.

Lemma raw_edges_NoDup p : NoDup p -> 3 <= length p -> NoDup (raw_edges p).
Proof.
  intros ND Hlen. destruct p as [|a [|b [|c r]]]; cbn [length] in Hlen; try lia.
  rewrite raw_edges_eq. apply NoDup_app_intro_e.
  - apply wedges_NoDup. exact ND.
  - constructor; [intros [] | constructor].
  - intros x Hx [<- | []].
    inversion ND as [|? ? Ha ND1]; subst. inversion ND1 as [|? ? Hb ND2]; subst.
    assert (Hl : In (last (a :: b :: c :: r) a) (c :: r)).
    { rewrite !last_cons2. apply last_In. discriminate. }
    rewrite wedges_cons in Hx. destruct Hx as [Hx | Hx].
    + apply mk_edge_inj in Hx. destruct Hx as [[_ E] | [_ E]].
      * apply Ha. left. exact E.
      * apply Hb. rewrite E. exact Hl.
    + apply wedges_ends in Hx. destruct Hx as [H1 H2].
      destruct (mk_edge_ends (last (a :: b :: c :: r) a) a) as [[_ E] | [E _]]; rewrite E in *; auto.
Qed.

Lemma tedges_perm p : NoDup p -> 3 <= length p -> Permutation (tedges (tour_new p)) (raw_edges p).
Proof.
  intros ND Hlen. cbn [tour_new tedges]. unfold eset_of. fold mkp. fold (raw_edges p).
  rewrite <- (app_nil_r (raw_edges p)) at 2. apply fold_eins_perm; [apply raw_edges_NoDup; assumption | intros x _ []].
Qed.

Lemma tedges_sorted p : ssorted (tedges (tour_new p)).
Proof. cbn [tour_new tedges]. unfold eset_of. apply fold_eins_sorted. exact I. Qed.

Lemma windows2_length q : length (windows2 q) = length q - 1.
Proof.
  induction q as [|a [|b r] IHq]; [reflexivity | reflexivity |].
  change (windows2 (a :: b :: r)) with ((a, b) :: windows2 (b :: r)). cbn [length] in *. rewrite IHq. lia.
Qed.

Lemma tedges_length p : NoDup p -> 3 <= length p -> length (tedges (tour_new p)) = length p.
Proof.
  intros ND Hlen. rewrite (Permutation_length (tedges_perm p ND Hlen)).
  unfold raw_edges. rewrite map_length, app_length, windows2_length.
  destruct p as [|a r]; cbn [closing length] in *; lia.
Qed.

Lemma tedges_deg_start a r : NoDup (a :: r) -> 3 <= length (a :: r) -> deg a (tedges (tour_new (a :: r))) = 2.
Proof.
  intros ND Hlen. rewrite (deg_perm _ _ _ (tedges_perm _ ND Hlen)). rewrite raw_edges_eq, deg_app.
  destruct r as [|b r]; [cbn in Hlen; lia|]. rewrite wedges_cons.
  inversion ND as [|? ? Ha ND1]; subst.
  cbn [deg]. rewrite !dg_mk.
  rewrite (deg_zero a (wedges (b :: r))).
  2:{ intros e He. apply wedges_ends in He. destruct He as [H1 H2]. split; intros E; rewrite E in *; auto. }
  assert (Hl : In (last (a :: b :: r) a) (b :: r)) by (rewrite last_cons2; apply last_In; discriminate).
  unfold ind. rewrite Nat.eqb_refl.
  destruct (b =? a) eqn:E1; [apply Nat.eqb_eq in E1; subst; exfalso; apply Ha; left; reflexivity|].
  destruct (last (a :: b :: r) a =? a) eqn:E2; [apply Nat.eqb_eq in E2; rewrite E2 in Hl; contradiction|].
  reflexivity.
Qed.

(* ------------------------------------------------------------------ edge-cost sums *)
Section Additive.
  Variable cm : list (list Z).

  Definition ec (e : edge) : Z := cost cm (fst e) (snd e).
  Fixpoint esum (s : list edge) : Z := match s with [] => 0%Z | e :: r => (ec e + esum r)%Z end.

  Lemma esum_perm a b : Permutation a b -> esum a = esum b.
  Proof. induction 1; cbn [esum] in *; lia. Qed.
  Lemma esum_app a b : esum (a ++ b) = (esum a + esum b)%Z.
  Proof. induction a as [|x a IH]; cbn [esum app] in *; lia. Qed.

  Hypothesis sym : forall i j, cost cm i j = cost cm j i.

  Lemma ec_mk a b : ec (mk_edge a b) = cost cm a b.
  Proof. unfold ec. destruct (mk_edge_ends a b) as [[-> ->] | [-> ->]]; [reflexivity | apply sym]. Qed.

  Lemma wedges_sum first : forall p d, p <> [] ->
    cycle_cost_from cm first p = (esum (wedges p) + cost cm (last p d) first)%Z.
  Proof.
    induction p as [|a [|b r] IH]; intros d Hp; [congruence | cbn; lia |].
    rewrite wedges_cons, last_cons2. cbn [esum].
    change (cycle_cost_from cm first (a :: b :: r)) with (cost cm a b + cycle_cost_from cm first (b :: r))%Z.
    rewrite (IH d) by discriminate. rewrite ec_mk. lia.
  Qed.

  Lemma tedges_sum p : NoDup p -> 3 <= length p -> esum (tedges (tour_new p)) = cycle_cost cm p.
  Proof.
    intros ND Hlen. rewrite (esum_perm _ _ (tedges_perm p ND Hlen)).
    destruct p as [|a r]; [cbn in Hlen; lia|]. rewrite raw_edges_eq, esum_app.
    cbn [esum]. rewrite ec_mk. unfold cycle_cost. rewrite (wedges_sum a (a :: r) a) by discriminate. lia.
  Qed.
End Additive.

(* ------------------------------------------------------------------ C. the walk of try_path over a 2-regular edge set *)
Definition other (e : edge) (node : nat) : nat := if fst e =? node then snd e else fst e.

Fixpoint wtrail (fuel : nat) (edges : eset) (node : nat) : list (edge * nat) :=
  match fuel with
  | O => []
  | S f => match find (incident node) edges with
           | Some e => (e, node) :: wtrail f (eremove e edges) (other e node)
           | None => []
           end
  end.

Fixpoint wfinal (fuel : nat) (edges : eset) (node : nat) : nat :=
  match fuel with
  | O => node
  | S f => match find (incident node) edges with
           | Some e => wfinal f (eremove e edges) (other e node)
           | None => node
           end
  end.

Definition step (ea : edge * nat) : nat * nat := (snd ea, other (fst ea) (snd ea)).
Definition updf (m : list (nat * nat)) (ea : edge * nat) : list (nat * nat) := upd (fst (step ea)) (snd (step ea)) m.

Lemma walk_trail : forall fuel edges node succs,
  walk fuel edges node succs = fold_left updf (wtrail fuel edges node) succs.
Proof.
  induction fuel as [|f IH]; intros edges node succs; cbn [walk wtrail]; [reflexivity|].
  destruct (find (incident node) edges) as [e|]; [|reflexivity].
  cbn [fold_left]. rewrite IH. reflexivity.
Qed.

Lemma wtrail_len : forall fuel edges node, length (wtrail fuel edges node) <= fuel.
Proof.
  induction fuel as [|f IH]; intros edges node; cbn [wtrail]; [cbn; lia|].
  destruct (find (incident node) edges); cbn [length]; [specialize (IH (eremove e edges) (other e node))|]; lia.
Qed.

Lemma eremove_notin e s : ~ In e (eremove e s).
Proof.
  unfold eremove. intros H. apply filter_In in H. destruct H as [_ H].
  rewrite (proj2 (edge_eqb_eq e e) eq_refl) in H. discriminate.
Qed.

Lemma wtrail_edges : forall fuel edges node, NoDup edges ->
  NoDup (map fst (wtrail fuel edges node)) /\ incl (map fst (wtrail fuel edges node)) edges.
Proof.
  induction fuel as [|f IH]; intros edges node ND; cbn [wtrail]; [split; [constructor | intros x []]|].
  destruct (find (incident node) edges) as [e|] eqn:Ef; [|split; [constructor | intros x []]].
  apply find_some in Ef. destruct Ef as [He _].
  destruct (IH (eremove e edges) (other e node)) as [A B]; [apply NoDup_filter; exact ND|].
  cbn [map fst]. split.
  - constructor; [|exact A]. intros Hin. apply B in Hin. exact (eremove_notin e edges Hin).
  - intros x [<- | Hx]; [exact He|]. eapply eremove_In. apply B. exact Hx.
Qed.

Lemma wtrail_incident : forall fuel edges node ea,
  In ea (wtrail fuel edges node) -> incident (snd ea) (fst ea) = true.
Proof.
  induction fuel as [|f IH]; intros edges node ea H; cbn [wtrail] in H; [destruct H|].
  destruct (find (incident node) edges) as [e|] eqn:Ef; [|destruct H].
  destruct H as [<- | H]; [apply find_some in Ef; exact (proj2 Ef) | eapply IH; exact H].
Qed.

(* keys followed by the final node = start followed by the targets *)
Lemma wtrail_chain : forall fuel edges node,
  map snd (wtrail fuel edges node) ++ [wfinal fuel edges node]
  = node :: map (fun ea => snd (step ea)) (wtrail fuel edges node).
Proof.
  induction fuel as [|f IH]; intros edges node; cbn [wtrail wfinal]; [reflexivity|].
  destruct (find (incident node) edges) as [e|]; [|reflexivity].
  cbn [map app snd step fst]. f_equal. apply IH.
Qed.

Lemma wtrail_nil_final : forall fuel edges node, wtrail fuel edges node = [] -> wfinal fuel edges node = node.
Proof.
  intros [|f] edges node; cbn [wtrail wfinal]; [reflexivity|].
  destruct (find (incident node) edges); [discriminate | reflexivity].
Qed.

Lemma wtrail_head : forall fuel edges node ea T, wtrail fuel edges node = ea :: T -> snd ea = node.
Proof.
  intros [|f] edges node ea T; cbn [wtrail]; [discriminate|].
  destruct (find (incident node) edges); [|discriminate]. intros H. inversion H. reflexivity.
Qed.

(* ---- the successor map built from a trail with pairwise different keys is the trail itself *)
Lemma upd_len_le k v m : length (upd k v m) <= S (length m).
Proof. induction m as [|[a b] r IH]; cbn [upd length]; [lia|]. destruct (a =? k); cbn [length]; lia. Qed.

Lemma upd_full k v : forall m, length (upd k v m) = S (length m) -> upd k v m = m ++ [(k, v)] /\ ~ In k (map fst m).
Proof.
  induction m as [|[a b] r IH]; cbn [upd length]; intros H; [split; [reflexivity | intros []]|].
  destruct (a =? k) eqn:E; cbn [length] in H; [lia|].
  destruct IH as [A B]; [lia|]. split; [cbn [app]; rewrite A; reflexivity|].
  cbn [map fst]. intros [H1 | H1]; [subst; rewrite Nat.eqb_refl in E; discriminate | auto].
Qed.

Lemma fold_updf_le : forall T m, length (fold_left updf T m) <= length m + length T.
Proof.
  induction T as [|ea T IH]; intros m; cbn [fold_left length]; [lia|].
  specialize (IH (updf m ea)). unfold updf in *. pose proof (upd_len_le (fst (step ea)) (snd (step ea)) m). lia.
Qed.

Lemma fold_updf_full : forall T m, length (fold_left updf T m) = length m + length T ->
  fold_left updf T m = m ++ map step T /\ NoDup (map snd T) /\ (forall k, In k (map snd T) -> ~ In k (map fst m)).
Proof.
  induction T as [|ea T IH]; intros m H; cbn [fold_left map].
  - rewrite app_nil_r. split; [reflexivity|]. split; [constructor | intros k []].
  - cbn [fold_left length] in H.
    set (k := fst (step ea)) in *. set (v := snd (step ea)) in *.
    assert (Eu : updf m ea = upd k v m) by reflexivity.
    pose proof (fold_updf_le T (updf m ea)) as Hle. rewrite Eu in Hle, H.
    pose proof (upd_len_le k v m) as Hle2.
    destruct (upd_full k v m) as [A B]; [lia|].
    rewrite A in H.
    destruct (IH (m ++ [(k, v)])) as [C [D F]]; [rewrite app_length in *; cbn [length] in *; lia|].
    rewrite Eu, A.
    split; [rewrite C, <- app_assoc; cbn [app]; unfold k, v; destruct (step ea); reflexivity|].
    split.
    + constructor; [|exact D]. intros Hin. apply (F _ Hin). rewrite map_app. apply in_or_app. right. left. reflexivity.
    + intros k0 [<- | Hin]; [exact B|]. intros Hm. apply (F _ Hin). rewrite map_app. apply in_or_app. left. exact Hm.
Qed.

Lemma lookup_NoDup : forall m k v, NoDup (map fst m) -> In (k, v) m -> lookup k m = Some v.
Proof.
  induction m as [|[a b] r IH]; intros k v ND H; [destruct H|]. cbn [lookup]. cbn [map fst] in ND. inversion ND; subst.
  destruct H as [H | H].
  - inversion H; subst. rewrite Nat.eqb_refl. reflexivity.
  - destruct (a =? k) eqn:E; [|auto]. apply Nat.eqb_eq in E. subst. exfalso. apply H2.
    apply in_map_iff. exists (k, v). auto.
Qed.

Fixpoint is_chain (succs : list (nat * nat)) (x : nat) (l : list nat) : Prop :=
  match l with
  | [] => True
  | y :: r => lookup x succs = Some y /\ is_chain succs y r
  end.

Lemma chain_det succs : forall l l' x, is_chain succs x l -> is_chain succs x l' -> length l = length l' -> l = l'.
Proof.
  induction l as [|y r IH]; intros [|y' r'] x H H' Hl; cbn [length] in Hl; try lia; [reflexivity|].
  destruct H as [A B], H' as [A' B']. assert (y = y') by congruence. subst. f_equal. eapply IH; eauto.
Qed.

Lemma follow_chain succs : forall fuel node visited acc,
  exists l, follow fuel succs node visited acc = rev acc ++ l /\ is_chain succs node l.
Proof.
  induction fuel as [|f IH]; intros node visited acc; cbn [follow].
  - exists []. rewrite app_nil_r. split; [reflexivity | exact I].
  - destruct (lookup node succs) as [next|] eqn:El; [|exists []; rewrite app_nil_r; split; [reflexivity | exact I]].
    destruct (nmem next visited); [exists []; rewrite app_nil_r; split; [reflexivity | exact I]|].
    destruct (IH next (next :: visited) (next :: acc)) as [l [A B]].
    exists (next :: l). split; [rewrite A; cbn [rev]; rewrite <- app_assoc; reflexivity | split; assumption].
Qed.

Lemma wtrail_is_chain S : forall fuel edges node,
  (forall ea, In ea (wtrail fuel edges node) -> lookup (snd ea) S = Some (other (fst ea) (snd ea))) ->
  match map snd (wtrail fuel edges node) with
  | [] => True
  | k :: K' => k = node /\ is_chain S node K'
  end.
Proof.
  induction fuel as [|f IH]; intros edges node H; cbn [wtrail] in *; [exact I|].
  destruct (find (incident node) edges) as [e|]; [|exact I].
  cbn [map snd]. split; [reflexivity|].
  specialize (IH (eremove e edges) (other e node)).
  assert (H0 := H (e, node) (or_introl eq_refl)). cbn [fst snd] in H0.
  destruct (map snd (wtrail f (eremove e edges) (other e node))) as [|k K'] eqn:EK; [exact I|].
  destruct IH as [-> C]; [intros ea Hea; apply H; right; exact Hea|]. split; assumption.
Qed.

Section WalkCost.
  Variable cm : list (list Z).
  Hypothesis sym : forall i j, cost cm i j = cost cm j i.

  Fixpoint tsum (T : list (edge * nat)) : Z :=
    match T with [] => 0%Z | ea :: r => (cost cm (snd ea) (other (fst ea) (snd ea)) + tsum r)%Z end.
  Fixpoint cnt (v : nat) (l : list nat) : nat := match l with [] => 0 | a :: r => ind v a + cnt v r end.

  Lemma cnt_app v a b : cnt v (a ++ b) = cnt v a + cnt v b.
  Proof. induction a as [|x a IH]; cbn [cnt app] in *; lia. Qed.

  Lemma cnt_notin v l : ~ In v l -> cnt v l = 0.
  Proof.
    induction l as [|x l IH]; intros H; [reflexivity|]. cbn [cnt].
    rewrite IH by (intros H'; apply H; right; exact H'). unfold ind.
    destruct (x =? v) eqn:E; [apply Nat.eqb_eq in E; subst; exfalso; apply H; left; reflexivity | reflexivity].
  Qed.

  Lemma ec_other e a : incident a e = true -> ec cm e = cost cm a (other e a).
  Proof.
    unfold incident, other, ec. intros H. destruct (fst e =? a) eqn:E1.
    - apply Nat.eqb_eq in E1. rewrite E1. reflexivity.
    - cbn [orb] in H. apply Nat.eqb_eq in H. rewrite H. apply sym.
  Qed.

  Lemma dg_other v e a : incident a e = true -> dg v e = ind v a + ind v (other e a).
  Proof.
    unfold incident, other, dg. intros H. destruct (fst e =? a) eqn:E1.
    - apply Nat.eqb_eq in E1. rewrite E1. reflexivity.
    - cbn [orb] in H. apply Nat.eqb_eq in H. rewrite H. lia.
  Qed.

  Lemma trail_sum T : (forall ea, In ea T -> incident (snd ea) (fst ea) = true) -> esum cm (map fst T) = tsum T.
  Proof.
    induction T as [|ea T IH]; intros H; [reflexivity|]. cbn [map esum tsum].
    rewrite IH by (intros x Hx; apply H; right; exact Hx).
    rewrite (ec_other (fst ea) (snd ea)) by (apply H; left; reflexivity). reflexivity.
  Qed.

  Lemma trail_deg v T : (forall ea, In ea T -> incident (snd ea) (fst ea) = true) ->
    deg v (map fst T) = cnt v (map snd T) + cnt v (map (fun ea => snd (step ea)) T).
  Proof.
    induction T as [|ea T IH]; intros H; [reflexivity|]. cbn [map deg cnt].
   
    rewrite IH by (intros x Hx; apply H; right; exact Hx).
    rewrite (dg_other v (fst ea) (snd ea)) by (apply H; left; reflexivity). cbn [step snd]. lia.
  Qed.

  Lemma trail_cycle first : forall fuel edges node,
    wtrail fuel edges node <> [] -> wfinal fuel edges node = first ->
    cycle_cost_from cm first (map snd (wtrail fuel edges node)) = tsum (wtrail fuel edges node).
  Proof.
    induction fuel as [|f IH]; intros edges node Hne Hfin; cbn [wtrail wfinal] in *; [congruence|].
    destruct (find (incident node) edges) as [e|]; [|congruence].
    cbn [map snd tsum].
    destruct (wtrail f (eremove e edges) (other e node)) as [|ea T] eqn:ET.
    - apply wtrail_nil_final in ET. rewrite ET in Hfin. subst first. cbn. lia.
    - pose proof (wtrail_head _ _ _ _ _ ET) as Hh.
      specialize (IH (eremove e edges) (other e node)). rewrite ET in IH.
      cbn [map]. rewrite Hh.
      change (cycle_cost_from cm first (node :: other e node :: map snd T))
        with (cost cm node (other e node) + cycle_cost_from cm first (other e node :: map snd T))%Z.
      cbn [map] in IH. rewrite Hh in IH. rewrite IH; [reflexivity | discriminate | exact Hfin].
  Qed.

  (* the heart: on an edge set of exactly n edges in which the start node has degree 2, a walk that yields n
     successors and a followed path of n nodes traverses the whole set as one closed cycle *)
  Theorem walk_cost E' start n :
    ssorted E' -> length E' = n -> 1 <= n -> deg start E' = 2 ->
    length (walk (length E') E' start []) = n ->
    length (follow (S n) (walk (length E') E' start []) start [start] [start]) = n ->
    cycle_cost cm (follow (S n) (walk (length E') E' start []) start [start] [start]) = esum cm E'.
  Proof.
    intros Hs Hn Hn1 Hdeg Hsl Hfl.
    set (T := wtrail (length E') E' start) in *.
    pose proof (walk_trail (length E') E' start []) as HW. fold T in HW. rewrite HW in *.
    pose proof (wtrail_len (length E') E' start) as HTl. fold T in HTl.
    pose proof (fold_updf_le T []) as Hle. cbn [length] in Hle.
    destruct (fold_updf_full T []) as [HS [HK _]]; [cbn [length]; lia|]. cbn [app] in HS.
    assert (HTn : length T = n) by lia.
    pose proof (ssorted_NoDup _ Hs) as NDE.
    destruct (wtrail_edges (length E') E' start NDE) as [HTnd HTin]. fold T in HTnd, HTin.
    assert (HP : Permutation (map fst T) E').
    { apply NoDup_Permutation_bis; [exact HTnd | rewrite map_length; lia | exact HTin]. }
    assert (Hinc : forall ea, In ea T -> incident (snd ea) (fst ea) = true)
      by (intros ea H; eapply wtrail_incident; exact H).
    (* keys *)
    destruct T as [|ea0 T0] eqn:ET; [cbn in HTn; lia|].
    pose proof (wtrail_head _ _ _ _ _ ET) as Hh.
    (* final node = start, by the degree of start *)
    assert (Hfin : wfinal (length E') E' start = start).
    { pose proof (wtrail_chain (length E') E' start) as Hc. fold T in Hc. rewrite ET in Hc.
      pose proof (trail_deg start (ea0 :: T0) Hinc) as Hd. rewrite (deg_perm _ _ _ HP), Hdeg in Hd.
      assert (Hcnt : cnt start (map snd (ea0 :: T0) ++ [wfinal (length E') E' start])
                     = cnt start (start :: map (fun ea => snd (step ea)) (ea0 :: T0))) by (rewrite Hc; reflexivity).
      rewrite cnt_app in Hcnt. cbn [map] in Hcnt, Hd, HK. rewrite Hh in Hcnt, Hd, HK.
      pose proof (proj1 (proj1 (NoDup_cons_iff _ _) HK)) as Hnot.
      cbn [cnt] in Hcnt, Hd.
      rewrite (cnt_notin start (map snd T0) Hnot) in Hcnt, Hd.
      unfold ind in Hcnt, Hd. rewrite Nat.eqb_refl in Hcnt, Hd.
      destruct (wfinal (length E') E' start =? start) eqn:Ef; [apply Nat.eqb_eq in Ef; exact Ef|].
      cbn [cnt map] in *. unfold ind in *. lia. }
    (* the followed path is the key sequence *)
    destruct (follow_chain (fold_left updf (ea0 :: T0) []) (S n) start [start] [start]) as [l [Hl Hch]].
    cbn [rev app] in Hl. rewrite Hl in Hfl |- *.
    assert (Hlook : forall ea, In ea (wtrail (length E') E' start) ->
                               lookup (snd ea) (map step (ea0 :: T0)) = Some (other (fst ea) (snd ea))).
    { intros ea Hea. fold T in Hea. rewrite ET in Hea. apply lookup_NoDup.
      - rewrite map_map. cbn [step fst]. exact HK.
      - apply (in_map step) in Hea. exact Hea. }
    pose proof (wtrail_is_chain (map step (ea0 :: T0)) (length E') E' start Hlook) as Hkc.
    fold T in Hkc. rewrite ET in Hkc. cbn [map] in Hkc. destruct Hkc as [_ Hkc].
    rewrite HS in Hch.
    assert (El : l = map snd T0).
    { eapply chain_det; [exact Hch | exact Hkc|]. cbn [length] in Hfl, HTn. rewrite map_length. lia. }
    subst l.
    pose proof (trail_cycle start (length E') E' start) as Hcy. fold T in Hcy. rewrite ET in Hcy.
    specialize (Hcy ltac:(discriminate) Hfin). cbn [map] in Hcy. rewrite Hh in Hcy.
    unfold cycle_cost. rewrite Hcy. rewrite <- (trail_sum (ea0 :: T0) Hinc). apply esum_perm. exact HP.
  Qed.
End WalkCost.

(* ------------------------------------------------------------------ D. the search keeps an alternating trail *)
Lemma sins_In2 x s e : In e (sins x s) -> e = x \/ In e s.
Proof.
  induction s as [|y r IH]; cbn [sins]; [intros [<- | []]; auto|].
  destruct (fst (snd y) >? fst (snd x))%Z; cbn [In]; intros [H | H]; auto. destruct (IH H); auto.
Qed.

Lemma sort_desc_In2 l e : In e (sort_desc l) -> In e l.
Proof.
  unfold sort_desc. induction l as [|x l IH]; cbn [fold_right]; [auto|].
  intros H. apply sins_In2 in H. destruct H as [-> | H]; [left; reflexivity | right; auto].
Qed.

Lemma firstn_In2 {A} (n : nat) : forall (l : list A) x, In x (firstn n l) -> In x l.
Proof.
  induction n as [|n IH]; intros [|y l] x H; cbn [firstn] in H; try destruct H; [left; assumption | right; auto].
Qed.

Lemma nset_of_In2 l y : In y (nset_of l) -> In y l.
Proof.
  unfold nset_of.
  assert (N : forall x s, In y (nins x s) -> y = x \/ In y s).
  { intros x. induction s as [|z r IHs]; cbn [nins]; [intros [<- | []]; auto|].
    destruct (x =? z); [auto|]. destruct (x <? z); cbn [In]; intros [A | A]; auto. destruct (IHs A); auto. }
  assert (G : forall l s, In y (fold_left (fun s x => nins x s) l s) -> In y l \/ In y s).
  { induction l0 as [|x l0 IH]; intros s H; cbn [fold_left] in H; [auto|].
    destruct (IH _ H) as [H' | H']; [left; right; exact H'|].
    apply N in H'. destruct H' as [-> | H']; cbn; auto. }
  intros H. destruct (G l [] H) as [H' | []]. exact H'.
Qed.

Section CostSearch.
  Variable cm : list (list Z).
  Variable nb : list (list nat).
  Variable ho : list entry -> option (list entry).
  Hypothesis sym : forall i j, cost cm i j = cost cm j i.
  Hypothesis ho_sound : forall l l', ho l = Some l' -> forall e, In e l' -> In e l.
  Variable p : list nat.
  Hypothesis NDp : NoDup p.
  Hypothesis Hlen : 3 <= length p.
  Let t := tour_new p.
  Let E := tedges (tour_new p).

  Definition okres2 (r : res) : Prop := forall q, r = Found q -> (cycle_cost cm q < cycle_cost cm p)%Z.
  Definition same_set (j : eset) (yl : list edge) : Prop := forall e, In e j <-> In e yl.

  (* state at the entry of choose_x; yl = the joined edges as a LIST (one entry per y_i) *)
  Definition invx (t1 last : nat) (gain : Z) (broken joined : eset) (yl : list edge) : Prop :=
    ssorted broken /\ incl broken E /\ ssorted joined /\ same_set joined yl
    /\ gain = (esum cm broken - esum cm yl)%Z /\ length yl = length broken
    /\ forall v, deg v yl + ind v t1 = deg v broken + ind v last.

  (* state at the entry of choose_y *)
  Definition invy (t1 t2i : nat) (gain : Z) (broken joined : eset) (yl : list edge) : Prop :=
    ssorted broken /\ incl broken E /\ ssorted joined /\ same_set joined yl
    /\ gain = (esum cm broken - esum cm yl)%Z /\ length broken = S (length yl)
    /\ forall v, deg v yl + ind v t1 + ind v t2i = deg v broken.

  (* ---- a successful try_path on a balanced move returns tour \ X u Y as one closed cycle *)
  Lemma move_cost X Y yl q :
    ssorted X -> incl X E -> ssorted Y -> same_set Y yl -> length yl = length X ->
    (forall v, deg v yl = deg v X) ->
    try_path t X Y = Some q ->
    cycle_cost cm q = (cycle_cost cm p - esum cm X + esum cm yl)%Z.
  Proof.
    intros HX HXE HY HYy Hk Hbal Htp.
    pose proof (tedges_sorted p) as HEs. fold E in HEs.
    pose proof (ssorted_NoDup _ HEs) as NDE. pose proof (ssorted_NoDup _ HX) as NDX.
    pose proof (ssorted_NoDup _ HY) as NDY.
    pose proof (tedges_length p NDp Hlen) as HlenE. fold E in HlenE.
    pose proof (ediff_split E X NDE NDX HXE) as HsplitE.
    pose proof (Permutation_length HsplitE) as HlE. rewrite app_length in HlE.
    assert (HYincl : incl Y yl) by (intros e He; apply HYy; exact He).
    pose proof (NoDup_incl_length NDY HYincl) as HYle.
    pose proof (eunion_len_le Y (ediff E X)) as HUle.
    unfold try_path in Htp. cbv zeta in Htp. change (tedges t) with E in Htp. change (tpath t) with p in Htp.
    set (E' := eunion (ediff E X) Y) in *.
    destruct (length E' <? length p) eqn:Elt; [discriminate|]. apply Nat.ltb_ge in Elt.
    destruct p as [|a r] eqn:Ep; [cbn in Hlen; lia|].
    set (n := length (a :: r)) in *.
    destruct (length (walk (length E') E' a []) =? n) eqn:Esl; cbn [negb] in Htp; [|discriminate].
    apply Nat.eqb_eq in Esl. rewrite Esl in Htp.
    destruct (length (follow (S n) (walk (length E') E' a []) a [a] [a]) =? n) eqn:Efl; [|discriminate].
    apply Nat.eqb_eq in Efl.
    assert (Hq : follow (S n) (walk (length E') E' a []) a [a] [a] = q) by congruence.
    rewrite <- Hq. clear Hq Htp.
    assert (HE'n : length E' = n) by lia.
    assert (HYk : length Y = length yl) by lia.
    assert (HPU : Permutation E' (Y ++ ediff E X)).
    { apply eunion_full; [apply filter_sorted; exact HEs | fold E'; lia]. }
    assert (HPY : Permutation Y yl).
    { apply NoDup_Permutation_bis; [exact NDY | lia | exact HYincl]. }
    assert (HsE' : ssorted E') by (apply fold_eins_sorted; apply filter_sorted; exact HEs).
    assert (Hdeg : deg a E' = 2).
    { rewrite (deg_perm _ _ _ HPU), deg_app, (deg_perm _ _ _ HPY), Hbal.
      pose proof (tedges_deg_start a r NDp Hlen) as H2. fold E in H2.
      rewrite (deg_perm _ _ _ HsplitE), deg_app in H2. exact H2. }
    rewrite (walk_cost cm sym E' a n HsE' HE'n ltac:(unfold n; cbn [length]; lia) Hdeg Esl Efl).
    rewrite (esum_perm cm _ _ HPU), esum_app, (esum_perm cm _ _ HPY).
    pose proof (tedges_sum cm sym (a :: r) NDp Hlen) as HS. fold E in HS.
    rewrite (esum_perm cm _ _ HsplitE), esum_app in HS. lia.
  Qed.

  (* ---- the gain stored with every candidate of find_closest *)
  Definition gi_ok (t2i : nat) (gain : Z) (m : list entry) : Prop :=
    forall e, In e m -> snd (snd e) = (gain - cost cm t2i (fst e))%Z.

  Lemma upsert_gi t2i gain node d m :
    gi_ok t2i gain m -> gi_ok t2i gain (upsert node d (gain - cost cm t2i node)%Z m).
  Proof.
    induction m as [|[k [d0 g0]] r IH]; intros Hm e He; cbn [upsert] in He.
    - destruct He as [<- | []]. reflexivity.
    - destruct (k =? node) eqn:Ek.
      + destruct He as [<- | He]; [exact (Hm (k, (d0, g0)) (or_introl eq_refl)) | apply Hm; right; exact He].
      + destruct He as [<- | He]; [exact (Hm (k, (d0, g0)) (or_introl eq_refl))|].
        apply IH; [|exact He]. intros e' He'. apply Hm. right. exact He'.
  Qed.

  Lemma closest_step_gi t2i gain broken joined m node :
    gi_ok t2i gain m -> gi_ok t2i gain (closest_step cm t t2i gain broken joined m node).
  Proof.
    intros Hm. unfold closest_step.
    destruct ((gain - cost cm t2i node <=? 0)%Z || emem (mk_edge t2i node) broken || emem (mk_edge t2i node) (tedges t));
      [exact Hm|].
    revert m Hm. induction (around t node) as [|s l IH]; intros m Hm; cbn [fold_left]; [exact Hm|].
    apply IH. destruct (negb (emem (mk_edge node s) broken) && negb (emem (mk_edge node s) joined)); [|exact Hm].
    apply upsert_gi. exact Hm.
  Qed.

  Lemma find_closest_gi t2i gain broken joined l :
    find_closest cm nb ho t t2i gain broken joined = Some l -> gi_ok t2i gain l.
  Proof.
    unfold find_closest. set (m0 := fold_left _ _ _).
    destruct (ho m0) as [l'|] eqn:E0; cbn [option_map]; [|discriminate].
    intros H. inversion H; subst l. intros e He. apply sort_desc_In2 in He.
    assert (K : gi_ok t2i gain m0).
    { unfold m0. assert (G : forall ns m1, gi_ok t2i gain m1 ->
                              gi_ok t2i gain (fold_left (closest_step cm t t2i gain broken joined) ns m1)).
      { induction ns as [|x ns IH]; intros m1 Hm1; cbn [fold_left]; [exact Hm1|]. apply IH. apply closest_step_gi. exact Hm1. }
      apply G. intros x []. }
    apply K. eapply ho_sound; eauto.
  Qed.

  Lemma first_found_ok2 f l : (forall e, In e l -> okres2 (f e)) -> okres2 (first_found f l).
  Proof.
    induction l as [|x r IH]; intros H q Hq; cbn [first_found] in Hq; [discriminate|].
    destruct (f x) eqn:Ef.
    - apply (H x (or_introl eq_refl)). rewrite Ef. exact Hq.
    - apply IH; [|exact Hq]. intros e He. apply H. right. exact He.
    - discriminate.
    - discriminate.
  Qed.

  Definition rec_ok2 (rec : nat -> nat -> Z -> eset -> eset -> res) : Prop :=
    forall t1 last g b j yl, invx t1 last g b j yl -> okres2 (rec t1 last g b j).

  Lemma same_set_eins y j yl : same_set j yl -> same_set (eins y j) (y :: yl).
  Proof. intros H e. rewrite eins_In. cbn [In]. rewrite (H e). split; intros [A | A]; auto. Qed.

  Lemma choose_y_ok2 rec t1 t2i gain broken joined yl :
    rec_ok2 rec -> invy t1 t2i gain broken joined yl ->
    okres2 (choose_y cm nb ho t rec t1 t2i gain broken joined).
  Proof.
    intros Hrec (HX & HXE & HJ & HJy & Hg & Hl & Hd). unfold choose_y.
    destruct (find_closest cm nb ho t t2i gain broken joined) as [closest|] eqn:E0; [|intros q Hq; discriminate].
    apply find_closest_gi in E0.
    apply first_found_ok2. intros e He. apply firstn_In2 in He.
    apply (Hrec _ _ _ _ _ (mk_edge t2i (fst e) :: yl)).
    split; [exact HX|]. split; [exact HXE|]. split; [apply eins_sorted; exact HJ|].
    split; [apply same_set_eins; exact HJy|].
    split; [rewrite (E0 e He); cbn [esum]; rewrite (ec_mk cm sym); lia|].
    split; [cbn [length]; lia|].
    intros v. cbn [deg]. rewrite dg_mk. specialize (Hd v). lia.
  Qed.

  Lemma cx_loop_ok2 rec t1 last gain broken joined yl :
    rec_ok2 rec -> invx t1 last gain broken joined yl ->
    forall cands, (forall c, In c cands -> In c (around t last)) ->
    okres2 (cx_loop cm nb ho t rec t1 last gain broken joined cands).
  Proof.
    intros Hrec (HX & HXE & HJ & HJy & Hg & Hl & Hd).
    induction cands as [|t2i rest IH]; intros Hc q Hq; cbn [cx_loop] in Hq; [discriminate|].
    destruct (emem (mk_edge last t2i) joined || emem (mk_edge last t2i) broken) eqn:Em; [discriminate|].
    apply orb_false_iff in Em. destruct Em as [_ Em].
    assert (Hnew : ~ In (mk_edge last t2i) broken) by (rewrite <- emem_In; congruence).
    assert (HxiE : In (mk_edge last t2i) E) by (apply around_edge; apply Hc; left; reflexivity).
    pose proof (eins_new_perm _ _ Hnew) as HP.
    set (removed := eins (mk_edge last t2i) broken) in *.
    assert (HRs : ssorted removed) by (apply eins_sorted; exact HX).
    assert (HRE : incl removed E).
    { intros e He. apply (Permutation_in _ HP) in He. destruct He as [<- | He]; [exact HxiE | apply HXE; exact He]. }
    assert (HRsum : esum cm removed = (cost cm last t2i + esum cm broken)%Z).
    { rewrite (esum_perm cm _ _ HP). cbn [esum]. rewrite (ec_mk cm sym). reflexivity. }
    assert (HRdeg : forall v, deg v removed = ind v last + ind v t2i + deg v broken).
    { intros v. rewrite (deg_perm _ _ _ HP). cbn [deg]. rewrite dg_mk. reflexivity. }
    assert (HRlen : length removed = S (length broken)) by (rewrite (Permutation_length HP); reflexivity).
    assert (Hy : okres2 (choose_y cm nb ho t rec t1 t2i (gain + cost cm last t2i) removed joined)).
    { apply (choose_y_ok2 rec t1 t2i _ removed joined yl Hrec).
      split; [exact HRs|]. split; [exact HRE|]. split; [exact HJ|]. split; [exact HJy|].
      split; [lia|]. split; [lia|]. intros v. rewrite HRdeg. specialize (Hd v). lia. }
    destruct (gain + cost cm last t2i - cost cm t2i t1 >? 0)%Z eqn:Er; [|apply Hy; exact Hq].
    apply Z.gtb_lt in Er.
    destruct (try_path t removed (eins (mk_edge t2i t1) joined)) as [q'|] eqn:Et.
    - destruct (list_eqb q' (tpath t)); [discriminate|]. inversion Hq; subst q'.
      rewrite (move_cost removed (eins (mk_edge t2i t1) joined) (mk_edge t2i t1 :: yl) q HRs HRE).
      + cbn [esum]. rewrite (ec_mk cm sym). lia.
      + apply eins_sorted. exact HJ.
      + apply same_set_eins. exact HJy.
      + cbn [length]. lia.
      + intros v. cbn [deg]. rewrite dg_mk, HRdeg. specialize (Hd v). lia.
      + exact Et.
    - destruct (2 <? length (eins (mk_edge t2i t1) joined)); [|apply Hy; exact Hq].
      apply IH; [|exact Hq]. intros c Hc'. apply Hc. right. exact Hc'.
  Qed.

  Lemma choose_x_ok2 : forall fuel, rec_ok2 (choose_x cm nb ho t fuel).
  Proof.
    induction fuel as [|f IH]; intros t1 last g b j yl Hinv q Hq; cbn [choose_x] in Hq; [discriminate|].
    revert q Hq. apply (cx_loop_ok2 _ t1 last g b j yl IH Hinv). intros c Hc. eapply cx_cands_around; eauto.
  Qed.

  Lemma t3_loop_ok2 fuel t1 t2 aset : In t2 (around t t1) ->
    forall l tries, gi_ok t2 (cost cm t1 t2) l ->
    okres2 (t3_loop cm nb ho t fuel t1 t2 aset [mk_edge t1 t2] tries l).
  Proof.
    intros H2. induction l as [|e r IH]; intros tries Hk q Hq; cbn [t3_loop] in Hq; [discriminate|].
    assert (Hr : gi_ok t2 (cost cm t1 t2) r) by (intros x Hx; apply Hk; right; exact Hx).
    destruct (nmem (fst e) aset); [eapply IH; eauto|].
    destruct (choose_x cm nb ho t fuel t1 (fst e) (snd (snd e)) [mk_edge t1 t2] [mk_edge t2 (fst e)]) eqn:Ex.
    - apply (choose_x_ok2 fuel t1 (fst e) (snd (snd e)) [mk_edge t1 t2] [mk_edge t2 (fst e)] [mk_edge t2 (fst e)]);
        [|rewrite Ex; exact Hq].
      split; [split; [intros y [] | exact I]|].
      split; [intros x [<- | []]; apply around_edge; exact H2|].
      split; [split; [intros y [] | exact I]|].
      split; [intros x; tauto|].
      split; [rewrite (Hk e (or_introl eq_refl)); cbn [esum]; rewrite !(ec_mk cm sym); lia|].
      split; [reflexivity|].
      intros v. cbn [deg]. rewrite !dg_mk. lia.
    - destruct tries as [|[|k]]; try discriminate. eapply IH; eauto.
    - discriminate.
    - discriminate.
  Qed.

  Lemma t2_loop_ok2 fuel t1 aset : forall l, (forall x, In x l -> In x (around t t1)) ->
    okres2 (t2_loop cm nb ho t fuel t1 aset l).
  Proof.
    induction l as [|t2 r IH]; intros Hl q Hq; cbn [t2_loop] in Hq; [discriminate|].
    destruct (find_closest cm nb ho t t2 (cost cm t1 t2) [mk_edge t1 t2] []) as [closest|] eqn:Ec; [|discriminate].
    apply find_closest_gi in Ec.
    destruct (t3_loop cm nb ho t fuel t1 t2 aset [mk_edge t1 t2] 5 closest) eqn:E3.
    - apply (t3_loop_ok2 fuel t1 t2 aset (Hl t2 (or_introl eq_refl)) closest 5 Ec). rewrite E3. exact Hq.
    - apply IH; [|exact Hq]. intros x Hx. apply Hl. right. exact Hx.
    - discriminate.
    - discriminate.
  Qed.

  Lemma t1_loop_ok2 fuel : forall l, okres2 (t1_loop cm nb ho t fuel l).
  Proof.
    induction l as [|t1 r IH]; intros q Hq; cbn [t1_loop] in Hq; [discriminate|].
    destruct (t2_loop cm nb ho t fuel t1 (nset_of (around t t1)) (nset_of (around t t1))) eqn:E2.
    - apply (t2_loop_ok2 fuel t1 (nset_of (around t t1)) (nset_of (around t t1))); [|rewrite E2; exact Hq].
      intros x Hx. apply nset_of_In2. exact Hx.
    - apply IH. exact Hq.
    - discriminate.
    - discriminate.
  Qed.

  Theorem improve_decreases q : improve cm nb ho p = Found q -> (cycle_cost cm q < cycle_cost cm p)%Z.
  Proof. unfold improve. apply t1_loop_ok2. Qed.
End CostSearch.

(* ------------------------------------------------------------------ E. KOpt::optimize: cost never above the input's; termination *)
Lemma small_perm_eq (p q : list nat) :
  length p <= 2 -> Permutation q p -> hd_error q = hd_error p -> q = p.
Proof.
  intros Hl HP Hh. pose proof (Permutation_length HP) as Hlen.
  destruct p as [|a [|b [|c r]]]; cbn [length] in Hl; try lia.
  - apply Permutation_nil. apply Permutation_sym. exact HP.
  - apply Permutation_length_1_inv. apply Permutation_sym. exact HP.
  - destruct q as [|x [|y [|z s]]]; cbn [length] in Hlen; try lia.
    cbn [hd_error] in Hh. inversion Hh; subst x.
    apply Permutation_cons_inv in HP. apply Permutation_length_1 in HP. subst. reflexivity.
Qed.

Section Optimize.
  Variable cm : list (list Z).
  Variable nb : list (list nat).
  Variable ho : list entry -> option (list entry).
  Hypothesis sym : forall i j, cost cm i j = cost cm j i.
  Hypothesis ho_sound : forall l l', ho l = Some l' -> forall e, In e l' -> In e l.

  (* one accepted improvement: permutation, strictly cheaper (so tours of fewer than 3 nodes are never "improved") *)
  Lemma improve_step p q : NoDup p -> improve cm nb ho p = Found q ->
    Permutation q p /\ 3 <= length p /\ (cycle_cost cm q < cycle_cost cm p)%Z.
  Proof.
    intros ND H. pose proof (improve_ok cm nb ho ho_sound p q H) as [[HP Hh] Hne].
    destruct (le_lt_dec 3 (length p)) as [H3 | H3].
    - split; [exact HP|]. split; [exact H3|]. eapply improve_decreases; eauto.
    - exfalso. apply Hne. apply small_perm_eq; [lia | exact HP | exact Hh].
  Qed.

  Theorem optimize_cost : forall ofuel p q, NoDup p -> optimize cm nb ho ofuel p = Found q ->
    (cycle_cost cm q <= cycle_cost cm p)%Z.
  Proof.
    induction ofuel as [|f IH]; intros p q ND H; cbn [optimize] in H; [discriminate|].
    destruct (improve cm nb ho p) as [p'| | |] eqn:Ei; try discriminate.
    - destruct (improve_step p p' ND Ei) as [HP [_ Hlt]].
      assert (ND' : NoDup p') by (eapply Permutation_NoDup; [apply Permutation_sym; exact HP | exact ND]).
      specialize (IH p' q ND' H). lia.
    - inversion H; subst. lia.
  Qed.

  (* ---- a lower bound of the closed-tour cost over all tours on the nodes of p0 *)
  Variable p0 : list nat.
  Definition rowabs (a : nat) : Z := fold_right (fun b s => (Z.abs (cost cm a b) + s)%Z) 0%Z p0.
  Definition lowb (l : list nat) : Z := fold_right (fun a s => (rowabs a + s)%Z) 0%Z l.

  Lemma rowabs_ge a b : In b p0 -> (Z.abs (cost cm a b) <= rowabs a)%Z.
  Proof.
    unfold rowabs. induction p0 as [|x l IH]; intros H; [destruct H|]. cbn [fold_right].
    assert (N : (0 <= fold_right (fun b0 s => Z.abs (cost cm a b0) + s) 0 l)%Z).
    { clear. induction l as [|y l IHl]; cbn [fold_right]; lia. }
    destruct H as [-> | H]; [lia|]. specialize (IH H). lia.
  Qed.

  Lemma lowb_perm a b : Permutation a b -> lowb a = lowb b.
  Proof. unfold lowb. induction 1; cbn [fold_right] in *; lia. Qed.

  Lemma ccf_lower first : In first p0 -> forall l, (forall x, In x l -> In x p0) ->
    (- lowb l <= cycle_cost_from cm first l)%Z.
  Proof.
    intros Hf. induction l as [|a [|b r] IH]; intros Hl.
    - cbn. lia.
    - cbn [cycle_cost_from lowb fold_right]. pose proof (rowabs_ge a first Hf). lia.
    - change (cycle_cost_from cm first (a :: b :: r)) with (cost cm a b + cycle_cost_from cm first (b :: r))%Z.
      change (lowb (a :: b :: r)) with (rowabs a + lowb (b :: r))%Z.
      assert (Hb : In b p0) by (apply Hl; right; left; reflexivity).
      pose proof (rowabs_ge a b Hb). specialize (IH ltac:(intros x Hx; apply Hl; right; exact Hx)). lia.
  Qed.

  Lemma cost_lower q : Permutation q p0 -> (- lowb p0 <= cycle_cost cm q)%Z.
  Proof.
    intros HP. rewrite <- (lowb_perm _ _ HP). unfold cycle_cost. destruct q as [|a r]; [cbn; lia|].
    apply ccf_lower; [|intros x Hx]; eapply Permutation_in; eauto. left. reflexivity.
  Qed.

  (* ---- termination: the number of accepted improvements is bounded by cost(p) + lowb, the inner search by its depth *)
  Lemma optimize_terminates_aux : forall k p, NoDup p -> Permutation p p0 ->
    (cycle_cost cm p + lowb p0 < Z.of_nat k)%Z -> exists ofuel, optimize cm nb ho ofuel p <> Fuel.
  Proof.
    induction k as [|k IH]; intros p ND HP Hk.
    - pose proof (cost_lower p HP). lia.
    - destruct (improve cm nb ho p) as [p'| | |] eqn:Ei.
      + destruct (improve_step p p' ND Ei) as [HP' [_ Hlt]].
        assert (ND' : NoDup p') by (eapply Permutation_NoDup; [apply Permutation_sym; exact HP' | exact ND]).
        destruct (IH p' ND' (Permutation_trans HP' HP) ltac:(lia)) as [f Hf].
        exists (S f). cbn [optimize]. rewrite Ei. exact Hf.
      + exists 1. cbn [optimize]. rewrite Ei. discriminate.
      + exfalso. exact (improve_nofuel cm nb ho p Ei).
      + exists 1. cbn [optimize]. rewrite Ei. discriminate.
  Qed.
End Optimize.

Theorem optimize_terminates cm nb ho :
  (forall i j, cost cm i j = cost cm j i) ->
  (forall l l', ho l = Some l' -> forall e, In e l' -> In e l) ->
  forall p, NoDup p -> exists ofuel, optimize cm nb ho ofuel p <> Fuel.
Proof.
  intros sym Hho p ND.
  pose proof (optimize_terminates_aux cm nb ho sym Hho p) as H.
  specialize (H (S (Z.to_nat (cycle_cost cm p + lowb cm p p))) p ND (Permutation_refl p)).
  apply H.
  assert (L : (- lowb cm p p <= cycle_cost cm p)%Z) by (eapply cost_lower; eauto; apply Permutation_refl).
  lia.
Qed.


Lemma optimize_not_notfound cm nb ho : forall ofuel p, optimize cm nb ho ofuel p <> NotFound.
Proof.
  induction ofuel as [|f IH]; intros p; cbn [optimize]; [discriminate|].
  destruct (improve cm nb ho p); try discriminate. apply IH.
Qed.

(* everything together: the loop ends, and unless the hash-order oracle aborted it ends with a tour that keeps the contract *)
Theorem lkh_contract_total cm nb ho :
  (forall i j, cost cm i j = cost cm j i) ->
  (forall l l', ho l = Some l' -> forall e, In e l' -> In e l) ->
  forall p, NoDup p ->
  exists ofuel, optimize cm nb ho ofuel p = Abort
                \/ exists q, optimize cm nb ho ofuel p = Found q
                             /\ Permutation q p /\ hd_error q = hd_error p
                             /\ (cycle_cost cm q <= cycle_cost cm p)%Z.
Proof.
  intros sym Hho p ND. destruct (optimize_terminates cm nb ho sym Hho p ND) as [f Hf]. exists f.
  destruct (optimize cm nb ho f p) as [q| | |] eqn:Eo.
  - right. exists q. split; [reflexivity|].
    destruct (optimize_ok cm nb ho Hho f p q Eo) as [HP Hh]. split; [exact HP|]. split; [exact Hh|].
    eapply optimize_cost; eauto.
  - exfalso. exact (optimize_not_notfound cm nb ho f p Eo).
  - congruence.
  - left. reflexivity.
Qed.
