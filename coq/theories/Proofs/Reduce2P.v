(* C15, second batch: the parallel helpers, choose_best_result as written, evaluate_all / evaluate_and_collect_all over the
   (route, job) grid, the concrete distance-objective cell, pool dispatch and the decomposition groups. *)
From VRP Require Import Base.Tac Model.CostOrder Model.Reduce Model.Core Model.Reduce2 Proofs.CostOrderP Proofs.ReduceP.
From Coq Require Import Permutation.

(* ================= (a) parallel.rs ================= *)
Section ParallelP.
Context {T U R : Type}.

Lemma in_cartesian_product : forall (xs : list T) (ys : list U) a b,
  In (a, b) (cartesian_product xs ys) <-> In a xs /\ In b ys.
Proof.
  intros xs ys a b. unfold cartesian_product. rewrite in_flat_map. split.
  - intros (x & Hx & Hin). apply in_map_iff in Hin as (y & Heq & Hy). inversion Heq; subst. auto.
  - intros (Ha & Hb). exists a. split; [exact Ha|]. apply in_map_iff. exists b. auto.
Qed.

Lemma cartesian_product_length : forall (xs : list T) (ys : list U),
  length (cartesian_product xs ys) = (length xs * length ys)%nat.
Proof.
  induction xs as [|a xs IH]; intros ys; cbn [cartesian_product flat_map length]; [reflexivity|].
  rewrite app_length, map_length. unfold cartesian_product in IH. rewrite IH. lia.
Qed.

Lemma cartesian_product_row_major : forall (xs : list T) (ys : list U) i k da db,
  (i < length xs)%nat -> (k < length ys)%nat ->
  nth (i * length ys + k) (cartesian_product xs ys) (da, db) = (nth i xs da, nth k ys db).
Proof.
  induction xs as [|a xs IH]; intros ys i k da db Hi Hk; cbn [length] in Hi; [lia|].
  cbn [cartesian_product flat_map]. destruct i as [|i].
  - cbn [Nat.mul Nat.add nth]. rewrite app_nth1 by (rewrite map_length; exact Hk).
    rewrite (nth_indep _ (da, db) ((fun b => (a, b)) db)) by (rewrite map_length; exact Hk). rewrite map_nth. reflexivity.
  - rewrite app_nth2 by (rewrite map_length; lia). rewrite map_length.
    replace (S i * length ys + k - length ys)%nat with (i * length ys + k)%nat by lia.
    cbn [nth]. apply IH; lia.
Qed.

Lemma parallel_collect_eq_map : forall (f : T -> R) (t : ptree T), parallel_collect f t = map f (pflatten t).
Proof.
  induction t as [xs|l IHl r IHr]; cbn [parallel_collect pflatten]; [reflexivity|].
  rewrite IHl, IHr, map_app. reflexivity.
Qed.

Lemma parallel_collect_split_independent : forall (f : T -> R) (t1 t2 : ptree T),
  pflatten t1 = pflatten t2 -> parallel_collect f t1 = parallel_collect f t2.
Proof. intros f t1 t2 E. rewrite !parallel_collect_eq_map, E. reflexivity. Qed.

Lemma parallel_collect_pointwise : forall (f : T -> R) (t : ptree T) i d,
  (i < length (pflatten t))%nat -> nth_error (parallel_collect f t) i = Some (f (nth i (pflatten t) d)).
Proof.
  intros f t i d Hi. rewrite parallel_collect_eq_map. rewrite nth_error_map.
  rewrite (nth_error_nth' _ d Hi). reflexivity.
Qed.

Section FoldReduce.
Variable identity : R.
Variable fold : R -> T -> R.
Variable reduce : R -> R -> R.
Variable g : T -> R.
Hypothesis reduce_assoc : forall a b c, reduce (reduce a b) c = reduce a (reduce b c).
Hypothesis reduce_id_r : forall a, reduce a identity = a.

Lemma reduce_fold_left : forall xs a b,
  (forall acc x, In x xs -> fold acc x = reduce acc (g x)) ->
  reduce a (fold_left fold xs b) = fold_left fold xs (reduce a b).
Proof.
  induction xs as [|x xs IH]; intros a b H; cbn [fold_left]; [reflexivity|].
  rewrite IH by (intros; apply H; right; assumption).
  rewrite !(H _ x) by (left; reflexivity). rewrite reduce_assoc. reflexivity.
Qed.

(* the classical theorem behind fold/reduce: when the fold step is `reduce acc (g x)`, reduce is associative and identity is a
   right unit, every schedule gives exactly the sequential left fold *)
Theorem fold_reduce_any_schedule : forall t,
  (forall acc x, In x (pflatten t) -> fold acc x = reduce acc (g x)) ->
  fold_reduce identity fold reduce t = fold_left fold (pflatten t) identity.
Proof.
  induction t as [xs|l IHl r IHr]; intros H; cbn [fold_reduce pflatten]; [reflexivity|].
  rewrite IHl by (intros; apply H; cbn [pflatten]; apply in_or_app; left; assumption).
  rewrite IHr by (intros; apply H; cbn [pflatten]; apply in_or_app; right; assumption).
  rewrite fold_left_app.
  rewrite reduce_fold_left by (intros; apply H; cbn [pflatten]; apply in_or_app; right; assumption).
  rewrite reduce_id_r. reflexivity.
Qed.
End FoldReduce.

Theorem map_reduce_any_schedule : forall (map_op : T -> R) (default : R) (reduce : R -> R -> R),
  (forall a b c, reduce (reduce a b) c = reduce a (reduce b c)) ->
  (forall a, reduce a default = a) ->
  forall t, map_reduce map_op default reduce t = fold_left (fun acc x => reduce acc (map_op x)) (pflatten t) default.
Proof.
  intros map_op default reduce Ha Hi t. unfold map_reduce.
  apply (fold_reduce_any_schedule default _ reduce map_op Ha Hi). intros; reflexivity.
Qed.
End ParallelP.

(* the first model's reduction is the instance fold_reduce None step best *)
Fixpoint ptree_of {C} (t : tree C) : ptree (item C) :=
  match t with Leaf _ xs => PLeaf xs | Node _ l r => PNode (ptree_of l) (ptree_of r) end.
Lemma run_tree_is_fold_reduce : forall C lt (t : tree C),
  run_tree C lt t = fold_reduce None (step C lt) (best C lt) (ptree_of t) /\ flatten C t = pflatten (ptree_of t).
Proof.
  induction t as [xs|l [IHl1 IHl2] r [IHr1 IHr2]]; cbn [run_tree ptree_of fold_reduce flatten pflatten]; split; try reflexivity.
  - rewrite IHl1, IHr1. reflexivity.
  - rewrite IHl2, IHr2. reflexivity.
Qed.

(* ================= (b) choose_best_result, eval_job_insertion_in_route, evaluate_all ================= *)
Section ResultsP.
Variable S C : Type.
Variable cost : S -> C.
Variable lt : C -> C -> bool.
Hypothesis lt_irrefl : forall a, lt a a = false.
Hypothesis lt_trans : forall a b c, lt a b = true -> lt b c = true -> lt a c = true.
Hypothesis lt_negtrans : forall a b c, lt a b = false -> lt b c = false -> lt a c = false.

Notation result := (result S).
Notation cell := (cell S C).
Notation choose := (choose_best_result S C cost lt).
Notation mf := (make_failure S).
Notation estep := (eval_step S C cost lt).
Notation full := (full_of S C).
Notation best_of := (best_of S C cost lt).

(* same verdict class, and for two successes: neither cost below the other *)
Definition res_equiv (a b : result) : Prop :=
  match a, b with
  | RSuccess x, RSuccess y => lt (cost x) (cost y) = false /\ lt (cost y) (cost x) = false
  | RFailure _, RFailure _ => True
  | _, _ => False
  end.

Theorem choose_assoc : forall a b c, choose (choose a b) c = choose a (choose b c).
Proof.
  intros [a|fa] [b|fb] [c|fc]; cbn [choose_best_result];
    repeat match goal with |- context [if ?x then _ else _] => destruct x eqn:?; cbn [choose_best_result] end;
    try reflexivity; try congruence.
  all: exfalso.
  all: try (match goal with H1 : lt ?x ?y = true, H2 : lt ?y ?z = true, H3 : lt ?x ?z = false |- _ =>
              rewrite (lt_trans _ _ _ H1 H2) in H3; discriminate end).
  all: try (match goal with H1 : lt ?x ?y = false, H2 : lt ?y ?z = false, H3 : lt ?x ?z = true |- _ =>
              rewrite (lt_negtrans _ _ _ H1 H2) in H3; discriminate end).
Qed.

Theorem choose_id_r : forall a, choose a mf = a.
Proof. intros [a|fa]; reflexivity. Qed.

(* make_failure() is NOT an exact left unit: a failure with the unknown code loses its job / stopped fields *)
Theorem choose_id_l : forall a,
  choose mf a = a \/ (exists f, a = RFailure f /\ f_code f = UNKNOWN /\ choose mf a = mf).
Proof.
  intros [a|fa]; cbn [choose_best_result make_failure]; [left; reflexivity|].
  destruct (f_code fa =? UNKNOWN) eqn:E; [right|left; reflexivity].
  exists fa. repeat split. lia.
Qed.

Theorem choose_comm_cost : forall a b, res_equiv (choose a b) (choose b a).
Proof.
  intros [a|fa] [b|fb]; cbn [choose_best_result res_equiv].
  - destruct (lt (cost b) (cost a)) eqn:Eba; destruct (lt (cost a) (cost b)) eqn:Eab; cbn [res_equiv]; auto.
    pose proof (lt_trans _ _ _ Eba Eab) as H. rewrite lt_irrefl in H. discriminate.
  - rewrite lt_irrefl. auto.
  - rewrite lt_irrefl. auto.
  - destruct (f_code fb =? UNKNOWN); destruct (f_code fa =? UNKNOWN); exact I.
Qed.

Lemma res_equiv_refl : forall a, res_equiv a a.
Proof. intros [a|f]; cbn [res_equiv]; auto. Qed.

(* ---- a cell whose scan honours best_known_cost and whose route-level estimate is a lower bound ---- *)
Definition respects_known (run : option C -> result) : Prop :=
  forall a, match run None with
            | RSuccess s => if lt (cost s) a then run (Some a) = RSuccess s else exists f, run (Some a) = RFailure f
            | RFailure _ => exists f, run (Some a) = RFailure f
            end.
Definition cell_lower_bound (c : cell) : Prop :=
  match c with CEval rc run => forall s, run None = RSuccess s -> lt (cost s) rc = false | _ => True end.
Definition cell_ok (c : cell) : Prop :=
  match c with CEval rc run => respects_known run | _ => True end /\ cell_lower_bound c.

Lemma table_cell_respects_known : forall rc fl kf,
  match table_cell S C cost lt rc fl kf with CEval _ run => respects_known run | _ => False end.
Proof.
  intros rc fl kf. cbn [table_cell]. intros a. destruct fl as [s|f].
  - destruct (lt (cost s) a); [reflexivity|eauto].
  - eauto.
Qed.

(* under those two facts the fold step is the reducer applied to the pair's own result: pruning and best_known_cost are invisible *)
Theorem eval_step_is_choose : forall acc c, cell_ok c -> estep acc c = choose acc (full c).
Proof.
  intros acc [|code job|rc run] [Hk Hlb]; cbn [eval_step full_of].
  - rewrite choose_id_r. reflexivity.
  - reflexivity.
  - destruct acc as [a|fa]; [|reflexivity]. cbn [cell_lower_bound] in Hlb. specialize (Hk (cost a)).
    destruct (run None) as [s|f] eqn:Efull.
    + specialize (Hlb s eq_refl). destruct (lt (cost a) rc) eqn:Ep.
      * (* pruned: rc > a and s >= rc, so s is not cheaper *)
        cbn [choose_best_result]. destruct (lt (cost s) (cost a)) eqn:E2; [|reflexivity].
        pose proof (lt_trans _ _ _ E2 Ep). congruence.
      * destruct (lt (cost s) (cost a)) eqn:E2.
        -- rewrite Hk. reflexivity.
        -- destruct Hk as (f & ->). cbn [choose_best_result]. rewrite E2. reflexivity.
    + destruct Hk as (f' & Hk). destruct (lt (cost a) rc); [reflexivity|]. rewrite Hk. reflexivity.
Qed.

(* ---- what best_of returns ---- *)
Notation kept := (kept_failure S).

Definition is_best (xs : list result) (r : result) : Prop :=
  match r with
  | RSuccess s => In (RSuccess s) xs /\ forall s', In (RSuccess s') xs -> lt (cost s') (cost s) = false
  | RFailure f => (forall s, ~ In (RSuccess s) xs) /\ f = kept xs
  end.

Lemma kept_app1 : forall xs x,
  kept (xs ++ [x]) = match x with RFailure f => if f_code f =? UNKNOWN then kept xs else f | RSuccess _ => kept xs end.
Proof. intros xs x. unfold kept_failure. rewrite fold_left_app. reflexivity. Qed.

Lemma is_best_step : forall xs acc x, is_best xs acc -> is_best (xs ++ [x]) (choose acc x).
Proof.
  intros xs acc x H. destruct acc as [a|fa]; destruct x as [b|fb]; cbn [choose_best_result is_best] in *.
  - destruct H as (Hin & Hmin). destruct (lt (cost b) (cost a)) eqn:E; cbn [is_best]; split.
    + apply in_or_app; right; left; reflexivity.
    + intros s' Hs'. apply in_app_or in Hs' as [Hs'|[Hs'|[]]].
      * specialize (Hmin s' Hs'). destruct (lt (cost s') (cost b)) eqn:E2; [|reflexivity].
        pose proof (lt_trans _ _ _ E2 E). congruence.
      * inversion Hs'; subst. apply lt_irrefl.
    + apply in_or_app; left; exact Hin.
    + intros s' Hs'. apply in_app_or in Hs' as [Hs'|[Hs'|[]]]; [apply Hmin; exact Hs'|]. inversion Hs'; subst. exact E.
  - destruct H as (Hin & Hmin). split; [apply in_or_app; left; exact Hin|].
    intros s' Hs'. apply in_app_or in Hs' as [Hs'|[Hs'|[]]]; [apply Hmin; exact Hs'|discriminate].
  - destruct H as (Hno & Hk). split; [apply in_or_app; right; left; reflexivity|].
    intros s' Hs'. apply in_app_or in Hs' as [Hs'|[Hs'|[]]]; [exfalso; apply (Hno s' Hs')|]. inversion Hs'; subst. apply lt_irrefl.
  - destruct H as (Hno & Hk). destruct (f_code fb =? UNKNOWN) eqn:E; cbn [is_best]; (split;
      [intros s Hs; apply in_app_or in Hs as [Hs|[Hs|[]]]; [apply (Hno s Hs)|discriminate]|]); rewrite kept_app1, E; [exact Hk|reflexivity].
Qed.

Lemma is_best_fold : forall ys xs acc, is_best xs acc -> is_best (xs ++ ys) (fold_left choose ys acc).
Proof.
  induction ys as [|y ys IH]; intros xs acc H; cbn [fold_left]; [rewrite app_nil_r; exact H|].
  replace (xs ++ y :: ys) with ((xs ++ [y]) ++ ys) by (rewrite <- app_assoc; reflexivity).
  apply IH. apply is_best_step. exact H.
Qed.

Theorem best_of_is_best : forall xs, is_best xs (best_of xs).
Proof.
  intros xs. unfold Reduce2.best_of. apply (is_best_fold xs [] mf). cbn. split; [intros s []|reflexivity].
Qed.

Lemma best_of_app : forall xs ys, best_of (xs ++ ys) = choose (best_of xs) (best_of ys).
Proof.
  intros xs ys. unfold Reduce2.best_of. rewrite fold_left_app.
  rewrite (reduce_fold_left (T:=result) choose choose (fun x => x) choose_assoc) by reflexivity.
  rewrite choose_id_r. reflexivity.
Qed.

Lemma fold_choose_rows : forall (rows : list (list result)) acc,
  fold_left choose (map best_of rows) acc = fold_left choose (concat rows) acc.
Proof.
  induction rows as [|row rows IH]; intros acc; cbn [map concat fold_left]; [reflexivity|].
  rewrite fold_left_app, IH. f_equal. unfold Reduce2.best_of.
  rewrite (reduce_fold_left (T:=result) choose choose (fun x => x) choose_assoc) by reflexivity.
  rewrite choose_id_r. reflexivity.
Qed.

Lemma best_of_rows : forall rows, best_of (map best_of rows) = best_of (concat rows).
Proof. intros rows. apply fold_choose_rows. Qed.

(* two lists with the same members have best results of the same class and equivalent cost *)
Lemma is_best_equiv : forall xs ys r1 r2,
  (forall x, In x xs <-> In x ys) -> is_best xs r1 -> is_best ys r2 -> res_equiv r1 r2.
Proof.
  intros xs ys [a|fa] [b|fb] Hsame H1 H2; cbn [is_best res_equiv] in *; auto.
  - destruct H1 as (Ha & Hamin). destruct H2 as (Hb & Hbmin). split.
    + apply Hbmin. apply Hsame. exact Ha.
    + apply Hamin. apply Hsame. exact Hb.
  - destruct H1 as (Ha & _). destruct H2 as (Hno & _). apply (Hno a). apply Hsame. exact Ha.
  - destruct H2 as (Hb & _). destruct H1 as (Hno & _). apply (Hno b). apply Hsame. exact Hb.
Qed.

(* ---- the grid ---- *)
Section GridP.
Variables Rt Jb : Type.
Variable ev : Rt -> Jb -> cell.
Notation eall := (evaluate_all S C cost lt Rt Jb ev).
Notation pstep := (pair_step S C cost lt Rt Jb ev).
Notation pfull := (fun p : Rt * Jb => full (ev (fst p) (snd p))).

Definition grid_ok (routes : list Rt) (jobs : list Jb) : Prop :=
  forall r j, In r routes -> In j jobs -> cell_ok (ev r j).

Lemma fold_pstep_is_best_of : forall ps acc,
  (forall p, In p ps -> cell_ok (ev (fst p) (snd p))) ->
  fold_left pstep ps acc = fold_left choose (map pfull ps) acc.
Proof.
  induction ps as [|p ps IH]; intros acc H; cbn [fold_left map]; [reflexivity|].
  rewrite IH by (intros; apply H; right; assumption).
  f_equal. unfold Reduce2.pair_step. apply eval_step_is_choose. apply H; left; reflexivity.
Qed.

(* MAIN: every schedule of evaluate_all returns EXACTLY (cost, payload, kept failure) the left-to-right reduction of the
   individually evaluated pairs *)
Theorem evaluate_all_exact : forall routes jobs t,
  grid_ok routes jobs -> pflatten t = cartesian_product routes jobs ->
  eall t = best_of_all S C cost lt Rt Jb ev routes jobs.
Proof.
  intros routes jobs t Hok Ht. unfold Reduce2.evaluate_all, Reduce2.best_of_all.
  assert (Hcells : forall p, In p (pflatten t) -> cell_ok (ev (fst p) (snd p))).
  { intros [r j] Hp. rewrite Ht in Hp. apply in_cartesian_product in Hp as (Hr & Hj). apply Hok; assumption. }
  rewrite (fold_reduce_any_schedule mf pstep choose pfull choose_assoc choose_id_r).
  - rewrite fold_pstep_is_best_of by exact Hcells. rewrite Ht. reflexivity.
  - intros acc p Hp. unfold Reduce2.pair_step. apply eval_step_is_choose. apply Hcells. exact Hp.
Qed.

Lemma fold_row_pairs : forall r jobs a,
  fold_left (fun acc j => estep acc (ev r j)) jobs a = fold_left pstep (map (fun b => (r, b)) jobs) a.
Proof. intros r jobs. induction jobs as [|j jobs IHj]; intros a; cbn [fold_left map]; [reflexivity|]. apply IHj. Qed.

Lemma nested_loop_is_leaf : forall routes jobs,
  nested_loop S C cost lt Rt Jb ev routes jobs = eall (PLeaf (cartesian_product routes jobs)).
Proof.
  intros routes jobs. unfold Reduce2.nested_loop, Reduce2.evaluate_all. cbn [fold_reduce].
  generalize mf as acc. induction routes as [|r routes IH]; intros acc; cbn [fold_left cartesian_product flat_map]; [reflexivity|].
  rewrite fold_left_app. rewrite <- IH. f_equal. apply fold_row_pairs.
Qed.

Theorem evaluate_all_eq_nested_loop : forall routes jobs t,
  grid_ok routes jobs -> pflatten t = cartesian_product routes jobs ->
  eall t = nested_loop S C cost lt Rt Jb ev routes jobs.
Proof.
  intros routes jobs t Hok Ht. rewrite nested_loop_is_leaf.
  rewrite (evaluate_all_exact routes jobs t Hok Ht). symmetry. apply evaluate_all_exact; [exact Hok|reflexivity].
Qed.

(* consequences of exactness, spelled out *)
Theorem evaluate_all_minimal : forall routes jobs t,
  grid_ok routes jobs -> pflatten t = cartesian_product routes jobs ->
  match eall t with
  | RSuccess s => (exists r j, In r routes /\ In j jobs /\ full (ev r j) = RSuccess s) /\
                  (forall r j s', In r routes -> In j jobs -> full (ev r j) = RSuccess s' -> lt (cost s') (cost s) = false)
  | RFailure f => (forall r j s', In r routes -> In j jobs -> full (ev r j) <> RSuccess s') /\
                  f = kept (map pfull (cartesian_product routes jobs))
  end.
Proof.
  intros routes jobs t Hok Ht. rewrite (evaluate_all_exact routes jobs t Hok Ht). unfold Reduce2.best_of_all.
  pose proof (best_of_is_best (map pfull (cartesian_product routes jobs))) as H.
  destruct (best_of (map pfull (cartesian_product routes jobs))) as [s|f]; cbn [is_best] in H.
  - destruct H as (Hin & Hmin). split.
    + apply in_map_iff in Hin as ([r j] & Hf & Hp). apply in_cartesian_product in Hp as (Hr & Hj). exists r, j. auto.
    + intros r j s' Hr Hj Hf. apply Hmin. rewrite <- Hf. apply (in_map pfull _ (r, j)). apply in_cartesian_product. auto.
  - destruct H as (Hno & Hk). split; [|exact Hk].
    intros r j s' Hr Hj Hf. apply (Hno s'). rewrite <- Hf. apply (in_map pfull _ (r, j)). apply in_cartesian_product. auto.
Qed.

Theorem evaluate_all_failure_iff : forall routes jobs t,
  grid_ok routes jobs -> pflatten t = cartesian_product routes jobs ->
  ((exists f, eall t = RFailure f) <-> forall r j, In r routes -> In j jobs -> exists f, full (ev r j) = RFailure f).
Proof.
  intros routes jobs t Hok Ht. pose proof (evaluate_all_minimal routes jobs t Hok Ht) as H. split.
  - intros (f & Hf) r j Hr Hj. rewrite Hf in H. destruct H as (Hno & _).
    destruct (full (ev r j)) as [s|f'] eqn:E; [exfalso; apply (Hno r j s Hr Hj E)|eauto].
  - intros Hall. destruct (eall t) as [s|f]; [|eauto]. destruct H as ((r & j & Hr & Hj & Hf) & _).
    destruct (Hall r j Hr Hj) as (f & Hf'). congruence.
Qed.

(* evaluate_and_collect_all: the collected vector does not depend on the chunking *)
Theorem collect_split_independent : forall b routes jobs tr tr' tj tj',
  pflatten tr = pflatten tr' -> pflatten tj = pflatten tj' ->
  evaluate_and_collect_all S C cost lt Rt Jb ev b routes jobs tr tj =
  evaluate_and_collect_all S C cost lt Rt Jb ev b routes jobs tr' tj'.
Proof.
  intros b routes jobs tr tr' tj tj' Hr Hj. unfold Reduce2.evaluate_and_collect_all, Reduce2.collect_by_job, Reduce2.collect_by_route.
  destruct b; apply parallel_collect_split_independent; assumption.
Qed.

Lemma fold_row_is_best_of : forall r jobs, (forall j, In j jobs -> cell_ok (ev r j)) ->
  fold_left (fun acc j => estep acc (ev r j)) jobs mf = best_of (map (fun j => full (ev r j)) jobs).
Proof.
  intros r jobs H. unfold Reduce2.best_of. generalize mf as acc.
  induction jobs as [|j jobs IH]; intros acc; cbn [fold_left map]; [reflexivity|].
  rewrite IH by (intros; apply H; right; assumption).
  rewrite eval_step_is_choose by (apply H; left; reflexivity). reflexivity.
Qed.
Lemma fold_col_is_best_of : forall j routes, (forall r, In r routes -> cell_ok (ev r j)) ->
  fold_left (fun acc r => estep acc (ev r j)) routes mf = best_of (map (fun r => full (ev r j)) routes).
Proof.
  intros j routes H. unfold Reduce2.best_of. generalize mf as acc.
  induction routes as [|r routes IH]; intros acc; cbn [fold_left map]; [reflexivity|].
  rewrite IH by (intros; apply H; right; assumption).
  rewrite eval_step_is_choose by (apply H; left; reflexivity). reflexivity.
Qed.

Lemma concat_rows : forall routes jobs,
  concat (map (fun r => map (fun j => full (ev r j)) jobs) routes) = map pfull (cartesian_product routes jobs).
Proof.
  induction routes as [|r routes IH]; intros jobs; cbn [map concat cartesian_product flat_map]; [reflexivity|].
  rewrite map_app, map_map. unfold cartesian_product in IH. rewrite IH. reflexivity.
Qed.

(* branch `else` (one sequential fold over the jobs per route): reducing the collected vector gives EXACTLY evaluate_all *)
Theorem collect_by_route_reduced : forall routes jobs tr t,
  grid_ok routes jobs -> pflatten tr = routes -> pflatten t = cartesian_product routes jobs ->
  best_of (collect_by_route S C cost lt Rt Jb ev jobs tr) = eall t.
Proof.
  intros routes jobs tr t Hok Htr Ht. rewrite (evaluate_all_exact routes jobs t Hok Ht).
  unfold Reduce2.collect_by_route. rewrite parallel_collect_eq_map, Htr.
  rewrite (map_ext_in _ (fun r => best_of (map (fun j => full (ev r j)) jobs))).
  - rewrite <- (map_map (fun r => map (fun j => full (ev r j)) jobs) best_of). rewrite best_of_rows, concat_rows. reflexivity.
  - intros r Hr. apply fold_row_is_best_of. intros j Hj. apply Hok; assumption.
Qed.

(* branch `is_fold_jobs` (one sequential fold over the routes per job): same verdict class and equivalent cost *)
Theorem collect_by_job_reduced : forall routes jobs tj t,
  grid_ok routes jobs -> pflatten tj = jobs -> pflatten t = cartesian_product routes jobs ->
  res_equiv (best_of (collect_by_job S C cost lt Rt Jb ev routes tj)) (eall t).
Proof.
  intros routes jobs tj t Hok Htj Ht. rewrite (evaluate_all_exact routes jobs t Hok Ht).
  unfold Reduce2.collect_by_job. rewrite parallel_collect_eq_map, Htj.
  rewrite (map_ext_in _ (fun j => best_of (map (fun r => full (ev r j)) routes))).
  2:{ intros j Hj. apply fold_col_is_best_of. intros r Hr. apply Hok; assumption. }
  rewrite <- (map_map (fun j => map (fun r => full (ev r j)) routes) best_of). rewrite best_of_rows.
  unfold Reduce2.best_of_all.
  eapply is_best_equiv; [|apply best_of_is_best|apply best_of_is_best].
  intros x. split.
  - intros Hx. apply in_concat in Hx as (row & Hrow & Hx). apply in_map_iff in Hrow as (j & <- & Hj).
    apply in_map_iff in Hx as (r & <- & Hr). apply (in_map pfull _ (r, j)). apply in_cartesian_product. auto.
  - intros Hx. apply in_map_iff in Hx as ([r j] & <- & Hp). apply in_cartesian_product in Hp as (Hr & Hj).
    apply in_concat. exists (map (fun r => full (ev r j)) routes). split.
    + apply in_map_iff. exists j. auto.
    + apply in_map_iff. exists r. auto.
Qed.
End GridP.

(* SkipBestInsertionEvaluator: the pick is a function of the collected vector, hence of the inputs only *)
Theorem skip_best_pick_split_independent : forall Rt Jb (ev : Rt -> Jb -> cell) k b routes jobs tr tr' tj tj',
  pflatten tr = pflatten tr' -> pflatten tj = pflatten tj' ->
  skip_best_pick S C cost lt k (evaluate_and_collect_all S C cost lt Rt Jb ev b routes jobs tr tj) =
  skip_best_pick S C cost lt k (evaluate_and_collect_all S C cost lt Rt Jb ev b routes jobs tr' tj').
Proof.
  intros. f_equal. apply collect_split_independent; assumption.
Qed.
End ResultsP.

(* exact commutativity fails for two failures: the right operand's code wins (observation, not a property violation) *)
Theorem choose_failures_not_commutative :
  exists a b : result unit, choose_best_result unit Z (fun _ => 0) Z.ltb a b <> choose_best_result unit Z (fun _ => 0) Z.ltb b a.
Proof. exists (RFailure (mkFail 1 true (Some 1))), (RFailure (mkFail 2 true (Some 2))). vm_compute. discriminate. Qed.

(* make_failure() is not an exact left unit: the job of an unknown-code failure is dropped *)
Theorem choose_left_unit_drops_job :
  exists a : result unit, choose_best_result unit Z (fun _ => 0) Z.ltb (make_failure unit) a <> a.
Proof. exists (RFailure (mkFail UNKNOWN false (Some 7))). vm_compute. discriminate. Qed.

(* ================= (c) the concrete cell over Model/Core.v ================= *)
Lemma leg_estimate_nonneg : forall (m : Z -> Z -> Z),
  (forall a b, 0 <= m a b) -> (forall a b c, m a c <= m a b + m b c) ->
  forall t idx x, 0 <= leg_estimate m t idx x.
Proof.
  intros m Hnn Htri t idx x. unfold leg_estimate.
  destruct (negb (has_jobs t)); destruct (skipn (S idx) t) as [|n rest].
  - pose proof (Hnn (a_loc (nth idx t x)) (a_loc x)). lia.
  - pose proof (Hnn (a_loc (nth idx t x)) (a_loc x)). pose proof (Hnn (a_loc x) (a_loc n)). lia.
  - pose proof (Hnn (a_loc (nth idx t x)) (a_loc x)). lia.
  - pose proof (Htri (a_loc (nth idx t x)) (a_loc x) (a_loc n)). lia.
Qed.

Section Lockstep.
Variable dur : Z -> Z -> Z.
Variable est : list act -> nat -> act -> Z.
Variable v : vehicle.
Variable t : list act.
Variable j : single.
Variable rc : Z.
Variable Rel : sctx -> sctx -> Prop.

Definition set_viol (c : sctx) (x : Z * bool) : sctx := mkSctx (Some x) (sc_index c) (sc_cost c) (sc_place c).
Definition upd (c : sctx) (idx : nat) (costs : Z) (pl : nat * Z * Z * Z * Z) : sctx :=
  if match sc_cost c with Some o => costs <? o | None => true end then mkSctx None idx (Some costs) (Some pl) else c.

Hypothesis Rel_viol : forall c1 c2 x, Rel c1 c2 -> Rel (set_viol c1 x) (set_viol c2 x).
Hypothesis Rel_upd : forall c1 c2 idx target pl, Rel c1 c2 ->
  Rel (upd c1 idx (est t idx target + rc) pl) (upd c2 idx (est t idx target + rc) pl).

Lemma scan_windows_lock : forall ws idx pi p c1 c2, Rel c1 c2 ->
  Rel (fst (scan_windows dur est v t idx j pi p rc ws c1)) (fst (scan_windows dur est v t idx j pi p rc ws c2)) /\
  snd (scan_windows dur est v t idx j pi p rc ws c1) = snd (scan_windows dur est v t idx j pi p rc ws c2).
Proof.
  induction ws as [|w ws IH]; intros idx pi p c1 c2 H; cbn [scan_windows]; [split; [exact H|reflexivity]|].
  destruct (eval_activity dur v t idx _) as [[code stopped]|] eqn:Ev.
  - destruct stopped.
    + cbn [fst snd]. split; [apply (Rel_viol c1 c2 (code, true) H)|reflexivity].
    + apply IH. apply (Rel_viol c1 c2 (code, false) H).
  - apply IH. apply (Rel_upd c1 c2 idx _ _ H).
Qed.

Lemma scan_places_lock : forall ps idx pi c1 c2, Rel c1 c2 ->
  Rel (fst (scan_places dur est v t idx j pi rc ps c1)) (fst (scan_places dur est v t idx j pi rc ps c2)) /\
  snd (scan_places dur est v t idx j pi rc ps c1) = snd (scan_places dur est v t idx j pi rc ps c2).
Proof.
  induction ps as [|p ps IH]; intros idx pi c1 c2 H; cbn [scan_places]; [split; [exact H|reflexivity]|].
  pose proof (scan_windows_lock (p_tws p) idx pi p c1 c2 H) as [Hr Hs].
  destruct (scan_windows dur est v t idx j pi p rc (p_tws p) c1) as [c1' s1].
  destruct (scan_windows dur est v t idx j pi p rc (p_tws p) c2) as [c2' s2]. cbn [fst snd] in Hr, Hs. subst s2.
  destruct s1; [split; [exact Hr|reflexivity]|]. apply IH. exact Hr.
Qed.

Lemma scan_legs_lock : forall n idx c1 c2, Rel c1 c2 ->
  Rel (scan_legs dur est v t j rc idx n c1) (scan_legs dur est v t j rc idx n c2).
Proof.
  induction n as [|n IH]; intros idx c1 c2 H; cbn [scan_legs]; [exact H|]. unfold scan_leg.
  pose proof (scan_places_lock (s_places j) idx 0%nat c1 c2 H) as [Hr Hs].
  destruct (scan_places dur est v t idx j 0 rc (s_places j) c1) as [c1' s1].
  destruct (scan_places dur est v t idx j 0 rc (s_places j) c2) as [c2' s2]. cbn [fst snd] in Hr, Hs. subst s2.
  destruct s1; [exact Hr|]. apply IH. exact Hr.
Qed.
End Lockstep.

Section ConcreteP.
Variable dur : Z -> Z -> Z.

(* (1) every cost the scan records is route_cost + an activity-level estimate *)
Definition cost_ge (rc : Z) (c _ : sctx) : Prop :=
  (forall x, sc_cost c = Some x -> rc <= x) /\ (sc_place c <> None -> sc_cost c <> None).

Lemma scan_cost_ge : forall est v closed t j rc,
  (forall idx x, 0 <= est t idx x) ->
  let r := analyze_known dur est v closed t j rc None in
  forall p, sc_place r = Some p -> exists x, sc_cost r = Some x /\ rc <= x.
Proof.
  intros est v closed t j rc Hest r p Hp.
  assert (H : cost_ge rc r r).
  { unfold r, analyze_known. apply (scan_legs_lock dur est v t j rc (cost_ge rc)).
    - intros c1 c2 x [H1 H2]. split; exact H1 || exact H2.
    - intros c1 c2 idx target pl [H1 H2]. unfold upd.
      destruct (match sc_cost c1 with Some o => est t idx target + rc <? o | None => true end).
      + split; cbn [sc_cost sc_place]; [intros x Hx; inversion Hx; subst; pose proof (Hest idx target); lia|discriminate].
      + split; assumption.
    - split; cbn [sc_cost sc_place]; [discriminate|intros H; exfalso; apply H; reflexivity]. }
  destruct H as [H1 H2]. destruct (sc_cost r) as [x|] eqn:E.
  - exists x. split; [reflexivity|apply H1; reflexivity].
  - exfalso. apply H2; [rewrite Hp; discriminate|reflexivity].
Qed.

(* (2) the scan started from best_known_cost = a runs in lockstep with the scan started from nothing *)
Definition known_rel (a : Z) (c1 c2 : sctx) : Prop :=
  (sc_place c2 = None /\ sc_cost c2 = Some a /\ (forall x, sc_cost c1 = Some x -> a <= x) /\
   (sc_place c1 <> None -> sc_cost c1 <> None)) \/
  (c1 = c2 /\ exists x p, sc_cost c1 = Some x /\ x < a /\ sc_place c1 = Some p).

Lemma scan_known_rel : forall est v closed t j rc a,
  known_rel a (analyze_known dur est v closed t j rc None) (analyze_known dur est v closed t j rc (Some a)).
Proof.
  intros est v closed t j rc a. unfold analyze_known. apply (scan_legs_lock dur est v t j rc (known_rel a)).
  - intros c1 c2 x [(H1 & H2 & H3 & H4)|(H1 & H2)]; [left|right]; cbn [set_viol sc_place sc_cost].
    + auto.
    + subst c2. split; [reflexivity|exact H2].
  - intros c1 c2 idx target pl [(H1 & H2 & H3 & H4)|(H1 & H2)].
    + unfold upd. rewrite H2. set (k := est t idx target + rc). destruct (k <? a) eqn:Ek.
      * (* both scans take the candidate *)
        assert (Hb : match sc_cost c1 with Some o => k <? o | None => true end = true).
        { destruct (sc_cost c1) as [o|] eqn:Eo; [|reflexivity]. specialize (H3 o eq_refl). lia. }
        rewrite Hb. right. split; [reflexivity|]. exists k, pl. cbn [sc_cost sc_place]. repeat split. lia.
      * left. destruct (match sc_cost c1 with Some o => k <? o | None => true end); cbn [sc_place sc_cost].
        -- repeat split; [exact H1|exact H2|intros x Hx; inversion Hx; lia|discriminate].
        -- repeat split; assumption.
    + subst c2. right. split; [reflexivity|]. destruct H2 as (x & p & Hx & Hlt & Hp). unfold upd. rewrite Hx.
      destruct (est t idx target + rc <? x) eqn:E; cbn [sc_cost sc_place].
      * exists (est t idx target + rc), pl. repeat split. lia.
      * exists x, p. auto.
  - left. cbn [sc_place sc_cost]. repeat split; [discriminate|intros H; exfalso; apply H; reflexivity].
Qed.

Theorem concrete_scan_respects_known : forall est v closed t j rc,
  respects_known csucc Z ccost Z.ltb (fun known => result_of_sctx j (analyze_known dur est v closed t j rc known)).
Proof.
  intros est v closed t j rc a. cbv beta.
  pose proof (scan_known_rel est v closed t j rc a) as H.
  set (c1 := analyze_known dur est v closed t j rc None) in *.
  set (c2 := analyze_known dur est v closed t j rc (Some a)) in *.
  destruct H as [(H1 & H2 & H3 & H4)|(H1 & x & p & Hx & Hlt & Hp)].
  - assert (Hf : exists f, result_of_sctx j c2 = RFailure f).
    { unfold result_of_sctx. rewrite H1. destruct (sc_viol c2) as [[code st]|]; eauto. }
    unfold result_of_sctx at 1. destruct (sc_place c1) as [p|] eqn:Ep.
    + destruct (sc_cost c1) as [x|] eqn:Ex; [|exfalso; apply H4; [discriminate|reflexivity]].
      unfold ccost. cbn [fst]. specialize (H3 x eq_refl). replace (x <? a) with false by lia. exact Hf.
    + destruct (sc_viol c1) as [[code st]|]; exact Hf.
  - rewrite <- H1. unfold result_of_sctx. rewrite Hp, Hx. unfold ccost. cbn [fst]. replace (x <? a) with true by lia. reflexivity.
Qed.

(* every cell of the concrete model honours best_known_cost; with non-negative activity-level estimates its route-level
   estimate is a lower bound of the full insertion cost *)
Theorem concrete_cell_ok : forall est rcf r j,
  (forall idx x, 0 <= est r (r_tour r) idx x) ->
  cell_ok csucc Z ccost Z.ltb (concrete_cell dur est rcf r j).
Proof.
  intros est rcf r j Hest. unfold concrete_cell.
  destruct (negb (eval_route_time _ j)); [split; exact I|].
  destruct (negb (eval_route_cap _ _ j)); [split; exact I|].
  split; [apply concrete_scan_respects_known|]. cbn [cell_lower_bound]. intros s Hs.
  unfold result_of_sctx in Hs.
  destruct (sc_place (analyze_known dur (est r) (r_veh r) (r_closed r) (r_tour r) j (rcf r) None)) as [p|] eqn:Ep.
  - destruct (scan_cost_ge (est r) (r_veh r) (r_closed r) (r_tour r) j (rcf r) Hest p Ep) as (x & Hx & Hge).
    rewrite Hx in Hs. inversion Hs; subst s. unfold ccost. cbn [fst]. lia.
  - destruct (sc_viol _) as [[code st]|]; discriminate.
Qed.

Theorem dist_cell_ok : forall dist r j,
  (forall a b, 0 <= dist a b) -> (forall a b c, dist a c <= dist a b + dist b c) ->
  cell_ok csucc Z ccost Z.ltb (dist_cell dur dist r j).
Proof.
  intros dist r j Hnn Htri. unfold dist_cell. apply concrete_cell_ok. intros idx x. apply leg_estimate_nonneg; assumption.
Qed.

Lemma zltb_irrefl : forall a, Z.ltb a a = false. Proof. intros; lia. Qed.
Lemma zltb_trans : forall a b c, Z.ltb a b = true -> Z.ltb b c = true -> Z.ltb a c = true. Proof. intros; lia. Qed.
Lemma zltb_negtrans : forall a b c, Z.ltb a b = false -> Z.ltb b c = false -> Z.ltb a c = false. Proof. intros; lia. Qed.

(* COROLLARY: distance objective, non-negative metric matrix: evaluate_all over any routes x jobs grid, under any schedule,
   returns exactly the left-to-right reduction of the individually evaluated pairs; in particular a minimal cost *)
Theorem dist_evaluate_all_split_independent : forall dist routes jobs t,
  (forall a b, 0 <= dist a b) -> (forall a b c, dist a c <= dist a b + dist b c) ->
  pflatten t = cartesian_product routes jobs ->
  evaluate_all csucc Z ccost Z.ltb route_desc single (dist_cell dur dist) t =
  best_of_all csucc Z ccost Z.ltb route_desc single (dist_cell dur dist) routes jobs.
Proof.
  intros dist routes jobs t Hnn Htri Ht.
  apply evaluate_all_exact with (routes := routes) (jobs := jobs);
    try exact zltb_irrefl; try exact zltb_trans; try exact zltb_negtrans; [|exact Ht].
  intros r j _ _. apply dist_cell_ok; assumption.
Qed.

Theorem dist_evaluate_all_minimal : forall dist routes jobs t,
  (forall a b, 0 <= dist a b) -> (forall a b c, dist a c <= dist a b + dist b c) ->
  pflatten t = cartesian_product routes jobs ->
  match evaluate_all csucc Z ccost Z.ltb route_desc single (dist_cell dur dist) t with
  | RSuccess s => (exists r j, In r routes /\ In j jobs /\ full_of csucc Z (dist_cell dur dist r j) = RSuccess s) /\
                  (forall r j s', In r routes -> In j jobs -> full_of csucc Z (dist_cell dur dist r j) = RSuccess s' -> ccost s <= ccost s')
  | RFailure _ => forall r j s', In r routes -> In j jobs -> full_of csucc Z (dist_cell dur dist r j) <> RSuccess s'
  end.
Proof.
  intros dist routes jobs t Hnn Htri Ht.
  assert (H := fun h1 h2 h3 => evaluate_all_minimal csucc Z ccost Z.ltb h1 h2 h3 route_desc single (dist_cell dur dist)
                routes jobs t (fun r j _ _ => dist_cell_ok dist r j Hnn Htri) Ht).
  specialize (H zltb_irrefl zltb_trans zltb_negtrans).
  destruct (evaluate_all csucc Z ccost Z.ltb route_desc single (dist_cell dur dist) t) as [s|f].
  - destruct H as (Hex & Hmin). split; [exact Hex|]. intros r j s' Hr Hj Hf. specialize (Hmin r j s' Hr Hj Hf). lia.
  - destruct H as (Hno & _). exact Hno.
Qed.

(* the concrete cell agrees with Core's eval_single_gen (the function tied to the code by the C06 / C20 correspondences) *)
Theorem concrete_cell_matches_core : forall est rcf r j,
  match eval_single_gen dur (est r) (rcf r) (r_veh r) (r_shift_start r) (r_closed r) (r_tour r) j PAny,
        full_of csucc Z (concrete_cell dur est rcf r j) with
  | ESuccess idx p c, RSuccess s => s = (c, idx, p)
  | EFailure code st, RFailure f => f_code f = code /\ f_stopped f = st /\ f_job f = Some (s_id j)
  | _, _ => False
  end.
Proof.
  intros est rcf r j. unfold eval_single_gen, concrete_cell.
  destruct (negb (eval_route_time _ j)); [cbn; auto|].
  destruct (negb (eval_route_cap _ _ j)); [cbn; auto|].
  cbn [full_of]. unfold result_of_sctx, analyze, analyze_known.
  destruct (sc_place _) as [p|]; [reflexivity|]. destruct (sc_viol _) as [[code st]|]; cbn; auto.
Qed.
End ConcreteP.

(* ================= (d) pools and decomposition ================= *)
Lemma map_snd_enumerate : forall A (xs : list A), map snd (enumerate xs) = xs.
Proof.
  intros A xs. unfold enumerate. generalize 0%nat as k.
  induction xs as [|x xs IH]; intros k; cbn [length seq combine map]; [reflexivity|]. rewrite IH. reflexivity.
Qed.

Section PoolsP.
Context {A R : Type}.

Lemma values_all_ran : forall (l : list (exec R)) (f : exec R -> R),
  (forall e, In e l -> exists p, e = Ran p (f e)) -> values l = Some (map f l).
Proof.
  induction l as [|e l IH]; intros f H; cbn [values map]; [reflexivity|].
  destruct (H e (or_introl eq_refl)) as (p & He). rewrite He at 1. rewrite (IH f) by (intros; apply H; right; assumption). reflexivity.
Qed.

(* the values returned by search_many / diversify_solutions are a function of the inputs only: whatever the number of pools
   (none configured, or any n >= 0 — an empty vector of pools included), result i is op(solution i) *)
Theorem search_many_values : forall (pools : option nat) (op : A -> R) (sols : list A) (t : ptree (nat * A)),
  pflatten t = enumerate sols ->
  values (search_many pools op t) = Some (map op sols).
Proof.
  intros pools op sols t Ht. unfold search_many. rewrite parallel_collect_eq_map, Ht.
  rewrite <- (map_snd_enumerate A sols) at 2. rewrite map_map.
  generalize (enumerate sols) as l. induction l as [|[i s] l IH]; cbn [map values]; [reflexivity|].
  rewrite IH. unfold thread_pool_execute. destruct pools as [[|n]|]; reflexivity.
Qed.

Theorem search_many_pool_independent : forall (p1 p2 : option nat) (op : A -> R) (sols : list A) (t1 t2 : ptree (nat * A)),
  pflatten t1 = enumerate sols -> pflatten t2 = enumerate sols ->
  values (search_many p1 op t1) = values (search_many p2 op t2).
Proof. intros. rewrite !(search_many_values _ op sols) by assumption. reflexivity. Qed.

Theorem search_many_pools_exist : forall n (op : A -> R) (t : ptree (nat * A)),
  Forall (fun p => (p < S n)%nat) (pools_used (search_many (Some (S n)) op t)).
Proof.
  intros n op t. unfold search_many. rewrite parallel_collect_eq_map. apply Forall_forall. intros p Hp.
  unfold pools_used in Hp. apply in_flat_map in Hp as (e & He & Hp). apply in_map_iff in He as ([i s] & <- & _).
  cbn [thread_pool_execute fst] in Hp. destruct Hp as [<-|[]]. apply Nat.mod_upper_bound. discriminate.
Qed.

(* Parallelism::new(0, _) (an empty vector of pools): every task runs without a pool *)
Theorem search_many_zero_pools_inline : forall (op : A -> R) (t : ptree (nat * A)),
  search_many (Some 0%nat) op t = search_many None op t /\ pools_used (search_many (Some 0%nat) op t) = [].
Proof.
  intros op t. unfold search_many. rewrite !parallel_collect_eq_map. split; [reflexivity|].
  unfold pools_used. induction (pflatten t) as [|x l IH]; [reflexivity|]. cbn [map flat_map thread_pool_execute app]. exact IH.
Qed.

(* the function before /repo b5c201c (finding C15-F2, repaired): with an empty vector of pools `idx % 0` — every dispatched task
   panicked; for every other setting it was the present function *)
Theorem search_many_zero_pools_panics_prefix : forall (op : A -> R) (t : ptree (nat * A)),
  pflatten t <> [] -> values (search_many_prefix (Some 0%nat) op t) = None.
Proof.
  intros op t H. unfold search_many_prefix. rewrite parallel_collect_eq_map.
  destruct (pflatten t) as [|x l]; [congruence|]. reflexivity.
Qed.

Theorem search_many_prefix_agrees : forall (pools : option nat) (op : A -> R) (t : ptree (nat * A)),
  pools <> Some 0%nat -> search_many_prefix pools op t = search_many pools op t.
Proof.
  intros pools op t H. unfold search_many_prefix, search_many. destruct pools as [[|n]|]; [congruence|reflexivity|reflexivity].
Qed.
End PoolsP.

Lemma memn_in : forall i l, memn i l = true <-> In i l.
Proof.
  intros i l. unfold memn. rewrite existsb_exists. split.
  - intros (x & Hx & E). apply Nat.eqb_eq in E. subst. exact Hx.
  - intros H. exists i. split; [exact H|apply Nat.eqb_refl].
Qed.

Lemma in_firstn : forall A (l : list A) n x, In x (firstn n l) -> In x l.
Proof. intros A l n x H. rewrite <- (firstn_skipn n l). apply in_or_app. left. exact H. Qed.

Section DecomposeP.
Variable proximity : nat -> list nat.
Variable size : nat -> nat.
Hypothesis size_pos : forall o, (1 <= size o)%nat.

Lemma route_group_spec : forall used o, ~ In o used ->
  let g := route_group proximity size used o in
  NoDup g /\ In o g /\ (forall i, In i g -> ~ In i used) /\ (forall i, In i g -> i = o \/ In i (proximity o)).
Proof.
  intros used o Ho g. unfold g, route_group. repeat split.
  - apply NoDup_nodup.
  - apply nodup_In. pose proof (size_pos o). destruct (size o) as [|k]; [lia|]. cbn [firstn]. left. reflexivity.
  - intros i Hi. apply nodup_In in Hi. apply in_firstn in Hi. destruct Hi as [<-|Hi]; [exact Ho|].
    apply filter_In in Hi as (_ & Hi). intros Hu. apply memn_in in Hu. rewrite Hu in Hi. discriminate.
  - intros i Hi. apply nodup_In in Hi. apply in_firstn in Hi. destruct Hi as [<-|Hi]; [left; reflexivity|].
    apply filter_In in Hi as (Hi & _). right. exact Hi.
Qed.

Lemma decompose_groups_spec : forall outer used, NoDup used ->
  let gs := decompose_groups proximity size outer used in
  NoDup (concat gs ++ used) /\
  (forall i, In i outer -> In i used \/ In i (concat gs)) /\
  (forall i, In i (concat gs) -> In i outer \/ exists o, In i (proximity o)).
Proof.
  induction outer as [|o outer IH]; intros used Hnd; cbn [decompose_groups].
  - cbn. repeat split; [exact Hnd|intros i []|intros i []].
  - destruct (memn o used) eqn:Em.
    + destruct (IH used Hnd) as (H1 & H2 & H3). repeat split; [exact H1| |].
      * intros i [<-|Hi]; [left; apply memn_in; exact Em|apply H2; exact Hi].
      * intros i Hi. destruct (H3 i Hi) as [Ho|Ho]; [left; right; exact Ho|right; exact Ho].
    + assert (Ho : ~ In o used) by (intros H; apply memn_in in H; congruence).
      destruct (route_group_spec used o Ho) as (G1 & G2 & G3 & G4).
      set (g := route_group proximity size used o) in *.
      assert (Hnd' : NoDup (g ++ used)).
      { clear - G1 G3 Hnd. induction g as [|x g IHg]; cbn [app]; [exact Hnd|]. inversion G1; subst. constructor.
        - intros Hin. apply in_app_or in Hin as [Hin|Hin]; [contradiction|]. apply (G3 x (or_introl eq_refl) Hin).
        - apply IHg; [assumption|]. intros i Hi. apply G3. right. exact Hi. }
      destruct (IH (g ++ used) Hnd') as (H1 & H2 & H3). cbn [concat]. repeat split.
      * eapply Permutation_NoDup; [|exact H1]. rewrite !app_assoc. apply Permutation_app_tail. apply Permutation_app_comm.
      * intros i [<-|Hi]; [right; apply in_or_app; left; exact G2|].
        destruct (H2 i Hi) as [Hu|Hc]; [|right; apply in_or_app; right; exact Hc].
        apply in_app_or in Hu as [Hg|Hu]; [right; apply in_or_app; left; exact Hg|left; exact Hu].
      * intros i Hi. apply in_app_or in Hi as [Hg|Hc].
        -- destruct (G4 i Hg) as [->|Hp]; [left; left; reflexivity|right; exists o; exact Hp].
        -- destruct (H3 i Hc) as [Ho'|Ho']; [left; right; exact Ho'|right; exact Ho'].
Qed.

(* the groups of route indices partition 0..n-1: no route lost, none duplicated — whatever the proximity lists and the drawn
   group sizes (>= 1); the number of pools does not occur *)
Theorem decompose_partition : forall n,
  (forall o i, In i (proximity o) -> (i < n)%nat) ->
  NoDup (concat (decompose proximity size n)) /\ (forall i, In i (concat (decompose proximity size n)) <-> (i < n)%nat).
Proof.
  intros n Hprox. unfold decompose. destruct (decompose_groups_spec (seq 0 n) [] (NoDup_nil _)) as (H1 & H2 & H3).
  rewrite app_nil_r in H1. split; [exact H1|]. intros i. split.
  - intros Hi. destruct (H3 i Hi) as [Hs|(o & Ho)]; [apply in_seq in Hs; lia|apply (Hprox o i Ho)].
  - intros Hi. destruct (H2 i) as [[]|Hc]; [apply in_seq; lia|exact Hc].
Qed.

Theorem decompose_permutation : forall n,
  (forall o i, In i (proximity o) -> (i < n)%nat) -> Permutation (concat (decompose proximity size n)) (seq 0 n).
Proof.
  intros n Hprox. destruct (decompose_partition n Hprox) as (H1 & H2).
  apply NoDup_Permutation; [exact H1|apply seq_NoDup|]. intros i. rewrite H2, in_seq. lia.
Qed.
End DecomposeP.

(* refine_decomposed: the merged routes are the refined groups in group order, whatever the chunking; if the inner search
   returns, for every group, routes of exactly that group's vehicles, the merged solution has every route exactly once *)
Theorem refine_decomposed_eq : forall Rt (refine : list nat -> list Rt) (t : ptree (list nat)),
  refine_decomposed refine t = flat_map refine (pflatten t).
Proof. intros Rt refine t. unfold refine_decomposed. rewrite parallel_collect_eq_map, flat_map_concat_map. reflexivity. Qed.

Theorem refine_decomposed_keeps_routes : forall Rt (ids : Rt -> nat) (refine : list nat -> list Rt) proximity size n t,
  (forall o, (1 <= size o)%nat) -> (forall o i, In i (proximity o) -> (i < n)%nat) ->
  (forall g, Permutation (map ids (refine g)) g) ->
  pflatten t = decompose proximity size n ->
  Permutation (map ids (refine_decomposed refine t)) (seq 0 n).
Proof.
  intros Rt ids refine proximity size n t Hs Hp Href Ht. rewrite refine_decomposed_eq, Ht.
  eapply Permutation_trans; [|apply (decompose_permutation proximity size Hs n Hp)].
  generalize (decompose proximity size n) as gs. induction gs as [|g gs IH]; cbn [flat_map concat map]; [constructor|].
  rewrite map_app. apply Permutation_app; [apply Href|exact IH].
Qed.

(* keeping only the first p groups (p = number of pools) loses routes as soon as there are more groups than pools *)
Theorem truncated_groups_lose_routes :
  exists proximity size n p, ~ (forall i, (i < n)%nat -> In i (concat (firstn p (decompose proximity size n)))).
Proof.
  exists (fun o => filter (fun i => negb (Nat.eqb i o)) (seq 0 4)), (fun _ => 2%nat), 4%nat, 1%nat.
  intros H. specialize (H 2%nat ltac:(lia)). vm_compute in H. intuition congruence.
Qed.

(* ================= the order used by the correspondence (integer cost vectors, zero padded) is a strict weak order ================= *)
Lemma vcmp_from_refl x i n : vcmp_from x x i n = Eq.
Proof. revert i; induction n as [|n IH]; intros i; cbn [vcmp_from]; [reflexivity|]. rewrite Z.compare_refl; apply IH. Qed.

Lemma vcmp_from_antisym x y i n : vcmp_from x y i n = CompOpp (vcmp_from y x i n).
Proof.
  revert i; induction n as [|n IH]; intros i; cbn [vcmp_from]; [reflexivity|].
  rewrite (Z.compare_antisym (getd y i) (getd x i)).
  destruct (getd y i ?= getd x i); cbn [CompOpp]; [apply IH|reflexivity|reflexivity].
Qed.

Lemma vcmp_from_eq_l x y z i n : vcmp_from x y i n = Eq -> vcmp_from x z i n = vcmp_from y z i n.
Proof.
  revert i; induction n as [|n IH]; intros i; cbn [vcmp_from]; [reflexivity|].
  destruct (getd x i ?= getd y i) eqn:E; try discriminate. intros H.
  apply Z.compare_eq_iff in E. rewrite E. destruct (getd y i ?= getd z i); auto.
Qed.

Lemma vcmp_from_trans c x y z i n : vcmp_from x y i n = c -> vcmp_from y z i n = c -> vcmp_from x z i n = c.
Proof.
  revert i; induction n as [|n IH]; intros i; cbn [vcmp_from]; [congruence|].
  destruct (getd x i ?= getd y i) eqn:E1; destruct (getd y i ?= getd z i) eqn:E2; intros H1 H2; try congruence.
  - apply Z.compare_eq_iff in E1, E2. rewrite E1, E2, Z.compare_refl. eauto.
  - apply Z.compare_eq_iff in E1. rewrite E1, E2. exact H2.
  - apply Z.compare_eq_iff in E1. rewrite E1, E2. exact H2.
  - apply Z.compare_eq_iff in E2. rewrite <- E2, E1. exact H1.
  - rewrite Z.compare_lt_iff in E1, E2. assert (E3 : (getd x i ?= getd z i) = Lt) by (apply Z.compare_lt_iff; lia).
    rewrite E3. exact H1.
  - apply Z.compare_eq_iff in E2. rewrite <- E2, E1. exact H1.
  - rewrite Z.compare_gt_iff in E1, E2. assert (E3 : (getd x i ?= getd z i) = Gt) by (apply Z.compare_gt_iff; lia).
    rewrite E3. exact H1.
Qed.

Lemma vcmp_from_extend x y i n k :
  (forall j, (i + n <= j)%nat -> getd x j = getd y j) -> vcmp_from x y i (n + k) = vcmp_from x y i n.
Proof.
  revert i; induction n as [|n IH]; intros i H.
  - cbn [Nat.add vcmp_from]. apply vcmp_from_all_eq. intros j Hj; apply H; lia.
  - cbn [Nat.add vcmp_from]. destruct (_ ?= _); try reflexivity. apply IH. intros j Hj; apply H; lia.
Qed.

Lemma vcost_cmp_at x y N : (Nat.max (length x) (length y) <= N)%nat -> vcost_cmp x y = vcmp_from x y 0 N.
Proof.
  intros H. unfold vcost_cmp. replace N with (Nat.max (length x) (length y) + (N - Nat.max (length x) (length y)))%nat by lia.
  symmetry; apply vcmp_from_extend. intros j Hj. rewrite !getd_beyond by lia. reflexivity.
Qed.

Lemma vcost_cmp_trans c x y z : vcost_cmp x y = c -> vcost_cmp y z = c -> vcost_cmp x z = c.
Proof.
  set (N := Nat.max (length x) (Nat.max (length y) (length z))).
  rewrite (vcost_cmp_at x y N), (vcost_cmp_at y z N), (vcost_cmp_at x z N) by lia. apply vcmp_from_trans.
Qed.
Lemma vcost_cmp_eq_l x y z : vcost_cmp x y = Eq -> vcost_cmp x z = vcost_cmp y z.
Proof.
  set (N := Nat.max (length x) (Nat.max (length y) (length z))).
  rewrite (vcost_cmp_at x y N), (vcost_cmp_at y z N), (vcost_cmp_at x z N) by lia. apply vcmp_from_eq_l.
Qed.
Lemma vcost_cmp_antisym x y : vcost_cmp x y = CompOpp (vcost_cmp y x).
Proof. unfold vcost_cmp. rewrite (Nat.max_comm (length y)). apply vcmp_from_antisym. Qed.

Theorem vlt_irrefl : forall a, vlt a a = false.
Proof. intros a. unfold vlt, vcost_cmp. rewrite vcmp_from_refl. reflexivity. Qed.
Theorem vlt_trans : forall a b c, vlt a b = true -> vlt b c = true -> vlt a c = true.
Proof.
  intros a b c. unfold vlt. destruct (vcost_cmp a b) eqn:E1; try discriminate. destruct (vcost_cmp b c) eqn:E2; try discriminate.
  intros _ _. rewrite (vcost_cmp_trans Lt a b c E1 E2). reflexivity.
Qed.
Theorem vlt_negtrans : forall a b c, vlt a b = false -> vlt b c = false -> vlt a c = false.
Proof.
  intros a b c. unfold vlt. destruct (vcost_cmp a b) eqn:E1; try discriminate; destruct (vcost_cmp b c) eqn:E2; try discriminate; intros _ _.
  - rewrite (vcost_cmp_eq_l a b c E1), E2. reflexivity.
  - rewrite (vcost_cmp_eq_l a b c E1), E2. reflexivity.
  - (* a > b, b = c *)
    assert (Ecb : vcost_cmp c b = Eq) by (rewrite vcost_cmp_antisym, E2; reflexivity).
    rewrite (vcost_cmp_antisym a c), (vcost_cmp_eq_l c b a Ecb), (vcost_cmp_antisym b a), E1. reflexivity.
  - rewrite (vcost_cmp_trans Gt a b c E1 E2). reflexivity.
Qed.

(* ================= witnesses ================= *)
(* a distance matrix with non-negative entries that violates the triangle inequality gives a NEGATIVE activity-level estimate;
   then the route-level estimate (0) is no lower bound, the fold step prunes a cheaper insertion, and the concrete evaluator's
   result depends on the split (this is finding C15-F1 on the concrete model) *)
Definition nm_dist (a b : Z) : Z :=
  if (a =? 0) && (b =? 1) then 100 else if ((a =? 0) && (b =? 3)) || ((a =? 3) && (b =? 1)) then 10 else if a =? b then 0 else 1.
Definition nm_route : route_desc :=
  mkRoute (mkVeh INF 10 0 1 0 0 0) 0 true
          [mkAct (-1) 0 0 0 0 dzero 0 0; mkAct 5 1 0 0 INF dzero 0 0; mkAct (-1) 0 0 0 INF dzero 0 0].
Definition nm_job (id loc : Z) : single := mkSingle id [mkPlace (Some loc) 0 [(0, INF)]] dzero.

Theorem nonmetric_estimate_negative :
  (forall a b, 0 <= nm_dist a b) /\
  leg_estimate nm_dist (r_tour nm_route) 0 (mkAct 7 2 0 0 INF dzero 0 0) = -98.
Proof.
  split; [|reflexivity]. intros a b. unfold nm_dist.
  destruct ((a =? 0) && (b =? 1)); [lia|]. destruct (((a =? 0) && (b =? 3)) || ((a =? 3) && (b =? 1))); [lia|]. destruct (a =? b); lia.
Qed.

Theorem nonmetric_dist_split_dependent :
  let ev := dist_cell (fun _ _ => 0) nm_dist in
  let jobs := [nm_job 8 3; nm_job 7 2] in
  let prod := cartesian_product [nm_route] jobs in
  exists c1 c2,
    evaluate_all csucc Z ccost Z.ltb route_desc single ev (PLeaf prod) = RSuccess c1 /\
    evaluate_all csucc Z ccost Z.ltb route_desc single ev (PNode (PLeaf (firstn 1 prod)) (PLeaf (skipn 1 prod))) = RSuccess c2 /\
    ccost c1 = -80 /\ ccost c2 = -98.
Proof. cbv zeta. eexists. eexists. vm_compute. repeat split. Qed.

(* non-vacuity of the metric corollary: |a - b| is a non-negative metric and the same evaluation succeeds on it *)
Definition abs_dist (a b : Z) : Z := Z.abs (a - b).
Theorem metric_example :
  (forall a b, 0 <= abs_dist a b) /\ (forall a b c, abs_dist a c <= abs_dist a b + abs_dist b c) /\
  exists s, evaluate_all csucc Z ccost Z.ltb route_desc single (dist_cell (fun _ _ => 0) abs_dist)
              (PNode (PLeaf [(nm_route, nm_job 8 3)]) (PLeaf [(nm_route, nm_job 7 2)])) = RSuccess s /\ ccost s = 2.
Proof.
  unfold abs_dist. repeat split; try (intros; lia). eexists. vm_compute. split; reflexivity.
Qed.

(* non-vacuity of the grid theorem on the correspondence instance: a 2 x 2 table grid that satisfies grid_ok *)
Definition ex_grid (r j : nat) : vcell :=
  nth j (nth r [[v_table [0] (RSuccess ([5], 0)); v_table [0] (RFailure (mkFail 2 true (Some 7)))];
                [v_table [3] (RSuccess ([4], 2)); v_table [1] (RSuccess ([4], 3))]] []) CSkip.
Theorem grid_example :
  grid_ok vsucc (list Z) fst vlt nat nat ex_grid [0%nat; 1%nat] [0%nat; 1%nat] /\
  evaluate_all vsucc (list Z) fst vlt nat nat ex_grid (PLeaf (cartesian_product [0%nat; 1%nat] [0%nat; 1%nat])) = RSuccess ([4], 2).
Proof.
  split; [|reflexivity]. intros r j Hr Hj.
  assert (Hr' : r = 0%nat \/ r = 1%nat) by (cbn in Hr; intuition). assert (Hj' : j = 0%nat \/ j = 1%nat) by (cbn in Hj; intuition).
  destruct Hr' as [-> | ->]; destruct Hj' as [-> | ->]; split;
    try (apply (table_cell_respects_known vsucc (list Z) fst vlt));
    try (intros s Hs; vm_compute in Hs; inversion Hs; subst; reflexivity).
  all: exact [].
Qed.
