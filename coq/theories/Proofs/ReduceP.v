(* C15: every reduction schedule yields a minimal-cost result when route-level costs are lower bounds. *)
From VRP Require Import Base.Tac Model.Reduce.

Section P.
Variable C : Type.
Variable lt : C -> C -> bool.
Hypothesis lt_irrefl : forall a, lt a a = false.
Hypothesis lt_trans : forall a b c, lt a b = true -> lt b c = true -> lt a c = true.
Hypothesis lt_negtrans : forall a b c, lt a b = false -> lt b c = false -> lt a c = false.

Notation item := (item C).
Notation best := (best C lt).
Notation step := (step C lt).

(* r is a minimal-cost summary of the full results in xs *)
Definition is_min (xs : list item) (r : option C) : Prop :=
  match r with
  | None => forall i, In i xs -> it_full _ i = None
  | Some c => (exists i, In i xs /\ exists c0, it_full _ i = Some c0 /\ lt c0 c = false /\ lt c c0 = false) /\
              forall i c', In i xs -> it_full _ i = Some c' -> lt c' c = false
  end.

Definition lower_bound (xs : list item) : Prop :=
  forall i c, In i xs -> it_full _ i = Some c -> lt c (it_rc _ i) = false.

Lemma lt_asym : forall a b, lt a b = true -> lt b a = false.
Proof. intros a b H. destruct (lt b a) eqn:E; [|reflexivity]. pose proof (lt_trans _ _ _ H E) as H1. rewrite lt_irrefl in H1. discriminate. Qed.

Lemma is_min_best : forall xs ys l r, is_min xs l -> is_min ys r -> is_min (xs ++ ys) (best l r).
Proof.
  intros xs ys l r Hl Hr. destruct l as [a|], r as [b|]; cbn [Reduce.best].
  - destruct Hl as ((i & Hi & ca & Hia & Ha1 & Ha2) & Hla). destruct Hr as ((k & Hk & cb & Hkb & Hb1 & Hb2) & Hrb).
    destruct (lt b a) eqn:E; cbn [is_min]; split.
    + exists k. split; [apply in_or_app; right; exact Hk|]. exists cb. auto.
    + intros m c' Hm Hmc. apply in_app_or in Hm as [Hm|Hm].
      * specialize (Hla m c' Hm Hmc). (* c' >= a > b *) destruct (lt c' b) eqn:E2; [|reflexivity].
        pose proof (lt_trans _ _ _ E2 E) as H1. congruence.
      * apply (Hrb m c' Hm Hmc).
    + exists i. split; [apply in_or_app; left; exact Hi|]. exists ca. auto.
    + intros m c' Hm Hmc. apply in_app_or in Hm as [Hm|Hm].
      * apply (Hla m c' Hm Hmc).
      * specialize (Hrb m c' Hm Hmc). apply (lt_negtrans c' b a); assumption.
  - destruct Hl as ((i & Hi & ca & Hia & Ha1 & Ha2) & Hla). cbn [is_min] in *. split.
    + exists i. split; [apply in_or_app; left; exact Hi|]. exists ca. auto.
    + intros m c' Hm Hmc. apply in_app_or in Hm as [Hm|Hm]; [apply (Hla m c' Hm Hmc)|]. rewrite (Hr m Hm) in Hmc. discriminate.
  - destruct Hr as ((k & Hk & cb & Hkb & Hb1 & Hb2) & Hrb). cbn [is_min] in *. split.
    + exists k. split; [apply in_or_app; right; exact Hk|]. exists cb. auto.
    + intros m c' Hm Hmc. apply in_app_or in Hm as [Hm|Hm]; [rewrite (Hl m Hm) in Hmc; discriminate|apply (Hrb m c' Hm Hmc)].
  - cbn [is_min] in *. intros m Hm. apply in_app_or in Hm as [Hm|Hm]; auto.
Qed.

Lemma is_min_single : forall i, is_min [i] (it_full _ i).
Proof.
  intros i. destruct (it_full _ i) as [c|] eqn:E; cbn [is_min].
  - split.
    + exists i. split; [left; reflexivity|]. exists c. rewrite lt_irrefl. auto.
    + intros m c' [<-|[]] Hm. rewrite E in Hm. inversion Hm; subst. apply lt_irrefl.
  - intros m [<-|[]]. exact E.
Qed.

Lemma is_min_nil : is_min [] None.
Proof. cbn. intros i []. Qed.

(* the fold step keeps the accumulator a minimal summary, provided the item's route-level cost is a lower bound *)
Lemma step_min : forall xs acc i,
  is_min xs acc -> (forall c, it_full _ i = Some c -> lt c (it_rc _ i) = false) ->
  is_min (xs ++ [i]) (step acc i).
Proof.
  intros xs acc i Hacc Hlb. unfold Reduce.step. destruct acc as [a|].
  - destruct (lt a (it_rc _ i)) eqn:Ep.
    + (* pruned: everything this item could offer costs at least rc > a *)
      replace (Some a) with (best (Some a) None) by reflexivity.
      destruct (it_full _ i) as [c|] eqn:Ef.
      * destruct Hacc as (Hex & Hall). cbn [is_min Reduce.best]. split.
        -- destruct Hex as (k & Hk & Hk'). exists k. split; [apply in_or_app; left; exact Hk|exact Hk'].
        -- intros m c' Hm Hmc. apply in_app_or in Hm as [Hm|[<-|[]]]; [apply (Hall m c' Hm Hmc)|].
           rewrite Ef in Hmc. inversion Hmc; subst c'. specialize (Hlb c eq_refl).
           destruct (lt c a) eqn:E2; [|reflexivity]. pose proof (lt_trans _ _ _ E2 Ep). congruence.
      * apply is_min_best; [exact Hacc|]. cbn. intros m [<-|[]]. exact Ef.
    + destruct (it_full _ i) as [c|] eqn:Ef.
      * destruct (lt c a) eqn:E2.
        -- apply is_min_best; [exact Hacc|]. rewrite <- Ef. apply is_min_single.
        -- (* not cheaper: scan reports failure, accumulator stays; still minimal because c >= a *)
           destruct Hacc as (Hex & Hall). cbn [is_min Reduce.best]. split.
           ++ destruct Hex as (k & Hk & Hk'). exists k. split; [apply in_or_app; left; exact Hk|exact Hk'].
           ++ intros m c' Hm Hmc. apply in_app_or in Hm as [Hm|[<-|[]]]; [apply (Hall m c' Hm Hmc)|].
              rewrite Ef in Hmc. inversion Hmc; subst c'. exact E2.
      * apply is_min_best; [exact Hacc|]. cbn. intros m [<-|[]]. exact Ef.
  - replace (xs ++ [i]) with (xs ++ [i]) by reflexivity. apply is_min_best; [exact Hacc|apply is_min_single].
Qed.

Lemma fold_min : forall ys xs acc, is_min xs acc -> lower_bound ys -> is_min (xs ++ ys) (fold_left step ys acc).
Proof.
  induction ys as [|i ys IH]; intros xs acc Hacc Hlb; cbn [fold_left].
  - rewrite app_nil_r. exact Hacc.
  - replace (xs ++ i :: ys) with ((xs ++ [i]) ++ ys) by (rewrite <- app_assoc; reflexivity).
    apply IH.
    + apply step_min; [exact Hacc|]. intros c Hc. apply (Hlb i c); [left; reflexivity|exact Hc].
    + intros m c Hm Hc. apply (Hlb m c); [right; exact Hm|exact Hc].
Qed.

Theorem run_tree_min : forall t, lower_bound (flatten C t) -> is_min (flatten C t) (run_tree C lt t).
Proof.
  induction t as [xs|l IHl r IHr]; intros Hlb; cbn [flatten run_tree].
  - apply (fold_min xs [] None is_min_nil Hlb).
  - apply is_min_best.
    + apply IHl. intros m c Hm Hc. apply (Hlb m c); [apply in_or_app; left; exact Hm|exact Hc].
    + apply IHr. intros m c Hm Hc. apply (Hlb m c); [apply in_or_app; right; exact Hm|exact Hc].
Qed.

(* two minimal summaries of the same items have equivalent costs *)
Lemma is_min_unique : forall xs r1 r2, is_min xs r1 -> is_min xs r2 ->
  match r1, r2 with
  | None, None => True
  | Some a, Some b => lt a b = false /\ lt b a = false
  | _, _ => False
  end.
Proof.
  intros xs [a|] [b|] H1 H2; cbn [is_min] in *; auto.
  - destruct H1 as ((i & Hi & ca & Hia & Ha1 & Ha2) & Hla). destruct H2 as ((k & Hk & cb & Hkb & Hb1 & Hb2) & Hrb).
    pose proof (Hla k cb Hk Hkb) as P1. pose proof (Hrb i ca Hi Hia) as P2. split.
    + (* a <= ca ... *) apply (lt_negtrans a ca b); assumption.
    + apply (lt_negtrans b cb a); assumption.
  - destruct H1 as ((i & Hi & ca & Hia & _) & _). rewrite (H2 i Hi) in Hia. discriminate.
  - destruct H2 as ((i & Hi & ca & Hia & _) & _). rewrite (H1 i Hi) in Hia. discriminate.
Qed.

Theorem parallel_eq_sequential : forall t1 t2,
  flatten C t1 = flatten C t2 -> lower_bound (flatten C t1) ->
  match run_tree C lt t1, run_tree C lt t2 with
  | None, None => True
  | Some a, Some b => lt a b = false /\ lt b a = false
  | _, _ => False
  end.
Proof.
  intros t1 t2 E Hlb. apply (is_min_unique (flatten C t1)).
  - apply run_tree_min; exact Hlb.
  - rewrite E. apply run_tree_min. rewrite <- E. exact Hlb.
Qed.
End P.

(* without the lower-bound hypothesis pruning makes the result depend on the split *)
Theorem pruning_split_dependent :
  exists xs : list (item Z),
    run_tree Z Z.ltb (Leaf _ xs) = Some 10 /\ run_tree Z Z.ltb (Node _ (Leaf _ (firstn 1 xs)) (Leaf _ (skipn 1 xs))) = Some 5.
Proof. exists [mkItem Z (Some 10) 0; mkItem Z (Some 5) 20]. vm_compute. split; reflexivity. Qed.
