(* Proofs about Model/GoalCtx.v (C09): the order laws of every configured goal and of every goal context the code hands out
   (main, alternatives through maybe_new / get_alternatives), the coincidence with the REPORTED fitness vector, the goals of the
   pragmatic and scientific readers, the estimate functions. *)
From VRP Require Import Base.Tac Base.TotalCmp Model.CostOrder Model.InsCost Model.GoalCtx Proofs.CostOrderP Proofs.InsCostP.

(* ---------- layer comparators ---------- *)
Lemma strategy_cmp_is_dominance st fa fb : strategy_cmp st fa fb = multi_cmp fa fb.
Proof. destruct st; reflexivity. Qed.

Lemma layer_cmp_refl l s : layer_cmp l s s = Eq.
Proof. destruct l as [o|st os]; cbn [layer_cmp]; [apply single_cmp_refl|]. rewrite strategy_cmp_is_dominance. apply multi_cmp_refl. Qed.

Lemma layer_cmp_antisym l sa sb : layer_cmp l sa sb = CompOpp (layer_cmp l sb sa).
Proof.
  destruct l as [o|st os]; cbn [layer_cmp]; [apply single_cmp_antisym|]. rewrite !strategy_cmp_is_dominance. apply multi_cmp_antisym.
Qed.

Lemma gorder_refl g s : gorder g s s = Eq.
Proof. induction g as [|l g IH]; cbn [gorder]; [reflexivity|]. rewrite layer_cmp_refl. exact IH. Qed.

Lemma gorder_antisym g sa sb : gorder g sa sb = CompOpp (gorder g sb sa).
Proof.
  induction g as [|l g IH]; cbn [gorder]; [reflexivity|].
  rewrite (layer_cmp_antisym l sa sb). destruct (layer_cmp l sb sa); cbn [CompOpp]; auto.
Qed.

(* ---------- the order is a function of the reported fitness vectors, layer by layer in the reported order ---------- *)
Definition lshape (l : glayer) : layer := match l with GSingle _ => LSingle | GMulti _ os => LMulti (length os) end.

Lemma firstn_len_app {A} (l r : list A) : firstn (length l) (l ++ r) = l.
Proof. induction l as [|a l IH]; cbn; [reflexivity|]. rewrite IH. reflexivity. Qed.
Lemma skipn_len_app {A} (l r : list A) : skipn (length l) (l ++ r) = r.
Proof. induction l as [|a l IH]; cbn; [reflexivity|]. exact IH. Qed.

Lemma firstn_map_app {A B} (f : A -> B) os r : firstn (length os) (map f os ++ r) = map f os.
Proof. rewrite <- (map_length f os). apply firstn_len_app. Qed.
Lemma skipn_map_app {A B} (f : A -> B) os r : skipn (length os) (map f os ++ r) = r.
Proof. rewrite <- (map_length f os). apply skipn_len_app. Qed.

Lemma gorder_by_fitness g sa sb : gorder g sa sb = goal_cmp (map lshape g) (gfitness g sa) (gfitness g sb).
Proof.
  induction g as [|l g IH]; [reflexivity|].
  unfold gfitness in *. cbn [gorder map flat_map goal_cmp].
  destruct l as [o|st os]; cbn [lshape layer_cmp lobjs layer_width map app].
  - unfold getd. cbn [nth skipn]. destruct (single_cmp (ofit sa o) (ofit sb o)); auto.
  - rewrite strategy_cmp_is_dominance.
    rewrite !firstn_map_app, !skipn_map_app.
    destruct (multi_cmp (map (ofit sa) os) (map (ofit sb) os)); auto.
Qed.

(* the fitness vector lists the objectives of the layers in layer order; a layer contributes as many components as it has objectives *)
Lemma gfitness_cons l g s : gfitness (l :: g) s = map (ofit s) (lobjs l) ++ gfitness g s.
Proof. reflexivity. Qed.
Lemma gfitness_app g1 g2 s : gfitness (g1 ++ g2) s = gfitness g1 s ++ gfitness g2 s.
Proof. unfold gfitness. apply flat_map_app. Qed.
Lemma gfitness_length g s : length (gfitness g s) = length (flat_map lobjs g).
Proof.
  induction g as [|l g IH]; [reflexivity|]. rewrite gfitness_cons. cbn [flat_map]. rewrite !app_length, map_length, IH. reflexivity.
Qed.

(* ---------- goals of single-objective layers ---------- *)
Definition gsingle_only (g : goal) : Prop := Forall (fun l => exists o, l = GSingle o) g.

Lemma gsingle_shape g : gsingle_only g -> all_single (map lshape g).
Proof. induction 1 as [|l g [o ->] _ IH]; cbn [map lshape]; constructor; auto. Qed.

Lemma gfitness_single_length g s : gsingle_only g -> length (gfitness g s) = length g.
Proof. induction 1 as [|l g [o ->] _ IH]; [reflexivity|]. rewrite gfitness_cons. cbn. rewrite IH. reflexivity. Qed.

Lemma ofit_ok s o : Forall fbits_ok s -> fbits_ok (ofit s o).
Proof.
  intros Hs. destruct o as [i|]; cbn [ofit]; [|unfold fbits_ok, two64; lia].
  unfold getd. destruct (Nat.lt_ge_cases i (length s)).
  - rewrite Forall_forall in Hs. apply Hs, nth_In; assumption.
  - rewrite nth_overflow by assumption. unfold fbits_ok, two64; lia.
Qed.

Lemma gfitness_ok g s : Forall fbits_ok s -> Forall fbits_ok (gfitness g s).
Proof.
  intros Hs. induction g as [|l g IH]; [constructor|]. rewrite gfitness_cons. apply Forall_app. split; [|exact IH].
  apply Forall_forall. intros v Hv. apply in_map_iff in Hv. destruct Hv as (o & <- & _). apply ofit_ok, Hs.
Qed.

Lemma gorder_single_is_lex g : gsingle_only g -> forall sa sb, Forall fbits_ok sa -> Forall fbits_ok sb ->
  gorder g sa sb = lex_z (map zkey (gfitness g sa)) (map zkey (gfitness g sb)).
Proof.
  intros Hg sa sb Ha Hb. rewrite gorder_by_fitness.
  apply goal_single_is_lex.
  - apply gsingle_shape, Hg.
  - rewrite map_length. apply gfitness_single_length, Hg.
  - rewrite map_length. apply gfitness_single_length, Hg.
  - apply gfitness_ok, Ha.
  - apply gfitness_ok, Hb.
Qed.

Lemma gorder_single_trans g : gsingle_only g -> forall c sa sb sc,
  Forall fbits_ok sa -> Forall fbits_ok sb -> Forall fbits_ok sc ->
  gorder g sa sb = c -> gorder g sb sc = c -> gorder g sa sc = c.
Proof.
  intros Hg c sa sb sc Ha Hb Hc. rewrite !gorder_by_fitness.
  apply goal_single_trans.
  - apply gsingle_shape, Hg.
  - rewrite map_length. apply gfitness_single_length, Hg.
  - rewrite map_length. apply gfitness_single_length, Hg.
  - rewrite map_length. apply gfitness_single_length, Hg.
  - apply gfitness_ok, Ha.
  - apply gfitness_ok, Hb.
  - apply gfitness_ok, Hc.
Qed.

(* total: Eq-compatibility (equal solutions compare alike with every third one) *)
Lemma lex_z_eq_compat x y z : length x = length y -> length y = length z -> lex_z x y = Eq -> lex_z x z = lex_z y z.
Proof.
  revert y z; induction x as [|a x IH]; intros [|b y] [|d z]; try discriminate; cbn [lex_z]; try reflexivity.
  intros L1 L2. destruct (a ?= b) eqn:E; try discriminate. intros H.
  rewrite (Zcompare_eq_l _ _ _ E). destruct (b ?= d); try reflexivity. apply IH; cbn in *; auto; lia.
Qed.

Lemma gorder_single_eq_compat g : gsingle_only g -> forall sa sb sc,
  Forall fbits_ok sa -> Forall fbits_ok sb -> Forall fbits_ok sc ->
  gorder g sa sb = Eq -> gorder g sa sc = gorder g sb sc.
Proof.
  intros Hg sa sb sc Ha Hb Hc. rewrite !(gorder_single_is_lex g Hg) by assumption.
  apply lex_z_eq_compat; rewrite !map_length, !gfitness_single_length by assumption; reflexivity.
Qed.

(* ---------- multi-objective layers: what is and what is not transitive ---------- *)
Lemma tc_le_trans x y z : total_cmp x y <> Gt -> total_cmp y z <> Gt -> total_cmp x z <> Gt.
Proof.
  unfold total_cmp. destruct (Z.compare_spec (key x) (key y)), (Z.compare_spec (key y) (key z)), (Z.compare_spec (key x) (key z));
    intros; try congruence; lia.
Qed.
Lemma tc_lt_le_trans x y z : total_cmp x y = Lt -> total_cmp y z <> Gt -> total_cmp x z = Lt.
Proof.
  unfold total_cmp. destruct (Z.compare_spec (key x) (key y)), (Z.compare_spec (key y) (key z)), (Z.compare_spec (key x) (key z));
    intros; try congruence; lia.
Qed.
Lemma tc_le_lt_trans x y z : total_cmp x y <> Gt -> total_cmp y z = Lt -> total_cmp x z = Lt.
Proof.
  unfold total_cmp. destruct (Z.compare_spec (key x) (key y)), (Z.compare_spec (key y) (key z)), (Z.compare_spec (key x) (key z));
    intros; try congruence; lia.
Qed.

Lemma no_gt_trans a : forall b c, length a = length b -> length b = length c ->
  ~ In Gt (map2 total_cmp a b) -> ~ In Gt (map2 total_cmp b c) -> ~ In Gt (map2 total_cmp a c).
Proof.
  induction a as [|x a IH]; intros [|y b] [|z c] L1 L2; try discriminate; cbn [map2 In]; [tauto|].
  intros H1 H2 [E|I].
  - apply (tc_le_trans x y z); [intros F; apply H1; left; exact F|intros F; apply H2; left; exact F|exact E].
  - apply (IH b c); cbn in *; try lia; try tauto.
Qed.

Lemma some_lt_trans a : forall b c, length a = length b -> length b = length c ->
  ~ In Gt (map2 total_cmp a b) -> ~ In Gt (map2 total_cmp b c) ->
  In Lt (map2 total_cmp a b) \/ In Lt (map2 total_cmp b c) -> In Lt (map2 total_cmp a c).
Proof.
  induction a as [|x a IH]; intros [|y b] [|z c] L1 L2; try discriminate; cbn [map2 In]; [tauto|].
  intros H1 H2 [[E|I]|[E|I]].
  - left. apply (tc_lt_le_trans x y z); [exact E|intros F; apply H2; left; exact F].
  - right. apply (IH b c); cbn in *; try lia; tauto.
  - left. apply (tc_le_lt_trans x y z); [intros F; apply H1; left; exact F|exact E].
  - right. apply (IH b c); cbn in *; try lia; tauto.
Qed.

Lemma count_c_pos c os : (0 < count_c c os)%nat <-> In c os.
Proof.
  unfold count_c. induction os as [|o os IH]; cbn [filter length In]; [split; [lia|tauto]|].
  destruct o, c; cbn [length]; rewrite ?IH; split; intros; try lia; try tauto;
    try (right; tauto); try (destruct H as [H|H]; [discriminate|tauto]).
Qed.

Lemma dominance_lt_iff os : dominance os = Lt <-> In Lt os /\ ~ In Gt os.
Proof.
  unfold dominance. rewrite <- !count_c_pos.
  destruct (count_c Lt os) as [|l], (count_c Gt os) as [|g]; cbn; split; intros; try discriminate; try lia; auto;
    try (split; lia).
Qed.

Lemma dominance_gt_iff os : dominance os = Gt <-> In Gt os /\ ~ In Lt os.
Proof.
  unfold dominance. rewrite <- !count_c_pos.
  destruct (count_c Lt os) as [|l], (count_c Gt os) as [|g]; cbn; split; intros; try discriminate; try lia; auto;
    try (split; lia).
Qed.

(* Pareto dominance is transitive, also through a tie-free "not worse" step *)
Lemma multi_cmp_lt_trans a b c : length a = length b -> length b = length c ->
  multi_cmp a b = Lt -> multi_cmp b c = Lt -> multi_cmp a c = Lt.
Proof.
  unfold multi_cmp. rewrite !dominance_lt_iff. intros L1 L2 [A1 A2] [B1 B2]. split.
  - apply (some_lt_trans a b c); auto.
  - apply (no_gt_trans a b c); auto.
Qed.

Lemma multi_cmp_gt_trans a b c : length a = length b -> length b = length c ->
  multi_cmp a b = Gt -> multi_cmp b c = Gt -> multi_cmp a c = Gt.
Proof.
  intros L1 L2 H1 H2.
  rewrite multi_cmp_antisym in H1, H2. rewrite multi_cmp_antisym.
  assert (E1 : multi_cmp b a = Lt) by (destruct (multi_cmp b a); cbn in H1; congruence).
  assert (E2 : multi_cmp c b = Lt) by (destruct (multi_cmp c b); cbn in H2; congruence).
  rewrite (multi_cmp_lt_trans c b a); auto.
Qed.

(* a layer over ONE objective is plain total_cmp: a total order on bit patterns that keeps -0.0 below +0.0 (add_single merges them) *)
Lemma strategy_cmp_one st a b : strategy_cmp st [a] [b] = total_cmp a b.
Proof.
  rewrite strategy_cmp_is_dominance. unfold multi_cmp, dominance, count_c. cbn [map2 filter].
  destruct (total_cmp a b); reflexivity.
Qed.

Lemma multi_layer_of_one_objective_separates_zeros :
  layer_cmp (GMulti SSum [OFeat 0]) [NEG_ZERO] [0] = Lt /\ layer_cmp (GSingle (OFeat 0)) [NEG_ZERO] [0] = Eq.
Proof. vm_compute. auto. Qed.

(* a goal with a layer of two objectives followed by another layer has a strict cycle: a < b < c < a *)
Lemma goal_with_multi_layer_cycle :
  let g := [GMulti SSum [OFeat 0; OFeat 1]; GSingle (OFeat 2)] in
  let a := [1; 3; 2] in let b := [0; 5; 3] in let c := [0; 6; 1] in
  gorder g a b = Lt /\ gorder g b c = Lt /\ gorder g c a = Lt.
Proof. vm_compute. auto. Qed.

(* ---------- goal contexts: main goal, alternatives, maybe_new, get_alternatives ---------- *)
Lemma ctx_total_order_refl c s : ctx_total_order c s s = Eq.
Proof. apply gorder_refl. Qed.
Lemma ctx_total_order_antisym c sa sb : ctx_total_order c sa sb = CompOpp (ctx_total_order c sb sa).
Proof. apply gorder_antisym. Qed.

Lemma maybe_new_no_hit c d : maybe_new c false d = GOk c.
Proof. unfold maybe_new. destruct (calts c); reflexivity. Qed.

Lemma maybe_new_hit c d g : nth_error (calts c) d = Some g -> maybe_new c true d = GOk {| cgoal := g; calts := calts c |}.
Proof.
  intros H. unfold maybe_new, get_alternative. rewrite H. destruct (calts c) eqn:E; [destruct d; discriminate|reflexivity].
Qed.

Lemma maybe_new_hit_out_of_range c d : calts c <> [] -> (length (calts c) <= d)%nat -> maybe_new c true d = GErr E_INDEX.
Proof.
  intros Hne H. unfold maybe_new, get_alternative. apply nth_error_None in H. rewrite H. destruct (calts c); congruence.
Qed.

Lemma get_alternative_goal c i c' : get_alternative c i = GOk c' -> calts c' = calts c /\ nth_error (calts c) i = Some (cgoal c').
Proof. unfold get_alternative. destruct (nth_error (calts c) i) eqn:E; intros H; inversion H; subst; cbn; auto. Qed.

Lemma maybe_new_goal c hit d c' : maybe_new c hit d = GOk c' ->
  calts c' = calts c /\ (cgoal c' = cgoal c \/ In (cgoal c') (calts c)).
Proof.
  unfold maybe_new. destruct (calts c) eqn:E.
  - intros H; inversion H; subst. auto.
  - destruct hit.
    + intros H. apply get_alternative_goal in H. rewrite E in H. destruct H as [H1 H2]. split; [congruence|].
      right. rewrite <- E. apply nth_error_In in H2. rewrite E. exact H2.
    + intros H; inversion H; subst. rewrite E. auto.
Qed.

Lemma follow_goal p : forall c c', follow c p = GOk c' ->
  calts c' = calts c /\ (cgoal c' = cgoal c \/ In (cgoal c') (calts c)).
Proof.
  induction p as [|[hit d] p IH]; intros c c'; cbn [follow].
  - intros H; inversion H; subst. auto.
  - destruct (maybe_new c hit d) as [c1|e] eqn:E; cbn [gbind]; [|discriminate].
    intros H. apply IH in H. apply maybe_new_goal in E. destruct H as [H1 H2], E as [E1 E2].
    split; [congruence|]. rewrite E1 in H2. destruct H2 as [H2|H2]; [|right; exact H2].
    rewrite H2. exact E2.
Qed.

(* get_alternatives lists exactly the contexts get_alternative (hence maybe_new with a hit) hands out, in index order *)
Lemma get_alternatives_nth c i :
  nth_error (get_alternatives c) i = match get_alternative c i with GOk c' => Some c' | GErr _ => None end.
Proof. unfold get_alternatives, get_alternative. rewrite nth_error_map. destruct (nth_error (calts c) i); reflexivity. Qed.

Lemma get_alternatives_length c : length (get_alternatives c) = length (calts c).
Proof. unfold get_alternatives. apply map_length. Qed.

Lemma get_alternatives_goals c : map cgoal (get_alternatives c) = calts c /\ Forall (fun c' => calts c' = calts c) (get_alternatives c).
Proof.
  unfold get_alternatives. split.
  - rewrite map_map. cbn. apply map_id.
  - apply Forall_forall. intros c' H. apply in_map_iff in H. destruct H as (g & <- & _). reflexivity.
Qed.

Definition ctx_single_only (c : gctx) : Prop := gsingle_only (cgoal c) /\ Forall gsingle_only (calts c).

Lemma follow_single_only c p c' : ctx_single_only c -> follow c p = GOk c' -> ctx_single_only c'.
Proof.
  intros [Hm Ha] H. apply follow_goal in H. destruct H as [H1 [H2|H2]]; split; rewrite ?H1, ?H2; auto.
  rewrite Forall_forall in Ha. apply Ha, H2.
Qed.

(* every context reachable through maybe_new orders by ITS goal and reports ITS fitness: lexicographic coincidence and the
   total-preorder laws for the alternatives as well *)
Lemma ctx_follow_is_lex c p c' : ctx_single_only c -> follow c p = GOk c' ->
  forall sa sb, Forall fbits_ok sa -> Forall fbits_ok sb ->
  ctx_total_order c' sa sb = lex_z (map zkey (ctx_fitness c' sa)) (map zkey (ctx_fitness c' sb)).
Proof.
  intros Hc H sa sb Ha Hb. destruct (follow_single_only c p c' Hc H) as [Hm _].
  apply gorder_single_is_lex; assumption.
Qed.

Lemma ctx_follow_trans c p c' : ctx_single_only c -> follow c p = GOk c' ->
  forall o sa sb sc, Forall fbits_ok sa -> Forall fbits_ok sb -> Forall fbits_ok sc ->
  ctx_total_order c' sa sb = o -> ctx_total_order c' sb sc = o -> ctx_total_order c' sa sc = o.
Proof.
  intros Hc H o sa sb sc Ha Hb Hcc. destruct (follow_single_only c p c' Hc H) as [Hm _].
  apply gorder_single_trans; assumption.
Qed.

(* ---------- builders: which goals are made of single layers ---------- *)
Lemma goal_build_ok ls g : goal_build ls = GOk g -> g = ls /\ ls <> [].
Proof. destruct ls; cbn; intros H; inversion H; subst; split; congruence. Qed.

Lemma subset_layers_single fs names : forall ls, subset_layers fs names = GOk ls -> gsingle_only ls /\ length ls = length names.
Proof.
  induction names as [|n ns IH]; cbn [subset_layers]; intros ls H.
  - inversion H; subst. split; [constructor|reflexivity].
  - destruct (find_feat fs n) as [f|]; [|discriminate]. destruct (fobj f) as [o|]; [|discriminate].
    destruct (subset_layers fs ns) as [ls'|e]; cbn [gbind] in H; [|discriminate].
    inversion H; subst. destruct (IH ls' eq_refl) as [I1 I2]. split; [constructor; eauto|cbn; lia].
Qed.

Lemma goal_subset_of_single fs names g : goal_subset_of fs names = GOk g -> gsingle_only g /\ length g = length names.
Proof.
  unfold goal_subset_of. destruct (subset_layers fs names) as [ls|e] eqn:E; cbn [gbind]; [|discriminate].
  intros H. apply goal_build_ok in H. destruct H as [-> _]. apply subset_layers_single in E. exact E.
Qed.

Lemma goal_simple_single fs g : goal_simple fs = GOk g -> gsingle_only g.
Proof. unfold goal_simple. intros H. apply goal_subset_of_single in H. tauto. Qed.

Lemma heuristic_goal_single fs g : heuristic_goal fs = GOk g -> gsingle_only g.
Proof. unfold heuristic_goal. destruct (obj_names fs); [discriminate|]. intros H. apply goal_subset_of_single in H. tauto. Qed.

Definition builder_single_only (b : builder) : Prop :=
  (forall g, bmain b = Some g -> gsingle_only g) /\ Forall gsingle_only (balts b).

Lemma with_features_single fs b : with_features fs = GOk b -> builder_single_only b.
Proof.
  unfold with_features. destruct (negb (names_nodup (map fname fs))); [discriminate|].
  destruct (goal_simple fs) as [g|e] eqn:E1; cbn [gbind]; [|discriminate].
  destruct (heuristic_goal fs) as [h|e] eqn:E2; cbn [gbind]; [|discriminate].
  intros H; inversion H; subst. split; cbn.
  - intros g' Hg; inversion Hg; subst. eapply goal_simple_single; eauto.
  - constructor; [eapply heuristic_goal_single; eauto|constructor].
Qed.

Lemma set_main_goal_single b g : builder_single_only b -> gsingle_only g -> builder_single_only (set_main_goal b g).
Proof. intros [H1 H2] Hg. split; cbn; [intros g' E; inversion E; subst; exact Hg|exact H2]. Qed.

Lemma add_alternative_goal_single b g : builder_single_only b -> gsingle_only g -> builder_single_only (add_alternative_goal b g).
Proof. intros [H1 H2] Hg. split; cbn; [exact H1|]. apply Forall_app. split; [exact H2|constructor; [exact Hg|constructor]]. Qed.

Lemma build_single b c : builder_single_only b -> build b = GOk c -> ctx_single_only c.
Proof.
  intros [H1 H2]. unfold build. destruct (bmain b) as [g|] eqn:E; [|discriminate].
  intros H; inversion H; subst. split; cbn; auto.
Qed.

(* a context built by with_features alone (the default of GoalContextBuilder) *)
Lemma default_ctx_single fs b c : with_features fs = GOk b -> build b = GOk c -> ctx_single_only c.
Proof. intros H1 H2. eapply build_single; eauto using with_features_single. Qed.

(* ---------- vrp-scientific ---------- *)
Lemma sci_goal_context_value :
  sci_goal_context true = GOk {| cgoal := [GSingle (OFeat 0); GSingle (OFeat 1); GSingle (OFeat 2)];
                                 calts := [[GSingle (OFeat 0); GSingle OKnownEdge; GSingle (OFeat 1); GSingle (OFeat 2)];
                                           [GSingle (OFeat 0); GSingle (OFeat 2)]] |} /\
  sci_goal_context false = GOk {| cgoal := [GSingle (OFeat 0); GSingle (OFeat 2)];
                                  calts := [[GSingle (OFeat 0); GSingle OKnownEdge; GSingle (OFeat 1); GSingle (OFeat 2)];
                                            [GSingle (OFeat 0); GSingle (OFeat 1); GSingle (OFeat 2)]] |}.
Proof. vm_compute. auto. Qed.

Lemma sci_goal_context_single p : exists c, sci_goal_context p = GOk c /\ ctx_single_only c.
Proof.
  destruct sci_goal_context_value as [H1 H2].
  destruct p; eexists; (split; [eassumption|]); split; cbn; repeat constructor; eauto.
Qed.

(* ---------- vrp-pragmatic goal_reader ---------- *)
Lemma map_ofit_feat s k n : map (ofit s) (map OFeat (seq k n)) = map (getd s) (seq k n).
Proof. rewrite map_map. reflexivity. Qed.

(* the main goal of the reader reports the objectives in document order: component j is objective j of the state vector *)
Lemma read_layers_fitness objs : forall k fs ls, read_layers objs k = GOk (fs, ls) ->
  forall s, gfitness ls s = map (getd s) (seq k (length (flat_map lobjs ls))).
Proof.
  induction objs as [|o objs IH]; intros k fs ls H s.
  - cbn in H. inversion H; subst. reflexivity.
  - destruct o as [t|st inner]; cbn [read_layers] in H.
    + destruct (read_layers objs (S k)) as [[fs' ls']|e] eqn:E; cbn [gbind] in H; [|discriminate].
      inversion H; subst. cbn [fst snd]. rewrite gfitness_cons. cbn [lobjs map ofit flat_map app length seq].
      rewrite (IH (S k) fs' ls' E). reflexivity.
    + destruct (inner_tags inner) as [|t0 ts] eqn:Et; [discriminate|].
      destruct (negb (existsb tag_has_aux (t0 :: ts))); [discriminate|].
      destruct (negb _); [discriminate|].
      destruct (read_layers objs (k + length (t0 :: ts))) as [[fs' ls']|e] eqn:E; cbn [gbind] in H; [|discriminate].
      inversion H; subst. cbn [fst snd]. rewrite gfitness_cons. cbn [lobjs flat_map].
      change (OFeat k :: map OFeat (seq (S k) (length ts))) with (map OFeat (seq k (length (t0 :: ts)))).
      rewrite map_ofit_feat, (IH _ fs' ls' E), app_length, map_length, seq_length, seq_app, map_app. reflexivity.
Qed.

Lemma read_goal_main objs hv c : read_goal objs hv = GOk c ->
  exists fs ls, read_layers (match objs with Some o => o | None => default_objectives hv end) 0 = GOk (fs, ls) /\ cgoal c = ls /\
                Forall gsingle_only (calts c).
Proof.
  unfold read_goal. set (os := match objs with Some o => o | None => default_objectives hv end).
  destruct (existsb has_nested os); [discriminate|].
  destruct (read_layers os 0) as [[fs ls]|e] eqn:E; cbn [gbind]; [|discriminate].
  destruct (with_features (fst (fs, ls) ++ [capacity_feat])) as [b|e] eqn:Eb; cbn [gbind]; [|discriminate].
  destruct (goal_build (snd (fs, ls))) as [g|e] eqn:Eg; cbn [gbind]; [|discriminate].
  intros H. exists fs, ls. split; [reflexivity|].
  apply goal_build_ok in Eg. destruct Eg as [-> _]. cbn [snd] in *.
  apply with_features_single in Eb. destruct Eb as [_ Ha].
  unfold build, set_main_goal in H. cbn in H. inversion H; subst. cbn. auto.
Qed.

Lemma read_goal_main_fitness objs hv c : read_goal objs hv = GOk c ->
  exists n, forall s, ctx_fitness c s = map (getd s) (seq 0 n).
Proof.
  intros H. apply read_goal_main in H. destruct H as (fs & ls & E & Hc & _).
  exists (length (flat_map lobjs ls)). intros s. unfold ctx_fitness. rewrite Hc. apply (read_layers_fitness _ 0 fs ls E).
Qed.

(* documents without a multi-objective: the main goal consists of single layers *)
Definition plain_objective (o : pobjective) : Prop := exists t, o = PObj t.

Lemma read_layers_plain objs : Forall plain_objective objs -> forall k fs ls, read_layers objs k = GOk (fs, ls) -> gsingle_only ls.
Proof.
  induction 1 as [|o objs [t ->] _ IH]; intros k fs ls H.
  - cbn in H. inversion H; subst. constructor.
  - cbn [read_layers] in H. destruct (read_layers objs (S k)) as [[fs' ls']|e] eqn:E; cbn [gbind] in H; [|discriminate].
    inversion H; subst. constructor; [eexists; reflexivity|exact (IH _ _ _ E)].
Qed.

Lemma default_objectives_plain hv : Forall plain_objective (default_objectives hv).
Proof. destruct hv; cbn; repeat constructor; unfold plain_objective; eauto. Qed.

Lemma read_goal_plain_single objs hv c :
  Forall plain_objective (match objs with Some o => o | None => default_objectives hv end) ->
  read_goal objs hv = GOk c -> ctx_single_only c.
Proof.
  intros Hp H. apply read_goal_main in H. destruct H as (fs & ls & E & Hc & Ha).
  split; [|exact Ha]. rewrite Hc. eapply read_layers_plain; eauto.
Qed.

(* every alternative of a context of the reader consists of single layers, whatever the main goal is *)
Lemma read_goal_alternatives_single objs hv c : read_goal objs hv = GOk c -> Forall gsingle_only (calts c).
Proof. intros H. apply read_goal_main in H. destruct H as (_ & _ & _ & _ & Ha). exact Ha. Qed.

(* ---------- estimates ---------- *)
Lemma gestimate_length g e : forall v, gestimate g e = Some v -> length v = length g.
Proof.
  induction g as [|l g IH]; cbn [gestimate]; intros v H; [inversion H; reflexivity|].
  destruct (layer_est l e); [|discriminate]. destruct (gestimate g e) as [r|]; [|discriminate].
  inversion H; subst. cbn. rewrite (IH r eq_refl). reflexivity.
Qed.

(* for single layers the estimate has the shape of the fitness: component i is what objective i of the goal estimates *)
Lemma gestimate_single_only g e : gsingle_only g -> gestimate g e = Some (gfitness g e).
Proof.
  induction 1 as [|l g [o ->] _ IH]; [reflexivity|]. cbn [gestimate layer_est]. rewrite IH. rewrite gfitness_cons.
  destruct o; reflexivity.
Qed.

Definition weights_ok (l : glayer) : Prop :=
  match l with GMulti (SWeightedSum ws) os => (length os <= length ws)%nat | _ => True end.

Lemma layer_est_total l e : weights_ok l -> layer_est l e <> None.
Proof.
  destruct l as [o|[|ws] os]; cbn [layer_est strategy_est weights_ok]; try discriminate.
  intros H. rewrite map_length. destruct (length ws <? length os)%nat eqn:E; [lia|discriminate].
Qed.

Lemma gestimate_total g e : Forall weights_ok g -> gestimate g e <> None.
Proof.
  induction 1 as [|l g Hl _ IH]; cbn [gestimate]; [discriminate|].
  pose proof (layer_est_total l e Hl). destruct (layer_est l e); [|congruence]. destruct (gestimate g e); [discriminate|congruence].
Qed.

Lemma gsingle_weights_ok g : gsingle_only g -> Forall weights_ok g.
Proof. induction 1 as [|l g [o ->] _ IH]; constructor; [exact I|exact IH]. Qed.

Lemma read_layers_weights_ok objs : forall k fs ls, read_layers objs k = GOk (fs, ls) -> Forall weights_ok ls.
Proof.
  induction objs as [|o objs IH]; intros k fs ls H.
  - cbn in H. inversion H; subst. constructor.
  - destruct o as [t|st inner]; cbn [read_layers] in H.
    + destruct (read_layers objs (S k)) as [[fs' ls']|e] eqn:E; cbn [gbind] in H; [|discriminate].
      inversion H; subst. constructor; [exact I|eauto].
    + destruct (inner_tags inner) as [|t0 ts] eqn:Et; [discriminate|].
      destruct (negb (existsb tag_has_aux (t0 :: ts))); [discriminate|].
      destruct st as [|ws].
      * cbn [negb] in H.
        destruct (read_layers objs (k + length (t0 :: ts))) as [[fs' ls']|e] eqn:E; cbn [gbind] in H; [|discriminate].
        inversion H; subst. constructor; [exact I|eauto].
      * destruct (length ws =? length (t0 :: ts))%nat eqn:Ew; cbn [negb] in H; [|discriminate].
        destruct (read_layers objs (k + length (t0 :: ts))) as [[fs' ls']|e] eqn:E; cbn [gbind] in H; [|discriminate].
        inversion H; subst. constructor; [|eauto].
        change (OFeat k :: map OFeat (seq (S k) (length ts))) with (map OFeat (seq k (length (t0 :: ts)))).
        cbn [weights_ok]. rewrite map_length, seq_length. apply Nat.eqb_eq in Ew. lia.
Qed.

(* no context handed out for a document the reader accepts can panic inside estimate (weights[idx]) *)
Lemma read_goal_estimate_total objs hv c : read_goal objs hv = GOk c ->
  forall p c' e, follow c p = GOk c' -> ctx_estimate c' e <> None.
Proof.
  intros H p c' e Hf. apply read_goal_main in H. destruct H as (fs & ls & E & Hc & Ha).
  apply follow_goal in Hf. destruct Hf as [_ Hg]. unfold ctx_estimate. apply gestimate_total.
  destruct Hg as [Hg|Hg].
  - rewrite Hg, Hc. eapply read_layers_weights_ok; eauto.
  - rewrite Forall_forall in Ha. apply gsingle_weights_ok, Ha, Hg.
Qed.

(* a `sum` layer over one objective estimates exactly what a single layer does (the f64 sum starts from -0.0) *)
Lemma strategy_est_sum_one a : f64_ok a -> strategy_est SSum [a] = Some a.
Proof. intros H. cbn [strategy_est]. unfold f64_sum. cbn [fold_left]. rewrite f64_negzero_add by exact H. reflexivity. Qed.

(* and a `sum` layer over nothing estimates -0.0, which is below the +0.0 of a missing component *)
Lemma strategy_est_sum_empty : strategy_est SSum [] = Some NEG_ZERO /\ icost_cmp [NEG_ZERO] [] = Lt.
Proof. vm_compute. auto. Qed.

(* a missing weight is an index panic *)
Lemma strategy_est_missing_weight ws es : (length ws < length es)%nat -> strategy_est (SWeightedSum ws) es = None.
Proof. intros H. cbn [strategy_est]. apply Nat.ltb_lt in H. rewrite H. reflexivity. Qed.

(* ---------- non-vacuity of the hypotheses used in Properties/C09.v ---------- *)
Lemma nonvacuous_contexts :
  (exists c, read_goal None true = GOk c /\ ctx_single_only c) /\
  (exists c c', read_goal (Some [PMulti (SWeightedSum [1; 2]) [IObj 0; IObj 3]; PObj 6]) false = GOk c /\
                follow c [(true, 0%nat)] = GOk c' /\ cgoal c' <> cgoal c) /\
  (exists g, gsingle_only g /\ g <> []) /\ Forall f64_ok [0; NEG_ZERO; F64_MAX; POS_INF; 1].
Proof.
  split; [|split; [|split]].
  - eexists. split; [vm_compute; reflexivity|]. split; cbn; repeat constructor; eauto.
  - eexists. eexists. split; [vm_compute; reflexivity|]. split; [vm_compute; reflexivity|]. cbn. discriminate.
  - exists [GSingle OKnownEdge]. split; [repeat constructor; eauto|discriminate].
  - repeat constructor; vm_compute; try reflexivity; intuition discriminate.
Qed.
