(* Proofs about Model/GoalCtx.v (C09). *)
From VRP Require Import Base.Tac Base.TotalCmp Model.CostOrder Model.GoalCtx Proofs.CostOrderP.
