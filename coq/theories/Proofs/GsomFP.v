(* C19 — facts about the bit-exact float twin of the numeric GSOM model (Model/GsomF.v = Model/GsomW.v at IEEE binary64), proved
   through Flocq's bridge Prim2B (toolkit of Proofs/SlotFloatP.v: add_iv / sub_iv / mul_iv / div_iv / sqrt_ok / leb_abs_bound ...):
   finiteness of Node::adjust, of the normalisation and of the euclidian distance under explicit bounds; witnesses (vm_compute)
   that finiteness fails for finite inputs next to f64::MAX.  Depends on the standard library's classical real-number statements
   and on the primitive float specification (FloatAxioms), as Properties/C18.v; declares nothing itself. *)
From Coq Require Import ZArith Reals Floats Lia Lra List Psatz Bool.
From Flocq Require Import Core.Core IEEE754.BinarySingleNaN IEEE754.PrimFloat Plus_error.
From VRP Require Import Model.Gsom Model.SlotF Model.GsomW Model.GsomF Proofs.SlotFloatP.
Import ListNotations.
Local Open Scope R_scope.

(* ---------- constants and small facts ---------- *)
Lemma FR_p1021 : FR 0x1p1021%float = bp2 1021. Proof. apply (FR_pow2 0x1p1021%float 1021). reflexivity. Qed.
Lemma Ffin_p1021 : Ffin 0x1p1021%float. Proof. apply (Ffin_pow2 0x1p1021%float 1021). reflexivity. Qed.
Lemma FR_p1022 : FR 0x1p1022%float = bp2 1022. Proof. apply (FR_pow2 0x1p1022%float 1022). reflexivity. Qed.
Lemma Ffin_p1022 : Ffin 0x1p1022%float. Proof. apply (Ffin_pow2 0x1p1022%float 1022). reflexivity. Qed.
Lemma FR_nzero : FR (-0)%float = 0.
Proof. rewrite (FR_SF (-0)%float (S754_zero true) eq_refl). reflexivity. Qed.
Lemma Ffin_nzero : Ffin (-0)%float. Proof. eapply Ffin_SF; [vm_compute; reflexivity | reflexivity]. Qed.

Lemma bp2_pos e : 0 < bp2 e. Proof. apply bpow_gt_0. Qed.
Lemma bp2_S e : bp2 (e + 1) = 2 * bp2 e.
Proof. rewrite bpow_plus. simpl (bp2 1). lra. Qed.

(* 0 <= x <= c (as floats, c finite) forces x finite *)
Lemma between_fin x c : Ffin c -> (0 <=? x)%float = true -> (x <=? c)%float = true -> Ffin x /\ 0 <= FR x <= FR c.
Proof.
  intros Hc H0 H1.
  assert (Hx : Ffin x).
  { unfold Ffin in *. pose proof H0 as G0. pose proof H1 as G1. rewrite leb_equiv in G0, G1.
    change 0%float with zero in G0. rewrite zero_equiv, Prim2B_B2Prim in G0.
    destruct (Prim2B x) as [sx|sx| |sx mx ex Bx] eqn:Ex; try reflexivity.
    - destruct sx; [cbv in G0; discriminate|].
      destruct (Prim2B c) as [sc|sc| |sc mc ec Bc]; try discriminate; cbv in G1; discriminate.
    - cbv in G0. discriminate. }
  split; auto. split.
  - rewrite <- FR_0. apply leb_real; auto. apply Ffin_0.
  - apply leb_real; auto.
Qed.

Lemma FR_p1023 : FR 0x1p1023%float = bp2 1023. Proof. apply (FR_pow2 0x1p1023%float 1023). reflexivity. Qed.
Lemma Ffin_p1023 : Ffin 0x1p1023%float. Proof. apply (Ffin_pow2 0x1p1023%float 1023). reflexivity. Qed.
Lemma bp2_1022 : bp2 1022 = 2 * bp2 1021. Proof. change 1022%Z with (1021 + 1)%Z. apply bp2_S. Qed.
Lemma bp2_1023 : bp2 1023 = 4 * bp2 1021. Proof. change 1023%Z with (1022 + 1)%Z. rewrite bp2_S, bp2_1022. lra. Qed.
Lemma Big_1021 : Big = 8 * bp2 1021.
Proof. unfold Big. change 1024%Z with (1023 + 1)%Z. rewrite bp2_S, bp2_1023. lra. Qed.

Lemma abs_bound_iv x c : Ffin c -> (abs x <=? c)%float = true -> Ffin x /\ - FR c <= FR x <= FR c.
Proof.
  intros Hc H. destruct (leb_abs_bound x c Hc H) as [Hx Hb]. split; auto.
  unfold Rabs in Hb. destruct (Rcase_abs (FR x)); lra.
Qed.

(* ---------- Node::adjust: w + rate * (target - w) is finite for |w|, |target| <= 2^1021 and 0 <= rate <= 1 ---------- *)
Lemma adjust1_real lr w v : Ffin w -> Ffin v -> Ffin lr ->
  - bp2 1021 <= FR w <= bp2 1021 -> - bp2 1021 <= FR v <= bp2 1021 -> 0 <= FR lr <= 1 ->
  Ffin (adjust1 FN lr w v) /\ - bp2 1023 <= FR (adjust1 FN lr w v) <= bp2 1023.
Proof.
  intros Hw Hv Hl Bw Bv Bl. unfold adjust1. cbn [n_add n_mul n_sub FN].
  pose proof (bp2_pos 1021) as P. pose proof bp2_1022 as E2. pose proof bp2_1023 as E3. pose proof Big_1021 as EB.
  destruct (sub_iv v w (- bp2 1022) (bp2 1022)) as (Hd & _ & Bd); auto;
    try (apply fmt_opp); try (apply fmt_bpow; lia); try lra.
  destruct (mul_iv lr (v - w)%float (- bp2 1022) (bp2 1022)) as (Hp & _ & Bp); auto;
    try (apply fmt_opp); try (apply fmt_bpow; lia); try lra.
  { split; nra. }
  destruct (add_iv w (lr * (v - w))%float (- bp2 1023) (bp2 1023)) as (Hr & _ & Br); auto;
    try (apply fmt_opp); try (apply fmt_bpow; lia); try lra.
Qed.

Theorem float_adjust1_finite lr w v :
  (abs w <=? 0x1p1021)%float = true -> (abs v <=? 0x1p1021)%float = true -> (0 <=? lr)%float = true -> (lr <=? 1)%float = true ->
  PrimFloat.is_finite (adjust1 FN lr w v) = true /\ (abs (adjust1 FN lr w v) <=? 0x1p1023)%float = true.
Proof.
  intros Hw Hv H0 H1.
  destruct (abs_bound_iv w _ Ffin_p1021 Hw) as [Fw Bw]. destruct (abs_bound_iv v _ Ffin_p1021 Hv) as [Fv Bv].
  destruct (between_fin lr 1%float Ffin_1 H0 H1) as [Fl Bl]. rewrite FR_p1021 in *. rewrite FR_1 in Bl.
  destruct (adjust1_real lr w v Fw Fv Fl Bw Bv Bl) as [Fr Br]. split.
  - apply is_finite_Ffin; auto.
  - apply leb_real; [apply Ffin_abs; auto | exact Ffin_p1023 |]. rewrite FR_abs, FR_p1023.
    unfold Rabs. destruct (Rcase_abs _); lra.
Qed.

(* the whole weight vector *)
Theorem float_adjust_finite : forall (w t : list PrimFloat.float) (lr : PrimFloat.float),
  Forall (fun x => (abs x <=? 0x1p1021)%float = true) w -> Forall (fun x => (abs x <=? 0x1p1021)%float = true) t ->
  (0 <=? lr)%float = true -> (lr <=? 1)%float = true ->
  Forall (fun x => PrimFloat.is_finite x = true /\ (abs x <=? 0x1p1023)%float = true) (adjust FN w t lr).
Proof.
  intros w t lr Hw; revert t; induction Hw as [|x w Hx Hw IH]; intros t Ht H0 H1; unfold adjust in *.
  - destruct t; constructor.
  - destruct t as [|y t]; [constructor|]. inversion Ht; subst. cbn [map2]. constructor; [|apply IH; auto].
    apply float_adjust1_finite; auto.
Qed.

(* ---------- normalisation and euclidian distance ---------- *)
Lemma between_fin2 lo x hi : Ffin lo -> Ffin hi -> (lo <=? x)%float = true -> (x <=? hi)%float = true ->
  Ffin x /\ FR lo <= FR x <= FR hi.
Proof.
  intros Hlo Hhi H0 H1.
  assert (Hx : Ffin x).
  { unfold Ffin in *. pose proof H0 as G0. pose proof H1 as G1. rewrite leb_equiv in G0, G1.
    destruct (Prim2B x) as [sx|sx| |sx mx ex Bx] eqn:Ex; try reflexivity.
    - destruct sx.
      + destruct (Prim2B lo) as [sc|sc| |sc mc ec Bc]; try discriminate; cbv in G0; discriminate.
      + destruct (Prim2B hi) as [sc|sc| |sc mc ec Bc]; try discriminate; cbv in G1; discriminate.
    - destruct (Prim2B lo) as [sc|sc| |sc mc ec Bc]; try discriminate; cbv in G0; discriminate. }
  split; auto. split; apply leb_real; auto.
Qed.

Definition unit01 (x : pfloat) : Prop := Ffin x /\ 0 <= FR x <= 1.

Lemma rnd_le x y : x <= y -> rnd x <= rnd y.
Proof. intros H. unfold rnd. apply round_le; auto with typeclass_instances. apply fexp_correct. reflexivity. Qed.
Lemma rnd_sub_neq_0 x y : Fmt x -> Fmt y -> x - y <> 0 -> rnd (x - y) <> 0.
Proof.
  intros Hx Hy H. unfold rnd, Rminus. unfold Fmt in *.
  change fexp with (FLT_exp (-1074) 53) in *.
  assert (P53 : FLX.Prec_gt_0 53) by (unfold FLX.Prec_gt_0; lia).
  pose proof (@FLT_exp_valid (-1074) 53 P53) as V. pose proof (@FLT_exp_monotone (-1074) 53) as M.
  pose proof (@monotone_exp_not_FTZ (FLT_exp (-1074) 53) V M) as NF.
  apply (@round_plus_neq_0 radix2 (FLT_exp (-1074) 53) V NF ZnearestE _ x (- y)); auto. apply generic_format_opp; auto.
Qed.

Lemma norm1_unit v mn mx : Ffin v -> Ffin mn -> Ffin mx ->
  - bp2 1022 <= FR mn -> FR mx <= bp2 1022 -> FR mn <= FR v <= FR mx -> unit01 (norm1 FN v (mn, mx)).
Proof.
  intros Hv Hmn Hmx Bmn Bmx Bv. unfold norm1, unit01. cbn [n_eq n_div n_sub n_zero FN fst snd].
  destruct (mx =? mn)%float eqn:E; cbn [negb].
  - split; [exact Ffin_0 | rewrite FR_0; lra].
  - assert (Hne : FR mx <> FR mn).
    { intros H. apply (eqb_real mx mn Hmx Hmn) in H. congruence. }
    pose proof (bp2_pos 1022) as P. assert (E3 : bp2 1023 = 2 * bp2 1022) by (change 1023%Z with (1022 + 1)%Z; apply bp2_S).
    assert (EB : Big = 4 * bp2 1022) by (unfold Big; change 1024%Z with (1023 + 1)%Z; rewrite bp2_S, E3; lra).
    destruct (sub_iv v mn 0 (bp2 1023)) as (Ha & Ea & Ba); auto; try apply fmt_0; try (apply fmt_bpow; lia); try lra.
    destruct (sub_iv mx mn 0 (bp2 1023)) as (Hb & Eb & Bb); auto; try apply fmt_0; try (apply fmt_bpow; lia); try lra.
    assert (Hab : FR (v - mn)%float <= FR (mx - mn)%float). { rewrite Ea, Eb. apply rnd_le. lra. }
    assert (Hb0 : FR (mx - mn)%float <> 0). { rewrite Eb. apply rnd_sub_neq_0; try apply fmt_FR. lra. }
    assert (Hbpos : 0 < FR (mx - mn)%float) by lra.
    destruct (div_iv (v - mn)%float (mx - mn)%float 0 1) as (Hq & _ & Bq); auto; try apply fmt_0; try apply fmt_1; try lra.
    + pose proof Big_gt_1. lra.
    + split.
      * apply Rmult_le_pos; [lra|]. left. apply Rinv_0_lt_compat; auto.
      * apply (Rmult_le_reg_r (FR (mx - mn)%float)); auto. unfold Rdiv. rewrite Rmult_assoc, Rinv_l, Rmult_1_r, Rmult_1_l; auto.
Qed.

Lemma sqdiff_unit a b : unit01 a -> unit01 b -> unit01 (sqdiff FN a b).
Proof.
  intros [Ha Ba] [Hb Bb]. unfold sqdiff, unit01. cbn [n_sub n_mul FN].
  assert (Fm1 : Fmt (-1)) by (apply fmt_opp, fmt_1). pose proof Big_gt_1 as HB.
  destruct (sub_iv a b (-1) 1) as (Hd & _ & Bd); auto; try apply fmt_1; try lra.
  destruct (mul_iv (a - b)%float (a - b)%float 0 1) as (Hm & _ & Bm); auto; try apply fmt_0; try apply fmt_1; try lra.
  split; nra.
Qed.

Lemma sum_unit l : forall acc k, Forall unit01 l -> Ffin acc -> 0 <= FR acc <= INR k -> (Z.of_nat (k + length l) < 2 ^ 53)%Z ->
  Ffin (fold_left PrimFloat.add l acc) /\ 0 <= FR (fold_left PrimFloat.add l acc) <= INR (k + length l).
Proof.
  induction l as [|x l IH]; intros acc k Hl Hacc Bacc Hk; cbn [fold_left length].
  - rewrite Nat.add_0_r. auto.
  - inversion Hl as [|? ? [Hx Bx] Hl']; subst.
    destruct (add_iv acc x 0 (INR (S k))) as (Hs & _ & Bs); auto; try apply fmt_0.
    + apply fmt_INR. cbn [length] in Hk. lia.
    + pose proof (bp2_pos 1024). unfold Big. lra.
    + apply INR_lt_Big. cbn [length] in Hk. lia.
    + rewrite S_INR. lra.
    + replace (k + S (length l))%nat with (S k + length l)%nat by lia. apply IH; auto. cbn [length] in Hk. lia.
Qed.

Definition cok (v : pfloat) (p : pfloat * pfloat) : bool :=
  ((abs (fst p) <=? 0x1p1022) && (abs (snd p) <=? 0x1p1022) && (fst p <=? v) && (v <=? snd p))%float.

Lemma cok_unit v p : cok v p = true -> unit01 (norm1 FN v p).
Proof.
  destruct p as [mn mx]. unfold cok. cbn [fst snd]. rewrite !andb_true_iff. intros [[[H1 H2] H3] H4].
  destruct (abs_bound_iv mn _ Ffin_p1022 H1) as [Fmn Bmn]. destruct (abs_bound_iv mx _ Ffin_p1022 H2) as [Fmx Bmx].
  destruct (between_fin2 mn v mx Fmn Fmx H3 H4) as [Fv Bv]. rewrite FR_p1022 in *.
  apply norm1_unit; auto; lra.
Qed.

Lemma normalize_unit l ps : Forall2 (fun v p => cok v p = true) l ps -> Forall unit01 (map2 (norm1 FN) l ps).
Proof. intros H; induction H; cbn [map2]; constructor; auto. apply cok_unit; auto. Qed.
Lemma sqdiffs_unit a : forall b, Forall unit01 a -> Forall unit01 b -> Forall unit01 (map2 (sqdiff FN) a b).
Proof.
  induction a as [|x a IH]; intros [|y b] Ha Hb; cbn [map2]; try constructor.
  - inversion Ha; inversion Hb; subst. apply sqdiff_unit; auto.
  - inversion Ha; inversion Hb; subst. apply IH; auto.
Qed.
Lemma map2_len_le {A B C} (f : A -> B -> C) l r : (length (map2 f l r) <= length l)%nat.
Proof. revert r; induction l as [|a l IH]; intros [|b r]; cbn; try lia. specialize (IH r). lia. Qed.

Theorem float_distance_finite : forall (l r : list PrimFloat.float) (m : mm (T := PrimFloat.float)),
  (Z.of_nat (length l) < 2 ^ 53)%Z ->
  Forall2 (fun v p => cok v p = true) l (mm_iter FN m) -> Forall2 (fun v p => cok v p = true) r (mm_iter FN m) ->
  PrimFloat.is_finite (distance FN l r m) = true /\ (0 <=? distance FN l r m)%float = true.
Proof.
  intros l r m Hlen Hl Hr. unfold distance, dist2, sumf, normalize. cbn [n_sqrt n_add n_nzero FN].
  set (sq := map2 (sqdiff FN) _ _).
  assert (Hsq : Forall unit01 sq) by (apply sqdiffs_unit; apply normalize_unit; auto).
  assert (Hlen' : (length sq <= length l)%nat).
  { unfold sq. etransitivity; [apply map2_len_le|]. apply map2_len_le. }
  destruct (sum_unit sq (-0)%float 0 Hsq Ffin_nzero) as [Hs Bs].
  - rewrite FR_nzero. cbn. lra.
  - cbn [Nat.add]. lia.
  - destruct (sqrt_ok _ Hs (proj1 Bs)) as [Hq Bq]. split.
    + apply is_finite_Ffin; auto.
    + apply leb_real; [exact Ffin_0 | exact Hq | rewrite FR_0; exact Bq].
Qed.

(* ---------- witnesses: finiteness fails for finite inputs next to f64::MAX; rounding leaves the hull ---------- *)
Local Close Scope R_scope.
Local Open Scope Z_scope.
Definition bMAX : Z := 9218868437227405311.              (* f64::MAX *)
Definition bNMAX : Z := 18442240474082181119.            (* -f64::MAX *)
Lemma float_adjust_overflow :
  PrimFloat.is_finite (f_of_bits bMAX) = true /\ PrimFloat.is_finite (f_of_bits bNMAX) = true /\
  run_adjustF [bMAX] [bNMAX] 4607182418800017408 = [18442240474082181120] /\
  PrimFloat.is_finite (adjust1 FN 1%float (f_of_bits bMAX) (f_of_bits bNMAX)) = false.
Proof. vm_compute. repeat split; reflexivity. Qed.
Lemma float_distance_nan :
  let m := mkMM [f_of_bits bNMAX] [f_of_bits bMAX] false in
  PrimFloat.is_nan (distance FN [f_of_bits bMAX] [f_of_bits bNMAX] m) = true /\
  PrimFloat.is_nan (distance FN [1%float] [2%float] m) = false /\
  bits_of_f (distance FN [1%float] [2%float] m) = 0.
Proof. vm_compute. repeat split; reflexivity. Qed.
(* w = 1, target = 5e-324 (bit pattern 1), rate = 1: w + (target - w) = 0 < min(w, target) *)
Lemma float_adjust_leaves_hull :
  let r := adjust1 FN 1%float 1%float (f_of_bits 1) in
  bits_of_f r = 0 /\ PrimFloat.ltb r (f_of_bits 1) = true /\ PrimFloat.ltb r 1%float = true.
Proof. vm_compute. repeat split; reflexivity. Qed.

(* the hypotheses of float_adjust_finite / float_distance_finite are satisfiable: weights 1, 2 towards 2, 1 with rate 0.5; vectors
   [1] and [2] between tracked min 0 and max 4 (distance 0.25) *)
Lemma float_bounds_witness :
  Forall (fun x => (abs x <=? 0x1p1021)%float = true) [1%float; 2%float] /\ (0 <=? 0.5)%float = true /\ (0.5 <=? 1)%float = true /\
  map bits_of_f (adjust FN [1%float; 2%float] [2%float; 1%float] 0.5%float) = [4609434218613702656; 4609434218613702656] /\
  (let m := mkMM [0%float] [4%float] false in
   Forall2 (fun v p => cok v p = true) [1%float] (mm_iter FN m) /\ Forall2 (fun v p => cok v p = true) [2%float] (mm_iter FN m) /\
   bits_of_f (distance FN [1%float] [2%float] m) = 4598175219545276416).
Proof. vm_compute. repeat split; repeat constructor. Qed.
