(* Lemmas about Model/RoutingDoc.v (C16, documents -> provider answers) and further lemmas about Model/Routing.v.
   All Qed, no axioms.  Sections: sorted permutations / completeness of the core constructor / permutation invariance;
   core::slice::binary_search refinement; get_profile_index_map and the per-matrix conversion; documents (untimed, timed,
   unreachable entries); witnesses of the recorded deviations; approximation; consistent documents <-> accepted. *)
From VRP Require Import Base.Tac Model.Routing Proofs.RoutingP Model.RoutingDoc.
From Coq Require Import QArith Qround Permutation Sorted Lqa Psatz.
Open Scope Z_scope.

(* ================================================================== part A *)
(* ------------------------------------------------------------------ sorted permutations are equal *)
Section SortUniq.
  Context {A : Type} (key : A -> Z).

  Lemma strict_sorted_perm_eq (l1 : list A) : forall l2,
    StronglySorted (klt key) l1 -> StronglySorted (klt key) l2 -> Permutation l1 l2 -> l1 = l2.
  Proof.
    induction l1 as [|a t1 IH]; intros l2 H1 H2 Hp.
    - apply Permutation_nil in Hp. subst. reflexivity.
    - destruct l2 as [|b t2]; [apply Permutation_sym, Permutation_nil in Hp; discriminate|].
      apply StronglySorted_inv in H1. destruct H1 as [H1t H1a]. rewrite Forall_forall in H1a.
      apply StronglySorted_inv in H2. destruct H2 as [H2t H2b]. rewrite Forall_forall in H2b.
      assert (a = b) as ->.
      { assert (In a (b :: t2)) as Ha by (apply (Permutation_in _ Hp); left; reflexivity).
        assert (In b (a :: t1)) as Hb by (apply (Permutation_in _ (Permutation_sym Hp)); left; reflexivity).
        destruct Ha as [Ha|Ha]; [symmetry; exact Ha|].
        destruct Hb as [Hb|Hb]; [exact Hb|].
        specialize (H1a b Hb). specialize (H2b a Ha). unfold klt in *. lia. }
      f_equal. apply IH; [assumption|assumption|]. eapply Permutation_cons_inv. exact Hp.
  Qed.

  Lemma sort_perm_unique (l l' : list A) :
    Permutation l l' -> NoDup (map key l) -> sort_by key l = sort_by key l'.
  Proof.
    intros Hp Hn. apply strict_sorted_perm_eq.
    - apply sort_strict. exact Hn.
    - apply sort_strict. eapply Permutation_NoDup; [|exact Hn]. apply Permutation_map. exact Hp.
    - rewrite (sort_perm key l), (sort_perm key l'). exact Hp.
  Qed.
End SortUniq.

Lemma le_sorted_perm_eq (l1 : list nat) : forall l2,
  StronglySorted le l1 -> StronglySorted le l2 -> Permutation l1 l2 -> l1 = l2.
Proof.
  induction l1 as [|a t1 IH]; intros l2 H1 H2 Hp.
  - apply Permutation_nil in Hp. subst. reflexivity.
  - destruct l2 as [|b t2]; [apply Permutation_sym, Permutation_nil in Hp; discriminate|].
    apply StronglySorted_inv in H1. destruct H1 as [H1t H1a]. rewrite Forall_forall in H1a.
    apply StronglySorted_inv in H2. destruct H2 as [H2t H2b]. rewrite Forall_forall in H2b.
    assert (a = b) as ->.
    { assert (In a (b :: t2)) as Ha by (apply (Permutation_in _ Hp); left; reflexivity).
      assert (In b (a :: t1)) as Hb by (apply (Permutation_in _ (Permutation_sym Hp)); left; reflexivity).
      destruct Ha as [Ha|Ha]; [symmetry; exact Ha|].
      destruct Hb as [Hb|Hb]; [exact Hb|].
      specialize (H1a b Hb). specialize (H2b a Ha). lia. }
    f_equal. apply IH; [assumption|assumption|]. eapply Permutation_cons_inv. exact Hp.
Qed.

Lemma seq_sorted k n : StronglySorted le (seq k n).
Proof.
  revert k. induction n as [|n IH]; intros k; cbn [seq]; [constructor|].
  constructor; [apply IH|]. rewrite Forall_forall. intros x Hx. apply in_seq in Hx. lia.
Qed.

Lemma idx_ok_seq_true k n : idx_ok k (seq k n) = true.
Proof. revert k. induction n as [|n IH]; intros k; cbn [seq idx_ok]; [reflexivity|]. rewrite Nat.eqb_refl, IH. reflexivity. Qed.

Lemma sorted_map_idx (s : list matrix) : StronglySorted (kle idx_key) s -> StronglySorted le (map m_index s).
Proof.
  induction s as [|a r IH]; intros H; cbn [map]; [constructor|].
  apply StronglySorted_inv in H. destruct H as [Hr Ha]. constructor; [apply IH; exact Hr|].
  rewrite Forall_forall in *. intros x Hx. apply in_map_iff in Hx. destruct Hx as [y [<- Hy]].
  specialize (Ha y Hy). unfold kle, idx_key in Ha. lia.
Qed.

Lemma existsb_perm {A} (f : A -> bool) l l' : Permutation l l' -> existsb f l = existsb f l'.
Proof.
  intros Hp. destruct (existsb f l) eqn:E; symmetry.
  - apply existsb_exists in E. destruct E as [x [Hx Hf]]. apply existsb_exists. exists x. split; [|exact Hf].
    apply (Permutation_in _ Hp). exact Hx.
  - destruct (existsb f l') eqn:E'; [|reflexivity]. apply existsb_exists in E'. destruct E' as [x [Hx Hf]].
    assert (existsb f l = true) by (apply existsb_exists; exists x; split; [apply (Permutation_in _ (Permutation_sym Hp)); exact Hx|exact Hf]).
    congruence.
Qed.

Lemma filter_perm {A} (f : A -> bool) l l' : Permutation l l' -> Permutation (filter f l) (filter f l').
Proof.
  induction 1 as [|x l l' Hp IH|x y l|l l' l'' H1 IH1 H2 IH2]; cbn [filter].
  - constructor.
  - destruct (f x); [constructor; exact IH|exact IH].
  - destruct (f x), (f y); try reflexivity. apply perm_swap.
  - etransitivity; eassumption.
Qed.

(* ------------------------------------------------------------------ completeness of the core constructor *)
Theorem consistent_accepted M : consistent M -> exists p, build M = Ok p.
Proof.
  intros [H0 [[n Hn] Hbr]]. unfold build. destruct M as [|c0 rest]; [congruence|].
  set (M := c0 :: rest) in *.
  assert (rsqrt (length (m_dur c0)) = n) as Hs.
  { destruct (Hn c0 (or_introl eq_refl)) as [E _]. rewrite E. apply rsqrt_square. }
  rewrite Hs.
  assert (forall f, (forall m, In m M -> f m = false) -> existsb f M = false) as Hex.
  { intros f Hf. destruct (existsb f M) eqn:E; [|reflexivity]. apply existsb_exists in E. destruct E as [x [Hx Hfx]].
    rewrite (Hf x Hx) in Hfx. discriminate. }
  rewrite Hex.
  2:{ intros m Hm. destruct (Hn m Hm) as [E1 E2]. rewrite E1, E2, Nat.eqb_refl. reflexivity. }
  rewrite Hex.
  2:{ intros m Hm. destruct (Hn m Hm) as [E1 E2]. rewrite E2, rsqrt_square, Nat.eqb_refl. reflexivity. }
  rewrite Hex.
  2:{ intros m Hm. destruct (Hn m Hm) as [E1 E2]. rewrite E1, rsqrt_square, Nat.eqb_refl. reflexivity. }
  rewrite Hex.
  2:{ intros m Hm. destruct (Hn m Hm) as [E1 E2]. rewrite E1, E2, !Nat.eqb_refl. reflexivity. }
  destruct Hbr as [[Hnone Hperm]|[Hall Hgrp]].
  - rewrite Hex by (intros m Hm; apply has_ts_false; apply Hnone; exact Hm).
    unfold build_agnostic.
    rewrite (existsb_perm has_ts _ _ (sort_perm idx_key M)).
    rewrite Hex by (intros m Hm; apply has_ts_false; apply Hnone; exact Hm).
    assert (map m_index (sort_by idx_key M) = seq 0 (length M)) as Hseq.
    { apply le_sorted_perm_eq; [apply sorted_map_idx, sort_sorted|apply seq_sorted|].
      rewrite <- Hperm. apply Permutation_map. apply sort_perm. }
    rewrite Hseq, idx_ok_seq_true. cbn [negb]. eexists. reflexivity.
  - assert (existsb has_ts M = true) as Ht.
    { apply existsb_exists. exists c0. split; [left; reflexivity|]. apply has_ts_true. apply Hall. left; reflexivity. }
    rewrite Ht. unfold build_aware.
    rewrite Hex.
    2:{ intros m Hm. apply negb_false_iff. apply has_ts_true. apply Hall. exact Hm. }
    rewrite Hex.
    2:{ intros m Hm. apply Nat.eqb_neq. apply Hgrp. exact Hm. }
    eexists. reflexivity.
Qed.

Theorem accepted_iff_consistent M : (exists p, build M = Ok p) <-> consistent M.
Proof. split; [intros [p H]; eapply build_ok_consistent; exact H|apply consistent_accepted]. Qed.

(* ------------------------------------------------------------------ invariance under permutation of the supplied matrices *)
Lemma group_raw_perm M M' p : Permutation M M' -> Permutation (group_raw M p) (group_raw M' p).
Proof. apply filter_perm. Qed.

Lemma consistent_perm M M' : Permutation M M' -> consistent M -> consistent M'.
Proof.
  intros Hp [H0 [[n Hn] Hbr]].
  assert (forall m, In m M' -> In m M) as Hin by (intros m; apply Permutation_in, Permutation_sym, Hp).
  split; [|split].
  - intros ->. apply Permutation_sym, Permutation_nil in Hp. congruence.
  - exists n. intros m Hm. apply Hn, Hin, Hm.
  - destruct Hbr as [[Hnone Hperm]|[Hall Hgrp]]; [left|right]; split.
    + intros m Hm. apply Hnone, Hin, Hm.
    + rewrite <- (Permutation_length Hp). rewrite <- Hperm. apply Permutation_map, Permutation_sym, Hp.
    + intros m Hm. apply Hall, Hin, Hm.
    + intros m Hm. rewrite <- (Permutation_length (group_raw_perm _ _ (m_index m) Hp)). apply Hgrp, Hin, Hm.
Qed.

Theorem provider_perm_invariant M M' p :
  Permutation M M' -> build M = Ok p ->
  (forall k, NoDup (map ts_key (group_raw M k))) ->
  exists p', build M' = Ok p' /\ psize p' = psize p /\
    forall fb k scale from to t,
      duration p' fb k scale from to t = duration p fb k scale from to t /\
      distance p' fb k from to t = distance p fb k from to t.
Proof.
  intros Hp Hb Hnd.
  pose proof (build_ok_consistent _ _ Hb) as Hc.
  destruct (consistent_accepted _ (consistent_perm _ _ Hp Hc)) as [p' Hb'].
  exists p'. split; [exact Hb'|].
  assert (psize p' = psize p) as Hsz.
  { destruct M as [|c0 rest]; [discriminate|].
    destruct (build_ok_square _ _ Hb c0 (or_introl eq_refl)) as [E _].
    apply (size_exact M' p' c0); [exact Hb'| |exact E]. apply (Permutation_in _ Hp). left; reflexivity. }
  split; [exact Hsz|].
  destruct (build_ok_inv _ _ Hb) as [_ [_ Hbr]]. destruct (build_ok_inv _ _ Hb') as [_ [_ Hbr']].
  assert (existsb has_ts M' = existsb has_ts M) as Hts by (symmetry; apply existsb_perm; exact Hp).
  destruct Hbr as [[Ht Ha]|[Ht Ha]]; destruct Hbr' as [[Ht' Ha']|[Ht' Ha']]; try congruence.
  - destruct (build_aware_inv _ _ _ Ha) as [-> _]. destruct (build_aware_inv _ _ _ Ha') as [-> _].
    cbn [psize] in *. intros fb k scale from to t. cbn [duration distance]. unfold aware_group.
    pose proof (group_raw_perm _ _ k Hp) as Hg.
    destruct (group_raw M k) as [|g0 gr] eqn:Eg.
    + apply Permutation_nil in Hg. rewrite Hg. split; reflexivity.
    + destruct (group_raw M' k) as [|g0' gr'] eqn:Eg'; [apply Permutation_sym, Permutation_nil in Hg; discriminate|].
      rewrite <- (sort_perm_unique ts_key _ _ Hg) by (rewrite <- Eg; apply Hnd). rewrite Hsz. split; reflexivity.
  - destruct (build_agnostic_inv _ _ _ Ha) as [-> Hseq]. destruct (build_agnostic_inv _ _ _ Ha') as [-> Hseq'].
    cbn [psize] in *.
    assert (sort_by idx_key M' = sort_by idx_key M) as Es.
    { symmetry. apply sort_perm_unique; [exact Hp|].
      assert (Permutation (map idx_key M) (map Z.of_nat (seq 0 (length M)))) as Hq.
      { rewrite <- Hseq, map_map. apply Permutation_map. symmetry. apply sort_perm. }
      eapply Permutation_NoDup; [symmetry; exact Hq|].
      apply FinFun.Injective_map_NoDup; [intros a b; apply Nat2Z.inj|apply seq_NoDup]. }
    intros fb k scale from to t. cbn [duration distance]. rewrite Es, Hsz. split; reflexivity.
Qed.

(* ================================================================== part B *)
(* strictly increasing list: index form *)
Definition incr (l : list Z) : Prop := forall i j, (i < j)%nat -> (j < length l)%nat -> nth i l 0 < nth j l 0.

Lemma sorted_incr l : StronglySorted Z.lt l -> incr l.
Proof.
  induction l as [|a r IH]; intros Hs i j Hij Hj; [cbn in Hj; lia|].
  apply StronglySorted_inv in Hs. destruct Hs as [Hr Ha]. rewrite Forall_forall in Ha.
  destruct j as [|j]; [lia|]. cbn [length] in Hj. destruct i as [|i]; cbn [nth].
  - apply Ha. apply nth_In. lia.
  - apply IH; [exact Hr|lia|lia].
Qed.

Lemma incr_tail a r : incr (a :: r) -> incr r.
Proof. intros H i j Hij Hj. apply (H (S i) (S j)); cbn [length]; lia. Qed.

(* the contract model [bsearch] is determined by its contract on strictly increasing lists *)
Lemma bsearch_found l : incr l -> forall k, (k < length l)%nat -> bsearch l (nth k l 0) = Found k.
Proof.
  induction l as [|a r IH]; intros Hi k Hk; [cbn in Hk; lia|].
  cbn [bsearch]. destruct k as [|k]; cbn [nth].
  - rewrite Z.eqb_refl. reflexivity.
  - cbn [length] in Hk. pose proof (Hi O (S k) ltac:(lia) ltac:(cbn [length]; lia)) as Hlt. cbn [nth] in Hlt.
    destruct (a =? nth k r 0) eqn:E; [lia|]. destruct (nth k r 0 <? a) eqn:E2; [lia|].
    rewrite (IH (incr_tail _ _ Hi) k) by lia. reflexivity.
Qed.

Lemma bsearch_insert l x : incr l -> forall k, (k <= length l)%nat ->
  (forall i, (i < k)%nat -> nth i l 0 < x) -> (forall i, (k <= i)%nat -> (i < length l)%nat -> x < nth i l 0) ->
  bsearch l x = Insert k.
Proof.
  induction l as [|a r IH]; intros Hi k Hk Hlo Hhi.
  - cbn in Hk. replace k with O by lia. reflexivity.
  - cbn [bsearch]. destruct k as [|k].
    + pose proof (Hhi O ltac:(lia) ltac:(cbn [length]; lia)) as H0. cbn [nth] in H0.
      destruct (a =? x) eqn:E; [lia|]. destruct (x <? a) eqn:E2; [reflexivity|lia].
    + pose proof (Hlo O ltac:(lia)) as H0. cbn [nth] in H0.
      destruct (a =? x) eqn:E; [lia|]. destruct (x <? a) eqn:E2; [lia|].
      rewrite (IH (incr_tail _ _ Hi) k).
      * reflexivity.
      * cbn [length] in Hk. lia.
      * intros i Hik. apply (Hlo (S i)). lia.
      * intros i Hki Hil. apply (Hhi (S i)); cbn [length]; lia.
Qed.

(* loop invariant of core::slice::binary_search_by *)
Lemma std_loop_inv l x : incr l -> forall fuel base size,
  (size <= fuel)%nat -> (1 <= size)%nat -> (base + size <= length l)%nat ->
  (base = O \/ nth base l 0 <= x) ->
  (forall i, (base + size <= i)%nat -> (i < length l)%nat -> x < nth i l 0) ->
  let b := std_bs_loop fuel l x base size in
  (b < length l)%nat /\ (b = O \/ nth b l 0 <= x) /\ (forall i, (b < i)%nat -> (i < length l)%nat -> x < nth i l 0).
Proof.
  intros Hi. induction fuel as [|f IH]; intros base size Hf Hs Hb Hlo Hhi; [lia|].
  cbn [std_bs_loop]. destruct (size <=? 1)%nat eqn:E1.
  - assert (size = 1%nat) by lia. subst size. cbv zeta. split; [lia|]. split; [exact Hlo|].
    intros i Hbi Hil. apply Hhi; lia.
  - cbv zeta.
    assert (1 <= size / 2)%nat as Hh1 by (apply Nat.div_le_lower_bound; lia).
    assert (size / 2 < size)%nat as Hh2 by (apply Nat.div_lt; lia).
    assert (2 * (size / 2) <= size)%nat as Hh3 by (apply Nat.mul_div_le; lia).
    destruct (nth (base + size / 2) l 0 >? x) eqn:E2.
    + apply IH; [lia|lia|lia|exact Hlo|].
      intros i Hbi Hil.
      destruct (Nat.eq_dec i (base + size / 2)%nat) as [->|Hne]; [lia|].
      pose proof (Hi (base + size / 2)%nat i ltac:(lia) Hil). lia.
    + apply IH; [lia|lia|lia|right; lia|].
      intros i Hbi Hil. apply Hhi; lia.
Qed.

Theorem std_bsearch_refines l x : StronglySorted Z.lt l -> std_bsearch l x = bsearch l x.
Proof.
  intros Hs. pose proof (sorted_incr _ Hs) as Hi.
  destruct l as [|a r]; [reflexivity|]. unfold std_bsearch.
  set (l := a :: r) in *.
  assert (1 <= length l)%nat as Hl1 by (unfold l; cbn [length]; lia).
  destruct (std_loop_inv l x Hi (length l) O (length l)) as [Hb [Hlo Hhi]];
    [lia|exact Hl1|lia|left; reflexivity|intros i H1 H2; lia|].
  set (b := std_bs_loop (length l) l x 0 (length l)) in *.
  destruct (nth b l 0 =? x) eqn:E.
  - apply Z.eqb_eq in E. rewrite <- E. symmetry. apply bsearch_found; assumption.
  - destruct (nth b l 0 <? x) eqn:E2; symmetry.
    + apply bsearch_insert; [exact Hi|lia| |].
      * intros i Hib. destruct (Nat.eq_dec i b) as [->|Hne]; [lia|]. pose proof (Hi i b ltac:(lia) Hb). lia.
      * intros i Hbi Hil. apply Hhi; lia.
    + assert (b = O) as Hb0 by (destruct Hlo as [Hb0|Hle]; [exact Hb0|lia]).
      apply bsearch_insert; [exact Hi|lia| |].
      * intros i Hib. lia.
      * intros i Hbi Hil. destruct (Nat.eq_dec i b) as [->|Hne]; [lia|]. apply Hhi; lia.
Qed.

(* ================================================================== part D *)
(* ------------------------------------------------------------------ get_profile_index_map *)
Lemma nmem_In n l : nmem n l = true <-> In n l.
Proof.
  unfold nmem. rewrite existsb_exists. split.
  - intros [x [Hx E]]. apply Nat.eqb_eq in E. subst. exact Hx.
  - intros H. exists n. split; [exact H|apply Nat.eqb_refl].
Qed.

Lemma profile_names_fold l : forall acc x,
  In x (fold_left (fun acc n => if nmem n acc then acc else acc ++ [n]) l acc) <-> In x acc \/ In x l.
Proof.
  induction l as [|a r IH]; intros acc x; cbn [fold_left].
  - cbn. tauto.
  - rewrite IH. destruct (nmem a acc) eqn:E.
    + apply nmem_In in E. cbn [In]. split; [tauto|]. intros [H|[<-|H]]; tauto.
    + rewrite in_app_iff. cbn [In]. tauto.
Qed.

Lemma profile_names_In l x : In x (profile_names l) <-> In x l.
Proof. unfold profile_names. rewrite profile_names_fold. cbn. tauto. Qed.

Lemma profile_names_NoDup_fold l : forall acc, NoDup acc ->
  NoDup (fold_left (fun acc n => if nmem n acc then acc else acc ++ [n]) l acc).
Proof.
  induction l as [|a r IH]; intros acc Hn; cbn [fold_left]; [exact Hn|].
  apply IH. destruct (nmem a acc) eqn:E; [exact Hn|].
  assert (~ In a acc) as Hna by (intros H; apply nmem_In in H; congruence).
  eapply Permutation_NoDup; [apply Permutation_cons_append|]. constructor; assumption.
Qed.

Lemma profile_names_NoDup l : NoDup (profile_names l).
Proof. apply profile_names_NoDup_fold. constructor. Qed.

Lemma profile_names_id_fold l : forall acc, NoDup (acc ++ l) ->
  fold_left (fun acc n => if nmem n acc then acc else acc ++ [n]) l acc = acc ++ l.
Proof.
  induction l as [|a r IH]; intros acc Hn; cbn [fold_left]; [rewrite app_nil_r; reflexivity|].
  assert (nmem a acc = false) as E.
  { destruct (nmem a acc) eqn:E; [|reflexivity]. apply nmem_In in E. exfalso.
    apply NoDup_remove_2 in Hn. apply Hn. apply in_or_app. left. exact E. }
  rewrite E. rewrite IH; rewrite <- app_assoc; [reflexivity|exact Hn].
Qed.

Lemma profile_names_id l : NoDup l -> profile_names l = l.
Proof. intros H. unfold profile_names. rewrite profile_names_id_fold; [reflexivity|exact H]. Qed.

Lemma index_of_nth n l : forall k, index_of n l = Some k -> nth_error l k = Some n.
Proof.
  induction l as [|x r IH]; intros k H; cbn [index_of] in H; [discriminate|].
  destruct (x =? n)%nat eqn:E.
  - inversion H; subst. apply Nat.eqb_eq in E. subst. reflexivity.
  - destruct (index_of n r) as [j|]; [|discriminate]. inversion H; subst. cbn [nth_error]. apply IH. reflexivity.
Qed.

Lemma index_of_In n l : In n l -> exists k, index_of n l = Some k.
Proof.
  induction l as [|x r IH]; intros H; [contradiction|]. cbn [index_of].
  destruct (x =? n)%nat eqn:E; [exists O; reflexivity|].
  destruct H as [->|H]; [rewrite Nat.eqb_refl in E; discriminate|].
  destruct (IH H) as [k Hk]. rewrite Hk. exists (S k). reflexivity.
Qed.

Lemma index_of_inj a b l k : index_of a l = Some k -> index_of b l = Some k -> a = b.
Proof. intros Ha Hb. apply index_of_nth in Ha, Hb. congruence. Qed.

Lemma index_of_lt n l k : index_of n l = Some k -> (k < length l)%nat.
Proof. intros H. apply index_of_nth in H. apply nth_error_Some. congruence. Qed.

Lemma index_of_seq l : NoDup l -> map (fun n => index_of n l) l = map Some (seq 0 (length l)).
Proof.
  induction l as [|x r IH]; intros Hn; [reflexivity|].
  inversion Hn as [|? ? Hx Hr]; subst. cbn [map length seq index_of]. rewrite Nat.eqb_refl. f_equal.
  transitivity (map (option_map S) (map (fun n => index_of n r) r)).
  - rewrite map_map. apply map_ext_in. intros a Ha. destruct (x =? a)%nat eqn:E.
    + apply Nat.eqb_eq in E. subst. contradiction.
    + destruct (index_of a r); reflexivity.
  - rewrite (IH Hr), map_map. rewrite <- seq_shift, map_map. reflexivity.
Qed.

(* ------------------------------------------------------------------ Forall2 helpers *)
Lemma Forall2_In_l {A B} (R : A -> B -> Prop) l l' a : Forall2 R l l' -> In a l -> exists b, In b l' /\ R a b.
Proof.
  induction 1 as [|x y l l' Hxy _ IH]; intros Hin; [contradiction|].
  destruct Hin as [->|Hin]; [exists y; split; [left; reflexivity|exact Hxy]|].
  destruct (IH Hin) as [b [Hb Hr]]. exists b. split; [right; exact Hb|exact Hr].
Qed.

Lemma Forall2_In_r {A B} (R : A -> B -> Prop) l l' b : Forall2 R l l' -> In b l' -> exists a, In a l /\ R a b.
Proof.
  induction 1 as [|x y l l' Hxy _ IH]; intros Hin; [contradiction|].
  destruct Hin as [->|Hin]; [exists x; split; [left; reflexivity|exact Hxy]|].
  destruct (IH Hin) as [a [Ha Hr]]. exists a. split; [right; exact Ha|exact Hr].
Qed.

Lemma Forall2_filter {A B} (R : A -> B -> Prop) (f : A -> bool) (g : B -> bool) l l' :
  Forall2 R l l' -> (forall a b, In a l -> R a b -> f a = g b) -> Forall2 R (filter f l) (filter g l').
Proof.
  induction 1 as [|x y l l' Hxy _ IH]; intros Hfg; cbn [filter]; [constructor|].
  rewrite <- (Hfg x y (or_introl eq_refl) Hxy).
  assert (Forall2 R (filter f l) (filter g l')) as Hr by (apply IH; intros a b Ha; apply Hfg; right; exact Ha).
  destruct (f x); [constructor; assumption|exact Hr].
Qed.

Lemma Forall2_map_eq {A B C} (R : A -> B -> Prop) (f : A -> C) (g : B -> C) l l' :
  Forall2 R l l' -> (forall a b, R a b -> f a = g b) -> map f l = map g l'.
Proof.
  induction 1 as [|x y l l' Hxy _ IH]; intros Hfg; cbn [map]; [reflexivity|].
  rewrite (Hfg x y Hxy), IH by exact Hfg. reflexivity.
Qed.

Lemma Forall2_nth {A B} (R : A -> B -> Prop) l l' : Forall2 R l l' ->
  forall k a, nth_error l k = Some a -> exists b, nth_error l' k = Some b /\ R a b.
Proof.
  induction 1 as [|x y l l' Hxy _ IH]; intros k a Hk; [destruct k; discriminate|].
  destruct k as [|k]; cbn [nth_error] in *.
  - inversion Hk; subst. exists y. split; [reflexivity|exact Hxy].
  - apply IH. exact Hk.
Qed.

(* ------------------------------------------------------------------ per-matrix conversion *)
Definition conv_rel (names : list nat) (pos : nat) (pm : pmatrix) (m : matrix) : Prop :=
  m_ts m = option_map inject_Z (pm_ts pm) /\ pm_data2 pm = inr (m_dur m, m_dist m) /\
  m_index m = pm_index names pos pm.

Lemma pm_convert2_nth names : forall pms pos data, pm_convert2 names pos pms = inr data ->
  forall k pm, nth_error pms k = Some pm ->
    exists m, nth_error data k = Some m /\ conv_rel names (pos + k) pm m.
Proof.
  induction pms as [|x r IH]; intros pos data H k pm Hk; [destruct k; discriminate|].
  cbn [pm_convert2] in H. destruct (pm_data2 x) as [e|[du di]] eqn:Ed; [discriminate|].
  destruct (pm_convert2 names (S pos) r) as [e|ms] eqn:Er; [discriminate|]. inversion H; subst.
  destruct k as [|k]; cbn [nth_error] in *.
  - inversion Hk; subst. eexists. split; [reflexivity|]. rewrite Nat.add_0_r. repeat split. cbn. exact Ed.
  - destruct (IH _ _ Er k pm Hk) as [m [Hm Hc]]. exists m. split; [exact Hm|].
    replace (pos + S k)%nat with (S pos + k)%nat by lia. exact Hc.
Qed.

Lemma pm_convert2_rel names : forall pms pos data, pm_convert2 names pos pms = inr data ->
  Forall2 (fun pm m => exists p, conv_rel names p pm m) pms data.
Proof.
  induction pms as [|x r IH]; intros pos data H; cbn [pm_convert2] in H.
  - inversion H. constructor.
  - destruct (pm_data2 x) as [e|[du di]] eqn:Ed; [discriminate|].
    destruct (pm_convert2 names (S pos) r) as [e|ms] eqn:Er; [discriminate|]. inversion H; subst.
    constructor; [|eapply IH; exact Er]. exists pos. repeat split. cbn. exact Ed.
Qed.

Lemma pm_convert2_length names pms pos data : pm_convert2 names pos pms = inr data -> length data = length pms.
Proof. intros H. apply pm_convert2_rel in H. induction H; cbn [length]; congruence. Qed.

(* ------------------------------------------------------------------ inversion of the reader *)
Lemma doc_transport_ok profiles pms p : doc_transport profiles pms = TOk p ->
  exists data, pm_convert2 (profile_names profiles) 0 pms = inr data /\ build data = Ok p /\
    length (profile_names profiles) = distinct_count (map m_index data) /\
    (length (profile_names profiles) <= length pms)%nat /\
    ((forall m, In m pms -> pm_profile m <> None) \/ (forall m, In m pms -> pm_profile m = None /\ pm_ts m = None)).
Proof.
  unfold doc_transport.
  destruct (negb (forallb _ pms) && negb (forallb _ pms)) eqn:E1; [discriminate|].
  destruct (existsb _ pms && existsb _ pms) eqn:E2; [discriminate|].
  destruct (length pms <? length (profile_names profiles))%nat eqn:E3; [discriminate|].
  destruct (pm_convert2 (profile_names profiles) 0 pms) as [e|data] eqn:Ec; [discriminate|].
  destruct (negb (length _ =? _)%nat) eqn:E4; [discriminate|]. destruct (build data) as [q|e] eqn:Eb; [|discriminate].
  intros H. inversion H; subst. exists data. split; [reflexivity|]. split; [exact Eb|].
  split; [apply negb_false_iff, Nat.eqb_eq in E4; exact E4|]. split; [apply Nat.ltb_ge in E3; exact E3|].
  apply andb_false_iff in E1. destruct E1 as [E1|E1]; apply negb_false_iff in E1; rewrite forallb_forall in E1.
  - left. intros m Hm. specialize (E1 m Hm). destruct (pm_profile m); [discriminate|discriminate].
  - right. intros m Hm. pose proof (E1 m Hm) as Hp. destruct (pm_profile m) eqn:Epm; [discriminate|]. split; [reflexivity|].
    apply andb_false_iff in E2. destruct E2 as [E2|E2].
    + exfalso. assert (existsb (fun m => negb (is_some (pm_profile m))) pms = true); [|congruence].
      apply existsb_exists. exists m. split; [exact Hm|rewrite Epm; reflexivity].
    + pose proof (existsb_false _ _ E2 m Hm) as A. cbn beta in A. destruct (pm_ts m); [discriminate|reflexivity].
Qed.

Lemma validate_nil d : validate_routing d = [] ->
  e1500 d = false /\ e1501 d = false /\ e1502 d = false /\ e1503 d = false /\ e1504 d = false /\ e1505 d = false.
Proof.
  unfold validate_routing.
  destruct (e1500 d), (e1501 d), (e1502 d), (e1503 d), (e1504 d), (e1505 d); cbn; intros H; try discriminate; repeat split.
Qed.

Lemma doc_read_ok d p vs : doc_read d = DOk p vs ->
  validate_routing d = [] /\ doc_transport (prof_names d) (d_matrices d) = TOk p /\
  vs = map (fun v => vehicle_profile (prof_names d) (dv_profile v) (dv_scale v)) (d_vehicles d).
Proof.
  unfold doc_read. destruct (validate_routing d) as [|c r]; [|discriminate].
  destruct (doc_transport _ _) as [e|q]; [discriminate|]. intros H. inversion H; subst. repeat split.
Qed.

(* every vehicle of an accepted document has a Profile: index of its profile name, its own scale (default 1) *)
Lemma doc_vehicle_profile d v : e1505 d = false -> In v (d_vehicles d) ->
  exists k, index_of (dv_profile v) (profile_names (prof_names d)) = Some k /\
            vehicle_profile (prof_names d) (dv_profile v) (dv_scale v) = Some (k, dscale v).
Proof.
  intros E Hv. pose proof (existsb_false _ _ E v Hv) as A. cbn beta in A. apply negb_false_iff, nmem_In in A.
  destruct (index_of_In (dv_profile v) (profile_names (prof_names d))) as [k Hk]; [apply profile_names_In; exact A|].
  exists k. split; [exact Hk|]. unfold vehicle_profile, dscale. rewrite Hk. reflexivity.
Qed.

(* ================================================================== part E *)
(* ------------------------------------------------------------------ specification vocabulary for documents *)
Definition pnamed (nm : nat) (pm : pmatrix) : bool := match pm_profile pm with Some x => (x =? nm)%nat | None => false end.
Definition pm_key (pm : pmatrix) : Z := match pm_ts pm with Some t => ztrunc (inject_Z t) | None => 0 end.
Definition names_known (d : document) : Prop :=
  forall pm, In pm (d_matrices d) -> exists nm, pm_profile pm = Some nm /\ In nm (prof_names d).

Lemma pnamed_true nm pm : pnamed nm pm = true <-> pm_profile pm = Some nm.
Proof.
  unfold pnamed. destruct (pm_profile pm) as [x|]; [|split; discriminate].
  rewrite Nat.eqb_eq. split; congruence.
Qed.

Lemma conv_key names p pm m : conv_rel names p pm m -> ts_key m = pm_key pm.
Proof. intros [Ht _]. unfold ts_key, ts_of, pm_key. rewrite Ht. destruct (pm_ts pm); reflexivity. Qed.

Lemma conv_index_known names p pm m nm k :
  conv_rel names p pm m -> pm_profile pm = Some nm -> index_of nm names = Some k -> m_index m = k.
Proof. intros [_ [_ Hi]] Hn Hk. rewrite Hi. unfold pm_index. rewrite Hn, Hk. reflexivity. Qed.

(* the bridge: what an accepted document gives for one vehicle *)
Lemma doc_bridge d prov vs v :
  doc_read d = DOk prov vs -> In v (d_vehicles d) ->
  exists data k,
    pm_convert2 (profile_names (prof_names d)) 0 (d_matrices d) = inr data /\ build data = Ok prov /\
    index_of (dv_profile v) (profile_names (prof_names d)) = Some k /\
    vehicle_profile (prof_names d) (dv_profile v) (dv_scale v) = Some (k, dscale v) /\
    In (Some (k, dscale v)) vs.
Proof.
  intros H Hv. destruct (doc_read_ok _ _ _ H) as [Hval [Ht Hvs]].
  destruct (validate_nil _ Hval) as [_ [_ [_ [_ [_ E5]]]]].
  destruct (doc_transport_ok _ _ _ Ht) as [data [Hc [Hb _]]].
  destruct (doc_vehicle_profile d v E5 Hv) as [k [Hk Hp]].
  exists data, k. repeat split; try assumption.
  rewrite Hvs, <- Hp. apply (in_map (fun v => vehicle_profile (prof_names d) (dv_profile v) (dv_scale v))). exact Hv.
Qed.

Lemma doc_group d data k nm :
  pm_convert2 (profile_names (prof_names d)) 0 (d_matrices d) = inr data ->
  names_known d -> index_of nm (profile_names (prof_names d)) = Some k ->
  Forall2 (fun pm m => exists p, conv_rel (profile_names (prof_names d)) p pm m)
          (filter (pnamed nm) (d_matrices d)) (group_raw data k).
Proof.
  intros Hc Hkn Hk. unfold group_raw. apply Forall2_filter; [eapply pm_convert2_rel; exact Hc|].
  intros pm m Hpm [p Hr]. destruct (Hkn pm Hpm) as [nm' [Hn' Hin']].
  destruct (index_of_In nm' (profile_names (prof_names d))) as [k' Hk']; [apply profile_names_In; exact Hin'|].
  pose proof (conv_index_known _ _ _ _ _ _ Hr Hn' Hk') as Hi.
  unfold pnamed, same_idx. rewrite Hn', Hi.
  destruct (nm' =? nm)%nat eqn:E.
  - apply Nat.eqb_eq in E. subst nm'. rewrite Hk in Hk'. inversion Hk'; subst. symmetry. apply Nat.eqb_refl.
  - symmetry. apply Nat.eqb_neq. intros ->. apply Nat.eqb_neq in E. apply E.
    eapply index_of_inj; eassumption.
Qed.

Lemma doc_group_keys d data k nm :
  pm_convert2 (profile_names (prof_names d)) 0 (d_matrices d) = inr data ->
  names_known d -> index_of nm (profile_names (prof_names d)) = Some k ->
  map ts_key (group_raw data k) = map pm_key (filter (pnamed nm) (d_matrices d)).
Proof.
  intros Hc Hkn Hk. symmetry. eapply Forall2_map_eq; [eapply doc_group; eassumption|].
  intros pm m [p Hr]. symmetry. eapply conv_key. exact Hr.
Qed.

(* a matrix of the document named like the vehicle's profile and its converted twin *)
Lemma doc_member d data k nm pm :
  pm_convert2 (profile_names (prof_names d)) 0 (d_matrices d) = inr data ->
  index_of nm (profile_names (prof_names d)) = Some k ->
  In pm (d_matrices d) -> pm_profile pm = Some nm ->
  exists m p, In m data /\ conv_rel (profile_names (prof_names d)) p pm m /\ m_index m = k.
Proof.
  intros Hc Hk Hpm Hn. destruct (Forall2_In_l _ _ _ _ (pm_convert2_rel _ _ _ _ Hc) Hpm) as [m [Hm [p Hr]]].
  exists m, p. split; [exact Hm|]. split; [exact Hr|]. eapply conv_index_known; eassumption.
Qed.

Lemma doc_member_back d data k nm m :
  pm_convert2 (profile_names (prof_names d)) 0 (d_matrices d) = inr data ->
  names_known d -> index_of nm (profile_names (prof_names d)) = Some k ->
  In m data -> m_index m = k ->
  exists pm p, In pm (d_matrices d) /\ pm_profile pm = Some nm /\ conv_rel (profile_names (prof_names d)) p pm m.
Proof.
  intros Hc Hkn Hk Hm Hi. destruct (Forall2_In_r _ _ _ _ (pm_convert2_rel _ _ _ _ Hc) Hm) as [pm [Hpm [p Hr]]].
  exists pm, p. split; [exact Hpm|]. split; [|exact Hr].
  destruct (Hkn pm Hpm) as [nm' [Hn' Hin']].
  destruct (index_of_In nm' (profile_names (prof_names d))) as [k' Hk']; [apply profile_names_In; exact Hin'|].
  pose proof (conv_index_known _ _ _ _ _ _ Hr Hn' Hk') as Hi'. rewrite Hi in Hi'. subst k'.
  rewrite Hn'. f_equal. eapply index_of_inj; eassumption.
Qed.

(* ------------------------------------------------------------------ clause 1 on documents: untimed, named *)
Theorem doc_named_exact d prov vs v pm du di from to tt x w :
  doc_read d = DOk prov vs ->
  (forall m, In m (d_matrices d) -> pm_ts m = None) ->
  In v (d_vehicles d) -> In pm (d_matrices d) -> pm_profile pm = Some (dv_profile v) ->
  pm_data2 pm = inr (du, di) ->
  nth_error du (from * psize prov + to) = Some x ->
  nth_error di (from * psize prov + to) = Some w ->
  exists k, vehicle_profile (prof_names d) (dv_profile v) (dv_scale v) = Some (k, dscale v) /\
            In (Some (k, dscale v)) vs /\
            duration_tt prov (doc_fallback d) k (dscale v) from to tt = Val (x * dscale v)%Q /\
            distance_tt prov (doc_fallback d) k from to tt = Val w.
Proof.
  intros H Hnt Hv Hpm Hn Hd Hx Hw.
  destruct (doc_bridge _ _ _ _ H Hv) as [data [k [Hc [Hb [Hk [Hp Hin]]]]]].
  exists k. split; [exact Hp|]. split; [exact Hin|].
  destruct (doc_member _ _ _ _ _ Hc Hk Hpm Hn) as [m [p [Hm [Hr Hi]]]].
  destruct Hr as [Hts [Hdat _]]. rewrite Hd in Hdat. inversion Hdat; subst du di.
  unfold duration_tt, distance_tt. rewrite <- Hi.
  apply (agnostic_exact data prov (doc_fallback d) m); try assumption.
  intros y Hy. destruct (Forall2_In_r _ _ _ _ (pm_convert2_rel _ _ _ _ Hc) Hy) as [pm' [Hpm' [p' [Ht' _]]]].
  rewrite Ht', (Hnt pm' Hpm'). reflexivity.
Qed.

(* ... and the matrix is THE matrix of that name: every fleet profile has exactly one *)
Theorem doc_named_unique d prov vs nm :
  doc_read d = DOk prov vs ->
  (forall m, In m (d_matrices d) -> pm_ts m = None) -> names_known d -> In nm (prof_names d) ->
  (exists pm, In pm (d_matrices d) /\ pm_profile pm = Some nm) /\
  (forall i j pm1 pm2, nth_error (d_matrices d) i = Some pm1 -> nth_error (d_matrices d) j = Some pm2 ->
                       pm_profile pm1 = Some nm -> pm_profile pm2 = Some nm -> i = j).
Proof.
  intros H Hnt Hkn Hnm. destruct (doc_read_ok _ _ _ H) as [Hval [Ht _]].
  destruct (doc_transport_ok _ _ _ Ht) as [data [Hc [Hb [Hcnt [Hlen _]]]]].
  set (names := profile_names (prof_names d)) in *.
  destruct (index_of_In nm names) as [k Hk]; [apply profile_names_In; exact Hnm|].
  assert (forall y, In y data -> m_ts y = None) as Hnone.
  { intros y Hy. destruct (Forall2_In_r _ _ _ _ (pm_convert2_rel _ _ _ _ Hc) Hy) as [pm' [Hpm' [p' [Ht' _]]]].
    rewrite Ht', (Hnt pm' Hpm'). reflexivity. }
  assert (Permutation (map m_index data) (seq 0 (length data))) as Hperm.
  { destruct (build_ok_cond _ _ Hb) as [_ [_ [[_ Hp]|[Hall _]]]]; [exact Hp|].
    destruct data as [|m0 r]; [destruct (build_ok_cond _ _ Hb) as [Hne _]; congruence|].
    exfalso. apply (Hall m0 (or_introl eq_refl)). apply Hnone. left; reflexivity. }
  assert (NoDup (map m_index data)) as Hnd by (eapply Permutation_NoDup; [symmetry; exact Hperm|apply seq_NoDup]).
  split.
  - assert (length names = length data) as Hl.
    { rewrite Hcnt. unfold distinct_count. rewrite profile_names_id by exact Hnd. apply map_length. }
    assert (In k (map m_index data)) as Hin.
    { apply (Permutation_in _ (Permutation_sym Hperm)). apply in_seq. pose proof (index_of_lt _ _ _ Hk). lia. }
    apply in_map_iff in Hin. destruct Hin as [m [Hi Hm]].
    destruct (doc_member_back d data k nm m Hc Hkn Hk Hm Hi) as [pm [p [Hpm [Hn _]]]].
    exists pm. split; assumption.
  - intros i j pm1 pm2 H1 H2 Hn1 Hn2.
    destruct (pm_convert2_nth _ _ _ _ Hc i pm1 H1) as [m1 [Hm1 Hr1]].
    destruct (pm_convert2_nth _ _ _ _ Hc j pm2 H2) as [m2 [Hm2 Hr2]].
    pose proof (conv_index_known _ _ _ _ _ _ Hr1 Hn1 Hk) as Hi1.
    pose proof (conv_index_known _ _ _ _ _ _ Hr2 Hn2 Hk) as Hi2.
    apply (proj1 (NoDup_nth_error (map m_index data)) Hnd).
    + rewrite map_length. apply nth_error_Some. congruence.
    + rewrite !nth_error_map, Hm1, Hm2. cbn. congruence.
Qed.

(* untimed matrices WITHOUT profile names: the k-th fleet profile is served by the k-th matrix *)
Theorem doc_positional_exact d prov vs v pm k du di from to tt x w :
  doc_read d = DOk prov vs ->
  (forall m, In m (d_matrices d) -> pm_profile m = None) ->
  In v (d_vehicles d) ->
  index_of (dv_profile v) (profile_names (prof_names d)) = Some k ->
  nth_error (d_matrices d) k = Some pm ->
  pm_data2 pm = inr (du, di) ->
  nth_error du (from * psize prov + to) = Some x ->
  nth_error di (from * psize prov + to) = Some w ->
  vehicle_profile (prof_names d) (dv_profile v) (dv_scale v) = Some (k, dscale v) /\
  duration_tt prov (doc_fallback d) k (dscale v) from to tt = Val (x * dscale v)%Q /\
  distance_tt prov (doc_fallback d) k from to tt = Val w.
Proof.
  intros H Hnp Hv Hk Hpm Hd Hx Hw.
  destruct (doc_bridge _ _ _ _ H Hv) as [data [k' [Hc [Hb [Hk' [Hp _]]]]]].
  rewrite Hk in Hk'. inversion Hk'; subst k'. split; [exact Hp|].
  destruct (pm_convert2_nth _ _ _ _ Hc k pm Hpm) as [m [Hm [Hts [Hdat Hi]]]].
  rewrite Hd in Hdat. inversion Hdat; subst du di.
  assert (m_index m = k) as Hik.
  { rewrite Hi. unfold pm_index. rewrite (Hnp pm (nth_error_In _ _ Hpm)). reflexivity. }
  unfold duration_tt, distance_tt. rewrite <- Hik.
  apply (agnostic_exact data prov (doc_fallback d) m); try assumption; [|eapply nth_error_In; exact Hm].
  destruct (doc_read_ok _ _ _ H) as [_ [Ht _]].
  destruct (doc_transport_ok _ _ _ Ht) as [data' [Hc' [_ [_ [_ Hor]]]]].
  intros y Hy. destruct (Forall2_In_r _ _ _ _ (pm_convert2_rel _ _ _ _ Hc) Hy) as [pm' [Hpm' [p' [Ht' _]]]].
  rewrite Ht'. destruct Hor as [Hall|Hnone].
  - exfalso. apply (Hall pm' Hpm'). apply Hnp. exact Hpm'.
  - destruct (Hnone pm' Hpm') as [_ ->]. reflexivity.
Qed.

(* ================================================================== part F *)
(* ------------------------------------------------------------------ TravelTime: both variants look up at the carried time *)
Theorem travel_time_variant_irrelevant pr fb p scale from to t :
  duration_tt pr fb p scale from to (TArrival t) = duration_tt pr fb p scale from to (TDeparture t) /\
  distance_tt pr fb p from to (TArrival t) = distance_tt pr fb p from to (TDeparture t) /\
  duration_tt pr fb p scale from to (TArrival t) = duration pr fb p scale from to t.
Proof. repeat split. Qed.

(* ------------------------------------------------------------------ interpolation: monotone in time *)
Lemma interp_monotone t1 t2 tl tr lv rv : (tl < tr)%Q -> (t1 <= t2)%Q ->
  ((lv <= rv)%Q -> (interp t1 tl tr lv rv <= interp t2 tl tr lv rv)%Q) /\
  ((rv <= lv)%Q -> (interp t2 tl tr lv rv <= interp t1 tl tr lv rv)%Q).
Proof.
  intros Hlr H12. unfold interp.
  assert (0 < tr - tl)%Q as Hpos by lra.
  assert ((t1 - tl) / (tr - tl) <= (t2 - tl) / (tr - tl))%Q as Hr.
  { unfold Qdiv. apply Qmult_le_compat_r; [lra|]. apply Qlt_le_weak, Qinv_lt_0_compat. exact Hpos. }
  set (r1 := ((t1 - tl) / (tr - tl))%Q) in *. set (r2 := ((t2 - tl) / (tr - tl))%Q) in *.
  split; intros Hv; nra.
Qed.

Lemma interp_at_left tl tr lv rv : ~ (tr - tl == 0)%Q -> (interp tl tl tr lv rv == lv)%Q.
Proof. intros H. unfold interp. field. exact H. Qed.

Lemma interp_at_right tl tr lv rv : ~ (tr - tl == 0)%Q -> (interp tr tl tr lv rv == rv)%Q.
Proof. intros H. unfold interp. field. exact H. Qed.

Lemma interp_same t tl tr v : ~ (tr - tl == 0)%Q -> (interp t tl tr v v == v)%Q.
Proof. intros H. unfold interp. field. exact H. Qed.

(* ------------------------------------------------------------------ time-dependent documents *)
Section Timed.
  Variables (d : document) (prov : provider) (vs : list (option (nat * Q))) (v : dvehicle).
  Hypothesis Hread : doc_read d = DOk prov vs.
  Hypothesis Hknown : names_known d.
  Hypothesis Hv : In v (d_vehicles d).
  Hypothesis Hnd : NoDup (map pm_key (filter (pnamed (dv_profile v)) (d_matrices d))).

  Theorem doc_timed_at pm ts du di from to tt x w :
    In pm (d_matrices d) -> pm_profile pm = Some (dv_profile v) -> pm_ts pm = Some ts ->
    ztrunc (tt_time tt) = pm_key pm ->
    pm_data2 pm = inr (du, di) ->
    nth_error du (from * psize prov + to) = Some x -> nth_error di (from * psize prov + to) = Some w ->
    exists k, vehicle_profile (prof_names d) (dv_profile v) (dv_scale v) = Some (k, dscale v) /\
              duration_tt prov (doc_fallback d) k (dscale v) from to tt = Val (x * dscale v)%Q /\
              distance_tt prov (doc_fallback d) k from to tt = Val w.
  Proof.
    intros Hpm Hn Hts Ht Hd Hx Hw.
    destruct (doc_bridge _ _ _ _ Hread Hv) as [data [k [Hc [Hb [Hk [Hp _]]]]]].
    exists k. split; [exact Hp|].
    destruct (doc_member _ _ _ _ _ Hc Hk Hpm Hn) as [m [p [Hm [Hr Hi]]]].
    pose proof (conv_key _ _ _ _ Hr) as Hkey. destruct Hr as [Hmts [Hdat _]].
    rewrite Hd in Hdat. inversion Hdat; subst du di.
    unfold duration_tt, distance_tt. rewrite <- Hi.
    apply (aware_at_timestamp data prov (doc_fallback d) m); try assumption.
    - unfold has_ts. rewrite Hmts, Hts. reflexivity.
    - rewrite Hi, (doc_group_keys d data k (dv_profile v) Hc Hknown Hk). exact Hnd.
    - congruence.
  Qed.

  Theorem doc_timed_before_first pm ts du di from to tt x w :
    In pm (d_matrices d) -> pm_profile pm = Some (dv_profile v) -> pm_ts pm = Some ts ->
    (forall y, In y (d_matrices d) -> pm_profile y = Some (dv_profile v) -> pm_key pm <= pm_key y) ->
    ztrunc (tt_time tt) < pm_key pm ->
    pm_data2 pm = inr (du, di) ->
    nth_error du (from * psize prov + to) = Some x -> nth_error di (from * psize prov + to) = Some w ->
    exists k, vehicle_profile (prof_names d) (dv_profile v) (dv_scale v) = Some (k, dscale v) /\
              duration_tt prov (doc_fallback d) k (dscale v) from to tt = Val (x * dscale v)%Q /\
              distance_tt prov (doc_fallback d) k from to tt = Val w.
  Proof.
    intros Hpm Hn Hts Hmin Ht Hd Hx Hw.
    destruct (doc_bridge _ _ _ _ Hread Hv) as [data [k [Hc [Hb [Hk [Hp _]]]]]].
    exists k. split; [exact Hp|].
    destruct (doc_member _ _ _ _ _ Hc Hk Hpm Hn) as [m [p [Hm [Hr Hi]]]].
    pose proof (conv_key _ _ _ _ Hr) as Hkey. destruct Hr as [Hmts [Hdat _]].
    rewrite Hd in Hdat. inversion Hdat; subst du di.
    unfold duration_tt, distance_tt. rewrite <- Hi.
    apply (aware_before_first data prov (doc_fallback d) m); try assumption.
    - unfold has_ts. rewrite Hmts, Hts. reflexivity.
    - rewrite Hi, (doc_group_keys d data k (dv_profile v) Hc Hknown Hk). exact Hnd.
    - intros y Hy Hiy. rewrite Hi in Hiy.
      destruct (doc_member_back d data k (dv_profile v) y Hc Hknown Hk Hy Hiy) as [pmy [py [Hpmy [Hny Hry]]]].
      rewrite Hkey, (conv_key _ _ _ _ Hry). apply Hmin; assumption.
    - congruence.
  Qed.

  Theorem doc_timed_after_last pm ts du di from to tt x w :
    In pm (d_matrices d) -> pm_profile pm = Some (dv_profile v) -> pm_ts pm = Some ts ->
    (forall y, In y (d_matrices d) -> pm_profile y = Some (dv_profile v) -> pm_key y <= pm_key pm) ->
    pm_key pm < ztrunc (tt_time tt) ->
    pm_data2 pm = inr (du, di) ->
    nth_error du (from * psize prov + to) = Some x -> nth_error di (from * psize prov + to) = Some w ->
    exists k, vehicle_profile (prof_names d) (dv_profile v) (dv_scale v) = Some (k, dscale v) /\
              duration_tt prov (doc_fallback d) k (dscale v) from to tt = Val (x * dscale v)%Q /\
              distance_tt prov (doc_fallback d) k from to tt = Val w.
  Proof.
    intros Hpm Hn Hts Hmax Ht Hd Hx Hw.
    destruct (doc_bridge _ _ _ _ Hread Hv) as [data [k [Hc [Hb [Hk [Hp _]]]]]].
    exists k. split; [exact Hp|].
    destruct (doc_member _ _ _ _ _ Hc Hk Hpm Hn) as [m [p [Hm [Hr Hi]]]].
    pose proof (conv_key _ _ _ _ Hr) as Hkey. destruct Hr as [Hmts [Hdat _]].
    rewrite Hd in Hdat. inversion Hdat; subst du di.
    unfold duration_tt, distance_tt. rewrite <- Hi.
    apply (aware_after_last data prov (doc_fallback d) m); try assumption.
    - unfold has_ts. rewrite Hmts, Hts. reflexivity.
    - rewrite Hi, (doc_group_keys d data k (dv_profile v) Hc Hknown Hk). exact Hnd.
    - intros y Hy Hiy. rewrite Hi in Hiy.
      destruct (doc_member_back d data k (dv_profile v) y Hc Hknown Hk Hy Hiy) as [pmy [py [Hpmy [Hny Hry]]]].
      rewrite Hkey, (conv_key _ _ _ _ Hry). apply Hmax; assumption.
    - congruence.
  Qed.

  Theorem doc_timed_between_marked l r tl tr dul dil dur dir from to tt lv rv lw :
    In l (d_matrices d) -> In r (d_matrices d) ->
    pm_profile l = Some (dv_profile v) -> pm_profile r = Some (dv_profile v) ->
    pm_ts l = Some tl -> pm_ts r = Some tr ->
    pm_key l < ztrunc (tt_time tt) -> ztrunc (tt_time tt) < pm_key r ->
    (forall y, In y (d_matrices d) -> pm_profile y = Some (dv_profile v) -> ~ (pm_key l < pm_key y /\ pm_key y < pm_key r)) ->
    pm_data2 l = inr (dul, dil) -> pm_data2 r = inr (dur, dir) ->
    nth_error dul (from * psize prov + to) = Some lv ->
    nth_error dur (from * psize prov + to) = Some rv ->
    nth_error dil (from * psize prov + to) = Some lw ->
    exists k, vehicle_profile (prof_names d) (dv_profile v) (dv_scale v) = Some (k, dscale v) /\
              duration_tt prov (doc_fallback d) k (dscale v) from to tt
                = Val (interp_marked (tt_time tt) (inject_Z tl) (inject_Z tr) lv rv * dscale v)%Q /\
              distance_tt prov (doc_fallback d) k from to tt = Val lw.
  Proof.
    intros Hl Hr Hnl Hnr Htl Htr Hlt Hrt Hadj Hdl Hdr Hlv Hrv Hlw.
    destruct (doc_bridge _ _ _ _ Hread Hv) as [data [k [Hc [Hb [Hk [Hp _]]]]]].
    exists k. split; [exact Hp|].
    destruct (doc_member _ _ _ _ _ Hc Hk Hl Hnl) as [ml [pl [Hml [Hrl Hil]]]].
    destruct (doc_member _ _ _ _ _ Hc Hk Hr Hnr) as [mr [pr [Hmr [Hrr Hir]]]].
    pose proof (conv_key _ _ _ _ Hrl) as Hkl. pose proof (conv_key _ _ _ _ Hrr) as Hkr.
    destruct Hrl as [Hlts [Hldat _]]. destruct Hrr as [Hrts [Hrdat _]].
    rewrite Hdl in Hldat. inversion Hldat; subst dul dil. rewrite Hdr in Hrdat. inversion Hrdat; subst dur dir.
    assert (ts_of ml = inject_Z tl) as El by (unfold ts_of; rewrite Hlts, Htl; reflexivity).
    assert (ts_of mr = inject_Z tr) as Er by (unfold ts_of; rewrite Hrts, Htr; reflexivity).
    unfold duration_tt, distance_tt. rewrite <- Hil, <- El, <- Er.
    apply (aware_between_marked data prov (doc_fallback d) ml mr); try assumption.
    - unfold has_ts. rewrite Hlts, Htl. reflexivity.
    - congruence.
    - rewrite Hil, (doc_group_keys d data k (dv_profile v) Hc Hknown Hk). exact Hnd.
    - congruence.
    - congruence.
    - intros y Hy Hiy. rewrite Hil in Hiy.
      destruct (doc_member_back d data k (dv_profile v) y Hc Hknown Hk Hy Hiy) as [pmy [py [Hpmy [Hny Hry]]]].
      rewrite Hkl, Hkr, (conv_key _ _ _ _ Hry). apply Hadj; assumption.
  Qed.

  Theorem doc_timed_between l r tl tr dul dil dur dir from to tt lv rv lw :
    In l (d_matrices d) -> In r (d_matrices d) ->
    pm_profile l = Some (dv_profile v) -> pm_profile r = Some (dv_profile v) ->
    pm_ts l = Some tl -> pm_ts r = Some tr ->
    pm_key l < ztrunc (tt_time tt) -> ztrunc (tt_time tt) < pm_key r ->
    (forall y, In y (d_matrices d) -> pm_profile y = Some (dv_profile v) -> ~ (pm_key l < pm_key y /\ pm_key y < pm_key r)) ->
    pm_data2 l = inr (dul, dil) -> pm_data2 r = inr (dur, dir) ->
    nth_error dul (from * psize prov + to) = Some lv ->
    nth_error dur (from * psize prov + to) = Some rv ->
    nth_error dil (from * psize prov + to) = Some lw ->
    (0 <= lv)%Q -> (0 <= rv)%Q ->
    exists k, vehicle_profile (prof_names d) (dv_profile v) (dv_scale v) = Some (k, dscale v) /\
              duration_tt prov (doc_fallback d) k (dscale v) from to tt
                = Val (interp (tt_time tt) (inject_Z tl) (inject_Z tr) lv rv * dscale v)%Q /\
              distance_tt prov (doc_fallback d) k from to tt = Val lw.
  Proof.
    intros Hl Hr Hnl Hnr Htl Htr Hlt Hrt Hadj Hdl Hdr Hlv Hrv Hlw A B.
    rewrite <- (interp_marked_nonneg (tt_time tt) (inject_Z tl) (inject_Z tr) lv rv A B).
    exact (doc_timed_between_marked l r tl tr dul dil dur dir from to tt lv rv lw
             Hl Hr Hnl Hnr Htl Htr Hlt Hrt Hadj Hdl Hdr Hlv Hrv Hlw).
  Qed.

  (* one of the two bracketing entries is the unreachable marker: duration and distance are those of the LEFT matrix *)
  Theorem doc_timed_between_unreachable l r tl tr dul dil dur dir from to tt lv rv lw :
    In l (d_matrices d) -> In r (d_matrices d) ->
    pm_profile l = Some (dv_profile v) -> pm_profile r = Some (dv_profile v) ->
    pm_ts l = Some tl -> pm_ts r = Some tr ->
    pm_key l < ztrunc (tt_time tt) -> ztrunc (tt_time tt) < pm_key r ->
    (forall y, In y (d_matrices d) -> pm_profile y = Some (dv_profile v) -> ~ (pm_key l < pm_key y /\ pm_key y < pm_key r)) ->
    pm_data2 l = inr (dul, dil) -> pm_data2 r = inr (dur, dir) ->
    nth_error dul (from * psize prov + to) = Some lv ->
    nth_error dur (from * psize prov + to) = Some rv ->
    nth_error dil (from * psize prov + to) = Some lw ->
    (lv < 0)%Q \/ (rv < 0)%Q ->
    exists k, vehicle_profile (prof_names d) (dv_profile v) (dv_scale v) = Some (k, dscale v) /\
              duration_tt prov (doc_fallback d) k (dscale v) from to tt = Val (lv * dscale v)%Q /\
              distance_tt prov (doc_fallback d) k from to tt = Val lw.
  Proof.
    intros Hl Hr Hnl Hnr Htl Htr Hlt Hrt Hadj Hdl Hdr Hlv Hrv Hlw A.
    rewrite <- (interp_marked_neg (tt_time tt) (inject_Z tl) (inject_Z tr) lv rv A).
    exact (doc_timed_between_marked l r tl tr dul dil dur dir from to tt lv rv lw
             Hl Hr Hnl Hnr Htl Htr Hlt Hrt Hadj Hdl Hdr Hlv Hrv Hlw).
  Qed.
End Timed.

(* ------------------------------------------------------------------ unreachable entries *)
Lemma pm_data2_unreachable pm codes du di k e :
  pm_err pm = Some codes -> pm_data2 pm = inr (du, di) -> nth_error codes k = Some e -> e > 0 ->
  nth_error du k = Some (-1 # 1)%Q /\ nth_error di k = Some (-1 # 1)%Q.
Proof.
  intros He Hd Hk Hpos. unfold pm_data2 in Hd. rewrite He in Hd.
  destruct (length codes <? length (pm_dists pm))%nat; [discriminate|].
  destruct (negb _); [discriminate|].
  destruct (with_codes codes 0 (pm_times pm) (pm_dists pm)) as [[du' di']|] eqn:Ew; [|discriminate].
  inversion Hd; subst. destruct (with_codes_spec _ _ _ _ _ _ Ew k e Hk) as [A _]. exact (A Hpos).
Qed.

Lemma pm_data2_reachable pm codes du di k e :
  pm_err pm = Some codes -> pm_data2 pm = inr (du, di) -> nth_error codes k = Some e -> e <= 0 ->
  exists tv dv, nth_error (pm_times pm) k = Some tv /\ nth_error (pm_dists pm) k = Some dv /\
                nth_error du k = Some (inject_Z tv) /\ nth_error di k = Some (inject_Z dv).
Proof.
  intros He Hd Hk Hle. unfold pm_data2 in Hd. rewrite He in Hd.
  destruct (length codes <? length (pm_dists pm))%nat; [discriminate|].
  destruct (negb _); [discriminate|].
  destruct (with_codes codes 0 (pm_times pm) (pm_dists pm)) as [[du' di']|] eqn:Ew; [|discriminate].
  inversion Hd; subst. destruct (with_codes_spec _ _ _ _ _ _ Ew k e Hk) as [_ B]. exact (B Hle).
Qed.

Lemma pm_data2_no_codes pm du di k :
  pm_err pm = None -> pm_data2 pm = inr (du, di) ->
  nth_error du k = option_map inject_Z (nth_error (pm_times pm) k) /\
  nth_error di k = option_map inject_Z (nth_error (pm_dists pm) k).
Proof.
  intros He Hd. unfold pm_data2 in Hd. rewrite He in Hd. inversion Hd; subst. split; rewrite nth_error_map; reflexivity.
Qed.

(* since f7d2f27 the code list of an accepted matrix covers all distances *)
Lemma pm_data2_codes_cover pm codes du di :
  pm_err pm = Some codes -> pm_data2 pm = inr (du, di) ->
  (length (pm_dists pm) <= length codes)%nat /\ length du = length codes /\ length di = length codes.
Proof.
  intros He Hd. unfold pm_data2 in Hd. rewrite He in Hd.
  destruct (length codes <? length (pm_dists pm))%nat eqn:E; [discriminate|]. apply Nat.ltb_ge in E.
  destruct (negb _); [discriminate|].
  destruct (with_codes codes 0 (pm_times pm) (pm_dists pm)) as [[du' di']|] eqn:Ew; [|discriminate].
  inversion Hd; subst. split; [exact E|].
  clear - Ew. revert du di Ew. generalize 0%nat as i. induction codes as [|c r IH]; intros i du di Ew; cbn [with_codes] in Ew.
  - inversion Ew. split; reflexivity.
  - destruct (c >? 0).
    + destruct (with_codes r (S i) _ _) as [[a b]|] eqn:Er; [|discriminate]. inversion Ew; subst.
      destruct (IH _ _ _ Er). cbn [length]. split; congruence.
    + destruct (nth_error (pm_times pm) i); [|discriminate]. destruct (nth_error (pm_dists pm) i); [|discriminate].
      destruct (with_codes r (S i) _ _) as [[a b]|] eqn:Er; [|discriminate]. inversion Ew; subst.
      destruct (IH _ _ _ Er). cbn [length]. split; congruence.
Qed.

(* since repair 7d3c5fe: an accepted matrix with error codes has the three lengths equal *)
Lemma pm_data2_codes_fit pm codes du di :
  pm_err pm = Some codes -> pm_data2 pm = inr (du, di) ->
  length codes = length (pm_dists pm) /\ length (pm_times pm) = length (pm_dists pm).
Proof.
  intros He Hd. unfold pm_data2 in Hd. rewrite He in Hd.
  destruct (length codes <? length (pm_dists pm))%nat; [discriminate|].
  destruct ((length codes =? length (pm_dists pm))%nat && (length (pm_times pm) =? length (pm_dists pm))%nat) eqn:E;
    cbn [negb] in Hd; [|discriminate].
  apply andb_true_iff in E. destruct E as [A B]. apply Nat.eqb_eq in A, B. split; assumption.
Qed.

(* untimed documents: an entry flagged unreachable surfaces as a negative duration AND a negative distance for every
   vehicle of that profile (positive scale) *)
Theorem doc_unreachable_negative d prov vs v pm codes du di from to tt e :
  doc_read d = DOk prov vs ->
  (forall m, In m (d_matrices d) -> pm_ts m = None) ->
  In v (d_vehicles d) -> In pm (d_matrices d) -> pm_profile pm = Some (dv_profile v) ->
  pm_err pm = Some codes -> pm_data2 pm = inr (du, di) ->
  nth_error codes (from * psize prov + to) = Some e -> e > 0 -> (0 < dscale v)%Q ->
  exists k q w, vehicle_profile (prof_names d) (dv_profile v) (dv_scale v) = Some (k, dscale v) /\
    duration_tt prov (doc_fallback d) k (dscale v) from to tt = Val q /\ (q < 0)%Q /\
    distance_tt prov (doc_fallback d) k from to tt = Val w /\ (w < 0)%Q.
Proof.
  intros H Hnt Hv Hpm Hn He Hd Hk Hpos Hs.
  destruct (pm_data2_unreachable _ _ _ _ _ _ He Hd Hk Hpos) as [A B].
  destruct (doc_named_exact d prov vs v pm du di from to tt _ _ H Hnt Hv Hpm Hn Hd A B) as [k [Hp [_ [Hdu Hdi]]]].
  exists k, ((-1 # 1) * dscale v)%Q, (-1 # 1)%Q. repeat split; try assumption. nra.
Qed.

(* ================================================================== part G *)
(* ------------------------------------------------------------------ witnesses *)
(* two index locations 1, 0 (jobs listed in descending order), one vehicle per profile starting at 0 *)
Definition wlocs : list dloc := [LRef 1; LRef 0; LRef 0; LRef 0].
Definition wprofiles2 : list dprofile := [mkDP 1 None; mkDP 2 None].
Definition wvehicles2 : list dvehicle := [mkDV 1 None; mkDV 2 None].

(* F3: a matrix named 77 (no such fleet profile) in position 1 serves profile 2; in position 0 the same set is rejected *)
Definition wm1 := mkPM (Some 1%nat) None [0; 11; 12; 0] [0; 21; 22; 0] None.
Definition wm77 := mkPM (Some 77%nat) None [0; 31; 32; 0] [0; 41; 42; 0] None.
Definition doc_unknown_name := mkDoc wprofiles2 wvehicles2 wlocs [wm1; wm77].
Definition doc_unknown_name_swapped := mkDoc wprofiles2 wvehicles2 wlocs [wm77; wm1].

Theorem doc_unknown_name_by_position_refuted :
  exists d d' prov vs v,
    doc_read d = DOk prov vs /\ ~ names_known d /\ In v (d_vehicles d) /\
    (forall pm, In pm (d_matrices d) -> pm_profile pm <> Some (dv_profile v)) /\
    duration_tt prov (doc_fallback d) 1 (dscale v) 0 1 (TDeparture 0) = Val (31 # 1)%Q /\
    Permutation (d_matrices d) (d_matrices d') /\ d_profiles d' = d_profiles d /\
    doc_read d' = DRejected DProfileCount.
Proof.
  exists doc_unknown_name, doc_unknown_name_swapped. eexists. eexists. exists (mkDV 2 None).
  split; [vm_compute; reflexivity|]. split.
  { intros H. destruct (H wm77 (or_intror (or_introl eq_refl))) as [nm [Hn Hin]]. cbn in Hn. inversion Hn; subst.
    cbn in Hin. destruct Hin as [E|[E|[]]]; discriminate. }
  split; [right; left; reflexivity|]. split.
  { intros pm [<-|[<-|[]]]; cbn; discriminate. }
  split; [vm_compute; reflexivity|]. split; [apply perm_swap|]. split; [reflexivity|vm_compute; reflexivity].
Qed.

(* F4: errorCodes longer than the data with a positive surplus up to the next square: 2 locations, a 2x2 matrix with 9
   codes -> provider of size 3, cell (1,0) answers with the supplied cell (1,1) *)
Definition wm_codes9 := mkPM (Some 1%nat) None [0; 11; 12; 0] [0; 21; 22; 0] (Some [0; 0; 0; 0; 1; 1; 1; 1; 1]).
Definition doc_codes9 := mkDoc [mkDP 1 None] [mkDV 1 None] wlocs [wm_codes9].

(* about the reader BEFORE repair 7d3c5fe (doc_read_prefix); the repaired reader rejects the document *)
Theorem doc_error_codes_resize_prefix_refuted :
  exists d prov vs pm codes,
    doc_read_prefix d = DOk prov vs /\ d_matrices d = [pm] /\ pm_err pm = Some codes /\
    length (pm_dists pm) = 4%nat /\ length codes = 9%nat /\ ci_len (d_locs d) = 2%nat /\ psize prov = 3%nat /\
    nth_error (pm_times pm) (1 * 2 + 0) = Some 12 /\
    duration_tt prov (doc_fallback d) 0 1%Q 1 0 (TDeparture 0) = Val 0%Q /\
    doc_read d = DRejected DCodesLength.
Proof.
  exists doc_codes9. eexists. eexists. exists wm_codes9. eexists.
  split; [vm_compute; reflexivity|]. repeat split; vm_compute; reflexivity.
Qed.

(* F5: time-dependent document, the LEFT matrix flags (0,1) unreachable, the right one has 100: strictly between the two
   stamps the distance is the marker -1 but the duration is the interpolant -1 + rho * 101 >= 0 *)
Definition wm_t10 := mkPM (Some 1%nat) (Some 10) [0; 100; 12; 0] [0; 21; 22; 0] (Some [0; 1; 0; 0]).
Definition wm_t18 := mkPM (Some 1%nat) (Some 18) [0; 100; 12; 0] [0; 210; 220; 0] None.
Definition doc_timed_unreachable := mkDoc [mkDP 1 None] [mkDV 1 None] wlocs [wm_t10; wm_t18].

(* about the lookup BEFORE repair d8f731f (duration_prefix): the interpolant through the marker is non-negative while the
   distance is the marker; the repaired lookup returns the left value -1 *)
Theorem doc_timed_unreachable_negative_prefix_refuted :
  exists d prov vs l codes t q w,
    doc_read d = DOk prov vs /\ In l (d_matrices d) /\ pm_err l = Some codes /\ nth_error codes (0 * psize prov + 1) = Some 1 /\
    pm_ts l = Some 10 /\ (inject_Z 10 < t)%Q /\ (t < inject_Z 18)%Q /\
    duration_prefix prov (doc_fallback d) 0 1%Q 0 1 t = Val q /\ (0 <= q)%Q /\
    distance_tt prov (doc_fallback d) 0 0 1 (TDeparture t) = Val w /\ (w < 0)%Q /\
    duration_tt prov (doc_fallback d) 0 1%Q 0 1 (TDeparture t) = Val ((-1 # 1) * 1)%Q.
Proof.
  exists doc_timed_unreachable. eexists. eexists. exists wm_t10. eexists. exists (14 # 1)%Q. eexists. eexists.
  split; [vm_compute; reflexivity|]. split; [left; reflexivity|]. split; [reflexivity|]. split; [reflexivity|].
  split; [reflexivity|]. split; [vm_compute; reflexivity|]. split; [vm_compute; reflexivity|].
  split; [vm_compute; reflexivity|]. split; [vm_compute; discriminate|]. split; [vm_compute; reflexivity|].
  split; vm_compute; reflexivity.
Qed.

(* since repair d8f731f: strictly between two stamps an entry flagged by the LEFT matrix is negative, duration and distance *)
Theorem doc_timed_unreachable_negative d prov vs v l r tl tr codes dul dil dur dir from to tt rv e :
  doc_read d = DOk prov vs -> names_known d -> In v (d_vehicles d) ->
  NoDup (map pm_key (filter (pnamed (dv_profile v)) (d_matrices d))) ->
  In l (d_matrices d) -> In r (d_matrices d) ->
  pm_profile l = Some (dv_profile v) -> pm_profile r = Some (dv_profile v) ->
  pm_ts l = Some tl -> pm_ts r = Some tr ->
  pm_key l < ztrunc (tt_time tt) -> ztrunc (tt_time tt) < pm_key r ->
  (forall y, In y (d_matrices d) -> pm_profile y = Some (dv_profile v) -> ~ (pm_key l < pm_key y /\ pm_key y < pm_key r)) ->
  pm_err l = Some codes -> nth_error codes (from * psize prov + to) = Some e -> e > 0 ->
  pm_data2 l = inr (dul, dil) -> pm_data2 r = inr (dur, dir) ->
  nth_error dur (from * psize prov + to) = Some rv -> (0 < dscale v)%Q ->
  exists k, vehicle_profile (prof_names d) (dv_profile v) (dv_scale v) = Some (k, dscale v) /\
    duration_tt prov (doc_fallback d) k (dscale v) from to tt = Val ((-1 # 1) * dscale v)%Q /\
    ((-1 # 1) * dscale v < 0)%Q /\
    distance_tt prov (doc_fallback d) k from to tt = Val (-1 # 1)%Q.
Proof.
  intros H Hkn Hv Hnd Hl Hr Hnl Hnr Htl Htr Hlt Hrt Hadj He Hk Hpos Hdl Hdr Hrv Hs.
  destruct (pm_data2_unreachable _ _ _ _ _ _ He Hdl Hk Hpos) as [A B].
  destruct (doc_timed_between_unreachable d prov vs v H Hkn Hv Hnd l r tl tr dul dil dur dir from to tt _ _ _
              Hl Hr Hnl Hnr Htl Htr Hlt Hrt Hadj Hdl Hdr A Hrv B) as [k [Hp [Hdu Hdi]]]; [left; reflexivity|].
  exists k. split; [exact Hp|]. split; [exact Hdu|]. split; [nra|exact Hdi].
Qed.

(* ... and when only the RIGHT matrix flags it, the reachable left entry is returned unchanged (not a value falling towards -1) *)
Theorem doc_timed_right_unreachable_keeps_left d prov vs v l r tl tr codes dul dil dur dir from to tt lv lw e :
  doc_read d = DOk prov vs -> names_known d -> In v (d_vehicles d) ->
  NoDup (map pm_key (filter (pnamed (dv_profile v)) (d_matrices d))) ->
  In l (d_matrices d) -> In r (d_matrices d) ->
  pm_profile l = Some (dv_profile v) -> pm_profile r = Some (dv_profile v) ->
  pm_ts l = Some tl -> pm_ts r = Some tr ->
  pm_key l < ztrunc (tt_time tt) -> ztrunc (tt_time tt) < pm_key r ->
  (forall y, In y (d_matrices d) -> pm_profile y = Some (dv_profile v) -> ~ (pm_key l < pm_key y /\ pm_key y < pm_key r)) ->
  pm_err r = Some codes -> nth_error codes (from * psize prov + to) = Some e -> e > 0 ->
  pm_data2 l = inr (dul, dil) -> pm_data2 r = inr (dur, dir) ->
  nth_error dul (from * psize prov + to) = Some lv -> nth_error dil (from * psize prov + to) = Some lw ->
  exists k, vehicle_profile (prof_names d) (dv_profile v) (dv_scale v) = Some (k, dscale v) /\
    duration_tt prov (doc_fallback d) k (dscale v) from to tt = Val (lv * dscale v)%Q /\
    distance_tt prov (doc_fallback d) k from to tt = Val lw.
Proof.
  intros H Hkn Hv Hnd Hl Hr Hnl Hnr Htl Htr Hlt Hrt Hadj He Hk Hpos Hdl Hdr Hlv Hlw.
  destruct (pm_data2_unreachable _ _ _ _ _ _ He Hdr Hk Hpos) as [A B].
  apply (doc_timed_between_unreachable d prov vs v H Hkn Hv Hnd l r tl tr dul dil dur dir from to tt lv (-1 # 1)%Q lw
           Hl Hr Hnl Hnr Htl Htr Hlt Hrt Hadj Hdl Hdr Hlv A Hlw). right. reflexivity.
Qed.

(* ================================================================== part H *)
(* ------------------------------------------------------------------ f64::round as modelled by [qround] *)
Lemma qround_compat x y : (x == y)%Q -> qround x = qround y.
Proof.
  intros E. unfold qround.
  assert (Qle_bool 0 x = Qle_bool 0 y) as Eb.
  { destruct (Qle_bool 0 x) eqn:A, (Qle_bool 0 y) eqn:B; try reflexivity.
    - apply Qle_bool_iff in A. assert (Qle_bool 0 y = true) by (apply Qle_bool_iff; lra). congruence.
    - apply Qle_bool_iff in B. assert (Qle_bool 0 x = true) by (apply Qle_bool_iff; lra). congruence. }
  rewrite Eb. destruct (Qle_bool 0 y).
  - apply Qfloor_comp. lra.
  - f_equal. apply Qfloor_comp. lra.
Qed.

Lemma qround_zero : qround 0%Q = 0.
Proof. reflexivity. Qed.

Lemma qround_nonneg x : (0 <= x)%Q -> 0 <= qround x.
Proof.
  intros H. unfold qround. assert (Qle_bool 0 x = true) as -> by (apply Qle_bool_iff; exact H).
  change 0 with (Qfloor 0). apply Qfloor_resp_le. lra.
Qed.

(* the rounded value is within 1/2 of the argument *)
Lemma qround_near x : (inject_Z (qround x) - (1 # 2) <= x)%Q /\ (x <= inject_Z (qround x) + (1 # 2))%Q.
Proof.
  unfold qround. destruct (Qle_bool 0 x) eqn:E.
  - pose proof (Qfloor_le (x + (1 # 2))) as A. pose proof (Qlt_floor (x + (1 # 2))) as B.
    rewrite inject_Z_plus in B. change (inject_Z 1) with 1%Q in B. split; lra.
  - pose proof (Qfloor_le (- x + (1 # 2))) as A. pose proof (Qlt_floor (- x + (1 # 2))) as B.
    rewrite inject_Z_plus in B. change (inject_Z 1) with 1%Q in B. rewrite inject_Z_opp. split; lra.
Qed.

(* ------------------------------------------------------------------ structure of create_approx_matrices *)
Lemma approx_durations_compat (hav : nat -> nat -> Q) s s' locs : (s == s')%Q ->
  approx_durations hav qround s locs = approx_durations hav qround s' locs.
Proof.
  intros E. unfold approx_durations. apply flat_map_ext. intros a. apply map_ext. intros b.
  apply qround_compat. rewrite E. reflexivity.
Qed.

Lemma dedup_speeds_fold l : forall acc s,
  (exists s', In s' acc /\ Qeq_bool s' s = true) \/ In s l ->
  exists s', In s' (fold_left (fun acc s => if existsb (Qeq_bool s) acc then acc else acc ++ [s]) l acc) /\ Qeq_bool s' s = true.
Proof.
  induction l as [|a r IH]; intros acc s H; cbn [fold_left].
  - destruct H as [H|[]]. exact H.
  - apply IH. destruct H as [[s' [Hin He]]|[->|H]].
    + left. exists s'. split; [|exact He]. destruct (existsb _ acc); [exact Hin|apply in_or_app; left; exact Hin].
    + left. destruct (existsb (Qeq_bool s) acc) eqn:E.
      * apply existsb_exists in E. destruct E as [s' [Hin He]]. exists s'. split; [exact Hin|].
        apply Qeq_bool_iff. apply Qeq_bool_iff in He. symmetry. exact He.
      * exists s. split; [apply in_or_app; right; left; reflexivity|]. apply Qeq_bool_iff. reflexivity.
    + right. exact H.
Qed.

Lemma dedup_speeds_has l s : In s l -> exists s', In s' (dedup_speeds l) /\ Qeq_bool s' s = true.
Proof. intros H. apply dedup_speeds_fold. right. exact H. Qed.

Lemma speed_position_spec s l : (exists s', In s' l /\ Qeq_bool s' s = true) ->
  exists s'', nth_error l (speed_position s l) = Some s'' /\ Qeq_bool s'' s = true.
Proof.
  induction l as [|x r IH]; intros [s' [Hin He]]; [contradiction|]. cbn [speed_position].
  destruct (Qeq_bool x s) eqn:E; [exists x; split; [reflexivity|exact E]|].
  destruct Hin as [->|Hin]; [congruence|]. apply IH. exists s'. split; assumption.
Qed.

Theorem create_approx_matrices_spec hav d :
  create_approx_matrices hav d =
  map (fun p => mkPM (Some (dp_name p)) None (approx_durations hav qround (speed_of p) (approx_locs d))
                     (approx_distances hav qround (approx_locs d)) None) (d_profiles d).
Proof.
  unfold create_approx_matrices. destruct (d_profiles d) as [|p0 ps] eqn:Ep; [reflexivity|]. rewrite <- Ep.
  apply map_ext_in. intros p Hp.
  set (speeds := dedup_speeds (map speed_of (d_profiles d))).
  destruct (speed_position_spec (speed_of p) speeds) as [s'' [Hn He]].
  { apply dedup_speeds_has. apply in_map. exact Hp. }
  unfold approx_data.
  rewrite (nth_error_nth _ _ _ (map_nth_error _ _ _ Hn)). cbn [fst snd].
  f_equal. apply approx_durations_compat. apply Qeq_bool_iff. exact He.
Qed.

(* ------------------------------------------------------------------ size of an accepted document's provider *)
Lemma doc_size d prov vs pm du di n :
  doc_read d = DOk prov vs -> In pm (d_matrices d) -> pm_data2 pm = inr (du, di) -> length du = (n * n)%nat ->
  psize prov = n.
Proof.
  intros H Hpm Hd Hl. destruct (doc_read_ok _ _ _ H) as [_ [Ht _]].
  destruct (doc_transport_ok _ _ _ Ht) as [data [Hc [Hb _]]].
  destruct (Forall2_In_l _ _ _ _ (pm_convert2_rel _ _ _ _ Hc) Hpm) as [m [Hm [p [_ [Hdat _]]]]].
  rewrite Hd in Hdat. inversion Hdat; subst. eapply size_exact; eassumption.
Qed.

(* ------------------------------------------------------------------ coordinate documents read without matrices *)
Section ApproxDocP.
  Variable hav : nat -> nat -> Q.

  Theorem doc_approx_exact d prov vs v p i j a b tt :
    doc_read_approx hav d = DOk prov vs -> ci_has_indices (d_locs d) = false ->
    In v (d_vehicles d) -> In p (d_profiles d) -> dp_name p = dv_profile v ->
    nth_error (approx_locs d) i = Some a -> nth_error (approx_locs d) j = Some b ->
    psize prov = length (approx_locs d) /\
    exists k, vehicle_profile (prof_names d) (dv_profile v) (dv_scale v) = Some (k, dscale v) /\
      duration_tt prov (doc_fallback d) k (dscale v) i j tt
        = Val (inject_Z (qround (hav a b / speed_of p)) * dscale v)%Q /\
      distance_tt prov (doc_fallback d) k i j tt = Val (inject_Z (qround (hav a b))).
  Proof.
    intros H Hni Hv Hp Hname Ha Hb. unfold doc_read_approx in H.
    set (d' := doc_with_approx hav d) in *.
    set (locs := approx_locs d) in *.
    set (pm := mkPM (Some (dp_name p)) None (approx_durations hav qround (speed_of p) locs)
                    (approx_distances hav qround locs) None).
    assert (d_matrices d' = create_approx_matrices hav d) as Hm by (unfold d', doc_with_approx; cbn; rewrite Hni; reflexivity).
    assert (In pm (d_matrices d')) as Hpm.
    { rewrite Hm, create_approx_matrices_spec. unfold pm, locs.
      apply (in_map (fun p => mkPM (Some (dp_name p)) None (approx_durations hav qround (speed_of p) (approx_locs d))
                                   (approx_distances hav qround (approx_locs d)) None)). exact Hp. }
    assert (forall m, In m (d_matrices d') -> pm_ts m = None) as Hnt.
    { intros m Hin. rewrite Hm, create_approx_matrices_spec in Hin. apply in_map_iff in Hin.
      destruct Hin as [q [<- _]]. reflexivity. }
    assert (pm_data2 pm = inr (map inject_Z (pm_times pm), map inject_Z (pm_dists pm))) as Hd by reflexivity.
    assert (psize prov = length locs) as Hs.
    { apply (doc_size d' prov vs pm _ _ (length locs) H Hpm Hd).
      rewrite map_length. unfold pm. cbn [pm_times]. unfold approx_durations. apply length_grid. }
    split; [exact Hs|].
    pose proof (nth_error_grid (fun a b => qround (hav a b / speed_of p)%Q) locs locs i j a b Ha Hb) as G1.
    pose proof (nth_error_grid (fun a b => qround (hav a b)) locs locs i j a b Ha Hb) as G2.
    cbn beta in G1, G2.
    destruct (doc_named_exact d' prov vs v pm (map inject_Z (pm_times pm)) (map inject_Z (pm_dists pm)) i j tt
               (inject_Z (qround (hav a b / speed_of p))) (inject_Z (qround (hav a b))) H Hnt Hv Hpm)
      as [k [Hvp [_ [Hdu Hdi]]]].
    - cbn. f_equal. exact Hname.
    - exact Hd.
    - rewrite Hs. apply map_nth_error. exact G1.
    - rewrite Hs. apply map_nth_error. exact G2.
    - exists k. split; [exact Hvp|]. split; [exact Hdu|exact Hdi].
  Qed.

  Hypothesis hav_sym : forall a b, (hav a b == hav b a)%Q.
  Hypothesis hav_diag : forall a, (hav a a == 0)%Q.

  Theorem doc_approx_symmetric_zero_diag d prov vs v p i j a b tt :
    doc_read_approx hav d = DOk prov vs -> ci_has_indices (d_locs d) = false ->
    In v (d_vehicles d) -> In p (d_profiles d) -> dp_name p = dv_profile v ->
    nth_error (approx_locs d) i = Some a -> nth_error (approx_locs d) j = Some b ->
    exists k, vehicle_profile (prof_names d) (dv_profile v) (dv_scale v) = Some (k, dscale v) /\
      duration_tt prov (doc_fallback d) k (dscale v) i j tt = duration_tt prov (doc_fallback d) k (dscale v) j i tt /\
      distance_tt prov (doc_fallback d) k i j tt = distance_tt prov (doc_fallback d) k j i tt /\
      duration_tt prov (doc_fallback d) k (dscale v) i i tt = Val (inject_Z 0 * dscale v)%Q /\
      distance_tt prov (doc_fallback d) k i i tt = Val (inject_Z 0).
  Proof.
    intros H Hni Hv Hp Hname Ha Hb.
    destruct (doc_approx_exact d prov vs v p i j a b tt H Hni Hv Hp Hname Ha Hb) as [_ [k [Hvp [D1 S1]]]].
    destruct (doc_approx_exact d prov vs v p j i b a tt H Hni Hv Hp Hname Hb Ha) as [_ [k2 [Hvp2 [D2 S2]]]].
    destruct (doc_approx_exact d prov vs v p i i a a tt H Hni Hv Hp Hname Ha Ha) as [_ [k3 [Hvp3 [D3 S3]]]].
    rewrite Hvp in Hvp2, Hvp3. inversion Hvp2; subst k2. inversion Hvp3; subst k3.
    exists k. split; [exact Hvp|].
    rewrite D1, D2, S1, S2, D3, S3.
    rewrite (qround_compat (hav b a / speed_of p) (hav a b / speed_of p)) by (rewrite (hav_sym b a); reflexivity).
    rewrite (qround_compat (hav b a) (hav a b)) by apply hav_sym.
    rewrite (qround_compat (hav a a / speed_of p) 0) by (rewrite (hav_diag a); unfold Qdiv; ring).
    rewrite (qround_compat (hav a a) 0) by apply hav_diag.
    repeat split.
  Qed.
End ApproxDocP.

(* ================================================================== part I *)
(* ------------------------------------------------------------------ consistent documents, spelled out independently of the code *)
(* every matrix is n x n: travelTimes, distances and (when present) errorCodes all have n*n entries *)
Definition pm_wellformed (n : nat) (pm : pmatrix) : Prop :=
  length (pm_times pm) = (n * n)%nat /\ length (pm_dists pm) = (n * n)%nat /\
  (forall codes, pm_err pm = Some codes -> length codes = (n * n)%nat).

(* how matrices are attached to fleet profiles: by position (no names, no timestamps, one per profile), or by name with
   exactly one untimed matrix per fleet profile, or by name with at least two timestamped matrices per fleet profile *)
Definition naming_consistent (names : list nat) (pms : list pmatrix) : Prop :=
     ((forall pm, In pm pms -> pm_profile pm = None /\ pm_ts pm = None) /\ length pms = length names)
  \/ ((forall pm, In pm pms -> pm_ts pm = None) /\ Permutation (map pm_profile pms) (map Some names))
  \/ ((forall pm, In pm pms -> pm_ts pm <> None /\ exists nm, pm_profile pm = Some nm /\ In nm names) /\
      (forall nm, In nm names -> (2 <= length (filter (pnamed nm) pms))%nat)).

(* the routing rules of the document format (E1500..E1505), n = matrix side *)
Definition routing_rules (d : document) (n : nat) : Prop :=
  NoDup (prof_names d) /\ d_profiles d <> [] /\
  (forall v, In v (d_vehicles d) -> In (dv_profile v) (prof_names d)) /\
  ~ (ci_has_coords (d_locs d) = true /\ ci_has_indices (d_locs d) = true) /\
  (ci_max_index (d_locs d) + 1 = n)%nat /\ (forall i, In (LRef i) (d_locs d) -> (i < n)%nat).

Definition doc_consistent (d : document) : Prop :=
  exists n, (forall pm, In pm (d_matrices d) -> pm_wellformed n pm) /\ routing_rules d n /\
            naming_consistent (prof_names d) (d_matrices d).

(* ------------------------------------------------------------------ helpers *)
Lemma ci_direct_In_fold locs : forall acc e,
  In e (fold_left ci_add locs acc) -> In e acc \/ In (fst e) locs.
Proof.
  induction locs as [|l r IH]; intros acc e H; cbn [fold_left] in H; [left; exact H|].
  destruct (IH _ _ H) as [Ha|Hr]; [|right; right; exact Hr].
  unfold ci_add in Ha. destruct (existsb _ acc); [left; exact Ha|].
  destruct l; try (apply in_app_or in Ha; destruct Ha as [Ha|[<-|[]]]; [left; exact Ha|right; left; reflexivity]).
  left; exact Ha.
Qed.

Lemma ci_direct_In locs e : In e (ci_direct locs) -> In (fst e) locs.
Proof. intros H. destruct (ci_direct_In_fold locs [] e H) as [[]|H']. exact H'. Qed.

Lemma with_codes_total times dists codes : forall i,
  (i + length codes <= length times)%nat -> (i + length codes <= length dists)%nat ->
  exists du di, with_codes codes i times dists = Some (du, di).
Proof.
  induction codes as [|c r IH]; intros i H1 H2; cbn [with_codes]; [eexists; eexists; reflexivity|].
  cbn [length] in H1, H2.
  destruct (IH (S i)) as [du [di E]]; [lia|lia|]. rewrite E.
  destruct (c >? 0); [eexists; eexists; reflexivity|].
  destruct (nth_error times i) eqn:Et; [|apply nth_error_None in Et; lia].
  destruct (nth_error dists i) eqn:Ed; [|apply nth_error_None in Ed; lia].
  eexists; eexists; reflexivity.
Qed.

Lemma pm_data2_total n pm : pm_wellformed n pm ->
  exists du di, pm_data2 pm = inr (du, di) /\ length du = (n * n)%nat /\ length di = (n * n)%nat.
Proof.
  intros [Ht [Hd Hc]]. unfold pm_data2. destruct (pm_err pm) as [codes|] eqn:Ee.
  - specialize (Hc codes eq_refl). rewrite Hd, Hc, Ht, Nat.ltb_irrefl, Nat.eqb_refl. cbn [andb negb].
    destruct (with_codes_total (pm_times pm) (pm_dists pm) codes 0) as [du [di E]]; [lia|lia|].
    exists du, di. rewrite E. split; [reflexivity|].
    assert (pm_data2 pm = inr (du, di)) as Hd2.
    { unfold pm_data2. rewrite Ee, Hd, Hc, Ht, Nat.ltb_irrefl, Nat.eqb_refl. cbn [andb negb]. rewrite E. reflexivity. }
    destruct (pm_data2_codes_cover pm codes du di Ee Hd2) as [_ [A B]]. split; congruence.
  - eexists; eexists. split; [reflexivity|]. rewrite !map_length. split; assumption.
Qed.

Lemma pm_convert2_total names pms : forall pos,
  (forall pm, In pm pms -> exists du di, pm_data2 pm = inr (du, di)) ->
  exists data, pm_convert2 names pos pms = inr data.
Proof.
  induction pms as [|x r IH]; intros pos H; cbn [pm_convert2]; [eexists; reflexivity|].
  destruct (H x (or_introl eq_refl)) as [du [di E]]. rewrite E.
  destruct (IH (S pos)) as [ms Em]; [intros pm Hpm; apply H; right; exact Hpm|]. rewrite Em. eexists; reflexivity.
Qed.

Lemma pm_convert2_positional names : forall pms pos data,
  pm_convert2 names pos pms = inr data -> (forall pm, In pm pms -> pm_profile pm = None) ->
  map m_index data = seq pos (length pms).
Proof.
  induction pms as [|x r IH]; intros pos data H Hn; cbn [pm_convert2] in H.
  - inversion H. reflexivity.
  - destruct (pm_data2 x) as [e|[du di]]; [discriminate|].
    destruct (pm_convert2 names (S pos) r) as [e|ms] eqn:Er; [discriminate|]. inversion H; subst.
    cbn [map length seq m_index]. f_equal.
    + unfold pm_index. rewrite (Hn x (or_introl eq_refl)). reflexivity.
    + apply IH; [exact Er|]. intros pm Hpm. apply Hn. right. exact Hpm.
Qed.

Lemma Forall2_map_eq_in {A B C} (R : A -> B -> Prop) (f : A -> C) (g : B -> C) l l' :
  Forall2 R l l' -> (forall a b, In a l -> R a b -> f a = g b) -> map f l = map g l'.
Proof.
  induction 1 as [|x y l l' Hxy _ IH]; intros Hfg; cbn [map]; [reflexivity|].
  rewrite (Hfg x y (or_introl eq_refl) Hxy), IH; [reflexivity|]. intros a b Ha. apply Hfg. right. exact Ha.
Qed.

Lemma Forall2_len {A B} (R : A -> B -> Prop) l l' : Forall2 R l l' -> length l = length l'.
Proof. induction 1; cbn [length]; congruence. Qed.

Lemma distinct_count_set (l s : list nat) : NoDup s -> (forall x, In x l <-> In x s) -> distinct_count l = length s.
Proof.
  intros Hs Hiff. unfold distinct_count. apply Permutation_length. apply NoDup_Permutation; [apply profile_names_NoDup|exact Hs|].
  intros x. rewrite profile_names_In. apply Hiff.
Qed.

Lemma existsb_all_false {A} (f : A -> bool) l : (forall x, In x l -> f x = false) -> existsb f l = false.
Proof.
  intros H. destruct (existsb f l) eqn:E; [|reflexivity]. apply existsb_exists in E. destruct E as [x [Hx Hf]].
  rewrite (H x Hx) in Hf. discriminate.
Qed.

(* index of the matrix' profile name, as an option *)
Definition pm_idx (names : list nat) (pm : pmatrix) : option nat :=
  match pm_profile pm with Some nm => index_of nm names | None => None end.

Lemma conv_idx_known names p pm m nm : conv_rel names p pm m -> pm_profile pm = Some nm -> In nm names ->
  Some (m_index m) = pm_idx names pm.
Proof.
  intros Hr Hn Hin. destruct (index_of_In nm names Hin) as [k Hk].
  unfold pm_idx. rewrite Hn, Hk. f_equal. eapply conv_index_known; eassumption.
Qed.

(* ------------------------------------------------------------------ consistent documents are accepted *)
Theorem doc_consistent_accepted d : doc_consistent d -> exists prov vs, doc_read d = DOk prov vs.
Proof.
  intros [n [Hwf [[Hnd [Hne [Hveh [Hmix [Hmax Href]]]]] Hnam]]].
  set (names := prof_names d) in *. set (pms := d_matrices d) in *.
  assert (profile_names names = names) as Hpn by (apply profile_names_id; exact Hnd).
  assert (names <> []) as Hnne.
  { unfold names, prof_names. destruct (d_profiles d); [congruence|discriminate]. }
  (* every fleet profile has a matrix; so there are at least as many matrices as profiles *)
  assert (length names <= length pms)%nat as Hlen.
  { destruct Hnam as [[_ E]|[[_ Hp]|[Hk Hc]]].
    - lia.
    - apply Permutation_length in Hp. rewrite !map_length in Hp. lia.
    - rewrite <- (map_length Some names), <- (map_length pm_profile pms).
      apply NoDup_incl_length.
      + apply FinFun.Injective_map_NoDup; [intros a b E; congruence|exact Hnd].
      + intros o Ho. apply in_map_iff in Ho. destruct Ho as [nm [<- Hnm]].
        specialize (Hc nm Hnm). destruct (filter (pnamed nm) pms) as [|pm r] eqn:Ef; [cbn in Hc; lia|].
        assert (In pm (filter (pnamed nm) pms)) as Hin by (rewrite Ef; left; reflexivity).
        apply filter_In in Hin. destruct Hin as [Hin Hpn']. apply pnamed_true in Hpn'.
        rewrite <- Hpn'. apply in_map. exact Hin. }
  assert (pms <> []) as Hpne.
  { destruct pms; [|discriminate]. destruct names; [congruence|cbn in Hlen; lia]. }
  (* validation *)
  assert (validate_routing d = []) as Hval.
  { unfold validate_routing.
    assert (e1500 d = false) as ->.
    { unfold e1500. fold names. rewrite Hpn, Nat.eqb_refl. reflexivity. }
    assert (e1501 d = false) as -> by (unfold e1501; destruct (d_profiles d); [congruence|reflexivity]).
    assert (e1502 d = false) as ->.
    { unfold e1502. destruct (ci_has_coords _) eqn:A, (ci_has_indices _) eqn:B; try reflexivity. exfalso. apply Hmix. split; reflexivity. }
    assert (e1503 d = false) as ->.
    { unfold e1503. fold pms. destruct pms; [congruence|]. apply andb_false_r. }
    assert (e1504 d = false) as ->.
    { unfold e1504. fold pms. destruct pms as [|m0 r] eqn:Ep; [reflexivity|].
      destruct (Hwf m0 (or_introl eq_refl)) as [_ [Hd _]]. rewrite Hd, rsqrt_square, Hmax, Nat.eqb_refl.
      rewrite existsb_all_false; [reflexivity|].
      intros e He. apply ci_direct_In in He. destruct (fst e) as [i| |]; try reflexivity.
      apply Nat.leb_gt. apply Href. exact He. }
    assert (e1505 d = false) as ->.
    { unfold e1505. apply existsb_all_false. intros v Hv. apply negb_false_iff, nmem_In. fold names. apply Hveh. exact Hv. }
    reflexivity. }
  (* conversion *)
  destruct (pm_convert2_total names pms 0) as [data Hc].
  { intros pm Hpm. destruct (pm_data2_total n pm (Hwf pm Hpm)) as [du [di [E _]]]. exists du, di. exact E. }
  pose proof (pm_convert2_rel _ _ _ _ Hc) as Hrel.
  pose proof (pm_convert2_length _ _ _ _ Hc) as Hdl.
  assert (forall m, In m data -> length (m_dur m) = (n * n)%nat /\ length (m_dist m) = (n * n)%nat) as Hsq.
  { intros m Hm. destruct (Forall2_In_r _ _ _ _ Hrel Hm) as [pm [Hpm [p [_ [Hd _]]]]].
    destruct (pm_data2_total n pm (Hwf pm Hpm)) as [du [di [E [L1 L2]]]]. rewrite E in Hd. inversion Hd; subst. split; assumption. }
  assert (forall m, In m data -> exists pm p, In pm pms /\ conv_rel names p pm m) as Hback.
  { intros m Hm. destruct (Forall2_In_r _ _ _ _ Hrel Hm) as [pm [Hpm [p Hr]]]. exists pm, p. split; assumption. }
  (* indices *)
  assert (distinct_count (map m_index data) = length names /\
          (((forall m, In m data -> m_ts m = None) /\ Permutation (map m_index data) (seq 0 (length data)))
           \/ ((forall m, In m data -> m_ts m <> None) /\ (forall m, In m data -> length (group_raw data (m_index m)) <> 1%nat)))) as [Hdc Hbr].
  { destruct Hnam as [[Hpos E]|[[Hnt Hp]|[Hk Hcnt]]].
    - assert (map m_index data = seq 0 (length pms)) as Hseq.
      { apply (pm_convert2_positional names pms 0 data Hc). intros pm Hpm. apply (Hpos pm Hpm). }
      split.
      + rewrite Hseq. unfold distinct_count. rewrite profile_names_id by apply seq_NoDup. rewrite seq_length. exact E.
      + left. split; [|rewrite Hseq, Hdl; reflexivity].
        intros m Hm. destruct (Hback m Hm) as [pm [p [Hpm [Ht _]]]]. rewrite Ht. destruct (Hpos pm Hpm) as [_ ->]. reflexivity.
    - assert (forall pm, In pm pms -> exists nm, pm_profile pm = Some nm /\ In nm names) as Hk.
      { intros pm Hpm. assert (In (pm_profile pm) (map Some names)) as Hin by (apply (Permutation_in _ Hp), in_map; exact Hpm).
        apply in_map_iff in Hin. destruct Hin as [nm [E Hnm]]. exists nm. split; [symmetry; exact E|exact Hnm]. }
      assert (map Some (map m_index data) = map (pm_idx names) pms) as E1.
      { rewrite map_map. symmetry. eapply Forall2_map_eq_in; [exact Hrel|].
        intros pm m Hpm [p Hr]. destruct (Hk pm Hpm) as [nm [Hn Hin]]. symmetry. eapply conv_idx_known; eassumption. }
      assert (Permutation (map m_index data) (seq 0 (length names))) as Hperm.
      { apply (Permutation_map (fun o : option nat => match o with Some k => k | None => O end)) with
            (l := map Some (map m_index data)) (l' := map Some (seq 0 (length names))) in E1 || idtac.
        assert (Permutation (map Some (map m_index data)) (map Some (seq 0 (length names)))) as Hp2.
        { rewrite E1. rewrite <- (index_of_seq names Hnd).
          replace (map (pm_idx names) pms) with
              (map (fun o : option nat => match o with Some nm => index_of nm names | None => None end) (map pm_profile pms))
            by (rewrite map_map; reflexivity).
          replace (map (fun n0 => index_of n0 names) names) with
              (map (fun o : option nat => match o with Some nm => index_of nm names | None => None end) (map Some names))
            by (rewrite map_map; reflexivity).
          apply Permutation_map. exact Hp. }
        apply (Permutation_map (fun o : option nat => match o with Some k => k | None => O end)) in Hp2.
        rewrite !map_map in Hp2. rewrite !map_id in Hp2. exact Hp2. }
      assert (length data = length names) as Hl by (rewrite <- (map_length m_index data), (Permutation_length Hperm), seq_length; reflexivity).
      split.
      + unfold distinct_count. rewrite profile_names_id.
        * rewrite map_length. exact Hl.
        * eapply Permutation_NoDup; [symmetry; exact Hperm|apply seq_NoDup].
      + left. split; [|rewrite Hl; exact Hperm].
        intros m Hm. destruct (Hback m Hm) as [pm [p [Hpm [Ht _]]]]. rewrite Ht, (Hnt pm Hpm). reflexivity.
    - assert (names_known d) as Hkn by (intros pm Hpm; destruct (Hk pm Hpm) as [_ H]; exact H).
      split.
      + rewrite <- (seq_length (length names) 0). apply distinct_count_set; [apply seq_NoDup|].
        intros k. rewrite in_seq. split.
        * intros Hin. apply in_map_iff in Hin. destruct Hin as [m [<- Hm]].
          destruct (Hback m Hm) as [pm [p [Hpm Hr]]]. destruct (Hk pm Hpm) as [_ [nm [Hn Hin]]].
          destruct (index_of_In nm names Hin) as [k Hkk].
          rewrite (conv_index_known _ _ _ _ _ _ Hr Hn Hkk). pose proof (index_of_lt _ _ _ Hkk). lia.
        * intros [_ Hlt]. destruct (nth_error names k) as [nm|] eqn:En; [|apply nth_error_None in En; lia].
          assert (In nm names) as Hnm by (eapply nth_error_In; exact En).
          destruct (index_of_In nm names Hnm) as [k' Hk'].
          assert (k' = k) as ->.
          { pose proof (index_of_nth _ _ _ Hk') as En'. apply (proj1 (NoDup_nth_error names) Hnd); [apply nth_error_Some; congruence|congruence]. }
          specialize (Hcnt nm Hnm). destruct (filter (pnamed nm) pms) as [|pm r] eqn:Ef; [cbn in Hcnt; lia|].
          assert (In pm (filter (pnamed nm) pms)) as Hin by (rewrite Ef; left; reflexivity).
          apply filter_In in Hin. destruct Hin as [Hin Hpn']. apply pnamed_true in Hpn'.
          destruct (Forall2_In_l _ _ _ _ Hrel Hin) as [m [Hm [p Hr]]].
          apply in_map_iff. exists m. split; [|exact Hm]. eapply conv_index_known; eassumption.
      + right. split.
        * intros m Hm. destruct (Hback m Hm) as [pm [p [Hpm [Ht _]]]]. rewrite Ht. destruct (Hk pm Hpm) as [Hts _].
          destruct (pm_ts pm); [discriminate|congruence].
        * intros m Hm. destruct (Hback m Hm) as [pm [p [Hpm Hr]]]. destruct (Hk pm Hpm) as [_ [nm [Hn Hin]]].
          destruct (index_of_In nm names Hin) as [k Hkk].
          rewrite (conv_index_known _ _ _ _ _ _ Hr Hn Hkk).
          assert (pm_convert2 (profile_names (prof_names d)) 0 (d_matrices d) = inr data) as Hc' by (fold names pms; rewrite Hpn; exact Hc).
          assert (index_of nm (profile_names (prof_names d)) = Some k) as Hkk' by (fold names; rewrite Hpn; exact Hkk).
          pose proof (Forall2_len _ _ _ (doc_group d data k nm Hc' Hkn Hkk')) as Hgl.
          fold pms in Hgl. specialize (Hcnt nm Hin). lia. }
  (* the core constructor *)
  destruct (consistent_accepted data) as [prov Hb].
  { split; [|split].
    - intros ->. cbn in Hdl. destruct pms; [congruence|discriminate].
    - exists n. exact Hsq.
    - exact Hbr. }
  exists prov. eexists. unfold doc_read. rewrite Hval. unfold doc_transport. fold names pms.
  assert ((negb (forallb (fun m => is_some (pm_profile m)) pms) && negb (forallb (fun m => negb (is_some (pm_profile m))) pms)) = false) as ->.
  { destruct Hnam as [[Hpos _]|[[_ Hp]|[Hk _]]].
    - assert (forallb (fun m => negb (is_some (pm_profile m))) pms = true) as ->; [|apply andb_false_r].
      apply forallb_forall. intros m Hm. destruct (Hpos m Hm) as [-> _]. reflexivity.
    - assert (forallb (fun m => is_some (pm_profile m)) pms = true) as ->; [|reflexivity].
      apply forallb_forall. intros m Hm.
      assert (In (pm_profile m) (map Some names)) as Hin by (apply (Permutation_in _ Hp), in_map; exact Hm).
      apply in_map_iff in Hin. destruct Hin as [nm [<- _]]. reflexivity.
    - assert (forallb (fun m => is_some (pm_profile m)) pms = true) as ->; [|reflexivity].
      apply forallb_forall. intros m Hm. destruct (Hk m Hm) as [_ [nm [-> _]]]. reflexivity. }
  assert ((existsb (fun m => negb (is_some (pm_profile m))) pms && existsb (fun m => is_some (pm_ts m)) pms) = false) as ->.
  { destruct Hnam as [[Hpos _]|[[_ Hp]|[Hk _]]].
    - rewrite (existsb_all_false (fun m => is_some (pm_ts m))); [apply andb_false_r|].
      intros m Hm. destruct (Hpos m Hm) as [_ ->]. reflexivity.
    - rewrite existsb_all_false; [reflexivity|]. intros m Hm.
      assert (In (pm_profile m) (map Some names)) as Hin by (apply (Permutation_in _ Hp), in_map; exact Hm).
      apply in_map_iff in Hin. destruct Hin as [nm [<- _]]. reflexivity.
    - rewrite existsb_all_false; [reflexivity|]. intros m Hm. destruct (Hk m Hm) as [_ [nm [-> _]]]. reflexivity. }
  rewrite Hpn. assert ((length pms <? length names)%nat = false) as -> by (apply Nat.ltb_ge; exact Hlen).
  rewrite Hc, Hdc, Nat.eqb_refl. cbn [negb]. rewrite Hb. reflexivity.
Qed.

(* ================================================================== part J *)
(* the two places where the code is more liberal than [doc_consistent] (findings F3, F4) *)
Definition codes_fit (d : document) : Prop :=
  forall pm codes, In pm (d_matrices d) -> pm_err pm = Some codes ->
    length codes = length (pm_dists pm) /\ length (pm_times pm) = length (pm_dists pm).
Definition names_known_or_absent (d : document) : Prop :=
  forall pm nm, In pm (d_matrices d) -> pm_profile pm = Some nm -> In nm (prof_names d).

Lemma ci_direct_complete_fold locs : forall acc l,
  (In l locs \/ exists e, In e acc /\ loc_eqb (fst e) l = true) -> is_custom l = false ->
  exists e, In e (fold_left ci_add locs acc) /\ loc_eqb (fst e) l = true.
Proof.
  induction locs as [|x r IH]; intros acc l H Hc; cbn [fold_left].
  - destruct H as [[]|H]. exact H.
  - apply IH; [|exact Hc]. destruct H as [[->|H]|[e [He Hl]]].
    + right. unfold ci_add. destruct (existsb (fun e => loc_eqb (fst e) l) acc) eqn:E.
      * apply existsb_exists in E. exact E.
      * destruct l; try discriminate.
        -- exists (LRef i, i). split; [apply in_or_app; right; left; reflexivity|cbn; apply Nat.eqb_refl].
        -- exists (LCoord c, length acc). split; [apply in_or_app; right; left; reflexivity|cbn; apply Nat.eqb_refl].
    + left. exact H.
    + right. exists e. split; [|exact Hl]. unfold ci_add. destruct (existsb _ acc); [exact He|].
      destruct x; try (apply in_or_app; left; exact He). exact He.
Qed.

Lemma ci_direct_has_ref locs i : In (LRef i) locs -> exists e, In e (ci_direct locs) /\ fst e = LRef i.
Proof.
  intros H. destruct (ci_direct_complete_fold locs [] (LRef i)) as [e [He Hl]]; [left; exact H|reflexivity|].
  exists e. split; [exact He|]. destruct (fst e) as [j| |]; cbn in Hl; try discriminate. apply Nat.eqb_eq in Hl. congruence.
Qed.

Lemma nth_error_seq_names (names : list nat) : map (nth_error names) (seq 0 (length names)) = map Some names.
Proof.
  induction names as [|x r IH]; [reflexivity|]. cbn [length seq map nth_error]. f_equal.
  rewrite <- seq_shift, map_map. cbn [nth_error]. exact IH.
Qed.

Theorem doc_accepted_consistent d prov vs :
  doc_read d = DOk prov vs -> names_known_or_absent d -> doc_consistent d.
Proof.
  intros H Hkn. destruct (doc_read_ok _ _ _ H) as [Hval [Ht _]].
  destruct (validate_nil _ Hval) as [E0 [E1 [E2 [E3 [E4 E5]]]]].
  destruct (doc_transport_ok _ _ _ Ht) as [data [Hc [Hb [Hdc [Hlen Hor]]]]].
  set (names := prof_names d) in *. set (pms := d_matrices d) in *.
  assert (NoDup names) as Hnd.
  { unfold e1500 in E0. fold names in E0. apply negb_false_iff, Nat.eqb_eq in E0.
    apply NoDup_incl_NoDup with (l := profile_names names); [apply profile_names_NoDup|lia|].
    intros x Hx. apply profile_names_In. exact Hx. }
  assert (profile_names names = names) as Hpn by (apply profile_names_id; exact Hnd).
  rewrite Hpn in *.
  pose proof (pm_convert2_rel _ _ _ _ Hc) as Hrel.
  pose proof (pm_convert2_length _ _ _ _ Hc) as Hdl.
  set (n := psize prov).
  assert (forall pm, In pm pms -> pm_wellformed n pm) as Hwf.
  { intros pm Hpm. destruct (Forall2_In_l _ _ _ _ Hrel Hpm) as [m [Hm [p [_ [Hd _]]]]].
    destruct (build_ok_square _ _ Hb m Hm) as [L1 L2]. fold n in L1, L2.
    destruct (pm_err pm) as [codes|] eqn:Ee.
    - destruct (pm_data2_codes_cover pm codes _ _ Ee Hd) as [_ [A B]].
      destruct (pm_data2_codes_fit pm codes _ _ Ee Hd) as [C1 C2]. split; [congruence|]. split; [congruence|].
      intros c Hc'. inversion Hc'; subst. congruence.
    - unfold pm_data2 in Hd. rewrite Ee in Hd. inversion Hd as [[A B]]. rewrite <- A in L1. rewrite <- B in L2.
      rewrite map_length in L1, L2. split; [exact L1|]. split; [exact L2|]. intros c Hc'. congruence. }
  assert (pms <> []) as Hpne.
  { intros E. rewrite E in Hc. cbn in Hc. inversion Hc; subst. destruct (build_ok_cond _ _ Hb) as [Hne _]. congruence. }
  exists n. split; [exact Hwf|]. split.
  - split; [exact Hnd|]. split.
    { unfold e1501 in E1. destruct (d_profiles d); [discriminate|discriminate]. }
    split.
    { intros v Hv. pose proof (existsb_false _ _ E5 v Hv) as A. cbn beta in A. apply negb_false_iff, nmem_In in A. exact A. }
    split.
    { intros [A B]. unfold e1502 in E2. rewrite A, B in E2. discriminate. }
    unfold e1504 in E4. fold pms in E4. destruct pms as [|m0 r] eqn:Ep; [congruence|].
    destruct (Hwf m0 (or_introl eq_refl)) as [_ [Hd0 _]]. rewrite Hd0, rsqrt_square in E4.
    apply negb_false_iff, andb_true_iff in E4. destruct E4 as [A B]. apply Nat.eqb_eq in A. apply negb_true_iff in B.
    split; [exact A|]. intros i Hi. destruct (ci_direct_has_ref _ i Hi) as [e [He Hf]].
    pose proof (existsb_false _ _ B e He) as C. cbn beta in C. rewrite Hf in C. apply Nat.leb_gt in C. exact C.
  - unfold naming_consistent. fold names. fold pms. destruct Hor as [Hall|Hnone].
    + (* named *)
      assert (forall pm, In pm pms -> exists nm, pm_profile pm = Some nm /\ In nm names) as Hk.
      { intros pm Hpm. destruct (pm_profile pm) as [nm|] eqn:En; [|exfalso; apply (Hall pm Hpm); exact En].
        exists nm. split; [reflexivity|]. eapply Hkn; eassumption. }
      assert (names_known d) as Hknown by exact Hk.
      assert (forall pm m p, In pm pms -> conv_rel names p pm m -> nth_error names (m_index m) = pm_profile pm) as Hnth.
      { intros pm m p Hpm Hr. destruct (Hk pm Hpm) as [nm [Hn Hin]]. destruct (index_of_In nm names Hin) as [k Hkk].
        rewrite (conv_index_known _ _ _ _ _ _ Hr Hn Hkk), Hn. apply index_of_nth. exact Hkk. }
      destruct (build_ok_cond _ _ Hb) as [_ [_ [[Hnt Hperm]|[Hts Hgrp]]]].
      * right. left. split.
        { intros pm Hpm. destruct (Forall2_In_l _ _ _ _ Hrel Hpm) as [m [Hm [p [Hmt _]]]].
          specialize (Hnt m Hm). rewrite Hmt in Hnt. destruct (pm_ts pm); [discriminate|reflexivity]. }
        assert (NoDup (map m_index data)) as Hndi by (eapply Permutation_NoDup; [symmetry; exact Hperm|apply seq_NoDup]).
        assert (length data = length names) as Hl.
        { rewrite Hdc. unfold distinct_count. rewrite profile_names_id by exact Hndi. rewrite map_length. reflexivity. }
        assert (map pm_profile pms = map (nth_error names) (map m_index data)) as E.
        { rewrite map_map. eapply Forall2_map_eq_in; [exact Hrel|]. intros pm m Hpm [p Hr]. symmetry. eapply Hnth; eassumption. }
        rewrite E, <- nth_error_seq_names, <- Hl. apply Permutation_map. exact Hperm.
      * right. right. split.
        { intros pm Hpm. split; [|apply Hk; exact Hpm].
          destruct (Forall2_In_l _ _ _ _ Hrel Hpm) as [m [Hm [p [Hmt _]]]].
          specialize (Hts m Hm). rewrite Hmt in Hts. destruct (pm_ts pm); [discriminate|exfalso; apply Hts; reflexivity]. }
        intros nm Hnm. destruct (index_of_In nm names Hnm) as [k Hkk].
        assert (pm_convert2 (profile_names (prof_names d)) 0 (d_matrices d) = inr data) as Hc' by (fold names pms; rewrite Hpn; exact Hc).
        assert (index_of nm (profile_names (prof_names d)) = Some k) as Hkk' by (fold names; rewrite Hpn; exact Hkk).
        pose proof (Forall2_len _ _ _ (doc_group d data k nm Hc' Hknown Hkk')) as Hgl. fold pms in Hgl. rewrite Hgl.
        (* every index below the number of profiles occurs *)
        assert (incl (seq 0 (length names)) (profile_names (map m_index data))) as Hincl.
        { apply NoDup_length_incl; [apply profile_names_NoDup|rewrite seq_length; unfold distinct_count in Hdc; lia|].
          intros x Hx. apply (proj1 (profile_names_In _ _)) in Hx. apply in_map_iff in Hx. destruct Hx as [m [<- Hm]].
          destruct (Forall2_In_r _ _ _ _ Hrel Hm) as [pm [Hpm [p Hr]]].
          pose proof (Hnth pm m p Hpm Hr) as En. apply in_seq. split; [lia|]. cbn. apply nth_error_Some.
          destruct (Hk pm Hpm) as [nm' [Hn' _]]. congruence. }
        assert (In k (map m_index data)) as Hin.
        { apply profile_names_In. apply Hincl. apply in_seq. pose proof (index_of_lt _ _ _ Hkk). lia. }
        apply in_map_iff in Hin. destruct Hin as [m [Hi Hm]].
        specialize (Hgrp m Hm). rewrite Hi in Hgrp.
        assert (In m (group_raw data k)) as Hmg by (apply group_raw_In; split; assumption).
        destruct (group_raw data k) as [|a [|b r]]; [contradiction|cbn in Hgrp; congruence|cbn; lia].
    + (* positional *)
      left. split; [exact Hnone|].
      assert (map m_index data = seq 0 (length pms)) as Hseq.
      { apply (pm_convert2_positional names pms 0 data Hc). intros pm Hpm. apply (Hnone pm Hpm). }
      rewrite Hdc, Hseq. unfold distinct_count. rewrite profile_names_id by apply seq_NoDup. rewrite seq_length. reflexivity.
Qed.

(* non-vacuity of [doc_consistent] and of the timed hypotheses *)
Definition doc_two_profiles := mkDoc wprofiles2 wvehicles2 wlocs
  [mkPM (Some 2%nat) None [0; 31; 32; 0] [0; 41; 42; 0] (Some [0; 0; 3; 0]); wm1].

(* ================================================================== part K *)
Theorem nonvacuous_doc_named :
  exists d prov vs v pm codes du di,
    doc_consistent d /\ doc_read d = DOk prov vs /\ (forall m, In m (d_matrices d) -> pm_ts m = None) /\ names_known d /\
    In v (d_vehicles d) /\ In pm (d_matrices d) /\ pm_profile pm = Some (dv_profile v) /\
    pm_err pm = Some codes /\ pm_data2 pm = inr (du, di) /\ psize prov = 2%nat /\
    nth_error codes (1 * psize prov + 0) = Some 3 /\
    nth_error du (0 * psize prov + 1) = Some (31 # 1)%Q /\
    duration_tt prov (doc_fallback d) 1 (dscale v) 0 1 (TArrival (7 # 2)) = Val ((31 # 1) * dscale v)%Q /\
    duration_tt prov (doc_fallback d) 1 (dscale v) 1 0 (TDeparture 0) = Val ((-1 # 1) * dscale v)%Q.
Proof.
  exists doc_two_profiles. eexists. eexists. exists (mkDV 2 None).
  exists (mkPM (Some 2%nat) None [0; 31; 32; 0] [0; 41; 42; 0] (Some [0; 0; 3; 0])). eexists. eexists. eexists.
  split.
  { exists 2%nat. split; [|split].
    - intros pm [<-|[<-|[]]]; (split; [reflexivity|split; [reflexivity|]]); intros c Hc; cbn in Hc; inversion Hc; reflexivity.
    - split; [repeat constructor; cbn; intuition discriminate|]. split; [discriminate|]. split.
      { intros v [<-|[<-|[]]]; cbn; auto. }
      split; [intros [A _]; vm_compute in A; discriminate|]. split; [vm_compute; reflexivity|].
      intros i Hi. cbn in Hi. destruct Hi as [E|[E|[E|[E|[]]]]]; inversion E; lia.
    - right. left. split; [intros pm [<-|[<-|[]]]; reflexivity|]. cbn. apply perm_swap. }
  split; [vm_compute; reflexivity|]. split; [intros m [<-|[<-|[]]]; reflexivity|]. split.
  { intros pm [<-|[<-|[]]]; eexists; (split; [reflexivity|]); cbn; auto. }
  split; [right; left; reflexivity|]. split; [left; reflexivity|]. split; [reflexivity|]. split; [reflexivity|].
  split; [vm_compute; reflexivity|]. repeat split.
Qed.

Theorem nonvacuous_doc_timed :
  exists d prov vs v l r tt,
    doc_consistent d /\ doc_read d = DOk prov vs /\ names_known d /\ In v (d_vehicles d) /\
    NoDup (map pm_key (filter (pnamed (dv_profile v)) (d_matrices d))) /\
    In l (d_matrices d) /\ In r (d_matrices d) /\ pm_profile l = Some (dv_profile v) /\ pm_profile r = Some (dv_profile v) /\
    pm_key l < ztrunc (tt_time tt) /\ ztrunc (tt_time tt) < pm_key r /\
    (forall y, In y (d_matrices d) -> pm_profile y = Some (dv_profile v) -> ~ (pm_key l < pm_key y /\ pm_key y < pm_key r)) /\
    exists q, duration_tt prov (doc_fallback d) 0 (dscale v) 1 0 tt = Val q /\ (q == 12 # 1)%Q.
Proof.
  exists doc_timed_unreachable. eexists. eexists. exists (mkDV 1 None). exists wm_t10, wm_t18, (TArrival (12 # 1)).
  split.
  { exists 2%nat. split; [|split].
    - intros pm [<-|[<-|[]]]; (split; [reflexivity|split; [reflexivity|]]); intros c Hc; cbn in Hc; inversion Hc; reflexivity.
    - split; [repeat constructor; cbn; intuition discriminate|]. split; [discriminate|]. split.
      { intros v [<-|[]]; cbn; auto. }
      split; [intros [A _]; vm_compute in A; discriminate|]. split; [vm_compute; reflexivity|].
      intros i Hi. cbn in Hi. destruct Hi as [E|[E|[E|[E|[]]]]]; inversion E; lia.
    - right. right. split.
      + intros pm [<-|[<-|[]]]; (split; [discriminate|]); exists 1%nat; cbn; auto.
      + intros nm [<-|[]]. cbn. lia. }
  split; [vm_compute; reflexivity|]. split.
  { intros pm [<-|[<-|[]]]; eexists; (split; [reflexivity|]); cbn; auto. }
  split; [left; reflexivity|]. split.
  { vm_compute. constructor; [intros [E|[]]; discriminate|]. constructor; [intros []|constructor]. }
  split; [left; reflexivity|]. split; [right; left; reflexivity|]. split; [reflexivity|]. split; [reflexivity|].
  split; [vm_compute; reflexivity|]. split; [vm_compute; reflexivity|]. split.
  { intros y [<-|[<-|[]]] _ [A B]; vm_compute in A, B; discriminate. }
  eexists. split; [vm_compute; reflexivity|]. vm_compute. reflexivity.
Qed.

(* ================================================================== the sorted stamp vector of a profile is strictly increasing *)
Lemma sorted_keys_strict (g : list matrix) : NoDup (map ts_key g) -> StronglySorted Z.lt (map ts_key (sort_by ts_key g)).
Proof.
  intros Hn. pose proof (sort_strict ts_key g Hn) as Hs. induction Hs as [|a l Hl IH Ha]; cbn [map]; [constructor|].
  constructor; [exact IH|]. rewrite Forall_forall in *. intros x Hx. apply in_map_iff in Hx. destruct Hx as [y [<- Hy]].
  exact (Ha y Hy).
Qed.

(* the time-aware lookup with the real binary search loop instead of the contract model *)
Theorem aware_lookup_with_std_search (g : list matrix) (t : Q) : NoDup (map ts_key g) ->
  std_bsearch (map ts_key (sort_by ts_key g)) (ztrunc t) = bsearch (map ts_key (sort_by ts_key g)) (ztrunc t).
Proof. intros Hn. apply std_bsearch_refines. apply sorted_keys_strict. exact Hn. Qed.

(* ================================================================== restatements with the definitions written out *)
Lemma consistent_accepted_unfolded M :
  M <> [] ->
  (exists n, forall m, In m M -> length (m_dur m) = (n * n)%nat /\ length (m_dist m) = (n * n)%nat) ->
  (((forall m, In m M -> m_ts m = None) /\ Permutation (map m_index M) (seq 0 (length M)))
   \/ ((forall m, In m M -> m_ts m <> None) /\ (forall m, In m M -> length (group_raw M (m_index m)) <> 1%nat))) ->
  exists p, build M = Ok p.
Proof. intros H0 H1 H2. apply consistent_accepted. split; [exact H0|split; [exact H1|exact H2]]. Qed.

Lemma doc_matrix_data pm du di : pm_data2 pm = inr (du, di) ->
  (pm_err pm = None -> forall k, nth_error du k = option_map inject_Z (nth_error (pm_times pm) k) /\
                                 nth_error di k = option_map inject_Z (nth_error (pm_dists pm) k)) /\
  (forall codes, pm_err pm = Some codes ->
     (length (pm_dists pm) <= length codes)%nat /\ length du = length codes /\ length di = length codes /\
     forall k e, nth_error codes k = Some e ->
       (e > 0 -> nth_error du k = Some (-1 # 1)%Q /\ nth_error di k = Some (-1 # 1)%Q) /\
       (e <= 0 -> exists tv dv, nth_error (pm_times pm) k = Some tv /\ nth_error (pm_dists pm) k = Some dv /\
                                nth_error du k = Some (inject_Z tv) /\ nth_error di k = Some (inject_Z dv))).
Proof.
  intros H. split.
  - intros He k. exact (pm_data2_no_codes pm du di k He H).
  - intros codes He. destruct (pm_data2_codes_cover pm codes du di He H) as [A [B C]].
    split; [exact A|]. split; [exact B|]. split; [exact C|]. intros k e Hk. split.
    + intros Hp. exact (pm_data2_unreachable pm codes du di k e He H Hk Hp).
    + intros Hp. exact (pm_data2_reachable pm codes du di k e He H Hk Hp).
Qed.

Lemma doc_consistent_accepted_unfolded d n :
  (forall pm, In pm (d_matrices d) ->
     length (pm_times pm) = (n * n)%nat /\ length (pm_dists pm) = (n * n)%nat /\
     (forall codes, pm_err pm = Some codes -> length codes = (n * n)%nat)) ->
  (NoDup (prof_names d) /\ d_profiles d <> [] /\
   (forall v, In v (d_vehicles d) -> In (dv_profile v) (prof_names d)) /\
   ~ (ci_has_coords (d_locs d) = true /\ ci_has_indices (d_locs d) = true) /\
   (ci_max_index (d_locs d) + 1 = n)%nat /\ (forall i, In (LRef i) (d_locs d) -> (i < n)%nat)) ->
  (((forall pm, In pm (d_matrices d) -> pm_profile pm = None /\ pm_ts pm = None) /\
    length (d_matrices d) = length (prof_names d))
   \/ ((forall pm, In pm (d_matrices d) -> pm_ts pm = None) /\
       Permutation (map pm_profile (d_matrices d)) (map Some (prof_names d)))
   \/ ((forall pm, In pm (d_matrices d) -> pm_ts pm <> None /\ exists nm, pm_profile pm = Some nm /\ In nm (prof_names d)) /\
       (forall nm, In nm (prof_names d) -> (2 <= length (filter (pnamed nm) (d_matrices d)))%nat))) ->
  exists prov vs, doc_read d = DOk prov vs.
Proof. intros H1 H2 H3. apply doc_consistent_accepted. exists n. split; [exact H1|split; [exact H2|exact H3]]. Qed.

(* ================================================================== symmetry of the ROUNDED matrix needs an exactly symmetric distance *)
(* the two values are what get_haversine_distance returns for A = (52.378277270544224, 13.97026403652821),
   B = (68.74718639657267, 39.850742768680846) in the two argument orders (they differ in the last bit: the product
   sin^2 * cos(lat1) * cos(lat2) is evaluated left to right); recovered through the public API, corpus
   C16/c16_doc/approx-asymmetric-last-bit.json *)
Definition hav_AB : Q := 2496392222597971456 # 1099511627776.
Definition hav_BA : Q := 2496392222597971968 # 1099511627776.
Definition hav_witness (a b : nat) : Q :=
  if (a =? b)%nat then 0%Q else if (a <? b)%nat then hav_AB else hav_BA.

Theorem approx_symmetric_last_bit_prefix_refuted :
  exists (hav : nat -> nat -> Q) (a b : nat),
    (forall x y, (0 <= hav x y)%Q) /\ (forall x, (hav x x == 0)%Q) /\
    (hav b a - hav a b == 1 # 2147483648)%Q /\
    nth_error (approx_distances hav qround [a; b]) (0 * 2 + 1) = Some 2270455 /\
    nth_error (approx_distances hav qround [a; b]) (1 * 2 + 0) = Some 2270456.
Proof.
  exists hav_witness, 0%nat, 1%nat. split.
  { intros x y. unfold hav_witness. destruct (x =? y)%nat; [discriminate|]. destruct (x <? y)%nat; discriminate. }
  split.
  { intros x. unfold hav_witness. rewrite Nat.eqb_refl. reflexivity. }
  split; [vm_compute; reflexivity|]. split; vm_compute; reflexivity.
Qed.

(* ================================================================== the structure of get_haversine_distance is symmetric (repair d74b2b6) *)
(* only laws that binary64 arithmetic and an odd sine / even cosine have: commutative (NOT associative) multiplication, sign
   rules of subtraction, multiplication and division *)
Section HaversineStructureP.
  Variable F : Type.
  Variables (fadd fsub fmul fdiv : F -> F -> F) (fneg fsin fcos fsqrt : F -> F) (fatan2 : F -> F -> F).
  Variables (one two pi c180 wa wb : F).
  Hypothesis mul_comm : forall a b, fmul a b = fmul b a.
  Hypothesis sub_anti : forall a b, fsub a b = fneg (fsub b a).
  Hypothesis mul_neg_r : forall a b, fmul a (fneg b) = fneg (fmul a b).
  Hypothesis mul_neg_neg : forall a b, fmul (fneg a) (fneg b) = fmul a b.
  Hypothesis div_neg_l : forall a b, fdiv (fneg a) b = fneg (fdiv a b).
  Hypothesis sin_odd : forall a, fsin (fneg a) = fneg (fsin a).
  Hypothesis cos_even : forall a, fcos (fneg a) = fcos a.

  Let hav := haversine F fadd fsub fmul fdiv fsin fcos fsqrt fatan2 one two pi c180 wa wb.

  Lemma deg_rad_neg x : deg_rad F fmul fdiv pi c180 (fneg x) = fneg (deg_rad F fmul fdiv pi c180 x).
  Proof. unfold deg_rad. rewrite mul_neg_r, div_neg_l. reflexivity. Qed.

  Lemma wgs84_radius_neg x :
    wgs84_radius F fadd fmul fdiv fsin fcos fsqrt wa wb (fneg x) = wgs84_radius F fadd fmul fdiv fsin fcos fsqrt wa wb x.
  Proof.
    unfold wgs84_radius. cbv zeta. rewrite cos_even, sin_odd, (mul_neg_r (fmul wb wb)), (mul_neg_r wb), !mul_neg_neg.
    reflexivity.
  Qed.

  Theorem haversine_fixed_symmetric p1 p2 : hav true p1 p2 = hav true p2 p1.
  Proof.
    unfold hav, haversine. cbv zeta.
    rewrite (sub_anti (fst p1) (fst p2)), (sub_anti (snd p1) (snd p2)).
    rewrite !deg_rad_neg, !div_neg_l, !sin_odd, !mul_neg_neg, wgs84_radius_neg.
    rewrite (mul_comm (fcos (deg_rad F fmul fdiv pi c180 (fst p1)))). reflexivity.
  Qed.
End HaversineStructureP.
