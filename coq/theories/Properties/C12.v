(* C12 — the solution checker accepts valid solutions and rejects injected breaches. *)
From VRP Require Import Base.Tac Model.Core Spec.Feasible Spec.Valid Proofs.ValidP Spec.Mutations Proofs.MutationsP.

Theorem C12_valid_b_groups : forall P S,
  valid_b P S = [] <-> precond_viol P = [] /\ accounted_b P S = [] /\ feasible_viols P S = [] /\ replay_viol P S = [].
Proof. exact valid_b_nil. Qed.
