(* C12 — the solution checker accepts valid solutions and rejects injected breaches.
   The reference semantics is Spec/Valid.v (`valid_b`); the breach operators are Spec/Mutations.v.  This file contains only the
   property theorems, each closed by `exact`.  The bundled Rust checker is tied to `valid_b` behaviourally (tools/props/c12.py). *)
From VRP Require Import Base.Tac Model.Core Spec.Feasible Spec.Valid Proofs.ValidP Spec.Relations Spec.Mutations Proofs.MutationsP.

(* the verdict is the conjunction of the rule groups (P, A, F, R and the second parts of F and R: compatibility, groups,
   reachability, capacity / load in the capacity dimensions >= 1) *)
Theorem C12_valid_b_groups : forall P S,
  valid_b P S = [] <-> precond_viol P = [] /\ accounted_b P S = [] /\ feasible_viols P S = [] /\ replay_viol P S = []
                       /\ xfeasible_viols P S = [] /\ xreplay_viols P S = [].
Proof. exact valid_b_nil. Qed.

(* exact restatement for the group that has a declarative twin: job presence / uniqueness / one tour / assigned xor unassigned *)
Theorem C12_accounting_sound_complete : forall P S, accounted_b P S = [] <-> Accounted P S.
Proof. exact accounted_b_nil. Qed.

(* ---- breach_is_invalid, class by class: for EVERY valid pair and EVERY applicable site the reference semantics rejects *)
(* misreported load *)
Theorem C12_breach_load_misreported : forall P S k s d,
  valid_b P S = [] -> d <> 0 -> stop_at S k s <> None -> valid_b P (mutS (MLoad k s d) S) <> [].
Proof. exact mut_load_invalid. Qed.

(* unknown job: in a tour, in the unassigned list *)
Theorem C12_breach_unknown_job_activity : forall P S k s a j x,
  zmem j (job_ids P) = false -> act_at S k s a = Some x -> is_job_act x = true ->
  valid_b P (mutS (MUnknownAct k s a j) S) <> [].
Proof. exact mut_unknown_act_invalid. Qed.
Theorem C12_breach_unknown_job_unassigned : forall P S j,
  zmem j (job_ids P) = false -> valid_b P (mutS (MUnknownUn j) S) <> [].
Proof. exact mut_unknown_un_invalid. Qed.

(* duplicated / dropped job (unassigned list) *)
Theorem C12_breach_duplicated_job_unassigned : forall P S i,
  valid_b P S = [] -> (i < length (sl_unassigned S))%nat -> valid_b P (mutS (MDupUn i) S) <> [].
Proof. exact mut_dup_un_invalid. Qed.
Theorem C12_breach_dropped_job_unassigned : forall P S i,
  valid_b P S = [] -> (i < length (sl_unassigned S))%nat -> valid_b P (mutS (MDropUn i) S) <> [].
Proof. exact mut_drop_un_invalid. Qed.

(* a job in two tours; a job both assigned and unassigned *)
Theorem C12_breach_job_in_two_tours : forall P S k s k2 st,
  valid_b P S = [] -> k <> k2 -> stop_at S k s = Some st -> has_job_act st = true -> tour_at S k2 <> None ->
  valid_b P (mutS (MCopyStop k s k2) S) <> [].
Proof. exact mut_copy_stop_invalid. Qed.
Theorem C12_breach_assigned_and_unassigned : forall P S k s a x,
  valid_b P S = [] -> act_at S k s a = Some x -> is_job_act x = true -> valid_b P (mutS (MBoth k s a) S) <> [].
Proof. exact mut_both_invalid. Qed.

(* cumulative distance / statistic mismatch (per tour, overall) *)
Theorem C12_breach_distance : forall P S k s d,
  valid_b P S = [] -> d <> 0 -> stop_at S k s <> None -> valid_b P (mutS (MDistance k s d) S) <> [].
Proof. exact mut_distance_invalid. Qed.
Theorem C12_breach_stat_tour : forall P S k f d,
  valid_b P S = [] -> d <> 0 -> (f < 7)%nat -> tour_at S k <> None -> valid_b P (mutS (MStatTour k f d) S) <> [].
Proof. exact mut_stat_tour_invalid. Qed.
Theorem C12_breach_stat_total : forall P S f d,
  valid_b P S = [] -> d <> 0 -> (f < 7)%nat -> valid_b P (mutS (MStatTotal f d) S) <> [].
Proof. exact mut_stat_total_invalid. Qed.

(* limit breach: the limit of the tour's vehicle type just below what the tour reports (no validity hypothesis needed) *)
Theorem C12_breach_limit_distance : forall P S k t,
  tour_at S k = Some t -> valid_b (mutP (MLimitDistance k) P S) (mutS (MLimitDistance k) S) <> [].
Proof. exact mut_limit_distance_invalid. Qed.
Theorem C12_breach_limit_duration : forall P S k t,
  tour_at S k = Some t -> valid_b (mutP (MLimitDuration k) P S) (mutS (MLimitDuration k) S) <> [].
Proof. exact mut_limit_duration_invalid. Qed.
Theorem C12_breach_limit_size : forall P S k t,
  tour_at S k = Some t -> valid_b (mutP (MLimitSize k) P S) (mutS (MLimitSize k) S) <> [].
Proof. exact mut_limit_size_invalid. Qed.

(* misplaced break: a break (any activity) reported at a location that is not its stop's (no validity hypothesis needed) *)
Theorem C12_breach_break_location : forall P S k s a l st x,
  stop_at S k s = Some st -> nth_error (ss_acts st) a = Some x -> l <> ss_loc st ->
  valid_b P (mutS (MBreakLoc k s a l) S) <> [].
Proof. exact mut_break_loc_invalid. Qed.

(* broken relation, with the pinning rules of Spec/Relations.v (proved there: rel_viols = [] <-> every relation RelPinned) as part of
   the reference verdict valid_r = valid_b ++ rel_viols: a stop that serves a job named by a relation (any type) leaves the
   relation's tour for any other tour - no validity hypothesis needed: either that tour is not the relation's (vehicle pinning
   fails) or two tours are driven by one vehicle shift (accounting fails).  The breaches of order / contiguity / anchoring
   (MRelShift) have no theorem: they are evaluated by rel_viols on every generated site. *)
Theorem C12_breach_relation_tour : forall rels P S k s k2 r t t2 st x,
  In r rels -> k <> k2 -> nth_error (sl_tours S) k = Some t -> nth_error (sl_tours S) k2 = Some t2 ->
  is_rel_tour r t = true -> nth_error (to_stops t) s = Some st -> In x (ss_acts st) ->
  is_mid_kind (sa_kind x) = true -> In (sa_job x) (rel_ids r) ->
  valid_r rels P (mutS (MRelTour k s k2) S) <> [].
Proof. exact mut_rel_tour_invalid. Qed.

(* The full statement is
     forall m P S, valid_b P S = [] -> applicable_b m P S = true -> valid_b (mutP m P S) (mutS m S) <> [].
   Proved above for 14 of the 21 operators judged by valid_b alone (the two relation operators MRelTour / MRelShift are judged by
   valid_r: C12_breach_relation_tour).  MISSING (no theorem; on every generated site the instance is evaluated inside Coq by
   the correspondence, Mutations.run_mutation, and a counterexample would be reported as a disagreement): MCapacity (load above
   capacity), MArrival (arrival mismatch), MDupAct (duplicated activity), MDropStop (dropped stop), MMoveStop (job split by moving a
   stop), MBreakDup / MBreakDrop (a break that takes time listed twice / taken out).  What is missing for them is a decomposition
   lemma of flat_tour / rebuild around the changed stop. *)
Theorem C12_breach_is_invalid_partial : forall m P S,
  valid_b P S = [] -> applicable_b m P S = true ->
  match m with MCapacity _ _ | MArrival _ _ _ | MDupAct _ _ | MDropStop _ _ | MMoveStop _ _ _
               | MBreakDup _ _ _ | MBreakDrop _ _ _ | MRelTour _ _ _ | MRelShift _ _ _ => True
          | _ => valid_b (mutP m P S) (mutS m S) <> [] end.
Proof. exact breach_is_invalid_partial. Qed.

(* non-vacuity and witnesses on the concrete pair of Proofs/ValidP.v: the pair is valid, and the breaches the REAL checker was
   found to accept (known findings C12-F1, C12-F2: cost / times statistics, first-stop distance) are rejected by the reference *)
Theorem C12_nonvacuous : valid_b ex_P ex_S = []
  /\ applicable_b (MStatTour 0 0 2) ex_P ex_S = true /\ valid_b ex_P (mutS (MStatTour 0 0 2) ex_S) = [RStatCost 0; RTotal 0]
  /\ applicable_b (MDistance 0 0 2) ex_P ex_S = true /\ valid_b ex_P (mutS (MDistance 0 0 2) ex_S) = [RDistance 0 0]
  /\ applicable_b (MCapacity 0 0) ex_P ex_S = true /\ valid_b (mutP (MCapacity 0 0) ex_P ex_S) ex_S <> [].
Proof. exact c12_nonvacuous. Qed.
