(* C12 — the solution checker accepts valid solutions and rejects injected breaches.
   The reference semantics is Spec/Valid.v (`valid_b`); the breach operators are Spec/Mutations.v.  This file contains only the
   property theorems, each closed by `exact`.  The bundled Rust checker is tied to `valid_b` behaviourally (tools/props/c12.py). *)
From VRP Require Import Base.Tac Model.Core Spec.Feasible Spec.Valid Proofs.ValidP Spec.Relations Spec.Mutations Proofs.MutationsP.

(* the verdict is the conjunction of the rule groups (P, A, F, R and the second parts of F and R: compatibility, groups,
   reachability, capacity / load in the capacity dimensions >= 1) *)
Theorem C12_valid_b_groups : forall P S,
  valid_b P S = [] <-> precond_viol P = [] /\ accounted_b P S = [] /\ feasible_viols P S = [] /\ replay_viol P S = []
                       /\ xfeasible_viols P S = [] /\ xreplay_viols P S = [].
Proof. exact valid_b_nil. Qed.

(* exact restatement for the group that has a declarative twin: job presence / uniqueness / one tour / assigned xor unassigned *)
Theorem C12_accounting_sound_complete : forall P S, accounted_b P S = [] <-> Accounted P S.
Proof. exact accounted_b_nil. Qed.

(* ---- breach_is_invalid, class by class: for EVERY valid pair and EVERY applicable site the reference semantics rejects *)
(* misreported load *)
Theorem C12_breach_load_misreported : forall P S k s d,
  valid_b P S = [] -> d <> 0 -> stop_at S k s <> None -> valid_b P (mutS (MLoad k s d) S) <> [].
Proof. exact mut_load_invalid. Qed.

(* unknown job: in a tour, in the unassigned list *)
Theorem C12_breach_unknown_job_activity : forall P S k s a j x,
  zmem j (job_ids P) = false -> act_at S k s a = Some x -> is_job_act x = true ->
  valid_b P (mutS (MUnknownAct k s a j) S) <> [].
Proof. exact mut_unknown_act_invalid. Qed.
Theorem C12_breach_unknown_job_unassigned : forall P S j,
  zmem j (job_ids P) = false -> valid_b P (mutS (MUnknownUn j) S) <> [].
Proof. exact mut_unknown_un_invalid. Qed.

(* duplicated / dropped job (unassigned list) *)
Theorem C12_breach_duplicated_job_unassigned : forall P S i,
  valid_b P S = [] -> (i < length (sl_unassigned S))%nat -> valid_b P (mutS (MDupUn i) S) <> [].
Proof. exact mut_dup_un_invalid. Qed.
Theorem C12_breach_dropped_job_unassigned : forall P S i,
  valid_b P S = [] -> (i < length (sl_unassigned S))%nat -> valid_b P (mutS (MDropUn i) S) <> [].
Proof. exact mut_drop_un_invalid. Qed.

(* a job in two tours; a job both assigned and unassigned *)
Theorem C12_breach_job_in_two_tours : forall P S k s k2 st,
  valid_b P S = [] -> k <> k2 -> stop_at S k s = Some st -> has_job_act st = true -> tour_at S k2 <> None ->
  valid_b P (mutS (MCopyStop k s k2) S) <> [].
Proof. exact mut_copy_stop_invalid. Qed.
Theorem C12_breach_assigned_and_unassigned : forall P S k s a x,
  valid_b P S = [] -> act_at S k s a = Some x -> is_job_act x = true -> valid_b P (mutS (MBoth k s a) S) <> [].
Proof. exact mut_both_invalid. Qed.

(* cumulative distance / statistic mismatch (per tour, overall) *)
Theorem C12_breach_distance : forall P S k s d,
  valid_b P S = [] -> d <> 0 -> stop_at S k s <> None -> valid_b P (mutS (MDistance k s d) S) <> [].
Proof. exact mut_distance_invalid. Qed.
Theorem C12_breach_stat_tour : forall P S k f d,
  valid_b P S = [] -> d <> 0 -> (f < 7)%nat -> tour_at S k <> None -> valid_b P (mutS (MStatTour k f d) S) <> [].
Proof. exact mut_stat_tour_invalid. Qed.
Theorem C12_breach_stat_total : forall P S f d,
  valid_b P S = [] -> d <> 0 -> (f < 7)%nat -> valid_b P (mutS (MStatTotal f d) S) <> [].
Proof. exact mut_stat_total_invalid. Qed.

(* limit breach: the limit of the tour's vehicle type just below what the tour reports (no validity hypothesis needed) *)
Theorem C12_breach_limit_distance : forall P S k t,
  tour_at S k = Some t -> valid_b (mutP (MLimitDistance k) P S) (mutS (MLimitDistance k) S) <> [].
Proof. exact mut_limit_distance_invalid. Qed.
Theorem C12_breach_limit_duration : forall P S k t,
  tour_at S k = Some t -> valid_b (mutP (MLimitDuration k) P S) (mutS (MLimitDuration k) S) <> [].
Proof. exact mut_limit_duration_invalid. Qed.
Theorem C12_breach_limit_size : forall P S k t,
  tour_at S k = Some t -> valid_b (mutP (MLimitSize k) P S) (mutS (MLimitSize k) S) <> [].
Proof. exact mut_limit_size_invalid. Qed.

(* misplaced break: a break (any activity) reported at a location that is not its stop's (no validity hypothesis needed) *)
Theorem C12_breach_break_location : forall P S k s a l st x,
  stop_at S k s = Some st -> nth_error (ss_acts st) a = Some x -> l <> ss_loc st ->
  valid_b P (mutS (MBreakLoc k s a l) S) <> [].
Proof. exact mut_break_loc_invalid. Qed.

(* broken relation, with the pinning rules of Spec/Relations.v (proved there: rel_viols = [] <-> every relation RelPinned) as part of
   the reference verdict valid_r = valid_b ++ rel_viols: a stop that serves a job named by a relation (any type) leaves the
   relation's tour for any other tour - no validity hypothesis needed: either that tour is not the relation's (vehicle pinning
   fails) or two tours are driven by one vehicle shift (accounting fails).  The breaches of order / contiguity / anchoring
   (MRelShift) have no theorem: they are evaluated by rel_viols on every generated site. *)
Theorem C12_breach_relation_tour : forall rels P S k s k2 r t t2 st x,
  In r rels -> k <> k2 -> nth_error (sl_tours S) k = Some t -> nth_error (sl_tours S) k2 = Some t2 ->
  is_rel_tour r t = true -> nth_error (to_stops t) s = Some st -> In x (ss_acts st) ->
  is_mid_kind (sa_kind x) = true -> In (sa_job x) (rel_ids r) ->
  valid_r rels P (mutS (MRelTour k s k2) S) <> [].
Proof. exact mut_rel_tour_invalid. Qed.

(* The full statement is
     forall m P S, valid_b P S = [] -> applicable_b m P S = true -> valid_b (mutP m P S) (mutS m S) <> [].
   Proved above for 14 of the 21 operators judged by valid_b alone (the two relation operators MRelTour / MRelShift are judged by
   valid_r: C12_breach_relation_tour).  MISSING (no theorem; on every generated site the instance is evaluated inside Coq by
   the correspondence, Mutations.run_mutation, and a counterexample would be reported as a disagreement): MCapacity (load above
   capacity), MArrival (arrival mismatch), MDupAct (duplicated activity), MDropStop (dropped stop), MMoveStop (job split by moving a
   stop), MBreakDup / MBreakDrop (a break that takes time listed twice / taken out).  What is missing for them is a decomposition
   lemma of flat_tour / rebuild around the changed stop. *)
Theorem C12_breach_is_invalid_partial : forall m P S,
  valid_b P S = [] -> applicable_b m P S = true ->
  match m with MCapacity _ _ | MArrival _ _ _ | MDupAct _ _ | MDropStop _ _ | MMoveStop _ _ _
               | MBreakDup _ _ _ | MBreakDrop _ _ _ | MRelTour _ _ _ | MRelShift _ _ _ => True
          | _ => valid_b (mutP m P S) (mutS m S) <> [] end.
Proof. exact breach_is_invalid_partial. Qed.

(* non-vacuity and witnesses on the concrete pair of Proofs/ValidP.v: the pair is valid, and the breaches the REAL checker was
   found to accept (known findings C12-F1, C12-F2: cost / times statistics, first-stop distance) are rejected by the reference *)
Theorem C12_nonvacuous : valid_b ex_P ex_S = []
  /\ applicable_b (MStatTour 0 0 2) ex_P ex_S = true /\ valid_b ex_P (mutS (MStatTour 0 0 2) ex_S) = [RStatCost 0; RTotal 0]
  /\ applicable_b (MDistance 0 0 2) ex_P ex_S = true /\ valid_b ex_P (mutS (MDistance 0 0 2) ex_S) = [RDistance 0 0]
  /\ applicable_b (MCapacity 0 0) ex_P ex_S = true /\ valid_b (mutP (MCapacity 0 0) ex_P ex_S) ex_S <> [].
Proof. exact c12_nonvacuous. Qed.

(* ================================================================== STRUCTURAL PART: the bundled checker itself.
   Model/Checker.v is the executable model of vrp-pragmatic/src/checker/{mod,limits,capacity,routing,assignment,relations,breaks}.rs
   as written (tied to the code rule group by rule group on every run: tools/props/c12_rules.py).  The theorems below relate the
   model of each real rule to the reference semantics.  Fragments are boolean predicates on the documents (Model/Checker.v):
   ctx_frag (the vehicle type found by vehicle id / the shift found BY TIME are the ones the tour names), single_act_stops,
   two_stops, no_reload_stop / no_reloads / plain_acts, simple_jobs, one_dim, locs_known, caps_nonneg, pos_job_ids, dyn_balanced,
   rel_frag, kind_ids_ok, regular_kinds. *)
From VRP Require Import Spec.Intervals Model.Checker Proofs.CheckerP.

(* non-vacuity: a valid two-tour document (relations included) inside every fragment, accepted by every modelled rule group *)
Theorem C12_checker_nonvacuous : exists rels P S,
  valid_r rels P S = [] /\ length (sl_tours S) = 2%nat /\ rels <> []
  /\ ctx_frag P S = true /\ single_act_stops S = true /\ two_stops S = true /\ no_reloads S = true
  /\ simple_jobs P = true /\ one_dim P S = true /\ locs_known P S = true
  /\ plain_acts S = true /\ caps_nonneg P = true /\ pos_job_ids P = true /\ dyn_balanced P S = true
  /\ run_rules_t rels P S = (COk, COk, ROk, COk, COk, COk).
Proof. exact checker_nonvacuous. Qed.

(* ---- (a) checker/limits.rs *)
(* sound: where the model of check_limits accepts and the tour statistic is the replayed one, the reference reports no limit
   violation (the rule reads tour.statistic, its own comment asks for the routing check first) *)
Theorem C12_checker_limits_sound : forall P S, ctx_frag P S = true -> check_limits P S = COk ->
  forall k t r, nth_error (sl_tours S) k = Some t -> rebuild P t = Some r ->
    st_dist (to_stat t) = tour_legs (pdist P) (rb_acts r) -> st_dur (to_stat t) = replay_duration (pdur P) (rb_acts r) ->
    ~ In (FMaxDistance (Z.of_nat k)) (feasible_viol P (Z.of_nat k) t)
    /\ ~ In (FMaxDuration (Z.of_nat k)) (feasible_viol P (Z.of_nat k) t)
    /\ ~ In (FTourSize (Z.of_nat k)) (feasible_viol P (Z.of_nat k) t).
Proof. exact checker_limits_sound. Qed.
(* complete: no limit violation of the reference, statistic = replay, and the stops lie within the time of the tour's shift
   (stops_in_shift: the stop-level reading of check_shift_time) => the model accepts *)
Theorem C12_checker_limits_complete : forall P S, ctx_frag P S = true ->
  (forall k t, nth_error (sl_tours S) k = Some t -> exists r, rebuild P t = Some r
     /\ st_dist (to_stat t) = tour_legs (pdist P) (rb_acts r) /\ st_dur (to_stat t) = replay_duration (pdur P) (rb_acts r)
     /\ ~ In (FMaxDistance (Z.of_nat k)) (feasible_viol P (Z.of_nat k) t)
     /\ ~ In (FMaxDuration (Z.of_nat k)) (feasible_viol P (Z.of_nat k) t)
     /\ ~ In (FTourSize (Z.of_nat k)) (feasible_viol P (Z.of_nat k) t)
     /\ stops_in_shift (rb_shift r) t) ->
  check_limits P S = COk.
Proof. exact checker_limits_complete. Qed.
(* the limit breaches are rejected by the model of the real rule (no validity hypothesis for distance / duration) *)
Theorem C12_checker_breach_limit_distance : forall P S k t, ctx_frag P S = true -> tour_at S k = Some t ->
  check_limits (mutP (MLimitDistance k) P S) (mutS (MLimitDistance k) S) <> COk.
Proof. exact checker_breach_limit_distance. Qed.
Theorem C12_checker_breach_limit_duration : forall P S k t, ctx_frag P S = true -> tour_at S k = Some t ->
  check_limits (mutP (MLimitDuration k) P S) (mutS (MLimitDuration k) S) <> COk.
Proof. exact checker_breach_limit_duration. Qed.
Theorem C12_checker_breach_limit_size : forall P S k t r, ctx_frag P S = true -> tour_at S k = Some t -> rebuild P t = Some r ->
  check_limits (mutP (MLimitSize k) P S) (mutS (MLimitSize k) S) <> COk.
Proof. exact checker_breach_limit_size. Qed.

(* finding C12-F20 (new): the shift of a tour is found BY TIME, shiftIndex is never read - with two shifts of a vehicle that overlap
   in time a valid document is rejected (tour size counted with the other shift's end); this is what ctx_frag excludes *)
Theorem C12_checker_shift_by_time_refuted : exists P S,
  valid_b P S = [] /\ ctx_frag P S = false /\ check_limits P S = CErr [[ETourSize]].
Proof. exact checker_shift_by_time_refuted. Qed.

(* ---- (c) checker/routing.rs *)
(* sound and complete for the rule as it is written, at the level it talks about (stops): the model accepts exactly the
   documents that satisfy RoutingRule with tolerance 1 (Model/Checker.v: every leg's arrival and cumulative distance against the RAW
   matrix, the tour's distance / duration statistic, the overall distance / duration; NOT the first stop's distance, cost, times.* ) *)
Theorem C12_checker_routing_rule : forall P S, diag_zero P = true -> locs_known P S = true ->
  (check_routing P S = COk <-> RoutingRule 1 P S).
Proof. exact checker_routing_iff. Qed.
(* a document the reference accepts satisfies the stop-level rule EXACTLY (tolerance 0), whatever the skip flag *)
Theorem C12_checker_routing_exact : forall P S, valid_b P S = [] -> single_act_stops S = true -> RoutingRule 0 P S.
Proof. exact valid_routing_rule. Qed.
(* complete: valid documents are not rejected by the routing rules *)
Theorem C12_checker_routing_complete : forall P S, valid_b P S = [] -> single_act_stops S = true -> locs_known P S = true ->
  check_routing P S = COk.
Proof. exact checker_routing_complete. Qed.
(* breaches rejected by the model of the real rule: overall / tour statistic (distance, duration: fields 1, 2), arrival and
   cumulative distance of a stop behind the first one moved by at least 2 *)
Theorem C12_checker_breach_stat_total : forall P S f d, check_routing P S = COk -> d <> 0 -> (f = 1 \/ f = 2)%nat ->
  check_routing P (mutS (MStatTotal f d) S) <> COk.
Proof. exact checker_breach_stat_total. Qed.
Theorem C12_checker_breach_stat_tour : forall P S k f d t, check_routing P S = COk -> d <> 0 -> (f = 1 \/ f = 2)%nat ->
  tour_at S k = Some t -> check_routing P (mutS (MStatTour k f d) S) <> COk.
Proof. exact checker_breach_stat_tour. Qed.
Theorem C12_checker_breach_arrival : forall P S k s d t a b,
  valid_b P S = [] -> single_act_stops S = true -> locs_known P S = true ->
  tour_at S k = Some t -> nth_error (to_stops t) s = Some a -> nth_error (to_stops t) (Datatypes.S s) = Some b -> 2 <= Z.abs d ->
  check_routing P (mutS (MArrival k (Datatypes.S s) d) S) <> COk.
Proof. exact checker_breach_arrival. Qed.
(* ... as long as some stop of the breached document still reports a non-zero distance (see C12_checker_skip_distance_refuted) *)
Theorem C12_checker_breach_distance : forall P S k s d t a b,
  valid_b P S = [] -> single_act_stops S = true -> locs_known P S = true ->
  tour_at S k = Some t -> nth_error (to_stops t) s = Some a -> nth_error (to_stops t) (Datatypes.S s) = Some b -> 2 <= Z.abs d ->
  skip_distance_check (mutS (MDistance k (Datatypes.S s) d) S) = false ->
  check_routing P (mutS (MDistance k (Datatypes.S s) d) S) <> COk.
Proof. exact checker_breach_distance. Qed.
(* findings C12-F1 (cost / times.* never read), C12-F2 (first stop's distance never read), and the documented tolerance
   (an arrival off by one): the model of the real rule accepts what the reference rejects *)
Theorem C12_checker_routing_refuted : exists P S,
  valid_b P S = []
  /\ check_routing P (mutS (MStatTour 0 0 2) S) = COk /\ valid_b P (mutS (MStatTour 0 0 2) S) <> []
  /\ check_routing P (mutS (MStatTotal 3 1) S) = COk /\ valid_b P (mutS (MStatTotal 3 1) S) <> []
  /\ check_routing P (mutS (MDistance 0 0 2) S) = COk /\ valid_b P (mutS (MDistance 0 0 2) S) <> []
  /\ check_routing P (mutS (MArrival 0 1 1) S) = COk /\ valid_b P (mutS (MArrival 0 1 1) S) <> [].
Proof. exact checker_routing_refuted. Qed.
(* finding C12-F19 (new): when every stop distance of the breached document is 0 no distance is compared at all *)
Theorem C12_checker_skip_distance_refuted : exists P S,
  valid_b P S = [] /\ single_act_stops S = true /\ applicable_b (MDistance 0 1 (-10)) P S = true
  /\ skip_distance_check (mutS (MDistance 0 1 (-10)) S) = true
  /\ check_routing P (mutS (MDistance 0 1 (-10)) S) = COk /\ valid_b P (mutS (MDistance 0 1 (-10)) S) = [RDistance 0 1].
Proof. exact checker_skip_distance_refuted. Qed.

(* ---- (b) checker/capacity.rs *)
(* load above capacity: the breach is rejected by the model of the real rule in every tour that is one load interval with a leg *)
Theorem C12_checker_breach_capacity : forall P S k s t st, ctx_frag P S = true -> tour_at S k = Some t ->
  nth_error (to_stops t) s = Some st -> no_reload_stop t = true -> (2 <= length (to_stops t))%nat ->
  check_vehicle_load (mutP (MCapacity k s) P S) (mutS (MCapacity k s) S) <> COk.
Proof. exact checker_breach_capacity. Qed.
(* misreported load: a document whose loads the real rule accepts is rejected by it once one reported load is changed *)
Theorem C12_checker_breach_load : forall P S k s d t st, check_vehicle_load P S = COk -> d <> 0 ->
  tour_at S k = Some t -> nth_error (to_stops t) s = Some st -> no_reload_stop t = true -> (2 <= length (to_stops t))%nat ->
  check_vehicle_load P (mutS (MLoad k s d) S) <> COk.
Proof. exact checker_breach_load. Qed.
(* sound: where the model of check_vehicle_load accepts a document of the fragment, the two load clauses of the reference hold for
   every tour the reference can rebuild: no FCapacity, and the load reported at every stop is the replayed one (RLoad) *)
Theorem C12_checker_capacity_sound : forall P S, check_vehicle_load P S = COk ->
  ctx_frag P S = true -> single_act_stops S = true -> two_stops S = true -> plain_acts S = true -> simple_jobs P = true ->
  one_dim P S = true -> pos_job_ids P = true -> dyn_balanced P S = true ->
  forall k t r, nth_error (sl_tours S) k = Some t -> rebuild P t = Some r ->
    ~ In (FCapacity (Z.of_nat k)) (feasible_viol P (Z.of_nat k) t)
    /\ forall s st, nth_error (to_stops t) s = Some st -> ss_load st = nth s (replay_loads_x (rb_has_end r) (rb_acts r)) 0.
Proof. exact checker_capacity_sound. Qed.
(* complete: a document the reference accepts is not rejected by check_vehicle_load - inside the fragment: the context fragment,
   one activity per stop (F4, F8, F11), at least one leg (F3), only job / departure / arrival activities (no reload: F8, F9, F11; no
   break), jobs the rule attributes without tags (F5), one capacity dimension, non-negative capacities, positive job ids, and every
   shipment picked up in a tour delivered in it (dyn_balanced; the problem validation E1102 makes pickups and deliveries of a job
   balance, the reduced documents do not carry that) *)
Theorem C12_checker_capacity_complete : forall P S, valid_b P S = [] ->
  ctx_frag P S = true -> single_act_stops S = true -> two_stops S = true -> plain_acts S = true -> simple_jobs P = true ->
  one_dim P S = true -> caps_nonneg P = true -> pos_job_ids P = true -> dyn_balanced P S = true ->
  check_vehicle_load P S = COk.
Proof. exact checker_capacity_complete. Qed.
(* hence: the misreported load, injected into a valid document of the fragment, is rejected by the model of the real rule *)
Theorem C12_checker_breach_load_valid : forall P S k s d t st, valid_b P S = [] ->
  ctx_frag P S = true -> single_act_stops S = true -> two_stops S = true -> plain_acts S = true -> simple_jobs P = true ->
  one_dim P S = true -> caps_nonneg P = true -> pos_job_ids P = true -> dyn_balanced P S = true ->
  d <> 0 -> tour_at S k = Some t -> nth_error (to_stops t) s = Some st ->
  check_vehicle_load P (mutS (MLoad k s d) S) <> COk.
Proof. exact checker_breach_load_valid. Qed.
(* findings C12-F3 (a tour of one stop is not load-checked) and C12-F4 (a job in the departure stop: valid document rejected) *)
Theorem C12_checker_capacity_refuted :
  (exists P S, valid_b P S = [] /\ two_stops S = false
     /\ check_vehicle_load P (mutS (MLoad 0 0 1) S) = COk /\ valid_b P (mutS (MLoad 0 0 1) S) = [RLoad 0 0])
  /\ (exists P S, valid_b P S = [] /\ single_act_stops S = false /\ check_vehicle_load P S = CErr [[ELoadMismatch]]).
Proof. exact checker_capacity_refuted. Qed.
(* findings C12-F8 / F11 (a reload that is not alone in its stop: valid documents rejected) and C12-F9 (Panic) *)
Theorem C12_checker_reload_refuted : exists P S8 S11 S9,
  valid_b P S8 = [] /\ check_vehicle_load P S8 = CErr [[ELoadMismatch]]
  /\ valid_b P S11 = [] /\ check_vehicle_load P S11 = CErr [[ELoadMismatch]]
  /\ single_act_stops S8 = false /\ single_act_stops S11 = false /\ no_reloads S8 = false
  /\ check_vehicle_load P S9 = CPanic PSubOverflow /\ single_act_stops S9 = true /\ no_reloads S9 = false.
Proof. exact checker_reload_refuted. Qed.

(* ---- (d) checker/assignment.rs (check_vehicles, check_jobs_presence; check_jobs_match is not modelled) *)
(* sound, partially: the clauses of Valid.Accounted the rule establishes - no vehicle shift drives two tours, no foreign id in a tour or
   in the unassigned list, no id twice in the unassigned list, no job both assigned and unassigned, the activities of a job are in
   one tour.  It does NOT establish that every task of a job is served exactly once (its own TODO: only the number of activities is
   compared) nor that the tour names an existing type / shift. *)
Theorem C12_checker_assignment_sound : forall P S, check_assignment P S = COk ->
  NoDup (map shift_key (sl_tours S))
  /\ (forall u, In u (sl_unassigned S) -> In (fst u) (job_ids P))
  /\ (forall t a, In t (sl_tours S) -> In a (job_acts t) -> In (fa_job a) (job_ids P))
  /\ NoDup (map fst (sl_unassigned S))
  /\ (forall u t, In u (sl_unassigned S) -> In t (sl_tours S) -> acts_of (fst u) t = [])
  /\ (forall j k1 k2 t1 t2, nth_error (sl_tours S) k1 = Some t1 -> nth_error (sl_tours S) k2 = Some t2 ->
        acts_of j t1 <> [] -> acts_of j t2 <> [] -> k1 = k2).
Proof. exact checker_assignment_sound. Qed.
(* breaches rejected by the model of the real rule, for EVERY document (no validity hypothesis) unless stated *)
Theorem C12_checker_breach_unknown_job_unassigned : forall P S j,
  zmem j (job_ids P) = false -> check_assignment P (mutS (MUnknownUn j) S) <> COk.
Proof. exact checker_breach_unknown_un. Qed.
Theorem C12_checker_breach_unknown_job_activity : forall P S k s a j x,
  zmem j (job_ids P) = false -> act_at S k s a = Some x -> is_job_act x = true ->
  check_assignment P (mutS (MUnknownAct k s a j) S) <> COk.
Proof. exact checker_breach_unknown_act. Qed.
Theorem C12_checker_breach_duplicated_job_unassigned : forall P S i,
  (i < length (sl_unassigned S))%nat -> check_assignment P (mutS (MDupUn i) S) <> COk.
Proof. exact checker_breach_dup_un. Qed.
(* a dropped entry of the unassigned list: rejected when the rule accepted the document before *)
Theorem C12_checker_breach_dropped_job_unassigned : forall P S i,
  check_assignment P S = COk -> (i < length (sl_unassigned S))%nat -> check_assignment P (mutS (MDropUn i) S) <> COk.
Proof. exact checker_breach_drop_un. Qed.
Theorem C12_checker_breach_assigned_and_unassigned : forall P S k s a x,
  act_at S k s a = Some x -> is_job_act x = true -> check_assignment P (mutS (MBoth k s a) S) <> COk.
Proof. exact checker_breach_both. Qed.
Theorem C12_checker_breach_job_in_two_tours : forall P S k s k2 st,
  k <> k2 -> stop_at S k s = Some st -> has_job_act st = true -> tour_at S k2 <> None ->
  check_assignment P (mutS (MCopyStop k s k2) S) <> COk.
Proof. exact checker_breach_job_in_two_tours. Qed.

(* ---- (e) checker/relations.rs: the `any` rule against the vehicle pinning of Spec/Relations.v (rel_vehicle_ok; proved there
   <-> VehiclePinned).  Fragment rel_frag: the relation lists no reserved id (F17), no OTHER shift of its vehicle drives a tour (F18),
   its own tour exists; kind_ids_ok: a break / reload activity carries the reserved id of its kind (rendering) *)
Theorem C12_checker_relation_any_sound : forall P S r, rl_type r = 0 -> rel_frag r S = true -> kind_ids_ok S = true ->
  relation_rule P S r = KOk tt -> rel_vehicle_ok r S = true.
Proof. exact checker_relation_any_sound. Qed.
(* complete, for a relation whose ids are plan jobs listed once per task (the rule's own "duplicated ids" test) and documents without
   recharge / unknown activities *)
Theorem C12_checker_relation_any_complete : forall P S r, rl_type r = 0 -> rel_frag r S = true -> regular_kinds S = true ->
  relation_count P (nodup Z.eq_dec (rl_jobs r)) = KOk (length (rl_jobs r)) ->
  rel_vehicle_ok r S = true -> relation_rule P S r = KOk tt.
Proof. exact checker_relation_any_complete. Qed.
Theorem C12_checker_relation_any_nonvacuous : exists P S r,
  rl_type r = 0 /\ rel_frag r S = true /\ kind_ids_ok S = true /\ regular_kinds S = true
  /\ relation_count P (nodup Z.eq_dec (rl_jobs r)) = KOk (length (rl_jobs r))
  /\ rel_vehicle_ok r S = true /\ relation_rule P S r = KOk tt.
Proof. exact checker_relation_any_nonvacuous. Qed.
(* broken relation: a stop serving a job of an `any` relation moved into the tour of ANOTHER VEHICLE is rejected by the model of the
   real rule (no validity hypothesis; the rule of this relation or of an earlier one fires) *)
Theorem C12_checker_breach_relation_any : forall P S rels r k s k2 t t2 st x, In r rels -> rl_type r = 0 -> k <> k2 ->
  nth_error (sl_tours S) k = Some t -> nth_error (sl_tours S) k2 = Some t2 -> is_rel_tour r t = true ->
  to_vehicle t2 <> rl_vehicle r -> nth_error (to_stops t) s = Some st -> In x (ss_acts st) -> is_job_act x = true ->
  In (sa_job x) (rl_jobs r) -> check_relations rels P (mutS (MRelTour k s k2) S) <> COk.
Proof. exact checker_breach_relation_any. Qed.
(* findings C12-F17 (an `any` relation listing `departure`: valid pair rejected) and C12-F18 (the
   pinned job served by another SHIFT of the relation's vehicle: accepted) *)
Theorem C12_checker_relations_refuted :
  (exists rels P S, valid_r rels P S = [] /\ check_relations rels P S = CErr [[ERelAny]])
  /\ (exists rels P S, valid_b P S = [] /\ rel_viols rels S = [FRelVehicle 0] /\ check_relations rels P S = COk).
Proof. exact checker_relations_refuted. Qed.

(* ---- (f) checker/breaks.rs, first part of check_break_assignment: findings C12-F14 (a break followed by another activity in its
   stop is counted twice) and C12-F10 (the break is attributed to the first break whose interval intersects): valid pairs rejected *)
Theorem C12_checker_breaks_refuted :
  (exists P S, valid_b P S = [] /\ breaks_front P (sl_tours S) = RErr [EBreakMatched])
  /\ (exists P S, valid_b P S = [] /\ breaks_front P (sl_tours S) = RErr [EBreakLocation]).
Proof. exact checker_breaks_refuted. Qed.
