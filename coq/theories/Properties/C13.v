(* C13 — Scientific instance files are read faithfully. Only property theorems, each closed by `exact`. *)
From VRP Require Import Base.Tac Model.Scientific Proofs.ScientificP.
From Coq Require Import String.

Theorem C13_round_spec : forall s, 0 <= s ->
  let r := isqrt_round s in
  0 <= r /\ 4 * s < (2 * r + 1) * (2 * r + 1) /\ (0 < r -> (2 * r - 1) * (2 * r - 1) <= 4 * s).
Proof. exact isqrt_round_spec. Qed.
