(* C13 — Scientific instance files are read faithfully.
   Only the property theorems, each closed by `exact`.  Definitions (model of the readers, abstract instances,
   printers, expected problems) are in Model/Scientific.v, lemmas in Proofs/ScientificP.v. *)
From VRP Require Import Base.Tac Model.Core Spec.Feasible.
From VRP Require Import Model.Scientific Model.SciText Model.SciBind Proofs.ScientificP Proofs.SciTextP Proofs.SciBindP.
From Coq Require Import String Ascii Permutation.

(* ---- Solomon: parsing the printed text of any well-formed instance (any 4+4 header lines) yields exactly its
   customers (id, demand as static delivery, window, service), depot, fleet size, capacity, coordinate index ---- *)
Theorem C13_parse_print_solomon : forall I h1 h2,
  sol_wf I -> List.length h1 = 4%nat -> List.length h2 = 4%nat ->
  read_solomon_defs (print_solomon h1 h2 I) = Ok (expected_solomon I).
Proof. exact parse_print_solomon. Qed.

(* ---- TSPLIB (CVRP, EUC_2D): for every iteration order pn of the reader's hash map, any 2 header lines and any
   number k of zero decimals on coordinates/capacity ---- *)
Theorem C13_parse_print_tsplib : forall I h k pn,
  tsp_wf I -> List.length h = 2%nat -> Permutation pn (ti_nodes I) ->
  read_tsplib_defs (map t_id pn) (print_tsplib h k I) = Ok (expected_tsplib pn I).
Proof. exact parse_print_tsplib. Qed.

(* ---- Li & Lim: jobs are the pickup/delivery pairs in request order, each sub-job with its id, its signed demand
   (pickup: dynamic pickup q; delivery: dynamic delivery q = |-q|), location, window, service; depot, fleet, capacity.
   History: before commit 164f50b (finding C13-F1, lilim/reader.rs::create_single_job built the sub-jobs with
   `dimens: Default::default()`) only `C13_parse_print_lilim_partial` (equality up to sub-job id/demand) held and
   `C13_parse_print_lilim_refuted : exists I, lil_wf I /\ read_lilim_defs (print_lilim I) <> Ok (expected_lilim I)`
   was proved about the then faithful model; both were replaced by the full theorems below after the repair. ---- *)
Theorem C13_parse_print_lilim : forall I, lil_wf I ->
  read_lilim_defs (print_lilim I) = Ok (expected_lilim I).
Proof. exact parse_print_lilim. Qed.
(* the same for every arrangement of the node lines that keeps the pickups in request order *)
Theorem C13_parse_print_lilim_any_layout : forall I rows,
  1 <= li_number I < two64 -> nat32 (li_capacity I) -> 0 <= li_speed I < two64 -> node_wf (li_depot I) ->
  Forall (fun r => 0 < rq_q r) (li_reqs I) ->
  lilim_layout I rows ->
  read_lilim_defs (print_lilim_rows I rows) = Ok (expected_lilim I).
Proof. exact parse_print_lilim_layout. Qed.

(* ---- coordinates -> location indices: the expected problems above use `all_coords` / `loc_of`; these are faithful:
   the index has no duplicates and the location of every coordinate of the sequence holds that coordinate ---- *)
Theorem C13_coord_index_nodup : forall cs, NoDup (all_coords cs).
Proof. exact all_coords_NoDup. Qed.
Theorem C13_location_faithful : forall cs c, In c cs ->
  exists i, loc_of (all_coords cs) c = Z.of_nat i /\ nth_error (all_coords cs) i = Some c.
Proof. exact loc_of_faithful. Qed.

(* ---- distances: the matrix entry for the locations of two coordinates is their (rounded) Euclidean distance;
   rounding is specified by its defining inequalities  r - 1/2 <= sqrt s < r + 1/2  (squared) ---- *)
Theorem C13_distance_between : forall rd cs a b, In a cs -> In b cs ->
  exists i j row, loc_of (all_coords cs) a = Z.of_nat i /\ loc_of (all_coords cs) b = Z.of_nat j /\
                  nth_error (matrix rd (all_coords cs)) i = Some row /\ nth_error row j = Some (dist rd a b).
Proof. exact distance_between. Qed.
Theorem C13_round_spec : forall s, 0 <= s ->
  let r := isqrt_round s in
  0 <= r /\ 4 * s < (2 * r + 1) * (2 * r + 1) /\ (0 < r -> (2 * r - 1) * (2 * r - 1) <= 4 * s).
Proof. exact isqrt_round_spec. Qed.
Theorem C13_round_unique : forall s r, 0 <= s -> 0 <= r ->
  4 * s < (2 * r + 1) * (2 * r + 1) -> (0 < r -> (2 * r - 1) * (2 * r - 1) <= 4 * s) -> r = isqrt_round s.
Proof. exact isqrt_round_unique. Qed.
Theorem C13_dist_symmetric_zero_diag : forall rd a b, dist rd a b = dist rd b a /\ dist rd a a = 0.
Proof. intros rd a b. split; [exact (dist_sym rd a b)|exact (dist_self rd a)]. Qed.

(* ---- TSPLIB parse_int: decimals are rounded to the nearest integer, ties away from zero ---- *)
Theorem C13_decimal_rounding : forall m k,
  let d := 10 ^ Z.of_nat k in let r := round_half_away m k in
  2 * Z.abs (r * d - m) <= d /\ (2 * Z.abs (r * d - m) = d -> Z.abs m < Z.abs (r * d)).
Proof. exact round_half_away_spec. Qed.

(* ---- initial solution (Solomon / TSPLIB text): reading back what was written gives the same routes ---- *)
Theorem C13_init_text_roundtrip : forall known nveh rs cost,
  Forall (Forall (fun z => In z known)) rs -> (List.length rs <= nveh)%nat ->
  read_init known nveh (write_solution rs cost) = Ok rs.
Proof. exact init_text_roundtrip. Qed.

(* ---- non-vacuity: the well-formedness hypotheses are satisfiable by instances with customers ---- *)
Theorem C13_nonvacuous_solomon : exists I, sol_wf I /\ List.length (si_custs I) = 2%nat.
Proof. exists sol_witness. split; [exact sol_witness_wf|reflexivity]. Qed.
Theorem C13_nonvacuous_lilim : exists I, lil_wf I /\ List.length (li_reqs I) = 1%nat.
Proof. exists lil_witness. split; [exact lil_witness_wf|reflexivity]. Qed.
Theorem C13_nonvacuous_tsplib : exists I, tsp_wf I /\ List.length (ti_nodes I) = 3%nat.
Proof. exists tsp_witness. split; [exact tsp_witness_wf|reflexivity]. Qed.

(* ====================================================================================================
   CHARACTER level (Model/SciText.v): the text layer the readers really use — read_line, split_whitespace, str::parse of
   i32 / usize / f64, split(':') + trim — is inside the model; the printers produce characters with oracle layouts
   (arbitrary leading / separating / trailing white space from {space, TAB, CR, VT, FF}, '+' signs and leading zeros on
   every number, arbitrary header lines, optional final newline).
   ==================================================================================================== *)
Theorem C13_parse_print_solomon_text : forall lay I,
  sol_wf I -> List.length (sl_h1 lay) = 4%nat -> List.length (sl_h2 lay) = 4%nat ->
  read_solomon_text (print_solomon_text lay I) = Ok (expected_solomon I).
Proof. exact parse_print_solomon_text. Qed.
Theorem C13_parse_print_lilim_text : forall lay I, lil_wf I ->
  read_lilim_text (print_lilim_text lay I) = Ok (expected_lilim I).
Proof. exact parse_print_lilim_text. Qed.
Theorem C13_parse_print_lilim_any_layout_text : forall lay I rows,
  1 <= li_number I < two64 -> nat32 (li_capacity I) -> 0 <= li_speed I < two64 -> node_wf (li_depot I) ->
  Forall (fun r => 0 < rq_q r) (li_reqs I) ->
  lilim_layout I rows ->
  read_lilim_text (print_lilim_rows_text lay I rows) = Ok (expected_lilim I).
Proof. exact parse_print_lilim_rows_text. Qed.
(* TSPLIB: any white space around keys, colons and values, k zero decimals on coordinates / capacity, every hash order *)
Theorem C13_parse_print_tsplib_text : forall lay k I pn,
  tsp_wf I -> List.length (tl_h lay) = 2%nat -> Permutation pn (ti_nodes I) ->
  read_tsplib_text (map t_id pn) (print_tsplib_text lay k I) = Ok (expected_tsplib pn I).
Proof. exact parse_print_tsplib_text. Qed.

(* the text layer itself: the words of a printed line are its words, whatever the white space; every signed / zero-padded
   spelling of an integer is read as that integer by str::parse::<i32> (and ::<usize> when it is not negative), and by the
   f64 route of the TSPLIB reader *)
Theorem C13_split_whitespace_print_line : forall ll ws tail,
  Forall word_ok ws -> all_ws tail -> words (print_line ll ws ++ tail) = ws.
Proof. exact words_print_line. Qed.
Theorem C13_parse_printed_integer : forall sg st z, sg = true \/ 0 <= z -> tok_int sg (print_int st z) = TInt z.
Proof. exact tok_int_print. Qed.
Theorem C13_float_route_reads_integers : forall st z, i32 z -> parse_int (lex_tsp_word (print_int st z)) = Ok z.
Proof. exact float_reads_int. Qed.
(* what parse_int computes on a decimal with zero fraction digits is exact (the double of an integer below 2^33 is exact) *)
Theorem C13_f64_round_exact_integers : forall z k, Z.abs z < 2 ^ 33 -> f64_round (z * 10 ^ Z.of_nat k) k = z.
Proof. exact f64_round_exact. Qed.

(* TSPLIB decimals: what the code computes (double, then round) IS the nearest integer, ties away from zero, of the decimal
   (C13_decimal_rounding) whenever there are at most 6 fraction digits; with more digits the double may cross a tie
   ("2.4999999999999999999" is read as 3) - the model follows the code (f64_round), validated on such texts *)
Theorem C13_short_decimals_round_exactly : forall m k, (k <= 6)%nat -> Z.abs m < 2 ^ 33 * 10 ^ Z.of_nat k ->
  f64_round m k = round_half_away m k.
Proof. exact f64_round_short. Qed.
Theorem C13_long_decimal_crosses_tie_witness :
  parse_int (lex_tsp_word (str "2.4999999999999999999")) = Ok 3 /\ round_half_away 24999999999999999999 19 = 2.
Proof. split; vm_compute; reflexivity. Qed.

(* ---- numbers outside the machine types (the guards i32 / nat32 of the well-formedness predicates are needed):
   a Solomon / Li&Lim customer line with a number outside i32 among its first 7 panics (unwrap of the parse error);
   TSPLIB numbers saturate silently ---- *)
Theorem C13_out_of_range_customer_line_panics : forall ll pre z post,
  Forall i32 pre -> (List.length pre < 7)%nat -> ~ i32 z ->
  read_customer7 (lex_words (tok_int true) (num_line ll (pre ++ z :: post))) = Panic.
Proof. exact customer_line_out_of_range. Qed.
(* the guard `i32_min < t_id n` of tsp_wf is needed: the reader computes `id - 1` on i32, which overflows for i32::MIN
   (panic in a build with overflow checks, as the harness is built; a release build wraps to job id "2147483647") *)
Theorem C13_tsplib_min_id_overflows :
  read_tsplib_text [1; -2147483648] (str "a
b
TYPE : CVRP
DIMENSION : 2
EDGE_WEIGHT_TYPE : EUC_2D
CAPACITY : 10
NODE_COORD_SECTION
1 0 0
-2147483648 1 1
DEMAND_SECTION
1 0
-2147483648 1
DEPOT_SECTION
1
-1
EOF
") = Panic.
Proof. vm_compute. reflexivity. Qed.
Theorem C13_tsplib_numbers_saturate : forall z, parse_int (lex_tsp_word (canon_str z)) = Ok (clamp_i32 z).
Proof. exact tsplib_saturates. Qed.

(* ---- the written solution text, character by character, and its round trip; the reader also reports the jobs no route
   mentions (empty for a complete solution); routes are taken as written, duplicates included ---- *)
Theorem C13_init_text_roundtrip_text : forall known nveh rs m s,
  Forall (Forall (fun z => In z known)) rs -> (List.length rs <= nveh)%nat -> 0 <= m ->
  read_init_text known nveh (write_solution_text rs m s) = Ok rs.
Proof. exact init_text_roundtrip_text. Qed.
Theorem C13_init_text_unassigned : forall known nveh rs m s,
  Forall (Forall (fun z => In z known)) rs -> (List.length rs <= nveh)%nat -> 0 <= m ->
  read_init_full known nveh (write_solution_text rs m s) = Ok (rs, filter (fun z => negb (mentioned rs z)) known).
Proof. exact init_full_roundtrip_text. Qed.
Theorem C13_complete_solution_nothing_unassigned : forall known rs,
  (forall z, In z known -> exists r, In r rs /\ In z r) -> filter (fun z => negb (mentioned rs z)) known = [].
Proof. exact complete_no_unassigned. Qed.
(* "Cost {:.2}": the hundredths are the nearest to the exact value of the double m / 2^s; an integer cost prints as c.00 *)
Theorem C13_cost_hundredths_nearest : forall n d, 0 < d -> 2 * Z.abs (n - rne_div n d * d) <= d.
Proof. exact rne_div_nearest. Qed.
Theorem C13_cost_format_integer : forall c s, 0 <= c -> cost_str (c * 2 ^ Z.of_nat s) s = dec_str c ++ str ".00".
Proof. exact cost_str_integer. Qed.

(* ====================================================================================================
   "so that capacity and time windows bind exactly as the file says" (Model/SciBind.v): the problem read from the
   CHARACTERS of a printed instance, walked by the step-by-step feasibility simulation of Spec/Feasible.v (the notion C06
   and C01 are stated against) with the rounded Euclidean matrix as travel times, accepts exactly the routes the textbook
   definition accepts: Solomon VRPTW (sum of demands <= Q, arrival <= due date, service from max(arrival, ready time),
   back at the depot by its due date), Li & Lim PDPTW (running load with signed demands <= Q, same timing; a route is a
   sequence of pickup / delivery events of requests of the instance), CVRP (sum of demands <= Q).
   ==================================================================================================== *)
Theorem C13_solomon_binds : forall lay I r,
  sol_wf I -> List.length (sl_h1 lay) = 4%nat -> List.length (sl_h2 lay) = 4%nat ->
  (forall c, In c r -> In c (si_custs I)) ->
  exists P, read_solomon_text (print_solomon_text lay I) = Ok P /\
            problem_feasible P (map (sol_single I) r) = sol_route_ok I r.
Proof. exact solomon_text_binds. Qed.
Theorem C13_lilim_binds : forall lay I r,
  lil_wf I -> (forall e, In e r -> In (ev_req e) (li_reqs I)) ->
  exists P, read_lilim_text (print_lilim_text lay I) = Ok P /\
            problem_feasible P (map (lil_ev_single I) r) = lil_route_ok I r.
Proof. exact lilim_text_binds. Qed.
(* CVRP: non-negative demands, fewer than 2^20 stops (the open windows are the constant INF = 2^60 of Model/Core.v) *)
Theorem C13_tsplib_binds : forall lay k I pn r,
  tsp_wf I -> List.length (tl_h lay) = 2%nat -> Permutation pn (ti_nodes I) ->
  Forall (fun n => 0 <= t_dem n) r -> Z.of_nat (List.length r) < 2 ^ 20 ->
  exists P, read_tsplib_text (map t_id pn) (print_tsplib_text lay k I) = Ok P /\
            problem_feasible P (map (tsp_single pn I) r) = tsp_route_ok I r.
Proof. exact tsplib_text_binds. Qed.
(* non-vacuity of "bind": read from characters, one unit of capacity / one unit of time decides (customer at distance 5
   with demand 5: Q = 5, due = 5 feasible; Q = 4 or due = 4 infeasible) *)
Theorem C13_nonvacuous_bind : bind_verdict 5 5 = true /\ bind_verdict 4 5 = false /\ bind_verdict 5 4 = false.
Proof. exact bind_witness. Qed.
