(* C13 — Scientific instance files are read faithfully.
   Only the property theorems, each closed by `exact`.  Definitions (model of the readers, abstract instances,
   printers, expected problems) are in Model/Scientific.v, lemmas in Proofs/ScientificP.v. *)
From VRP Require Import Base.Tac Model.Scientific Proofs.ScientificP.
From Coq Require Import String Permutation.

(* ---- Solomon: parsing the printed text of any well-formed instance (any 4+4 header lines) yields exactly its
   customers (id, demand as static delivery, window, service), depot, fleet size, capacity, coordinate index ---- *)
Theorem C13_parse_print_solomon : forall I h1 h2,
  sol_wf I -> List.length h1 = 4%nat -> List.length h2 = 4%nat ->
  read_solomon_defs (print_solomon h1 h2 I) = Ok (expected_solomon I).
Proof. exact parse_print_solomon. Qed.

(* ---- TSPLIB (CVRP, EUC_2D): for every iteration order pn of the reader's hash map, any 2 header lines and any
   number k of zero decimals on coordinates/capacity ---- *)
Theorem C13_parse_print_tsplib : forall I h k pn,
  tsp_wf I -> List.length h = 2%nat -> Permutation pn (ti_nodes I) ->
  read_tsplib_defs (map t_id pn) (print_tsplib h k I) = Ok (expected_tsplib pn I).
Proof. exact parse_print_tsplib. Qed.

(* ---- Li & Lim: jobs are the pickup/delivery pairs in request order, each sub-job with its id, its signed demand
   (pickup: dynamic pickup q; delivery: dynamic delivery q = |-q|), location, window, service; depot, fleet, capacity.
   History: before commit 164f50b (finding C13-F1, lilim/reader.rs::create_single_job built the sub-jobs with
   `dimens: Default::default()`) only `C13_parse_print_lilim_partial` (equality up to sub-job id/demand) held and
   `C13_parse_print_lilim_refuted : exists I, lil_wf I /\ read_lilim_defs (print_lilim I) <> Ok (expected_lilim I)`
   was proved about the then faithful model; both were replaced by the full theorems below after the repair. ---- *)
Theorem C13_parse_print_lilim : forall I, lil_wf I ->
  read_lilim_defs (print_lilim I) = Ok (expected_lilim I).
Proof. exact parse_print_lilim. Qed.
(* the same for every arrangement of the node lines that keeps the pickups in request order *)
Theorem C13_parse_print_lilim_any_layout : forall I rows,
  1 <= li_number I < two64 -> nat32 (li_capacity I) -> 0 <= li_speed I < two64 -> node_wf (li_depot I) ->
  Forall (fun r => 0 < rq_q r) (li_reqs I) ->
  lilim_layout I rows ->
  read_lilim_defs (print_lilim_rows I rows) = Ok (expected_lilim I).
Proof. exact parse_print_lilim_layout. Qed.

(* ---- coordinates -> location indices: the expected problems above use `all_coords` / `loc_of`; these are faithful:
   the index has no duplicates and the location of every coordinate of the sequence holds that coordinate ---- *)
Theorem C13_coord_index_nodup : forall cs, NoDup (all_coords cs).
Proof. exact all_coords_NoDup. Qed.
Theorem C13_location_faithful : forall cs c, In c cs ->
  exists i, loc_of (all_coords cs) c = Z.of_nat i /\ nth_error (all_coords cs) i = Some c.
Proof. exact loc_of_faithful. Qed.

(* ---- distances: the matrix entry for the locations of two coordinates is their (rounded) Euclidean distance;
   rounding is specified by its defining inequalities  r - 1/2 <= sqrt s < r + 1/2  (squared) ---- *)
Theorem C13_distance_between : forall rd cs a b, In a cs -> In b cs ->
  exists i j row, loc_of (all_coords cs) a = Z.of_nat i /\ loc_of (all_coords cs) b = Z.of_nat j /\
                  nth_error (matrix rd (all_coords cs)) i = Some row /\ nth_error row j = Some (dist rd a b).
Proof. exact distance_between. Qed.
Theorem C13_round_spec : forall s, 0 <= s ->
  let r := isqrt_round s in
  0 <= r /\ 4 * s < (2 * r + 1) * (2 * r + 1) /\ (0 < r -> (2 * r - 1) * (2 * r - 1) <= 4 * s).
Proof. exact isqrt_round_spec. Qed.
Theorem C13_round_unique : forall s r, 0 <= s -> 0 <= r ->
  4 * s < (2 * r + 1) * (2 * r + 1) -> (0 < r -> (2 * r - 1) * (2 * r - 1) <= 4 * s) -> r = isqrt_round s.
Proof. exact isqrt_round_unique. Qed.
Theorem C13_dist_symmetric_zero_diag : forall rd a b, dist rd a b = dist rd b a /\ dist rd a a = 0.
Proof. intros rd a b. split; [exact (dist_sym rd a b)|exact (dist_self rd a)]. Qed.

(* ---- TSPLIB parse_int: decimals are rounded to the nearest integer, ties away from zero ---- *)
Theorem C13_decimal_rounding : forall m k,
  let d := 10 ^ Z.of_nat k in let r := round_half_away m k in
  2 * Z.abs (r * d - m) <= d /\ (2 * Z.abs (r * d - m) = d -> Z.abs m < Z.abs (r * d)).
Proof. exact round_half_away_spec. Qed.

(* ---- initial solution (Solomon / TSPLIB text): reading back what was written gives the same routes ---- *)
Theorem C13_init_text_roundtrip : forall known nveh rs cost,
  Forall (Forall (fun z => In z known)) rs -> (List.length rs <= nveh)%nat ->
  read_init known nveh (write_solution rs cost) = Ok rs.
Proof. exact init_text_roundtrip. Qed.

(* ---- non-vacuity: the well-formedness hypotheses are satisfiable by instances with customers ---- *)
Theorem C13_nonvacuous_solomon : exists I, sol_wf I /\ List.length (si_custs I) = 2%nat.
Proof. exists sol_witness. split; [exact sol_witness_wf|reflexivity]. Qed.
Theorem C13_nonvacuous_lilim : exists I, lil_wf I /\ List.length (li_reqs I) = 1%nat.
Proof. exists lil_witness. split; [exact lil_witness_wf|reflexivity]. Qed.
Theorem C13_nonvacuous_tsplib : exists I, tsp_wf I /\ List.length (ti_nodes I) = 3%nat.
Proof. exists tsp_witness. split; [exact tsp_witness_wf|reflexivity]. Qed.
