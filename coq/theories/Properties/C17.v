(* C17 — Embedded optimisation and clustering algorithms keep their contracts.
   Only the property theorems, each closed by `exact`. *)
From VRP Require Import Base.Tac Model.Dbscan Proofs.DbscanP.
Local Open Scope nat_scope.

(* ---------------------------------------------------------------- density clustering (dbscan.rs :: create_clusters)
   For EVERY neighbourhood table (not necessarily symmetric or reflexive), min_points and point list the model of
   create_clusters terminates within its fuel and returns pairwise disjoint clusters (no point occurs twice in the
   concatenation), each starting with a core point p and containing only points density-reachable from p, and every
   core point of the input list is in some cluster. *)
Theorem C17_dbscan_terminates : forall tbl minp pts, exists cs, create_clusters tbl minp pts = Some cs.
Proof. exact create_clusters_total. Qed.

Theorem C17_dbscan_contract : forall tbl minp pts cs,
  create_clusters tbl minp pts = Some cs ->
  NoDup (concat cs)
  /\ (forall c, In c cs -> exists p, hd_error c = Some p /\ core tbl minp p /\ forall q, In q c -> dreach tbl minp p q)
  /\ (forall p, In p pts -> core tbl minp p -> exists c, In c cs /\ In p c).
Proof. intros tbl minp pts cs H. apply dbscan_contract_spec. apply create_clusters_contract. exact H. Qed.

Theorem C17_dbscan_disjoint : forall cs : list (list nat),
  NoDup (concat cs) -> forall i j a b x, i <> j -> nth_error cs i = Some a -> nth_error cs j = Some b ->
  In x a -> In x b -> False.
Proof. exact NoDup_concat_disjoint. Qed.

(* the executable checker that is evaluated on the implementation's outputs decides the (ordered-growth) contract,
   which implies the contract above *)
Theorem C17_dbscan_checker_sound : forall tbl minp pts cs,
  check_dbscan tbl minp pts cs = true <-> dbscan_contract tbl minp pts cs.
Proof. exact check_dbscan_iff. Qed.

Theorem C17_dbscan_checker_implies_property : forall tbl minp pts cs,
  check_dbscan tbl minp pts cs = true ->
  NoDup (concat cs)
  /\ (forall c, In c cs -> exists p, hd_error c = Some p /\ core tbl minp p /\ forall q, In q c -> dreach tbl minp p q)
  /\ (forall p, In p pts -> core tbl minp p -> exists c, In c cs /\ In p c).
Proof. intros tbl minp pts cs H. apply dbscan_contract_spec. apply check_dbscan_iff. exact H. Qed.

(* non-vacuity: a table with two clusters and a noise point *)
Theorem C17_dbscan_nonvacuous :
  create_clusters [[0;1];[0;1;2];[1;2];[3];[4;5];[4;5]] 2 [0;1;2;3;4;5] = Some [[0;1;2];[4;5]].
Proof. vm_compute. reflexivity. Qed.
