(* C17 — Embedded optimisation and clustering algorithms keep their contracts.
   Only the property theorems, each closed by `exact` (or by evaluation for witnesses). *)
From Coq Require Import Permutation QArith Sorted Floats.
From VRP Require Import Base.Tac Model.Dbscan Model.Lkh Model.KMedoids Proofs.DbscanP Proofs.LkhP Proofs.LkhCostP Proofs.KMedoidsP.
From VRP Require Import Model.LkhG Proofs.LkhGP Proofs.LkhGCostP Model.LkhRoute Proofs.LkhRouteP.
From VRP Require Import Model.ClusterWrappers Proofs.ClusterWrappersP.
Local Open Scope Z_scope.
Local Open Scope nat_scope.

(* ================================================================ density clustering (dbscan.rs :: create_clusters)
   For EVERY neighbourhood table (not necessarily symmetric or reflexive), min_points and point list the model of
   create_clusters terminates within its fuel and returns pairwise disjoint clusters (no point occurs twice in the
   concatenation), each starting with a core point p and containing only points density-reachable from p, and every
   core point of the input list is in some cluster. *)
Theorem C17_dbscan_terminates : forall tbl minp pts, exists cs, create_clusters tbl minp pts = Some cs.
Proof. exact create_clusters_total. Qed.

Theorem C17_dbscan_contract : forall tbl minp pts cs,
  create_clusters tbl minp pts = Some cs ->
  NoDup (concat cs)
  /\ (forall c, In c cs -> exists p, hd_error c = Some p /\ core tbl minp p /\ forall q, In q c -> dreach tbl minp p q)
  /\ (forall p, In p pts -> core tbl minp p -> exists c, In c cs /\ In p c).
Proof. intros tbl minp pts cs H. apply dbscan_contract_spec. apply create_clusters_contract. exact H. Qed.

Theorem C17_dbscan_disjoint : forall cs : list (list nat),
  NoDup (concat cs) -> forall i j a b x, i <> j -> nth_error cs i = Some a -> nth_error cs j = Some b ->
  In x a -> In x b -> False.
Proof. exact NoDup_concat_disjoint. Qed.

(* the executable checker that is evaluated on the implementation's outputs decides the (ordered-growth) contract,
   which implies the contract above *)
Theorem C17_dbscan_checker_sound : forall tbl minp pts cs,
  check_dbscan tbl minp pts cs = true <-> dbscan_contract tbl minp pts cs.
Proof. exact check_dbscan_iff. Qed.

Theorem C17_dbscan_checker_implies_property : forall tbl minp pts cs,
  check_dbscan tbl minp pts cs = true ->
  NoDup (concat cs)
  /\ (forall c, In c cs -> exists p, hd_error c = Some p /\ core tbl minp p /\ forall q, In q c -> dreach tbl minp p q)
  /\ (forall p, In p pts -> core tbl minp p -> exists c, In c cs /\ In p c).
Proof. intros tbl minp pts cs H. apply dbscan_contract_spec. apply check_dbscan_iff. exact H. Qed.

Theorem C17_dbscan_nonvacuous :
  create_clusters [[0;1];[0;1;2];[1;2];[3];[4;5];[4;5]] 2 [0;1;2;3;4;5] = Some [[0;1;2];[4;5]].
Proof. vm_compute. reflexivity. Qed.

(* ================================================================ Lin-Kernighan re-sequencing (lkh/*.rs)
   `ho` is the hash-map iteration order inside find_closest: any function that returns entries of the map. *)

(* Tour::try_path: whatever edges are removed / added, a returned path has the tour's length, no repeated node,
   starts at the tour's first node and visits only endpoints of the new edge set *)
Theorem C17_lkh_try_path_valid : forall t broken joined q,
  try_path t broken joined = Some q ->
  length q = length (tpath t) /\ NoDup q /\ hd_error q = hd_error (tpath t)
  /\ forall x, In x q -> endp (new_edges t broken joined) x.
Proof. exact try_path_sound. Qed.

(* clause "returns permutations of the given nodes": for every cost matrix (symmetric or not), neighbour lists,
   hash order, outer fuel and start path *)
Theorem C17_lkh_permutation : forall cm nb ho,
  (forall l l', ho l = Some l' -> forall e, In e l' -> In e l) ->
  forall ofuel p q, optimize cm nb ho ofuel p = Found q -> Permutation q p.
Proof. exact optimize_perm. Qed.

(* clause "that start at the same node": for EVERY input path (after the repair of finding C17-F1, commit 04e832d:
   try_path starts the rebuilt path at `*self.path.first()?`).  Before the repair `start_node` was
   `index_of(path[0])` = 0 used as a node id, and this theorem held only for paths starting at node 0 (the former
   C17_lkh_start_refuted witnessed [3;0;5;1;6;2;7;4] -> [0;1;2;3;5;6;7;4] on the line metric; the input stays in
   corpus/C17/f1-lkh-start-node.json as a regression case and selftest/mutants/C17-9.diff re-introduces the defect). *)
Theorem C17_lkh_start : forall cm nb ho,
  (forall l l', ho l = Some l' -> forall e, In e l' -> In e l) ->
  forall ofuel p q, optimize cm nb ho ofuel p = Found q -> hd_error q = hd_error p.
Proof. exact optimize_start. Qed.

Definition line8 : list (list Z) :=
  map (fun i => map (fun j => Z.abs (Z.of_nat i - Z.of_nat j)) (seq 0 8)) (seq 0 8).
Definition near8 : list (list nat) :=
  [[1;2;3;4;5;6;7];[0;2;3;4;5;6;7];[1;3;0;4;5;6;7];[2;4;1;5;0;6;7];[3;5;2;6;1;7;0];[4;6;3;7;2;1;0];[5;7;4;3;2;1;0];[6;5;4;3;2;1;0]].

(* non-vacuity of the start clause on the former counterexample: the tour changes and still starts at node 3 *)
Theorem C17_lkh_start_nonvacuous :
  exists q, optimize line8 near8 id_ho 100 [3;0;5;1;6;2;7;4] = Found q
            /\ hd_error q = Some 3 /\ q <> [3;0;5;1;6;2;7;4]
            /\ check_lkh line8 [3;0;5;1;6;2;7;4] q = [].
Proof.
  eexists. split; [vm_compute; reflexivity|]. split; [reflexivity|]. split; [discriminate | vm_compute; reflexivity].
Qed.

(* clause "always terminates", inner part: one improvement step (the mutually recursive choose_x / choose_y search, which
   the code bounds only through the growth of `broken` inside the tour's edge set) never exhausts the model's fuel
   `length p + 2`, for every matrix, neighbour lists, hash order and path *)
Theorem C17_lkh_improve_terminates_partial : forall cm nb ho p, improve cm nb ho p <> Fuel.
Proof. exact improve_nofuel. Qed.

(* clause "closed-tour cost never above the input's".  kopt.rs never compares tour costs: KOpt::optimize keeps whatever
   `improve` returns, and `improve` accepts a move when its gain `relink` (removed minus added edge costs) is > 0 and
   Tour::try_path rebuilds a tour.  The proof therefore goes through the search invariant (X is a set of tour edges,
   |X| = |Y|, every node has the same degree in X and in Y, gain = cost X - cost Y), the two length checks of try_path
   (which force tour \ X u Y to have exactly n edges) and the walk of try_path over that edge set (start has degree 2,
   so the walk closes), giving  cost(new) = cost(old) - relink.
   Hypotheses: symmetric matrix (the property's domain), duplicate-free input path, hash order returning map entries.
   One accepted improvement is STRICTLY cheaper, and tours of fewer than 3 nodes are never changed: *)
Theorem C17_lkh_improvement_strict : forall cm nb ho,
  (forall i j, cost cm i j = cost cm j i) ->
  (forall l l', ho l = Some l' -> forall e, In e l' -> In e l) ->
  forall p q, NoDup p -> improve cm nb ho p = Found q ->
  Permutation q p /\ 3 <= length p /\ (cycle_cost cm q < cycle_cost cm p)%Z.
Proof. exact improve_step. Qed.

Theorem C17_lkh_cost : forall cm nb ho,
  (forall i j, cost cm i j = cost cm j i) ->
  (forall l l', ho l = Some l' -> forall e, In e l' -> In e l) ->
  forall ofuel p q, NoDup p -> optimize cm nb ho ofuel p = Found q ->
  (cycle_cost cm q <= cycle_cost cm p)%Z.
Proof. exact optimize_cost. Qed.

(* clause "always terminates", stated without fuel: over exact (integer) costs some number of loop iterations always
   suffices, i.e. the modelled KOpt::optimize never runs out of ANY sufficiently large outer fuel (the inner search
   never does, C17_lkh_improve_terminates_partial).  Measure: cost(p) + sum of |cost| over the node pairs of p, a
   natural number that every accepted improvement decreases.
   What remains for f64: `relink > 0.` is evaluated on rounded sums, so a positive computed gain need not be a real
   decrease when costs are not exactly representable / sums exceed 2^53; the theorem is about exact arithmetic only
   (the harness uses integer-valued costs, where f64 is exact, and a watchdog). *)
Theorem C17_lkh_terminates : forall cm nb ho,
  (forall i j, cost cm i j = cost cm j i) ->
  (forall l l', ho l = Some l' -> forall e, In e l' -> In e l) ->
  forall p, NoDup p -> exists ofuel, optimize cm nb ho ofuel p <> Fuel.
Proof. exact optimize_terminates. Qed.

(* the whole LKH contract in one statement: the loop ends, and (unless the strict tie oracle of the correspondence
   aborted) it ends with a permutation of the input that starts at the same node and is not more expensive *)
Theorem C17_lkh_contract : forall cm nb ho,
  (forall i j, cost cm i j = cost cm j i) ->
  (forall l l', ho l = Some l' -> forall e, In e l' -> In e l) ->
  forall p, NoDup p ->
  exists ofuel, optimize cm nb ho ofuel p = Abort
                \/ exists q, optimize cm nb ho ofuel p = Found q
                             /\ Permutation q p /\ hd_error q = hd_error p
                             /\ (cycle_cost cm q <= cycle_cost cm p)%Z.
Proof. exact lkh_contract_total. Qed.

(* the same three clauses are also evaluated on every implementation output by this verified checker *)
Theorem C17_lkh_checker_sound : forall cm input output,
  check_lkh cm input output = [] <->
  Permutation output input /\ hd_error output = hd_error input /\ (cycle_cost cm output <= cycle_cost cm input)%Z.
Proof. exact check_lkh_iff. Qed.

Theorem C17_lkh_nonvacuous :
  optimize line8 near8 id_ho 100 [0;5;1;6;2;7;4;3] = Found [0;1;2;3;4;7;6;5]
  /\ check_lkh line8 [0;5;1;6;2;7;4;3] [0;1;2;3;4;7;6;5] = [].
Proof. vm_compute. split; reflexivity. Qed.

(* ---------------------------------------------------------------- LKH over NON-EXACT cost arithmetic (f64)
   Model/LkhG.v is the same search over an arbitrary cost type with its own +, -, comparisons; Model/Lkh.v is its instance at
   exact integers (by conversion), so the theorems above are theorems about that instance: *)
Theorem C17_lkh_generic_model_at_Z_is_exact_model : forall cm nb ho ofuel p,
  goptimize Z ZOps (cost cm) nb ho rej_known ofuel p = optimize cm nb ho ofuel p.
Proof. exact z_instance_optimize. Qed.

(* the permutation and start clauses and the termination of ONE improve call do not depend on the arithmetic: they hold for
   every cost type (so also for the f64 code whenever it returns), every `is_known_path` policy, every hash order *)
Theorem C17_lkh_permutation_any_arithmetic : forall C (K : cops C) cost nb ho reject,
  (forall l l', ho l = Some l' -> forall e, In e l' -> In e l) ->
  forall ofuel p q, goptimize C K cost nb ho reject ofuel p = Found q ->
  Permutation q p /\ hd_error q = hd_error p.
Proof. exact goptimize_ok. Qed.

Theorem C17_lkh_improve_terminates_any_arithmetic : forall C (K : cops C) cost nb ho reject,
  (forall l l', ho l = Some l' -> forall e, In e l' -> In e l) ->
  forall p, gimprove C K cost nb ho reject p <> Fuel.
Proof. exact gimprove_nofuel. Qed.

(* clause "always terminates" is VIOLATED by the code over f64 (finding C17-F4).  Instance FOps = Coq primitive floats = IEEE-754
   binary64.  Seven distinct integer points, Euclidean costs sqrt(dx^2+dy^2), complete neighbour lists sorted by distance, a
   start path through all points: the first improvement reaches tour a; a and b are different tours with the same multiset of
   squared edge lengths (exactly equal length); the gain `relink` of the 3-opt move a -> b, a sum of six rounded terms whose
   exact value is 0, is computed > 0, and so is the gain of the move back; is_known_path only knows the current tour.  Hence
   KOpt::optimize alternates a, b, a, b, ... : it is out of fuel for EVERY fuel.  (gstrict_ho aborts on any candidate tie:
   the result Fuel, not Abort, says that no hash-order dependent choice occurs on the way.) *)
Theorem C17_lkh_float_termination_refuted :
  exists (pts : list (Z * Z)) (nb : list (list nat)) (p a b : list nat),
    NoDup pts /\ Permutation p (seq 0 (length pts)) /\ fsymb (euclid pts) = true
    /\ a <> b /\ Permutation (sq_lengths pts a) (sq_lengths pts b)
    /\ gimprove float FOps (fcost (euclid pts)) nb (gstrict_ho float FOps) rej_known p = Found a
    /\ gimprove float FOps (fcost (euclid pts)) nb (gstrict_ho float FOps) rej_known a = Found b
    /\ gimprove float FOps (fcost (euclid pts)) nb (gstrict_ho float FOps) rej_known b = Found a
    /\ forall ofuel, goptimize float FOps (fcost (euclid pts)) nb (gstrict_ho float FOps) rej_known ofuel p = Fuel.
Proof. exact lkh_float_refuted. Qed.

(* PROPOSED REPAIR (notes/patches/C17-lkh-termination.diff: `self.solutions.clear()` removed, KOpt::solutions keeps every
   discovered tour, is_known_path rejects a tour that was already visited; model goptimize_hist / rej_seen).
   Termination for EVERY cost arithmetic - nothing at all is assumed of +, -, <=, <, total_cmp (they may round, overflow, be
   inconsistent): the measure is what the code compares, the set of remembered tours: an accepted tour is a word over the input's
   nodes that is not yet remembered, and there are finitely many. *)
Theorem C17_lkh_repaired_terminates : forall C (K : cops C) cost nb ho,
  (forall l l', ho l = Some l' -> forall e, In e l' -> In e l) ->
  forall p, exists ofuel, goptimize_hist C K cost nb ho ofuel p [] <> HFuel.
Proof. exact memory_terminates. Qed.

(* every path of the returned vector is a permutation of the input starting at the same node; the input is the first entry;
   no path occurs twice - again for every cost arithmetic *)
Theorem C17_lkh_repaired_contract : forall C (K : cops C) cost nb ho,
  (forall l l', ho l = Some l' -> forall e, In e l' -> In e l) ->
  forall p ofuel ps, goptimize_hist C K cost nb ho ofuel p [] = HFound ps ->
  NoDup ps /\ (forall q, In q ps -> Permutation q p /\ hd_error q = hd_error p) /\ hd_error ps = Some p.
Proof. exact memory_contract. Qed.

(* cost clause of the repaired loop over exact costs (symmetric matrix, duplicate-free input): the returned tours get strictly
   cheaper from one to the next, so none (in particular the last one, which the callers take) is above the input's *)
Theorem C17_lkh_repaired_cost : forall cm nb ho,
  (forall i j, cost cm i j = cost cm j i) ->
  (forall l l', ho l = Some l' -> forall e, In e l' -> In e l) ->
  forall ofuel p ps, NoDup p -> goptimize_hist Z ZOps (cost cm) nb ho ofuel p [] = HFound ps ->
  descending cm ps /\ forall q, In q ps -> (cycle_cost cm q <= cycle_cost cm p)%Z.
Proof. exact memory_cost. Qed.

(* non-vacuity: on the instance of C17_lkh_float_termination_refuted the repaired loop ends after three accepted tours; the move
   b -> a is rejected (a is remembered) and the search goes on to a tour that is really shorter *)
Theorem C17_lkh_repaired_nonvacuous :
  goptimize_hist float FOps (fcost (euclid [(2, 0); (0, 0); (0, 2); (3, 3); (1, 0); (2, 3); (3, 2)]%Z))
    [[4; 1; 6; 2; 5; 3]; [4; 0; 2; 5; 6; 3]; [1; 4; 5; 0; 6; 3]; [5; 6; 0; 2; 4; 1]; [0; 1; 2; 6; 5; 3]; [3; 6; 2; 0; 4; 1];
     [3; 5; 0; 4; 2; 1]] (gstrict_ho float FOps) 400 [0; 3; 5; 2; 4; 1; 6] []
  = HFound [[0; 3; 5; 2; 4; 1; 6]; [0; 1; 4; 2; 5; 6; 3]; [0; 1; 4; 2; 3; 5; 6]; [0; 1; 4; 2; 5; 3; 6]].
Proof. exact wit_repaired. Qed.

(* an ALTERNATIVE repair that was not chosen (it changes which of two equally long tours a repository test expects): accept a
   rebuilt tour only if its recomputed closed-tour cost is strictly below the current tour's.  It ends for every cost arithmetic
   whose `<` is a strict order (nothing is assumed of + and -), and the recomputed cost never goes up *)
Theorem C17_lkh_cheaper_acceptance_terminates : forall C (K : cops C) cost nb ho,
  (forall l l', ho l = Some l' -> forall e, In e l' -> In e l) ->
  (forall x, c_lt K x x = false) ->
  (forall x y z, c_lt K x y = true -> c_lt K y z = true -> c_lt K x z = true) ->
  forall p, exists ofuel, goptimize C K cost nb ho (rej_cheaper K cost) ofuel p <> Fuel.
Proof. exact repaired_terminates. Qed.

Theorem C17_lkh_cheaper_acceptance_nonvacuous :
  (forall x, c_lt ZOps x x = false)
  /\ (forall x y z, c_lt ZOps x y = true -> c_lt ZOps y z = true -> c_lt ZOps x z = true)
  /\ (forall l l', gstrict_ho Z ZOps l = Some l' -> forall e, In e l' -> In e l).
Proof. exact (conj zops_lt_irrefl (conj zops_lt_trans (gstrict_ho_sound Z ZOps))). Qed.

(* the cycle detector of the float correspondence is sound: when the model that remembers every tour (goptimize_seen, result code 4 of
   run_lkhf / run_lkh_route) sees a tour come back, KOpt::optimize is out of fuel for EVERY fuel *)
Theorem C17_lkh_cycle_detector_sound : forall C (K : cops C) cost nb ho reject ofuel p q k,
  goptimize_seen C K cost nb ho reject ofuel [] p = (4, q, k) ->
  forall f, goptimize C K cost nb ho reject f p = Fuel.
Proof. exact seen_cycle_diverges. Qed.

(* ---------------------------------------------------------------- the solver's LKH operator (solver/search/lkh_search.rs):
   tour -> path -> lkh_optimize -> tour.  rearrange_route (the in-place swap loop) applies the permutation it is given: for a path
   that is a permutation of the range 0..n, activity path[j] of the old tour ends at position j, activities behind the range are
   not touched, the length stays *)
Theorem C17_lkh_rearrange_route : forall (A : Type) (d : A) n acts path,
  Permutation path (seq 0 n) -> n <= length acts ->
  length (rearrange d n acts path) = length acts
  /\ (forall j, j < n -> nth j (rearrange d n acts path) d = nth (nth j path 0) acts d)
  /\ (forall j, n <= j -> nth j (rearrange d n acts path) d = nth j acts d).
Proof. exact @rearrange_spec. Qed.

Theorem C17_lkh_rearrange_route_keeps_activities : forall (A : Type) (d : A) acts path,
  Permutation path (seq 0 (length acts)) -> Permutation (rearrange d (length acts) acts path) acts.
Proof. exact @rearrange_whole_tour_perm. Qed.

(* optimize_route as a whole, for every cost arithmetic and every is_known_path policy: a tour that comes back holds exactly the
   activities of the old tour, the activities outside the LKH range (the end at the depot) stay in place and the start stays first
   - this is where the LKH clauses "permutation of the given nodes" and "starts at the same node" are needed by the solver *)
Theorem C17_lkh_route_rebuilt_tour : forall C (K : cops C) cost nb ho reject,
  (forall l l', ho l = Some l' -> forall e, In e l' -> In e l) ->
  forall locs_all ofuel q,
  goptimize C K cost nb ho reject ofuel (seq 0 (route_range locs_all)) = Found q ->
  Permutation (route_apply locs_all q) (seq 0 (length locs_all))
  /\ (forall j, route_range locs_all <= j -> j < length locs_all -> nth j (route_apply locs_all q) 0 = j)
  /\ (0 < route_range locs_all -> nth 0 (route_apply locs_all q) 0 = 0).
Proof. exact route_rebuilt. Qed.

(* finding C17-F4 through the solver: for a closed route over five distinct grid points, and for a route with two jobs at one
   address (coordinates up to 1000), the CostMatrix that lkh_search.rs builds makes the search of the code as it is cycle
   (code 4, sound by C17_lkh_cycle_detector_sound); with the proposed repair the first route is re-sequenced and returned *)
Theorem C17_lkh_route_float_cycle_witness :
  run_lkh_route false (euclid [(2, 0); (3, 2); (3, 3); (0, 2); (2, 3)]%Z) [0; 3; 1; 2; 4; 0] = (4, [])
  /\ run_lkh_route false (euclid [(325, 385); (816, 111); (791, 190); (475, 483); (992, 935); (162, 268)]%Z) [0; 3; 5; 2; 2; 1; 4; 0] = (4, [])
  /\ run_lkh_route true (euclid [(2, 0); (3, 2); (3, 3); (0, 2); (2, 3)]%Z) [0; 3; 1; 2; 4; 0] = (0, [0; 1; 4; 3; 2; 5]).
Proof. exact route_cycle_witness. Qed.

Theorem C17_lkh_rearrange_route_nonvacuous :
  rearrange 0 5 [10; 11; 12; 13; 14; 15] [0; 3; 1; 4; 2] = [10; 13; 11; 14; 12; 15].
Proof. exact rearrange_example. Qed.

(* ================================================================ k-medoids (kmedoids.rs)
   d = distance function, chunks = how rayon splits the data in fold_reduce, ord = hash order of updated medoids *)
Theorem C17_kmedoids_contract : forall d chunks ord data k,
  (forall l, Permutation (ord l) l) ->
  Permutation (flat_map snd (create_kmedoids d chunks ord data k)) data
  /\ (forall med c p med' c', In (med, c) (create_kmedoids d chunks ord data k) -> In p c ->
                              In (med', c') (create_kmedoids d chunks ord data k) -> (d p med <= d p med')%Z).
Proof. exact create_kmedoids_contract. Qed.
(* FULL k-medoids clause since repair ba4acde of /repo (finding C17-F3): any k (also 0 and k above the number of distinct
   points), any data (also empty / repeated points), any chunking, any distance function; the only hypothesis is that the
   hash iteration order is an arrangement of the map's entries. *)

(* the nearest-medoid clause needs no hypothesis at all *)
Theorem C17_kmedoids_nearest : forall d chunks ord data k med c p med' c',
  In (med, c) (create_kmedoids d chunks ord data k) -> In p c ->
  In (med', c') (create_kmedoids d chunks ord data k) -> (d p med <= d p med')%Z.
Proof. exact create_kmedoids_nearest. Qed.

(* the former finding C17-F3, restated about the function BEFORE repair ba4acde (create_kmedoids_prefix): with k above the
   number of distinct points everything was dropped *)
Theorem C17_kmedoids_partition_prefix_refuted : forall d ord p,
  create_kmedoids_prefix d halves ord [p] 2 = []
  /\ ~ Permutation (flat_map snd (create_kmedoids_prefix d halves ord [p] 2)) [p].
Proof. exact kmedoids_k_exceeds_prefix. Qed.

(* the former finding C17-F2, restated about the function BEFORE repair 8db29ea: a single point hit
   medoid.expect("should be set") *)
Theorem C17_hkmedoids_single_point_prefix_refuted : forall d chunks ord p n,
  create_hierarchical_kmedoids_prefix d chunks ord [p] (S n) = HPanic.
Proof. exact hkmedoids_single_point_prefix_panics. Qed.

(* repaired code: a single point gives the empty hierarchy (what every input without a cluster of more than two points
   gives), and expect("should be set") is unreachable for every input *)
Theorem C17_hkmedoids_single_point : forall d chunks ord p n,
  create_hierarchical_kmedoids d chunks ord [p] n = HOk [].
Proof. exact hkmedoids_single_point. Qed.

Theorem C17_hkmedoids_never_panics : forall d chunks ord data tiers,
  create_hierarchical_kmedoids d chunks ord data tiers <> HPanic.
Proof. exact hkmedoids_no_panic. Qed.

Theorem C17_kmedoids_checker_sound : forall dm data m,
  check_kmedoids dm data m = [] <->
  Permutation (flat_map snd m) data
  /\ (forall med c p med' c', In (med, c) m -> In p c -> In (med', c') m -> (dmat dm p med <= dmat dm p med')%Z).
Proof. exact check_kmedoids_iff. Qed.

Theorem C17_kmedoids_nonvacuous :
  create_kmedoids (dmat line8) halves sort_nat [0;1;2;5;6;7] 2 = [(1, [0;1;2]); (6, [5;6;7])]
  /\ check_kmedoids line8 [0;1;2;5;6;7] [(1, [0;1;2]); (6, [5;6;7])] = [].
Proof. vm_compute. split; reflexivity. Qed.

(* the distance function is directed: `d p med` is distance_fn(point, medoid), FROM the point TO the medoid, at every call site
   of the model as in kmedoids.rs (first medoid: d a p summed over p; next medoid and assignment: d point medoid; update:
   d point candidate summed over the cluster).  Nothing above assumes d a b = d b a.  On this one-way instance (going up
   inside a group costs 1-2, going back 9) the medoids are the points everybody REACHES cheaply (2 and 5), although
   0 and 3 are the points that reach everybody cheaply; the contract holds in the point->medoid direction and fails in the
   medoid->point direction *)
Definition oneway6 : list (list Z) :=
  [[0;1;2;30;31;32];[9;0;1;30;31;32];[9;9;0;30;31;32];[30;31;32;0;1;2];[30;31;32;9;0;1];[30;31;32;9;9;0]]%Z.
Theorem C17_kmedoids_directed_nonvacuous :
  create_kmedoids (dmat oneway6) halves sort_nat [0;1;2;3;4;5] 2 = [(2, [0;1;2]); (5, [3;4;5])]
  /\ check_kmedoids oneway6 [0;1;2;3;4;5] [(2, [0;1;2]); (5, [3;4;5])] = []
  /\ (dmat oneway6 0 2 < dmat oneway6 2 0)%Z
  /\ check_kmedoids oneway6 [0;1;2;3;4;5] [(0, [0;1;2]); (3, [3;4;5])] = []
  /\ check_kmedoids oneway6 [0;1;2;3;4;5] [(0, [0;1;2;5]); (3, [3;4])] = [2].
Proof. vm_compute. repeat split; reflexivity. Qed.

(* ================================================================ the wrappers between the algorithms and the solver
   (Model/ClusterWrappers.v)

   create_job_clusters (construction/clustering/dbscan/neighbour_clusters.rs; called by Jobs::new for Jobs::clusters(), which
   the cluster-removal ruin reads, and by `vrp-cli analyze clusters`): hasloc = job_has_locations, the rows of the FIRST fleet
   profile are prow0 (row j = what neighbour_fn(profile, j) yields), min_points = max(given or 3, 2), epsilon = given or
   estimated (jc_epsilon).  The neighbourhood it constructs is `jc_neighbours`: the jobs with locations in front of the first
   located entry whose cost is not below epsilon.  Its clusters, read as SETS (they are HashSets: any rearrangement cs' of
   every cluster), satisfy the DBSCAN contract w.r.t. that neighbourhood: pairwise disjoint; each contains one of the given
   jobs that is a core job from which every member is density-reachable; no given job with locations that is a core job is
   left out; only jobs with locations are clustered.  Nothing is dropped or merged after dbscan::create_clusters. *)
Theorem C17_job_clusters_terminates : forall hasloc rows jobs mp eps,
  create_job_clusters hasloc rows jobs mp eps <> JFuel.
Proof. exact create_job_clusters_total. Qed.

Theorem C17_job_clusters_error_iff_no_profile : forall hasloc rows jobs mp eps,
  create_job_clusters hasloc rows jobs mp eps = JErr <-> rows = [].
Proof. exact create_job_clusters_err. Qed.

Theorem C17_job_clusters_is_dbscan : forall hasloc prow0 rest jobs mp eps cs,
  create_job_clusters hasloc (prow0 :: rest) jobs mp eps = JOk cs <->
  create_clusters (jc_table hasloc (jc_epsilon hasloc (prow0 :: rest) jobs mp eps) prow0) (jc_min_points mp) (filter hasloc jobs)
  = Some cs.
Proof. exact create_job_clusters_is_dbscan. Qed.

Theorem C17_job_clusters_contract : forall hasloc prow0 rest jobs mp eps cs,
  create_job_clusters hasloc (prow0 :: rest) jobs mp eps = JOk cs ->
  let e := jc_epsilon hasloc (prow0 :: rest) jobs mp eps in
  let tbl := jc_table hasloc e prow0 in
  let minp := jc_min_points mp in
  (forall j, nbrs tbl j = jc_neighbours hasloc e (nth j prow0 []))
  /\ 2 <= minp
  /\ forall cs', Forall2 (@Permutation nat) cs cs' ->
       NoDup (concat cs')
       /\ (forall c, In c cs' -> exists p, In p c /\ In p jobs /\ core tbl minp p /\ forall q, In q c -> dreach tbl minp p q)
       /\ (forall j, In j jobs -> hasloc j = true -> core tbl minp j -> exists c, In c cs' /\ In j c)
       /\ (forall c j, In c cs' -> In j c -> hasloc j = true).
Proof. exact create_job_clusters_contract. Qed.

(* the constructed neighbourhood: only jobs with locations at a cost below epsilon; for a row sorted by cost (what the job
   index stores) ALL of them *)
Theorem C17_job_neighbourhood_sound : forall hasloc eps row q,
  In q (jc_neighbours hasloc eps row) ->
  hasloc q = true /\ exists c, In (q, c) row /\ (inject_Z c < eps)%Q.
Proof. exact jc_neighbours_sound. Qed.

Theorem C17_job_neighbourhood_complete : forall hasloc eps row q c,
  StronglySorted (fun a b : nat * Z => (snd a <= snd b)%Z) row ->
  In (q, c) row -> hasloc q = true -> (inject_Z c < eps)%Q ->
  In q (jc_neighbours hasloc eps row).
Proof. exact jc_neighbours_complete. Qed.

(* non-vacuity, on the shape of seeded/C17-5: nine jobs on a line at 0 1 2 3 | 6 | 9 10 11 | 30, rows sorted by cost,
   min_points 3, epsilon 3.5.  Job 4 (at 6) is a border job within reach of the cores 3 and 5; whichever group is visited
   first claims it.  The other group is a legitimate cluster of NO MORE than min_points members whose seed is a core job
   (job 5 has exactly 3 neighbours: 6, 7, 4): a wrapper that dropped clusters with `len <= min_points` would leave this
   core job unclustered.  With the estimated epsilon (5/2, what Jobs::new uses) the dense group alone is found. *)
Definition line_pos : list Z := [0;1;2;3;6;9;10;11;30]%Z.
Fixpoint ins_cost (x : nat * Z) (l : nrow) : nrow :=
  match l with [] => [x] | y :: r => if (snd x <=? snd y)%Z then x :: l else y :: ins_cost x r end.
Definition line_rows : list nrow :=
  map (fun i => fold_right ins_cost [] (map (fun j => (j, Z.abs (nth j line_pos 0 - nth i line_pos 0))%Z)
                                            (filter (fun j => negb (j =? i)) (seq 0 9)))) (seq 0 9).
Theorem C17_job_clusters_nonvacuous :
  create_job_clusters (fun _ => true) [line_rows] (seq 0 9) (Some 3) (Some (7 # 2)%Q) = JOk [[0;1;2;3;4]; [5;6;7]]
  /\ create_job_clusters (fun _ => true) [line_rows] (rev (seq 0 9)) (Some 3) (Some (7 # 2)%Q) = JOk [[5;6;7;4]; [3;2;1;0]]
  /\ nbrs (jc_table (fun _ => true) (7 # 2)%Q line_rows) 5 = [6;7;4]
  /\ core (jc_table (fun _ => true) (7 # 2)%Q line_rows) (jc_min_points (Some 3)) 5
  /\ length [5;6;7] <= jc_min_points (Some 3)
  /\ Qred (jc_epsilon (fun _ => true) [line_rows] (seq 0 9) (Some 3) None) = (5 # 2)%Q
  /\ create_job_clusters (fun _ => true) [line_rows] (seq 0 9) (Some 3) None = JOk [[1;0;2;3]].
Proof. vm_compute. repeat split; reflexivity. Qed.

(* create_multi_tier_clusters (construction/clustering/kmedoids/multi_tier_clusters.rs): all matrix locations 0..size, the
   directed distance `distance_approx(profile, from, to)`, one k-medoids run per k <= size/3 of the fixed list.  Every tier
   is a partition of the locations in which no location is closer (location -> medoid) to another tier medoid than to its
   own; and no tier is lost by the `!is_empty` filter. *)
Theorem C17_multi_tier_contract : forall d chunks ord size,
  (forall l, Permutation (ord l) l) ->
  forall m, In m (create_multi_tier_clusters d chunks ord size) ->
    Permutation (flat_map snd m) (seq 0 size)
    /\ (forall med c p med' c', In (med, c) m -> In p c -> In (med', c') m -> (d p med <= d p med')%Z).
Proof. exact multi_tier_contract. Qed.

Theorem C17_multi_tier_tiers : forall d chunks ord size,
  (forall l, Permutation (ord l) l) ->
  create_multi_tier_clusters d chunks ord size
  = map (fun k => create_kmedoids d chunks ord (seq 0 size) k) (filter (fun k => k <=? size / 3) multi_tier_ks).
Proof. exact multi_tier_tiers. Qed.

Theorem C17_multi_tier_nonvacuous :
  create_multi_tier_clusters (dmat oneway6) halves sort_nat 6 = [[(2, [0;1;2]); (5, [3;4;5])]].
Proof. vm_compute. reflexivity. Qed.
