(* C04 — Every search step maps a consistent solution to a consistent one. *)
From VRP Require Import Base.Tac Model.Core Spec.Feasible Model.Eval Spec.Inv Model.Context Proofs.ContextP.

(* ---- the checker that is run on every dumped state of the real operators decides the invariant ---- *)
Theorem C04_checker_sound_complete : forall P d, inv_b P d = [] <-> Inv P d.
Proof. exact inv_b_nil. Qed.

Theorem C04_weak_checker_sound_complete : forall P d, inv0_b P d = true <-> Inv0 P d.
Proof. exact inv0_b_spec. Qed.

(* ---- every primitive keeps the invariant under its guard (the guard is what makes `step` return Some) ----
   Inv0 = every problem job has exactly one home (one tour | unassigned | required | ignored), all mentioned ids are problem jobs,
   the pending lists have no duplicates, each vehicle drives at most one tour and the registry's available set is the complement
   of the used actors, every tour has start/end in place and is feasible by the step-by-step simulation (time windows, shift
   end, capacity), multi jobs are whole and in the permitted order, demands are well-formed, compatibility and group rules
   hold, pinned jobs are flagged, on their vehicle and in their order.  Hypotheses: `metric P` = the triangle inequality of
   the duration matrix over the problem's locations 0..n-1 (needed by removals only), and locks with at least one job. *)
Theorem C04_inv_primitive : forall P p d d',
  metric P -> locks_nonempty P -> Inv0 P d -> step P p d = Some d' -> Inv0 P d'.
Proof. exact inv0_step. Qed.

(* hence every finite word of primitives *)
Theorem C04_inv_word : forall P w d d',
  metric P -> locks_nonempty P -> Inv0 P d -> run P w d = Some d' -> Inv0 P d'.
Proof. exact inv0_history. Qed.

(* an operator = any primitives, then restore (remove_empty_routes), then primitives that remove no job (insertions, failures,
   finalize, departure shifts): it maps the weak invariant to the FULL invariant (no tour without jobs) *)
Theorem C04_inv_operator : forall P o d d',
  metric P -> locks_nonempty P -> Inv0 P d -> op_ok o = true ->
  run P (word_of o) d = Some d' -> Inv P d'.
Proof. exact inv_operator. Qed.

(* and every finite history of such operators keeps the full invariant *)
Theorem C04_inv_history : forall P os d d',
  metric P -> locks_nonempty P -> Inv P d -> forallb op_ok os = true ->
  run_ops P os d = Some d' -> Inv P d'.
Proof. exact inv_history. Qed.

(* merge of decomposed parts (DecomposeSearch::merge_best): parts that partition the homes of the problem jobs and use
   disjoint actors merge into a consistent solution; the registry is recomputed from the used actors *)
Theorem C04_inv_merge : forall P a b,
  (forall s, In s (pw_jobs P) -> (homes a (j_id s) + homes b (j_id s) = 1)%nat) ->
  (forall j, In j (mentioned a) \/ In j (mentioned b) -> known P j = true) ->
  NoDup (d_required a ++ d_required b) -> NoDup (d_ignored a ++ d_ignored b) -> NoDup (d_unassigned a ++ d_unassigned b) ->
  NoDup (used a ++ used b) -> (forall x, In x (used a ++ used b) -> actor_known P x = true) ->
  (forall r, In r (d_routes a ++ d_routes b) -> RouteOK0 P r) ->
  (forall g, In g (groups_of P) ->
     (length (filter (has_group P g) (d_routes a)) + length (filter (has_group P g) (d_routes b)) <= 1)%nat) ->
  (forall l, In l (pw_locks P) -> lock_ok a l = true \/ lock_ok b l = true) ->
  Inv0 P (merge P a b).
Proof. exact inv0_merge. Qed.

(* ---- the tour-level core of the removal case ----
   removing a whole job from a feasible tour (JobRemovalTracker::try_remove_job: nothing re-checks the tour) keeps it
   feasible when durations satisfy the triangle inequality, service times of the removed activities are non-negative and
   the job's own load balance never goes negative (static amounts >= 0, pickup before its delivery) *)
Theorem C04_removal_feasible_metric : forall dur v j s r,
  triangle dur ->
  a_job s <> j ->
  Forall (fun a => a_job a = j -> 0 <= a_svc a) r ->
  balanced j 0 (s :: r) ->
  feasible dur v (s :: r) = true ->
  feasible dur v (drop_job j (s :: r)) = true.
Proof. exact removal_feasible_metric. Qed.

(* without the triangle inequality the statement is false (probe observation 5): cheap chain 0->1->2->3->0, 1000 elsewhere *)
Definition nm_dur (a b : Z) : Z :=
  if a =? b then 0 else if (b =? (a + 1) mod 4) then 10 else 1000.
Definition nm_tour : list act :=
  [ mkAct (-1) 0 0 0 0 dzero 0 0
  ; mkAct 1 1 0 0 60 (mkDemand 0 0 1 0) 0 0
  ; mkAct 2 2 0 0 60 (mkDemand 0 0 1 0) 0 0
  ; mkAct 3 3 0 0 60 (mkDemand 0 0 1 0) 0 0
  ; mkAct (-1) 0 0 0 INF dzero 0 0 ].
Theorem C04_removal_breaks_feasible_nonmetric_refuted :
  exists dur v j t,
    feasible dur v t = true /\ balanced j 0 t /\ feasible dur v (drop_job j t) = false.
Proof.
  exists nm_dur, (mkVeh INF 10 0 1 1 0 0), 2, nm_tour. split; [vm_compute; reflexivity|]. split; [|vm_compute; reflexivity].
  cbn. repeat split; lia.
Qed.

(* the same at the level of the whole invariant: a consistent solution, a guarded PRemove, an inconsistent result *)
Definition nm_world : pworld :=
  mkPW 4 [0;10;1000;1000; 1000;0;10;1000; 1000;1000;0;10; 10;1000;1000;0] [0;10;1000;1000; 1000;0;10;1000; 1000;1000;0;10; 10;1000;1000;0]
       [mkVs 0 (mkVeh INF 10 0 1 1 0 0) 0 (Some 0) 0 0]
       [mkJob 1 1 0 0; mkJob 2 1 0 0; mkJob 3 1 0 0] [].
Definition nm_state : dump :=
  mkDump [mkRoute 0 (map (fun a => (a, 0)) nm_tour)] [] [] [] [] [].
Theorem C04_inv_primitive_without_triangle_refuted :
  exists P d d', locks_nonempty P /\ Inv P d /\ step P (PRemove 0 2 false) d = Some d' /\ ~ Inv0 P d'.
Proof.
  exists nm_world, nm_state. eexists. split; [intros l []|]. split; [apply inv_b_nil; vm_compute; reflexivity|].
  split; [vm_compute; reflexivity|]. intros H. apply inv0_b_spec in H. vm_compute in H. discriminate.
Qed.

(* non-vacuity of the hypotheses: a metric, a consistent solution, an operator word that changes it, a consistent result *)
Definition m_world : pworld :=
  mkPW 4 [0;10;20;30; 10;0;10;20; 20;10;0;10; 30;20;10;0] [0;10;20;30; 10;0;10;20; 20;10;0;10; 30;20;10;0]
       [mkVs 0 (mkVeh INF 10 0 1 1 0 0) 0 (Some 0) 0 0; mkVs 1 (mkVeh INF 10 0 1 1 0 0) 0 None 0 0]
       [mkJob 1 1 0 0; mkJob 2 1 0 0; mkJob 3 1 0 0] [].
Definition m_state : dump :=
  mkDump [mkRoute 0 (map (fun a => (a, 0)) nm_tour)] [] [] [] [] [1].
Definition m_word : op_word :=
  ([PRemove 0 2 false], [PInsert 1 2 [(0%nat, (mkAct 2 2 0 0 60 (mkDemand 0 0 1 0) 0 0, 0))]; PFinalize]).
Theorem C04_nonvacuous :
  metric m_world /\ locks_nonempty m_world /\ Inv m_world m_state /\ op_ok m_word = true /\
  exists d', run m_world (word_of m_word) m_state = Some d' /\ Inv m_world d' /\ length (d_routes d') = 2%nat.
Proof.
  split.
  { intros a b c Ha Hb Hc. unfold loc_of in *. cbn [pw_n m_world] in *.
    assert (Ea : a = 0 \/ a = 1 \/ a = 2 \/ a = 3) by lia.
    assert (Eb : b = 0 \/ b = 1 \/ b = 2 \/ b = 3) by lia.
    assert (Ec : c = 0 \/ c = 1 \/ c = 2 \/ c = 3) by lia.
    destruct Ea as [->|[->|[->| ->]]], Eb as [->|[->|[->| ->]]], Ec as [->|[->|[->| ->]]]; vm_compute; congruence. }
  split; [intros l []|]. split; [apply inv_b_nil; vm_compute; reflexivity|]. split; [reflexivity|].
  eexists. split; [vm_compute; reflexivity|]. split; [apply inv_b_nil; vm_compute; reflexivity|reflexivity].
Qed.
