(* C04 — Every search step maps a consistent solution to a consistent one. *)
From VRP Require Import Base.Tac Model.Core Spec.Feasible Model.Eval Spec.Inv Model.Context Proofs.ContextP.

(* removing a whole job from a feasible tour (JobRemovalTracker::try_remove_job: nothing re-checks the tour) keeps it
   feasible when durations satisfy the triangle inequality, service times of the removed activities are non-negative and
   the job's own load balance never goes negative (static amounts >= 0, pickup before its delivery) *)
Theorem C04_removal_feasible_metric : forall dur v j s r,
  triangle dur ->
  a_job s <> j ->
  Forall (fun a => a_job a = j -> 0 <= a_svc a) r ->
  balanced j 0 (s :: r) ->
  feasible dur v (s :: r) = true ->
  feasible dur v (drop_job j (s :: r)) = true.
Proof. exact removal_feasible_metric. Qed.

(* without the triangle inequality the statement is false (probe observation 5): cheap chain 0->1->2->3->0, 1000 elsewhere *)
Definition nm_dur (a b : Z) : Z :=
  if a =? b then 0 else if (b =? (a + 1) mod 4) then 10 else 1000.
Definition nm_tour : list act :=
  [ mkAct (-1) 0 0 0 0 dzero 0 0
  ; mkAct 1 1 0 0 60 (mkDemand 0 0 1 0) 0 0
  ; mkAct 2 2 0 0 60 (mkDemand 0 0 1 0) 0 0
  ; mkAct 3 3 0 0 60 (mkDemand 0 0 1 0) 0 0
  ; mkAct (-1) 0 0 0 INF dzero 0 0 ].
Theorem C04_removal_breaks_feasible_nonmetric_refuted :
  exists dur v j t,
    feasible dur v t = true /\ balanced j 0 t /\ feasible dur v (drop_job j t) = false.
Proof.
  exists nm_dur, (mkVeh INF 10 0 1 1 0 0), 2, nm_tour. split; [vm_compute; reflexivity|]. split; [|vm_compute; reflexivity].
  cbn. repeat split; lia.
Qed.

(* non-vacuity of the hypotheses: a metric, a feasible tour, a removable job *)
Definition m_dur (a b : Z) : Z := Z.abs (a - b) * 10.
Theorem C04_nonvacuous :
  triangle m_dur /\ feasible m_dur (mkVeh INF 10 0 1 1 0 0) nm_tour = true /\ balanced 2 0 nm_tour /\
  feasible m_dur (mkVeh INF 10 0 1 1 0 0) (drop_job 2 nm_tour) = true.
Proof.
  split; [unfold triangle, m_dur; intros; lia|]. split; [vm_compute; reflexivity|]. split; [cbn; repeat split; lia|].
  vm_compute; reflexivity.
Qed.
