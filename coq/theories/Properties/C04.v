(* C04 — Every search step maps a consistent solution to a consistent one. *)
From VRP Require Import Base.Tac Model.Core Spec.Feasible Model.Eval Spec.Inv Model.Context Proofs.ContextP.
From VRP Require Import Model.Operators Proofs.OperatorsP Proofs.OperatorsDP.
From Coq Require Import Permutation.

(* ---- the checker that is run on every dumped state of the real operators decides the invariant ---- *)
Theorem C04_checker_sound_complete : forall P d, inv_b P d = [] <-> Inv P d.
Proof. exact inv_b_nil. Qed.

Theorem C04_weak_checker_sound_complete : forall P d, inv0_b P d = true <-> Inv0 P d.
Proof. exact inv0_b_spec. Qed.

(* ---- every primitive keeps the invariant under its guard (the guard is what makes `step` return Some) ----
   Inv0 = every problem job has exactly one home (one tour | unassigned | required | ignored), all mentioned ids are problem jobs,
   the pending lists have no duplicates, each vehicle drives at most one tour and the registry's available set is the complement
   of the used actors, every tour has start/end in place and is feasible by the step-by-step simulation (time windows, shift
   end, capacity), multi jobs are whole and in the permitted order, demands are well-formed, compatibility and group rules
   hold, pinned jobs are flagged, on their vehicle and in their order.  Hypotheses: `metric P` = the triangle inequality of
   the duration matrix over the problem's locations 0..n-1 (needed by removals only), and locks with at least one job. *)
Theorem C04_inv_primitive : forall P p d d',
  metric P -> locks_nonempty P -> Inv0 P d -> step P p d = Some d' -> Inv0 P d'.
Proof. exact inv0_step. Qed.

(* hence every finite word of primitives *)
Theorem C04_inv_word : forall P w d d',
  metric P -> locks_nonempty P -> Inv0 P d -> run P w d = Some d' -> Inv0 P d'.
Proof. exact inv0_history. Qed.

(* an operator = any primitives, then restore (remove_empty_routes), then primitives that remove no job (insertions, failures,
   finalize, departure shifts): it maps the weak invariant to the FULL invariant (no tour without jobs) *)
Theorem C04_inv_operator : forall P o d d',
  metric P -> locks_nonempty P -> Inv0 P d -> op_ok o = true ->
  run P (word_of o) d = Some d' -> Inv P d'.
Proof. exact inv_operator. Qed.

(* and every finite history of such operators keeps the full invariant *)
Theorem C04_inv_history : forall P os d d',
  metric P -> locks_nonempty P -> Inv P d -> forallb op_ok os = true ->
  run_ops P os d = Some d' -> Inv P d'.
Proof. exact inv_history. Qed.

(* merge of decomposed parts (DecomposeSearch::merge_best): parts that partition the homes of the problem jobs and use
   disjoint actors merge into a consistent solution; the registry is recomputed from the used actors *)
Theorem C04_inv_merge : forall P a b,
  (forall s, In s (pw_jobs P) -> (homes a (j_id s) + homes b (j_id s) = 1)%nat) ->
  (forall j, In j (mentioned a) \/ In j (mentioned b) -> known P j = true) ->
  NoDup (d_required a ++ d_required b) -> NoDup (d_ignored a ++ d_ignored b) -> NoDup (d_unassigned a ++ d_unassigned b) ->
  NoDup (used a ++ used b) -> (forall x, In x (used a ++ used b) -> actor_known P x = true) ->
  (forall r, In r (d_routes a ++ d_routes b) -> RouteOK0 P r) ->
  (forall g, In g (groups_of P) ->
     (length (filter (has_group P g) (d_routes a)) + length (filter (has_group P g) (d_routes b)) <= 1)%nat) ->
  (forall l, In l (pw_locks P) -> lock_ok a l = true \/ lock_ok b l = true) ->
  Inv0 P (merge P a b).
Proof. exact inv0_merge. Qed.

(* ---- the tour-level core of the removal case ----
   removing a whole job from a feasible tour (JobRemovalTracker::try_remove_job: nothing re-checks the tour) keeps it
   feasible when durations satisfy the triangle inequality, service times of the removed activities are non-negative and
   the job's own load balance never goes negative (static amounts >= 0, pickup before its delivery) *)
Theorem C04_removal_feasible_metric : forall dur v j s r,
  triangle dur ->
  a_job s <> j ->
  Forall (fun a => a_job a = j -> 0 <= a_svc a) r ->
  balanced j 0 (s :: r) ->
  feasible dur v (s :: r) = true ->
  feasible dur v (drop_job j (s :: r)) = true.
Proof. exact removal_feasible_metric. Qed.

(* without the triangle inequality the statement is false (probe observation 5): cheap chain 0->1->2->3->0, 1000 elsewhere *)
Definition nm_dur (a b : Z) : Z :=
  if a =? b then 0 else if (b =? (a + 1) mod 4) then 10 else 1000.
Definition nm_tour : list act :=
  [ mkAct (-1) 0 0 0 0 dzero 0 0
  ; mkAct 1 1 0 0 60 (mkDemand 0 0 1 0) 0 0
  ; mkAct 2 2 0 0 60 (mkDemand 0 0 1 0) 0 0
  ; mkAct 3 3 0 0 60 (mkDemand 0 0 1 0) 0 0
  ; mkAct (-1) 0 0 0 INF dzero 0 0 ].
Theorem C04_removal_breaks_feasible_nonmetric_refuted :
  exists dur v j t,
    feasible dur v t = true /\ balanced j 0 t /\ feasible dur v (drop_job j t) = false.
Proof.
  exists nm_dur, (mkVeh INF 10 0 1 1 0 0), 2, nm_tour. split; [vm_compute; reflexivity|]. split; [|vm_compute; reflexivity].
  cbn. repeat split; lia.
Qed.

(* the same at the level of the whole invariant: a consistent solution, a guarded PRemove, an inconsistent result *)
Definition nm_world : pworld :=
  mkPW 4 [0;10;1000;1000; 1000;0;10;1000; 1000;1000;0;10; 10;1000;1000;0] [0;10;1000;1000; 1000;0;10;1000; 1000;1000;0;10; 10;1000;1000;0]
       [mkVs 0 (mkVeh INF 10 0 1 1 0 0) 0 (Some 0) 0 0]
       [mkJob 1 1 0 0; mkJob 2 1 0 0; mkJob 3 1 0 0] [].
Definition nm_state : dump :=
  mkDump [mkRoute 0 (map (fun a => (a, 0)) nm_tour)] [] [] [] [] [].
Theorem C04_inv_primitive_without_triangle_refuted :
  exists P d d', locks_nonempty P /\ Inv P d /\ step P (PRemove 0 2 false) d = Some d' /\ ~ Inv0 P d'.
Proof.
  exists nm_world, nm_state. eexists. split; [intros l []|]. split; [apply inv_b_nil; vm_compute; reflexivity|].
  split; [vm_compute; reflexivity|]. intros H. apply inv0_b_spec in H. vm_compute in H. discriminate.
Qed.

(* non-vacuity of the hypotheses: a metric, a consistent solution, an operator word that changes it, a consistent result *)
Definition m_world : pworld :=
  mkPW 4 [0;10;20;30; 10;0;10;20; 20;10;0;10; 30;20;10;0] [0;10;20;30; 10;0;10;20; 20;10;0;10; 30;20;10;0]
       [mkVs 0 (mkVeh INF 10 0 1 1 0 0) 0 (Some 0) 0 0; mkVs 1 (mkVeh INF 10 0 1 1 0 0) 0 None 0 0]
       [mkJob 1 1 0 0; mkJob 2 1 0 0; mkJob 3 1 0 0] [].
Definition m_state : dump :=
  mkDump [mkRoute 0 (map (fun a => (a, 0)) nm_tour)] [] [] [] [] [1].
Definition m_word : op_word :=
  ([PRemove 0 2 false], [PInsert 1 2 [(0%nat, (mkAct 2 2 0 0 60 (mkDemand 0 0 1 0) 0 0, 0))]; PFinalize]).
Theorem C04_nonvacuous :
  metric m_world /\ locks_nonempty m_world /\ Inv m_world m_state /\ op_ok m_word = true /\
  exists d', run m_world (word_of m_word) m_state = Some d' /\ Inv m_world d' /\ length (d_routes d') = 2%nat.
Proof.
  split.
  { intros a b c Ha Hb Hc. unfold loc_of in *. cbn [pw_n m_world] in *.
    assert (Ea : a = 0 \/ a = 1 \/ a = 2 \/ a = 3) by lia.
    assert (Eb : b = 0 \/ b = 1 \/ b = 2 \/ b = 3) by lia.
    assert (Ec : c = 0 \/ c = 1 \/ c = 2 \/ c = 3) by lia.
    destruct Ea as [->|[->|[->| ->]]], Eb as [->|[->|[->| ->]]], Ec as [->|[->|[->| ->]]]; vm_compute; congruence. }
  split; [intros l []|]. split; [apply inv_b_nil; vm_compute; reflexivity|]. split; [reflexivity|].
  eexists. split; [vm_compute; reflexivity|]. split; [apply inv_b_nil; vm_compute; reflexivity|reflexivity].
Qed.

(* ======================================================================================================================
   The shipped operators as PROGRAMS (Model/Operators.v): every random draw / selection / evaluator answer is an oracle
   argument and every theorem below quantifies over ALL of them.
   ====================================================================================================================== *)

(* ---- JobRemovalTracker ---- *)
(* a successful try_remove_job IS the primitive PRemove on the tour's actor (so everything proved about `step` applies) *)
Theorem C04_try_remove_job_is_primitive : forall P tr d idx j tr' d',
  NoDup (used d) -> try_remove_job P (tr, d) idx j = ((tr', d'), true) ->
  exists r, nth_error (d_routes d) idx = Some r /\ step P (PRemove (r_actor r) j false) d = Some d'.
Proof. exact trj_is_step. Qed.

(* the guard: a pinned job is refused, whatever the limits *)
Theorem C04_try_remove_job_refuses_locked : forall P tr d idx j,
  memz j (d_locked d) = true -> try_remove_job P (tr, d) idx j = ((tr, d), false).
Proof. exact try_remove_job_locked. Qed.

(* the limits: nothing is removed once the activity limit is used up; no tour is touched once either limit is used up *)
Theorem C04_try_remove_job_at_limit : forall P tr d idx j,
  t_acts tr = 0 -> try_remove_job P (tr, d) idx j = ((tr, d), false).
Proof. exact try_remove_job_at_limit. Qed.
Theorem C04_try_remove_route_at_limit : forall P tr d idx hit sel,
  t_acts tr = 0 \/ t_routes tr = 0 -> try_remove_route P (tr, d) idx hit sel = ((tr, d), false).
Proof. exact try_remove_route_at_limit. Qed.

(* ---- every ruin (RandomJobRemoval, NeighbourRemoval, ClusterRemoval, WorstJobRemoval, AdjustedStringRemoval,
        RandomRouteRemoval, CloseRouteRemoval / WorstRouteRemoval), for every oracle ---- *)
Theorem C04_ruin_inv : forall P c d, metric P -> locks_nonempty P -> Inv0 P d -> Inv0 P (run_ruin P c d).
Proof. exact ruin_inv0. Qed.

(* the five job ruins ARE words of the primitive PRemove (for the real operators this is what the replay of dumped
   transitions validates; for the programs it is a theorem) *)
Theorem C04_job_ruin_is_primitive_word : forall P c d, is_job_ruin c = true -> NoDup (used d) ->
  exists w, forallb is_removal w = true /\ run P w d = Some (run_ruin P c d).
Proof. exact job_ruin_is_word. Qed.

(* CompositeRuin = the ruins that were hit, then InsertionContext::restore: the FULL invariant *)
Theorem C04_composite_ruin_inv : forall P cs d, metric P -> locks_nonempty P -> Inv P d -> Inv P (composite_ruin P cs d).
Proof. exact composite_ruin_inv. Qed.

(* pinned jobs are never removed, never leave their vehicle and keep their order: the locked part of every tour
   (vehicle, locked jobs in tour order) is literally the same before and after - from the tracker's guard, no invariant needed *)
Theorem C04_ruin_keeps_pinned_jobs : forall P c d, NoDup (used d) -> locked_view (run_ruin P c d) = locked_view d.
Proof. exact ruin_locked_view. Qed.
Theorem C04_composite_ruin_keeps_pinned_jobs : forall P cs d,
  NoDup (used d) -> locked_view (composite_ruin P cs d) = locked_view d.
Proof. exact composite_ruin_locked_view. Qed.

(* jobs are removed WHOLE: every tour after a ruin is a tour from before with all activities of some jobs taken out;
   hence for every job either all its activities are still there in their order, or none *)
Theorem C04_ruin_removes_jobs_whole : forall P cs d r',
  In r' (d_routes (composite_ruin P cs d)) ->
  exists r, In r (d_routes d) /\ r_actor r' = r_actor r /\ (forall j, subs_of r' j = subs_of r j \/ subs_of r' j = []).
Proof. intros P cs d. exact (jobwise_whole d _ (composite_ruin_jobwise P cs d)). Qed.

(* what a ruin does to the pending lists: `required` grows at its end, ignored / unassigned / locked do not change *)
Theorem C04_ruin_pending_lists : forall P cs d,
  (exists gone, d_required (composite_ruin P cs d) = d_required d ++ gone) /\
  d_ignored (composite_ruin P cs d) = d_ignored d /\ d_unassigned (composite_ruin P cs d) = d_unassigned d /\
  d_locked (composite_ruin P cs d) = d_locked d.
Proof. exact composite_ruin_pending. Qed.

(* the removal limits are respected.  Job ruins: with `a` = the drawn activity limit and every job having 1..m activities,
   at most `a` jobs and at most a + m - 1 activities are removed (the last job removed may overshoot: the tracker only
   asks activities_left > 0), none of them pinned, and nothing when a = 0 *)
Theorem C04_job_ruin_limits : forall P m c d,
  1 <= m -> parts_bound P m -> is_job_ruin c = true -> 0 <= ruin_acts c ->
  exists gone, d_required (run_ruin P c d) = d_required d ++ gone /\
    Z.of_nat (length gone) <= ruin_acts c /\ sum_parts P gone <= ruin_acts c + m - 1 /\
    (forall j, In j gone -> ~ In j (d_locked d)) /\ (ruin_acts c = 0 -> gone = []).
Proof. exact job_ruin_limits. Qed.
(* every ruin: the number of tours given back to the registry is at most the drawn route limit *)
Theorem C04_ruin_routes_limit : forall P c d, NoDup (used d) -> 0 <= ruin_routes c ->
  Z.of_nat (length (d_routes d)) - Z.of_nat (length (d_routes (run_ruin P c d))) <= ruin_routes c /\
  (length (d_routes (run_ruin P c d)) <= length (d_routes d))%nat.
Proof. exact ruin_routes_limit. Qed.

(* the lock clause of the invariant, spelled out (it holds after every operator below because Inv does) *)
Theorem C04_inv_pins : forall P d l, Inv0 P d -> In l (pw_locks P) ->
  (forall j, In j (l_jobs l) -> In j (d_locked d)) /\
  exists r, In r (d_routes d) /\ r_actor r = l_actor l /\ filter (fun j => memz j (l_jobs l)) (job_ids r) = l_jobs l.
Proof. exact inv_locks_explicit. Qed.

(* ---- operators that insert: None = the oracle broke the evaluator's contract (guard of PInsert) ---- *)
(* every Recreate::run = InsertionHeuristic::process with its selectors *)
Theorem C04_recreate_inv : forall P, metric P -> locks_nonempty P ->
  forall rounds d d', Inv0 P d -> recreate P rounds d = Some d' -> Inv P d'.
Proof. exact recreate_inv. Qed.
Theorem C04_ruin_recreate_inv : forall P, metric P -> locks_nonempty P ->
  forall cs rounds d d', Inv0 P d -> ruin_recreate P cs rounds d = Some d' -> Inv P d'.
Proof. exact ruin_recreate_inv. Qed.
Theorem C04_exchange_sequence_inv : forall P, metric P -> locks_nonempty P ->
  forall o d d', Inv P d -> exchange_sequence P o d = Some d' -> Inv P d'.
Proof. exact exchange_sequence_inv. Qed.
Theorem C04_exchange_inter_route_inv : forall P, metric P -> locks_nonempty P ->
  forall o d d', Inv P d -> exchange_inter_route P o d = Some d' -> Inv P d'.
Proof. exact exchange_inter_route_inv. Qed.
Theorem C04_exchange_intra_route_inv : forall P, metric P -> locks_nonempty P ->
  forall idx j res d d', Inv P d -> exchange_intra_route P idx j res d = Some d' -> Inv P d'.
Proof. exact exchange_intra_route_inv. Qed.
Theorem C04_exchange_swap_star_inv : forall P, metric P -> locks_nonempty P ->
  forall moves d d', Inv P d -> exchange_swap_star P moves d = Some d' -> Inv P d'.
Proof. exact exchange_swap_star_inv. Qed.
Theorem C04_reschedule_departure_inv : forall P, metric P -> locks_nonempty P ->
  forall deps d d', Inv P d -> reschedule_departure P deps d = Some d' -> Inv P d'.
Proof. exact reschedule_departure_inv. Qed.
Theorem C04_redistribute_inv : forall P, metric P -> locks_nonempty P ->
  forall removals rounds d d', Inv0 P d -> redistribute P removals rounds d = Some d' -> Inv P d'.
Proof. exact redistribute_inv. Qed.

(* ---- DecomposeSearch ---- *)
(* the split: the groups are a partition of the tour indices, none empty *)
Theorem C04_decompose_split_is_partition : forall d orc,
  Permutation (concat (route_groups d orc)) (seq 0 (length (d_routes d))) /\ (forall g, In g (route_groups d orc) -> g <> []).
Proof. exact route_groups_partition. Qed.
(* every job has as many homes in the parts together as in the solution: nothing lost, nothing duplicated by the split *)
Theorem C04_decompose_parts_cover : forall d orc j, sumn (fun p => homes p j) (decompose_parts d orc) = homes d j.
Proof. exact parts_homes. Qed.
(* the executable contract of a refinement decides `Refines` (same jobs each with as many homes as in the part, no unknown
   ids, no duplicates, only the part's actors, acceptable tours, no new group tour, the part's locks kept) *)
Theorem C04_refines_checker : forall P part ref, refines_b P part ref = true <-> Refines P part ref.
Proof. exact refines_b_spec. Qed.
(* merge of ANY refinements that respect the contract of their part (+ restore + finalize): the full invariant *)
Theorem C04_decompose_merge_inv : forall P orc refined better d d',
  locks_nonempty P -> Inv0 P d -> decompose_merge P orc refined better d = Some d' -> Inv P d'.
Proof. exact decompose_merge_inv. Qed.
(* and it is exactly the union of the chosen parts: tours and pending lists side by side, registry = the vehicles no part
   uses (concat_dumps), every job with as many homes as the parts give it together, which is one *)
Theorem C04_decompose_merge_is_union : forall P orc refined better d d',
  Inv0 P d -> decompose_merge P orc refined better d = Some d' ->
  let cs := choose better refined (decompose_fallbacks d orc) in
  d' = finalize_ctx (p_drop_empty (concat_dumps P cs)) /\
  Forall2 (Refines P) (decompose_parts d orc) cs /\
  (forall j, homes (concat_dumps P cs) j = sumn (fun p => homes p j) cs) /\
  (forall s, In s (pw_jobs P) -> sumn (fun p => homes p (j_id s)) cs = 1%nat).
Proof. exact decompose_merge_union. Qed.
(* the contract is satisfiable: the parts themselves are admissible refinements *)
Theorem C04_nonvacuous_decompose_contract : forall P orc d, Inv0 P d ->
  forallb2 (refines_b P) (decompose_parts d orc) (decompose_parts d orc) = true.
Proof. exact decompose_identity_refines. Qed.

(* ---- histories over the sum type of all modelled operator calls (CompositeRuin, Recreate, RuinAndRecreate,
        ExchangeSequence, ExchangeInterRoute, ExchangeIntraRoute, ExchangeSwapStar, RescheduleDeparture, RedistributeSearch,
        DecomposeSearch with its fall-back) ---- *)
Theorem C04_operator_call_inv : forall P c d d', metric P -> locks_nonempty P -> Inv P d -> run_op P c d = Some d' -> Inv P d'.
Proof. exact run_op_inv. Qed.
Theorem C04_operator_history_inv : forall P cs d d',
  metric P -> locks_nonempty P -> Inv P d -> run_calls P cs d = Some d' -> Inv P d'.
Proof. exact run_calls_inv. Qed.
Theorem C04_operator_trace_inv : forall P cs d, metric P -> locks_nonempty P -> Inv P d -> Forall (Inv P) (trace_calls P cs d).
Proof. exact trace_calls_inv. Qed.
(* "the parent is left observably unchanged", in the model: a solution recorded in the trace is not affected by the calls
   that follow it (operators are functions of an immutable parent; the code side is the dump comparison of the harness) *)
Theorem C04_parent_unchanged_model : forall P cs1 cs2 d k, (k <= length cs1)%nat ->
  nth_error (trace_calls P (cs1 ++ cs2) d) k = nth_error (trace_calls P cs1 d) k \/ nth_error (trace_calls P cs1 d) k = None.
Proof. exact trace_calls_prefix. Qed.

(* ---- finding C04-F3 at the level of the ruin programs: without the triangle inequality a ruin breaks the invariant ---- *)
Theorem C04_ruin_without_triangle_refuted :
  exists P c d, locks_nonempty P /\ Inv P d /\ ~ Inv0 P (run_ruin P c d).
Proof.
  exists nm_world, (RNeighbour 1 1 [2]), nm_state. split; [intros l []|]. split; [apply inv_b_nil; vm_compute; reflexivity|].
  intros H. apply inv0_b_spec in H. vm_compute in H. discriminate.
Qed.

(* ---- non-vacuity: a metric world, a consistent solution, a history of modelled calls that changes it (a ruin under its
        limits, a recreate that opens a second tour, an exchange of sequences), a consistent result; every job has one part ---- *)
Definition m_act (j : Z) : ract := (mkAct j j 0 0 60 (mkDemand 0 0 1 0) 0 0, 0).
Definition m_history : list opcall :=
  [ ORuinRecreate [RNeighbour 2 1 [2; 3; 1]] [RSuccess 2 1 [(0%nat, m_act 2)]; RSuccess 3 1 [(1%nat, m_act 3)]]
  ; OExchangeSequence (mkSeq 1 2 0 1 0 0 [(3, Some [(0%nat, m_act 3)]); (2, Some [(1%nat, m_act 2)])] []) ].
Theorem C04_nonvacuous_operators :
  metric m_world /\ locks_nonempty m_world /\ parts_bound m_world 1 /\ Inv m_world m_state /\
  exists d', run_calls m_world m_history m_state = Some d' /\ Inv m_world d' /\ length (d_routes d') = 2%nat /\ d' <> m_state.
Proof.
  destruct C04_nonvacuous as (Hm & Hl & Hi & _). split; [exact Hm|]. split; [exact Hl|].
  split; [intros s [<-|[<-|[<-|[]]]]; cbn; lia|]. split; [exact Hi|].
  eexists. split; [vm_compute; reflexivity|]. split; [apply inv_b_nil; vm_compute; reflexivity|]. split; [reflexivity|discriminate].
Qed.
