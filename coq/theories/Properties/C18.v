(* C18 — Adaptive operator selection and termination math stay numerically sane.
   Only the property theorems, each closed by `exact`.  Clauses of the statement:
   (A) learning state finite and valid for any reward history   -> C18_slot_*            (exact arithmetic, unbounded)
   (B) sampling / arg-max never fail, pick a configured operator -> C18_sampler_*, C18_argmax_*, C18_weighted_*
   (C) rewards finite and within the documented range            -> C18_reward_* (true bound 3(2N+1)); documented [0,6]: _partial + _refuted
   (D) termination estimates within [0,1]                        -> C18_estimate_*
   (E) variation criterion fires iff cv of every objective <= thr -> C18_min_variation_*
   Over f64 (not exact arithmetic) the hull clause of (A) and finiteness in (C) fail: C18_float_*_refuted (witnesses on the
   primitive-float twin).
   (F) at the end of the file: the f64 level of (A)/(B), proved for the primitive-float twin (= what the Rust code computes, bit for
   bit) for every finite prior and reward of magnitude <= 2^480 and at most 2^52 updates -> C18_float_alpha_exact, _beta_valid,
   _beta_monotone, _state_valid, _sampler_arguments_valid, _mean_near_hull; outside those bounds they fail (_refuted witnesses). *)
From Coq Require Import QArith Qabs Qminmax Floats.
From VRP Require Import Base.Tac Base.TotalCmp Model.SlotQ Model.SlotF Model.Reward Model.Termination.
From VRP Require Import Proofs.SlotQP Proofs.SlotFP Proofs.RewardP Proofs.TerminationP.
Open Scope Q_scope.

(* ---------------- (A) slot machine state, for every prior and every reward sequence ---------------- *)
Theorem C18_slot_count : forall prior rs, s_n (slot_run prior rs) = length rs.
Proof. exact count_ok. Qed.
Theorem C18_slot_alpha_closed_form : forall prior rs, s_alpha (slot_run prior rs) == 1 + qn (length rs) / 2.
Proof. exact alpha_closed. Qed.
Theorem C18_slot_alpha_positive : forall prior rs, 0 < s_alpha (slot_run prior rs).
Proof. exact alpha_pos. Qed.
Theorem C18_slot_beta_at_least_10 : forall prior rs, 10 <= s_beta (slot_run prior rs).
Proof. exact beta_ge_10. Qed.
Theorem C18_slot_beta_monotone : forall prior rs r, s_beta (slot_run prior rs) <= s_beta (slot_run prior (rs ++ [r])).
Proof. exact beta_monotone. Qed.
Theorem C18_slot_variance_nonneg : forall prior rs, 0 <= s_v (slot_run prior rs).
Proof. exact variance_nonneg. Qed.
(* the mean is the average of the rewards seen (the prior is forgotten after the first update) ... *)
Theorem C18_slot_mean_is_average : forall prior rs, qn (length rs) * s_mu (slot_run prior rs) == qsuml rs.
Proof. exact mean_is_average. Qed.
(* ... hence inside their hull *)
Theorem C18_slot_mean_in_hull : forall prior rs lo hi,
  rs <> [] -> (forall r, In r rs -> lo <= r <= hi) -> lo <= s_mu (slot_run prior rs) <= hi.
Proof. exact mean_in_hull. Qed.
(* over f64 the hull clause fails by rounding: prior 1.0, single reward 5e-324 -> mean +0.0 < 5e-324 *)
Theorem C18_float_mean_in_hull_refuted :
  let s := fslot_update (fslot_new (f_of_bits 4607182418800017408)) (f_of_bits 1) in
  bits_of_f (f_mu s) = 0%Z /\ PrimFloat.ltb (f_mu s) (f_of_bits 1) = true.
Proof. exact float_mean_leaves_hull. Qed.

(* ---------------- (B) sampling and selection ---------------- *)
(* arguments handed to Gamma::new / Normal::new are valid for every state and every non-negative gamma draw g *)
Theorem C18_sampler_arguments_valid : forall prior rs g, 0 <= g ->
  let q := sample_args (slot_run prior rs) g in
  0 < g_shape q /\ 0 < g_scale q /\ 0 < n_variance q.
Proof. exact sample_args_valid. Qed.
(* random_argmax: for every random stream o, a non-empty list yields an index in range whose value is maximal *)
Theorem C18_argmax_some_in_range_maximal : forall o keys, keys <> [] ->
  exists i, random_argmax o keys = Some i /\ (i < length keys)%nat /\ forall x, In x keys -> (x <= nth i keys 0)%Z.
Proof. exact random_argmax_spec. Qed.
Theorem C18_argmax_none_iff_empty : forall o keys, random_argmax o keys = None <-> keys = [].
Proof. exact random_argmax_none. Qed.
(* weighted: for every draw vector, non-empty weights yield an index in range *)
Theorem C18_weighted_in_range : forall es ws, ws <> [] -> length es = length ws ->
  exists i, weighted es ws = Some i /\ (i < length ws)%nat.
Proof. exact weighted_spec. Qed.

(* ---------------- (C) rewards ---------------- *)
(* for any objective answers o1 o2 and any fitness vectors: 0 <= reward <= 3(2N+1), N = number of objectives *)
Theorem C18_reward_range : forall best o1 o2 fnew finit,
  0 <= distance_reward best o1 o2 fnew finit <= 3 * (2 * qnat (length fnew) + 1).
Proof. exact distance_reward_bounds. Qed.
Theorem C18_reward_range_nonneg_fitness : forall best o1 o2 fnew finit,
  Forall (Qle 0) fnew -> Forall (Qle 0) finit -> (forall fb, best = Some fb -> Forall (Qle 0) fb) ->
  0 <= distance_reward best o1 o2 fnew finit <= 3 * (qnat (length fnew) + 1).
Proof. exact distance_reward_bounds_nonneg. Qed.
(* the documented range [0, 6] holds for a single non-negative objective only (missing for the full clause: N >= 2, negative fitness) *)
Theorem C18_reward_documented_range_partial : forall best o1 o2 a finit,
  0 <= a -> Forall (Qle 0) finit -> (forall fb, best = Some fb -> Forall (Qle 0) fb) ->
  0 <= distance_reward best o1 o2 [a] finit <= 6.
Proof. exact distance_reward_single_objective. Qed.
Theorem C18_reward_documented_range_refuted :
  distance_reward (Some [1; 1; 1]) Lt Lt [0; 1; 1] [1; 1; 1] == 12.
Proof. exact reward_above_6_three_objectives. Qed.
Theorem C18_reward_documented_range_opposite_sign_refuted :
  distance_reward (Some [1]) Lt Lt [-(1)] [1] == 9.
Proof. exact reward_above_6_opposite_sign. Qed.
Theorem C18_reward_multiplier_range : forall ratio median duration imp,
  1 / 2 < perf_multiplier ratio median duration imp <= 3.
Proof. exact perf_multiplier_bounds. Qed.
Theorem C18_reward_total_range : forall best finit fnew ratio median duration,
  0 <= step_reward best finit fnew ratio median duration <= 9 * (2 * qnat (length fnew) + 1).
Proof. exact step_reward_bounds. Qed.
(* over f64 finiteness fails for finite fitness near f64::MAX: |1.7e308 - (-1.7e308)| / 1.7e308 = +inf *)
Theorem C18_float_reward_finite_refuted :
  run_relvalueF 9218378953502702454 18441750990357478262 = 9218868437227405312%Z.
Proof. exact float_rel_value_overflows. Qed.

(* ---------------- (D) termination estimates ---------------- *)
Theorem C18_estimate_max_generation_unit : forall g l, 0 <= est_max_generation g l <= 1.
Proof. exact est_max_generation_unit. Qed.
Theorem C18_estimate_max_time_unit : forall e l, 0 <= e -> 0 <= l -> 0 <= est_max_time e l <= 1.
Proof. exact est_max_time_unit. Qed.
Theorem C18_estimate_composite_unit : forall es, (forall x, In x es -> 0 <= x <= 1) -> 0 <= est_composite es <= 1.
Proof. exact est_composite_unit. Qed.

(* ---------------- (E) min-variation criterion (sample interval) ---------------- *)
(* update_and_check fires iff the window is full (generation >= sample - 1) and no objective column of the updated window has cv > thr *)
Theorem C18_min_variation_fires_iff : forall sample thr st g f,
  snd (mv_update_and_check sample thr st g f) = true <->
  (sample - 1 <= g)%nat /\
  forall k, (k < width (mv_window sample st g f))%nat -> col_cv_gt (column k (mv_window sample st g f)) thr = false.
Proof. exact mv_fires_iff. Qed.
(* is_termination adds: a best solution exists, and the criterion is global or the phase is exploitation *)
Theorem C18_min_variation_is_termination_iff : forall sample thr glob st g ph best,
  snd (mv_is_termination sample thr glob st g ph best) = true <->
  exists f, best = Some f /\ (glob = true \/ ph = 2%nat) /\ snd (mv_update_and_check sample thr st g f) = true.
Proof. exact mv_is_termination_iff. Qed.
(* `not (cv > thr)` is `cv <= thr`: for a positive mean and thr >= 0, variance <= (thr * mean)^2, i.e. cv^2 <= thr^2 *)
Theorem C18_min_variation_cv_test_positive_mean : forall var mean thr, 0 < mean -> 0 <= thr ->
  (cv_gt var mean thr = false <-> var <= (thr * mean) * (thr * mean)).
Proof. exact cv_gt_false_pos. Qed.
Theorem C18_min_variation_cv_test_zero_mean : forall var mean thr, mean == 0 -> (cv_gt var mean thr = false <-> 0 <= thr).
Proof. exact cv_gt_zero_mean. Qed.
Theorem C18_min_variation_cv_test_negative_mean : forall var mean thr, mean < 0 -> 0 <= thr -> cv_gt var mean thr = false.
Proof. exact cv_gt_neg_mean. Qed.
Theorem C18_min_variation_variance_nonneg : forall l, 0 <= variance_q l.
Proof. exact variance_q_nonneg. Qed.

(* ---------------- non-vacuity ---------------- *)
Theorem C18_nonvacuous_slot : s_mu (slot_run 1 [1 # 2; 3 # 4]) == 5 # 8 /\ 10 < s_beta (slot_run 1 [1 # 2; 3 # 4]).
Proof. split; reflexivity. Qed.
Theorem C18_nonvacuous_min_variation :
  snd (mv_update_and_check 2 (1 # 8) (Some [[9]; [0]]) 1 [7]) = true /\
  snd (mv_update_and_check 2 (1 # 9) (Some [[9]; [0]]) 1 [7]) = false.
Proof. split; reflexivity. Qed.
Theorem C18_nonvacuous_float_twin :
  bits_of_f (f_mu (fslot_run (f_of_bits 4607182418800017408) [f_of_bits 4602678819172646912; f_of_bits 4604930618986332160]))
  = 4603804719079489536%Z.
Proof. exact float_twin_example. Qed.

(* ---------------- (F) the same invariants over IEEE-754 binary64: theorems about the primitive-float twin ----------------
   `B2R (Prim2B x)` is the real number denoted by the finite float x (Flocq); `PrimFloat.is_finite x = true` excludes NaN and
   infinities.  Hypotheses are executable float comparisons: `(abs r <=? 0x1p480) = true` says r is finite (not NaN, not inf)
   with |r| <= 2^480.  These theorems depend on the standard library's classical axioms of the reals and on the primitive
   float / 63-bit integer specification (Coq.Floats.FloatAxioms, Uint63), listed by Print Assumptions; nothing else. *)
From Coq Require Import Reals.
From Flocq Require Import Core.Core IEEE754.BinarySingleNaN IEEE754.PrimFloat.
From VRP Require Import Proofs.SlotFloatP.

(* alpha is computed without any rounding: its value is exactly 1 + n/2; finite and positive (any prior, any rewards - even NaN) *)
Theorem C18_float_alpha_exact : forall (prior : PrimFloat.float) (rs : list PrimFloat.float),
  (Z.of_nat (length rs) <= 2 ^ 52)%Z ->
  let a := f_alpha (fslot_run prior rs) in
  PrimFloat.is_finite a = true /\ B2R (Prim2B a) = (1 + INR (length rs) / 2)%R /\ (0 <? a)%float = true.
Proof. exact float_alpha_exact. Qed.
(* beta: finite, >= 10, at most (n+1) * 2^963; scale = 1/beta handed to Gamma::new is finite and > 0 *)
Theorem C18_float_beta_valid : forall (prior : PrimFloat.float) (rs : list PrimFloat.float),
  (Z.of_nat (length rs) <= 2 ^ 52)%Z ->
  (abs prior <=? 0x1p480)%float = true -> Forall (fun r => (abs r <=? 0x1p480)%float = true) rs ->
  let b := f_beta (fslot_run prior rs) in
  PrimFloat.is_finite b = true /\ (10 <=? b)%float = true /\
  (B2R (Prim2B b) <= (INR (length rs) + 1) * bpow radix2 963)%R /\
  PrimFloat.is_finite (1 / b)%float = true /\ (0 <? 1 / b)%float = true.
Proof. exact float_beta_valid. Qed.
(* beta never decreases along a run (every prefix of a bounded history is a bounded history) *)
Theorem C18_float_beta_monotone : forall (prior : PrimFloat.float) (rs : list PrimFloat.float) (r : PrimFloat.float),
  (Z.of_nat (length (rs ++ [r])) <= 2 ^ 52)%Z ->
  (abs prior <=? 0x1p480)%float = true -> Forall (fun x => (abs x <=? 0x1p480)%float = true) (rs ++ [r]) ->
  (f_beta (fslot_run prior rs) <=? f_beta (fslot_run prior (rs ++ [r])))%float = true.
Proof. exact float_beta_monotone. Qed.
(* the whole state: counter exact, no NaN / infinity anywhere, 0 < v <= beta, |mu| <= 2^480 (1 + 2^-52) *)
Theorem C18_float_state_valid : forall (prior : PrimFloat.float) (rs : list PrimFloat.float),
  (Z.of_nat (length rs) <= 2 ^ 52)%Z ->
  (abs prior <=? 0x1p480)%float = true -> Forall (fun r => (abs r <=? 0x1p480)%float = true) rs ->
  let s := fslot_run prior rs in
  f_n s = length rs /\
  PrimFloat.is_finite (f_alpha s) = true /\ PrimFloat.is_finite (f_beta s) = true /\
  PrimFloat.is_finite (f_mu s) = true /\ PrimFloat.is_finite (f_v s) = true /\
  (0 <? f_v s)%float = true /\ (f_v s <=? f_beta s)%float = true /\
  (abs (f_mu s) <=? 0x1.0000000000001p480)%float = true.
Proof. exact float_state_valid. Qed.
(* sample(): Gamma::new(shape, scale) needs shape > 0, scale > 0; Normal::new(mean, sd) needs sd finite (rand_distr 0.4.3).
   Valid before the first update for ANY value g of the gamma draw, and later for g = +-0 (guard) or finite g >= 2^-1022
   (hypothesis on rand_distr's Gamma: it returns a finite non-negative number); the division 1/precision is never by zero *)
Theorem C18_float_sampler_arguments_valid : forall (prior : PrimFloat.float) (rs : list PrimFloat.float) (g : PrimFloat.float),
  (Z.of_nat (length rs) <= 2 ^ 52)%Z ->
  (abs prior <=? 0x1p480)%float = true -> Forall (fun r => (abs r <=? 0x1p480)%float = true) rs ->
  rs = [] \/ ((g =? 0) || (PrimFloat.is_finite g && (0x1p-1022 <=? g)))%float = true ->
  exists shape scale mean sd, fsample_args (fslot_run prior rs) g = [shape; scale; mean; sd] /\
    PrimFloat.is_finite shape = true /\ (0 <? shape)%float = true /\
    PrimFloat.is_finite scale = true /\ (0 <? scale)%float = true /\
    PrimFloat.is_finite mean = true /\
    PrimFloat.is_finite sd = true /\ (0 <=? sd)%float = true.
Proof. exact float_sampler_valid. Qed.
(* ... and the restriction on g is needed: a positive draw below 2^-1024 (here 5e-324, after one update) gives
   variance = 1/g = +inf and sd = +inf, which Normal::new rejects *)
Theorem C18_float_sampler_tiny_gamma_refuted :
  let s := fslot_run (f_of_bits 4607182418800017408) [f_of_bits 4607182418800017408] in
  ((f_of_bits 1 =? 0) || (PrimFloat.is_finite (f_of_bits 1) && (0x1p-1022 <=? f_of_bits 1)))%float = false /\
  bits_of_f (nth 3 (fsample_args s (f_of_bits 1)) 0%float) = 9218868437227405312%Z.
Proof. exact float_sampler_tiny_gamma. Qed.
(* ... and so is the bound on the rewards: one finite reward 2^512 (prior 0) makes (reward - mu)^2 overflow, the term is 0 * inf,
   beta and scale are NaN *)
Theorem C18_float_unbounded_reward_refuted :
  let s := fslot_run 0%float [0x1p512%float] in
  (abs 0x1p512 <=? 0x1p480)%float = false /\ PrimFloat.is_finite 0x1p512%float = true /\
  bits_of_f (f_beta s) = (-1)%Z /\ PrimFloat.is_nan (f_beta s) = true /\ (0 <? 1 / f_beta s)%float = false.
Proof. exact float_beta_nan_beyond_bound. Qed.
(* the f64 mean stays within one rounding step of the hull: if prior and rewards are finite, of magnitude <= 2^m, and lie between
   two floats L, H (|L|, |H| <= 2^(m+1)) with a margin of 2^(m-52) = 2^-52 * 2^m for the rewards, then so does every later mean
   (complements C18_float_mean_in_hull_refuted: without the margin it fails) *)
Theorem C18_float_mean_near_hull : forall (m : Z) (L H prior : PrimFloat.float) (rs : list PrimFloat.float),
  (-1022 <= m <= 1020)%Z -> (Z.of_nat (length rs) <= 2 ^ 52)%Z ->
  PrimFloat.is_finite L = true -> PrimFloat.is_finite H = true ->
  (- (2 * bpow radix2 m) <= B2R (Prim2B L))%R -> (B2R (Prim2B H) <= 2 * bpow radix2 m)%R ->
  PrimFloat.is_finite prior = true -> (B2R (Prim2B L) <= B2R (Prim2B prior) <= B2R (Prim2B H))%R ->
  Forall (fun r => PrimFloat.is_finite r = true /\ (Rabs (B2R (Prim2B r)) <= bpow radix2 m)%R /\
                   (B2R (Prim2B L) + bpow radix2 (m - 52) <= B2R (Prim2B r) <= B2R (Prim2B H) - bpow radix2 (m - 52))%R) rs ->
  let mu := f_mu (fslot_run prior rs) in
  PrimFloat.is_finite mu = true /\ (B2R (Prim2B L) <= B2R (Prim2B mu) <= B2R (Prim2B H))%R.
Proof. exact float_mean_near_hull. Qed.
(* instance with executable hypotheses: prior and rewards in [1, 2] -> mean in [1 - 2^-51, 2 + 2^-51] *)
Theorem C18_float_mean_in_1_2 : forall (prior : PrimFloat.float) (rs : list PrimFloat.float),
  (Z.of_nat (length rs) <= 2 ^ 52)%Z ->
  ((1 <=? prior) && (prior <=? 2))%float = true -> Forall (fun r => ((1 <=? r) && (r <=? 2))%float = true) rs ->
  let mu := f_mu (fslot_run prior rs) in
  PrimFloat.is_finite mu = true /\ (0x1.ffffffffffffcp-1 <=? mu)%float = true /\ (mu <=? 0x1.0000000000001p1)%float = true.
Proof. exact float_mean_in_1_2. Qed.
(* non-vacuity of the hypotheses of (F): an extreme admissible history, admissible / inadmissible draws, a history in [1, 2] *)
Theorem C18_nonvacuous_float_bounds :
  let prior := 0x1p480%float in
  let rs := [(- 0x1p480)%float; 0x1p480%float; 0x1p-1%float] in
  (abs prior <=? 0x1p480)%float = true /\ Forall (fun r => (abs r <=? 0x1p480)%float = true) rs /\
  (Z.of_nat (length rs) <= 2 ^ 52)%Z /\
  ((0 =? 0) || (PrimFloat.is_finite 0 && (0x1p-1022 <=? 0)))%float = true /\ (((- 0) =? 0) || (PrimFloat.is_finite (- 0) && (0x1p-1022 <=? (- 0))))%float = true /\
  ((0x1p-1022 =? 0) || (PrimFloat.is_finite 0x1p-1022 && (0x1p-1022 <=? 0x1p-1022)))%float = true /\
  ((0x1p+1023 =? 0) || (PrimFloat.is_finite 0x1p+1023 && (0x1p-1022 <=? 0x1p+1023)))%float = true /\
  ((0x1p-1074 =? 0) || (PrimFloat.is_finite 0x1p-1074 && (0x1p-1022 <=? 0x1p-1074)))%float = false /\ ((nan =? 0) || (PrimFloat.is_finite nan && (0x1p-1022 <=? nan)))%float = false /\
  ((infinity =? 0) || (PrimFloat.is_finite infinity && (0x1p-1022 <=? infinity)))%float = false /\ (((- 1) =? 0) || (PrimFloat.is_finite (- 1) && (0x1p-1022 <=? (- 1))))%float = false /\
  (abs infinity <=? 0x1p480)%float = false /\ (abs nan <=? 0x1p480)%float = false /\
  bits_of_f (f_alpha (fslot_run prior rs)) = 4612811918334230528%Z /\
  PrimFloat.is_finite (f_beta (fslot_run prior rs)) = true /\ (0x1p960 <=? f_beta (fslot_run prior rs))%float = true.
Proof. exact float_hypotheses_satisfiable. Qed.
Theorem C18_nonvacuous_float_mean_in_1_2 :
  let prior := 1%float in
  let rs := [0x1.8p0%float; 0x1.4p0%float; 2%float; 1%float] in
  ((1 <=? prior) && (prior <=? 2))%float = true /\ Forall (fun r => ((1 <=? r) && (r <=? 2))%float = true) rs /\
  (Z.of_nat (length rs) <= 2 ^ 52)%Z /\
  bits_of_f (f_mu (fslot_run prior rs)) = 4609152743636992000%Z.
Proof. exact float_mean_in_1_2_satisfiable. Qed.
