From Coq Require Import QArith.
From VRP Require Import Base.Tac Model.SlotQ.
Theorem C18_placeholder : forall p, s_n (slot_new p) = 0%nat.
Proof. reflexivity. Qed.
