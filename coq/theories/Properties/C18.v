(* C18 — Adaptive operator selection and termination math stay numerically sane.
   Only the property theorems, each closed by `exact`.  Clauses of the statement:
   (A) learning state finite and valid for any reward history   -> C18_slot_*            (exact arithmetic, unbounded)
   (B) sampling / arg-max never fail, pick a configured operator -> C18_sampler_*, C18_argmax_*, C18_weighted_*
   (C) rewards finite and within the documented range            -> C18_reward_* (true bound 3(2N+1)); documented [0,6]: _partial + _refuted
   (D) termination estimates within [0,1]                        -> C18_estimate_*
   (E) variation criterion fires iff cv of every objective <= thr -> C18_min_variation_*
   Over f64 (not exact arithmetic) the hull clause of (A) and finiteness in (C) fail: C18_float_*_refuted (witnesses on the
   primitive-float twin).
   (F) at the end of the file: the f64 level of (A)/(B), proved for the primitive-float twin (= what the Rust code computes, bit for
   bit) for every finite prior and reward of magnitude <= 2^480 and at most 2^52 updates -> C18_float_alpha_exact, _beta_valid,
   _beta_monotone, _state_valid, _sampler_arguments_valid, _mean_near_hull; outside those bounds they fail (_refuted witnesses). *)
From Coq Require Import QArith Qabs Qminmax Floats.
From VRP Require Import Base.Tac Base.TotalCmp Model.SlotQ Model.SlotF Model.Reward Model.Termination.
From VRP Require Import Proofs.SlotQP Proofs.SlotFP Proofs.RewardP Proofs.TerminationP.
Open Scope Q_scope.

(* ---------------- (A) slot machine state, for every prior and every reward sequence ---------------- *)
Theorem C18_slot_count : forall prior rs, s_n (slot_run prior rs) = length rs.
Proof. exact count_ok. Qed.
Theorem C18_slot_alpha_closed_form : forall prior rs, s_alpha (slot_run prior rs) == 1 + qn (length rs) / 2.
Proof. exact alpha_closed. Qed.
Theorem C18_slot_alpha_positive : forall prior rs, 0 < s_alpha (slot_run prior rs).
Proof. exact alpha_pos. Qed.
Theorem C18_slot_beta_at_least_10 : forall prior rs, 10 <= s_beta (slot_run prior rs).
Proof. exact beta_ge_10. Qed.
Theorem C18_slot_beta_monotone : forall prior rs r, s_beta (slot_run prior rs) <= s_beta (slot_run prior (rs ++ [r])).
Proof. exact beta_monotone. Qed.
Theorem C18_slot_variance_nonneg : forall prior rs, 0 <= s_v (slot_run prior rs).
Proof. exact variance_nonneg. Qed.
(* the mean is the average of the rewards seen (the prior is forgotten after the first update) ... *)
Theorem C18_slot_mean_is_average : forall prior rs, qn (length rs) * s_mu (slot_run prior rs) == qsuml rs.
Proof. exact mean_is_average. Qed.
(* ... hence inside their hull *)
Theorem C18_slot_mean_in_hull : forall prior rs lo hi,
  rs <> [] -> (forall r, In r rs -> lo <= r <= hi) -> lo <= s_mu (slot_run prior rs) <= hi.
Proof. exact mean_in_hull. Qed.
(* over f64 the hull clause fails by rounding: prior 1.0, single reward 5e-324 -> mean +0.0 < 5e-324 *)
Theorem C18_float_mean_in_hull_refuted :
  let s := fslot_update (fslot_new (f_of_bits 4607182418800017408)) (f_of_bits 1) in
  bits_of_f (f_mu s) = 0%Z /\ PrimFloat.ltb (f_mu s) (f_of_bits 1) = true.
Proof. exact float_mean_leaves_hull. Qed.

(* ---------------- (B) sampling and selection ---------------- *)
(* arguments handed to Gamma::new / Normal::new are valid for every state and every non-negative gamma draw g *)
Theorem C18_sampler_arguments_valid : forall prior rs g, 0 <= g ->
  let q := sample_args (slot_run prior rs) g in
  0 < g_shape q /\ 0 < g_scale q /\ 0 < n_variance q.
Proof. exact sample_args_valid. Qed.
(* random_argmax: for every random stream o, a non-empty list yields an index in range whose value is maximal *)
Theorem C18_argmax_some_in_range_maximal : forall o keys, keys <> [] ->
  exists i, random_argmax o keys = Some i /\ (i < length keys)%nat /\ forall x, In x keys -> (x <= nth i keys 0)%Z.
Proof. exact random_argmax_spec. Qed.
Theorem C18_argmax_none_iff_empty : forall o keys, random_argmax o keys = None <-> keys = [].
Proof. exact random_argmax_none. Qed.
(* weighted: for every draw vector, non-empty weights yield an index in range *)
Theorem C18_weighted_in_range : forall es ws, ws <> [] -> length es = length ws ->
  exists i, weighted es ws = Some i /\ (i < length ws)%nat.
Proof. exact weighted_spec. Qed.

(* ---------------- (C) rewards ---------------- *)
(* for any objective answers o1 o2 and any fitness vectors: 0 <= reward <= 3(2N+1), N = number of objectives *)
Theorem C18_reward_range : forall best o1 o2 fnew finit,
  0 <= distance_reward best o1 o2 fnew finit <= 3 * (2 * qnat (length fnew) + 1).
Proof. exact distance_reward_bounds. Qed.
Theorem C18_reward_range_nonneg_fitness : forall best o1 o2 fnew finit,
  Forall (Qle 0) fnew -> Forall (Qle 0) finit -> (forall fb, best = Some fb -> Forall (Qle 0) fb) ->
  0 <= distance_reward best o1 o2 fnew finit <= 3 * (qnat (length fnew) + 1).
Proof. exact distance_reward_bounds_nonneg. Qed.
(* the documented range [0, 6] holds for a single non-negative objective only (missing for the full clause: N >= 2, negative fitness) *)
Theorem C18_reward_documented_range_partial : forall best o1 o2 a finit,
  0 <= a -> Forall (Qle 0) finit -> (forall fb, best = Some fb -> Forall (Qle 0) fb) ->
  0 <= distance_reward best o1 o2 [a] finit <= 6.
Proof. exact distance_reward_single_objective. Qed.
Theorem C18_reward_documented_range_refuted :
  distance_reward (Some [1; 1; 1]) Lt Lt [0; 1; 1] [1; 1; 1] == 12.
Proof. exact reward_above_6_three_objectives. Qed.
Theorem C18_reward_documented_range_opposite_sign_refuted :
  distance_reward (Some [1]) Lt Lt [-(1)] [1] == 9.
Proof. exact reward_above_6_opposite_sign. Qed.
Theorem C18_reward_multiplier_range : forall ratio median duration imp,
  1 / 2 < perf_multiplier ratio median duration imp <= 3.
Proof. exact perf_multiplier_bounds. Qed.
Theorem C18_reward_total_range : forall best finit fnew ratio median duration,
  0 <= step_reward best finit fnew ratio median duration <= 9 * (2 * qnat (length fnew) + 1).
Proof. exact step_reward_bounds. Qed.
(* over f64 finiteness fails for finite fitness near f64::MAX: |1.7e308 - (-1.7e308)| / 1.7e308 = +inf *)
Theorem C18_float_reward_finite_refuted :
  run_relvalueF 9218378953502702454 18441750990357478262 = 9218868437227405312%Z.
Proof. exact float_rel_value_overflows. Qed.

(* ---------------- (D) termination estimates ---------------- *)
Theorem C18_estimate_max_generation_unit : forall g l, 0 <= est_max_generation g l <= 1.
Proof. exact est_max_generation_unit. Qed.
Theorem C18_estimate_max_time_unit : forall e l, 0 <= e -> 0 <= l -> 0 <= est_max_time e l <= 1.
Proof. exact est_max_time_unit. Qed.
Theorem C18_estimate_composite_unit : forall es, (forall x, In x es -> 0 <= x <= 1) -> 0 <= est_composite es <= 1.
Proof. exact est_composite_unit. Qed.

(* ---------------- (E) min-variation criterion (sample interval) ---------------- *)
(* update_and_check fires iff the window is full (generation >= sample - 1) and no objective column of the updated window has cv > thr *)
Theorem C18_min_variation_fires_iff : forall sample thr st g f,
  snd (mv_update_and_check sample thr st g f) = true <->
  (sample - 1 <= g)%nat /\
  forall k, (k < width (mv_window sample st g f))%nat -> col_cv_gt (column k (mv_window sample st g f)) thr = false.
Proof. exact mv_fires_iff. Qed.
(* is_termination adds: a best solution exists, and the criterion is global or the phase is exploitation *)
Theorem C18_min_variation_is_termination_iff : forall sample thr glob st g ph best,
  snd (mv_is_termination sample thr glob st g ph best) = true <->
  exists f, best = Some f /\ (glob = true \/ ph = 2%nat) /\ snd (mv_update_and_check sample thr st g f) = true.
Proof. exact mv_is_termination_iff. Qed.
(* `not (cv > thr)` is `cv <= thr`: for a positive mean and thr >= 0, variance <= (thr * mean)^2, i.e. cv^2 <= thr^2 *)
Theorem C18_min_variation_cv_test_positive_mean : forall var mean thr, 0 < mean -> 0 <= thr ->
  (cv_gt var mean thr = false <-> var <= (thr * mean) * (thr * mean)).
Proof. exact cv_gt_false_pos. Qed.
Theorem C18_min_variation_cv_test_zero_mean : forall var mean thr, mean == 0 -> (cv_gt var mean thr = false <-> 0 <= thr).
Proof. exact cv_gt_zero_mean. Qed.
Theorem C18_min_variation_cv_test_negative_mean : forall var mean thr, mean < 0 -> 0 <= thr -> cv_gt var mean thr = false.
Proof. exact cv_gt_neg_mean. Qed.
Theorem C18_min_variation_variance_nonneg : forall l, 0 <= variance_q l.
Proof. exact variance_q_nonneg. Qed.

(* ---------------- non-vacuity ---------------- *)
Theorem C18_nonvacuous_slot : s_mu (slot_run 1 [1 # 2; 3 # 4]) == 5 # 8 /\ 10 < s_beta (slot_run 1 [1 # 2; 3 # 4]).
Proof. split; reflexivity. Qed.
Theorem C18_nonvacuous_min_variation :
  snd (mv_update_and_check 2 (1 # 8) (Some [[9]; [0]]) 1 [7]) = true /\
  snd (mv_update_and_check 2 (1 # 9) (Some [[9]; [0]]) 1 [7]) = false.
Proof. split; reflexivity. Qed.
Theorem C18_nonvacuous_float_twin :
  bits_of_f (f_mu (fslot_run (f_of_bits 4607182418800017408) [f_of_bits 4602678819172646912; f_of_bits 4604930618986332160]))
  = 4603804719079489536%Z.
Proof. exact float_twin_example. Qed.

(* ---------------- (F) the same invariants over IEEE-754 binary64: theorems about the primitive-float twin ----------------
   `B2R (Prim2B x)` is the real number denoted by the finite float x (Flocq); `PrimFloat.is_finite x = true` excludes NaN and
   infinities.  Hypotheses are executable float comparisons: `(abs r <=? 0x1p480) = true` says r is finite (not NaN, not inf)
   with |r| <= 2^480.  These theorems depend on the standard library's classical axioms of the reals and on the primitive
   float / 63-bit integer specification (Coq.Floats.FloatAxioms, Uint63), listed by Print Assumptions; nothing else. *)
From Coq Require Import Reals.
From Flocq Require Import Core.Core IEEE754.BinarySingleNaN IEEE754.PrimFloat.
From VRP Require Import Proofs.SlotFloatP.

(* alpha is computed without any rounding: its value is exactly 1 + n/2; finite and positive (any prior, any rewards - even NaN) *)
Theorem C18_float_alpha_exact : forall (prior : PrimFloat.float) (rs : list PrimFloat.float),
  (Z.of_nat (length rs) <= 2 ^ 52)%Z ->
  let a := f_alpha (fslot_run prior rs) in
  PrimFloat.is_finite a = true /\ B2R (Prim2B a) = (1 + INR (length rs) / 2)%R /\ (0 <? a)%float = true.
Proof. exact float_alpha_exact. Qed.
(* beta: finite, >= 10, at most (n+1) * 2^963; scale = 1/beta handed to Gamma::new is finite and > 0 *)
Theorem C18_float_beta_valid : forall (prior : PrimFloat.float) (rs : list PrimFloat.float),
  (Z.of_nat (length rs) <= 2 ^ 52)%Z ->
  (abs prior <=? 0x1p480)%float = true -> Forall (fun r => (abs r <=? 0x1p480)%float = true) rs ->
  let b := f_beta (fslot_run prior rs) in
  PrimFloat.is_finite b = true /\ (10 <=? b)%float = true /\
  (B2R (Prim2B b) <= (INR (length rs) + 1) * bpow radix2 963)%R /\
  PrimFloat.is_finite (1 / b)%float = true /\ (0 <? 1 / b)%float = true.
Proof. exact float_beta_valid. Qed.
(* beta never decreases along a run (every prefix of a bounded history is a bounded history) *)
Theorem C18_float_beta_monotone : forall (prior : PrimFloat.float) (rs : list PrimFloat.float) (r : PrimFloat.float),
  (Z.of_nat (length (rs ++ [r])) <= 2 ^ 52)%Z ->
  (abs prior <=? 0x1p480)%float = true -> Forall (fun x => (abs x <=? 0x1p480)%float = true) (rs ++ [r]) ->
  (f_beta (fslot_run prior rs) <=? f_beta (fslot_run prior (rs ++ [r])))%float = true.
Proof. exact float_beta_monotone. Qed.
(* the whole state: counter exact, no NaN / infinity anywhere, 0 < v <= beta, |mu| <= 2^480 (1 + 2^-52) *)
Theorem C18_float_state_valid : forall (prior : PrimFloat.float) (rs : list PrimFloat.float),
  (Z.of_nat (length rs) <= 2 ^ 52)%Z ->
  (abs prior <=? 0x1p480)%float = true -> Forall (fun r => (abs r <=? 0x1p480)%float = true) rs ->
  let s := fslot_run prior rs in
  f_n s = length rs /\
  PrimFloat.is_finite (f_alpha s) = true /\ PrimFloat.is_finite (f_beta s) = true /\
  PrimFloat.is_finite (f_mu s) = true /\ PrimFloat.is_finite (f_v s) = true /\
  (0 <? f_v s)%float = true /\ (f_v s <=? f_beta s)%float = true /\
  (abs (f_mu s) <=? 0x1.0000000000001p480)%float = true.
Proof. exact float_state_valid. Qed.
(* sample(): Gamma::new(shape, scale) needs shape > 0, scale > 0; Normal::new(mean, sd) needs sd finite (rand_distr 0.4.3).
   Valid before the first update for ANY value g of the gamma draw, and later for g = +-0 (guard) or finite g >= 2^-1022
   (hypothesis on rand_distr's Gamma: it returns a finite non-negative number); the division 1/precision is never by zero *)
Theorem C18_float_sampler_arguments_valid : forall (prior : PrimFloat.float) (rs : list PrimFloat.float) (g : PrimFloat.float),
  (Z.of_nat (length rs) <= 2 ^ 52)%Z ->
  (abs prior <=? 0x1p480)%float = true -> Forall (fun r => (abs r <=? 0x1p480)%float = true) rs ->
  rs = [] \/ ((g =? 0) || (PrimFloat.is_finite g && (0x1p-1022 <=? g)))%float = true ->
  exists shape scale mean sd, fsample_args (fslot_run prior rs) g = [shape; scale; mean; sd] /\
    PrimFloat.is_finite shape = true /\ (0 <? shape)%float = true /\
    PrimFloat.is_finite scale = true /\ (0 <? scale)%float = true /\
    PrimFloat.is_finite mean = true /\
    PrimFloat.is_finite sd = true /\ (0 <=? sd)%float = true.
Proof. exact float_sampler_valid. Qed.
(* ... and the restriction on g is needed: a positive draw below 2^-1024 (here 5e-324, after one update) gives
   variance = 1/g = +inf and sd = +inf, which Normal::new rejects *)
Theorem C18_float_sampler_tiny_gamma_refuted :
  let s := fslot_run (f_of_bits 4607182418800017408) [f_of_bits 4607182418800017408] in
  ((f_of_bits 1 =? 0) || (PrimFloat.is_finite (f_of_bits 1) && (0x1p-1022 <=? f_of_bits 1)))%float = false /\
  bits_of_f (nth 3 (fsample_args s (f_of_bits 1)) 0%float) = 9218868437227405312%Z.
Proof. exact float_sampler_tiny_gamma. Qed.
(* ... and so is the bound on the rewards: one finite reward 2^512 (prior 0) makes (reward - mu)^2 overflow, the term is 0 * inf,
   beta and scale are NaN *)
Theorem C18_float_unbounded_reward_refuted :
  let s := fslot_run 0%float [0x1p512%float] in
  (abs 0x1p512 <=? 0x1p480)%float = false /\ PrimFloat.is_finite 0x1p512%float = true /\
  bits_of_f (f_beta s) = (-1)%Z /\ PrimFloat.is_nan (f_beta s) = true /\ (0 <? 1 / f_beta s)%float = false.
Proof. exact float_beta_nan_beyond_bound. Qed.
(* the f64 mean stays within one rounding step of the hull: if prior and rewards are finite, of magnitude <= 2^m, and lie between
   two floats L, H (|L|, |H| <= 2^(m+1)) with a margin of 2^(m-52) = 2^-52 * 2^m for the rewards, then so does every later mean
   (complements C18_float_mean_in_hull_refuted: without the margin it fails) *)
Theorem C18_float_mean_near_hull : forall (m : Z) (L H prior : PrimFloat.float) (rs : list PrimFloat.float),
  (-1022 <= m <= 1020)%Z -> (Z.of_nat (length rs) <= 2 ^ 52)%Z ->
  PrimFloat.is_finite L = true -> PrimFloat.is_finite H = true ->
  (- (2 * bpow radix2 m) <= B2R (Prim2B L))%R -> (B2R (Prim2B H) <= 2 * bpow radix2 m)%R ->
  PrimFloat.is_finite prior = true -> (B2R (Prim2B L) <= B2R (Prim2B prior) <= B2R (Prim2B H))%R ->
  Forall (fun r => PrimFloat.is_finite r = true /\ (Rabs (B2R (Prim2B r)) <= bpow radix2 m)%R /\
                   (B2R (Prim2B L) + bpow radix2 (m - 52) <= B2R (Prim2B r) <= B2R (Prim2B H) - bpow radix2 (m - 52))%R) rs ->
  let mu := f_mu (fslot_run prior rs) in
  PrimFloat.is_finite mu = true /\ (B2R (Prim2B L) <= B2R (Prim2B mu) <= B2R (Prim2B H))%R.
Proof. exact float_mean_near_hull. Qed.
(* instance with executable hypotheses: prior and rewards in [1, 2] -> mean in [1 - 2^-51, 2 + 2^-51] *)
Theorem C18_float_mean_in_1_2 : forall (prior : PrimFloat.float) (rs : list PrimFloat.float),
  (Z.of_nat (length rs) <= 2 ^ 52)%Z ->
  ((1 <=? prior) && (prior <=? 2))%float = true -> Forall (fun r => ((1 <=? r) && (r <=? 2))%float = true) rs ->
  let mu := f_mu (fslot_run prior rs) in
  PrimFloat.is_finite mu = true /\ (0x1.ffffffffffffcp-1 <=? mu)%float = true /\ (mu <=? 0x1.0000000000001p1)%float = true.
Proof. exact float_mean_in_1_2. Qed.
(* non-vacuity of the hypotheses of (F): an extreme admissible history, admissible / inadmissible draws, a history in [1, 2] *)
Theorem C18_nonvacuous_float_bounds :
  let prior := 0x1p480%float in
  let rs := [(- 0x1p480)%float; 0x1p480%float; 0x1p-1%float] in
  (abs prior <=? 0x1p480)%float = true /\ Forall (fun r => (abs r <=? 0x1p480)%float = true) rs /\
  (Z.of_nat (length rs) <= 2 ^ 52)%Z /\
  ((0 =? 0) || (PrimFloat.is_finite 0 && (0x1p-1022 <=? 0)))%float = true /\ (((- 0) =? 0) || (PrimFloat.is_finite (- 0) && (0x1p-1022 <=? (- 0))))%float = true /\
  ((0x1p-1022 =? 0) || (PrimFloat.is_finite 0x1p-1022 && (0x1p-1022 <=? 0x1p-1022)))%float = true /\
  ((0x1p+1023 =? 0) || (PrimFloat.is_finite 0x1p+1023 && (0x1p-1022 <=? 0x1p+1023)))%float = true /\
  ((0x1p-1074 =? 0) || (PrimFloat.is_finite 0x1p-1074 && (0x1p-1022 <=? 0x1p-1074)))%float = false /\ ((nan =? 0) || (PrimFloat.is_finite nan && (0x1p-1022 <=? nan)))%float = false /\
  ((infinity =? 0) || (PrimFloat.is_finite infinity && (0x1p-1022 <=? infinity)))%float = false /\ (((- 1) =? 0) || (PrimFloat.is_finite (- 1) && (0x1p-1022 <=? (- 1))))%float = false /\
  (abs infinity <=? 0x1p480)%float = false /\ (abs nan <=? 0x1p480)%float = false /\
  bits_of_f (f_alpha (fslot_run prior rs)) = 4612811918334230528%Z /\
  PrimFloat.is_finite (f_beta (fslot_run prior rs)) = true /\ (0x1p960 <=? f_beta (fslot_run prior rs))%float = true.
Proof. exact float_hypotheses_satisfiable. Qed.
Theorem C18_nonvacuous_float_mean_in_1_2 :
  let prior := 1%float in
  let rs := [0x1.8p0%float; 0x1.4p0%float; 2%float; 1%float] in
  ((1 <=? prior) && (prior <=? 2))%float = true /\ Forall (fun r => ((1 <=? r) && (r <=? 2))%float = true) rs /\
  (Z.of_nat (length rs) <= 2 ^ 52)%Z /\
  bits_of_f (f_mu (fslot_run prior rs)) = 4609152743636992000%Z.
Proof. exact float_mean_in_1_2_satisfiable. Qed.

(* ================= (G) the adaptive selector itself: DynamicSelective as a state machine (Model/Selector.v) =================
   S = state of one slot machine, R = reward; rows of slots per search state (best known / diverse); sampler outputs xs are
   arbitrary f64::total_cmp keys (NaN and infinities from a misbehaving sampler included), ties an arbitrary tie stream. *)
From VRP Require Import Model.Selector Model.SelectorF Model.Termination2 Model.TermF.
From VRP Require Import Proofs.SelectorP Proofs.RewardFloatP Proofs.SelectorFP Proofs.Termination2P Proofs.TermFloatP.
Local Open Scope Z_scope.

(* selection is total and picks a configured operator whose sampled value is maximal *)
Theorem C18_selector_selection_total_and_configured : forall (S : Type) (nops : nat) (s : sel S) (from : sstate) (xs : list Z) (ties : list bool),
  (length (sel_best s) = nops /\ length (sel_div s) = nops) -> (0 < nops)%nat ->
  exists i, sel_select s from xs ties = Some i /\ (i < nops)%nat /\ forall k, (k < nops)%nat -> nth k xs 0 <= nth i xs 0.
Proof. exact @sel_select_spec. Qed.
(* without a configured operator the expect("cannot get slot machine") of the first search panics *)
Theorem C18_selector_no_operator_panics : forall (S R : Type) (snew : S) (supd : S -> R -> S) (E O : Type) (from_of : E -> O -> sstate)
    (take : E -> option Z -> sstate -> nat -> O -> feedback R) e o p jobs rest,
  sel_run supd from_of take (sel_new snew 0) ((e, (o, p) :: jobs) :: rest) = None.
Proof. exact @sel_run_no_operators. Qed.
(* update changes exactly the chosen slot of the row of the from-state (by SlotMachine::update with the reward), and the duration median *)
Theorem C18_selector_update_only_chosen_slot : forall (S R : Type) (supd : S -> R -> S) (nops : nat) (s : sel S) (fb : feedback R),
  (length (sel_best s) = nops /\ length (sel_div s) = nops) -> (fb_idx fb < nops)%nat ->
  exists s' slot, sel_update supd s fb = Some s' /\ (length (sel_best s') = nops /\ length (sel_div s') = nops) /\
    nth_error (sel_row (fb_from fb) s) (fb_idx fb) = Some slot /\
    nth_error (sel_row (fb_from fb) s') (fb_idx fb) = Some (supd slot (fb_reward fb)) /\
    (forall st k, (st <> fb_from fb \/ k <> fb_idx fb) -> nth_error (sel_row st s') k = nth_error (sel_row st s) k) /\
    sel_med s' = rem_add (sel_med s) (fb_duration fb).
Proof. exact @sel_update_spec. Qed.
(* every search of a round (search: one; search_many: all against the same state) uses the row of the state derived from its own
   solution, the median of the state the round started with, and the arg-max of its own sampled values *)
Theorem C18_selector_search_uses_row_of_from_state : forall (S R E O : Type) (from_of : E -> O -> sstate)
    (take : E -> option Z -> sstate -> nat -> O -> feedback R),
  (forall e m from idx o, fb_from (take e m from idx o) = from) -> (forall e m from idx o, fb_idx (take e m from idx o) = idx) ->
  forall (s : sel S) e jobs fbs, sel_searches from_of take s e jobs = Some fbs ->
  Forall2 (fun job fb => fb_from fb = from_of e (fst job) /\
                         fb = take e (rem_median (sel_med s)) (from_of e (fst job)) (fb_idx fb) (fst job) /\
                         sel_select s (from_of e (fst job)) (pk_xs (snd job)) (pk_ties (snd job)) = Some (fb_idx fb)) jobs fbs.
Proof. exact @sel_searches_each. Qed.
(* a whole history from SearchAgent::new: no panic, one slot per operator in both rows, every feedback names a configured
   operator, and slot k of row st is the fold of SlotMachine::update over exactly the rewards routed to (st, k), in order *)
Theorem C18_selector_history_slots_are_routed_runs : forall (S R : Type) (snew : S) (supd : S -> R -> S) (E O : Type) (from_of : E -> O -> sstate)
    (take : E -> option Z -> sstate -> nat -> O -> feedback R),
  (forall e m from idx o, fb_from (take e m from idx o) = from) -> (forall e m from idx o, fb_idx (take e m from idx o) = idx) ->
  forall (nops : nat) (rounds : list (E * list (O * pick))), (0 < nops)%nat ->
  exists s' fbs, sel_run supd from_of take (sel_new snew nops) rounds = Some (s', fbs) /\
    (length (sel_best s') = nops /\ length (sel_div s') = nops) /\
    Forall (fun fb => (fb_idx fb < nops)%nat) fbs /\
    forall st k, (k < nops)%nat -> nth_error (sel_row st s') k = Some (fold_left supd (routed st k fbs) snew).
Proof. exact @sel_run_from_new. Qed.
(* exact arithmetic, any objective `ord`: the reward SearchAction::take hands to update *)
Theorem C18_selector_reward_range : forall (ord : list Q -> list Q -> comparison) (e : qenv) (m : option Z) (o : qoutcome),
  (0 <= q_reward ord e m o <= 9 * (2 * qnat (length (qo_new o)) + 1))%Q.
Proof. exact q_reward_bounds. Qed.
(* exact arithmetic: for every history (any objective, sampler outputs, tie streams, durations) every slot of both rows is a valid
   learning state: n = number of routed rewards, alpha = 1 + n/2 > 0, beta >= 10, v >= 0, mean within the hull [0, 9(2N+1)] *)
Theorem C18_selector_state_valid : forall (ord : list Q -> list Q -> comparison) (nops N : nat) (rounds : list (qenv * list (qoutcome * pick))),
  (0 < nops)%nat ->
  Forall (fun round => Forall (fun job => (length (qo_new (fst job)) <= N)%nat) (snd round)) rounds ->
  exists s' fbs, qsel_run ord nops rounds = Some (s', fbs) /\
    Forall (fun fb => (fb_idx fb < nops)%nat /\ (0 <= fb_reward fb <= 9 * (2 * qnat N + 1))%Q) fbs /\
    forall st k, (k < nops)%nat ->
      exists sl, nth_error (sel_row st s') k = Some sl /\ sl = slot_run 1 (routed st k fbs) /\
        s_n sl = length (routed st k fbs) /\ (s_alpha sl == 1 + qn (s_n sl) / 2)%Q /\ (0 < s_alpha sl)%Q /\ (10 <= s_beta sl)%Q /\
        (0 <= s_v sl)%Q /\ (routed st k fbs <> [] -> (0 <= s_mu sl <= 9 * (2 * qnat N + 1))%Q).
Proof. exact qsel_state_valid. Qed.

(* ---- binary64 level: the reward estimation (Model/SelectorF.v), |fitness| <= 2^1022 = `fit_ok` ---- *)
Theorem C18_float_relative_value_range : forall a b : PrimFloat.float,
  (abs a <=? 0x1p1022)%float = true -> (abs b <=? 0x1p1022)%float = true -> (a =? b)%float = false ->
  PrimFloat.is_finite (frelv a b) = true /\ (0 <=? frelv a b)%float = true /\ (frelv a b <=? 2)%float = true.
Proof. exact float_relative_value_range. Qed.
Theorem C18_float_relative_distance_range : forall ord (fa fb : list PrimFloat.float),
  forallb (fun x => (abs x <=? 0x1p1022)%float) fa = true -> forallb (fun x => (abs x <=? 0x1p1022)%float) fb = true ->
  (Z.of_nat (length fa) < 2 ^ 50) ->
  PrimFloat.is_finite (frel_dist ord fa fb) = true /\ (Rabs (B2R (Prim2B (frel_dist ord fa fb))) <= 2 * INR (length fa))%R.
Proof. exact float_rel_dist_range. Qed.
(* estimate_distance_reward: finite, 0 <= reward <= 3 (2N + 1): the exact-arithmetic bound holds bit for bit *)
Theorem C18_float_distance_reward_range : forall best o1 o2 (fnew finit : list PrimFloat.float),
  forallb (fun x => (abs x <=? 0x1p1022)%float) fnew = true -> forallb (fun x => (abs x <=? 0x1p1022)%float) finit = true ->
  (forall fb, best = Some fb -> forallb (fun x => (abs x <=? 0x1p1022)%float) fb = true) ->
  (Z.of_nat (length fnew) < 2 ^ 50) ->
  let r := fdistance_reward best o1 o2 fnew finit in
  PrimFloat.is_finite r = true /\ (0 <=? r)%float = true /\ (B2R (Prim2B r) <= 3 * (2 * INR (length fnew) + 1))%R.
Proof. exact float_distance_reward_range. Qed.
(* estimate_reward_perf_multiplier: for ALL inputs (NaN ratio, any durations) one of twelve constants in (0.5, 3] *)
Theorem C18_float_perf_multiplier_range : forall ratio median duration imp,
  let m := fperf_multiplier ratio median duration imp in
  PrimFloat.is_finite m = true /\ (0x1p-1 <? m)%float = true /\ (m <=? 3)%float = true.
Proof. exact float_perf_multiplier_range. Qed.
(* SearchAction::take: finite, 0 <= reward <= 9 (2N + 1), inside the bound 2^480 of the slot-machine theorems (F) *)
Theorem C18_float_reward_range : forall (ord : list PrimFloat.float -> list PrimFloat.float -> comparison) e median o (N : nat),
  (forall fb, fe_best e = Some fb -> forallb (fun x => (abs x <=? 0x1p1022)%float) fb = true) ->
  forallb (fun x => (abs x <=? 0x1p1022)%float) (fo_init o) = true -> forallb (fun x => (abs x <=? 0x1p1022)%float) (fo_new o) = true ->
  (length (fo_new o) <= N)%nat -> (Z.of_nat N < 2 ^ 48) ->
  let r := f_reward ord e median o in
  PrimFloat.is_finite r = true /\ (0 <=? r)%float = true /\ (B2R (Prim2B r) <= 9 * (2 * INR N + 1))%R /\ (abs r <=? 0x1p480)%float = true.
Proof. exact float_reward_range. Qed.
(* the whole selector over binary64: every history with fitness magnitudes <= 2^1022, at most N < 2^48 objectives and at most
   2^52 searches - every sampler output, every tie stream, every duration - runs without panic, feeds finite rewards in range to
   update, and leaves every slot of both rows a finite valid learning state with a valid Gamma scale *)
Theorem C18_selector_float_state_valid : forall (ord : list PrimFloat.float -> list PrimFloat.float -> comparison) (nops N : nat)
    (rounds : list (fenv * list (foutcome * pick))),
  (0 < nops)%nat -> (Z.of_nat N < 2 ^ 48) -> forallb (round_ok N) rounds = true -> (Z.of_nat (njobs rounds) <= 2 ^ 52) ->
  exists s' fbs, fsel_run ord nops rounds = Some (s', fbs) /\ length fbs = njobs rounds /\
    Forall (fun fb => (fb_idx fb < nops)%nat /\ PrimFloat.is_finite (fb_reward fb) = true /\
                      (0 <=? fb_reward fb)%float = true /\ (abs (fb_reward fb) <=? 0x1p480)%float = true) fbs /\
    forall st k, (k < nops)%nat ->
      exists sl, nth_error (sel_row st s') k = Some sl /\ sl = fslot_run 1%float (routed st k fbs) /\
        f_n sl = length (routed st k fbs) /\
        PrimFloat.is_finite (f_alpha sl) = true /\ PrimFloat.is_finite (f_beta sl) = true /\
        PrimFloat.is_finite (f_mu sl) = true /\ PrimFloat.is_finite (f_v sl) = true /\
        (0 <? f_alpha sl)%float = true /\ (10 <=? f_beta sl)%float = true /\
        (0 <? f_v sl)%float = true /\ (f_v sl <=? f_beta sl)%float = true /\
        PrimFloat.is_finite (1 / f_beta sl)%float = true /\ (0 <? 1 / f_beta sl)%float = true.
Proof. exact fsel_state_valid. Qed.
Theorem C18_selector_float_sampler_arguments_valid : forall (ord : list PrimFloat.float -> list PrimFloat.float -> comparison) (nops N : nat)
    (rounds : list (fenv * list (foutcome * pick))) (g : PrimFloat.float),
  (0 < nops)%nat -> (Z.of_nat N < 2 ^ 48) -> forallb (round_ok N) rounds = true -> (Z.of_nat (njobs rounds) <= 2 ^ 52) ->
  ((g =? 0) || (PrimFloat.is_finite g && (0x1p-1022 <=? g)))%float = true ->
  exists s' fbs, fsel_run ord nops rounds = Some (s', fbs) /\
    forall st k, (k < nops)%nat ->
      exists sl shape scale mean sd, nth_error (sel_row st s') k = Some sl /\ fsample_args sl g = [shape; scale; mean; sd] /\
        PrimFloat.is_finite shape = true /\ (0 <? shape)%float = true /\
        PrimFloat.is_finite scale = true /\ (0 <? scale)%float = true /\
        PrimFloat.is_finite mean = true /\ PrimFloat.is_finite sd = true /\ (0 <=? sd)%float = true.
Proof. exact fsel_sampler_arguments_valid. Qed.
(* non-vacuity of the hypotheses of (G): extreme admissible fitness values; a concrete history with both rows, search_many, a NaN
   sampler output and a tie *)
Theorem C18_nonvacuous_float_reward :
  (abs 0x1p1022 <=? 0x1p1022)%float = true /\ (abs (-0x1p1022) <=? 0x1p1022)%float = true /\ (abs infinity <=? 0x1p1022)%float = false /\
  (abs nan <=? 0x1p1022)%float = false /\ (abs 0x1.0000000000001p1022 <=? 0x1p1022)%float = false /\
  frelv 0x1p1022 (-0x1p1022) = 2%float /\
  fdistance_reward (Some [0x1p1022%float]) Lt Lt [(-0x1p1022)%float] [0x1p1022%float] = 9%float.
Proof. exact float_reward_hypotheses_satisfiable. Qed.
Theorem C18_nonvacuous_selector_float :
  forallb (round_ok 1) ex_rounds = true /\ (Z.of_nat (njobs ex_rounds) <= 2 ^ 52) /\
  match fsel_run flex 2 ex_rounds with
  | Some (s, fbs) =>
      map (fun fb => (fb_from fb, fb_to fb, fb_idx fb, bits_of_f (fb_reward fb))) fbs =
        [(BestKnown, BestKnown, 1%nat, 4616752568008179712); (Diverse, BestKnown, 0%nat, 4622945017495814144); (BestKnown, Diverse, 1%nat, 0)] /\
      map f_n (sel_best s) = [0%nat; 2%nat] /\ map f_n (sel_div s) = [1%nat; 0%nat]
  | None => False
  end.
Proof. exact fsel_hypotheses_satisfiable. Qed.

(* ================= (H) termination estimates and statistics over binary64 (Model/TermF.v) ================= *)
(* MaxGeneration::estimate for every generation and limit below 2^63 (limit 0: x/0 is +inf or NaN, f64::min gives 1) *)
Theorem C18_float_estimate_max_generation_unit : forall generation limit : Z,
  (0 <= generation < 2 ^ 63) -> (0 <= limit < 2 ^ 63) ->
  let r := fest_max_generation generation limit in
  PrimFloat.is_finite r = true /\ (0 <=? r)%float = true /\ (r <=? 1)%float = true.
Proof. exact fest_max_generation_unit. Qed.
Theorem C18_float_estimate_max_generation_zero_limit : forall generation : Z, (0 <= generation < 2 ^ 63) ->
  fest_max_generation generation 0 = 1%float.
Proof. exact fest_max_generation_zero_limit. Qed.
(* MaxTime::estimate for every finite elapsed time >= 0 and every limit that is NaN or has a clear sign bit (+0, denormals - the
   quotient overflows to +inf -, +inf) *)
Theorem C18_float_estimate_max_time_unit : forall elapsed limit : PrimFloat.float,
  (PrimFloat.is_finite elapsed && (0 <=? elapsed)%float) = true -> (PrimFloat.is_nan limit || negb (get_sign limit)) = true ->
  let r := fest_max_time elapsed limit in
  PrimFloat.is_finite r = true /\ (0 <=? r)%float = true /\ (r <=? 1)%float = true.
Proof. exact fest_max_time_unit. Qed.
(* the restriction on the limit is needed: MaxTime::new(-0.0) estimates -inf (not a configuration a user writes; not a finding) *)
Theorem C18_float_estimate_max_time_negative_zero_refuted :
  (PrimFloat.is_nan (-0)%float || negb (get_sign (-0)%float)) = false /\
  (PrimFloat.is_finite 0x1p-10%float && (0 <=? 0x1p-10)%float) = true /\ fest_max_time 0x1p-10 (-0)%float = neg_infinity.
Proof. exact fest_max_time_negative_zero. Qed.
(* time overflow: elapsed / limit = +inf, estimate 1 (non-vacuity of the denormal-limit case) *)
Theorem C18_nonvacuous_float_estimate_max_time_overflow :
  (PrimFloat.is_nan 0x1p-1074%float || negb (get_sign 0x1p-1074%float)) = true /\ (1 / 0x1p-1074)%float = infinity /\
  fest_max_time 1 0x1p-1074%float = 1%float.
Proof. exact fest_max_time_overflow_example. Qed.
Theorem C18_float_estimate_composite_unit : forall es : list PrimFloat.float,
  Forall (fun r => PrimFloat.is_finite r = true /\ (0 <=? r)%float = true /\ (r <=? 1)%float = true) es ->
  let r := fest_composite es in PrimFloat.is_finite r = true /\ (0 <=? r)%float = true /\ (r <=? 1)%float = true.
Proof. exact fest_composite_unit. Qed.
(* get_variance_mean: finite for at most 2^30 values of magnitude <= 2^480 (no NaN, no overflow) *)
Theorem C18_float_stats_variance_mean_finite : forall l : list PrimFloat.float,
  (Z.of_nat (length l) <= 2 ^ 30) -> Forall (fun x => (abs x <=? 0x1p480)%float = true) l ->
  PrimFloat.is_finite (fst (fvariance_mean l)) = true /\ PrimFloat.is_finite (snd (fvariance_mean l)) = true /\
  (abs (snd (fvariance_mean l)) <=? 0x1p480)%float = true /\ (abs (fst (fvariance_mean l)) <=? 0x1p1022)%float = true.
Proof. exact fvariance_mean_finite. Qed.
Theorem C18_float_stats_cv_zero_mean : forall l : list PrimFloat.float,
  (snd (fvariance_mean l) =? 0)%float = true -> fget_cv l = 0%float.
Proof. exact fget_cv_zero_mean. Qed.
(* relative_distance (distance.rs): finite and >= 0 *)
Theorem C18_float_relative_distance_vector_range : forall a b : list PrimFloat.float,
  Forall (fun x => PrimFloat.is_finite x = true /\ (Rabs (B2R (Prim2B x)) <= bpow radix2 1022)%R) a ->
  Forall (fun x => PrimFloat.is_finite x = true /\ (Rabs (B2R (Prim2B x)) <= bpow radix2 1022)%R) b ->
  (Z.of_nat (length a) < 2 ^ 50) ->
  PrimFloat.is_finite (frelative_distance a b) = true /\ (0 <=? frelative_distance a b)%float = true.
Proof. exact float_relative_distance_vector_range. Qed.

(* ================= (I) the remaining criteria (Model/Termination2.v): MinVariation period mode, TargetProximity, Noise ================= *)
(* MinVariation with a period interval (clock value `elapsed`, shuffle oracle `perm`, any threshold test `check`) fires exactly when
   the period has elapsed, the (compacted) state has at least two entries, and the threshold test passes on the retained window *)
Theorem C18_period_fires_iff : forall (F : Type) (check : list (list F) -> bool) period st elapsed perm f,
  snd (mvp_update_and_check check period st elapsed perm f) = true <->
  period <= elapsed /\ (2 <= length (mvp_compact perm (st ++ [(elapsed, f)])))%nat /\
  check (map snd (skipn (drain_count (mvp_compact perm (st ++ [(elapsed, f)])) (elapsed - period)) (mvp_compact perm (st ++ [(elapsed, f)])))) = true.
Proof. exact @mvp_fires_iff. Qed.
Theorem C18_period_is_termination_iff : forall (F : Type) (check : list (list F) -> bool) period glob st elapsed perm ph best,
  snd (mvp_is_termination check period glob st elapsed perm ph best) = true <->
  exists f, best = Some f /\ (glob = true \/ ph = 2%nat) /\ snd (mvp_update_and_check check period st elapsed perm f) = true.
Proof. exact @mvp_is_termination_iff. Qed.
(* which window: nothing older than the period -> everything is kept *)
Theorem C18_period_window_all_inside : forall (F : Type) (l : list (Z * list F)) earliest,
  rposition l earliest = None -> skipn (drain_count l earliest) l = l.
Proof. exact @window_all_inside. Qed.
(* at least two entries inside the period: the window is exactly the maximal suffix of entries inside the period ... *)
Theorem C18_period_window_is_suffix_inside_period : forall (F : Type) (l : list (Z * list F)) earliest p,
  rposition l earliest = Some p -> (2 <= p)%nat ->
  exists pre x w, l = pre ++ x :: w /\ skipn (drain_count l earliest) l = w /\ length w = p /\
    forallb (fun e => earliest <=? fst e) w = true /\ (earliest <=? fst x) = false.
Proof. exact @window_two_or_more. Qed.
(* ... which for time stamps in non-decreasing order (monotone clock) is the set of all entries inside the period *)
Theorem C18_period_window_sorted_is_filter : forall (F : Type) (l : list (Z * list F)) earliest p,
  Sorted.StronglySorted (fun a b => fst a <= fst b) l -> rposition l earliest = Some p -> (2 <= p)%nat ->
  skipn (drain_count l earliest) l = filter (fun e => earliest <=? fst e) l.
Proof. exact @window_sorted_filter. Qed.
(* fewer than two inside: the last two entries are kept - except for a state of exactly three entries *)
Theorem C18_period_window_keep_two : forall (F : Type) (l : list (Z * list F)) earliest p,
  rposition l earliest = Some p -> (p < 2)%nat ->
  skipn (drain_count l earliest) l =
    if Nat.ltb (length l) 3 then l else if Nat.ltb 3 (length l) then skipn (length l - 2) l else skipn (length l - p) l.
Proof. exact @window_keep_two. Qed.
Theorem C18_period_three_entries_window_of_one : forall (F : Type) (a b c : Z * list F) earliest,
  (earliest <=? fst c) = true -> (earliest <=? fst b) = false ->
  skipn (drain_count [a; b; c] earliest) [a; b; c] = [c].
Proof. exact @window_three_entries_one_inside. Qed.
(* the compaction of more than 1000 entries keeps only entries that were there, in time order, one in ten for a genuine shuffle *)
Theorem C18_period_compaction : forall (F : Type) (perm : list nat) (values : list (Z * list F)), (1000 < length values)%nat ->
  let r := mvp_compact perm values in
  (forall e, In e r -> In e values) /\ Sorted.StronglySorted (fun a b => fst a <= fst b) r /\
  (Permutation.Permutation perm (seq 0 (length values)) -> length r = ((length values + 9) / 10)%nat).
Proof. exact @mvp_compact_spec. Qed.
Theorem C18_nonvacuous_period :
  let chk := fun rows => check_threshold rows (1 # 16)%Q in
  mvp_update_and_check chk 1000 [(0, [9%Q]); (600, [7%Q])] 1700 [] [9%Q] = ([(1700, [9%Q])], true) /\
  mvp_update_and_check chk 1000 [(0, [9%Q]); (100, [9%Q]); (600, [7%Q])] 1700 [] [9%Q] = ([(600, [7%Q]); (1700, [9%Q])], false) /\
  mvp_update_and_check chk 1000 [(0, [9%Q]); (900, [7%Q])] 1700 [] [7%Q] = ([(900, [7%Q]); (1700, [7%Q])], true) /\
  snd (mvp_update_and_check chk 1000 [(0, [9%Q])] 999 [] [9%Q]) = false.
Proof. exact period_examples. Qed.
(* TargetProximity fires exactly when a best solution exists and relative_distance(target, fitness) < threshold:
   through squares, and with the real square root *)
Theorem C18_target_proximity_fires_iff : forall target thr best,
  tp_is_termination target thr best = true <-> exists f, best = Some f /\ (0 < thr)%Q /\ (rel_sumsq target f < thr * thr)%Q.
Proof. exact tp_is_termination_iff. Qed.
Theorem C18_target_proximity_fires_iff_distance : forall target thr f,
  tp_is_termination target thr (Some f) = true <-> (sqrt (Q2R (rel_sumsq target f)) < Q2R thr)%R.
Proof. exact tp_fires_iff_distance. Qed.
Theorem C18_nonvacuous_target_proximity :
  tp_is_termination [1%Q] (1 # 2) (Some [2%Q]) = false /\ tp_is_termination [1%Q] (33 # 64) (Some [2%Q]) = true /\
  tp_is_termination [1%Q] (1 # 2) None = false /\ (rel_sumsq [1; 4] [2; 1] == 13 # 16)%Q.
Proof. exact target_examples. Qed.
(* Noise::generate: unchanged without a hit; value 0 -> the draw itself; otherwise value * (1 + u) (addition) or value * u (ratio) *)
Theorem C18_noise_no_hit : forall add u value, noise_generate add false u value = value.
Proof. exact noise_no_hit. Qed.
Theorem C18_noise_hit_zero : forall add u value, (value == 0)%Q -> noise_generate add true u value = u.
Proof. exact noise_hit_zero. Qed.
Theorem C18_noise_hit_addition : forall u value, ~ (value == 0)%Q -> (noise_generate true true u value == value * (1 + u))%Q.
Proof. exact noise_hit_addition. Qed.
Theorem C18_noise_hit_ratio : forall u value, ~ (value == 0)%Q -> (noise_generate false true u value == value * u)%Q.
Proof. exact noise_hit_ratio. Qed.
