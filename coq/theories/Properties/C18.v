(* C18 — Adaptive operator selection and termination math stay numerically sane.
   Only the property theorems, each closed by `exact`.  Clauses of the statement:
   (A) learning state finite and valid for any reward history   -> C18_slot_*            (exact arithmetic, unbounded)
   (B) sampling / arg-max never fail, pick a configured operator -> C18_sampler_*, C18_argmax_*, C18_weighted_*
   (C) rewards finite and within the documented range            -> C18_reward_* (true bound 3(2N+1)); documented [0,6]: _partial + _refuted
   (D) termination estimates within [0,1]                        -> C18_estimate_*
   (E) variation criterion fires iff cv of every objective <= thr -> C18_min_variation_*
   Over f64 (not exact arithmetic) the hull clause of (A) and finiteness in (C) fail: C18_float_*_refuted (witnesses on the
   primitive-float twin); the other f64 invariants are validated on every run, not proved. *)
From Coq Require Import QArith Qabs Qminmax Floats.
From VRP Require Import Base.Tac Base.TotalCmp Model.SlotQ Model.SlotF Model.Reward Model.Termination.
From VRP Require Import Proofs.SlotQP Proofs.SlotFP Proofs.RewardP Proofs.TerminationP.
Open Scope Q_scope.

(* ---------------- (A) slot machine state, for every prior and every reward sequence ---------------- *)
Theorem C18_slot_count : forall prior rs, s_n (slot_run prior rs) = length rs.
Proof. exact count_ok. Qed.
Theorem C18_slot_alpha_closed_form : forall prior rs, s_alpha (slot_run prior rs) == 1 + qn (length rs) / 2.
Proof. exact alpha_closed. Qed.
Theorem C18_slot_alpha_positive : forall prior rs, 0 < s_alpha (slot_run prior rs).
Proof. exact alpha_pos. Qed.
Theorem C18_slot_beta_at_least_10 : forall prior rs, 10 <= s_beta (slot_run prior rs).
Proof. exact beta_ge_10. Qed.
Theorem C18_slot_beta_monotone : forall prior rs r, s_beta (slot_run prior rs) <= s_beta (slot_run prior (rs ++ [r])).
Proof. exact beta_monotone. Qed.
Theorem C18_slot_variance_nonneg : forall prior rs, 0 <= s_v (slot_run prior rs).
Proof. exact variance_nonneg. Qed.
(* the mean is the average of the rewards seen (the prior is forgotten after the first update) ... *)
Theorem C18_slot_mean_is_average : forall prior rs, qn (length rs) * s_mu (slot_run prior rs) == qsuml rs.
Proof. exact mean_is_average. Qed.
(* ... hence inside their hull *)
Theorem C18_slot_mean_in_hull : forall prior rs lo hi,
  rs <> [] -> (forall r, In r rs -> lo <= r <= hi) -> lo <= s_mu (slot_run prior rs) <= hi.
Proof. exact mean_in_hull. Qed.
(* over f64 the hull clause fails by rounding: prior 1.0, single reward 5e-324 -> mean +0.0 < 5e-324 *)
Theorem C18_float_mean_in_hull_refuted :
  let s := fslot_update (fslot_new (f_of_bits 4607182418800017408)) (f_of_bits 1) in
  bits_of_f (f_mu s) = 0%Z /\ PrimFloat.ltb (f_mu s) (f_of_bits 1) = true.
Proof. exact float_mean_leaves_hull. Qed.

(* ---------------- (B) sampling and selection ---------------- *)
(* arguments handed to Gamma::new / Normal::new are valid for every state and every non-negative gamma draw g *)
Theorem C18_sampler_arguments_valid : forall prior rs g, 0 <= g ->
  let q := sample_args (slot_run prior rs) g in
  0 < g_shape q /\ 0 < g_scale q /\ 0 < n_variance q.
Proof. exact sample_args_valid. Qed.
(* random_argmax: for every random stream o, a non-empty list yields an index in range whose value is maximal *)
Theorem C18_argmax_some_in_range_maximal : forall o keys, keys <> [] ->
  exists i, random_argmax o keys = Some i /\ (i < length keys)%nat /\ forall x, In x keys -> (x <= nth i keys 0)%Z.
Proof. exact random_argmax_spec. Qed.
Theorem C18_argmax_none_iff_empty : forall o keys, random_argmax o keys = None <-> keys = [].
Proof. exact random_argmax_none. Qed.
(* weighted: for every draw vector, non-empty weights yield an index in range *)
Theorem C18_weighted_in_range : forall es ws, ws <> [] -> length es = length ws ->
  exists i, weighted es ws = Some i /\ (i < length ws)%nat.
Proof. exact weighted_spec. Qed.

(* ---------------- (C) rewards ---------------- *)
(* for any objective answers o1 o2 and any fitness vectors: 0 <= reward <= 3(2N+1), N = number of objectives *)
Theorem C18_reward_range : forall best o1 o2 fnew finit,
  0 <= distance_reward best o1 o2 fnew finit <= 3 * (2 * qnat (length fnew) + 1).
Proof. exact distance_reward_bounds. Qed.
Theorem C18_reward_range_nonneg_fitness : forall best o1 o2 fnew finit,
  Forall (Qle 0) fnew -> Forall (Qle 0) finit -> (forall fb, best = Some fb -> Forall (Qle 0) fb) ->
  0 <= distance_reward best o1 o2 fnew finit <= 3 * (qnat (length fnew) + 1).
Proof. exact distance_reward_bounds_nonneg. Qed.
(* the documented range [0, 6] holds for a single non-negative objective only (missing for the full clause: N >= 2, negative fitness) *)
Theorem C18_reward_documented_range_partial : forall best o1 o2 a finit,
  0 <= a -> Forall (Qle 0) finit -> (forall fb, best = Some fb -> Forall (Qle 0) fb) ->
  0 <= distance_reward best o1 o2 [a] finit <= 6.
Proof. exact distance_reward_single_objective. Qed.
Theorem C18_reward_documented_range_refuted :
  distance_reward (Some [1; 1; 1]) Lt Lt [0; 1; 1] [1; 1; 1] == 12.
Proof. exact reward_above_6_three_objectives. Qed.
Theorem C18_reward_documented_range_opposite_sign_refuted :
  distance_reward (Some [1]) Lt Lt [-(1)] [1] == 9.
Proof. exact reward_above_6_opposite_sign. Qed.
Theorem C18_reward_multiplier_range : forall ratio median duration imp,
  1 / 2 < perf_multiplier ratio median duration imp <= 3.
Proof. exact perf_multiplier_bounds. Qed.
Theorem C18_reward_total_range : forall best finit fnew ratio median duration,
  0 <= step_reward best finit fnew ratio median duration <= 9 * (2 * qnat (length fnew) + 1).
Proof. exact step_reward_bounds. Qed.
(* over f64 finiteness fails for finite fitness near f64::MAX: |1.7e308 - (-1.7e308)| / 1.7e308 = +inf *)
Theorem C18_float_reward_finite_refuted :
  run_relvalueF 9218378953502702454 18441750990357478262 = 9218868437227405312%Z.
Proof. exact float_rel_value_overflows. Qed.

(* ---------------- (D) termination estimates ---------------- *)
Theorem C18_estimate_max_generation_unit : forall g l, 0 <= est_max_generation g l <= 1.
Proof. exact est_max_generation_unit. Qed.
Theorem C18_estimate_max_time_unit : forall e l, 0 <= e -> 0 <= l -> 0 <= est_max_time e l <= 1.
Proof. exact est_max_time_unit. Qed.
Theorem C18_estimate_composite_unit : forall es, (forall x, In x es -> 0 <= x <= 1) -> 0 <= est_composite es <= 1.
Proof. exact est_composite_unit. Qed.

(* ---------------- (E) min-variation criterion (sample interval) ---------------- *)
(* update_and_check fires iff the window is full (generation >= sample - 1) and no objective column of the updated window has cv > thr *)
Theorem C18_min_variation_fires_iff : forall sample thr st g f,
  snd (mv_update_and_check sample thr st g f) = true <->
  (sample - 1 <= g)%nat /\
  forall k, (k < width (mv_window sample st g f))%nat -> col_cv_gt (column k (mv_window sample st g f)) thr = false.
Proof. exact mv_fires_iff. Qed.
(* is_termination adds: a best solution exists, and the criterion is global or the phase is exploitation *)
Theorem C18_min_variation_is_termination_iff : forall sample thr glob st g ph best,
  snd (mv_is_termination sample thr glob st g ph best) = true <->
  exists f, best = Some f /\ (glob = true \/ ph = 2%nat) /\ snd (mv_update_and_check sample thr st g f) = true.
Proof. exact mv_is_termination_iff. Qed.
(* `not (cv > thr)` is `cv <= thr`: for a positive mean and thr >= 0, variance <= (thr * mean)^2, i.e. cv^2 <= thr^2 *)
Theorem C18_min_variation_cv_test_positive_mean : forall var mean thr, 0 < mean -> 0 <= thr ->
  (cv_gt var mean thr = false <-> var <= (thr * mean) * (thr * mean)).
Proof. exact cv_gt_false_pos. Qed.
Theorem C18_min_variation_cv_test_zero_mean : forall var mean thr, mean == 0 -> (cv_gt var mean thr = false <-> 0 <= thr).
Proof. exact cv_gt_zero_mean. Qed.
Theorem C18_min_variation_cv_test_negative_mean : forall var mean thr, mean < 0 -> 0 <= thr -> cv_gt var mean thr = false.
Proof. exact cv_gt_neg_mean. Qed.
Theorem C18_min_variation_variance_nonneg : forall l, 0 <= variance_q l.
Proof. exact variance_q_nonneg. Qed.

(* ---------------- non-vacuity ---------------- *)
Theorem C18_nonvacuous_slot : s_mu (slot_run 1 [1 # 2; 3 # 4]) == 5 # 8 /\ 10 < s_beta (slot_run 1 [1 # 2; 3 # 4]).
Proof. split; reflexivity. Qed.
Theorem C18_nonvacuous_min_variation :
  snd (mv_update_and_check 2 (1 # 8) (Some [[9]; [0]]) 1 [7]) = true /\
  snd (mv_update_and_check 2 (1 # 9) (Some [[9]; [0]]) 1 [7]) = false.
Proof. split; reflexivity. Qed.
Theorem C18_nonvacuous_float_twin :
  bits_of_f (f_mu (fslot_run (f_of_bits 4607182418800017408) [f_of_bits 4602678819172646912; f_of_bits 4604930618986332160]))
  = 4603804719079489536%Z.
Proof. exact float_twin_example. Qed.
