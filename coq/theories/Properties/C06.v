(* C06 — Insertion evaluation agrees with brute-force simulation. *)
From VRP Require Import Base.Tac Model.Core Spec.Feasible Model.Eval Proofs.CoreTimeP Proofs.CoreCapP Proofs.CoreEvalP Proofs.CoreMultiP
  Proofs.CoreScanP Proofs.CoreScanCompleteP Proofs.CoreRouteLevelP.

(* exhaustive best-insertion mode (LegSelection::Exhaustive, any objective estimate `est`, any route-level cost), closed tours,
   single-task jobs with one place and one time window, constrained by time windows / shift end / capacity:
   if the simulation finds SOME position feasible, the scan reports a place, and the place it reports is feasible.
   (For several places/windows and for the last leg of open tours the statement is false: see the three _refuted theorems.) *)
Theorem C06_scan_complete_closed : forall dur est v t j p w rc,
  s_places j = [p] -> p_tws p = [w] ->
  (forall a b, 0 <= dur a b) -> 0 <= p_svc p ->
  sched_ok dur t -> feasible dur v t = true ->
  Forall (fun a => a_tws a <= v_shift_end v) t -> fst w <= v_shift_end v ->
  (forall d, d_change (a_dem (hd d t)) = 0) -> 0 <= start_delivery t -> simple_demand (s_dem j) ->
  forall k, (2 <= length t)%nat -> (k < length t - 1)%nat ->
  feasible dur v (insert_after t k (target t j p w k)) = true ->
  let r := analyze dur est v true t j PAny rc in
  sc_place r <> None /\
  (forall pl, sc_place r = Some pl ->
     feasible dur v (insert_after t (sc_index r) (target t j p w (sc_index r))) = true /\ pl = pdata t j p w (sc_index r)).
Proof. exact scan_complete_closed. Qed.

(* the same for the whole evaluation of a single job (route-level pre-checks of both features + scan), static demand
   (a delivery amount, a pickup amount, both - as merged jobs have - or none): exhaustive mode reports failure only when the
   simulation finds no feasible position, and the position it returns is a feasible one *)
Theorem C06_eval_single_complete_closed : forall dur est rc v shift_start t j p w k,
  s_places j = [p] -> p_tws p = [w] ->
  (forall a b, 0 <= dur a b) -> 0 <= p_svc p -> 0 <= v_cap v ->
  sched_ok dur t -> feasible dur v t = true ->
  Forall (fun a => a_tws a <= v_shift_end v) t -> fst w <= v_shift_end v -> shift_start <= snd w ->
  (forall d, d_change (a_dem (hd d t)) = 0) -> 0 <= start_delivery t -> static_demand (s_dem j) ->
  (2 <= length t)%nat -> (k < length t - 1)%nat ->
  feasible dur v (insert_after t k (target t j p w k)) = true ->
  exists idx pl c, eval_single_gen dur est rc v shift_start true t j PAny = ESuccess idx pl c /\
                   feasible dur v (insert_after t idx (target t j p w idx)) = true.
Proof. exact eval_single_complete_closed. Qed.

(* the cached latest-arrival value is exact: a feasible tail is feasible for another way of reaching it
   iff the arrival at its head is not later than `latest_of` *)
Theorem C06_latest_arrival_exact : forall dur a r loc0 dep0,
  sim_time dur loc0 dep0 (a :: r) = true ->
  forall loc dep, sim_time dur loc dep (a :: r) = true <-> dep + dur loc (a_loc a) <= latest_of dur (a :: r).
Proof. exact latest_exact. Qed.

(* soundness: whenever the evaluator accepts a position, the simulation finds the resulting tour feasible
   (any matrix, any windows, open or closed, static and dynamic demand mixed in the tour) *)
Theorem C06_eval_sound : forall dur v t idx target,
  (idx < length t)%nat ->
  sched_ok dur t ->
  d_change (a_dem (hd target t)) = 0 ->
  simple_demand (a_dem target) ->
  feasible dur v t = true ->
  eval_activity dur v t idx target = None ->
  feasible dur v (insert_after t idx target) = true.
Proof. exact eval_activity_sound. Qed.

(* completeness at inner legs for one place / one window: a position the simulation finds feasible is never rejected *)
Theorem C06_eval_complete_inner : forall dur v t idx target,
  (S idx < length t)%nat ->
  sched_ok dur t ->
  (forall a b, 0 <= dur a b) -> 0 <= a_svc target ->
  Forall (fun a => a_tws a <= v_shift_end v) t -> a_tws target <= v_shift_end v ->
  d_change (a_dem (hd target t)) = 0 -> 0 <= start_delivery t ->
  simple_demand (a_dem target) ->
  feasible dur v t = true ->
  feasible dur v (insert_after t idx target) = true ->
  eval_activity dur v t idx target = None.
Proof. exact eval_activity_complete_inner. Qed.

(* multi-task (pickup-and-delivery) jobs: the evaluator's answer is a list of (activity, index) steps; every list of steps
   that passes the modelled per-step evaluation on the shadow tour gives a tour the simulation finds feasible.
   (The greedy search that produces the steps is not modelled: the real result is checked as a certificate on every run.) *)
Theorem C06_multi_certificate_sound : forall w steps t t',
  t <> [] ->
  sched_ok (wdur w) t ->
  (forall d, d_change (a_dem (hd d t)) = 0) ->
  Forall (fun s => simple_demand (a_dem (snd s))) steps ->
  feasible (wdur w) (w_veh w) t = true ->
  cert_steps w t steps = (true, t') ->
  feasible (wdur w) (w_veh w) t' = true.
Proof. exact cert_steps_sound. Qed.

(* ---- the full completeness statement of the exhaustive scan is FALSE of the faithful model: three witnesses ---- *)
Definition w3 (closed : bool) (shift_end : Z) : world :=
  mkWorld 3 [0;10;10; 10;0;10; 10;10;0] [0;10;10; 10;0;10; 10;10;0] (mkVeh shift_end 10 0 1 1 0 0) 0
          (if closed then Some 0 else None) 0.
Definition scan_fails_but_feasible (w : world) (j : single) : Prop :=
  let t := build_tour w [] in
  feasible (wdur w) (w_veh w) t = true /\
  (exists alt, In alt (alternatives w t j) /\ nth 4 alt 0 = 1) /\
  exists code st, eval_single_job (wdur w) (wdist w) (w_veh w) (w_shift_start w) (closed w) t j PAny = EFailure code st.

(* F1: an alternative whose window starts after the shift end stops the scan before a feasible alternative is tried *)
Theorem C06_scan_complete_refuted_after_shift_end :
  scan_fails_but_feasible (w3 true 100) (mkSingle 90 [mkPlace (Some 1) 0 [(200, 300); (0, 50)]] (mkDemand 0 0 1 0)).
Proof. unfold scan_fails_but_feasible. vm_compute. split; [reflexivity|]. split; [|eauto]. eexists. split; [right; left; reflexivity|reflexivity]. Qed.

(* F2: last leg of an open tour, positive service time: arrival 10 <= window end 12 but the test wants 10 <= 12 - 5 *)
Theorem C06_scan_complete_refuted_open_end_service :
  scan_fails_but_feasible (w3 false INF) (mkSingle 90 [mkPlace (Some 1) 5 [(0, 12)]] (mkDemand 0 0 1 0)).
Proof. unfold scan_fails_but_feasible. vm_compute. split; [reflexivity|]. split; [|eauto]. eexists. split; [left; reflexivity|reflexivity]. Qed.

(* F3: last leg of an open tour: an unreachable first place stops the scan before the feasible second place *)
Theorem C06_scan_complete_refuted_open_end_alternative :
  scan_fails_but_feasible (w3 false INF) (mkSingle 90 [mkPlace (Some 1) 0 [(0, 5)]; mkPlace (Some 2) 0 [(0, 50)]] (mkDemand 0 0 1 0)).
Proof. unfold scan_fails_but_feasible. vm_compute. split; [reflexivity|]. split; [|eauto]. eexists. split; [right; left; reflexivity|reflexivity]. Qed.

(* non-vacuity: a feasible, consistently scheduled tour with an accepted inner position exists *)
Theorem C06_nonvacuous :
  let w := w3 true 100 in
  let t := build_tour w [(1, 1, 0, 0, 50, mkDemand 0 0 1 0)] in
  let x := mkAct 2 2 0 0 60 (mkDemand 0 0 1 0) 0 0 in
  feasible (wdur w) (w_veh w) t = true /\ eval_activity (wdur w) (w_veh w) t 1 x = None /\ (2 < length t)%nat.
Proof. vm_compute. repeat split; reflexivity || lia. Qed.

(* ===========================================================================================================================
   TOUR LIMITS (max distance / max duration), TOUR SIZE, SKILLS and STRICT LOCKS in the goal: Model/Limits.v (tour_limits.rs,
   travel_info.rs, skills.rs, locked_jobs.rs, the route-level gate of eval_job_insertion_in_route), the extended step-by-step
   simulation Spec/FeasibleX.v, proofs in Proofs/LimitsP.v.  Tied to the code by the sub-stream `c06_limits`. *)
From VRP Require Import Spec.FeasibleX Model.Limits Proofs.LimitsP.

(* the boolean checker of the extended simulation decides the declarative notion *)
Theorem C06_feasible_x_checker_sound_complete : forall dur dist v lim vs req t,
  feasible_x_b dur dist v lim vs req t = true <-> FeasibleX dur dist v lim vs req t.
Proof. exact feasible_x_b_iff. Qed.

(* what the travel limits read - the totals cached by update_statistics - are the distance / duration of the simulation *)
Theorem C06_cached_totals_are_simulated_totals : forall dur dist t,
  total_distance dist t = tour_distance dist t /\ (sched_ok dur t -> total_duration t = tour_duration dur t).
Proof. exact (fun dur dist t => conj (total_distance_spec dist t) (total_duration_spec dur t)). Qed.

(* a delay at the start of a walk reaches its end at most 1:1 and never as a gain (ANY matrix): why the O(1) duration test
   - "old duration + shift of the next activity's departure" - can only over-estimate *)
Theorem C06_delay_propagation_nonexpansive : forall dur acts loc d d', d <= d' ->
  sim_finish dur loc d acts <= sim_finish dur loc d' acts <= sim_finish dur loc d acts + (d' - d).
Proof. exact sim_finish_mono. Qed.

(* SOUNDNESS, one activity: the route-level tests of the job (skills, tour size) and the activity-level tests (time windows,
   capacity, travel limits with the cached totals) accept  =>  the tour with the activity is feasible for the extended simulation:
   time windows, shift end, capacity, sum of legs <= max distance, (end of the last activity - departure) <= max duration,
   job activities <= tour size, every job's skill requirement met.  Any matrix (no triangle inequality), open or closed tour. *)
Theorem C06_limits_eval_sound : forall dur dist g v req closed t idx x js,
  (idx < length t)%nat -> sched_ok dur t -> tour_shape closed t ->
  d_change (a_dem (hd x t)) = 0 -> simple_demand (a_dem x) -> 0 <= a_job x ->
  req (a_job x) = req_of js ->
  FeasibleX dur dist v (g_lim g) (olist (g_vskills g)) req t ->
  eval_route_skills (g_vskills g) js = None ->
  eval_route_size (g_lim g) closed t 1 = None ->
  eval_activity_x dur dist g v t idx x = None ->
  FeasibleX dur dist v (g_lim g) (olist (g_vskills g)) req (insert_after t idx x).
Proof. exact eval_x_sound. Qed.

(* SOUNDNESS of the whole evaluation of a single job (route-level gate of every feature, then the scan over legs x places x
   windows with every activity-level test; position Any / Concrete / Last): a success names a leg of the tour and the tour with
   the job at the answered place and window is feasible for the extended simulation *)
Theorem C06_limits_eval_single_sound : forall dur dist g v shift_start closed req t j js pos idx pl c,
  goodx dur dist g v closed req t -> simple_demand (s_dem j) -> 0 <= s_id j -> req (s_id j) = req_of js ->
  eval_single_x dur dist g v shift_start closed t j js pos = ESuccess idx pl c ->
  (idx < leg_count closed t)%nat /\
  FeasibleX dur dist v (g_lim g) (olist (g_vskills g)) req (insert_after t idx (place_act j pl)).
Proof. exact eval_single_x_sound. Qed.

(* the scan used there is Core's scan with the activity-level evaluation as a parameter *)
Theorem C06_parametrised_scan_is_core_scan : forall dur est v closed t j pos rc,
  analyze_g (eval_activity dur v) est closed t j pos rc = analyze dur est v closed t j pos rc.
Proof. exact analyze_g_core. Qed.

(* HISTORY: any sequence of evaluations whose successes are really applied (insert + schedule refresh) keeps the tour well
   shaped, consistently scheduled and feasible for the extended simulation *)
Theorem C06_limits_history_feasible : forall dur dist g v shift_start closed req t t',
  ins_history_x dur dist g v shift_start closed req t t' -> goodx dur dist g v closed req t -> goodx dur dist g v closed req t'.
Proof. exact construction_good_x. Qed.

(* EXACTNESS of the distance test: accepted iff the new sum of legs is within the limit *)
Theorem C06_distance_limit_exact : forall dur dist lim L A p x B,
  l_dist lim = Some L -> l_dur lim = None ->
  (eval_act_limits dur dist lim (cached_totals dist (A ++ p :: B)) p x (hd_error B) = None
   <-> tour_distance dist (A ++ p :: x :: B) <= L).
Proof. exact act_limits_distance_exact. Qed.

(* EXACTNESS of the duration test where it is exact: on the last leg of an open tour, and whenever the insertion does not let the
   next activity leave earlier (always so for metric durations) and nothing behind the next activity waits *)
Theorem C06_duration_limit_exact_without_later_waiting : forall dur dist lim L A p x B,
  sched_ok dur (A ++ p :: B) -> l_dist lim = None -> l_dur lim = Some L ->
  match B with
  | [] => True
  | n :: r => dep_after dur p (a_dep p) n <= dep_after dur x (dep_after dur p (a_dep p) x) n /\
              no_wait_from dur (a_loc n) (dep_after dur p (a_dep p) n) r
  end ->
  (eval_act_limits dur dist lim (cached_totals dist (A ++ p :: B)) p x (hd_error B) = None
   <-> tour_duration dur (A ++ p :: x :: B) <= L).
Proof. exact act_limits_duration_exact. Qed.

(* ... and a witness that in general it is ONLY conservative: a position whose real tour duration stays within the limit is
   rejected, because a wait later in the tour absorbs the delay the estimate counts in full (replayed on the real code:
   tools/props/c06_limits.py corpus case 1; not a violation of the property, whose completeness clause is about time windows,
   shift times and capacity only) *)
Theorem C06_duration_limit_conservative_witness :
  let w := w4 (Some 0) in
  let g := mkXGoal (mkLim None (Some 115) None) None [] [] in
  let t := build_tour w [(1, 1, 0, 0, 1000, dzero); (2, 2, 0, 100, 1000, dzero)] in
  let x := mkAct 9 3 0 0 1000 dzero 0 0 in
  goodx (wdur w) (wdist w) g (w_veh w) true (fun _ => no_req) t /\
  eval_activity_x (wdur w) (wdist w) g (w_veh w) t 0 x = Some (CODE_DUR, false) /\
  FeasibleX (wdur w) (wdist w) (w_veh w) (g_lim g) [] (fun _ => no_req) (insert_after t 0 x) /\
  tour_duration (wdur w) t = 110 /\ tour_duration (wdur w) (insert_after t 0 x) = 110.
Proof. exact duration_limit_conservative_witness. Qed.

(* the soundness theorems need the cached totals: on a route without tour state (`unwrap_or(0.)`; never the case for routes of
   the registry, which are initialised by accept_route_state) the length of the empty closed tour start -> end is forgotten *)
Theorem C06_limits_need_cached_totals_witness :
  let w := w4 (Some 1) in
  let lim := mkLim (Some 15) None None in
  let t := build_tour w [] in
  let x := mkAct 9 2 0 0 1000 dzero 0 0 in
  eval_act_limits (wdur w) (wdist w) lim None (nth 0 t x) x (hd_error (skipn 1 t)) = None /\
  eval_act_limits (wdur w) (wdist w) lim (cached_totals (wdist w) t) (nth 0 t x) x (hd_error (skipn 1 t)) = Some (CODE_DIST, false) /\
  tour_distance (wdist w) (insert_after t 0 x) = 20.
Proof. exact limits_need_cached_totals_witness. Qed.

(* EXACTNESS of the tour-size test *)
Theorem C06_tour_size_exact : forall lim closed t idx x L,
  tour_shape closed t -> is_job x = true -> l_size lim = Some L ->
  (eval_route_size lim closed t 1 = None <-> (job_count (insert_after t idx x) <= L)%nat).
Proof. exact route_size_exact. Qed.

(* skills: sound for every record; EXACT for every record JobSkills::new builds (it never stores an empty set) *)
Theorem C06_skills_sound : forall vs js, eval_route_skills vs js = None -> SkillsSat (olist vs) (req_of js).
Proof. exact route_skills_sound. Qed.

Theorem C06_skills_exact : forall vs a o n,
  eval_route_skills vs (Some (js_new a o n)) = None <-> SkillsSat (olist vs) (req_of (Some (js_new a o n))).
Proof. exact (fun vs a o n => route_skills_exact vs (js_new a o n) (or_introl (js_new_normal a o n))). Qed.

(* an EMPTY oneOf set (the fields of JobSkills are public): rejected by a vehicle that has a skills dimension although nothing is
   required, accepted by a vehicle without one (replayed on the real code: corpus cases 6 and 7) *)
Theorem C06_skills_empty_one_of_witness :
  let js := Some (mkJS None (Some []) None) in
  eval_route_skills (Some [1; 2]) js = Some (CODE_SKILLS, true) /\ SkillsSat [1; 2] (req_of js) /\ eval_route_skills None js = None.
Proof. exact skills_empty_one_of_witness. Qed.

(* strict locks: an accepted insertion of a job that is not part of the rule leaves the locked jobs one contiguous block in the
   listed order, anchored where the rule says (right after the departure / right before the arrival / both) *)
Theorem C06_strict_lock_insertion_sound : forall dur dist g v closed t idx x,
  tour_shape closed t -> (idx < leg_count closed t)%nat -> 0 <= a_job x ->
  eval_activity_x dur dist g v t idx x = None ->
  forall r, In r (g_rules g) -> ~ In (a_job x) (lr_jobs r) -> LockOk r t -> LockOk r (insert_after t idx x).
Proof. exact eval_x_lock_sound. Qed.

(* non-vacuity: a vehicle with all three limits, skills and a strict departure lock; a feasible tour; a history of two accepted
   evaluations, the second one exactly reaching the distance limit 40 and the size limit 3 *)
Theorem C06_limits_nonvacuous :
  let w := w4 (Some 0) in
  goodx (wdur w) (wdist w) nv_goal (w_veh w) true nv_req nv_t0 /\ locks_ok nv_goal nv_t0 /\
  exists t2, ins_history_xl (wdur w) (wdist w) nv_goal (w_veh w) 0 true nv_req nv_t0 t2 /\
             tour_distance (wdist w) t2 = 40 /\ job_count t2 = 3%nat /\ served t2 = [1; 9; 8].
Proof. exact limits_nonvacuous. Qed.

(* =============================================================================================================================
   MULTI-TRIP (reload intervals) AND MULTI-DIMENSIONAL CAPACITY, step level (sub-stream c06_multitrip).
   Model: Model/CapacityMT.v (route_intervals.rs, multi_trip.rs, reloads.rs, capacity.rs, load.rs; generic in the load type as the
   code is: `load_ops`, instances SingleOps = SingleDimLoad, MultiOps = MultiDimLoad); lemmas: Proofs/CapacityMTP.v.
   The capacity statement is the one of Spec/Intervals.v (`IvlOk`): per reload interval, static deliveries on board from the
   interval start, static pickups until its end, shipments carried across; one statement per dimension (`proj_tour O get`: the
   tour seen through dimension `get`, marker activities become the specification's reload activities).
   (The imports are local to this section.) *)
From VRP Require Spec.Intervals Proofs.IntervalsP Model.CapacityMT Proofs.CapacityMTP.
Section C06_multitrip.
Import Spec.Intervals Proofs.IntervalsP Model.CapacityMT Proofs.CapacityMTP.

(* ---- load types ---- *)
(* MultiDimLoad::can_fit is the conjunction of the one-dimensional tests over all LOAD_DIMENSION_SIZE = 8 array slots ... *)
Theorem C06_md_can_fit_pointwise : forall x y, ml_wf x -> ml_wf y ->
  (ml_can_fit x y = true <-> forall d, (d < LOAD_DIMENSION_SIZE)%nat -> ml_get y d <= ml_get x d).
Proof. exact ml_can_fit_iff. Qed.

(* ... so for vectors of different lengths (MultiDimLoad::new pads with zeros) a missing dimension counts as 0 on either side:
   an amount in a dimension the capacity vector does not have never fits *)
Theorem C06_md_can_fit_lengths : forall a b x y, ml_new a = Some x -> ml_new b = Some y ->
  (ml_can_fit x y = true <-> forall d, nth d b 0 <= nth d a 0).
Proof. exact ml_can_fit_new. Qed.

(* partial_cmp (used by is_new_interval_needed): Some c iff there is at least one dimension and EVERY dimension compares as c;
   two loads without dimensions are incomparable (not even equal); a load without dimensions counts as "not empty" *)
Theorem C06_md_partial_cmp : forall x y c,
  (ml_partial_cmp x y = Some c <->
   (0 < Nat.max (ml_size x) (ml_size y))%nat /\
   forall i, (i < Nat.max (ml_size x) (ml_size y))%nat -> (ml_get x i ?= ml_get y i) = c)
  /\ (ml_size x = 0%nat -> ml_size y = 0%nat -> ml_partial_cmp x y = None)
  /\ ml_is_not_empty ml_default = true.
Proof. exact (fun x y c => conj (ml_partial_cmp_some x y c) (conj (ml_partial_cmp_empty x y) ml_default_is_not_empty)). Qed.

(* both load types are seen dimension by dimension through a `load_hom`: add / sub / max_load act pointwise, can_fit implies <=,
   a non-zero component makes the load "not empty" *)
Theorem C06_mt_load_views :
  load_hom SingleOps get_single (fun _ => True) /\
  forall d, (d < LOAD_DIMENSION_SIZE)%nat -> load_hom MultiOps (get_dim d) ml_wf.
Proof. exact (conj hom_single hom_multi). Qed.

(* ---- intervals and cached states ---- *)
(* get_route_intervals = the index ranges of the tour cut in front of every marker activity *)
Theorem C06_mt_route_intervals : forall O a r, is_marker_act O a = false ->
  get_route_intervals O (a :: r) = bounds 0 (cutb (is_marker_act O) (a :: r)).
Proof. exact route_intervals_bounds. Qed.

(* the cached states of recalculate_states, any number of intervals, any load type, seen through one dimension: position idx lies
   in an interval A ++ p :: B (p = the activity at idx) that starts with L0 on board = what is carried in from the intervals before
   (`carry_after`: the threading of Spec.Intervals.IvlOk) + the interval's static deliveries; then
   current = the running load after p; max-past = the largest running load of the interval up to p (and 0);
   max-future = the largest running load of the interval from p on *)
Theorem C06_mt_states_exact : forall O get wf, load_hom O get wf -> forall t cap idx,
  mt_tour_ok O t -> tour_wf O wf t -> (idx < length t)%nat ->
  let st := gr_st (accept_route_state O true cap t) in
  exists S1 A p B S2,
    ivls (proj_tour O get t) = S1 ++ (A ++ p :: B) :: S2 /\ (length (concat S1) + length A)%nat = idx /\
    let L0 := carry_after 0 S1 + total_static_delivery (A ++ p :: B) in
    let cur := get (st_at O (gs_cur st) idx) in
    let past := get (st_at O (gs_past st) idx) in
    let fut := get (st_at O (gs_fut st) idx) in
    cur = load_after L0 (A ++ [p]) /\
    past = lmax 0 (currents L0 (A ++ [p])) /\
    (forall y, In y (cur :: currents cur B) -> y <= fut) /\ In fut (cur :: currents cur B).
Proof. exact mt_states_exact_dim. Qed.

(* one interval, SingleDimLoad: they ARE the state vectors of Model/Core.v (the one-interval lemmas of C06_eval_sound) *)
Theorem C06_mt_states_single_interval : forall t cap,
  mt_tour_ok SingleOps t -> forallb (fun a => negb (is_marker_act SingleOps a)) t = true ->
  let st := gr_st (accept_route_state SingleOps true cap t) in
  let pt := proj_tour SingleOps get_single t in
  gs_cur st = cur_states pt /\ gs_past st = past_states pt /\ gs_fut st = fut_states pt.
Proof. exact mt_states_single_interval. Qed.

(* ---- soundness of the insertion test ---- *)
(* SingleDimLoad: an activity (static delivery / pickup / both, or the dynamic pickup / delivery part of a shipment) accepted by
   the capacity constraint at position idx of a tour whose every interval satisfies the capacity statement leaves a tour whose
   every interval satisfies it - any number of intervals.  A target that is not part of a multi job must not carry a dynamic
   pickup: see C06_mt_standalone_dynamic_pickup_refuted *)
Theorem C06_mt_insertion_sound_single : forall t cap idx x,
  mt_tour_ok SingleOps t ->
  IvlOk cap 0 (ivls (proj_tour SingleOps get_single t)) ->
  (idx < length t)%nat -> is_marker_act SingleOps x = false ->
  simple_demand (a_dem (proj_act SingleOps get_single x)) ->
  (ga_multi x = false -> d_pd (a_dem (proj_act SingleOps get_single x)) = 0) ->
  mt_evaluate_activity SingleOps PolicyLast (accept_route_state SingleOps true (Some cap) t) idx x = None ->
  IvlOk cap 0 (ivls (proj_tour SingleOps get_single (ginsert_after t idx x))).
Proof. exact mt_insertion_sound_single. Qed.

(* MultiDimLoad, every dimension count: the same in each of the 8 dimensions (pointwise) *)
Theorem C06_mt_insertion_sound_multi : forall t cap idx x,
  mt_tour_ok MultiOps t -> ml_tour_wf t -> act_wf MultiOps ml_wf x -> ml_wf cap ->
  (idx < length t)%nat -> is_marker_act MultiOps x = false ->
  mt_evaluate_activity MultiOps PolicyLast (accept_route_state MultiOps true (Some cap) t) idx x = None ->
  forall d, (d < LOAD_DIMENSION_SIZE)%nat ->
    IvlOk (ml_get cap d) 0 (ivls (proj_tour MultiOps (get_dim d) t)) ->
    simple_demand (a_dem (proj_act MultiOps (get_dim d) x)) ->
    (ga_multi x = false -> d_pd (a_dem (proj_act MultiOps (get_dim d) x)) = 0) ->
    IvlOk (ml_get cap d) 0 (ivls (proj_tour MultiOps (get_dim d) (ginsert_after t idx x))).
Proof. exact mt_insertion_sound_multi. Qed.

(* finding C06-F4: without that hypothesis the statement is false of the code - a stand-alone job with dynamic pickup 1 is accepted
   in front of the reload (capacity 4; tour: delivery 1, RELOAD, delivery 4) and the second interval then starts with 5 on board;
   the same demand as part of a multi job is rejected there *)
Theorem C06_mt_standalone_dynamic_pickup_refuted :
  exists t cap idx x,
    mt_tour_ok SingleOps t /\ IvlOk cap 0 (ivls (proj_tour SingleOps get_single t)) /\ (idx < length t)%nat /\
    is_marker_act SingleOps x = false /\ simple_demand (a_dem (proj_act SingleOps get_single x)) /\ ga_multi x = false /\
    mt_evaluate_activity SingleOps PolicyLast (accept_route_state SingleOps true (Some cap) t) idx x = None /\
    ~ IvlOk cap 0 (ivls (proj_tour SingleOps get_single (ginsert_after t idx x))) /\
    ivl_loads_of (proj_tour SingleOps get_single (ginsert_after t idx x)) = [1; 0; 1; 5; 1; 1] /\
    mt_evaluate_activity SingleOps PolicyLast (accept_route_state SingleOps true (Some cap) t) idx (ex_f4_job true) = Some false.
Proof. exact standalone_dynamic_pickup_refuted. Qed.

(* ---- exactness ---- *)
(* static demand of a single job (a delivery amount, a pickup amount, or both), SingleDimLoad, running loads never negative:
   accepted IFF every interval of the tour after the insertion satisfies the capacity statement (only the receiving one changes) *)
Theorem C06_mt_static_exact : forall t cap idx x d,
  mt_tour_ok SingleOps t ->
  IvlOk cap 0 (ivls (proj_tour SingleOps get_single t)) ->
  (idx < length t)%nat -> is_marker_act SingleOps x = false -> ga_multi x = false ->
  get_demand SingleOps x = Some d -> static_nonneg (proj_demand SingleOps get_single (Some d)) ->
  (forall y, In y (gs_cur (gr_st (accept_route_state SingleOps true (Some cap) t))) -> 0 <= y) ->
  (mt_evaluate_activity SingleOps PolicyLast (accept_route_state SingleOps true (Some cap) t) idx x = None
   <-> IvlOk cap 0 (ivls (proj_tour SingleOps get_single (ginsert_after t idx x)))).
Proof. exact mt_static_exact. Qed.

(* ---- the d-dimensional test is the conjunction of d one-dimensional tests ---- *)
(* SingleDimLoad: has_demand_violation = None says exactly that the three tests pass (`AccZ`) ... *)
Theorem C06_hdv_single_iff : forall (r : groute SingleOps) pivot d st cap, gr_cap r = Some cap ->
  (has_demand_violation SingleOps r pivot (Some d) st = None <->
   AccZ cap (nth pivot (gs_past (gr_st r)) 0) (nth pivot (gs_fut (gr_st r)) 0) (nth pivot (gs_cur (gr_st r)) 0)
        (proj_demand SingleOps get_single (Some d))).
Proof. exact hdv_single_iff. Qed.

(* ... MultiDimLoad: None iff they pass in each of the 8 dimensions - given that the cached states are within the capacity (as they
   are on a tour that satisfies the capacity statement): a dimension whose amount is 0 is still compared, because is_not_empty
   looks at the whole vector *)
Theorem C06_md_violation_pointwise : forall (r : groute MultiOps) pivot d st cap,
  gr_cap r = Some cap -> ml_wf cap ->
  Forall ml_wf (gs_cur (gr_st r)) -> Forall ml_wf (gs_past (gr_st r)) -> Forall ml_wf (gs_fut (gr_st r)) ->
  dem_wf MultiOps ml_wf (Some d) ->
  (forall k, (k < LOAD_DIMENSION_SIZE)%nat ->
     ml_get (st_at MultiOps (gs_past (gr_st r)) pivot) k <= ml_get cap k /\
     ml_get (st_at MultiOps (gs_fut (gr_st r)) pivot) k <= ml_get cap k /\
     ml_get (st_at MultiOps (gs_cur (gr_st r)) pivot) k <= ml_get cap k) ->
  (has_demand_violation MultiOps r pivot (Some d) st = None <->
   forall k, (k < LOAD_DIMENSION_SIZE)%nat ->
     AccZ (ml_get cap k) (ml_get (st_at MultiOps (gs_past (gr_st r)) pivot) k) (ml_get (st_at MultiOps (gs_fut (gr_st r)) pivot) k)
          (ml_get (st_at MultiOps (gs_cur (gr_st r)) pivot) k) (proj_demand MultiOps (get_dim k) (Some d))).
Proof. exact md_violation_pointwise. Qed.

(* ---- reload marker insertion ---- *)
(* what the code checks for a marker activity (MarkerInsertionPolicy::Last; a marker job has no demand, so the capacity part is
   vacuous): the previous activity is a job activity (not the vehicle start) and the next one, if any, is the vehicle end;
   in particular a reload directly behind another reload at the tour end IS accepted *)
Theorem C06_mt_marker_accept_iff : forall O (r : groute O) idx m,
  is_marker_act O m = true -> ga_dem m = None ->
  (mt_evaluate_activity O PolicyLast r idx m = None <->
   (exists p, nth_error (gr_acts r) idx = Some p /\ is_terminal (ga_core p) = false) /\
   (forall n, nth_error (gr_acts r) (S idx) = Some n -> is_terminal (ga_core n) = true)).
Proof. exact mt_marker_accept_iff. Qed.

(* a reload marker without demand inserted at ANY position (accepted or not) splits its interval into two that satisfy the
   capacity statement, every other interval keeps its loads: a shipment picked up before the reload stays on board, but it was on
   board there before as well; static pickups of the left part are unloaded, static deliveries of the right part load later.
   Needs non-negative static amounts. *)
Theorem C06_mt_marker_insertion_sound : forall O get wf, load_hom O get wf -> forall t cap idx m,
  IvlOk (get cap) 0 (ivls (proj_tour O get t)) -> (idx < length t)%nat ->
  is_marker_act O m = true -> ga_dem m = None -> static_amounts_nonneg (proj_tour O get t) ->
  IvlOk (get cap) 0 (ivls (proj_tour O get (ginsert_after t idx m))).
Proof. exact (fun O get wf _ => mt_marker_insertion_sound_dim O get). Qed.

(* ---- non-vacuity: two intervals, two capacity dimensions (10, 5), a shipment (3, 1) carried across the reload ---- *)
Theorem C06_mt_nonvacuous :
  mt_tour_ok MultiOps ex_mt_tour /\ ml_tour_wf ex_mt_tour /\ ml_wf ex_mt_cap /\
  get_route_intervals MultiOps ex_mt_tour = [(0, 2); (3, 6)]%nat /\
  (forall d, (d < LOAD_DIMENSION_SIZE)%nat -> IvlOk (ml_get ex_mt_cap d) 0 (ivls (proj_tour MultiOps (get_dim d) ex_mt_tour))) /\
  ivl_loads_of (proj_tour MultiOps (get_dim 0) ex_mt_tour) = [4; 0; 3; 8; 3; 0; 0] /\
  mt_evaluate_activity MultiOps PolicyLast (accept_route_state MultiOps true (Some ex_mt_cap) ex_mt_tour) 1 (ex_mt_pick [2; 1]) = None /\
  ivl_loads_of (proj_tour MultiOps (get_dim 0) (ginsert_after ex_mt_tour 1 (ex_mt_pick [2; 1]))) = [4; 0; 2; 5; 10; 5; 2; 2] /\
  mt_evaluate_activity MultiOps PolicyLast (accept_route_state MultiOps true (Some ex_mt_cap) ex_mt_tour) 1 (ex_mt_pick [3; 1]) = Some false /\
  ivl_load_feasible 10 (proj_tour MultiOps (get_dim 0) (ginsert_after ex_mt_tour 1 (ex_mt_pick [3; 1]))) = false.
Proof. exact ex_mt_facts. Qed.

(* the plain capacity feature with MultiDimLoad (RouteIntervals::Single, a tour without marker activities): an accepted insertion keeps
   the load within the capacity at every point of the tour in each dimension - the single-interval simulation
   Spec.Feasible.load_feasible of C06_eval_sound, now for every dimension count *)
Theorem C06_md_insertion_sound_no_reloads : forall t cap idx x,
  mt_tour_ok MultiOps t -> ml_tour_wf t -> act_wf MultiOps ml_wf x -> ml_wf cap ->
  forallb (fun b => negb (is_marker_act MultiOps b)) t = true ->
  (idx < length t)%nat -> is_marker_act MultiOps x = false ->
  mt_evaluate_activity MultiOps PolicyLast (accept_route_state MultiOps false (Some cap) t) idx x = None ->
  forall d, (d < LOAD_DIMENSION_SIZE)%nat ->
    load_feasible (ml_get cap d) (proj_tour MultiOps (get_dim d) t) = true ->
    simple_demand (a_dem (proj_act MultiOps (get_dim d) x)) ->
    (ga_multi x = false -> d_pd (a_dem (proj_act MultiOps (get_dim d) x)) = 0) ->
    load_feasible (ml_get cap d) (proj_tour MultiOps (get_dim d) (ginsert_after t idx x)) = true.
Proof. exact md_insertion_sound_no_reloads. Qed.

End C06_multitrip.

(* =============================================================================================================================
   MULTI-TASK JOBS: the greedy sequential search of eval_multi as a PROGRAM (sub-stream c06_multi).
   Model: Model/ObjectivesX.v (m_services / m_loop / m_promote / ganalyze: the search modelled for C20's quote, reused) +
   Model/MultiSearch.v (every InsertionPosition: the start index; the route-level gate of a Multi job; `eval_multi_job`);
   lemmas: Proofs/MultiSearchP.v.  The real result is no longer only a certificate: the search that produces it is in the model
   and is compared with the real eval_job_insertion_in_route (verdict, cost, the (index, place) list) on every run. *)
From VRP Require Import Model.Objectives Model.ObjectivesX Model.MultiSearch Proofs.ObjectivesXP Proofs.MultiSearchP.
Require Import Coq.Sorting.Sorted.

(* WHAT the search returns (any tour, any job, any matrix, any position): the activities follow one of the declared permutations;
   each is a declared place / window of its sub-job, accepted by the constraint evaluation on the shadow tour that already holds
   the earlier ones, at a leg >= the start index and STRICTLY behind the leg of the activity before it; the cost is the
   route-level estimate + the sum of the activity-level estimates on the shadow tours *)
Theorem C06_multi_search_result_shape : forall w t subs perms pos kind cost steps,
  eval_multi_job w t subs perms pos kind = GSuccess cost steps ->
  (exists sv, In sv (resolve_perms subs perms) /\
     steps_incr (wdur w) (eval_activity_multi w) (closed w) (insertion_start (closed w) t pos) t sv steps) /\
  cost = multi_rc w t kind + multi_sum (wdur w) (multi_est w kind) t (map step_of steps).
Proof. exact eval_multi_job_spec. Qed.

(* SOUNDNESS of the search as a program: whatever it returns as Success - for ALL tours, jobs (any number of sub-jobs, places,
   windows, permutations), matrices, positions Any / Concrete / Last, both objective kinds - carrying out all its activities
   (insert_at(index + 1) + schedule refresh, one after another) gives a tour the independent simulation finds feasible: every time
   window, the shift end, and the load profile with the shipment picked up and delivered (dynamic demand) next to the static
   demand of the tour *)
Theorem C06_multi_search_sound : forall w t subs perms pos kind cost steps,
  t <> [] -> sched_ok (wdur w) t -> (forall d, d_change (a_dem (hd d t)) = 0) ->
  Forall (fun s => simple_demand (s_dem s)) subs ->
  feasible (wdur w) (w_veh w) t = true ->
  eval_multi_job w t subs perms pos kind = GSuccess cost steps ->
  feasible (wdur w) (w_veh w) (apply_steps (wdur w) t (map step_of steps)) = true.
Proof. exact eval_multi_job_sound. Qed.

(* WHERE the activities are in the tour with the placement carried out: the job ids follow a declared permutation, the returned
   indices are strictly increasing and not below the start index, the tour grows by exactly the returned activities, the part up
   to the start index is untouched, and the k-th returned activity sits at position (its index + 1) - so the sub-jobs are served
   in the order of the permutation (a pickup listed before its delivery is served before it) *)
Theorem C06_multi_search_positions : forall w t subs perms pos kind cost steps,
  eval_multi_job w t subs perms pos kind = GSuccess cost steps ->
  let st := map step_of steps in
  let t' := apply_steps (wdur w) t st in
  let start := insertion_start (closed w) t pos in
  (exists sv, In sv (resolve_perms subs perms) /\ map (fun s => a_job (snd s)) st = map s_id sv) /\
  StronglySorted lt (map fst st) /\ Forall (fun s => (start <= fst s)%nat) st /\
  length t' = (length t + length st)%nat /\
  (forall i, (i <= start)%nat -> option_map act_core (nth_error t' i) = option_map act_core (nth_error t i)) /\
  (forall k idx a, nth_error st k = Some (idx, a) -> option_map act_core (nth_error t' (S idx)) = Some (act_core a)).
Proof. exact eval_multi_job_positions. Qed.

(* the loops of the search terminate (the fuel of the model is never exhausted) *)
Theorem C06_multi_search_terminates : forall w t subs perms pos kind, eval_multi_job w t subs perms pos kind <> GOutOfFuel.
Proof. exact eval_multi_job_terminates. Qed.

(* position Any is the search modelled for C20 (Model/ObjectivesX.v geval_multi): one model of eval_multi, not two *)
Theorem C06_multi_search_any_is_c20_search : forall dur ev est closed rc t perms,
  geval_multi_at dur ev est closed 0 rc t perms = geval_multi dur ev est closed rc t perms.
Proof. exact geval_multi_at_zero. Qed.

(* the search is GREEDY: it may report failure although a feasible combination exists (allowed by the property for multi-task
   jobs).  Witness: tour 0 -> A -> B -> 0 on a line, pickup P cheapest between A and B, behind which the delivery D is late; P in
   front of A followed by D is feasible for the simulation, but no sequence of the search tries P there *)
Theorem C06_multi_search_complete_refuted :
  feasible (wdur miss_world) (w_veh miss_world) miss_tour = true /\
  (exists code st, eval_multi_job miss_world miss_tour miss_subs [[0; 1]%nat] PAny 0 = GFailure code st) /\
  feasible (wdur miss_world) (w_veh miss_world) (insert_all miss_tour [(0%nat, miss_P); (1%nat, miss_D)]) = true /\
  brute_any miss_world miss_tour (resolve_perms miss_subs [[0; 1]%nat]) 0 = true.
Proof. exact multi_search_misses_feasible_combination. Qed.

(* non-vacuity: a feasible tour with a shipment on board, a pickup-delivery job with two permutations and alternative places, success *)
Theorem C06_multi_search_nonvacuous :
  nv_multi_tour <> [] /\ sched_ok (wdur nv_multi_world) nv_multi_tour /\ (forall d, d_change (a_dem (hd d nv_multi_tour)) = 0) /\
  Forall (fun s => simple_demand (s_dem s)) nv_multi_subs /\
  feasible (wdur nv_multi_world) (w_veh nv_multi_world) nv_multi_tour = true /\
  exists cost steps, eval_multi_job nv_multi_world nv_multi_tour nv_multi_subs [[0; 1]%nat; [1; 0]%nat] PAny 0 = GSuccess cost steps /\
                     length steps = 2%nat.
Proof. exact multi_search_nonvacuous. Qed.

(* =============================================================================================================================
   THE TRANSPORT CONSTRAINT OVER NON-TRIVIAL COST PROVIDERS: time-dependent routing and reserved times (sub-stream c06_time).
   Model: Model/TimeDep.v - update_schedules / update_states / TransportConstraint::evaluate_activity / CostObjective generic in
   the providers (`durD` = duration at a departure time, `durA` = the answer to TravelTime::Arrival, `edep` / `earr` =
   estimate_departure / estimate_arrival), Float::MAX absorbing (`addI`, `subI`); TimeAwareMatrixTransportCost (`td_interp`,
   `td_step`), the reserved-time lookup closure (`rt_fn`), DynamicTransportCost / DynamicActivityCost.
   Specification: Spec/FeasibleT.v (`sim_t`: the break is taken at its latest start, driving and service are suspended, waiting
   absorbs it; travel times are those of the departure instant).  Lemmas: Proofs/TimeDepP.v (generic), TimeDepTDP.v, TimeDepRTP.v. *)
From VRP Require Import Model.TimeDep Spec.FeasibleT Proofs.TimeDepP Proofs.TimeDepTDP Proofs.TimeDepRTP.

(* GENERIC SOUNDNESS of evaluate_activity (ALL tours, matrices, providers): under ten explicit hypotheses that relate the backward
   view of the providers (Arrival look-up, estimate_arrival) to their forward view (Departure look-up, estimate_departure) on the
   instants `R` a schedule can reach, an accepted activity at an inner leg keeps the whole tour feasible for the forward pass
   (every arrival inside its window, no Float::MAX feeding a later stop).  `fin_latest`: the cached latest arrivals behind the
   insertion point are bounded - without it the statement is false of the code (C06_rt_unbounded_next_refuted) *)
Theorem C06_generic_eval_sound :
  forall (durD durA : Z -> Z -> Z -> Z) (edep earr : act -> Z -> Z) (R : Z -> Prop) (WF : act -> Prop),
  (forall x, R x -> x < INF) ->
  (forall f t x y, R x -> R y -> x <= y -> fwd durD f t x <= fwd durD f t y) ->
  (forall f t x, R x -> fwd durD f t x < INF -> R (fwd durD f t x)) ->
  (forall f t L, 0 <= durA f t L) ->
  (forall f t x L, R x -> L < INF -> x <= L - durA f t L -> fwd durD f t x <= L) ->
  (forall a x y, WF a -> R x -> R y -> x <= y -> y <= a_twe a -> edep a y < INF -> edep a x <= edep a y) ->
  (forall a x, WF a -> R x -> x <= a_twe a -> edep a x < INF -> R (edep a x)) ->
  (forall a x y0 Ld, WF a -> R x -> R y0 -> y0 <= a_twe a -> edep a y0 < INF -> Ld < INF -> x <= earr a Ld ->
     edep a x <= Ld \/ edep a x < INF /\ (forall f t, fwd durD f t (edep a x) <= fwd durD f t (edep a y0))) ->
  (forall a Ld, WF a -> earr a Ld <= a_twe a) ->
  (forall a x, WF a -> edep a x < INF -> x < INF) ->
  (forall a arr d x, edep (set_sched a arr d) x = edep a x) ->
  forall (v : vehicle) (t : list act) (idx : nat) (target : act),
  (S idx < length t)%nat -> sched_ok_gt durD edep t -> R (a_dep (hd target t)) -> Forall WF (tl t) -> WF target ->
  fin_latest durA earr (skipn (S idx) t) ->
  time_feasible_g durD edep t = true ->
  eval_time_g durD durA edep earr v (nth idx t target) target (skipn (S idx) t) = None ->
  time_feasible_g durD edep (insert_after t idx target) = true.
Proof. exact eval_time_g_sound_idx. Qed.

(* ---------------- time-dependent routing ---------------- *)
(* SOUNDNESS under FIFO (`x <= y -> x + dur x <= y + dur y`) and arrival-consistency (the duration the code finds at the ARRIVAL
   time L is not smaller than the duration of the departure L - dur L it computes with it): the whole activity-level verdict of the
   goal [transport; capacity] accepted => the tour with the activity is feasible for the specification's walk with departure-time
   look-ups (time windows, shift end, load profile).  Any duration function of (from, to, time). *)
Theorem C06_td_insertion_sound : forall dur : Z -> Z -> Z -> Z,
  (forall f t x, 0 <= dur f t x) ->
  (forall f t x y, x <= y -> x + dur f t x <= y + dur f t y) ->
  (forall f t L, L - dur f t L + dur f t (L - dur f t L) <= L) ->
  forall (v : vehicle) (t : list act) (idx : nat) (target : act),
  (S idx < length t)%nat -> sched_ok_gt dur edep_simple t -> a_dep (hd target t) < INF ->
  Forall wf_act (tl t) -> wf_act target -> fin_latest dur earr_simple (skipn (S idx) t) ->
  d_change (a_dem (hd target t)) = 0 -> simple_demand (a_dem target) ->
  time_feasible_g dur edep_simple t = true -> load_feasible (v_cap v) t = true ->
  eval_activity_g dur dur edep_simple earr_simple v t idx target = None ->
  feasible_t dur [] v (insert_after t idx target) = true.
Proof. exact td_insertion_sound. Qed.

(* EXACTNESS of the cached latest arrival (the push-forward test) under the converse hypothesis as well: a tail that is feasible for
   the way it is reached now is feasible for another departure iff that departure arrives not later than the cached value *)
Theorem C06_td_latest_arrival_exact : forall dur : Z -> Z -> Z -> Z,
  (forall f t x, 0 <= dur f t x) ->
  (forall f t x y, x <= y -> x + dur f t x <= y + dur f t y) ->
  (forall f t L, L - dur f t L + dur f t (L - dur f t L) <= L) ->
  (forall f t x L, x + dur f t x <= L -> x <= L - dur f t L) ->
  forall (r : list act) (a : act) (loc0 dep0 : Z),
  dep0 < INF -> sim_g dur edep_simple loc0 dep0 (a :: r) = true -> Forall wf_act (a :: r) -> fin_latest dur earr_simple (a :: r) ->
  forall loc x, x < INF ->
    (sim_g dur edep_simple loc x (a :: r) = true <-> fwd dur loc (a_loc a) x <= latest_g dur earr_simple (a :: r)).
Proof. exact td_latest_exact. Qed.

(* the hypotheses are satisfiable: time-independent durations satisfy all three, durations that never decrease in time satisfy
   FIFO and arrival-consistency (the evaluator is sound for them) *)
Theorem C06_td_hypotheses_nonvacuous :
  (forall d : Z -> Z -> Z,
     (forall f t x y : Z, x <= y -> x + d f t <= y + d f t) /\ (forall f t L : Z, L - d f t + d f t <= L) /\
     (forall f t x L : Z, x + d f t <= L -> x <= L - d f t)) /\
  (forall dur : Z -> Z -> Z -> Z,
     (forall f t x, 0 <= dur f t x) -> (forall f t x y, x <= y -> dur f t x <= dur f t y) ->
     (forall f t x y, x <= y -> x + dur f t x <= y + dur f t y) /\ (forall f t L, L - dur f t L + dur f t (L - dur f t L) <= L)).
Proof. exact (conj const_dur_hyps nondecreasing_dur_hyps). Qed.

(* ... and the premises of C06_td_insertion_sound are: durations that grow from 10 to 20 between the times 10 and 20, a closed tour,
   an accepted candidate *)
Theorem C06_td_nonvacuous :
  (forall f t x, 0 <= ramp f t x) /\ (forall f t x y, x <= y -> x + ramp f t x <= y + ramp f t y) /\
  (forall f t L, (L - ramp f t L) + ramp f t (L - ramp f t L) <= L) /\
  ramp 0 1 0 <> ramp 0 1 30 /\
  let t := nv_td_tour in let target := nv_td_target in
  (S 0 < length t)%nat /\ sched_ok_gt ramp edep_simple t /\ a_dep (hd target t) < INF /\ Forall wf_act (tl t) /\ wf_act target /\
  fin_latest ramp earr_simple (skipn 1 t) /\ d_change (a_dem (hd target t)) = 0 /\ simple_demand (a_dem target) /\
  time_feasible_g ramp edep_simple t = true /\ load_feasible (v_cap nv_td_veh) t = true /\
  eval_activity_g ramp ramp edep_simple earr_simple nv_td_veh t 0 target = None /\
  sched_out (reschedule_g ramp edep_simple (insert_after t 0 target)) = [(0, 0); (10, 11); (22, 24); (44, 44)].
Proof. exact td_nonvacuous. Qed.

(* FINDING C06-F7: arrival-consistency is needed, FIFO alone is not enough.  On the modelled TimeAwareMatrixTransportCost (leg 1 -> 2:
   42 at timestamp 0, 26 at timestamp 32 - slope -1/2, FIFO holds on the instants visited) the evaluator accepts the candidate in
   front of stop 1 although stop 2 (window end 50) is then reached at 54 (replayed on the real code: corpus/C06/c06_time) *)
Theorem C06_td_decreasing_refuted :
  let x := tdw_fifo in let t := tdw_tour x in
  tw_feasible x t = true /\
  eval_activity_g (tw_durD x) (tw_durA x) (tw_edep x) (tw_earr x) (w_veh (tw_w x)) t 0 tdw_X = None /\
  tw_feasible x (insert_after t 0 tdw_X) = false /\
  sched_out (reschedule_g (tw_durD x) (tw_edep x) (insert_after t 0 tdw_X)) = [(0, 0); (10, 10); (24, 24); (54, 54); (64, 64)].
Proof. exact td_decreasing_unsound_witness. Qed.

Theorem C06_td_decreasing_refuted_is_fifo :
  fifo_on (tw_idur tdw_fifo 1 2) (map (fun k : nat => 2 * Z.of_nat k) (seq 0 41)) = true.
Proof. exact tdw_fifo_leg. Qed.

(* without FIFO: TimeAwareMatrixTransportCost on legal input violates FIFO (60 at timestamp 0, 28 at timestamp 16: leaving at 0
   arrives at 60, leaving at 16 at 44); the route over the candidate reaches stop 1 EARLIER than the direct way (non-metric static
   legs), stop 1 is left at 4 instead of 14 and stop 2 reached at 56 > 50 *)
Theorem C06_td_nonfifo_refuted :
  let x := tdw_nonfifo in let t := tdw_tour x in
  tw_feasible x t = true /\
  eval_activity_g (tw_durD x) (tw_durA x) (tw_edep x) (tw_earr x) (w_veh (tw_w x)) t 0 tdw_X = None /\
  tw_feasible x (insert_after t 0 tdw_X) = false /\
  sched_out t = [(0, 0); (14, 14); (46, 46); (56, 56)] /\
  sched_out (reschedule_g (tw_durD x) (tw_edep x) (insert_after t 0 tdw_X)) = [(0, 0); (2, 2); (4, 4); (56, 56); (66, 66)] /\
  0 + tw_idur x 1 2 0 = 60 /\ 16 + tw_idur x 1 2 16 = 44.
Proof. exact td_nonfifo_unsound_witness. Qed.

(* exactness fails for INCREASING durations (10 -> 42): stop 1 may be left at 20 (arrival 50), the cached latest arrival is 8.
   Conservative only; no finding *)
Theorem C06_td_latest_arrival_exact_refuted :
  let x := tdw_incr in let t := tdw_tour x in
  latest_states_g (tw_durA x) (tw_earr x) t = [0; 8; 50] /\
  fwd (tw_durD x) 1 2 20 = 50 /\ sim_g (tw_durD x) (tw_edep x) 1 20 (skipn 2 t) = true.
Proof. exact td_latest_conservative_witness. Qed.

(* ---------------- reserved times (required breaks) ---------------- *)
(* the lookup closure of create_reserved_times_fn for one reserved time: it answers iff the queried window starts exactly at the
   reserved time's (latest) start - UNCHECKED - or intersects [e, e + d) exclusively *)
Theorem C06_rt_lookup_single : forall s e d off a b, a < INF -> e < INF ->
  rt_fn (mkRT false [mkRS s e d]) off a b = if rt_hit e d a b then Some (s, e, d) else None.
Proof. exact rt_fn_single. Qed.

(* the forward pass of DynamicTransportCost / DynamicActivityCost (one reserved time [e, e + d), time-independent inner routing)
   IS the physical simulation: a walk that is feasible for the providers (no Float::MAX feeding a later stop) is feasible for
   Spec/FeasibleT.v - the model at x and the vehicle at q being at the same instant, or the model at e with the break ahead and
   the vehicle at e + d.  The last activity does not wait for a window (end activity of a closed tour). *)
Theorem C06_rt_forward_pass_is_physical : forall (dur : Z -> Z -> Z) (s e d : Z),
  (forall f t, 0 <= dur f t) -> 0 <= e -> 0 <= d -> e + d < INF ->
  forall (acts : list act) (loc x q : Z),
  R1 e d x -> Rel1 e d x q -> Forall (WF1 e d) acts -> ends_free acts ->
  sim_g (durD_rt (idur dur) (rt1 s e d) 0) (edep_rt (rt1 s e d) 0) loc x acts = true ->
  sim_t (idur dur) [(e, d)] loc q acts = true.
Proof. exact rt1_forward_physical. Qed.

(* SOUNDNESS with one reserved time: the activity-level verdict of the goal [transport (DynamicTransportCost, DynamicActivityCost);
   capacity] accepted at an inner leg of a closed tour whose cached latest arrivals are bounded => the tour with the activity is
   feasible for the PHYSICAL simulation (break at its latest start, driving / service suspended, waiting absorbs; windows, shift
   end, load profile).  `R1`: the tour departs outside the reserved time; `WF1`: windows well formed, one tie excluded
   (C06_rt_tie_witness) *)
Theorem C06_rt_insertion_sound : forall (dur : Z -> Z -> Z) (s e d : Z) (v : vehicle) (t : list act) (idx : nat) (target : act),
  (forall f t0, 0 <= dur f t0) -> 0 <= e -> 0 <= d -> e + d < INF ->
  let durD := durD_rt (idur dur) (rt1 s e d) 0 in let durA := durA_rt (idur dur) (rt1 s e d) 0 in
  let edep := edep_rt (rt1 s e d) 0 in let earr := earr_rt (rt1 s e d) 0 in
  (S idx < length t)%nat -> sched_ok_gt durD edep t -> R1 e d (a_dep (hd target t)) ->
  Forall (WF1 e d) (tl t) -> WF1 e d target -> ends_free (tl t) -> fin_latest durA earr (skipn (S idx) t) ->
  d_change (a_dem (hd target t)) = 0 -> simple_demand (a_dem target) ->
  time_feasible_g durD edep t = true -> load_feasible (v_cap v) t = true ->
  eval_activity_g durD durA edep earr v t idx target = None ->
  feasible_t (idur dur) [(e, d)] v (insert_after t idx target) = true.
Proof. exact rt1_insertion_sound_physical. Qed.

(* non-vacuity: reserved time [60, 70), the accepted candidate's service (55 .. 73) is interrupted by it *)
Theorem C06_rt_nonvacuous :
  let dur := wdur (tw_w nv_rt_world) in
  let durD := durD_rt (idur dur) (rt1 50 60 10) 0 in let durA := durA_rt (idur dur) (rt1 50 60 10) 0 in
  let edep := edep_rt (rt1 50 60 10) 0 in let earr := earr_rt (rt1 50 60 10) 0 in
  let t := nv_rt_tour in let target := nv_rt_target in
  (forall f t, 0 <= dur f t) /\ (S 0 < length t)%nat /\ sched_ok_gt durD edep t /\ R1 60 10 (a_dep (hd target t)) /\
  Forall (WF1 60 10) (tl t) /\ WF1 60 10 target /\ ends_free (tl t) /\ fin_latest durA earr (skipn 1 t) /\
  d_change (a_dem (hd target t)) = 0 /\ simple_demand (a_dem target) /\
  time_feasible_g durD edep t = true /\ load_feasible (v_cap (w_veh (tw_w nv_rt_world))) t = true /\
  eval_activity_g durD durA edep earr (w_veh (tw_w nv_rt_world)) t 0 target = None /\
  sched_out (reschedule_g durD edep (insert_after t 0 target)) = [(0, 0); (5, 73); (88, 93); (106, 106)].
Proof. exact rt_nonvacuous. Qed.

(* FINDING C06-F5, first form: `fin_latest` is needed.  The reserved time [8, 48) is running when the candidate's window opens at 15
   and still when it closes at 46: estimate_departure answers Float::MAX; the latest arrival of the next stop is unbounded and
   MAX > MAX is false: accepted, the refreshed schedule holds Float::MAX, the simulation finds the service starting at 48 *)
Theorem C06_rt_unbounded_next_refuted :
  let x := rtw_world None INF [mkRS 0 8 40] in
  let t := build_tour_t x [(1, 1, 0, 0, INF, dzero)] in
  let a := mkAct 9 0 12 15 46 dzero 0 0 in
  tw_feasible x t = true /\ tw_accepts x t 0 a = true /\ tw_feasible x (insert_after t 0 a) = false /\
  sched_out (reschedule_g (tw_durD x) (tw_edep x) (insert_after t 0 a)) = [(0, 0); (0, INF); (INF, INF)] /\
  times_t (tw_idur x) (tw_breaks x) 0 0 (tl (insert_after t 0 a)) = [(0, 48, 60); (73, 73, 73)].
Proof. exact rt_unbounded_next_unsound_witness. Qed.

(* FINDING C06-F5, second form: the last stop of an OPEN tour is accepted without asking estimate_departure at all *)
Theorem C06_rt_open_end_refuted :
  let x := rtw_world None INF [mkRS 0 8 10] in
  let t := build_tour_t x [] in
  let a := mkAct 9 2 0 10 15 dzero 0 0 in
  tw_feasible x t = true /\ tw_accepts x t 0 a = true /\ tw_feasible x (insert_after t 0 a) = false /\
  sched_out (reschedule_g (tw_durD x) (tw_edep x) (insert_after t 0 a)) = [(0, 0); (5, INF)] /\
  times_t (tw_idur x) (tw_breaks x) 0 0 (tl (insert_after t 0 a)) = [(5, 18, 18)].
Proof. exact rt_open_end_unsound_witness. Qed.

(* FINDING C06-F6: with TWO reserved times the statement is false of the code: the lookup answers one reserved time per query *)
Theorem C06_rt_two_breaks_refuted :
  let x := rtw_world (Some 0) 406 [mkRS 7 7 5; mkRS 32 32 40] in
  let t := build_tour_t x [] in
  let a := mkAct 9 0 0 40 56 dzero 0 0 in
  tw_feasible x t = true /\ tw_accepts x t 0 a = true /\ tw_feasible x (insert_after t 0 a) = false /\
  sched_out (reschedule_g (tw_durD x) (tw_edep x) (insert_after t 0 a)) = [(0, 0); (0, 40); (80, 80)] /\
  times_t (tw_idur x) (tw_breaks x) 0 0 (tl (insert_after t 0 a)) = [(0, 72, 72); (72, 72, 72)].
Proof. exact rt_two_breaks_unsound_witness. Qed.

(* the push-forward test is NOT exact with a reserved time, only conservative: stop 1 may be left at 82 (depot reached at 95, when
   the reserved time [95, 105) begins; shift end 100), the cached latest arrival is 77.  No finding: required breaks are not among
   the constraints the completeness clause of the property lists (time windows, shift times, capacity) *)
Theorem C06_rt_latest_arrival_exact_refuted :
  let x := rtw_world (Some 0) 100 [mkRS 90 95 10] in
  let t := build_tour_t x [(1, 1, 0, 0, INF, dzero)] in
  latest_states_g (tw_durA x) (tw_earr x) t = [0; 77] /\
  sim_g (tw_durD x) (tw_edep x) 1 82 (skipn 2 t) = true /\
  sim_t (tw_idur x) (tw_breaks x) 1 82 (skipn 2 t) = true /\
  fwd (tw_durD x) 1 0 82 = 95.
Proof. exact rt_latest_conservative_witness. Qed.

(* the tie that WF1 excludes: a stop without service whose window [20, 25] opens exactly when the reserved time [20, 30) begins is
   reached exactly at 20: accepted, its departure in the refreshed schedule is Float::MAX, yet the physical simulation finds the tour
   feasible (no violation of the property; the schedule is unusable all the same) *)
Theorem C06_rt_tie_witness :
  let x := rtw_world (Some 0) 1000 [mkRS 20 20 10] in
  let t := build_tour_t x [(1, 1, 0, 20, 25, dzero)] in
  let a := mkAct 9 2 0 0 INF dzero 0 0 in
  latest_states_g (tw_durA x) (tw_earr x) t = [0; 20] /\ tw_accepts x t 0 a = true /\
  tw_feasible x (insert_after t 0 a) = true /\
  sched_out (reschedule_g (tw_durD x) (tw_edep x) (insert_after t 0 a)) = [(0, 0); (5, 5); (20, INF); (INF, INF)].
Proof. exact rt_tie_witness. Qed.

(* ---------------- locks with order `sequence` / `any` ---------------- *)
(* locked_jobs.rs builds a positional Rule for `strict` locks only (C06_strict_lock_insertion_sound); the jobs of a `sequence` / `any`
   lock are bound to their vehicle by the route-level condition alone.  Their ORDER in the tour is safe for a structural reason:
   no insertion (single activity or the placement of a multi job; accepted or not) reorders the activities already in the tour *)
Theorem C06_sequence_lock_order_preserved :
  (forall jobs t idx x, existsb (Z.eqb (a_job x)) jobs = false -> served_of jobs (insert_after t idx x) = served_of jobs t) /\
  (forall jobs st t, Forall (fun s => existsb (Z.eqb (a_job (snd s))) jobs = false) st ->
     served_of jobs (insert_all t st) = served_of jobs t).
Proof. exact (conj insertion_keeps_locked_order placement_keeps_locked_order). Qed.

(* an Offset reserved time (time offset from the tour's departure `off`) is answered exactly like the Window reserved time shifted
   by `off`: the reserved-time theorems above cover both kinds of spans *)
Theorem C06_rt_offset_is_shifted_window : forall s e d off a b,
  0 <= e -> 0 <= off -> off <= a -> a < INF -> b < INF ->
  rt_fn (mkRT true [mkRS s e d]) off a b = rt_fn (mkRT false [mkRS (s + off) (e + off) d]) 0 a b.
Proof. exact rt_fn_offset_shift. Qed.
