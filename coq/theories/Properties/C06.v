(* C06 — Insertion evaluation agrees with brute-force simulation. *)
From VRP Require Import Base.Tac Model.Core Spec.Feasible Model.Eval Proofs.CoreTimeP Proofs.CoreCapP Proofs.CoreEvalP Proofs.CoreMultiP
  Proofs.CoreScanP Proofs.CoreScanCompleteP Proofs.CoreRouteLevelP.

(* exhaustive best-insertion mode (LegSelection::Exhaustive, any objective estimate `est`, any route-level cost), closed tours,
   single-task jobs with one place and one time window, constrained by time windows / shift end / capacity:
   if the simulation finds SOME position feasible, the scan reports a place, and the place it reports is feasible.
   (For several places/windows and for the last leg of open tours the statement is false: see the three _refuted theorems.) *)
Theorem C06_scan_complete_closed : forall dur est v t j p w rc,
  s_places j = [p] -> p_tws p = [w] ->
  (forall a b, 0 <= dur a b) -> 0 <= p_svc p ->
  sched_ok dur t -> feasible dur v t = true ->
  Forall (fun a => a_tws a <= v_shift_end v) t -> fst w <= v_shift_end v ->
  (forall d, d_change (a_dem (hd d t)) = 0) -> 0 <= start_delivery t -> simple_demand (s_dem j) ->
  forall k, (2 <= length t)%nat -> (k < length t - 1)%nat ->
  feasible dur v (insert_after t k (target t j p w k)) = true ->
  let r := analyze dur est v true t j PAny rc in
  sc_place r <> None /\
  (forall pl, sc_place r = Some pl ->
     feasible dur v (insert_after t (sc_index r) (target t j p w (sc_index r))) = true /\ pl = pdata t j p w (sc_index r)).
Proof. exact scan_complete_closed. Qed.

(* the same for the whole evaluation of a single job (route-level pre-checks of both features + scan), static demand
   (a delivery amount, a pickup amount, both - as merged jobs have - or none): exhaustive mode reports failure only when the
   simulation finds no feasible position, and the position it returns is a feasible one *)
Theorem C06_eval_single_complete_closed : forall dur est rc v shift_start t j p w k,
  s_places j = [p] -> p_tws p = [w] ->
  (forall a b, 0 <= dur a b) -> 0 <= p_svc p -> 0 <= v_cap v ->
  sched_ok dur t -> feasible dur v t = true ->
  Forall (fun a => a_tws a <= v_shift_end v) t -> fst w <= v_shift_end v -> shift_start <= snd w ->
  (forall d, d_change (a_dem (hd d t)) = 0) -> 0 <= start_delivery t -> static_demand (s_dem j) ->
  (2 <= length t)%nat -> (k < length t - 1)%nat ->
  feasible dur v (insert_after t k (target t j p w k)) = true ->
  exists idx pl c, eval_single_gen dur est rc v shift_start true t j PAny = ESuccess idx pl c /\
                   feasible dur v (insert_after t idx (target t j p w idx)) = true.
Proof. exact eval_single_complete_closed. Qed.

(* the cached latest-arrival value is exact: a feasible tail is feasible for another way of reaching it
   iff the arrival at its head is not later than `latest_of` *)
Theorem C06_latest_arrival_exact : forall dur a r loc0 dep0,
  sim_time dur loc0 dep0 (a :: r) = true ->
  forall loc dep, sim_time dur loc dep (a :: r) = true <-> dep + dur loc (a_loc a) <= latest_of dur (a :: r).
Proof. exact latest_exact. Qed.

(* soundness: whenever the evaluator accepts a position, the simulation finds the resulting tour feasible
   (any matrix, any windows, open or closed, static and dynamic demand mixed in the tour) *)
Theorem C06_eval_sound : forall dur v t idx target,
  (idx < length t)%nat ->
  sched_ok dur t ->
  d_change (a_dem (hd target t)) = 0 ->
  simple_demand (a_dem target) ->
  feasible dur v t = true ->
  eval_activity dur v t idx target = None ->
  feasible dur v (insert_after t idx target) = true.
Proof. exact eval_activity_sound. Qed.

(* completeness at inner legs for one place / one window: a position the simulation finds feasible is never rejected *)
Theorem C06_eval_complete_inner : forall dur v t idx target,
  (S idx < length t)%nat ->
  sched_ok dur t ->
  (forall a b, 0 <= dur a b) -> 0 <= a_svc target ->
  Forall (fun a => a_tws a <= v_shift_end v) t -> a_tws target <= v_shift_end v ->
  d_change (a_dem (hd target t)) = 0 -> 0 <= start_delivery t ->
  simple_demand (a_dem target) ->
  feasible dur v t = true ->
  feasible dur v (insert_after t idx target) = true ->
  eval_activity dur v t idx target = None.
Proof. exact eval_activity_complete_inner. Qed.

(* multi-task (pickup-and-delivery) jobs: the evaluator's answer is a list of (activity, index) steps; every list of steps
   that passes the modelled per-step evaluation on the shadow tour gives a tour the simulation finds feasible.
   (The greedy search that produces the steps is not modelled: the real result is checked as a certificate on every run.) *)
Theorem C06_multi_certificate_sound : forall w steps t t',
  t <> [] ->
  sched_ok (wdur w) t ->
  (forall d, d_change (a_dem (hd d t)) = 0) ->
  Forall (fun s => simple_demand (a_dem (snd s))) steps ->
  feasible (wdur w) (w_veh w) t = true ->
  cert_steps w t steps = (true, t') ->
  feasible (wdur w) (w_veh w) t' = true.
Proof. exact cert_steps_sound. Qed.

(* ---- the full completeness statement of the exhaustive scan is FALSE of the faithful model: three witnesses ---- *)
Definition w3 (closed : bool) (shift_end : Z) : world :=
  mkWorld 3 [0;10;10; 10;0;10; 10;10;0] [0;10;10; 10;0;10; 10;10;0] (mkVeh shift_end 10 0 1 1 0 0) 0
          (if closed then Some 0 else None) 0.
Definition scan_fails_but_feasible (w : world) (j : single) : Prop :=
  let t := build_tour w [] in
  feasible (wdur w) (w_veh w) t = true /\
  (exists alt, In alt (alternatives w t j) /\ nth 4 alt 0 = 1) /\
  exists code st, eval_single_job (wdur w) (wdist w) (w_veh w) (w_shift_start w) (closed w) t j PAny = EFailure code st.

(* F1: an alternative whose window starts after the shift end stops the scan before a feasible alternative is tried *)
Theorem C06_scan_complete_refuted_after_shift_end :
  scan_fails_but_feasible (w3 true 100) (mkSingle 90 [mkPlace (Some 1) 0 [(200, 300); (0, 50)]] (mkDemand 0 0 1 0)).
Proof. unfold scan_fails_but_feasible. vm_compute. split; [reflexivity|]. split; [|eauto]. eexists. split; [right; left; reflexivity|reflexivity]. Qed.

(* F2: last leg of an open tour, positive service time: arrival 10 <= window end 12 but the test wants 10 <= 12 - 5 *)
Theorem C06_scan_complete_refuted_open_end_service :
  scan_fails_but_feasible (w3 false INF) (mkSingle 90 [mkPlace (Some 1) 5 [(0, 12)]] (mkDemand 0 0 1 0)).
Proof. unfold scan_fails_but_feasible. vm_compute. split; [reflexivity|]. split; [|eauto]. eexists. split; [left; reflexivity|reflexivity]. Qed.

(* F3: last leg of an open tour: an unreachable first place stops the scan before the feasible second place *)
Theorem C06_scan_complete_refuted_open_end_alternative :
  scan_fails_but_feasible (w3 false INF) (mkSingle 90 [mkPlace (Some 1) 0 [(0, 5)]; mkPlace (Some 2) 0 [(0, 50)]] (mkDemand 0 0 1 0)).
Proof. unfold scan_fails_but_feasible. vm_compute. split; [reflexivity|]. split; [|eauto]. eexists. split; [right; left; reflexivity|reflexivity]. Qed.

(* non-vacuity: a feasible, consistently scheduled tour with an accepted inner position exists *)
Theorem C06_nonvacuous :
  let w := w3 true 100 in
  let t := build_tour w [(1, 1, 0, 0, 50, mkDemand 0 0 1 0)] in
  let x := mkAct 2 2 0 0 60 (mkDemand 0 0 1 0) 0 0 in
  feasible (wdur w) (w_veh w) t = true /\ eval_activity (wdur w) (w_veh w) t 1 x = None /\ (2 < length t)%nat.
Proof. vm_compute. repeat split; reflexivity || lia. Qed.
