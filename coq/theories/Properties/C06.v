(* C06 — Insertion evaluation agrees with brute-force simulation. *)
From VRP Require Import Base.Tac Model.Core Spec.Feasible Proofs.CoreTimeP Proofs.CoreCapP Proofs.CoreEvalP.

(* the cached latest-arrival value is exact: a feasible tail is feasible for another way of reaching it
   iff the arrival at its head is not later than `latest_of` *)
Theorem C06_latest_arrival_exact : forall dur a r loc0 dep0,
  sim_time dur loc0 dep0 (a :: r) = true ->
  forall loc dep, sim_time dur loc dep (a :: r) = true <-> dep + dur loc (a_loc a) <= latest_of dur (a :: r).
Proof. exact latest_exact. Qed.

(* soundness: whenever the evaluator accepts a position, the simulation finds the resulting tour feasible
   (any matrix, any windows, open or closed, static and dynamic demand mixed in the tour) *)
Theorem C06_eval_sound : forall dur v t idx target,
  (idx < length t)%nat ->
  sched_ok dur t ->
  d_change (a_dem (hd target t)) = 0 ->
  simple_demand (a_dem target) ->
  feasible dur v t = true ->
  eval_activity dur v t idx target = None ->
  feasible dur v (insert_after t idx target) = true.
Proof. exact eval_activity_sound. Qed.

(* completeness at inner legs for one place / one window: a position the simulation finds feasible is never rejected *)
Theorem C06_eval_complete_inner : forall dur v t idx target,
  (S idx < length t)%nat ->
  sched_ok dur t ->
  (forall a b, 0 <= dur a b) -> 0 <= a_svc target ->
  Forall (fun a => a_tws a <= v_shift_end v) t -> a_tws target <= v_shift_end v ->
  d_change (a_dem (hd target t)) = 0 -> 0 <= start_delivery t ->
  simple_demand (a_dem target) ->
  feasible dur v t = true ->
  feasible dur v (insert_after t idx target) = true ->
  eval_activity dur v t idx target = None.
Proof. exact eval_activity_complete_inner. Qed.
