(* C08 — A population never loses its best-known solution.
   Only the property theorems, each closed by `exact`.  Model: Model/Population.v, lemmas: Proofs/PopulationP.v.
   Reading guide: `run cmp dedup ops p0 = Some p` = the history `ops` (add / add_all / on_generation(stats) / select / ranked,
   with the random draws, is_hit answers and the individuals returned by the GSOM nodes as oracle arguments of select) takes the
   freshly constructed population p0 (Greedy, Elitism or Rosomaxa with a configuration its constructor accepts) to p without a
   panic; `offered ops` = every individual passed to add or add_all; `total_preorder cmp` = what total_order promises. *)
From VRP Require Import Base.Tac Model.Population Proofs.PopulationP.
From Coq Require Import Sorted.

(* clause 1, all three populations (greedy, elitist, self-organising): the first ranked individual is no worse than what the
   population was created with (Greedy::new's optional best_known) and every individual ever offered, singly or in a batch —
   for every total preorder, every dedup predicate, every configuration, every history.
   History of this theorem: up to /repo commit 646d0ea Greedy::add_all folded with `acc || self.add(individual)` (short-circuit),
   the faithful model refuted the clause for Greedy (`C08_greedy_best_never_lost_refuted`, witness add_all [5; 3]) and only
   `_partial` variants (first individual of each batch / batches of at most one) were provable; with the repaired fold
   (`self.add(individual) || acc`) the model offers every individual of a batch and the full clause is proved. *)
Theorem C08_best_never_lost :
  forall (ind : Type) (cmp : ind -> ind -> comparison) (dedup : ind -> ind -> bool), total_preorder cmp ->
  forall p0 : pop ind, start_state p0 -> forall (ops : list (op ind)) (p : pop ind),
  run cmp dedup ops p0 = Some p ->
  forall x, In x (ranked p0 ++ offered ops) -> exists b, hd_error (ranked p) = Some b /\ cmp b x <> Gt.
Proof. exact @best_never_lost. Qed.

(* the batch that exposed the former defect: the better second individual of the batch becomes the best *)
Theorem C08_greedy_add_all_batch_witness :
  exists p, run zcmp (zdedup 0 false) [OAddAll [ZI 1 5 0 1; ZI 2 3 0 1]] (greedy_new 1 None) = Some p /\
    map zid (ranked p) = [2].
Proof. exact greedy_add_all_batch_witness. Qed.

(* clause 2: the ranking is sorted *)
Theorem C08_ranked_sorted :
  forall (ind : Type) (cmp : ind -> ind -> comparison) (dedup : ind -> ind -> bool), total_preorder cmp ->
  forall p0 : pop ind, start_state p0 -> forall (ops : list (op ind)) (p : pop ind),
  run cmp dedup ops p0 = Some p -> StronglySorted (fun a b => cmp a b <> Gt) (ranked p).
Proof. exact @ranked_sorted. Qed.

(* clause 3: sizes stay within the configured bound (1 / max_population_size / elite_size), which never changes *)
Theorem C08_size_bounds :
  forall (ind : Type) (cmp : ind -> ind -> comparison) (dedup : ind -> ind -> bool), total_preorder cmp ->
  forall p0 : pop ind, start_state p0 -> forall (ops : list (op ind)) (p : pop ind),
  run cmp dedup ops p0 = Some p -> (size p <= max_size p)%nat /\ max_size p = max_size p0.
Proof. exact @size_bounds. Qed.

(* clause 4: selection returns only offered individuals (for Rosomaxa in Exploration: provided the network nodes return
   offered individuals — the network is not modelled, this premise is validated on every run) *)
Theorem C08_select_offered :
  forall (ind : Type) (cmp : ind -> ind -> comparison) (dedup : ind -> ind -> bool), total_preorder cmp ->
  forall p0 : pop ind, start_state p0 ->
  forall (ops : list (op ind)) (p : pop ind) (draws : list Z) (hits : list bool) (nodes : list ind),
  run cmp dedup ops p0 = Some p -> incl nodes (offered ops) ->
  forall y, In y (select p draws hits nodes) -> In y (ranked p0 ++ offered ops).
Proof. exact @select_offered. Qed.

(* clause 5: selection returns something whenever the population is non-empty (selection_size >= 1) *)
Theorem C08_select_nonempty :
  forall (ind : Type) (cmp : ind -> ind -> comparison) (dedup : ind -> ind -> bool), total_preorder cmp ->
  forall p0 : pop ind, start_state p0 ->
  forall (ops : list (op ind)) (p : pop ind) (draws : list Z) (hits : list bool) (nodes : list ind),
  run cmp dedup ops p0 = Some p -> (1 <= selection_size p0)%nat -> (0 < size p)%nat ->
  select p draws hits nodes <> [].
Proof. exact @select_nonempty. Qed.

(* the hypothesis selection_size >= 1 is needed: Elitism::new accepts selection_size = 0 and then selects nothing *)
Theorem C08_select_empty_with_zero_selection_size :
  exists p0 ops p, elitism_new 2 0 = Some p0 /\ run zcmp (zdedup 0 false) ops p0 = Some p /\
    (0 < size p)%nat /\ select p [] [] [] = [].
Proof. exact select_empty_with_zero_selection_size. Qed.

(* selection phases only move forward: Initial -> Exploration -> Exploitation (shared with C19) *)
Theorem C08_phases_forward :
  forall (ind : Type) (cmp : ind -> ind -> comparison) (dedup : ind -> ind -> bool) (p : pop ind) (o : op ind) (p' : pop ind),
  step cmp dedup p o = Some p' -> (phase_rank p <= phase_rank p')%nat.
Proof. exact @phases_forward. Qed.

(* consequence: the evolution loop (initial solutions through `add`, then per generation select / add_all offspring /
   on_generation, result = first ranked) never ends with a head worse than an initial solution — all three populations *)
Theorem C08_seeded_never_worse :
  forall (ind : Type) (cmp : ind -> ind -> comparison) (dedup : ind -> ind -> bool), total_preorder cmp ->
  forall p0 : pop ind, start_state p0 ->
  forall (inits : list ind) (gens : list generation) (r : option ind),
  solve cmp dedup p0 inits gens = Some r ->
  forall x, In x inits -> exists b, r = Some b /\ cmp b x <> Gt.
Proof. exact @seeded_never_worse. Qed.

(* histories never panic for Rosomaxa with initial_size >= 4 (Greedy and Elitism have no panicking step in the model) ... *)
Theorem C08_rosomaxa_no_panic :
  forall (ind : Type) (cmp : ind -> ind -> comparison) (dedup : ind -> ind -> bool) (c : rconfig) (p0 : pop ind) (ops : list (op ind)),
  (4 <= c_initial c)%nat -> rosomaxa_new c = Some p0 -> run cmp dedup ops p0 <> None.
Proof. exact @rosomaxa_no_panic. Qed.
(* ... and do for smaller initial_size, which Rosomaxa::new accepts (expect("cannot create network")) *)
Theorem C08_rosomaxa_small_initial_size_panics :
  exists c p0 ops, rosomaxa_new c = Some p0 /\ c_initial c = 3%nat /\ run zcmp (zdedup 5 false) ops p0 = None.
Proof. exact rosomaxa_small_initial_size_panics. Qed.

(* non-vacuity: the integer-key order used by the correspondence is a total preorder; a history through all three phases exists *)
Theorem C08_nonvacuous_order : total_preorder zcmp.
Proof. exact zcmp_total_preorder. Qed.
Theorem C08_nonvacuous_history :
  exists p0 ops p, rosomaxa_new {| c_initial := 4; c_sel := 7; c_elite := 2; c_er := 32 |} = Some p0 /\
    run zcmp (zdedup 5 false) ops p0 = Some p /\ phase_rank p = 2%nat /\
    map zid (ranked p) = [7; 5] /\ length (offered ops) = 7%nat.
Proof. exact nonvacuous_history. Qed.
