(* C08 — A population never loses its best-known solution.
   Only the property theorems, each closed by `exact`.  Model: Model/Population.v, lemmas: Proofs/PopulationP.v.
   Reading guide: `run cmp dedup ops p0 = Some p` = the history `ops` (add / add_all / on_generation(stats) / select / ranked,
   with the random draws, is_hit answers and the individuals returned by the GSOM nodes as oracle arguments of select) takes the
   freshly constructed population p0 (Greedy, Elitism or Rosomaxa with a configuration its constructor accepts) to p without a
   panic; `offered ops` = every individual passed to add or add_all; `total_preorder cmp` = what total_order promises. *)
From VRP Require Import Base.Tac Model.Population Proofs.PopulationP.
From Coq Require Import Sorted.

(* clause 1, all three populations (greedy, elitist, self-organising): the first ranked individual is no worse than what the
   population was created with (Greedy::new's optional best_known) and every individual ever offered, singly or in a batch —
   for every total preorder, every dedup predicate, every configuration, every history.
   History of this theorem: up to /repo commit 646d0ea Greedy::add_all folded with `acc || self.add(individual)` (short-circuit),
   the faithful model refuted the clause for Greedy (`C08_greedy_best_never_lost_refuted`, witness add_all [5; 3]) and only
   `_partial` variants (first individual of each batch / batches of at most one) were provable; with the repaired fold
   (`self.add(individual) || acc`) the model offers every individual of a batch and the full clause is proved. *)
Theorem C08_best_never_lost :
  forall (ind : Type) (cmp : ind -> ind -> comparison) (dedup : ind -> ind -> bool), total_preorder cmp ->
  forall p0 : pop ind, start_state p0 -> forall (ops : list (op ind)) (p : pop ind),
  run cmp dedup ops p0 = Some p ->
  forall x, In x (ranked p0 ++ offered ops) -> exists b, hd_error (ranked p) = Some b /\ cmp b x <> Gt.
Proof. exact @best_never_lost. Qed.

(* the batch that exposed the former defect: the better second individual of the batch becomes the best *)
Theorem C08_greedy_add_all_batch_witness :
  exists p, run zcmp (zdedup 0 false) [OAddAll [ZI 1 5 0 1; ZI 2 3 0 1]] (greedy_new 1 None) = Some p /\
    map zid (ranked p) = [2].
Proof. exact greedy_add_all_batch_witness. Qed.

(* clause 2: the ranking is sorted *)
Theorem C08_ranked_sorted :
  forall (ind : Type) (cmp : ind -> ind -> comparison) (dedup : ind -> ind -> bool), total_preorder cmp ->
  forall p0 : pop ind, start_state p0 -> forall (ops : list (op ind)) (p : pop ind),
  run cmp dedup ops p0 = Some p -> StronglySorted (fun a b => cmp a b <> Gt) (ranked p).
Proof. exact @ranked_sorted. Qed.

(* clause 3: sizes stay within the configured bound (1 / max_population_size / elite_size), which never changes *)
Theorem C08_size_bounds :
  forall (ind : Type) (cmp : ind -> ind -> comparison) (dedup : ind -> ind -> bool), total_preorder cmp ->
  forall p0 : pop ind, start_state p0 -> forall (ops : list (op ind)) (p : pop ind),
  run cmp dedup ops p0 = Some p -> (size p <= max_size p)%nat /\ max_size p = max_size p0.
Proof. exact @size_bounds. Qed.

(* clause 4: selection returns only offered individuals (for Rosomaxa in Exploration: provided the network nodes return
   offered individuals — the network is not modelled, this premise is validated on every run) *)
Theorem C08_select_offered :
  forall (ind : Type) (cmp : ind -> ind -> comparison) (dedup : ind -> ind -> bool), total_preorder cmp ->
  forall p0 : pop ind, start_state p0 ->
  forall (ops : list (op ind)) (p : pop ind) (draws : list Z) (hits : list bool) (nodes : list ind),
  run cmp dedup ops p0 = Some p -> incl nodes (offered ops) ->
  forall y, In y (select p draws hits nodes) -> In y (ranked p0 ++ offered ops).
Proof. exact @select_offered. Qed.

(* clause 5: selection returns something whenever the population is non-empty (selection_size >= 1) *)
Theorem C08_select_nonempty :
  forall (ind : Type) (cmp : ind -> ind -> comparison) (dedup : ind -> ind -> bool), total_preorder cmp ->
  forall p0 : pop ind, start_state p0 ->
  forall (ops : list (op ind)) (p : pop ind) (draws : list Z) (hits : list bool) (nodes : list ind),
  run cmp dedup ops p0 = Some p -> (1 <= selection_size p0)%nat -> (0 < size p)%nat ->
  select p draws hits nodes <> [].
Proof. exact @select_nonempty. Qed.

(* the hypothesis selection_size >= 1 is needed: Elitism::new accepts selection_size = 0 and then selects nothing *)
Theorem C08_select_empty_with_zero_selection_size :
  exists p0 ops p, elitism_new 2 0 = Some p0 /\ run zcmp (zdedup 0 false) ops p0 = Some p /\
    (0 < size p)%nat /\ select p [] [] [] = [].
Proof. exact select_empty_with_zero_selection_size. Qed.

(* selection phases only move forward: Initial -> Exploration -> Exploitation (shared with C19) *)
Theorem C08_phases_forward :
  forall (ind : Type) (cmp : ind -> ind -> comparison) (dedup : ind -> ind -> bool) (p : pop ind) (o : op ind) (p' : pop ind),
  step cmp dedup p o = Some p' -> (phase_rank p <= phase_rank p')%nat.
Proof. exact @phases_forward. Qed.

(* consequence: the evolution loop (initial solutions through `add`, then per generation select / add_all offspring /
   on_generation, result = first ranked) never ends with a head worse than an initial solution — all three populations *)
Theorem C08_seeded_never_worse :
  forall (ind : Type) (cmp : ind -> ind -> comparison) (dedup : ind -> ind -> bool), total_preorder cmp ->
  forall p0 : pop ind, start_state p0 ->
  forall (inits : list ind) (gens : list generation) (r : option ind),
  solve cmp dedup p0 inits gens = Some r ->
  forall x, In x inits -> exists b, r = Some b /\ cmp b x <> Gt.
Proof. exact @seeded_never_worse. Qed.

(* histories never panic for Rosomaxa with initial_size >= 4 (Greedy and Elitism have no panicking step in the model) ... *)
Theorem C08_rosomaxa_no_panic :
  forall (ind : Type) (cmp : ind -> ind -> comparison) (dedup : ind -> ind -> bool) (c : rconfig) (p0 : pop ind) (ops : list (op ind)),
  (4 <= c_initial c)%nat -> rosomaxa_new c = Some p0 -> run cmp dedup ops p0 <> None.
Proof. exact @rosomaxa_no_panic. Qed.
(* ... and do for smaller initial_size, which Rosomaxa::new accepts (expect("cannot create network")) *)
Theorem C08_rosomaxa_small_initial_size_panics :
  exists c p0 ops, rosomaxa_new c = Some p0 /\ c_initial c = 3%nat /\ run zcmp (zdedup 5 false) ops p0 = None.
Proof. exact rosomaxa_small_initial_size_panics. Qed.

(* non-vacuity: the integer-key order used by the correspondence is a total preorder; a history through all three phases exists *)
Theorem C08_nonvacuous_order : total_preorder zcmp.
Proof. exact zcmp_total_preorder. Qed.
Theorem C08_nonvacuous_history :
  exists p0 ops p, rosomaxa_new {| c_initial := 4; c_sel := 7; c_elite := 2; c_er := 32 |} = Some p0 /\
    run zcmp (zdedup 5 false) ops p0 = Some p /\ phase_rank p = 2%nat /\
    map zid (ranked p) = [7; 5] /\ length (offered ops) = 7%nat.
Proof. exact nonvacuous_history. Qed.

(* ===================== depth: statements that were only validated before ===================== *)

(* every ranked individual is an offered one (or the best_known Greedy::new was given) *)
Theorem C08_ranked_offered :
  forall (ind : Type) (cmp : ind -> ind -> comparison) (dedup : ind -> ind -> bool), total_preorder cmp ->
  forall p0 : pop ind, start_state p0 -> forall (ops : list (op ind)) (p : pop ind),
  run cmp dedup ops p0 = Some p -> incl (ranked p) (ranked p0 ++ offered ops).
Proof. exact @ranked_offered. Qed.

(* the population is non-empty exactly when something was offered (or it was created with a best_known) *)
Theorem C08_nonempty_iff_offered :
  forall (ind : Type) (cmp : ind -> ind -> comparison) (dedup : ind -> ind -> bool), total_preorder cmp ->
  forall p0 : pop ind, start_state p0 -> forall (ops : list (op ind)) (p : pop ind),
  run cmp dedup ops p0 = Some p -> ((0 < size p)%nat <-> ranked p0 ++ offered ops <> []).
Proof. exact @nonempty_iff_offered. Qed.

(* clause 1 at full strength: the first ranked individual IS one of the offered individuals and a minimum of all of them *)
Theorem C08_best_is_offered_minimum :
  forall (ind : Type) (cmp : ind -> ind -> comparison) (dedup : ind -> ind -> bool), total_preorder cmp ->
  forall p0 : pop ind, start_state p0 -> forall (ops : list (op ind)) (p : pop ind) (b : ind),
  run cmp dedup ops p0 = Some p -> hd_error (ranked p) = Some b ->
  In b (ranked p0 ++ offered ops) /\ (forall x, In x (ranked p0 ++ offered ops) -> cmp b x <> Gt).
Proof. exact @best_is_offered_minimum. Qed.

(* no single operation (add, add_all, generation tick, select, ranked) makes the first ranked individual worse *)
Theorem C08_best_monotone :
  forall (ind : Type) (cmp : ind -> ind -> comparison) (dedup : ind -> ind -> bool), total_preorder cmp ->
  forall p0 : pop ind, start_state p0 -> forall (ops : list (op ind)) (p : pop ind) (o : op ind) (p' : pop ind) (b : ind),
  run cmp dedup ops p0 = Some p -> step cmp dedup p o = Some p' -> hd_error (ranked p) = Some b ->
  exists b', hd_error (ranked p') = Some b' /\ cmp b' b <> Gt.
Proof. exact @best_monotone. Qed.

(* clause 5 strengthened, every population and every phase of Rosomaxa (Initial: all stored solutions; Exploration: elite part
   + node part cut to the phase's selection size; Exploitation: elite part): the selection contains the first ranked individual *)
Theorem C08_select_contains_best :
  forall (ind : Type) (cmp : ind -> ind -> comparison) (dedup : ind -> ind -> bool), total_preorder cmp ->
  forall p0 : pop ind, start_state p0 ->
  forall (ops : list (op ind)) (p : pop ind) (draws : list Z) (hits : list bool) (nodes : list ind) (b : ind),
  run cmp dedup ops p0 = Some p -> (1 <= selection_size p0)%nat -> hd_error (ranked p) = Some b ->
  In b (select p draws hits nodes).
Proof. exact @select_contains_best. Qed.

(* Rosomaxa, Initial phase: the selection is exactly the sequence of all individuals offered so far *)
Theorem C08_rosomaxa_initial_selects_all_offered :
  forall (ind : Type) (cmp : ind -> ind -> comparison) (dedup : ind -> ind -> bool) (p0 : pop ind) (ops : list (op ind)) (p : pop ind)
         (draws : list Z) (hits : list bool) (nodes : list ind),
  start_state p0 -> run cmp dedup ops p0 = Some p -> phase_rank p = 0%nat -> select p draws hits nodes = offered ops.
Proof. exact @initial_select_all_offered. Qed.

(* dedup, part 1: in the ranking of Elitism / the elite of Rosomaxa no individual is a twin of the one ranked directly before it
   (holds for every cmp and dedup, no order laws needed) *)
Theorem C08_no_adjacent_twins :
  forall (ind : Type) (cmp : ind -> ind -> comparison) (dedup : ind -> ind -> bool) (p0 : pop ind) (ops : list (op ind)) (p : pop ind),
  start_state p0 -> run cmp dedup ops p0 = Some p -> is_greedy p = false -> no_adjacent_twins dedup (ranked p).
Proof. exact @no_twins_reachable. Qed.

(* dedup, part 2 — the twin rule of Elitism (any state e, any batch): an individual of the old population or of the batch that is
   not in the new population either has a twin that stays and is no worse ("the better twin survives"), or the population is
   full (max_population_size) of individuals that are all no worse *)
Theorem C08_elitism_twin_rule :
  forall (ind : Type) (cmp : ind -> ind -> comparison) (dedup : ind -> ind -> bool), total_preorder cmp ->
  forall (e : elitism ind) (ys : list ind) (x : ind), In x (e_inds e ++ ys) ->
  let l' := e_inds (e_add_all cmp dedup e ys) in
  In x l' \/ (exists y, In y l' /\ cmp y x <> Gt /\ dedup x y = true) \/
  (length l' = e_max e /\ forall y, In y l' -> cmp y x <> Gt).
Proof. exact @e_add_all_dropped. Qed.

(* ... and of Rosomaxa's elite: additionally an offered individual may be left out because it is strictly worse than the best known
   (the is_comparable_with_best_known filter) *)
Theorem C08_rosomaxa_elite_twin_rule :
  forall (ind : Type) (cmp : ind -> ind -> comparison) (dedup : ind -> ind -> bool), total_preorder cmp ->
  forall (r : rosomaxa ind) (xs : list ind) (x : ind), In x (e_inds (r_elite r) ++ xs) ->
  let l' := e_inds (r_elite (r_add_all cmp dedup r xs)) in
  In x l' \/ (exists y, In y l' /\ cmp y x <> Gt /\ dedup x y = true) \/
  (length l' = e_max (r_elite r) /\ forall y, In y l' -> cmp y x <> Gt) \/
  (exists b, hd_error (e_inds (r_elite r)) = Some b /\ cmp x b = Gt).
Proof. exact @r_add_all_dropped. Qed.

(* last clause at full strength: the result of the evolution loop is no worse than what the population was created with, every
   initial solution and every offspring of every generation *)
Theorem C08_solve_result_best :
  forall (ind : Type) (cmp : ind -> ind -> comparison) (dedup : ind -> ind -> bool), total_preorder cmp ->
  forall p0 : pop ind, start_state p0 ->
  forall (inits : list ind) (gens : list generation) (r : option ind),
  solve cmp dedup p0 inits gens = Some r ->
  forall x, In x (ranked p0) \/ In x inits \/ (exists g, In g gens /\ In x (gen_offspring g)) ->
  exists b, r = Some b /\ cmp b x <> Gt.
Proof. exact @solve_result_best. Qed.

(* Greedy and Elitism have no panicking operation at all *)
Theorem C08_greedy_elitism_no_panic :
  forall (ind : Type) (cmp : ind -> ind -> comparison) (dedup : ind -> ind -> bool) (ops : list (op ind)) (p : pop ind),
  (forall r, p <> PR r) -> run cmp dedup ops p <> None.
Proof. exact @non_rosomaxa_no_panic. Qed.

(* selection sizes: Elitism::select yields exactly selection_size individuals (max(1, round(selection_size * ratio)) under Slow speed)
   from a non-empty population, Greedy yields selection_size copies of its best, Rosomaxa returns all stored solutions in the Initial
   phase, at most the phase's selection size in Exploration and min(phase size, elite selection) in Exploitation *)
Theorem C08_elitism_select_size :
  forall (ind : Type) (e : elitism ind) (draws : list Z), e_inds e <> [] -> length (e_select e draws) = e_sel_size e.
Proof. exact (fun ind e draws H => @e_select_length ind (fun _ _ => Eq) (fun _ _ => false) e draws H). Qed.
Theorem C08_greedy_select_size :
  forall (ind : Type) (g : greedy ind), length (g_select g) = (length (g_ranked g) * g_sel g)%nat.
Proof. exact (fun ind g => @g_select_length ind (fun _ _ => Eq) (fun _ _ => false) g). Qed.
Theorem C08_rosomaxa_select_size :
  forall (ind : Type) (r : rosomaxa ind) (draws : list Z) (hits : list bool) (nodes : list ind),
  match r_phase r with
  | PInitial sols => r_select r draws hits nodes = sols
  | PExploration k _ => (length (r_select r draws hits nodes) <= k)%nat
  | PExploitation k => length (r_select r draws hits nodes) = Nat.min k (length (e_select (r_elite r) draws))
  end.
Proof. exact @r_select_bound. Qed.

(* select and ranked are pure reads; a generation tick never changes the ranking *)
Theorem C08_reads_keep_population :
  forall (ind : Type) (cmp : ind -> ind -> comparison) (dedup : ind -> ind -> bool) (p : pop ind) (o : op ind) (p' : pop ind),
  step cmp dedup p o = Some p' ->
  match o with
  | OSelect _ _ _ | ORanked => p' = p
  | OGen _ _ => ranked p' = ranked p
  | _ => True
  end.
Proof. exact @reads_keep_population. Qed.

(* once a population reports Exploitation it does so forever (Greedy and Elitism always do) *)
Theorem C08_exploitation_absorbing :
  forall (ind : Type) (cmp : ind -> ind -> comparison) (dedup : ind -> ind -> bool) (ops : list (op ind)) (p p' : pop ind),
  run cmp dedup ops p = Some p' -> phase_rank p = 2%nat -> phase_rank p' = 2%nat.
Proof. exact @exploitation_absorbing. Qed.

(* Rosomaxa while in the Initial or Exploration phase: what it stores besides the elite (the Initial solutions, later the bag of
   individuals handed to the GSOM network by create_network / store_batch) is exactly the sequence of everything offered so far —
   so the `nodes` a selection can draw from the (unmodelled) network originate from offered individuals only *)
Theorem C08_rosomaxa_stored_is_offered :
  forall (ind : Type) (cmp : ind -> ind -> comparison) (dedup : ind -> ind -> bool) (p0 : pop ind) (ops : list (op ind)) (p : pop ind)
         (l : list ind),
  start_state p0 -> run cmp dedup ops p0 = Some p -> stored p = Some l -> l = offered ops.
Proof. exact @stored_is_offered. Qed.
