(* C08 — A population never loses its best-known solution. *)
From VRP Require Import Base.Tac Model.Population Proofs.PopulationP.

Theorem C08_greedy_best_never_lost_refuted :
  exists ops p, run zcmp (zdedup 0 false) ops (greedy_new 1 None) = Some p /\
    exists x b, In x (offered ops) /\ hd_error (ranked p) = Some b /\ zcmp b x = Gt.
Proof. exact greedy_add_all_refuted. Qed.
