(* C08 — A population never loses its best-known solution.
   Only the property theorems, each closed by `exact`.  Model: Model/Population.v, lemmas: Proofs/PopulationP.v.
   Reading guide: `run cmp dedup ops p0 = Some p` = the history `ops` (add / add_all / on_generation(stats) / select / ranked,
   with the random draws, is_hit answers and the individuals returned by the GSOM nodes as oracle arguments of select) takes the
   freshly constructed population p0 (Greedy, Elitism or Rosomaxa with a configuration its constructor accepts) to p without a
   panic; `offered ops` = every individual passed to add or add_all; `total_preorder cmp` = what total_order promises. *)
From VRP Require Import Base.Tac Model.Population Proofs.PopulationP Model.EvoConfig Proofs.EvoConfigP.
From Coq Require Import Sorted.

(* clause 1, all three populations (greedy, elitist, self-organising): the first ranked individual is no worse than what the
   population was created with (Greedy::new's optional best_known) and every individual ever offered, singly or in a batch —
   for every total preorder, every dedup predicate, every configuration, every history.
   History of this theorem: up to /repo commit 646d0ea Greedy::add_all folded with `acc || self.add(individual)` (short-circuit),
   the faithful model refuted the clause for Greedy (`C08_greedy_best_never_lost_refuted`, witness add_all [5; 3]) and only
   `_partial` variants (first individual of each batch / batches of at most one) were provable; with the repaired fold
   (`self.add(individual) || acc`) the model offers every individual of a batch and the full clause is proved. *)
Theorem C08_best_never_lost :
  forall (ind : Type) (cmp : ind -> ind -> comparison) (dedup : ind -> ind -> bool), total_preorder cmp ->
  forall p0 : pop ind, start_state p0 -> forall (ops : list (op ind)) (p : pop ind),
  run cmp dedup ops p0 = Some p ->
  forall x, In x (ranked p0 ++ offered ops) -> exists b, hd_error (ranked p) = Some b /\ cmp b x <> Gt.
Proof. exact @best_never_lost. Qed.

(* the batch that exposed the former defect: the better second individual of the batch becomes the best *)
Theorem C08_greedy_add_all_batch_witness :
  exists p, run zcmp (zdedup 0 false) [OAddAll [ZI 1 5 0 1; ZI 2 3 0 1]] (greedy_new 1 None) = Some p /\
    map zid (ranked p) = [2].
Proof. exact greedy_add_all_batch_witness. Qed.

(* clause 2: the ranking is sorted *)
Theorem C08_ranked_sorted :
  forall (ind : Type) (cmp : ind -> ind -> comparison) (dedup : ind -> ind -> bool), total_preorder cmp ->
  forall p0 : pop ind, start_state p0 -> forall (ops : list (op ind)) (p : pop ind),
  run cmp dedup ops p0 = Some p -> StronglySorted (fun a b => cmp a b <> Gt) (ranked p).
Proof. exact @ranked_sorted. Qed.

(* clause 3: sizes stay within the configured bound (1 / max_population_size / elite_size), which never changes *)
Theorem C08_size_bounds :
  forall (ind : Type) (cmp : ind -> ind -> comparison) (dedup : ind -> ind -> bool), total_preorder cmp ->
  forall p0 : pop ind, start_state p0 -> forall (ops : list (op ind)) (p : pop ind),
  run cmp dedup ops p0 = Some p -> (size p <= max_size p)%nat /\ max_size p = max_size p0.
Proof. exact @size_bounds. Qed.

(* clause 4: selection returns only offered individuals (for Rosomaxa in Exploration: provided the network nodes return
   offered individuals — the network is not modelled, this premise is validated on every run) *)
Theorem C08_select_offered :
  forall (ind : Type) (cmp : ind -> ind -> comparison) (dedup : ind -> ind -> bool), total_preorder cmp ->
  forall p0 : pop ind, start_state p0 ->
  forall (ops : list (op ind)) (p : pop ind) (draws : list Z) (hits : list bool) (nodes : list ind),
  run cmp dedup ops p0 = Some p -> incl nodes (offered ops) ->
  forall y, In y (select p draws hits nodes) -> In y (ranked p0 ++ offered ops).
Proof. exact @select_offered. Qed.

(* clause 5: selection returns something whenever the population is non-empty (selection_size >= 1) *)
Theorem C08_select_nonempty :
  forall (ind : Type) (cmp : ind -> ind -> comparison) (dedup : ind -> ind -> bool), total_preorder cmp ->
  forall p0 : pop ind, start_state p0 ->
  forall (ops : list (op ind)) (p : pop ind) (draws : list Z) (hits : list bool) (nodes : list ind),
  run cmp dedup ops p0 = Some p -> (1 <= selection_size p0)%nat -> (0 < size p)%nat ->
  select p draws hits nodes <> [].
Proof. exact @select_nonempty. Qed.

(* the hypothesis selection_size >= 1 is needed: Elitism::new accepts selection_size = 0 and then selects nothing *)
Theorem C08_select_empty_with_zero_selection_size :
  exists p0 ops p, elitism_new 2 0 = Some p0 /\ run zcmp (zdedup 0 false) ops p0 = Some p /\
    (0 < size p)%nat /\ select p [] [] [] = [].
Proof. exact select_empty_with_zero_selection_size. Qed.

(* selection phases only move forward: Initial -> Exploration -> Exploitation (shared with C19) *)
Theorem C08_phases_forward :
  forall (ind : Type) (cmp : ind -> ind -> comparison) (dedup : ind -> ind -> bool) (p : pop ind) (o : op ind) (p' : pop ind),
  step cmp dedup p o = Some p' -> (phase_rank p <= phase_rank p')%nat.
Proof. exact @phases_forward. Qed.

(* consequence: the evolution loop (initial solutions through `add`, then per generation select / add_all offspring /
   on_generation, result = first ranked) never ends with a head worse than an initial solution — all three populations *)
Theorem C08_seeded_never_worse :
  forall (ind : Type) (cmp : ind -> ind -> comparison) (dedup : ind -> ind -> bool), total_preorder cmp ->
  forall p0 : pop ind, start_state p0 ->
  forall (inits : list ind) (gens : list generation) (r : option ind),
  solve cmp dedup p0 inits gens = Some r ->
  forall x, In x inits -> exists b, r = Some b /\ cmp b x <> Gt.
Proof. exact @seeded_never_worse. Qed.

(* histories never panic for Rosomaxa with initial_size >= 4 (Greedy and Elitism have no panicking step in the model) ... *)
Theorem C08_rosomaxa_no_panic :
  forall (ind : Type) (cmp : ind -> ind -> comparison) (dedup : ind -> ind -> bool) (c : rconfig) (p0 : pop ind) (ops : list (op ind)),
  (4 <= c_initial c)%nat -> rosomaxa_new c = Some p0 -> run cmp dedup ops p0 <> None.
Proof. exact @rosomaxa_no_panic. Qed.
(* ... and do for smaller initial_size, which Rosomaxa::new accepts (expect("cannot create network")) *)
Theorem C08_rosomaxa_small_initial_size_panics :
  exists c p0 ops, rosomaxa_new c = Some p0 /\ c_initial c = 3%nat /\ run zcmp (zdedup 5 false) ops p0 = None.
Proof. exact rosomaxa_small_initial_size_panics. Qed.

(* non-vacuity: the integer-key order used by the correspondence is a total preorder; a history through all three phases exists *)
Theorem C08_nonvacuous_order : total_preorder zcmp.
Proof. exact zcmp_total_preorder. Qed.
Theorem C08_nonvacuous_history :
  exists p0 ops p, rosomaxa_new {| c_initial := 4; c_sel := 7; c_elite := 2; c_er := 32 |} = Some p0 /\
    run zcmp (zdedup 5 false) ops p0 = Some p /\ phase_rank p = 2%nat /\
    map zid (ranked p) = [7; 5] /\ length (offered ops) = 7%nat.
Proof. exact nonvacuous_history. Qed.

(* ===================== depth: statements that were only validated before ===================== *)

(* every ranked individual is an offered one (or the best_known Greedy::new was given) *)
Theorem C08_ranked_offered :
  forall (ind : Type) (cmp : ind -> ind -> comparison) (dedup : ind -> ind -> bool), total_preorder cmp ->
  forall p0 : pop ind, start_state p0 -> forall (ops : list (op ind)) (p : pop ind),
  run cmp dedup ops p0 = Some p -> incl (ranked p) (ranked p0 ++ offered ops).
Proof. exact @ranked_offered. Qed.

(* the population is non-empty exactly when something was offered (or it was created with a best_known) *)
Theorem C08_nonempty_iff_offered :
  forall (ind : Type) (cmp : ind -> ind -> comparison) (dedup : ind -> ind -> bool), total_preorder cmp ->
  forall p0 : pop ind, start_state p0 -> forall (ops : list (op ind)) (p : pop ind),
  run cmp dedup ops p0 = Some p -> ((0 < size p)%nat <-> ranked p0 ++ offered ops <> []).
Proof. exact @nonempty_iff_offered. Qed.

(* clause 1 at full strength: the first ranked individual IS one of the offered individuals and a minimum of all of them *)
Theorem C08_best_is_offered_minimum :
  forall (ind : Type) (cmp : ind -> ind -> comparison) (dedup : ind -> ind -> bool), total_preorder cmp ->
  forall p0 : pop ind, start_state p0 -> forall (ops : list (op ind)) (p : pop ind) (b : ind),
  run cmp dedup ops p0 = Some p -> hd_error (ranked p) = Some b ->
  In b (ranked p0 ++ offered ops) /\ (forall x, In x (ranked p0 ++ offered ops) -> cmp b x <> Gt).
Proof. exact @best_is_offered_minimum. Qed.

(* no single operation (add, add_all, generation tick, select, ranked) makes the first ranked individual worse *)
Theorem C08_best_monotone :
  forall (ind : Type) (cmp : ind -> ind -> comparison) (dedup : ind -> ind -> bool), total_preorder cmp ->
  forall p0 : pop ind, start_state p0 -> forall (ops : list (op ind)) (p : pop ind) (o : op ind) (p' : pop ind) (b : ind),
  run cmp dedup ops p0 = Some p -> step cmp dedup p o = Some p' -> hd_error (ranked p) = Some b ->
  exists b', hd_error (ranked p') = Some b' /\ cmp b' b <> Gt.
Proof. exact @best_monotone. Qed.

(* clause 5 strengthened, every population and every phase of Rosomaxa (Initial: all stored solutions; Exploration: elite part
   + node part cut to the phase's selection size; Exploitation: elite part): the selection contains the first ranked individual *)
Theorem C08_select_contains_best :
  forall (ind : Type) (cmp : ind -> ind -> comparison) (dedup : ind -> ind -> bool), total_preorder cmp ->
  forall p0 : pop ind, start_state p0 ->
  forall (ops : list (op ind)) (p : pop ind) (draws : list Z) (hits : list bool) (nodes : list ind) (b : ind),
  run cmp dedup ops p0 = Some p -> (1 <= selection_size p0)%nat -> hd_error (ranked p) = Some b ->
  In b (select p draws hits nodes).
Proof. exact @select_contains_best. Qed.

(* Rosomaxa, Initial phase: the selection is exactly the sequence of all individuals offered so far *)
Theorem C08_rosomaxa_initial_selects_all_offered :
  forall (ind : Type) (cmp : ind -> ind -> comparison) (dedup : ind -> ind -> bool) (p0 : pop ind) (ops : list (op ind)) (p : pop ind)
         (draws : list Z) (hits : list bool) (nodes : list ind),
  start_state p0 -> run cmp dedup ops p0 = Some p -> phase_rank p = 0%nat -> select p draws hits nodes = offered ops.
Proof. exact @initial_select_all_offered. Qed.

(* dedup, part 1: in the ranking of Elitism / the elite of Rosomaxa no individual is a twin of the one ranked directly before it
   (holds for every cmp and dedup, no order laws needed) *)
Theorem C08_no_adjacent_twins :
  forall (ind : Type) (cmp : ind -> ind -> comparison) (dedup : ind -> ind -> bool) (p0 : pop ind) (ops : list (op ind)) (p : pop ind),
  start_state p0 -> run cmp dedup ops p0 = Some p -> is_greedy p = false -> no_adjacent_twins dedup (ranked p).
Proof. exact @no_twins_reachable. Qed.

(* dedup, part 2 — the twin rule of Elitism (any state e, any batch): an individual of the old population or of the batch that is
   not in the new population either has a twin that stays and is no worse ("the better twin survives"), or the population is
   full (max_population_size) of individuals that are all no worse *)
Theorem C08_elitism_twin_rule :
  forall (ind : Type) (cmp : ind -> ind -> comparison) (dedup : ind -> ind -> bool), total_preorder cmp ->
  forall (e : elitism ind) (ys : list ind) (x : ind), In x (e_inds e ++ ys) ->
  let l' := e_inds (e_add_all cmp dedup e ys) in
  In x l' \/ (exists y, In y l' /\ cmp y x <> Gt /\ dedup x y = true) \/
  (length l' = e_max e /\ forall y, In y l' -> cmp y x <> Gt).
Proof. exact @e_add_all_dropped. Qed.

(* ... and of Rosomaxa's elite: additionally an offered individual may be left out because it is strictly worse than the best known
   (the is_comparable_with_best_known filter) *)
Theorem C08_rosomaxa_elite_twin_rule :
  forall (ind : Type) (cmp : ind -> ind -> comparison) (dedup : ind -> ind -> bool), total_preorder cmp ->
  forall (r : rosomaxa ind) (xs : list ind) (x : ind), In x (e_inds (r_elite r) ++ xs) ->
  let l' := e_inds (r_elite (r_add_all cmp dedup r xs)) in
  In x l' \/ (exists y, In y l' /\ cmp y x <> Gt /\ dedup x y = true) \/
  (length l' = e_max (r_elite r) /\ forall y, In y l' -> cmp y x <> Gt) \/
  (exists b, hd_error (e_inds (r_elite r)) = Some b /\ cmp x b = Gt).
Proof. exact @r_add_all_dropped. Qed.

(* last clause at full strength: the result of the evolution loop is no worse than what the population was created with, every
   initial solution and every offspring of every generation *)
Theorem C08_solve_result_best :
  forall (ind : Type) (cmp : ind -> ind -> comparison) (dedup : ind -> ind -> bool), total_preorder cmp ->
  forall p0 : pop ind, start_state p0 ->
  forall (inits : list ind) (gens : list generation) (r : option ind),
  solve cmp dedup p0 inits gens = Some r ->
  forall x, In x (ranked p0) \/ In x inits \/ (exists g, In g gens /\ In x (gen_offspring g)) ->
  exists b, r = Some b /\ cmp b x <> Gt.
Proof. exact @solve_result_best. Qed.

(* Greedy and Elitism have no panicking operation at all *)
Theorem C08_greedy_elitism_no_panic :
  forall (ind : Type) (cmp : ind -> ind -> comparison) (dedup : ind -> ind -> bool) (ops : list (op ind)) (p : pop ind),
  (forall r, p <> PR r) -> run cmp dedup ops p <> None.
Proof. exact @non_rosomaxa_no_panic. Qed.

(* selection sizes: Elitism::select yields exactly selection_size individuals (max(1, round(selection_size * ratio)) under Slow speed)
   from a non-empty population, Greedy yields selection_size copies of its best, Rosomaxa returns all stored solutions in the Initial
   phase, at most the phase's selection size in Exploration and min(phase size, elite selection) in Exploitation *)
Theorem C08_elitism_select_size :
  forall (ind : Type) (e : elitism ind) (draws : list Z), e_inds e <> [] -> length (e_select e draws) = e_sel_size e.
Proof. exact (fun ind e draws H => @e_select_length ind (fun _ _ => Eq) (fun _ _ => false) e draws H). Qed.
Theorem C08_greedy_select_size :
  forall (ind : Type) (g : greedy ind), length (g_select g) = (length (g_ranked g) * g_sel g)%nat.
Proof. exact (fun ind g => @g_select_length ind (fun _ _ => Eq) (fun _ _ => false) g). Qed.
Theorem C08_rosomaxa_select_size :
  forall (ind : Type) (r : rosomaxa ind) (draws : list Z) (hits : list bool) (nodes : list ind),
  match r_phase r with
  | PInitial sols => r_select r draws hits nodes = sols
  | PExploration k _ => (length (r_select r draws hits nodes) <= k)%nat
  | PExploitation k => length (r_select r draws hits nodes) = Nat.min k (length (e_select (r_elite r) draws))
  end.
Proof. exact @r_select_bound. Qed.

(* select and ranked are pure reads; a generation tick never changes the ranking *)
Theorem C08_reads_keep_population :
  forall (ind : Type) (cmp : ind -> ind -> comparison) (dedup : ind -> ind -> bool) (p : pop ind) (o : op ind) (p' : pop ind),
  step cmp dedup p o = Some p' ->
  match o with
  | OSelect _ _ _ | ORanked => p' = p
  | OGen _ _ => ranked p' = ranked p
  | _ => True
  end.
Proof. exact @reads_keep_population. Qed.

(* once a population reports Exploitation it does so forever (Greedy and Elitism always do) *)
Theorem C08_exploitation_absorbing :
  forall (ind : Type) (cmp : ind -> ind -> comparison) (dedup : ind -> ind -> bool) (ops : list (op ind)) (p p' : pop ind),
  run cmp dedup ops p = Some p' -> phase_rank p = 2%nat -> phase_rank p' = 2%nat.
Proof. exact @exploitation_absorbing. Qed.

(* Rosomaxa while in the Initial or Exploration phase: what it stores besides the elite (the Initial solutions, later the bag of
   individuals handed to the GSOM network by create_network / store_batch) is exactly the sequence of everything offered so far —
   so the `nodes` a selection can draw from the (unmodelled) network originate from offered individuals only *)
Theorem C08_rosomaxa_stored_is_offered :
  forall (ind : Type) (cmp : ind -> ind -> comparison) (dedup : ind -> ind -> bool) (p0 : pop ind) (ops : list (op ind)) (p : pop ind)
         (l : list ind),
  start_state p0 -> run cmp dedup ops p0 = Some p -> stored p = Some l -> l = offered ops.
Proof. exact @stored_is_offered. Qed.


(* ===================== the configuration side of the last clause (Model/EvoConfig.v) =====================
   Reading guide: `apply_all calls default_builder` = the EvolutionConfigBuilder after the setter calls `calls` (ANY order, any number of
   repetitions); `build` = EvolutionConfigBuilder::build; `sim_new` = EvolutionSimulator::new; `evolve` = EvolutionSimulator::run for the
   built-in Iterative strategy; `solve_with calls ..` = all of it (None: a constructor returned Err; OCustom: a user strategy ran).
   Oracle arguments of a run, all universally quantified: clock (time-based criteria), created (what the initial operators returned), gens
   (per generation: selection oracles, offspring, statistics), pre / post (the processing hooks). *)

(* which seeds a builder holds depends only on the LAST with_init_solutions call: nothing before it and no other setter after it
   (with_initial in particular) changes them *)
Theorem C08_builder_seeds_are_last_init_solutions :
  forall (ind : Type) (b : builder ind) (pre_calls : list (setter ind)) (seeds : list ind) (max_init_size : option nat)
         (post_calls : list (setter ind)),
  (forall s, In s post_calls -> is_init_solutions s = false) ->
  i_inds (b_initial (apply_all (pre_calls ++ WithInitSolutions seeds max_init_size :: post_calls) b)) = seeds.
Proof. exact @seeds_last. Qed.

(* no with_init_solutions call at all: a default builder holds no seeds *)
Theorem C08_builder_no_seeds_without_init_solutions :
  forall (ind : Type) (calls : list (setter ind)),
  (forall s, In s calls -> is_init_solutions s = false) -> i_inds (b_initial (apply_all calls default_builder)) = [].
Proof. exact @seeds_none. Qed.

(* with_init_solutions(seeds, None) commutes with every other setter: wherever it stands in the sequence, the builder is the same *)
Theorem C08_builder_init_solutions_position_immaterial :
  forall (ind : Type) (b : builder ind) (pre_calls post_calls : list (setter ind)) (seeds : list ind),
  (forall s, In s post_calls -> is_init_solutions s = false) ->
  apply_all (pre_calls ++ WithInitSolutions seeds None :: post_calls) b =
  apply_all (pre_calls ++ post_calls ++ [WithInitSolutions seeds None]) b.
Proof. exact @seeds_position_immaterial. Qed.

(* initial.max_size: the last of with_initial(max_size, ..) / with_init_solutions(.., Some(max_size)) decides, 4 when there is none *)
Theorem C08_builder_max_size_is_last_set :
  forall (ind : Type) (b : builder ind) (pre_calls : list (setter ind)) (s : setter ind) (m : nat) (post_calls : list (setter ind)),
  sets_max s = Some m -> (forall s', In s' post_calls -> sets_max s' = None) ->
  i_max (b_initial (apply_all (pre_calls ++ s :: post_calls) b)) = m.
Proof. exact @max_last. Qed.
Theorem C08_builder_max_size_default :
  forall (ind : Type) (calls : list (setter ind)),
  (forall s, In s calls -> sets_max s = None) -> i_max (b_initial (apply_all calls default_builder)) = 4%nat.
Proof. exact @max_default. Qed.

(* operators and quota: the last with_initial decides; the heuristic context: the last with_context *)
Theorem C08_builder_operators_are_last_with_initial :
  forall (ind : Type) (b : builder ind) (pre_calls : list (setter ind)) (m : nat) (q : Z) (o : operators) (post_calls : list (setter ind)),
  (forall s, In s post_calls -> is_with_initial s = false) ->
  i_ops (b_initial (apply_all (pre_calls ++ WithInitial m q o :: post_calls) b)) = o /\
  i_quota (b_initial (apply_all (pre_calls ++ WithInitial m q o :: post_calls) b)) = q.
Proof. exact @ops_last. Qed.
Theorem C08_builder_context_is_last_with_context :
  forall (ind : Type) (b : builder ind) (pre_calls : list (setter ind)) (c : context ind) (post_calls : list (setter ind)),
  (forall s, In s post_calls -> is_with_context s = false) ->
  b_context (apply_all (pre_calls ++ WithContext c :: post_calls) b) = Some c.
Proof. exact @context_last. Qed.

(* build: succeeds exactly when a context was set, the variation interval type (if any) is known, and a strategy, a heuristic or both
   operator sets were given; the built configuration carries the builder's `initial` (seeds included), processing and context unchanged *)
Theorem C08_config_build_succeeds_iff :
  forall (ind : Type) (b : builder ind),
  (exists c, build b = inl c) <->
  (b_context b <> None /\ interval_known b /\
   (b_strategy b <> None \/ b_heuristic b <> None \/ (b_search b <> None /\ b_diversify b <> None))).
Proof. exact @build_ok_iff. Qed.
Theorem C08_config_build_keeps_initial :
  forall (ind : Type) (b : builder ind) (c : config ind), build b = inl c ->
  cfg_initial c = b_initial b /\ cfg_processing c = b_processing b /\ b_context b = Some (cfg_context c).
Proof. exact @build_fields. Qed.

(* the run offers the first max_size seeds to the population of the configured context before anything else ... *)
Theorem C08_config_seeds_offered_first :
  forall (ind : Type) (pre : Z -> context ind -> context ind)
         (calls pre_calls post_calls : list (setter ind)) (seeds : list ind) (max_init_size : option nat) (c : config ind),
  calls = pre_calls ++ WithInitSolutions seeds max_init_size :: post_calls ->
  (forall s, In s post_calls -> is_init_solutions s = false) ->
  build (apply_all calls default_builder) = inl c ->
  seeds_offered c = firstn (i_max (b_initial (apply_all calls default_builder))) seeds /\
  forall clock created gens, exists rest, evolve_ops pre c clock created gens = map OAdd (seeds_offered c) ++ rest.
Proof. exact @builder_seeds_offered_first. Qed.

(* ... the initial stage never offers more than max_size individuals, operator slot idx < operators.len() goes to operator idx; with
   only a generation limit > 0 and a non-negative quota the stage fills the population up to max_size; the quota / termination tests stop
   it only once the population holds a solution (/repo 2c5dd99): under a generation limit of 0 nothing is created when a seed was
   offered (or the population was non-empty), exactly one individual otherwise, and whatever the criteria, the quota and the clock an
   empty population gets at least one operator-built individual (max_size > 0) *)
Theorem C08_config_initial_stage_bounds :
  forall (ind : Type) (pre : Z -> context ind -> context ind) (c : config ind) (clock : list (bool * Z)) (created : list ind),
  (length (init_offered pre c clock created) <= i_max (cfg_initial c))%nat /\
  (forall k, In (Some k) (init_slots pre c clock) -> (k < length (i_ops (cfg_initial c)))%nat) /\
  (has_other_criteria (cfg_termination c) = false -> maxgen_terminated0 (cfg_termination c) = false -> 0 <= i_quota (cfg_initial c) ->
   length (init_slots pre c clock) = (i_max (cfg_initial c) - length (seeds_offered c))%nat) /\
  (maxgen_terminated0 (cfg_termination c) = true -> has_solution pre c 0 = true -> init_slots pre c clock = []) /\
  (maxgen_terminated0 (cfg_termination c) = true -> has_solution pre c 0 = false -> (0 < i_max (cfg_initial c))%nat ->
   length (init_slots pre c clock) = 1%nat) /\
  (has_solution pre c 0 = false -> (0 < i_max (cfg_initial c))%nat -> init_slots pre c clock <> []).
Proof.
  exact (fun ind pre c clock created =>
    conj (@init_offered_length ind pre c clock created)
   (conj (fun k H => @created_slots_valid ind pre c clock _ _ _ k H)
   (conj (@init_slots_full ind pre c clock)
   (conj (@init_slots_none ind pre c clock)
   (conj (@init_slots_one ind pre c clock) (@init_slots_nonempty ind pre c clock)))))).
Qed.

(* the count `has_solution` of the model is the code's test `ranked().next().is_some()`: after the seeds and i operator-created
   individuals were offered to the freshly constructed population of the context, the population is non-empty exactly when has_solution c i *)
Theorem C08_config_has_solution_faithful :
  forall (ind : Type) (cmp : ind -> ind -> comparison) (dedup : ind -> ind -> bool), total_preorder cmp ->
  forall (pre : Z -> context ind -> context ind) (c : config ind) (xs : list ind) (p : pop ind),
  start_state (snd (pre_process pre c)) ->
  run cmp dedup (map OAdd (seeds_offered c ++ xs)) (snd (pre_process pre c)) = Some p ->
  (has_solution pre c (length xs) = true <-> ranked p <> []).
Proof. exact @has_solution_faithful. Qed.

(* THE LAST CLAUSE, from the configuration side, for ALL orders of setter calls: whatever sequence of setters is applied to a default
   builder, if its last with_init_solutions call carried `seeds`, every context handed to with_context owns a freshly constructed
   population (Greedy, Elitism or Rosomaxa), the context hooks keep that, the solution hooks do not worsen a solution, and the built-in
   strategy ran — then the returned solution is no worse than each of the first max_size seeds (all seeds when there are at most
   max_size of them), for every total preorder, every dedup predicate, every oracle. *)
Theorem C08_builder_seeded_never_worse :
  forall (ind : Type) (cmp : ind -> ind -> comparison) (dedup : ind -> ind -> bool), total_preorder cmp ->
  forall (pre : Z -> context ind -> context ind) (post : Z -> ind -> ind),
  (forall h c, start_state (snd c) -> start_state (snd (pre h c))) -> (forall h s, cmp (post h s) s <> Gt) ->
  forall (calls pre_calls post_calls : list (setter ind)) (seeds : list ind) (max_init_size : option nat)
         (clock : list (bool * Z)) (created : list ind) (gens : list generation) (r : list ind),
  calls = pre_calls ++ WithInitSolutions seeds max_init_size :: post_calls ->
  (forall s, In s post_calls -> is_init_solutions s = false) ->
  (forall c, In (WithContext c) calls -> start_state (snd c)) ->
  solve_with cmp dedup pre post calls clock created gens = Some (OResult r) ->
  forall x, In x (firstn (i_max (b_initial (apply_all calls default_builder))) seeds) ->
  exists b, hd_error r = Some b /\ cmp b x <> Gt.
Proof. exact @builder_seeded_never_worse. Qed.
Theorem C08_builder_all_seeds_never_worse :
  forall (ind : Type) (cmp : ind -> ind -> comparison) (dedup : ind -> ind -> bool), total_preorder cmp ->
  forall (pre : Z -> context ind -> context ind) (post : Z -> ind -> ind),
  (forall h c, start_state (snd c) -> start_state (snd (pre h c))) -> (forall h s, cmp (post h s) s <> Gt) ->
  forall (calls pre_calls post_calls : list (setter ind)) (seeds : list ind) (max_init_size : option nat)
         (clock : list (bool * Z)) (created : list ind) (gens : list generation) (r : list ind),
  calls = pre_calls ++ WithInitSolutions seeds max_init_size :: post_calls ->
  (forall s, In s post_calls -> is_init_solutions s = false) ->
  (forall c, In (WithContext c) calls -> start_state (snd c)) ->
  (length seeds <= i_max (b_initial (apply_all calls default_builder)))%nat ->
  solve_with cmp dedup pre post calls clock created gens = Some (OResult r) ->
  forall x, In x seeds -> exists b, hd_error r = Some b /\ cmp b x <> Gt.
Proof. exact @builder_all_seeds_never_worse. Qed.

(* the run of ANY configuration whose context owns a freshly constructed population: the result is no worse than everything that
   reached the population — seeds, operator-created individuals, every offspring *)
Theorem C08_config_run_result_best :
  forall (ind : Type) (cmp : ind -> ind -> comparison) (dedup : ind -> ind -> bool), total_preorder cmp ->
  forall (pre : Z -> context ind -> context ind) (post : Z -> ind -> ind),
  (forall h c, start_state (snd c) -> start_state (snd (pre h c))) -> (forall h s, cmp (post h s) s <> Gt) ->
  forall (c : config ind) (clock : list (bool * Z)) (created : list ind) (gens : list generation) (r : list ind),
  start_state (snd (cfg_context c)) ->
  evolve cmp dedup pre post c clock created gens = OResult r ->
  forall x, In x (init_offered pre c clock created) \/ (exists g, In g gens /\ In x (gen_offspring g)) ->
  exists b, hd_error r = Some b /\ cmp b x <> Gt.
Proof. exact @evolve_result_best. Qed.

(* the run of a configuration never panics when the (pre-processed) context owns a freshly constructed population which, if it is a
   Rosomaxa, has initial_size >= 4 (the default configuration has 16) *)
Theorem C08_config_run_no_panic :
  forall (ind : Type) (cmp : ind -> ind -> comparison) (dedup : ind -> ind -> bool)
         (pre : Z -> context ind -> context ind) (post : Z -> ind -> ind) (c : config ind)
         (clock : list (bool * Z)) (created : list ind) (gens : list generation),
  start_state (snd (pre_process pre c)) -> panic_free (snd (pre_process pre c)) ->
  evolve cmp dedup pre post c clock created gens <> OPanic.
Proof. exact @evolve_no_panic. Qed.

(* get_default_population: Greedy(1) for selection size 1, Rosomaxa with the default configuration otherwise; it panics (expect) exactly
   for selection size 0; what it returns is a constructor state with that selection size (so every population theorem above applies,
   selections are non-empty) and never panics in Network::new (initial_size 16) *)
Theorem C08_default_population :
  forall (ind : Type) (sel : nat),
  (@default_population ind sel = None <-> sel = 0%nat) /\
  (forall p : pop ind, default_population sel = Some p ->
     start_state p /\ selection_size p = sel /\ (1 <= sel)%nat /\
     (sel = 1%nat -> p = greedy_new 1 None) /\
     (sel <> 1%nat -> exists r, p = PR r /\ r_cfg r = default_rconfig sel /\ r_phase r = PInitial [])) /\
  (forall (cmp : ind -> ind -> comparison) (dedup : ind -> ind -> bool) (p : pop ind) (ops : list (op ind)),
     default_population sel = Some p -> run cmp dedup ops p <> None).
Proof.
  exact (fun ind sel => conj (@default_population_none ind sel)
                       (conj (@default_population_spec ind sel)
                             (fun cmp dedup p ops => @default_population_no_panic ind cmp dedup sel p ops))).
Qed.

(* the two VRP front ends as setter sequences: vrp-cli's config-file path (create_builder_from_config: with_init_solutions BEFORE the
   optional with_initial of evolution.initial) and its command line path keep the given solutions as seeds, whatever optional sections
   the config file has *)
Theorem C08_cli_config_path_keeps_seeds :
  forall (ind : Type) (h : Z) (ctx : context ind) (ch sh : list Z) (ops : operators) (solutions : list ind)
         (evo_initial : option (nat * Z * operators)) (evo_population : option (context ind)) (hyper : option Z)
         (termination : option (option nat * option nat * option Z)),
  let b := apply_all (cli_config_calls h ctx ch sh ops solutions evo_initial evo_population hyper termination) default_builder in
  i_inds (b_initial b) = solutions /\
  i_max (b_initial b) = match evo_initial with Some (m, _, _) => m | None => 4%nat end /\
  i_ops (b_initial b) = match evo_initial with Some (_, _, o) => o | None => ops end /\
  b_context b = Some (match evo_population with Some c => c | None => ctx end).
Proof. exact @cli_config_initial. Qed.
Theorem C08_cli_args_path_keeps_seeds :
  forall (ind : Type) (h : Z) (ctx : context ind) (ch sh : list Z) (ops : operators) (solutions : list ind) (init_size : option nat)
         (g t : option nat) (cv : option Z) (ctx' : context ind),
  let b := apply_all (cli_args_calls h ctx ch sh ops solutions init_size g t cv ctx') default_builder in
  i_inds (b_initial b) = solutions /\
  i_max (b_initial b) = match init_size with Some m => m | None => 4%nat end /\
  i_ops (b_initial b) = ops /\ b_context b = Some ctx'.
Proof. exact @cli_args_initial. Qed.

(* non-vacuity: both orders of the pair with_init_solutions / with_initial over an Elitism population — a configuration is built, the
   seeds 1 and 2 are offered first, two operator-created individuals follow, three generations run, and the seed with the best key is
   returned;  and max_size really cuts: with_init_solutions(S, Some 1) offers only the first seed *)
Theorem C08_nonvacuous_builder :
  forall first_seeds : bool,
  let a := ZInitSolutions [ZI 1 3 0 10; ZI 2 9 0 30] None in
  let b := ZInitial 4 50 [(10, 1)] in
  run_builder ([ZHeuristic 20; ZContext 70 (ZPElitism 4 2)] ++ (if first_seeds then [a; b] else [b; a]) ++ [ZMaxGen (Some 2)])
              [] [ZI 11 20 0 50; ZI 12 22 0 70; ZI 13 24 0 90] [[ZI 21 15 0 55]; []; []] =
  (0, 70, [(0, 2)], (1, 20), 4, ([], []), [1; 2], [-1; -1],
   [(0, [1]); (0, [2]); (0, [11]); (0, [12]); (3, []); (1, [21]); (2, []); (3, []); (1, []); (2, []); (3, []); (1, []); (2, []); (4, [])],
   [1], false, (2, 4, [1; 1])).
Proof. exact builder_nonvacuous. Qed.
Theorem C08_builder_max_size_cuts_seeds :
  run_builder [ZHeuristic 20; ZContext 70 (ZPGreedy 1); ZInitial 4 50 [(10, 1)]; ZInitSolutions [ZI 1 9 0 10; ZI 2 3 0 30] (Some 1);
               ZMaxGen (Some 0)] [] [] [] =
  (0, 70, [(0, 0)], (1, 20), 1, ([], []), [1], [], [(0, [1]); (4, [])], [1], false, (2, 1, [1])).
Proof. exact builder_max_size_cuts_seeds. Qed.

(* ===================== further depth on the populations ===================== *)

(* the ranking depends on the offering operations only: two histories from the same population whose add / add_all operations agree
   (in order) end with the same ranking, whatever generation ticks (statistics: speed, termination estimate) and selections (random
   draws, is_hit answers, network answers) are interleaved and wherever — in particular the ranking of Rosomaxa does not depend on its
   phase or its network *)
Theorem C08_ranked_depends_on_offers_only :
  forall (ind : Type) (cmp : ind -> ind -> comparison) (dedup : ind -> ind -> bool) (ops1 ops2 : list (op ind)) (p0 p1 p2 : pop ind),
  offers ops1 = offers ops2 -> run cmp dedup ops1 p0 = Some p1 -> run cmp dedup ops2 p0 = Some p2 -> ranked p1 = ranked p2.
Proof. exact @ranked_depends_on_offers. Qed.

(* the bool returned by add / add_all (Greedy: the best was replaced; Elitism / Rosomaxa's elite: is_improved): exactly the offering
   operations return one; whenever the operation makes the first ranked individual strictly better or fills an empty population it
   returns true; when it returns false the first ranked individual is the old one or one of the same fitness.
   Hypothesis: the order is a function of the fitness (fit_differs a b = false -> cmp a b = Eq). *)
Theorem C08_add_returns_true_on_improvement :
  forall (ind : Type) (cmp : ind -> ind -> comparison) (dedup : ind -> ind -> bool) (fit_differs : ind -> ind -> bool),
  total_preorder cmp -> (forall a b, fit_differs a b = false -> cmp a b = Eq) ->
  forall (p : pop ind) (o : op ind) (p' : pop ind), step cmp dedup p o = Some p' -> is_offer o = true ->
  match hd_error (ranked p), hd_error (ranked p') with
  | Some b, Some b' => cmp b' b = Lt -> step_ret cmp dedup fit_differs p o = Some true
  | None, Some _ => step_ret cmp dedup fit_differs p o = Some true
  | _, _ => True
  end.
Proof. exact @step_ret_true_on_improvement. Qed.
Theorem C08_add_returns_false_keeps_best_fitness :
  forall (ind : Type) (cmp : ind -> ind -> comparison) (dedup : ind -> ind -> bool) (fit_differs : ind -> ind -> bool)
         (p : pop ind) (o : op ind) (p' : pop ind),
  step cmp dedup p o = Some p' -> step_ret cmp dedup fit_differs p o = Some false ->
  hd_error (ranked p') = hd_error (ranked p) \/
  exists b b', hd_error (ranked p) = Some b /\ hd_error (ranked p') = Some b' /\ fit_differs b b' = false.
Proof. exact @step_ret_false. Qed.
Theorem C08_add_returns_bool_iff_offer :
  forall (ind : Type) (cmp : ind -> ind -> comparison) (dedup : ind -> ind -> bool) (fit_differs : ind -> ind -> bool)
         (p : pop ind) (o : op ind),
  (exists b, step_ret cmp dedup fit_differs p o = Some b) <-> is_offer o = true.
Proof. exact @step_ret_some. Qed.
(* non-vacuity of the fitness hypothesis: the integer-keyed individuals of the correspondence (fitness [key] or [key, tag]) *)
Theorem C08_nonvacuous_fitness_order : forall (two : bool) (a b : zi), zfit_differs two a b = false -> zcmp a b = Eq.
Proof. exact zfit_differs_order. Qed.
