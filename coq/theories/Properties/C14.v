(* C14 — Tours and the vehicle registry stay well-formed under any operation sequence.
   Only the property theorems, each closed by `exact`.  Model: Model/TourReg.v (tied to the Rust code by the
   correspondence run of every check), proofs: Proofs/TourRegP.v.

   Clauses of the statement and where they are proved:
     (a) depot ends stay in place ............ C14_tour_wf_history (under the index guard of insert_at; insert_last, remove,
                                                remove_activity_at need no guard: C14_tour_wf_history_no_insert_at);
                                                the unguarded statement is false for the code as written:
                                                C14_tour_ends_unguarded_refuted (finding C14-F1/F2); strongest unguarded
                                                statement: C14_tour_weak_history_partial
     (b) job set = jobs of the activities .... C14_tour_weak_history_partial (EVERY history), C14_tour_representation
     (c) consistent counts ................... C14_tour_counts
     (d) legs enumeration .................... C14_tour_legs
     (e) registry offers iff not in use,
         never hands out twice ............... C14_registry_use_spec, C14_registry_free_spec, C14_registry_get_route_spec,
                                                C14_registry_slice_spec, C14_registry_history, C14_registry_next_*
     (f) deep copies independent ............. C14_tour_slots_frame, C14_tour_copy_equal, C14_registry_slots_frame,
                                                C14_registry_copy_equal (functional model: holds by construction; the
                                                Rust-level content — no shared mutable memory — is checked by the harness)
     (e') the registry clause across the hand-over Solution <-> InsertionContext (factories.rs, context.rs):
                                                C14_handover_offers, C14_handover_offers_iff, C14_handover_roundtrip,
                                                C14_handover_history, C14_context_reachable, C14_run_ho_slots
                                                (proofs: Proofs/HandoverP.v) *)
From VRP Require Import Base.Tac Model.TourReg Proofs.TourRegP Proofs.HandoverP.
#[local] Open Scope nat_scope.

(* ------------------------------------------------------------------ tours *)

(* (a)+(b): every guarded history from Tour::new keeps start first, end last (closed tours), only job activities in
   between, and jobs() duplicate-free and equal to the jobs of the activities *)
Theorem C14_tour_wf_history : forall (c : bool) (ops : list top) (t : tour),
  guarded (tour_new c) ops -> trun (tour_new c) ops = Some t ->
  ((exists mid, t_acts t = start_act :: mid ++ (if t_closed t then [end_act] else []) /\
                Forall (fun a => a_job a <> None) mid) /\
   (NoDup (t_jobs t) /\ forall j, In j (t_jobs t) <-> exists a, In a (t_acts t) /\ a_job a = Some j)) /\
  t_closed t = c.
Proof. exact P_C14_tour_wf_history. Qed.

(* histories of insert_last / remove / remove_activity_at alone need no guard at all *)
Theorem C14_tour_wf_history_no_insert_at : forall (c : bool) (ops : list top) (t : tour),
  forallb no_insert_at ops = true -> trun (tour_new c) ops = Some t -> WFTour t /\ t_closed t = c.
Proof. exact P_C14_tour_wf_history_no_insert_at. Qed.

(* one step: well-formedness is preserved and the step is the abstract operation on the list of job activities
   (refinement to "list of activities between fixed ends"); results (removed?/job id) agree *)
Theorem C14_tour_step_refines : forall (t : tour) (o : top),
  WFTour t -> in_guard t o ->
  abs_res (tstep t o) = spec_step (abs t) o /\
  forall t' r, tstep t o = Some (t', r) -> WFTour t' /\ t_closed t' = t_closed t.
Proof. exact P_C14_tour_step_refines. Qed.

(* the concrete tour is determined by its abstract value *)
Theorem C14_tour_representation : forall t, WFTour t ->
  t_acts t = start_act :: abs t ++ ends (t_closed t) /\ Forall (fun a => hasjob a = true) (abs t) /\
  NoDup (t_jobs t) /\ (forall j, In j (t_jobs t) <-> exists a, In a (abs t) /\ a_job a = Some j).
Proof. exact wftour_repr. Qed.

(* (a) full statement without the guard is FALSE for the code as written: insert_at(_, 0) displaces the start,
   insert_at(_, total) on a closed tour displaces the end; neither panics *)
Theorem C14_tour_ends_unguarded_refuted :
  (exists ops t, trun (tour_new true) ops = Some t /\ hd_error (t_acts t) <> Some start_act) /\
  (exists ops t, trun (tour_new true) ops = Some t /\ last (t_acts t) start_act <> end_act).
Proof. exact (conj ends_unguarded_refuted end_unguarded_refuted). Qed.

(* strongest statement for EVERY history (no guard): the depots are never lost, duplicated or reordered
   (the activities without a job are exactly start [, end]), and the job set equals the jobs of the activities.
   Missing w.r.t. the full clause (a): the position of the depots (see the refutation above). *)
Theorem C14_tour_weak_history_partial : forall (c : bool) (ops : list top) (t : tour),
  trun (tour_new c) ops = Some t ->
  (filter nojob (t_acts t) = start_act :: ends (t_closed t) /\
   (NoDup (t_jobs t) /\ forall j, In j (t_jobs t) <-> exists a, In a (t_acts t) /\ a_job a = Some j)) /\
  t_closed t = c.
Proof. exact wfweak_history. Qed.

(* (c) counts, for every tour reachable by any history (WFweak) *)
Theorem C14_tour_counts : forall t, WFweak t ->
  total t = job_activity_count t + 1 + (if t_closed t then 1 else 0) /\
  job_activity_count t = length (filter hasjob (t_acts t)) /\
  job_count t <= job_activity_count t /\
  (has_jobs t = true <-> job_activity_count t <> 0).
Proof. exact wfweak_counts. Qed.

(* (d) legs(): leg i is (activity i, activity i+1) with index i; an open tour has the extra last leg holding only its
   last activity (also the single leg of an empty open tour) *)
Theorem C14_tour_legs : forall t, WFweak t ->
  length (legs t) = total t - (if t_closed t then 1 else 0) /\
  forall i, i < total t - (if t_closed t then 1 else 0) ->
            nth_error (legs t) i = Some (firstn 2 (skipn i (t_acts t)), i).
Proof. exact P_C14_tour_legs. Qed.

(* index / index_last / job_activities find a job exactly when contains() holds; removing a job that is not a job of
   the tour (in particular a sub-job of a Multi wrapped as a Single: the job of its activity is the Multi) changes nothing *)
Theorem C14_tour_queries : forall t j, jobs_ok t ->
  (contains t j = true <-> tindex t j <> None) /\ (contains t j = true <-> tindex_last t j <> None) /\
  (contains t j = true <-> job_activities t j <> []).
Proof. exact query_consistent. Qed.
Theorem C14_tour_remove_nonmember : forall t j, jobs_ok t -> contains t j = false -> remove t j = (t, false).
Proof. exact remove_nonmember. Qed.

(* (f) an operation on slot k leaves every other slot untouched; a copy equals its original *)
Theorem C14_tour_slots_frame : forall ss o ss' r k,
  sstep ss o = Some (ss', r, k) -> forall k', k' <> k -> k' < length ss -> nth_error ss' k' = nth_error ss k'.
Proof. exact sstep_frame. Qed.
Theorem C14_tour_copy_equal : forall ss k mode ss' r n,
  sstep ss (SCopy k mode) = Some (ss', r, n) ->
  n = length ss /\ exists s s', nth_error ss k = Some s /\ nth_error ss' n = Some s' /\ s_tour s' = s_tour s /\
                                (mode = 2 -> s_state s' = s_state s).
Proof. exact sstep_copy. Qed.
Theorem C14_tour_slots_wf : forall ss o ss' r k,
  Forall (fun s => WFweak (s_tour s)) ss -> sstep ss o = Some (ss', r, k) -> Forall (fun s => WFweak (s_tour s)) ss'.
Proof. exact sstep_wf. Qed.

(* ------------------------------------------------------------------ registry *)

(* Registry::new: well-formed, every fleet actor is offered *)
Theorem C14_registry_new : forall gs,
  WFReg (reg_new gs) /\ forall a, In a (available (reg_new gs)) <-> a < length gs.
Proof. exact P_C14_registry_new. Qed.

(* (e) refinement to "finite set of free actors": use_actor succeeds exactly for an offered actor and removes it *)
Theorem C14_registry_use_spec : forall r a r' b,
  WFReg r -> use_actor r a = (r', b) ->
  WFReg r' /\ (b = true <-> In a (available r)) /\
  (forall x, In x (available r') <-> In x (available r) /\ (b = true -> x <> a)) /\ r_all r' = r_all r.
Proof. exact P_C14_registry_use_spec. Qed.

(* free_actor succeeds exactly for a known actor that is not offered, and makes it offered again *)
Theorem C14_registry_free_spec : forall r a r' b,
  WFReg r -> free_actor r a = (r', b) ->
  WFReg r' /\ (b = true <-> In a (r_all r) /\ ~ In a (available r)) /\
  (forall x, In x (available r') <-> In x (available r) \/ (b = true /\ x = a)) /\ r_all r' = r_all r.
Proof. exact P_C14_registry_free_spec. Qed.

(* RegistryContext::get_route hands a route out exactly when use_actor succeeds *)
Theorem C14_registry_get_route_spec : forall c a c' b,
  WFctx c -> get_route c a = (c', b) -> exists r', use_actor (c_reg c) a = (r', b) /\ c' = mkRctx r' (c_idx c).
Proof. exact get_route_spec. Qed.

(* deep_slice keeps exactly the selected actors, offered ones stay offered *)
Theorem C14_registry_slice_spec : forall r keep,
  WFReg r ->
  WFReg (deep_slice r keep) /\
  (forall x, In x (available (deep_slice r keep)) <-> In x (available r) /\ keep x = true) /\
  r_all (deep_slice r keep) = filter keep (r_all r).
Proof. exact P_C14_registry_slice_spec. Qed.

(* (e) every history of use/free/get_route/next/deep_slice from RegistryContext::new: the registry stays well-formed,
   successful acquisitions and releases of any actor alternate (never handed out twice), and an actor is offered
   exactly when it belongs to the registry and is not in use *)
Theorem C14_registry_history : forall gs hs c tr a,
  hrun (rctx_new gs) hs = (c, tr) ->
  WFReg (c_reg c) /\ alternating a false tr /\
  (In a (available (c_reg c)) <-> In a (r_all (c_reg c)) /\ held_after a false tr = false).
Proof. exact registry_history. Qed.

(* next(): whatever the draws, only offered actors are returned; with draws in range one per non-empty group *)
Theorem C14_registry_next_sound : forall r picks x, In x (next_with picks (r_avail r)) -> In x (available r).
Proof. exact P_C14_registry_next_sound. Qed.
Theorem C14_registry_next_complete : forall r picks,
  picks_ok picks (r_avail r) -> length (next_with picks (r_avail r)) = nonempty_groups (r_avail r).
Proof. exact P_C14_registry_next_complete. Qed.

(* (f) registry slots *)
Theorem C14_registry_slots_frame : forall cs o cs' r k,
  rsstep cs o = Some (cs', r, k) -> forall k', k' <> k -> k' < length cs -> nth_error cs' k' = nth_error cs k'.
Proof. exact rsstep_frame. Qed.
Theorem C14_registry_copy_equal : forall cs k cs' r n,
  rsstep cs (RSCopy k) = Some (cs', r, n) -> n = length cs /\ nth_error cs' n = nth_error cs k /\ nth_error cs k <> None.
Proof. exact rsstep_copy. Qed.
Theorem C14_registry_slots_wf : forall cs o cs' r k, Forall WFctx cs -> rsstep cs o = Some (cs', r, k) -> Forall WFctx cs'.
Proof. exact rsstep_wf. Qed.

(* the multi-slot machines evaluated by the correspondence (run_tour / run_reg) only reach values of single-tour /
   single-registry histories, so the history theorems above apply to every slot of every campaign case *)
Theorem C14_run_tour_slots : forall c ops s,
  In s (sfold [mkSlot (tour_new c) None] ops) -> exists tops, trun (tour_new c) tops = Some (s_tour s).
Proof. exact run_tour_slots. Qed.
Theorem C14_run_tour_final : forall c ops, snd (run_tour c ops) = map dump_slot (sfold [mkSlot (tour_new c) None] ops).
Proof. intros c ops. exact (srun_final ops _ _). Qed.
Theorem C14_run_reg_slots : forall gs ops c,
  In c (rsfold [rctx_new gs] ops) -> exists hs, fst (hrun (rctx_new gs) hs) = c.
Proof. exact run_reg_slots. Qed.
Theorem C14_run_reg_final : forall gs ops, snd (run_reg gs ops) = map dump_rctx (rsfold [rctx_new gs] ops).
Proof. intros gs ops. exact (rsrun_final ops _ _). Qed.

(* ------------------------------------------------------------------ depth: the clauses for EVERY reachable state *)

(* (d) at full strength: for every tour reachable by ANY history (guard or not), leg i is exactly (activity i, activity i+1)
   with index i, there are total-1 such legs on a closed tour, and an open tour has one more leg holding only its last
   activity *)
Theorem C14_tour_legs_history : forall c ops t, trun (tour_new c) ops = Some t ->
  length (legs t) = total t - (if c then 1 else 0) /\
  (forall i a b, nth_error (t_acts t) i = Some a -> nth_error (t_acts t) (S i) = Some b ->
                 nth_error (legs t) i = Some ([a; b], i)) /\
  (c = false -> forall a, nth_error (t_acts t) (total t - 1) = Some a ->
                 nth_error (legs t) (total t - 1) = Some ([a], total t - 1)).
Proof. exact legs_history. Qed.

(* (c) at full strength: for every reachable tour; job_count is the number of DISTINCT jobs of the activities *)
Theorem C14_tour_counts_history : forall c ops t, trun (tour_new c) ops = Some t ->
  total t = job_activity_count t + 1 + (if c then 1 else 0) /\
  job_activity_count t = length (filter hasjob (t_acts t)) /\
  job_count t = length (nodup Nat.eq_dec (jobs_of (t_acts t))) /\
  job_count t <= job_activity_count t /\
  (has_jobs t = true <-> job_activity_count t <> 0).
Proof. exact counts_history. Qed.

(* (a)-(c) together under the index guard: the tour is start :: abs t ++ end?, all counts are those of abs t *)
Theorem C14_tour_guarded_history_full : forall c ops t,
  guarded (tour_new c) ops -> trun (tour_new c) ops = Some t ->
  t_closed t = c /\ t_acts t = start_act :: abs t ++ ends c /\ Forall (fun a => hasjob a = true) (abs t) /\
  NoDup (t_jobs t) /\ (forall j, In j (t_jobs t) <-> exists a, In a (abs t) /\ a_job a = Some j) /\
  job_activity_count t = length (abs t) /\ total t = length (abs t) + 1 + (if c then 1 else 0) /\
  job_count t = length (nodup Nat.eq_dec (jobs_of (abs t))).
Proof. exact guarded_history_full. Qed.

(* the guard is EXACT: a successful insert_at into a well-formed tour keeps the depots in place iff the index is in
   1..=total-(closed?1:0) — so the hypothesis of C14_tour_wf_history cannot be weakened *)
Theorem C14_tour_insert_guard_exact : forall t a i t' r,
  WFTour t -> tstep t (TInsertAt a i) = Some (t', r) -> (ends_in_place t' <-> in_guard t (TInsertAt a i)).
Proof. exact guard_exact. Qed.

(* out-of-guard stream: the model panics exactly on a depot activity / index beyond the end / removal of a depot or
   out-of-range position; remove never panics *)
Theorem C14_tour_panic_exact : forall t, WFweak t ->
  (forall a i, tstep t (TInsertAt a i) = None <-> a_job a = None \/ total t < i) /\
  (forall a, tstep t (TInsertLast a) = None <-> a_job a = None) /\
  (forall j, tstep t (TRemove j) <> None) /\
  (forall i, tstep t (TRemoveAt i) = None <-> forall a, nth_error (t_acts t) i = Some a -> a_job a = None).
Proof. exact tstep_panic_iff. Qed.

(* (f) over whole histories: a slot (tour + state) changes only when an operation writes it; after a deep copy, any
   operations on the copy leave the original's observations unchanged and vice versa *)
Theorem C14_tour_slots_frame_history : forall ops ss k,
  Forall (fun o => swrites o <> Some k) ops -> k < length ss -> nth_error (sfold ss ops) k = nth_error ss k.
Proof. exact sfold_frame. Qed.
Theorem C14_tour_copy_independent : forall ss k mode ss1 r n ops,
  sstep ss (SCopy k mode) = Some (ss1, r, n) ->
  (Forall (fun o => swrites o <> Some k) ops -> nth_error (sfold ss1 ops) k = nth_error ss k) /\
  (Forall (fun o => swrites o <> Some n) ops -> nth_error (sfold ss1 ops) n = nth_error ss1 n).
Proof. exact tour_copy_independent. Qed.
Theorem C14_registry_slots_frame_history : forall ops cs k,
  Forall (fun o => rswrites o <> Some k) ops -> k < length cs -> nth_error (rsfold cs ops) k = nth_error cs k.
Proof. exact rsfold_frame. Qed.
Theorem C14_registry_copy_independent : forall cs o cs1 r n ops k,
  (o = RSCopy k \/ exists keep, o = RSSlice k keep) -> rsstep cs o = Some (cs1, r, n) ->
  n = length cs /\
  (Forall (fun o => rswrites o <> Some k) ops -> nth_error (rsfold cs1 ops) k = nth_error cs k) /\
  (Forall (fun o => rswrites o <> Some n) ops -> nth_error (rsfold cs1 ops) n = nth_error cs1 n).
Proof. exact reg_copy_independent. Qed.

(* (e) at full strength for every slot of every run (use/free/get_route/next/deep_copy/deep_slice interleaved on several
   registries): available() lists no actor twice, an actor is offered exactly when it belongs to the registry and is
   not held, and successful acquisitions/releases of every actor alternate *)
Theorem C14_registry_available_nodup : forall r, WFReg r -> NoDup (available r).
Proof. exact available_NoDup. Qed.
Theorem C14_run_reg_offers : forall gs ops c, In c (rsfold [rctx_new gs] ops) ->
  WFReg (c_reg c) /\ NoDup (available (c_reg c)) /\
  exists hs tr, hrun (rctx_new gs) hs = (c, tr) /\
    forall a, alternating a false tr /\
              (In a (available (c_reg c)) <-> In a (r_all (c_reg c)) /\ held_after a false tr = false).
Proof. exact run_reg_offers. Qed.
Theorem C14_run_tour_observations : forall c ops s, In s (sfold [mkSlot (tour_new c) None] ops) ->
  WFweak (s_tour s) /\ t_closed (s_tour s) = c /\
  length (legs (s_tour s)) = total (s_tour s) - (if c then 1 else 0) /\
  total (s_tour s) = job_activity_count (s_tour s) + 1 + (if c then 1 else 0) /\
  job_count (s_tour s) = length (nodup Nat.eq_dec (jobs_of (t_acts (s_tour s)))).
Proof. exact run_tour_observations. Qed.

(* (a) for the multi-slot machine: if every insert_at of the history is inside the index guard of the slot it hits,
   EVERY slot (originals and deep copies) keeps its depots in place *)
Theorem C14_run_tour_guarded : forall c ops s,
  sguarded [mkSlot (tour_new c) None] ops -> In s (sfold [mkSlot (tour_new c) None] ops) -> WFTour (s_tour s).
Proof. exact run_tour_guarded. Qed.

(* all(): lists every actor once and only fleet actors, after any history incl. deep_slice *)
Theorem C14_registry_all_history : forall gs hs c tr, hrun (rctx_new gs) hs = (c, tr) ->
  NoDup (r_all (c_reg c)) /\ forall a, In a (r_all (c_reg c)) -> a < length gs.
Proof. exact registry_all_history. Qed.

(* ------------------------------------------------------------------ non-vacuity *)
Theorem C14_nonvacuous_tour :
  exists ops t, guarded (tour_new true) ops /\ trun (tour_new true) ops = Some t /\ length (abs t) = 2 /\ job_count t = 1.
Proof. exact P_C14_nonvacuous_tour. Qed.
Theorem C14_nonvacuous_registry :
  exists gs hs c tr, hrun (rctx_new gs) hs = (c, tr) /\ held_after 1 false tr = true /\ ~ In 1 (available (c_reg c)) /\
                     In 0 (available (c_reg c)).
Proof. exact P_C14_nonvacuous_registry. Qed.

(* ------------------------------------------------------------------ hand-over Solution <-> InsertionContext *)

(* create_insertion_context_from_solution, for ANY well-formed input registry state and any route list with pairwise distinct
   actors: the context keeps exactly the routes with jobs (in order); no actor of a kept route is offered; the actor of a
   job-less route is offered iff the registry knows it; an actor without a route keeps whatever state the solution's registry
   gave it *)
Theorem C14_handover_offers : forall r rs c kept,
  WFReg r -> NoDup (map fst rs) -> from_solution_raw r rs = (c, kept) ->
  WFctx c /\ kept = filter route_has_jobs rs /\ r_all (c_reg c) = r_all r /\
  (forall a, In a (map fst kept) -> ~ In a (available (c_reg c))) /\
  (forall a, In a (map fst rs) -> ~ In a (map fst kept) -> (In a (available (c_reg c)) <-> In a (r_all r))) /\
  (forall a, ~ In a (map fst rs) -> (In a (available (c_reg c)) <-> In a (available r))).
Proof. exact P_C14_handover_offers. Qed.

(* InsertionContext::new_from_solution (= the factory + restore) never panics and changes nothing further *)
Theorem C14_new_from_solution_total : forall r rs, new_from_solution r rs = Some (from_solution_raw r rs).
Proof. exact new_from_solution_raw. Qed.

(* when the solution's registry marks as used only actors of its routes (the state of the route actors themselves is
   arbitrary: e.g. every tour's vehicle marked used, as the initial-solution readers do): after the hand-over an actor is
   offered EXACTLY when it is a fleet actor and not the actor of a kept route; in particular the actor of a job-less route
   IS offered and the actor of a route with jobs is not *)
Theorem C14_handover_offers_iff : forall r rs c kept,
  WFReg r -> NoDup (map fst rs) -> (forall a, In a (map fst rs) -> In a (r_all r)) ->
  (forall a, In a (r_all r) -> ~ In a (map fst rs) -> In a (available r)) ->
  new_from_solution r rs = Some (c, kept) ->
  kept = filter route_has_jobs rs /\
  (forall a, In a (available (c_reg c)) <-> In a (r_all r) /\ ~ In a (map fst kept)) /\
  (forall a t, In (a, t) rs -> has_jobs t = false -> In a (available (c_reg c))) /\
  (forall a t, In (a, t) rs -> has_jobs t = true -> ~ In a (available (c_reg c))).
Proof. exact P_C14_handover_offers_iff. Qed.

(* round trip: a consistent context (HInv: distinct known route actors, offered iff known and without route) turned into a
   Solution and back keeps the routes with jobs and the offered set grows exactly by the actors of the dropped job-less
   routes; if every route has jobs, registry and routes come back unchanged *)
Theorem C14_handover_roundtrip : forall c rs r rs0 c2 rs2,
  HInv c rs -> into_solution c rs = (r, rs0) -> new_from_solution r rs0 = Some (c2, rs2) ->
  HInv c2 rs2 /\ rs2 = filter route_has_jobs rs /\ r_all (c_reg c2) = r_all (c_reg c) /\
  (forall a, In a (available (c_reg c2)) <-> In a (available (c_reg c)) \/ (In a (map fst rs) /\ ~ In a (map fst rs2))) /\
  (Forall (fun rt => route_has_jobs rt = true) rs -> c_reg c2 = c_reg c /\ rs2 = rs).
Proof. exact P_C14_handover_roundtrip. Qed.

(* composition with the registry histories: after the hand-over, under ANY further use/free/get_route/next/deep_slice
   history, acquisitions and releases of every actor alternate starting from "held iff a kept route holds it" (so the actor
   of a kept route is never handed out before it was released) and an actor is offered iff it is a member and not held *)
Theorem C14_handover_history : forall r rs c0 kept hs c tr a,
  WFReg r -> NoDup (map fst rs) -> (forall a, In a (map fst rs) -> In a (r_all r)) ->
  (forall a, In a (r_all r) -> ~ In a (map fst rs) -> In a (available r)) ->
  new_from_solution r rs = Some (c0, kept) -> hrun c0 hs = (c, tr) ->
  WFReg (c_reg c) /\ alternating a (set_mem a (map fst kept)) tr /\
  (In a (available (c_reg c)) <-> In a (r_all (c_reg c)) /\ held_after a (set_mem a (map fst kept)) tr = false).
Proof. exact P_C14_handover_history. Qed.

(* every context reachable from InsertionContext::new (locks) / new_empty / new_from_solution by get_route+push, tour
   operations, keep_routes, restore, next_route and round trips through Solution: route actors pairwise distinct (no vehicle in
   two routes), available() duplicate-free, offered iff fleet member without a route, and keep_routes / restore never hit
   the `assert!(free_route)` *)
Theorem C14_context_reachable : forall closed c rs, creach closed c rs ->
  WFctx c /\ NoDup (map fst rs) /\ NoDup (available (c_reg c)) /\
  (forall a, In a (available (c_reg c)) <-> In a (r_all (c_reg c)) /\ ~ In a (map fst rs)) /\
  (forall keep, cstep closed c rs (CKeep keep) <> None) /\ cstep closed c rs CRestore <> None.
Proof. exact P_C14_context_reachable. Qed.

(* the multi-slot machine evaluated by the correspondence (run_ho): its final dumps are those of the folded slots, and under
   disciplined operations every slot — contexts and the solutions converted from them — offers exactly the route-less members *)
Theorem C14_run_ho_final : forall closed probes ops ss acc,
  snd (hsrun closed probes ss ops acc) = map (dump_hslot probes) (hsfold closed ss ops).
Proof. intros closed probes ops. exact (hsrun_final closed probes ops). Qed.
Theorem C14_run_ho_slots : forall gs closed ls c rs ops s,
  create_context gs closed ls = Some (c, rs) -> Forall hs_disciplined ops -> In s (hsfold closed [HCtx c rs] ops) ->
  match s with
  | HCtx c' rs' => NoDup (map fst rs') /\ forall a, In a (available (c_reg c')) <-> In a (r_all (c_reg c')) /\ ~ In a (map fst rs')
  | HSol r' rs' => NoDup (map fst rs') /\ forall a, In a (available r') <-> In a (r_all r') /\ ~ In a (map fst rs')
  end.
Proof. exact P_C14_run_ho_slots. Qed.

(* non-vacuity: three vehicles, every tour marked used (nothing offered), the middle tour has no jobs: after the hand-over
   exactly its vehicle is offered and the context holds the two routes with jobs *)
Theorem C14_nonvacuous_handover :
  WFReg nv_reg /\ NoDup (map fst nv_routes) /\ (forall a, In a (map fst nv_routes) -> In a (r_all nv_reg)) /\
  used_only_by_routes nv_reg nv_routes /\ available nv_reg = [] /\
  exists c kept, new_from_solution nv_reg nv_routes = Some (c, kept) /\ map fst kept = [0; 2] /\ available (c_reg c) = [1].
Proof. exact P_C14_nonvacuous_handover. Qed.
