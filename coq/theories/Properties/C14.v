(* C14 — tours and the vehicle registry stay well-formed under any operation sequence. *)
From VRP Require Import Base.Tac Model.TourReg Proofs.TourRegP.
#[local] Open Scope nat_scope.

Theorem C14_tour_new_start : forall c, hd_error (t_acts (tour_new c)) = Some start_act.
Proof. exact tour_new_start. Qed.
