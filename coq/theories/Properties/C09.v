(* C09 — Solution and insertion-cost comparisons obey order laws.
   This file contains only the property theorems, each closed by `exact`, pinned by `Check`,
   followed by Print Assumptions. *)
From VRP Require Import Base.Tac Base.TotalCmp Model.CostOrder Model.InsCost Model.GoalCtx Proofs.CostOrderP Proofs.InsCostP Proofs.F64IntP Proofs.GoalCtxP.

(* any configured goal (single and dominance layers, any fitness vectors): reflexive, antisymmetric *)
Theorem C09_goal_refl : forall ls f, goal_cmp ls f f = Eq.
Proof. exact goal_cmp_refl. Qed.
Theorem C09_goal_antisym : forall ls fa fb, goal_cmp ls fa fb = CompOpp (goal_cmp ls fb fa).
Proof. exact goal_cmp_antisym. Qed.

(* goals of single-objective layers: equal to lexicographic comparison of the fitness vector with +0/-0 merged,
   hence a total preorder *)
Theorem C09_goal_single_is_lex : forall ls, all_single ls -> forall fa fb,
  length fa = length ls -> length fb = length ls -> Forall fbits_ok fa -> Forall fbits_ok fb ->
  goal_cmp ls fa fb = lex_z (map zkey fa) (map zkey fb).
Proof. exact goal_single_is_lex. Qed.
Theorem C09_goal_single_trans : forall ls, all_single ls -> forall c fa fb fc,
  length fa = length ls -> length fb = length ls -> length fc = length ls ->
  Forall fbits_ok fa -> Forall fbits_ok fb -> Forall fbits_ok fc ->
  goal_cmp ls fa fb = c -> goal_cmp ls fb fc = c -> goal_cmp ls fa fc = c.
Proof. exact goal_single_trans. Qed.

(* insertion cost: lexicographic total order, missing trailing component = +0.0 *)
Theorem C09_icost_refl : forall x, icost_cmp x x = Eq.
Proof. exact icost_cmp_refl. Qed.
Theorem C09_icost_antisym : forall x y, icost_cmp x y = CompOpp (icost_cmp y x).
Proof. exact icost_cmp_antisym. Qed.
Theorem C09_icost_trans : forall c x y z, icost_cmp x y = c -> icost_cmp y z = c -> icost_cmp x z = c.
Proof. exact icost_cmp_trans. Qed.
Theorem C09_icost_eq_compat : forall x y z, icost_cmp x y = Eq -> icost_cmp x z = icost_cmp y z.
Proof. exact icost_cmp_eq_compat. Qed.
Theorem C09_icost_pad : forall x k, icost_cmp x (x ++ repeat 0 k) = Eq.
Proof. exact icost_cmp_pad. Qed.
Theorem C09_icost_eq_iff : forall x y, Forall fbits_ok x -> Forall fbits_ok y ->
  (icost_cmp x y = Eq <-> forall j, getd x j = getd y j).
Proof. exact icost_cmp_eq_iff. Qed.

(* + and - are inverse (exact sub-domain: integer-valued components; see DESIGN.md C09) *)
Theorem C09_icost_add_sub : forall x y, vcost_cmp (icost_sub (icost_add x y) y) x = Eq.
Proof. exact icost_add_sub. Qed.
Theorem C09_icost_sub_add : forall x y, vcost_cmp (icost_add (icost_sub x y) y) x = Eq.
Proof. exact icost_sub_add. Qed.

(* non-vacuity / documentation *)
Theorem C09_dominance_eq_not_transitive :
  exists a b c, multi_cmp a b = Eq /\ multi_cmp b c = Eq /\ multi_cmp a c = Lt.
Proof. exact dominance_eq_not_transitive. Qed.

(* ======================================================================================================================
   Deepening (Model/InsCost.v: InsertionCost completely, f64 arithmetic = Coq.Floats.SpecFloat on bit patterns;
   Model/GoalCtx.v: every way the code configures a goal and hands out a goal context, the pragmatic and scientific readers).
   A solution is seen through its state vector s (getd s i = the fitness the i-th objective computes), a move through its
   estimate vector e.
   ====================================================================================================================== *)

(* ---------- clause 1: any configured goal (single layers, `sum` and `weighted-sum` layers over any objectives) ---------- *)
Theorem C09_gorder_refl : forall g s, gorder g s s = Eq.
Proof. exact gorder_refl. Qed.
Theorem C09_gorder_antisym : forall g sa sb, gorder g sa sb = CompOpp (gorder g sb sa).
Proof. exact gorder_antisym. Qed.
(* the comparator goal_reader.rs installs for `sum` and for `weighted-sum` is the same dominance order: the weights do not enter it *)
Theorem C09_strategy_cmp_is_dominance : forall st fa fb, strategy_cmp st fa fb = dominance (map2 total_cmp fa fb).
Proof. exact strategy_cmp_is_dominance. Qed.
(* Goal::total_order depends on the solutions only through the fitness vector Goal::fitness reports, cut into the layers'
   widths in layer order (a layer of n objectives contributes n consecutive components) *)
Theorem C09_gorder_by_reported_fitness : forall g sa sb,
  gorder g sa sb = goal_cmp (map lshape g) (gfitness g sa) (gfitness g sb).
Proof. exact gorder_by_fitness. Qed.
Theorem C09_gfitness_layer_order : forall l g s, gfitness (l :: g) s = map (ofit s) (lobjs l) ++ gfitness g s.
Proof. exact gfitness_cons. Qed.

(* ---------- clause 2: goals of single-objective layers = lexicographic comparison of the reported vector, total preorder ---------- *)
Theorem C09_gorder_single_is_lex : forall g, gsingle_only g -> forall sa sb, Forall fbits_ok sa -> Forall fbits_ok sb ->
  gorder g sa sb = lex_z (map zkey (gfitness g sa)) (map zkey (gfitness g sb)).
Proof. exact gorder_single_is_lex. Qed.
Theorem C09_gorder_single_trans : forall g, gsingle_only g -> forall c sa sb sc,
  Forall fbits_ok sa -> Forall fbits_ok sb -> Forall fbits_ok sc ->
  gorder g sa sb = c -> gorder g sb sc = c -> gorder g sa sc = c.
Proof. exact gorder_single_trans. Qed.
Theorem C09_gorder_single_eq_compat : forall g, gsingle_only g -> forall sa sb sc,
  Forall fbits_ok sa -> Forall fbits_ok sb -> Forall fbits_ok sc ->
  gorder g sa sb = Eq -> gorder g sa sc = gorder g sb sc.
Proof. exact gorder_single_eq_compat. Qed.
(* which goals consist of single layers: everything Goal::subset_of / Goal::simple / the built-in heuristic goal build *)
Theorem C09_subset_goal_single : forall fs names g, goal_subset_of fs names = GOk g -> gsingle_only g /\ length g = length names.
Proof. exact goal_subset_of_single. Qed.
Theorem C09_default_ctx_single : forall fs b c, with_features fs = GOk b -> build b = GOk c -> ctx_single_only c.
Proof. exact default_ctx_single. Qed.

(* multi-objective layers: Pareto dominance is transitive on its strict part, a layer over one objective is plain total_cmp
   (so it keeps -0.0 below +0.0, unlike add_single), and behind a layer of two objectives a goal can order three solutions in a cycle *)
Theorem C09_multi_layer_lt_trans : forall a b c, length a = length b -> length b = length c ->
  multi_cmp a b = Lt -> multi_cmp b c = Lt -> multi_cmp a c = Lt.
Proof. exact multi_cmp_lt_trans. Qed.
Theorem C09_multi_layer_of_one_is_total_cmp : forall st a b, strategy_cmp st [a] [b] = total_cmp a b.
Proof. exact strategy_cmp_one. Qed.
Theorem C09_multi_layer_of_one_separates_zeros_witness :
  layer_cmp (GMulti SSum [OFeat 0]) [NEG_ZERO] [0] = Lt /\ layer_cmp (GSingle (OFeat 0)) [NEG_ZERO] [0] = Eq.
Proof. exact multi_layer_of_one_objective_separates_zeros. Qed.
Theorem C09_goal_with_multi_layer_cycle_witness :
  let g := [GMulti SSum [OFeat 0; OFeat 1]; GSingle (OFeat 2)] in
  let a := [1; 3; 2] in let b := [0; 5; 3] in let c := [0; 6; 1] in
  gorder g a b = Lt /\ gorder g b c = Lt /\ gorder g c a = Lt.
Proof. exact goal_with_multi_layer_cycle. Qed.

(* ---------- goal contexts: the alternatives obey the same laws, each under ITS goal and ITS reported fitness ---------- *)
Theorem C09_ctx_refl : forall c s, ctx_total_order c s s = Eq.
Proof. exact ctx_total_order_refl. Qed.
Theorem C09_ctx_antisym : forall c sa sb, ctx_total_order c sa sb = CompOpp (ctx_total_order c sb sa).
Proof. exact ctx_total_order_antisym. Qed.
(* Alternative::maybe_new: without a hit the context itself; with a hit the drawn alternative goal, the alternatives kept *)
Theorem C09_maybe_new_no_hit : forall c d, maybe_new c false d = GOk c.
Proof. exact maybe_new_no_hit. Qed.
Theorem C09_maybe_new_hit : forall c d g, nth_error (calts c) d = Some g ->
  maybe_new c true d = GOk {| cgoal := g; calts := calts c |}.
Proof. exact maybe_new_hit. Qed.
Theorem C09_follow_goal : forall p c c', follow c p = GOk c' ->
  calts c' = calts c /\ (cgoal c' = cgoal c \/ In (cgoal c') (calts c)).
Proof. exact follow_goal. Qed.
Theorem C09_get_alternatives_nth : forall c i,
  nth_error (get_alternatives c) i = match get_alternative c i with GOk c' => Some c' | GErr _ => None end.
Proof. exact get_alternatives_nth. Qed.
(* every context reachable through any sequence of maybe_new calls from a context whose goals consist of single layers is a total
   preorder that coincides with the lexicographic comparison of the fitness vector THAT context reports *)
Theorem C09_ctx_alternatives_lex : forall c p c', ctx_single_only c -> follow c p = GOk c' ->
  forall sa sb, Forall fbits_ok sa -> Forall fbits_ok sb ->
  ctx_total_order c' sa sb = lex_z (map zkey (ctx_fitness c' sa)) (map zkey (ctx_fitness c' sb)).
Proof. exact ctx_follow_is_lex. Qed.
Theorem C09_ctx_alternatives_trans : forall c p c', ctx_single_only c -> follow c p = GOk c' ->
  forall o sa sb sc, Forall fbits_ok sa -> Forall fbits_ok sb -> Forall fbits_ok sc ->
  ctx_total_order c' sa sb = o -> ctx_total_order c' sb sc = o -> ctx_total_order c' sa sc = o.
Proof. exact ctx_follow_trans. Qed.

(* the goal contexts of vrp-scientific (solomon / lilim: true, tsplib: false): their value, all goals of single layers *)
Theorem C09_sci_goal_context :
  sci_goal_context true = GOk {| cgoal := [GSingle (OFeat 0); GSingle (OFeat 1); GSingle (OFeat 2)];
                                 calts := [[GSingle (OFeat 0); GSingle OKnownEdge; GSingle (OFeat 1); GSingle (OFeat 2)];
                                           [GSingle (OFeat 0); GSingle (OFeat 2)]] |} /\
  sci_goal_context false = GOk {| cgoal := [GSingle (OFeat 0); GSingle (OFeat 2)];
                                  calts := [[GSingle (OFeat 0); GSingle OKnownEdge; GSingle (OFeat 1); GSingle (OFeat 2)];
                                            [GSingle (OFeat 0); GSingle (OFeat 1); GSingle (OFeat 2)]] |}.
Proof. exact sci_goal_context_value. Qed.
Theorem C09_sci_goal_context_single : forall p, exists c, sci_goal_context p = GOk c /\ ctx_single_only c.
Proof. exact sci_goal_context_single. Qed.

(* the goal contexts of the pragmatic reader: the main context reports the objectives in document order (the identity on the
   state vector), its alternatives consist of single layers, and without a multi-objective so does the main goal *)
Theorem C09_reader_main_fitness : forall objs hv c, read_goal objs hv = GOk c ->
  exists n, forall s, ctx_fitness c s = map (getd s) (seq 0 n).
Proof. exact read_goal_main_fitness. Qed.
Theorem C09_reader_alternatives_single : forall objs hv c, read_goal objs hv = GOk c -> Forall gsingle_only (calts c).
Proof. exact read_goal_alternatives_single. Qed.
Theorem C09_reader_plain_single : forall objs hv c,
  Forall plain_objective (match objs with Some o => o | None => default_objectives hv end) ->
  read_goal objs hv = GOk c -> ctx_single_only c.
Proof. exact read_goal_plain_single. Qed.

(* ---------- estimates (Goal::estimate): one component per layer ---------- *)
Theorem C09_estimate_length : forall g e v, gestimate g e = Some v -> length v = length g.
Proof. exact gestimate_length. Qed.
Theorem C09_estimate_single_only : forall g e, gsingle_only g -> gestimate g e = Some (gfitness g e).
Proof. exact gestimate_single_only. Qed.
Theorem C09_reader_estimate_total : forall objs hv c, read_goal objs hv = GOk c ->
  forall p c' e, follow c p = GOk c' -> ctx_estimate c' e <> None.
Proof. exact read_goal_estimate_total. Qed.
Theorem C09_estimate_sum_of_one : forall a, f64_ok a -> strategy_est SSum [a] = Some a.
Proof. exact strategy_est_sum_one. Qed.
Theorem C09_estimate_sum_of_none_witness : strategy_est SSum [] = Some NEG_ZERO /\ icost_cmp [NEG_ZERO] [] = Lt.
Proof. exact strategy_est_sum_empty. Qed.
Theorem C09_estimate_missing_weight_panics : forall ws es, (length ws < length es)%nat -> strategy_est (SWeightedSum ws) es = None.
Proof. exact strategy_est_missing_weight. Qed.

(* ---------- clause 3: InsertionCost — Eq / PartialEq / PartialOrd agree with Ord::cmp ---------- *)
Theorem C09_icost_eq_iff_cmp : forall x y, ic_eq x y = true <-> icost_cmp x y = Eq.
Proof. exact ic_eq_iff_cmp. Qed.
Theorem C09_icost_eq_equivalence : forall x y z,
  ic_eq x x = true /\ ic_eq x y = ic_eq y x /\ (ic_eq x y = true -> ic_eq y z = true -> ic_eq x z = true).
Proof. exact ic_eq_equivalence. Qed.
Theorem C09_icost_eq_congruence : forall x y z, ic_eq x y = true ->
  icost_cmp x z = icost_cmp y z /\ icost_cmp z x = icost_cmp z y.
Proof. exact ic_eq_cmp_compat. Qed.
Theorem C09_icost_eq_iff_padded : forall x y, Forall fbits_ok x -> Forall fbits_ok y ->
  (ic_eq x y = true <-> forall j, getd x j = getd y j).
Proof. exact ic_eq_iff_padded. Qed.
(* == on InsertionCost is equality of zero-padded BIT PATTERNS, not the == of f64: NaN == NaN, -0.0 != +0.0, [] == [+0.0], [] != [-0.0] *)
Theorem C09_icost_eq_not_ieee_witness :
  ic_eq [NAN_BITS] [NAN_BITS] = true /\ ic_eq [NEG_ZERO] [0] = false /\ ic_eq [] [0] = true /\ ic_eq [] [NEG_ZERO] = false.
Proof. exact ic_eq_not_ieee. Qed.
Theorem C09_icost_partial_cmp : forall x y, ic_partial_cmp x y = Some (icost_cmp x y).
Proof. exact ic_partial_cmp_total. Qed.
Theorem C09_icost_operators : forall x y,
  (ic_lt x y = true <-> icost_cmp x y = Lt) /\ (ic_le x y = true <-> icost_cmp x y <> Gt) /\
  (ic_gt x y = true <-> icost_cmp x y = Gt) /\ (ic_ge x y = true <-> icost_cmp x y <> Lt) /\
  ic_gt x y = ic_lt y x /\ ic_ge x y = ic_le y x /\ ic_le x y = ic_lt x y || ic_eq x y.
Proof. exact ic_operators. Qed.
Theorem C09_icost_trichotomy : forall x y,
  (ic_lt x y = true /\ ic_eq x y = false /\ ic_gt x y = false) \/
  (ic_lt x y = false /\ ic_eq x y = true /\ ic_gt x y = false) \/
  (ic_lt x y = false /\ ic_eq x y = false /\ ic_gt x y = true).
Proof. exact ic_trichotomy. Qed.
Theorem C09_icost_le_order : forall x y z,
  (ic_le x y = true -> ic_le y z = true -> ic_le x z = true) /\ (ic_le x y = true -> ic_le y x = true -> ic_eq x y = true) /\
  (ic_le x y = true \/ ic_le y x = true).
Proof. exact ic_le_order. Qed.
Theorem C09_icost_index : forall x i,
  ((i < length x)%nat -> ic_index x i = Some (getd x i)) /\ ((length x <= i)%nat -> ic_index x i = None).
Proof. exact ic_index_spec. Qed.

(* max_value = [f64::MAX] is above every cost whose first component is below f64::MAX in the total order (every double except
   f64::MAX, +inf and the NaNs with a clear sign bit) — and only those: it is not a top element *)
Theorem C09_icost_max_value_above : forall x, key (getd x 0) < key F64_MAX -> icost_cmp x ic_max_value = Lt.
Proof. exact ic_max_value_above. Qed.
Theorem C09_icost_below_max_patterns : forall b, fbits_ok b -> (key b < key F64_MAX <-> b < F64_MAX \/ two63 <= b).
Proof. exact key_below_max. Qed.
Theorem C09_icost_max_value_not_top_witness :
  icost_cmp [POS_INF] ic_max_value = Gt /\ icost_cmp [NAN_BITS] ic_max_value = Gt /\
  icost_cmp [F64_MAX; 1] ic_max_value = Gt /\ select_cost [POS_INF] ic_max_value = false.
Proof. exact ic_max_value_not_top. Qed.
Theorem C09_icost_default_is_zeros : forall k, icost_cmp ic_default (repeat 0 k) = Eq.
Proof. exact ic_default_is_zeros. Qed.

(* ---------- clause 4: + and - ---------- *)
(* structure, for whatever the component operation does: as long as the longer operand, componentwise, missing = +0.0;
   the index loop of the code is the padded zip of Model/CostOrder.v (so C09_icost_add_sub / _sub_add above speak about it) *)
Theorem C09_icost_zip_structure : forall op x y,
  length (ic_zip op x y) = Nat.max (length x) (length y) /\
  (forall j, (j < Nat.max (length x) (length y))%nat -> getd (ic_zip op x y) j = op (getd x j) (getd y j)) /\
  ic_zip op x y = zip_pad op x y.
Proof. exact ic_zip_structure. Qed.
(* f64 level (SpecFloat binary64 on the bit patterns): Default is neutral — x - default is x bit for bit, x + default and
   default + x are x up to the sign of zero — for every NaN-free cost *)
Theorem C09_icost_sub_default : forall x, Forall f64_ok x -> ic_sub x ic_default = x.
Proof. exact ic_sub_default. Qed.
Theorem C09_icost_add_default : forall x, Forall f64_ok x ->
  ic_add x ic_default = map (fun b => if b =? NEG_ZERO then 0 else b) x /\ icost_zcmp (ic_add x ic_default) x = Eq /\
  icost_zcmp (ic_add ic_default x) x = Eq.
Proof. exact ic_add_default. Qed.
(* f64 level: + and - are inverse up to the sign of zero wherever the two component operations are (a decidable condition on the
   pairs of components; it holds on integer-valued components below 2^52: validated on every run, C09_nonvacuous_inv_ok) ... *)
Theorem C09_icost_add_sub_f64_partial : forall x y,
  (forall j, (j < Nat.max (length x) (length y))%nat -> inv_ok (getd x j) (getd y j) = true) ->
  icost_zcmp (ic_sub (ic_add x y) y) x = Eq /\ icost_zcmp (ic_add (ic_sub x y) y) x = Eq.
Proof. exact ic_add_sub_f64. Qed.
(* ... and not for all doubles: absorption, overflow, inf - inf (IEEE-754 arithmetic itself; DESIGN.md C09 restricts the clause) *)
Theorem C09_icost_add_sub_all_doubles_refuted :
  icost_zcmp (ic_sub (ic_add [4607182418800017408] [F64_MAX]) [F64_MAX]) [4607182418800017408] = Lt /\
  ic_sub (ic_add [F64_MAX] [F64_MAX]) [F64_MAX] = [POS_INF] /\
  ic_sub (ic_add [0] [POS_INF]) [POS_INF] = [NAN_BITS].
Proof. exact ic_add_sub_f64_absorption. Qed.
Theorem C09_nonvacuous_inv_ok :
  inv_ok (f64_of_int 3) (f64_of_int (-7)) = true /\ inv_ok NEG_ZERO (f64_of_int 5) = true /\
  inv_ok (f64_of_int 4503599627370495) (f64_of_int 4503599627370496) = true /\ inv_ok 4607182418800017408 F64_MAX = false.
Proof. exact inv_ok_examples. Qed.

(* ---------- clause 4 at the f64 level, on the exact sub-domain, PROVED (Proofs/F64IntP.v) ----------
   IEEE-754 binary64 + and - (SpecFloat, the f64 model that is compared bit for bit with Rust's operators on every run) are
   exact on integer-valued doubles while the result stays below 2^53 ... *)
Theorem C09_f64_add_exact_on_integers : forall a b, Z.abs a < two53 -> Z.abs b < two53 -> Z.abs (a + b) < two53 ->
  f64_add (f64_of_int a) (f64_of_int b) = f64_of_int (a + b).
Proof. exact f64_add_int. Qed.
Theorem C09_f64_sub_exact_on_integers : forall a b, Z.abs a < two53 -> Z.abs b < two53 -> Z.abs (a - b) < two53 ->
  f64_sub (f64_of_int a) (f64_of_int b) = f64_of_int (a - b).
Proof. exact f64_sub_int. Qed.
(* ... so the f64 operators of InsertionCost refine the Z model of Model/CostOrder.v (any two lengths, zero padding) ... *)
Theorem C09_icost_add_refines_Z : forall B1 B2 xs ys, 0 < B1 -> 0 < B2 -> B1 + B2 <= two53 ->
  Forall (bnd B1) xs -> Forall (bnd B2) ys ->
  ic_add (map f64_of_int xs) (map f64_of_int ys) = map f64_of_int (icost_add xs ys).
Proof. exact ic_add_refines. Qed.
Theorem C09_icost_sub_refines_Z : forall B1 B2 xs ys, 0 < B1 -> 0 < B2 -> B1 + B2 <= two53 ->
  Forall (bnd B1) xs -> Forall (bnd B2) ys ->
  ic_sub (map f64_of_int xs) (map f64_of_int ys) = map f64_of_int (icost_sub xs ys).
Proof. exact ic_sub_refines. Qed.
(* ... and are inverse to each other: bit for bit (after zero padding) on integer-valued vectors with components below 2^52, ... *)
Theorem C09_icost_add_sub_f64_integers : forall xs ys, Forall (bnd two52) xs -> Forall (bnd two52) ys ->
  icost_cmp (ic_sub (ic_add (map f64_of_int xs) (map f64_of_int ys)) (map f64_of_int ys)) (map f64_of_int xs) = Eq /\
  icost_cmp (ic_add (ic_sub (map f64_of_int xs) (map f64_of_int ys)) (map f64_of_int ys)) (map f64_of_int xs) = Eq.
Proof. exact ic_add_sub_int. Qed.
(* ... and up to the sign of zero when -0.0 occurs among the components (idbl b: b is -0.0 or an integer-valued double below 2^52) *)
Theorem C09_icost_add_sub_f64_signed_zero : forall x y, Forall idbl x -> Forall idbl y ->
  icost_zcmp (ic_sub (ic_add x y) y) x = Eq /\ icost_zcmp (ic_add (ic_sub x y) y) x = Eq.
Proof. exact ic_add_sub_idbl. Qed.
Theorem C09_nonvacuous_idbl : idbl NEG_ZERO /\ idbl 0 /\ idbl 4607182418800017408 /\ idbl (f64_of_int (-4503599627370495)).
Proof. exact idbl_examples. Qed.

(* ---------- comparisons of insertion results that rely on the order ---------- *)
Theorem C09_select_cost_iff : forall l r, select_cost l r = true <-> icost_cmp l r = Lt.
Proof. exact select_cost_iff. Qed.
(* folding choose_best_result over candidates keeps the leftmost cheapest success: everything offered before it is strictly
   dearer (or a failure), nothing offered after it is strictly cheaper; no success offered -> a failure *)
Theorem C09_choose_best_leftmost_min : forall init rs,
  existsb is_success (init :: rs) = true ->
  exists l1 l2, init :: rs = l1 ++ choose_all init rs :: l2 /\ is_success (choose_all init rs) = true /\
    (forall r, In r l1 -> is_success r = true -> icost_cmp (cost_of r) (cost_of (choose_all init rs)) = Gt) /\
    (forall r, In r l2 -> is_success r = true -> icost_cmp (cost_of (choose_all init rs)) (cost_of r) <> Gt).
Proof. exact choose_all_leftmost_min. Qed.
Theorem C09_choose_best_no_success : forall init rs,
  existsb is_success (init :: rs) = false -> is_success (choose_all init rs) = false.
Proof. exact choose_all_no_success. Qed.

(* non-vacuity of the hypotheses used above *)
Theorem C09_nonvacuous_contexts :
  (exists c, read_goal None true = GOk c /\ ctx_single_only c) /\
  (exists c c', read_goal (Some [PMulti (SWeightedSum [1; 2]) [IObj 0; IObj 3]; PObj 6]) false = GOk c /\
                follow c [(true, 0%nat)] = GOk c' /\ cgoal c' <> cgoal c) /\
  (exists g, gsingle_only g /\ g <> []) /\ Forall f64_ok [0; NEG_ZERO; F64_MAX; POS_INF; 1].
Proof. exact nonvacuous_contexts. Qed.
