(* C09 — Solution and insertion-cost comparisons obey order laws.
   This file contains only the property theorems, each closed by `exact`, pinned by `Check`,
   followed by Print Assumptions. *)
From VRP Require Import Base.Tac Base.TotalCmp Model.CostOrder Proofs.CostOrderP.

(* any configured goal (single and dominance layers, any fitness vectors): reflexive, antisymmetric *)
Theorem C09_goal_refl : forall ls f, goal_cmp ls f f = Eq.
Proof. exact goal_cmp_refl. Qed.
Theorem C09_goal_antisym : forall ls fa fb, goal_cmp ls fa fb = CompOpp (goal_cmp ls fb fa).
Proof. exact goal_cmp_antisym. Qed.

(* goals of single-objective layers: equal to lexicographic comparison of the fitness vector with +0/-0 merged,
   hence a total preorder *)
Theorem C09_goal_single_is_lex : forall ls, all_single ls -> forall fa fb,
  length fa = length ls -> length fb = length ls -> Forall fbits_ok fa -> Forall fbits_ok fb ->
  goal_cmp ls fa fb = lex_z (map zkey fa) (map zkey fb).
Proof. exact goal_single_is_lex. Qed.
Theorem C09_goal_single_trans : forall ls, all_single ls -> forall c fa fb fc,
  length fa = length ls -> length fb = length ls -> length fc = length ls ->
  Forall fbits_ok fa -> Forall fbits_ok fb -> Forall fbits_ok fc ->
  goal_cmp ls fa fb = c -> goal_cmp ls fb fc = c -> goal_cmp ls fa fc = c.
Proof. exact goal_single_trans. Qed.

(* insertion cost: lexicographic total order, missing trailing component = +0.0 *)
Theorem C09_icost_refl : forall x, icost_cmp x x = Eq.
Proof. exact icost_cmp_refl. Qed.
Theorem C09_icost_antisym : forall x y, icost_cmp x y = CompOpp (icost_cmp y x).
Proof. exact icost_cmp_antisym. Qed.
Theorem C09_icost_trans : forall c x y z, icost_cmp x y = c -> icost_cmp y z = c -> icost_cmp x z = c.
Proof. exact icost_cmp_trans. Qed.
Theorem C09_icost_eq_compat : forall x y z, icost_cmp x y = Eq -> icost_cmp x z = icost_cmp y z.
Proof. exact icost_cmp_eq_compat. Qed.
Theorem C09_icost_pad : forall x k, icost_cmp x (x ++ repeat 0 k) = Eq.
Proof. exact icost_cmp_pad. Qed.
Theorem C09_icost_eq_iff : forall x y, Forall fbits_ok x -> Forall fbits_ok y ->
  (icost_cmp x y = Eq <-> forall j, getd x j = getd y j).
Proof. exact icost_cmp_eq_iff. Qed.

(* + and - are inverse (exact sub-domain: integer-valued components; see DESIGN.md C09) *)
Theorem C09_icost_add_sub : forall x y, vcost_cmp (icost_sub (icost_add x y) y) x = Eq.
Proof. exact icost_add_sub. Qed.
Theorem C09_icost_sub_add : forall x y, vcost_cmp (icost_add (icost_sub x y) y) x = Eq.
Proof. exact icost_sub_add. Qed.

(* non-vacuity / documentation *)
Theorem C09_dominance_eq_not_transitive :
  exists a b c, multi_cmp a b = Eq /\ multi_cmp b c = Eq /\ multi_cmp a c = Lt.
Proof. exact dominance_eq_not_transitive. Qed.
