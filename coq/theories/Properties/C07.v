From VRP Require Import Base.Tac Model.Homes Proofs.HomesP Model.Evolution Proofs.EvolutionP.
