(* C07 — Interrupting the solver at any moment still yields a valid solution.
   "If the computation quota runs out at any moment - before construction, between two insertions, inside any search step - or
    a positive time/generation limit is hit, the solver still returns normally with a solution that satisfies C01-C03, reporting
    work not yet placed as unassigned. It never runs more generations than the configured maximum."
   Model: Model/Evolution.v (+ the bookkeeping model Model/Homes.v of C02).  The quota is an ARBITRARY function nat -> bool of
   the poll index; evaluation results, parent selection, ruin steps, foreign polls and the wall clock are arbitrary oracles.
   "valid" at this level = every job of the plan has exactly one home and `required` is drained (C02's invariant); feasibility (C01)
   and reproducibility (C03) of what is returned are checked on every real document by the verified checker valid_b.  *)
From VRP Require Import Base.Tac Model.Homes Proofs.HomesP Model.Evolution Proofs.EvolutionP.
Local Open Scope nat_scope.

(* -- clause "quota runs out at any moment (before construction, between two insertions) => returns, work not placed is unassigned":
      the insertion loop, for EVERY quota oracle and every evaluator: returns, keeps the one-home invariant, leaves nothing pending,
      makes no poll after the first one answered true, and applies at most one insertion per poll that answered false *)
Theorem C07_process_total :
  forall (jobs : list Z) (ev : nat -> hsol -> eres) (q : quota) (st : pstate),
    ev_ok ev -> Inv jobs (p_sol st) ->
    exists st', process ev q st = Some st'
                /\ Inv jobs (p_sol st') /\ h_required (p_sol st') = []
                /\ p_polls st <= p_polls st'
                /\ (forall m, q m = true -> p_polls st <= m -> p_polls st' <= S m)
                /\ p_ins st <= p_ins st'
                /\ p_ins st' + p_polls st <= p_ins st + p_polls st'.
Proof. intros jobs ev q st Hev. exact (process_total jobs ev q Hev st). Qed.

(* every job of the plan is on exactly one route or reported unassigned exactly once, whenever the quota fired *)
Theorem C07_process_every_job_one_home :
  forall (jobs : list Z) (ev : nat -> hsol -> eres) (q : quota) (st st' : pstate),
    ev_ok ev -> Inv jobs (p_sol st) -> process ev q st = Some st' ->
    forall j, In j jobs ->
      (count_occ Z.eq_dec (concat (h_routes (p_sol st'))) j = 1 /\ count_occ Z.eq_dec (reported_unassigned (p_sol st')) j = 0)
      \/ (count_occ Z.eq_dec (concat (h_routes (p_sol st'))) j = 0 /\ count_occ Z.eq_dec (reported_unassigned (p_sol st')) j = 1).
Proof. exact process_partition. Qed.

(* -- "before construction": the quota is already true at the first poll: no insertion, routes untouched (only job-less routes are
      dropped by finalize_insertion_ctx), everything pending
      (and what was unassigned) is reported unassigned *)
Theorem C07_process_quota_before_first_insertion :
  forall (ev : nat -> hsol -> eres) (q : quota) (st : pstate),
    q (p_polls st) = true ->
    exists st', process ev q st = Some st'
                /\ h_routes (p_sol st') = h_routes (step (p_sol st) HDropEmpty)
                /\ p_ins st' = p_ins st
                /\ p_polls st' <= S (p_polls st)
                /\ h_required (p_sol st') = []
                /\ (forall j, In j (h_unassigned (p_sol st')) <-> In j (h_unassigned (p_sol st)) \/ In j (h_required (p_sol st))).
Proof. exact process_quota_first. Qed.

(* -- "the solver still returns normally with a solution": EvolutionSimulator::run + Iterative::run + Solver::solve, for EVERY
      quota oracle, under a positive generation limit COMBINED WITH ANY of the other criteria the builder accepts (max-time,
      min-cv sample / period, target proximity: oracles; none of them may already be true at the very first check, i.e. before the
      first initial solution): Ok(best), best has every job in exactly one home and nothing pending, and so has every individual of the population;
      at most N + 1 generations; no generation starts once the quota has fired (k-th poll): at most k - 1 generations *)
Theorem C07_evolve_returns_valid :
  forall (cfg : econfig) (W : oracles) (q : quota) (N k : nat),
    oracles_ok W ->
    c_max_gen cfg = Some N -> 1 <= N -> 1 <= c_init_ops cfg -> 1 <= c_init_size cfg ->
    (forall t, t < 3 -> o_time W t = false /\ forall i, o_other W i t = false) ->
    (c_max_time cfg = true -> o_init_quota W 0 = false) ->
    exists best st, evolve cfg W q = EOk best st
                    /\ (Inv (c_jobs cfg) best /\ h_required best = [])
                    /\ In best (s_pop st)
                    /\ Forall (fun s => Inv (c_jobs cfg) s /\ h_required s = []) (s_pop st)
                    /\ gens_run (s_tele st) <= S N
                    /\ (fires_by q k -> gens_run (s_tele st) <= pred k)
                    /\ length (t_evolution (s_tele st)) = gens_run (s_tele st).
Proof.
  intros cfg W q N k HW Hc HN Hops Hsize Hquiet Hiq.
  exact (evolve_returns cfg W q HW N k Hc Hops Hsize (first_check_positive_limit cfg W N Hc HN Hquiet Hiq)).
Qed.

(* the harness' CountingQuota(k) is such a quota *)
Theorem C07_counting_quota_fires : forall k, fires_by (counting_quota (Some k)) k.
Proof. exact counting_fires_by. Qed.

(* -- the documented errors: no initial operator; max_generations = 0 (outside the statement: "a positive limit"): always
      "cannot find any solution", for every quota and every oracle *)
Theorem C07_no_initial_operator_error :
  forall cfg W q, c_init_ops cfg = 0 -> evolve cfg W q = EErr ErrNoInitialMethods.
Proof. exact evolve_no_initial_operator. Qed.

Theorem C07_zero_generations_error :
  forall cfg W q, c_max_gen cfg = Some 0 -> 1 <= c_init_ops cfg -> evolve cfg W q = EErr ErrNoSolution.
Proof. exact evolve_zero_generations. Qed.

(* -- clause "It never runs more generations than the configured maximum":
      FULL statement  generations_run <= N  is REFUTED on the faithful model: with nothing else stopping the run (quota never
      fires, no time limit hit, no other configured criterion fires) exactly N + 1 generations are run for every N >= 1 (statistics.generation is the 0-based index
      of the generation just finished and MaxGeneration tests `generation >= limit`); metrics.generations reports N *)
Theorem C07_generations_run_exact :
  forall (cfg : econfig) (W : oracles) (q : quota) (N : nat),
    oracles_ok W ->
    c_max_gen cfg = Some N -> 1 <= N -> 1 <= c_init_ops cfg -> 1 <= c_init_size cfg ->
    (c_max_time cfg = true -> o_init_quota W 0 = false) ->
    (forall n, q n = false) -> (forall t, o_time W t = false) -> (forall i t, o_other W i t = false) ->
    exists best st, evolve cfg W q = EOk best st /\ gens_run (s_tele st) = N + 1 /\ t_metric_gens (s_tele st) = N.
Proof.
  intros cfg W q N HW Hc HN Hops Hsize Ht Hq Htm Hot.
  destruct (evolve_generations_exact cfg W q HW N Hc HN Hops Hsize) as (best & st & E & Hg & Hm); [|exact Hq|exact Htm|exact Hot|].
  - apply (first_check_positive_limit cfg W N Hc HN); [|exact Ht]. intros t _. split; [apply Htm|intros i; apply Hot].
  - exists best, st. split; [exact E|]. split; [lia|exact Hm].
Qed.

Theorem C07_generations_bounded_refuted :
  exists (cfg : econfig) (W : oracles) (q : quota) (N : nat) (best : hsol) (st : estate),
    c_max_gen cfg = Some N /\ 1 <= N /\ evolve cfg W q = EOk best st /\ N < gens_run (s_tele st).
Proof.
  exists (mkC [0%Z; 1%Z] 1 (Some 1) false None false 4 4 0), (skip_oracles 0 []), (counting_quota None), 1.
  eexists _, _. split; [reflexivity|]. split; [lia|]. split; [vm_compute; reflexivity|]. vm_compute. lia.
Qed.

(* the strongest true bound: never more than N + 1 generations, for every quota / clock / operator oracle and for every
   combination of max_generations = N with max-time, min-cv (sample or period, any size) and target proximity *)
Theorem C07_generations_bounded_partial :
  forall (cfg : econfig) (W : oracles) (q : quota) (N : nat),
    oracles_ok W ->
    c_max_gen cfg = Some N -> 1 <= N -> 1 <= c_init_ops cfg -> 1 <= c_init_size cfg ->
    (forall t, t < 3 -> o_time W t = false /\ forall i, o_other W i t = false) ->
    (c_max_time cfg = true -> o_init_quota W 0 = false) ->
    exists best st, evolve cfg W q = EOk best st /\ gens_run (s_tele st) <= N + 1.
Proof.
  intros cfg W q N HW Hc HN Hops Hsize Hquiet Hiq.
  destruct (C07_evolve_returns_valid cfg W q N 0 HW Hc HN Hops Hsize Hquiet Hiq) as (best & st & E & _ & _ & _ & Hg & _).
  exists best, st. split; [exact E|lia].
Qed.

(* the limit handed to MaxGeneration is the configured max_generations whatever else is configured (get_termination), and the
   composite (CompositeTermination = any) is terminated as soon as that limit is reached wherever the criterion stands in the
   list: additional criteria can only stop the run earlier *)
Theorem C07_generation_limit_is_the_configured_maximum :
  forall (N : nat) (max_time : bool) (min_cv : option (bool * nat)) (target : bool),
    gen_limit (terminations (Some N) max_time min_cv target) = Some N.
Proof. exact gen_limit_terminations. Qed.

Theorem C07_composite_terminates_at_generation_limit :
  forall (ts : list term) (l gen : nat) (tm : nat -> bool) (ot : nat -> nat -> bool) (tp : nat),
    gen_limit ts = Some l -> l <= gen -> fst (is_termination ts gen tm ot tp) = true.
Proof. intros ts l gen tm ot tp. exact (is_termination_gen_limit ts l gen tm ot tp). Qed.

(* -- "inside any search step": the inner loop of the decomposition search runs the inner search at least once and at most
      repeat_count times, and exactly once when the quota is already reached *)
Theorem C07_decompose_inner_bounds :
  forall (q : quota) (inner : nat -> nat) (repeat polls done : nat),
    let r := decompose_inner repeat q polls inner done in
    done <= fst r <= done + repeat /\ (1 <= repeat -> S done <= fst r) /\ polls <= snd r.
Proof. exact decompose_inner_bounds. Qed.

Theorem C07_decompose_inner_quota_reached :
  forall (q : quota) (inner : nat -> nat) (repeat polls done : nat),
    (forall n, q n = true) -> 1 <= repeat -> fst (decompose_inner repeat q polls inner done) = S done.
Proof. exact decompose_inner_reached. Qed.

(* -- non-vacuity: the hypotheses are satisfiable (an evaluator that always inserts the first pending job; the oracles used by
      the correspondence), and a concrete interruption between two insertions: 3 jobs, quota true from its 2nd poll on =>
      1 job inserted, 2 reported unassigned, 2 polls *)
Theorem C07_nonvacuous :
  ev_ok (fun _ s => match h_required s with j :: _ => ESuccess 0 j | [] => EFailure None false false end)
  /\ oracles_ok (skip_oracles 3 [2; 5])
  /\ Inv [0%Z; 1%Z; 2%Z] (init [0%Z; 1%Z; 2%Z])
  /\ run_process 3 (Some 2) = (1, 2, 2)
  /\ run_process 3 (Some 0) = (0, 3, 1)
  /\ run_process 3 None = (3, 0, 3)
  /\ run_evolve 2 8 [6; 18; 4] (Some 17) = (0, 2, 1, 2, 35)
  /\ run_evolve 2 8 [6; 18; 4] None = (0, 3, 2, 3, 40)
  /\ run_evolve_cfg 2 true (Some (true, 40)) true 8 [6; 18; 4] None = (0, 3, 2, 3, 40).
Proof.
  split; [|split; [|split; [apply homes_init|repeat split; vm_compute; reflexivity]]].
  - intros i s. unfold eres_ok. cbv beta. destruct (h_required s) eqn:E; [exact I|left; reflexivity].
  - split; intros; intros i s; exact I.
Qed.
