(* C07 — Interrupting the solver at any moment still yields a valid solution.
   "If the computation quota runs out at any moment - before construction, between two insertions, inside any search step - or
    a positive time/generation limit is hit, the solver still returns normally with a solution that satisfies C01-C03, reporting
    work not yet placed as unassigned. It never runs more generations than the configured maximum."
   Model: Model/Evolution.v (+ the bookkeeping model Model/Homes.v of C02).  The quota is an ARBITRARY function nat -> bool of
   the poll index; evaluation results, parent selection (also: no parent at all), the offspring list a user-supplied hyper-heuristic
   hands over per generation (ANY list: empty, duplicates, copies of parents - `o_hyper`), a user-supplied termination criterion
   on the statistics (`c_user_term`), ruin steps, foreign polls and the wall clock are arbitrary oracles.
   "valid" at this level = every job of the plan has exactly one home and `required` is drained (C02's invariant); feasibility (C01)
   and reproducibility (C03) of what is returned are checked on every real document by the verified checker valid_b.  *)
From VRP Require Import Base.Tac Model.Homes Proofs.HomesP Model.Evolution Proofs.EvolutionP.
Local Open Scope nat_scope.

(* -- clause "quota runs out at any moment (before construction, between two insertions) => returns, work not placed is unassigned":
      the insertion loop, for EVERY quota oracle and every evaluator: returns, keeps the one-home invariant, leaves nothing pending,
      makes no poll after the first one answered true, and applies at most one insertion per poll that answered false *)
Theorem C07_process_total :
  forall (jobs : list Z) (ev : nat -> hsol -> eres) (q : quota) (st : pstate),
    ev_ok ev -> Inv jobs (p_sol st) ->
    exists st', process ev q st = Some st'
                /\ Inv jobs (p_sol st') /\ h_required (p_sol st') = []
                /\ p_polls st <= p_polls st'
                /\ (forall m, q m = true -> p_polls st <= m -> p_polls st' <= S m)
                /\ p_ins st <= p_ins st'
                /\ p_ins st' + p_polls st <= p_ins st + p_polls st'.
Proof. intros jobs ev q st Hev. exact (process_total jobs ev q Hev st). Qed.

(* every job of the plan is on exactly one route or reported unassigned exactly once, whenever the quota fired *)
Theorem C07_process_every_job_one_home :
  forall (jobs : list Z) (ev : nat -> hsol -> eres) (q : quota) (st st' : pstate),
    ev_ok ev -> Inv jobs (p_sol st) -> process ev q st = Some st' ->
    forall j, In j jobs ->
      (count_occ Z.eq_dec (concat (h_routes (p_sol st'))) j = 1 /\ count_occ Z.eq_dec (reported_unassigned (p_sol st')) j = 0)
      \/ (count_occ Z.eq_dec (concat (h_routes (p_sol st'))) j = 0 /\ count_occ Z.eq_dec (reported_unassigned (p_sol st')) j = 1).
Proof. exact process_partition. Qed.

(* -- "before construction": the quota is already true at the first poll: no insertion, routes untouched (only job-less routes are
      dropped by finalize_insertion_ctx), everything pending
      (and what was unassigned) is reported unassigned *)
Theorem C07_process_quota_before_first_insertion :
  forall (ev : nat -> hsol -> eres) (q : quota) (st : pstate),
    q (p_polls st) = true ->
    exists st', process ev q st = Some st'
                /\ h_routes (p_sol st') = h_routes (step (p_sol st) HDropEmpty)
                /\ p_ins st' = p_ins st
                /\ p_polls st' <= S (p_polls st)
                /\ h_required (p_sol st') = []
                /\ (forall j, In j (h_unassigned (p_sol st')) <-> In j (h_unassigned (p_sol st)) \/ In j (h_required (p_sol st))).
Proof. exact process_quota_first. Qed.

(* -- "the solver still returns normally with a solution": EvolutionSimulator::run + Iterative::run + Solver::solve, for EVERY
      quota oracle, under a positive generation limit COMBINED WITH ANY of the other criteria the builder accepts (max-time,
      min-cv sample / period, target proximity: oracles; none of them may already be true at the very first check, i.e. before the
      first initial solution): Ok(best), best has every job in exactly one home and nothing pending, and so has every individual of the population;
      at most N + 1 generations; no generation starts once the quota has fired (k-th poll): at most k - 1 generations.
      W contains the offspring oracle o_hyper of a user-supplied hyper-heuristic: ANY list per generation (hyper_ok: each handed-over
      solution is a complete solution of the plan when the population and the built-in offspring are; e.g. every selection among them,
      C07_hyper_selection_is_ok) and the parent selection o_parents (any list, also empty); cfg may contain a user-supplied
      termination on statistics.generation (positive limit) *)
Theorem C07_evolve_returns_valid :
  forall (cfg : econfig) (W : oracles) (q : quota) (N k : nat),
    oracles_ok W -> hyper_ok (c_jobs cfg) W ->
    c_max_gen cfg = Some N -> 1 <= N -> (forall l, c_user_term cfg = Some l -> 1 <= l) -> 1 <= c_init_ops cfg -> 1 <= c_init_size cfg ->
    (forall t, t < 3 -> o_time W t = false /\ forall i, o_other W i t = false) ->
    (c_max_time cfg = true -> o_init_quota W 0 = false) ->
    exists best st, evolve cfg W q = EOk best st
                    /\ (Inv (c_jobs cfg) best /\ h_required best = [])
                    /\ In best (s_pop st)
                    /\ Forall (fun s => Inv (c_jobs cfg) s /\ h_required s = []) (s_pop st)
                    /\ gens_run (s_tele st) <= S N
                    /\ (fires_by q k -> gens_run (s_tele st) <= pred k)
                    /\ length (t_evolution (s_tele st)) = gens_run (s_tele st).
Proof.
  intros cfg W q N k HW HH Hc HN Hu Hops Hsize Hquiet Hiq.
  exact (evolve_returns cfg W q HW HH N k Hc Hops Hsize
                        (first_check_positive_limit cfg W N Hc (eff_limit_pos cfg N HN Hu) Hquiet Hiq)).
Qed.

(* every user-supplied heuristic that only SELECTS among the parents and the offspring of the built-in search (drops some or all of
   them, duplicates, reorders) satisfies hyper_ok *)
Theorem C07_hyper_selection_is_ok :
  forall (jobs : list Z) (W : oracles),
    (forall g pop offs s, In s (o_hyper W g pop offs) -> In s pop \/ In s offs) -> hyper_ok jobs W.
Proof. exact hyper_selection_ok. Qed.

(* the harness' CountingQuota(k) is such a quota *)
Theorem C07_counting_quota_fires : forall k, fires_by (counting_quota (Some k)) k.
Proof. exact counting_fires_by. Qed.

(* -- the documented errors: no initial operator; max_generations = 0 (outside the statement: "a positive limit"): always
      "cannot find any solution", for every quota and every oracle *)
Theorem C07_no_initial_operator_error :
  forall cfg W q, c_init_ops cfg = 0 -> evolve cfg W q = EErr ErrNoInitialMethods.
Proof. exact evolve_no_initial_operator. Qed.

Theorem C07_zero_generations_error :
  forall cfg W q, c_max_gen cfg = Some 0 -> 1 <= c_init_ops cfg -> evolve cfg W q = EErr ErrNoSolution.
Proof. exact evolve_zero_generations. Qed.

(* -- clause "It never runs more generations than the configured maximum":
      FULL statement  generations_run <= N  is REFUTED on the faithful model: with nothing else stopping the run (quota never
      fires, no time limit hit, no other configured criterion fires) exactly N + 1 generations are run for every N >= 1 (statistics.generation is the 0-based index
      of the generation just finished and MaxGeneration tests `generation >= limit`); metrics.generations reports N *)
Theorem C07_generations_run_exact :
  forall (cfg : econfig) (W : oracles) (q : quota) (N : nat),
    oracles_ok W -> hyper_ok (c_jobs cfg) W ->
    c_max_gen cfg = Some N -> 1 <= N -> c_user_term cfg = None -> 1 <= c_init_ops cfg -> 1 <= c_init_size cfg ->
    (c_max_time cfg = true -> o_init_quota W 0 = false) ->
    (forall n, q n = false) -> (forall t, o_time W t = false) -> (forall i t, o_other W i t = false) ->
    exists best st, evolve cfg W q = EOk best st /\ gens_run (s_tele st) = N + 1 /\ t_metric_gens (s_tele st) = N.
Proof.
  intros cfg W q N HW HH Hc HN Hu Hops Hsize Ht Hq Htm Hot.
  assert (HL : eff_limit cfg N = N) by (unfold eff_limit; rewrite Hu; reflexivity).
  destruct (evolve_generations_exact cfg W q HW HH N Hc) as (best & st & E & Hg & Hm);
    [rewrite HL; exact HN|exact Hops|exact Hsize| |exact Hq|exact Htm|exact Hot|].
  - apply (first_check_positive_limit cfg W N Hc); [rewrite HL; exact HN| |exact Ht]. intros t _. split; [apply Htm|intros i; apply Hot].
  - exists best, st. rewrite HL in Hg, Hm. split; [exact E|]. split; [lia|exact Hm].
Qed.

(* the same with a USER-SUPPLIED termination criterion that is reached only through the statistics (`statistics().generation >= L`,
   wrapped around the builder's criteria): exactly min N L + 1 generations - the user-supplied criterion sees the same 0-based
   counter, and EVERY iteration of the loop advances it, whatever list of offspring the (user-supplied) heuristic handed over and
   whatever parents the (user-supplied) population selected *)
Theorem C07_generations_run_exact_user_termination :
  forall (cfg : econfig) (W : oracles) (q : quota) (N L : nat),
    oracles_ok W -> hyper_ok (c_jobs cfg) W ->
    c_max_gen cfg = Some N -> 1 <= N -> c_user_term cfg = Some L -> 1 <= L -> 1 <= c_init_ops cfg -> 1 <= c_init_size cfg ->
    (c_max_time cfg = true -> o_init_quota W 0 = false) ->
    (forall n, q n = false) -> (forall t, o_time W t = false) -> (forall i t, o_other W i t = false) ->
    exists best st, evolve cfg W q = EOk best st /\ gens_run (s_tele st) = Nat.min N L + 1 /\ t_metric_gens (s_tele st) = Nat.min N L.
Proof.
  intros cfg W q N L HW HH Hc HN Hu HL1 Hops Hsize Ht Hq Htm Hot.
  assert (HL : eff_limit cfg N = Nat.min N L) by (unfold eff_limit; rewrite Hu; reflexivity).
  destruct (evolve_generations_exact cfg W q HW HH N Hc) as (best & st & E & Hg & Hm);
    [rewrite HL; lia|exact Hops|exact Hsize| |exact Hq|exact Htm|exact Hot|].
  - apply (first_check_positive_limit cfg W N Hc); [rewrite HL; lia| |exact Ht]. intros t _. split; [apply Htm|intros i; apply Hot].
  - exists best, st. rewrite HL in Hg, Hm. split; [exact E|]. split; [lia|exact Hm].
Qed.

(* one iteration of Iterative::run, for EVERY offspring oracle and every parent selection: it is COUNTED - the number of generations
   run grows by one and statistics.generation (what MaxGeneration and a user-supplied criterion read) becomes the index of the
   iteration just finished - also when the heuristic handed over nothing, in which case the population stays as it was *)
Theorem C07_every_iteration_is_counted :
  forall (cfg : econfig) (W : oracles) (q : quota) (st : estate),
    oracles_ok W ->
    Forall (fun s => Inv (c_jobs cfg) s /\ h_required s = []) (s_pop st) ->
    exists st', generation cfg W q st = Some st'
                /\ gens_run (s_tele st') = S (gens_run (s_tele st))
                /\ t_stat_gen (s_tele st') = gens_run (s_tele st)
                /\ (exists offs, s_pop st' = s_pop st ++ o_hyper W (gens_run (s_tele st)) (s_pop st) offs)
                /\ ((forall offs, o_hyper W (gens_run (s_tele st)) (s_pop st) offs = []) -> s_pop st' = s_pop st).
Proof. intros cfg W q st HW. exact (generation_counted cfg W q HW st). Qed.

Theorem C07_generations_bounded_refuted :
  exists (cfg : econfig) (W : oracles) (q : quota) (N : nat) (best : hsol) (st : estate),
    c_max_gen cfg = Some N /\ 1 <= N /\ evolve cfg W q = EOk best st /\ N < gens_run (s_tele st).
Proof.
  exists (mkC [0%Z; 1%Z] 1 (Some 1) false None false None 4 4 0), (skip_oracles 0 []), (counting_quota None), 1.
  eexists _, _. split; [reflexivity|]. split; [lia|]. split; [vm_compute; reflexivity|]. vm_compute. lia.
Qed.

(* the strongest true bound: never more than N + 1 generations, for every quota / clock / operator oracle, for EVERY offspring
   oracle of a user-supplied hyper-heuristic (o_hyper: any list per generation, also the empty one) and every parent selection
   (o_parents: also none), with or without a user-supplied termination on the statistics, and for every
   combination of max_generations = N with max-time, min-cv (sample or period, any size) and target proximity *)
Theorem C07_generations_bounded_partial :
  forall (cfg : econfig) (W : oracles) (q : quota) (N : nat),
    oracles_ok W -> hyper_ok (c_jobs cfg) W ->
    c_max_gen cfg = Some N -> 1 <= N -> (forall l, c_user_term cfg = Some l -> 1 <= l) -> 1 <= c_init_ops cfg -> 1 <= c_init_size cfg ->
    (forall t, t < 3 -> o_time W t = false /\ forall i, o_other W i t = false) ->
    (c_max_time cfg = true -> o_init_quota W 0 = false) ->
    exists best st, evolve cfg W q = EOk best st /\ gens_run (s_tele st) <= N + 1.
Proof.
  intros cfg W q N HW HH Hc HN Hu Hops Hsize Hquiet Hiq.
  destruct (C07_evolve_returns_valid cfg W q N 0 HW HH Hc HN Hu Hops Hsize Hquiet Hiq) as (best & st & E & _ & _ & _ & Hg & _).
  exists best, st. split; [exact E|lia].
Qed.

(* the limit handed to MaxGeneration is the configured max_generations whatever else is configured (get_termination), and the
   composite (CompositeTermination = any) is terminated as soon as that limit is reached wherever the criterion stands in the
   list: additional criteria can only stop the run earlier *)
Theorem C07_generation_limit_is_the_configured_maximum :
  forall (N : nat) (max_time : bool) (min_cv : option (bool * nat)) (target : bool),
    gen_limit (terminations (Some N) max_time min_cv target) = Some N.
Proof. exact gen_limit_terminations. Qed.

Theorem C07_composite_terminates_at_generation_limit :
  forall (ts : list term) (l gen : nat) (tm : nat -> bool) (ot : nat -> nat -> bool) (tp : nat),
    gen_limit ts = Some l -> l <= gen -> fst (is_termination ts gen tm ot tp) = true.
Proof. intros ts l gen tm ot tp. exact (is_termination_gen_limit ts l gen tm ot tp). Qed.

Theorem C07_composite_terminates_at_user_limit :
  forall (ts : list term) (l gen : nat) (tm : nat -> bool) (ot : nat -> nat -> bool) (tp : nat),
    In (TUser l) ts -> l <= gen -> fst (is_termination ts gen tm ot tp) = true.
Proof. intros ts l gen tm ot tp. exact (is_termination_user_limit ts l gen tm ot tp). Qed.

(* -- "inside any search step": the inner loop of the decomposition search runs the inner search at least once and at most
      repeat_count times, and exactly once when the quota is already reached *)
Theorem C07_decompose_inner_bounds :
  forall (q : quota) (inner : nat -> nat) (repeat polls done : nat),
    let r := decompose_inner repeat q polls inner done in
    done <= fst r <= done + repeat /\ (1 <= repeat -> S done <= fst r) /\ polls <= snd r.
Proof. exact decompose_inner_bounds. Qed.

Theorem C07_decompose_inner_quota_reached :
  forall (q : quota) (inner : nat -> nat) (repeat polls done : nat),
    (forall n, q n = true) -> 1 <= repeat -> fst (decompose_inner repeat q polls inner done) = S done.
Proof. exact decompose_inner_reached. Qed.

(* -- non-vacuity: the hypotheses are satisfiable (an evaluator that always inserts the first pending job; the oracles used by
      the correspondence), and a concrete interruption between two insertions: 3 jobs, quota true from its 2nd poll on =>
      1 job inserted, 2 reported unassigned, 2 polls *)
Theorem C07_nonvacuous :
  ev_ok (fun _ s => match h_required s with j :: _ => ESuccess 0 j | [] => EFailure None false false end)
  /\ oracles_ok (skip_oracles 3 [2; 5])
  /\ hyper_ok [0%Z; 1%Z; 2%Z] (skip_oracles 3 [2; 5])
  /\ hyper_ok [] (loop_oracles [2; 0; 1] [1; 0; 2] [0; 1; 3] [0; 2; 0])
  /\ Inv [0%Z; 1%Z; 2%Z] (init [0%Z; 1%Z; 2%Z])
  /\ run_process 3 (Some 2) = (1, 2, 2)
  /\ run_process 3 (Some 0) = (0, 3, 1)
  /\ run_process 3 None = (3, 0, 3)
  /\ run_evolve 2 8 [6; 18; 4] (Some 17) = (0, 2, 1, 2, 35)
  /\ run_evolve 2 8 [6; 18; 4] None = (0, 3, 2, 3, 40)
  /\ run_evolve_cfg 2 true (Some (true, 40)) true 8 [6; 18; 4] None = (0, 3, 2, 3, 40)
  (* a scripted hyper-heuristic that hands over NOTHING in generations 0 and 2 (and everything three times in generation 1), one
     parent selected: max_generations = 3 still runs 4 iterations, every one of them counted, 1 + 3 individuals *)
  /\ run_loop (Some 3) None 1 1 0 0 [0; 0; 0; 0] [1; 1; 1; 1] [0; 3; 0; 1] [0; 0; 0; 0] None = (0, 4, 3, [0; 1; 2; 3], 5, 5)
  (* a population that selects no parent at all and a heuristic that hands over nothing: still counted, the run ends *)
  /\ run_loop (Some 2) None 1 1 0 0 [] [] [0; 0; 0] [] None = (0, 3, 2, [0; 1; 2], 4, 1)
  (* a user-supplied termination `statistics().generation >= 1` under max_generations = 5: 2 iterations *)
  /\ run_loop (Some 5) (Some 1) 1 1 0 0 [] [1; 1] [0; 2] [] None = (0, 2, 1, [0; 1], 3, 3).
Proof.
  split; [|split; [|split; [|split; [|split; [apply homes_init|repeat split; vm_compute; reflexivity]]]]].
  - intros i s. unfold eres_ok. cbv beta. destruct (h_required s) eqn:E; [exact I|left; reflexivity].
  - split; intros; intros i s; exact I.
  - apply hyper_selection_ok. intros g pop offs s Hs. right. exact Hs.
  - apply hyper_selection_ok. intros g pop offs s Hs. cbn [loop_oracles o_hyper] in Hs. apply in_app_or in Hs. destruct Hs as [Hs|Hs].
    + right. apply in_flat_map in Hs. destruct Hs as (x & Hx & Hr). apply repeat_spec in Hr. subst s. exact Hx.
    + left. destruct pop as [|h t]; [contradiction|]. apply repeat_spec in Hs. subst s. left. reflexivity.
Qed.
