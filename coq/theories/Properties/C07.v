(* C07 — Interrupting the solver at any moment still yields a valid solution.
   "If the computation quota runs out at any moment - before construction, between two insertions, inside any search step - or
    a positive time/generation limit is hit, the solver still returns normally with a solution that satisfies C01-C03, reporting
    work not yet placed as unassigned. It never runs more generations than the configured maximum."
   Model: Model/Evolution.v (+ the bookkeeping model Model/Homes.v of C02).  The quota is an ARBITRARY function nat -> bool of
   the poll index; evaluation results, parent selection (also: no parent at all), the offspring list a user-supplied hyper-heuristic
   hands over per generation (ANY list: empty, duplicates, copies of parents - `o_hyper`), a user-supplied termination criterion
   on the statistics (`c_user_term`), ruin steps, foreign polls and the wall clock are arbitrary oracles.
   "valid" at this level = every job of the plan has exactly one home and `required` is drained (C02's invariant); feasibility (C01)
   and reproducibility (C03) of what is returned are checked on every real document by the verified checker valid_b.  *)
From VRP Require Import Base.Tac Model.Homes Proofs.HomesP Model.Evolution Proofs.EvolutionP.
Local Open Scope nat_scope.

(* -- clause "quota runs out at any moment (before construction, between two insertions) => returns, work not placed is unassigned":
      the insertion loop, for EVERY quota oracle and every evaluator: returns, keeps the one-home invariant, leaves nothing pending,
      makes no poll after the first one answered true, and applies at most one insertion per poll that answered false *)
Theorem C07_process_total :
  forall (jobs : list Z) (ev : nat -> hsol -> eres) (q : quota) (st : pstate),
    ev_ok ev -> Inv jobs (p_sol st) ->
    exists st', process ev q st = Some st'
                /\ Inv jobs (p_sol st') /\ h_required (p_sol st') = []
                /\ p_polls st <= p_polls st'
                /\ (forall m, q m = true -> p_polls st <= m -> p_polls st' <= S m)
                /\ p_ins st <= p_ins st'
                /\ p_ins st' + p_polls st <= p_ins st + p_polls st'.
Proof. intros jobs ev q st Hev. exact (process_total jobs ev q Hev st). Qed.

(* every job of the plan is on exactly one route or reported unassigned exactly once, whenever the quota fired *)
Theorem C07_process_every_job_one_home :
  forall (jobs : list Z) (ev : nat -> hsol -> eres) (q : quota) (st st' : pstate),
    ev_ok ev -> Inv jobs (p_sol st) -> process ev q st = Some st' ->
    forall j, In j jobs ->
      (count_occ Z.eq_dec (concat (h_routes (p_sol st'))) j = 1 /\ count_occ Z.eq_dec (reported_unassigned (p_sol st')) j = 0)
      \/ (count_occ Z.eq_dec (concat (h_routes (p_sol st'))) j = 0 /\ count_occ Z.eq_dec (reported_unassigned (p_sol st')) j = 1).
Proof. exact process_partition. Qed.

(* -- "before construction": the quota is already true at the first poll: no insertion, routes untouched (only job-less routes are
      dropped by finalize_insertion_ctx), everything pending
      (and what was unassigned) is reported unassigned *)
Theorem C07_process_quota_before_first_insertion :
  forall (ev : nat -> hsol -> eres) (q : quota) (st : pstate),
    q (p_polls st) = true ->
    exists st', process ev q st = Some st'
                /\ h_routes (p_sol st') = h_routes (step (p_sol st) HDropEmpty)
                /\ p_ins st' = p_ins st
                /\ p_polls st' <= S (p_polls st)
                /\ h_required (p_sol st') = []
                /\ (forall j, In j (h_unassigned (p_sol st')) <-> In j (h_unassigned (p_sol st)) \/ In j (h_required (p_sol st))).
Proof. exact process_quota_first. Qed.

(* -- "before construction", end to end (EvolutionSimulator::run + Iterative::run + Solver::solve): the quota is already reached when
      the solver starts (it answers true at every poll): the solver returns normally, runs no generation, and the solution has no
      tour and reports EVERY job of the plan as unassigned - whatever limits are configured and whatever the clock says *)
Theorem C07_quota_before_construction_end_to_end :
  forall (cfg : econfig) (W : oracles) (q : quota),
    oracles_ok W -> c_legacy_stop cfg = false ->
    1 <= c_init_ops cfg -> 1 <= c_init_size cfg -> 1 <= c_track cfg -> c_individuals cfg = [] ->
    (forall n, q n = true) ->
    exists best st, evolve cfg W q = EOk best st
                    /\ gens_run (s_tele st) = 0 /\ s_iters st = 0
                    /\ (Inv (c_jobs cfg) best /\ h_required best = [])
                    /\ h_routes best = []
                    /\ (forall j, In j (c_jobs cfg) -> In j (h_unassigned best)).
Proof.
  intros cfg W q HW Hleg Hops Hsize HT Hind Hq.
  destruct (evolve_quota_before_construction cfg W q HW Hops HT Hind (starts_nonempty_now cfg W Hleg Hsize) Hq)
    as (best & st & E & Hg & Hi & Hb & Hr & Hun).
  exists best, st. split; [exact E|]. split; [exact Hg|]. split; [exact Hi|]. split; [exact Hb|]. split; [exact Hr|exact Hun].
Qed.

(* -- "the solver still returns normally with a solution": EvolutionSimulator::run + Iterative::run + Solver::solve, the code as
      it is (c_legacy_stop = false: since the repair of finding C07-F2 the initial phase builds one solution before its stop tests
      apply), for EVERY quota oracle, EVERY clock (time limit expired or not, at any moment) and EVERY answer of the other criteria
      the builder accepts (max-time, min-cv sample / period, target proximity: oracles), under a generation limit N (also N = 0):
      Ok(best), best has every job in exactly one home and nothing pending, and so has every individual of the population;
      at most N + 1 generations; no generation starts once the quota has fired (k-th poll): at most k - 1 generations.
      W contains the offspring oracles of a user-supplied hyper-heuristic: o_hyper (search_many) and o_diverse (diversify_many)
      return ANY list per generation, also the empty one (hyper_ok: each handed-over solution is a complete solution of the plan when
      the population and the built-in offspring are; e.g. every selection among them, C07_hyper_selection_is_ok), o_inner (does it run
      the built-in search at all), the parent selection o_parents (any list, also empty), the selection phase o_exploit, the operator
      chosen by random.weighted for the later initial slots; cfg may contain a user-supplied termination on statistics.generation,
      supplied initial individuals (complete solutions) and any track_population >= 1.
      Also: the loop iterations that got past the termination / quota test (= search_many calls), the add_all calls, the
      population.on_generation calls and the generations counted by the telemetry are the SAME number, population.on_generation saw
      statistics.generation = 0, 1, 2, ... (no iteration is uncounted, none counted twice); metrics.generations reports the INDEX of
      the last generation (one less than the number run); metrics.evolution holds every track_population-th generation plus the
      last one; the supplied individuals are still in the population at the end *)
Theorem C07_evolve_returns_valid :
  forall (cfg : econfig) (W : oracles) (q : quota) (N k : nat),
    oracles_ok W -> hyper_ok (c_jobs cfg) W -> c_legacy_stop cfg = false ->
    c_max_gen cfg = Some N -> 1 <= c_init_ops cfg -> 1 <= c_init_size cfg ->
    1 <= c_track cfg -> Forall (fun s => Inv (c_jobs cfg) s /\ h_required s = []) (c_individuals cfg) ->
    exists best st, evolve cfg W q = EOk best st
                    /\ (Inv (c_jobs cfg) best /\ h_required best = [])
                    /\ In best (s_pop st)
                    /\ Forall (fun s => Inv (c_jobs cfg) s /\ h_required s = []) (s_pop st)
                    /\ gens_run (s_tele st) <= S N
                    /\ (fires_by q k -> gens_run (s_tele st) <= pred k)
                    /\ t_evolution (s_tele st) = reported (c_track cfg) (gens_run (s_tele st))
                    /\ t_metric_gens (s_tele st) = pred (gens_run (s_tele st))
                    /\ (s_iters st = gens_run (s_tele st)
                        /\ count_ev is_select (s_log st) = s_iters st /\ count_ev is_search (s_log st) = s_iters st
                        /\ count_ev is_addall (s_log st) = s_iters st /\ count_ev is_popgen (s_log st) = s_iters st
                        /\ popgen_stats (s_log st) = seq 0 (s_iters st))
                    /\ (exists e, s_pop st = seeded cfg ++ e).
Proof.
  intros cfg W q N k HW HH Hleg Hc Hops Hsize HT Hind.
  exact (evolve_returns cfg W q HW HH N k (gen_limit_cfg cfg N Hc) Hops HT Hind (starts_nonempty_now cfg W Hleg Hsize)).
Qed.

(* with supplied initial individuals (with_init_solutions; at least one is taken: initial.max_size >= 1) a solution is returned
   WHATEVER the first check says and whatever the generation limit is - also for max_generations = 0 and for a time limit that
   has already expired: the best of the population, which still contains every supplied individual *)
Theorem C07_evolve_with_supplied_individuals_returns_valid :
  forall (cfg : econfig) (W : oracles) (q : quota) (N k : nat),
    oracles_ok W -> hyper_ok (c_jobs cfg) W ->
    c_max_gen cfg = Some N -> 1 <= c_init_ops cfg -> 1 <= c_track cfg ->
    Forall (fun s => Inv (c_jobs cfg) s /\ h_required s = []) (c_individuals cfg) -> seeded cfg <> [] ->
    exists best st, evolve cfg W q = EOk best st
                    /\ (Inv (c_jobs cfg) best /\ h_required best = [])
                    /\ In best (s_pop st)
                    /\ gens_run (s_tele st) <= S N
                    /\ (fires_by q k -> gens_run (s_tele st) <= pred k)
                    /\ (exists e, s_pop st = seeded cfg ++ e).
Proof.
  intros cfg W q N k HW HH Hc Hops HT Hind Hs.
  destruct (evolve_returns cfg W q HW HH N k (gen_limit_cfg cfg N Hc) Hops HT Hind (or_introl Hs)) as (best & st & E & Hb & Hin & _ & Hg & Hq & _ & _ & _ & He).
  exists best, st. split; [exact E|]. split; [exact Hb|]. split; [exact Hin|]. split; [exact Hg|]. split; [exact Hq|exact He].
Qed.

(* NOTHING is configured (no max-generations, max-time, min-cv, target proximity): EvolutionConfigBuilder::get_termination installs
   max-generations 3000 + max-time 300 s; the same guarantees with N = 3000, for every quota, every clock and every oracle, also
   under a user-supplied termination wrapped around them *)
Theorem C07_default_limits_return_valid :
  forall (cfg : econfig) (W : oracles) (q : quota) (k : nat),
    oracles_ok W -> hyper_ok (c_jobs cfg) W -> c_legacy_stop cfg = false ->
    c_max_gen cfg = None -> c_max_time cfg = false -> c_min_cv cfg = None -> c_target cfg = false ->
    1 <= c_init_ops cfg -> 1 <= c_init_size cfg -> 1 <= c_track cfg ->
    Forall (fun s => Inv (c_jobs cfg) s /\ h_required s = []) (c_individuals cfg) ->
    exists best st, evolve cfg W q = EOk best st
                    /\ (Inv (c_jobs cfg) best /\ h_required best = [])
                    /\ In best (s_pop st)
                    /\ Forall (fun s => Inv (c_jobs cfg) s /\ h_required s = []) (s_pop st)
                    /\ gens_run (s_tele st) <= 3001
                    /\ (fires_by q k -> gens_run (s_tele st) <= pred k)
                    /\ s_iters st = gens_run (s_tele st).
Proof.
  intros cfg W q k HW HH Hleg H1 H2 H3 H4 Hops Hsize HT Hind.
  destruct (evolve_returns cfg W q HW HH 3000 k (gen_limit_default cfg H1 H2 H3 H4) Hops HT Hind (starts_nonempty_now cfg W Hleg Hsize))
    as (best & st & E & Hb & Hin & Hp & Hg & Hq & _ & _ & Hcnt & _).
  exists best, st. split; [exact E|]. split; [exact Hb|]. split; [exact Hin|]. split; [exact Hp|]. split; [exact Hg|].
  split; [exact Hq|exact (proj1 Hcnt)].
Qed.

(* every user-supplied heuristic that only SELECTS among the parents and the offspring of the built-in search (drops some or all of
   them, duplicates, reorders) satisfies hyper_ok *)
Theorem C07_hyper_selection_is_ok :
  forall (jobs : list Z) (W : oracles),
    (forall g pop offs s, In s (o_hyper W g pop offs) -> In s pop \/ In s offs) ->
    (forall g pop s, In s (o_diverse W g pop) -> In s pop) -> hyper_ok jobs W.
Proof. exact hyper_selection_ok. Qed.

(* the harness' CountingQuota(k) is such a quota *)
Theorem C07_counting_quota_fires : forall k, fires_by (counting_quota (Some k)) k.
Proof. exact counting_fires_by. Qed.

(* -- for EVERY oracle and every configuration, with no assumption at all: whenever the run reaches the end of Iterative::run,
      the iterations that got past the termination / quota test, the select / search_many / add_all / population.on_generation
      calls and the generations counted by Telemetry::on_generation are the same number, and population.on_generation was handed
      statistics.generation = 0, 1, 2, ...: no iteration (in particular none whose offspring list was EMPTY) goes uncounted *)
Theorem C07_loop_calls_are_counted :
  forall (cfg : econfig) (W : oracles) (q : quota) (st : estate),
    evolve_run cfg W q = Some st ->
    s_iters st = gens_run (s_tele st)
    /\ count_ev is_select (s_log st) = s_iters st /\ count_ev is_search (s_log st) = s_iters st
    /\ count_ev is_addall (s_log st) = s_iters st /\ count_ev is_popgen (s_log st) = s_iters st
    /\ popgen_stats (s_log st) = seq 0 (s_iters st).
Proof. exact evolve_run_counted. Qed.

(* nothing handed to the population is lost by the loops: the supplied individuals are a prefix of the final population *)
Theorem C07_population_keeps_supplied_individuals :
  forall (cfg : econfig) (W : oracles) (q : quota) (st : estate),
    evolve_run cfg W q = Some st -> exists e, s_pop st = seeded cfg ++ e.
Proof. exact evolve_run_keeps_seeded. Qed.

(* -- the documented errors: no initial operator; max_generations = 0 without supplied individuals (outside the statement: "a
      positive limit"): always "cannot find any solution", for every quota and every oracle; track_population = 0 panics
      (`generation % track_population`, telemetry.rs) *)
Theorem C07_no_initial_operator_error :
  forall cfg W q, c_init_ops cfg = 0 -> evolve cfg W q = EErr ErrNoInitialMethods.
Proof. exact evolve_no_initial_operator. Qed.

(* max_generations = 0 (outside the statement: "a positive limit"): the code as it is builds one initial solution and returns it
   without running a generation; BEFORE the repair of C07-F2 (c_legacy_stop = true) it returned "cannot find any solution" *)
Theorem C07_zero_generations_returns_initial_solution :
  forall cfg W q,
    oracles_ok W -> c_legacy_stop cfg = false ->
    c_max_gen cfg = Some 0 -> 1 <= c_init_ops cfg -> 1 <= c_init_size cfg -> 1 <= c_track cfg ->
    Forall (fun s => Inv (c_jobs cfg) s /\ h_required s = []) (c_individuals cfg) ->
    exists best st, evolve cfg W q = EOk best st /\ gens_run (s_tele st) = 0 /\ s_iters st = 0
                    /\ (Inv (c_jobs cfg) best /\ h_required best = []).
Proof. exact evolve_zero_generations_now. Qed.

Theorem C07_zero_generations_error_before_fix :
  forall cfg W q, c_legacy_stop cfg = true ->
    c_max_gen cfg = Some 0 -> 1 <= c_init_ops cfg -> 1 <= c_track cfg -> seeded cfg = [] -> evolve cfg W q = EErr ErrNoSolution.
Proof. exact evolve_zero_generations. Qed.

Theorem C07_track_population_zero_panics :
  forall cfg W q, 1 <= c_init_ops cfg -> c_track cfg = 0 -> evolve cfg W q = EPanic.
Proof. exact evolve_track_zero_panics. Qed.

(* "cannot find any solution" (Solver::solve) is returned exactly when the population is empty at the end of Iterative::run *)
Theorem C07_no_solution_iff_population_empty :
  forall cfg W q,
    evolve cfg W q = EErr ErrNoSolution <->
    1 <= c_init_ops cfg /\ 1 <= c_track cfg /\ exists st, evolve_run cfg W q = Some st /\ s_pop st = [].
Proof. exact evolve_no_solution_iff. Qed.

(* -- clause "a positive time limit is hit => still returns a solution" was REFUTED on the faithful model of the code BEFORE /repo
      commit 2c5dd99 (finding C07-F2, now repaired; c_legacy_stop = true selects that EvolutionSimulator::run):
      only a time limit is configured and it has NOT expired (MaxTime::is_termination = false for three more checks), but more than
      initial.quota (5 %) of it has passed since the clock was started at EvolutionConfigBuilder::build when the run begins
      (o_init_quota 0 = true): the initial phase built nothing, Iterative::run span over an empty population until the limit was
      hit and Solver::solve returned Err("cannot find any solution").  The very same configuration and oracles with the code as it
      is (c_legacy_stop = false) return a solution *)
Theorem C07_time_limit_returns_solution_refuted :
  exists (cfg : econfig) (W : oracles) (q : quota),
    c_legacy_stop cfg = true
    /\ c_max_gen cfg = None /\ c_max_time cfg = true /\ 1 <= c_init_ops cfg /\ 1 <= c_init_size cfg /\ 1 <= c_track cfg
    /\ c_individuals cfg = [] /\ (forall n, q n = false)
    /\ fst (is_termination (cfg_terms cfg) 0 (o_time W) (o_other W) 0) = false
    /\ o_init_quota W 0 = true
    /\ evolve cfg W q = EErr ErrNoSolution
    /\ exists best st, evolve (mkC (c_jobs cfg) (c_reg cfg) (c_max_gen cfg) (c_max_time cfg) (c_min_cv cfg) (c_target cfg) (c_user_term cfg)
                                   (c_init_ops cfg) (c_init_size cfg) (c_fuel cfg) (c_individuals cfg) (c_track cfg) false) W q = EOk best st.
Proof.
  exists (mkC [0%Z; 1%Z] 1 None true None false None 4 4 9 [] 1 true),
         (mkO (fun t => 3 <=? t) (fun _ _ => false) (fun _ => true) (fun _ => 0) (fun _ _ _ _ => EFailure None false false)
              (fun _ _ => []) (fun _ => true) (fun _ _ => []) (fun _ => true) (fun _ _ _ => []) (fun _ _ _ _ => EFailure None false false)
              (fun _ _ => 0) (fun _ => 0) (fun _ _ offs => offs)),
         (counting_quota None).
  split; [reflexivity|]. split; [reflexivity|]. split; [reflexivity|]. split; [cbn; lia|]. split; [cbn; lia|]. split; [cbn; lia|]. split; [reflexivity|].
  split; [intros n; reflexivity|]. split; [vm_compute; reflexivity|]. split; [reflexivity|]. split; [vm_compute; reflexivity|].
  eexists _, _. vm_compute. reflexivity.
Qed.

(* -- clause "a positive time limit is hit => returns normally with a solution" (no generation limit configured), the code as it is:
      for EVERY quota / operator / offspring oracle and EVERY clock - also one that has used up more than initial.quota of the
      limit, or all of it, before the run starts.  T0 = the number of clock readings after which MaxTime answers true (the clock
      does not go back); every test of Iterative::run reads the clock, so at most T0 generations are run; c_fuel is only the fuel
      of the model's recursion: the result is the same for every fuel above T0, i.e. the loop ENDS.  No generation starts once the
      quota has fired *)
Theorem C07_time_limit_returns_valid :
  forall (cfg : econfig) (W : oracles) (q : quota) (T0 k : nat),
    oracles_ok W -> hyper_ok (c_jobs cfg) W -> c_legacy_stop cfg = false ->
    c_max_gen cfg = None -> c_user_term cfg = None -> c_max_time cfg = true ->
    1 <= c_init_ops cfg -> 1 <= c_init_size cfg -> 1 <= c_track cfg ->
    Forall (fun s => Inv (c_jobs cfg) s /\ h_required s = []) (c_individuals cfg) ->
    (forall t, T0 <= t -> o_time W t = true) -> T0 < c_fuel cfg ->
    exists best st, evolve cfg W q = EOk best st
                    /\ (Inv (c_jobs cfg) best /\ h_required best = [])
                    /\ In best (s_pop st)
                    /\ Forall (fun s => Inv (c_jobs cfg) s /\ h_required s = []) (s_pop st)
                    /\ gens_run (s_tele st) <= T0
                    /\ (fires_by q k -> gens_run (s_tele st) <= pred k)
                    /\ s_iters st = gens_run (s_tele st).
Proof.
  intros cfg W q T0 k HW HH Hleg Hc Hu Ht Hops Hsize HT Hind Hclock Hfuel.
  destruct (evolve_time_returns cfg W q HW HH T0 k Hc Hu Ht Hops HT Hind (starts_nonempty_now cfg W Hleg Hsize) Hclock Hfuel)
    as (best & st & E & Hb & Hin & Hp & Hg & Hq & Hcnt).
  exists best, st. split; [exact E|]. split; [exact Hb|]. split; [exact Hin|]. split; [exact Hp|]. split; [exact Hg|].
  split; [exact Hq|exact (proj1 Hcnt)].
Qed.

(* its hypotheses are satisfiable, also with a clock that has already used up the whole limit when the run starts (T0 = 0) *)
Theorem C07_time_limit_nonvacuous :
  exists (cfg : econfig) (W : oracles) (q : quota) (best : hsol) (st : estate),
    oracles_ok W /\ hyper_ok (c_jobs cfg) W /\ c_legacy_stop cfg = false
    /\ c_max_gen cfg = None /\ c_user_term cfg = None /\ c_max_time cfg = true /\ 1 <= c_init_ops cfg /\ 1 <= c_init_size cfg
    /\ 1 <= c_track cfg /\ c_individuals cfg = []
    /\ (forall t, 0 <= t -> o_time W t = true) /\ 0 < c_fuel cfg
    /\ evolve cfg W q = EOk best st /\ gens_run (s_tele st) = 0 /\ length (s_pop st) = 1.
Proof.
  exists (mkC [0%Z; 1%Z] 1 None true None false None 2 2 9 [] 1 false),
         (mkO (fun t => true) (fun _ _ => false) (fun _ => true) (fun _ => 0) (fun _ _ _ _ => EFailure None false false)
              (fun _ _ => []) (fun _ => true) (fun _ _ => []) (fun _ => true) (fun _ _ _ => []) (fun _ _ _ _ => EFailure None false false)
              (fun _ _ => 0) (fun _ => 0) (fun _ _ offs => offs)),
         (counting_quota None).
  eexists _, _.
  split; [split; intros; intros i s; exact I|].
  split; [apply hyper_selection_ok; [intros g pop offs s Hs; right; exact Hs|intros g pop s []]|].
  split; [reflexivity|]. split; [reflexivity|]. split; [reflexivity|]. split; [reflexivity|]. split; [cbn; lia|]. split; [cbn; lia|].
  split; [cbn; lia|]. split; [reflexivity|].
  split; [intros t _; reflexivity|]. split; [cbn; lia|].
  split; [vm_compute; reflexivity|]. split; vm_compute; reflexivity.
Qed.

(* -- clause "It never runs more generations than the configured maximum":
      FULL statement  generations_run <= N  is REFUTED on the faithful model: with nothing else stopping the run (quota never
      fires, no time limit hit, no other configured criterion fires) exactly N + 1 generations are run for every N >= 1 (statistics.generation is the 0-based index
      of the generation just finished and MaxGeneration tests `generation >= limit`); metrics.generations reports N; the loop body
      is entered N + 1 times *)
Theorem C07_generations_run_exact :
  forall (cfg : econfig) (W : oracles) (q : quota) (N : nat),
    oracles_ok W -> hyper_ok (c_jobs cfg) W -> c_legacy_stop cfg = false ->
    c_max_gen cfg = Some N -> 1 <= N -> c_user_term cfg = None -> 1 <= c_init_ops cfg -> 1 <= c_init_size cfg -> 1 <= c_track cfg ->
    Forall (fun s => Inv (c_jobs cfg) s /\ h_required s = []) (c_individuals cfg) ->
    (forall n, q n = false) -> (forall t, o_time W t = false) -> (forall i t, o_other W i t = false) ->
    exists best st, evolve cfg W q = EOk best st /\ gens_run (s_tele st) = N + 1 /\ t_metric_gens (s_tele st) = N /\ s_iters st = N + 1.
Proof.
  intros cfg W q N HW HH Hleg Hc HN Hu Hops Hsize HT Hind Hq Htm Hot.
  assert (HL : eff_limit cfg N = N) by (unfold eff_limit; rewrite Hu; reflexivity).
  destruct (evolve_generations_exact cfg W q HW HH N Hc) as (best & st & E & Hg & Hm & Hi);
    [rewrite HL; exact HN|exact Hops|exact HT|exact Hind|exact (starts_nonempty_now cfg W Hleg Hsize)|exact Hq|exact Htm|exact Hot|].
  exists best, st. rewrite HL in Hg, Hm, Hi. split; [exact E|]. split; [lia|]. split; [exact Hm|lia].
Qed.

(* the same with a USER-SUPPLIED termination criterion that is reached only through the statistics (`statistics().generation >= L`,
   wrapped around the builder's criteria): exactly min N L + 1 generations - the user-supplied criterion sees the same 0-based
   counter, and EVERY iteration of the loop advances it, whatever list of offspring the (user-supplied) heuristic handed over and
   whatever parents the (user-supplied) population selected *)
Theorem C07_generations_run_exact_user_termination :
  forall (cfg : econfig) (W : oracles) (q : quota) (N L : nat),
    oracles_ok W -> hyper_ok (c_jobs cfg) W -> c_legacy_stop cfg = false ->
    c_max_gen cfg = Some N -> 1 <= N -> c_user_term cfg = Some L -> 1 <= L -> 1 <= c_init_ops cfg -> 1 <= c_init_size cfg ->
    1 <= c_track cfg -> Forall (fun s => Inv (c_jobs cfg) s /\ h_required s = []) (c_individuals cfg) ->
    (forall n, q n = false) -> (forall t, o_time W t = false) -> (forall i t, o_other W i t = false) ->
    exists best st, evolve cfg W q = EOk best st /\ gens_run (s_tele st) = Nat.min N L + 1 /\ t_metric_gens (s_tele st) = Nat.min N L
                    /\ s_iters st = Nat.min N L + 1.
Proof.
  intros cfg W q N L HW HH Hleg Hc HN Hu HL1 Hops Hsize HT Hind Hq Htm Hot.
  assert (HL : eff_limit cfg N = Nat.min N L) by (unfold eff_limit; rewrite Hu; reflexivity).
  destruct (evolve_generations_exact cfg W q HW HH N Hc) as (best & st & E & Hg & Hm & Hi);
    [rewrite HL; lia|exact Hops|exact HT|exact Hind|exact (starts_nonempty_now cfg W Hleg Hsize)|exact Hq|exact Htm|exact Hot|].
  exists best, st. rewrite HL in Hg, Hm, Hi. split; [exact E|]. split; [lia|]. split; [exact Hm|lia].
Qed.

(* one iteration of Iterative::run, for EVERY offspring oracle and every parent selection: it is COUNTED - the number of generations
   run grows by one and statistics.generation (what MaxGeneration and a user-supplied criterion read) becomes the index of the
   iteration just finished - also when the heuristic handed over nothing (an EMPTY offspring list from search_many and
   diversify_many), in which case the population stays exactly as it was: nothing is lost and the counter does not stall *)
Theorem C07_every_iteration_is_counted :
  forall (cfg : econfig) (W : oracles) (q : quota) (st : estate),
    oracles_ok W -> hyper_ok (c_jobs cfg) W ->
    Forall (fun s => Inv (c_jobs cfg) s /\ h_required s = []) (s_pop st) ->
    exists st', generation cfg W q st = Some st'
                /\ gens_run (s_tele st') = S (gens_run (s_tele st))
                /\ t_stat_gen (s_tele st') = gens_run (s_tele st)
                /\ s_iters st' = S (s_iters st)
                /\ (exists handed, s_pop st' = s_pop st ++ handed)
                /\ ((forall offs, o_hyper W (s_iters st) (s_pop st) offs = []) ->
                    (o_exploit W (s_iters st) = true \/ o_diverse W (s_iters st) (s_pop st) = []) -> s_pop st' = s_pop st).
Proof. intros cfg W q st HW HH. exact (generation_counted cfg W q HW HH st). Qed.

Theorem C07_generations_bounded_refuted :
  exists (cfg : econfig) (W : oracles) (q : quota) (N : nat) (best : hsol) (st : estate),
    c_max_gen cfg = Some N /\ 1 <= N /\ evolve cfg W q = EOk best st /\ N < gens_run (s_tele st).
Proof.
  exists (mkC [0%Z; 1%Z] 1 (Some 1) false None false None 4 4 0 [] 1 false), (skip_oracles 0 []), (counting_quota None), 1.
  eexists _, _. split; [reflexivity|]. split; [lia|]. split; [vm_compute; reflexivity|]. vm_compute. lia.
Qed.

(* the strongest true bound: never more than N + 1 generations (and never more than N + 1 entries into the loop body), for every
   quota / clock / operator oracle, for EVERY offspring oracle of a user-supplied hyper-heuristic (o_hyper, o_diverse: any list per
   generation, also the empty one) and every parent selection (o_parents: also none), with or without a user-supplied termination
   on the statistics, with or without supplied individuals, for every track_population >= 1 and for every
   combination of max_generations = N with max-time, min-cv (sample or period, any size) and target proximity *)
Theorem C07_generations_bounded_partial :
  forall (cfg : econfig) (W : oracles) (q : quota) (N : nat),
    oracles_ok W -> hyper_ok (c_jobs cfg) W -> c_legacy_stop cfg = false ->
    c_max_gen cfg = Some N -> 1 <= c_init_ops cfg -> 1 <= c_init_size cfg ->
    1 <= c_track cfg -> Forall (fun s => Inv (c_jobs cfg) s /\ h_required s = []) (c_individuals cfg) ->
    exists best st, evolve cfg W q = EOk best st /\ gens_run (s_tele st) <= N + 1 /\ s_iters st <= N + 1.
Proof.
  intros cfg W q N HW HH Hleg Hc Hops Hsize HT Hind.
  destruct (C07_evolve_returns_valid cfg W q N 0 HW HH Hleg Hc Hops Hsize HT Hind)
    as (best & st & E & _ & _ & _ & Hg & _ & _ & _ & (Hi & _) & _).
  exists best, st. split; [exact E|]. split; lia.
Qed.

(* the limit handed to MaxGeneration is the configured max_generations whatever else is configured (get_termination), and the
   composite (CompositeTermination = any) is terminated as soon as that limit is reached wherever the criterion stands in the
   list: additional criteria can only stop the run earlier *)
Theorem C07_generation_limit_is_the_configured_maximum :
  forall (N : nat) (max_time : bool) (min_cv : option (bool * nat)) (target : bool),
    gen_limit (terminations (Some N) max_time min_cv target) = Some N.
Proof. exact gen_limit_terminations. Qed.

Theorem C07_composite_terminates_at_generation_limit :
  forall (ts : list term) (l gen : nat) (tm : nat -> bool) (ot : nat -> nat -> bool) (tp : nat),
    gen_limit ts = Some l -> l <= gen -> fst (is_termination ts gen tm ot tp) = true.
Proof. intros ts l gen tm ot tp. exact (is_termination_gen_limit ts l gen tm ot tp). Qed.

Theorem C07_composite_terminates_at_user_limit :
  forall (ts : list term) (l gen : nat) (tm : nat -> bool) (ot : nat -> nat -> bool) (tp : nat),
    In (TUser l) ts -> l <= gen -> fst (is_termination ts gen tm ot tp) = true.
Proof. intros ts l gen tm ot tp. exact (is_termination_user_limit ts l gen tm ot tp). Qed.

(* -- "inside any search step": the inner loop of the decomposition search runs the inner search at least once and at most
      repeat_count times, and exactly once when the quota is already reached *)
Theorem C07_decompose_inner_bounds :
  forall (q : quota) (inner : nat -> nat) (repeat polls done : nat),
    let r := decompose_inner repeat q polls inner done in
    done <= fst r <= done + repeat /\ (1 <= repeat -> S done <= fst r) /\ polls <= snd r.
Proof. exact decompose_inner_bounds. Qed.

Theorem C07_decompose_inner_quota_reached :
  forall (q : quota) (inner : nat -> nat) (repeat polls done : nat),
    (forall n, q n = true) -> 1 <= repeat -> fst (decompose_inner repeat q polls inner done) = S done.
Proof. exact decompose_inner_reached. Qed.

(* -- telemetry: with track_population = 1 (what the harness and vrp-cli's default use) metrics.evolution has one entry per generation *)
Theorem C07_evolution_entries_track_one : forall n, reported 1 n = seq 0 n.
Proof. exact reported_one. Qed.

(* every tracked generation number is the index of a generation that was run *)
Theorem C07_evolution_entries_are_generations :
  forall T n g, 1 <= n -> In g (reported T n) -> g < n.
Proof.
  intros T n g Hn H. unfold reported in H. apply in_app_or in H. destruct H as [H|H]; [exact (tracked_lt T n g H)|].
  destruct (pred n mod T =? 0); [destruct H|destruct H as [<-|[]]; lia].
Qed.

(* -- the real Greedy population (population/greedy.rs): ranked().next() after it received `l` is the FIRST individual of minimal
      fitness; add_all never replaces the best known individual by a worse one and an EMPTY hand-over leaves it unchanged *)
Theorem C07_greedy_best_is_first_minimum :
  forall (A : Type) (fit : A -> nat) (d : A) (l : list A),
    l <> [] ->
    greedy_best fit l < length l
    /\ (forall x, In x l -> fit (nth (greedy_best fit l) l d) <= fit x)
    /\ (forall i, i < greedy_best fit l -> fit (nth (greedy_best fit l) l d) < fit (nth i l d)).
Proof. intros A fit d l. exact (greedy_best_spec fit d l). Qed.

Theorem C07_greedy_add_all_never_loses_best :
  forall (A : Type) (fit : A -> nat) (xs : list A) (b : A),
    (exists b' imp, greedy_add_all fit (Some b) xs = (Some b', imp)
                    /\ fit b' <= fit b /\ (b' = b \/ In b' xs) /\ (forall x, In x xs -> fit b' <= fit x))
    /\ greedy_add_all fit (Some b) [] = (Some b, false).
Proof. intros A fit xs b. split; [exact (greedy_add_all_spec fit xs b)|reflexivity]. Qed.

(* -- EvolutionSimulator::run, initial phase: the first operators.len() free slots use the operators in order, the later ones the
      operator random.weighted chose; before Iterative::run starts at most initial.max_size individuals were handed to the
      population and no generation was counted *)
Theorem C07_initial_operator_order :
  forall cfg W idx,
    (idx < c_init_ops cfg -> init_operator cfg W idx = idx)
    /\ (c_init_ops cfg <= idx -> init_operator cfg W idx = o_weighted W idx).
Proof. intros cfg W idx. split; [apply init_operator_in_order|apply init_operator_weighted]. Qed.

Theorem C07_initial_phase_bounds :
  forall (cfg : econfig) (W : oracles) (q : quota),
    oracles_ok W -> Forall (fun s => Inv (c_jobs cfg) s /\ h_required s = []) (c_individuals cfg) ->
    exists st1, initial (c_init_size cfg - length (seeded cfg)) (length (seeded cfg)) cfg W q (seed cfg estate0) = Some st1
                /\ Forall (fun s => Inv (c_jobs cfg) s /\ h_required s = []) (s_pop st1)
                /\ s_tele st1 = tele0 /\ s_iters st1 = 0
                /\ length (s_pop st1) <= c_init_size cfg
                /\ (exists l, s_pop st1 = seeded cfg ++ l).
Proof.
  intros cfg W q HW Hind. destruct (before_loop cfg W q HW Hind) as (st1 & E & Hp & Ht & Hi & Hl & He & _).
  exists st1. repeat split; assumption.
Qed.

(* -- "inside any search step": the quota a nested search step polls (create_environment_with_custom_quota / CompositeTimeQuota):
      once the outer quota has run out every poll answers true whatever the step's own time limit; the composite never answers
      true on its own; it polls the outer quota at most once per poll and not at all once its own clock is up *)
Theorem C07_nested_quota_sees_outer_quota :
  forall (limit time_up : bool) (inner : quota) (p k : nat),
    fires_by inner k -> k <= S p -> fst (custom_poll (custom_quota limit true) time_up inner p) = true.
Proof. exact custom_poll_outer_fired. Qed.

Theorem C07_nested_quota_sound :
  forall (c : cquota) (time_up : bool) (inner : quota) (p : nat),
    let r := custom_poll c time_up inner p in
    (fst r = true -> time_up = true \/ inner p = true) /\ p <= snd r <= S p /\ (c = CComposite -> time_up = true -> snd r = p).
Proof. exact custom_poll_sound. Qed.

(* -- non-vacuity: the hypotheses are satisfiable (an evaluator that always inserts the first pending job; the oracles used by
      the correspondence), and a concrete interruption between two insertions: 3 jobs, quota true from its 2nd poll on =>
      1 job inserted, 2 reported unassigned, 2 polls *)
Theorem C07_nonvacuous :
  ev_ok (fun _ s => match h_required s with j :: _ => ESuccess 0 j | [] => EFailure None false false end)
  /\ oracles_ok (skip_oracles 3 [2; 5])
  /\ hyper_ok [0%Z; 1%Z; 2%Z] (skip_oracles 3 [2; 5])
  /\ hyper_ok [] (loop_oracles [] [] [1] [2; 0; 1] [1; 0; 2] [true; false] [0; 1; 3] [false; true; false] [0; 2; 1])
  /\ Inv [0%Z; 1%Z; 2%Z] (init [0%Z; 1%Z; 2%Z])
  /\ run_process 3 (Some 2) = (1, 2, 2)
  /\ run_process 3 (Some 0) = (0, 3, 1)
  /\ run_process 3 None = (3, 0, 3)
  /\ run_evolve 2 8 [6; 18; 4] (Some 17) = (0, 2, 1, 2, 35)
  /\ run_evolve 2 8 [6; 18; 4] None = (0, 3, 2, 3, 40)
  /\ run_evolve_cfg 2 true (Some (true, 40)) true 8 [6; 18; 4] None = (0, 3, 2, 3, 40)
  (* a scripted hyper-heuristic that hands over NOTHING in generations 0 and 2 (and everything three times in generation 1), one
     parent selected: max_generations = 3 still runs 4 iterations, every one of them counted, 1 + 3 + 1 individuals *)
  /\ fst (snd (run_loop (Some 3) None false 1 1 0 1 0 0 [] [] [] [0; 0; 0; 0] [1; 1; 1; 1] [] [0; 3; 0; 1] [] [] None))
     = (4, 4, 3, [0; 1; 2; 3], 5, 5)
  (* a population that selects no parent at all and a heuristic that hands over nothing: still counted, the run ends *)
  /\ fst (snd (run_loop (Some 2) None false 1 1 0 1 0 0 [] [] [] [] [] [] [0; 0; 0] [] [] None)) = (3, 3, 2, [0; 1; 2], 4, 1)
  (* a user-supplied termination `statistics().generation >= 1` under max_generations = 5: 2 iterations *)
  /\ fst (snd (run_loop (Some 5) (Some 1) false 1 1 0 1 0 0 [] [] [] [] [1; 1] [] [0; 2] [] [] None)) = (2, 2, 1, [0; 1], 3, 3)
  (* track_population = 3, one supplied individual, 4 slots: generations 0..3 run, entries 0 and 3; with max_generations = 4 the
     last generation 4 gets its entry from on_result *)
  /\ fst (snd (run_loop (Some 3) None false 2 5 1 3 0 0 [] [] [0; 0; 1; 1; 0] [] [1; 1; 1; 1] [] [] [] [] None)) = (4, 4, 3, [0; 3], 5, 9)
  /\ fst (snd (run_loop (Some 4) None false 2 5 1 3 0 0 [] [] [0; 0; 1; 1; 0] [] [1; 1; 1; 1; 1] [] [] [] [] None)) = (5, 5, 4, [0; 3; 4], 6, 10)
  /\ run_greedy [50; 2; 2; 25; 1; 9; 1] = 4.
Proof.
  split; [|split; [|split; [|split; [|split; [apply homes_init|repeat split; vm_compute; reflexivity]]]]].
  - intros i s. unfold eres_ok. cbv beta. destruct (h_required s) eqn:E; [exact I|left; reflexivity].
  - split; intros; intros i s; exact I.
  - apply hyper_selection_ok; [intros g pop offs s Hs; right; exact Hs|intros g pop s []].
  - apply hyper_selection_ok.
    + intros g pop offs s Hs. cbn [loop_oracles o_hyper] in Hs. right.
      apply in_flat_map in Hs. destruct Hs as (x & Hx & Hr). apply repeat_spec in Hr. subst s. exact Hx.
    + intros g pop s Hs. cbn [loop_oracles o_diverse] in Hs. destruct pop as [|h t]; [contradiction|].
      apply repeat_spec in Hs. subst s. left. reflexivity.
Qed.
