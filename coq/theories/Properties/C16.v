(* C16 — Routing-cost providers return exactly the supplied data.
   Only the property theorems, statements written out in full, each closed by `exact`.
   Model: Model/Routing.v (rational data, see its header for the Rust items), lemmas: Proofs/RoutingP.v.
   `consistent` is the declarative predicate defined in Proofs/RoutingP.v (natural consistency with n*n lengths);
   since repair 17fc8e9 (finding C16-F1) it is what the code enforces. *)
From VRP Require Import Base.Tac Model.Routing Proofs.RoutingP.
From Coq Require Import QArith Permutation.
Open Scope Z_scope.

(* ---- clause 1: matrix-backed routing returns exactly the supplied entry, durations * scale, distances unscaled,
        for whatever vehicle carries Profile{index; scale} (time-agnostic provider; any time argument) *)
Theorem C16_agnostic_exact : forall M prov fb m scale from to t v w,
  build M = Ok prov -> (forall x, In x M -> m_ts x = None) -> In m M ->
  nth_error (m_dur m) (from * psize prov + to) = Some v ->
  nth_error (m_dist m) (from * psize prov + to) = Some w ->
  duration prov fb (m_index m) scale from to t = Val (v * scale)%Q /\
  distance prov fb (m_index m) from to t = Val w.
Proof. exact agnostic_exact. Qed.

(* the stride used for from*size+to is the side length of the supplied n*n matrices *)
Theorem C16_size_exact : forall M p m n,
  build M = Ok p -> In m M -> length (m_dur m) = (n * n)%nat -> psize p = n.
Proof. exact size_exact. Qed.

(* ---- clause 2: time-dependent routing.  Times are compared after `as u64` truncation ([ztrunc]); in particular
        t = ts_of m (an exact matrix timestamp) satisfies  ztrunc t = ts_key m. *)
Theorem C16_aware_at_timestamp : forall M prov fb m scale from to t v w,
  build M = Ok prov -> In m M -> has_ts m = true ->
  NoDup (map ts_key (group_raw M (m_index m))) ->
  ztrunc t = ts_key m ->
  nth_error (m_dur m) (from * psize prov + to) = Some v ->
  nth_error (m_dist m) (from * psize prov + to) = Some w ->
  duration prov fb (m_index m) scale from to t = Val (v * scale)%Q /\
  distance prov fb (m_index m) from to t = Val w.
Proof. exact aware_at_timestamp. Qed.

Theorem C16_aware_before_first : forall M prov fb m scale from to t v w,
  build M = Ok prov -> In m M -> has_ts m = true ->
  NoDup (map ts_key (group_raw M (m_index m))) ->
  (forall x, In x M -> m_index x = m_index m -> ts_key m <= ts_key x) ->
  ztrunc t < ts_key m ->
  nth_error (m_dur m) (from * psize prov + to) = Some v ->
  nth_error (m_dist m) (from * psize prov + to) = Some w ->
  duration prov fb (m_index m) scale from to t = Val (v * scale)%Q /\
  distance prov fb (m_index m) from to t = Val w.
Proof. exact aware_before_first. Qed.

Theorem C16_aware_after_last : forall M prov fb m scale from to t v w,
  build M = Ok prov -> In m M -> has_ts m = true ->
  NoDup (map ts_key (group_raw M (m_index m))) ->
  (forall x, In x M -> m_index x = m_index m -> ts_key x <= ts_key m) ->
  ts_key m < ztrunc t ->
  nth_error (m_dur m) (from * psize prov + to) = Some v ->
  nth_error (m_dist m) (from * psize prov + to) = Some w ->
  duration prov fb (m_index m) scale from to t = Val (v * scale)%Q /\
  distance prov fb (m_index m) from to t = Val w.
Proof. exact aware_after_last. Qed.

(* between two neighbouring matrices l, r of the profile: duration is the linear interpolant in the real time t
   (times the scale), distance is the left value *)
Theorem C16_aware_between : forall M prov fb l r scale from to t lv rv lw,
  build M = Ok prov -> In l M -> In r M -> has_ts l = true -> m_index r = m_index l ->
  NoDup (map ts_key (group_raw M (m_index l))) ->
  ts_key l < ztrunc t -> ztrunc t < ts_key r ->
  (forall x, In x M -> m_index x = m_index l -> ~ (ts_key l < ts_key x /\ ts_key x < ts_key r)) ->
  nth_error (m_dur l) (from * psize prov + to) = Some lv ->
  nth_error (m_dur r) (from * psize prov + to) = Some rv ->
  nth_error (m_dist l) (from * psize prov + to) = Some lw ->
  duration prov fb (m_index l) scale from to t = Val ((lv + (t - ts_of l) / (ts_of r - ts_of l) * (rv - lv)) * scale)%Q /\
  distance prov fb (m_index l) from to t = Val lw.
Proof. exact aware_between. Qed.

(* ... and that interpolant lies between the two bracketing values, t lies strictly between the real timestamps *)
Theorem C16_aware_between_bounds : forall M prov fb l r scale from to t lv rv lw,
  build M = Ok prov -> In l M -> In r M -> has_ts l = true -> m_index r = m_index l ->
  NoDup (map ts_key (group_raw M (m_index l))) ->
  ts_key l < ztrunc t -> ztrunc t < ts_key r ->
  (forall x, In x M -> m_index x = m_index l -> ~ (ts_key l < ts_key x /\ ts_key x < ts_key r)) ->
  nth_error (m_dur l) (from * psize prov + to) = Some lv ->
  nth_error (m_dur r) (from * psize prov + to) = Some rv ->
  nth_error (m_dist l) (from * psize prov + to) = Some lw ->
  exists d, duration prov fb (m_index l) scale from to t = Val (d * scale)%Q /\
            (ts_of l < t)%Q /\ (t < ts_of r)%Q /\
            ((lv <= rv)%Q -> (lv <= d)%Q /\ (d <= rv)%Q) /\ ((rv <= lv)%Q -> (rv <= d)%Q /\ (d <= lv)%Q).
Proof. exact aware_between_bounds. Qed.

(* FINDING C16-F2.  The statement as written ("linear in time strictly between two matrix timestamps") quantifies over
   real t; the code truncates t, so C16_aware_between needs  ts_key l < ztrunc t.  Witness: stamps 10 and 18, t = 10.5
   returns 10 instead of 12.5.  (For whole-second query times and timestamps the two conditions coincide.) *)
Theorem C16_aware_linear_in_real_time_refuted :
  exists M prov l r t d,
    build M = Ok prov /\ In l M /\ In r M /\ m_index r = m_index l /\
    (ts_of l < t)%Q /\ (t < ts_of r)%Q /\
    (forall x, In x M -> m_index x = m_index l -> ~ ((ts_of l < ts_of x)%Q /\ (ts_of x < ts_of r)%Q)) /\
    nth_error (m_dur l) 1 = Some (10 # 1)%Q /\ nth_error (m_dur r) 1 = Some (50 # 1)%Q /\
    duration prov no_fallback (m_index l) 1%Q 0 1 t = Val d /\
    ~ (d == ((10 # 1) + (t - ts_of l) / (ts_of r - ts_of l) * ((50 # 1) - (10 # 1))) * 1)%Q.
Proof. exact aware_linear_in_real_time_refuted. Qed.

(* ---- clause 3: inconsistent matrix sets are rejected when the provider is built.
   FULL statement, proved for the code as it is since repair 17fc8e9 (finding C16-F1: before it, squareness / equal sizes
   were only tested through round(sqrt(len))).  `consistent` is the natural reading: non-empty, one n with n*n durations
   and n*n distances in every matrix, and either no timestamps with profile indices a permutation of 0..k-1, or
   timestamps everywhere with at least two matrices per profile. *)
Theorem C16_inconsistent_rejected : forall M,
  ~ (M <> [] /\
     (exists n, forall m, In m M -> length (m_dur m) = (n * n)%nat /\ length (m_dist m) = (n * n)%nat) /\
     (((forall m, In m M -> m_ts m = None) /\ Permutation (map m_index M) (seq 0 (length M)))
      \/ ((forall m, In m M -> m_ts m <> None) /\ (forall m, In m M -> length (group_raw M (m_index m)) <> 1%nat)))) ->
  exists e, build M = Err e.
Proof. exact inconsistent_rejected. Qed.

Theorem C16_accepted_is_consistent : forall M p, build M = Ok p -> consistent M.
Proof. exact build_ok_consistent. Qed.

(* every accepted matrix has exactly size() * size() durations and distances *)
Theorem C16_accepted_square : forall M p, build M = Ok p ->
  forall m, In m M -> length (m_dur m) = (psize p * psize p)%nat /\ length (m_dist m) = (psize p * psize p)%nat.
Proof. exact build_ok_square. Qed.

(* the former finding C16-F1, restated about the function BEFORE the repair (build_prefix): it accepted a 3-entry matrix
   with size 2 and the cell (1,1) panicked; the repaired build rejects that set, and on square data of one size both agree *)
Theorem C16_inconsistent_rejected_prefix_refuted :
  exists M p, ~ consistent M /\ build_prefix M = Ok p /\ psize p = 2%nat /\
              duration p no_fallback 0 1%Q 1 1 0%Q = Panic /\ build M = Err ENotSquare.
Proof. exact inconsistent_rejected_prefix_refuted. Qed.

Theorem C16_repair_changes_only_non_square : forall M n,
  (forall m, In m M -> length (m_dur m) = (n * n)%nat /\ length (m_dist m) = (n * n)%nat) -> build M = build_prefix M.
Proof. exact build_prefix_agrees. Qed.

(* ---- clause 4: entries flagged unreachable surface as negative values (pragmatic error codes) *)
Theorem C16_unreachable_negative : forall pm codes du di k e scale,
  pm_err pm = Some codes -> pm_data pm = Some (du, di) -> nth_error codes k = Some e -> e > 0 ->
  nth_error du k = Some (-1 # 1)%Q /\ nth_error di k = Some (-1 # 1)%Q /\
  ((0 < scale)%Q -> ((-1 # 1) * scale < 0)%Q) /\ ((-1 # 1) < 0)%Q.
Proof. exact unreachable_negative. Qed.

Theorem C16_reachable_exact : forall pm codes du di k e,
  pm_err pm = Some codes -> pm_data pm = Some (du, di) -> nth_error codes k = Some e -> e <= 0 ->
  exists tv dv, nth_error (pm_times pm) k = Some tv /\ nth_error (pm_dists pm) k = Some dv /\
                nth_error du k = Some (inject_Z tv) /\ nth_error di k = Some (inject_Z dv).
Proof. exact reachable_exact. Qed.

Theorem C16_no_codes_exact : forall pm du di k,
  pm_err pm = None -> pm_data pm = Some (du, di) ->
  nth_error du k = option_map inject_Z (nth_error (pm_times pm) k) /\
  nth_error di k = option_map inject_Z (nth_error (pm_dists pm) k).
Proof. exact no_codes_exact. Qed.

(* pragmatic mapping: every vehicle whose profile names [name] is answered from the matrix supplied under [name] *)
Theorem C16_prag_named_exact : forall profiles pms prov pm name sc k scale fb from to t du di v w,
  prag_build profiles pms = POk prov ->
  (forall x, In x pms -> pm_ts x = None) ->
  In pm pms -> pm_profile pm = Some name ->
  vehicle_profile profiles name sc = Some (k, scale) ->
  pm_data pm = Some (du, di) ->
  nth_error du (from * psize prov + to) = Some v ->
  nth_error di (from * psize prov + to) = Some w ->
  scale = match sc with Some s => s | None => 1%Q end /\
  duration prov fb k scale from to t = Val (v * scale)%Q /\
  distance prov fb k from to t = Val w.
Proof. exact prag_named_exact. Qed.

Theorem C16_simple_exact : forall du di n from to v,
  length du = (n * n)%nat -> length di = (n * n)%nat ->
  simple_new du di = Some n /\
  (nth_error du (from * n + to) = Some v -> simple_get du n from to = v).
Proof. exact simple_exact. Qed.

(* ---- clause 5: coordinate based approximation is symmetric with a zero diagonal *)
(* scientific format: rounded Euclidean distance, exact entry, symmetric, zero diagonal *)
Theorem C16_sci_exact_symmetric : forall locs i j a b,
  nth_error locs i = Some a -> nth_error locs j = Some b ->
  sci_new (sci_values locs) = Some (length locs) /\
  sci_get (sci_values locs) (length locs) i j = Some (euclid_rounded a b) /\
  sci_get (sci_values locs) (length locs) i j = sci_get (sci_values locs) (length locs) j i /\
  sci_get (sci_values locs) (length locs) i i = Some 0.
Proof. exact sci_exact_symmetric. Qed.

(* pragmatic get_approx_transportation, relative to an abstract symmetric distance function (haversine trigonometry is not
   modelled) and a rounding function: distances and durations of every speed are symmetric with zero diagonal *)
Theorem C16_approx_symmetric_zero_diag : forall (L : Type) (hav : L -> L -> Q) (rnd : Q -> Z),
  (forall a b, hav a b = hav b a) -> (forall a, (hav a a == 0)%Q) ->
  (forall x y, (x == y)%Q -> rnd x = rnd y) -> rnd 0%Q = 0 ->
  forall (locs : list L) speed i j a b,
    nth_error locs i = Some a -> nth_error locs j = Some b ->
    let n := length locs in
    nth_error (approx_distances hav rnd locs) (i * n + j) = nth_error (approx_distances hav rnd locs) (j * n + i) /\
    nth_error (approx_durations hav rnd speed locs) (i * n + j) = nth_error (approx_durations hav rnd speed locs) (j * n + i) /\
    nth_error (approx_distances hav rnd locs) (i * n + i) = Some 0 /\
    nth_error (approx_durations hav rnd speed locs) (i * n + i) = Some 0.
Proof. exact @approx_symmetric_zero_diag. Qed.

(* ---- non-vacuity: the hypotheses above are jointly satisfiable on consistent sets *)
Theorem C16_nonvacuous_agnostic :
  exists M prov m, consistent M /\ build M = Ok prov /\ (forall x, In x M -> m_ts x = None) /\ In m M /\
    m_index m = 1%nat /\ psize prov = 2%nat /\
    nth_error (m_dur m) (1 * psize prov + 0) = Some (3 # 1)%Q /\
    duration prov no_fallback 1 (3 # 2)%Q 1 0 0%Q = Val ((3 # 1) * (3 # 2))%Q.
Proof. exact nonvacuous_agnostic. Qed.

Theorem C16_nonvacuous_aware :
  exists M prov l r t,
    consistent M /\ build M = Ok prov /\ In l M /\ In r M /\ has_ts l = true /\ m_index r = m_index l /\
    NoDup (map ts_key (group_raw M (m_index l))) /\
    ts_key l < ztrunc t /\ ztrunc t < ts_key r /\
    (forall x, In x M -> m_index x = m_index l -> ~ (ts_key l < ts_key x /\ ts_key x < ts_key r)) /\
    nth_error (m_dur l) (0 * psize prov + 1) = Some (10 # 1)%Q /\
    nth_error (m_dur r) (0 * psize prov + 1) = Some (50 # 1)%Q /\
    exists d, duration prov no_fallback (m_index l) 1%Q 0 1 t = Val d /\ (d == 15 # 1)%Q.
Proof. exact nonvacuous_aware. Qed.
