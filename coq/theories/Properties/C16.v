(* C16 — Routing-cost providers return exactly the supplied data.
   Only the property theorems, statements written out in full, each closed by `exact`.
   Model: Model/Routing.v (rational data, see its header for the Rust items), lemmas: Proofs/RoutingP.v.
   Second part (documents -> provider answers, TravelTime, the real binary search loop, approximation):
   Model/RoutingDoc.v, lemmas Proofs/RoutingDocP.v.
   `consistent` is the declarative predicate defined in Proofs/RoutingP.v (natural consistency with n*n lengths);
   since repair 17fc8e9 (finding C16-F1) it is what the code enforces. *)
From VRP Require Import Base.Tac Model.Routing Proofs.RoutingP Model.RoutingDoc Proofs.RoutingDocP.
From Coq Require Import QArith Permutation Sorted.
Open Scope Z_scope.

(* ---- clause 1: matrix-backed routing returns exactly the supplied entry, durations * scale, distances unscaled,
        for whatever vehicle carries Profile{index; scale} (time-agnostic provider; any time argument) *)
Theorem C16_agnostic_exact : forall M prov fb m scale from to t v w,
  build M = Ok prov -> (forall x, In x M -> m_ts x = None) -> In m M ->
  nth_error (m_dur m) (from * psize prov + to) = Some v ->
  nth_error (m_dist m) (from * psize prov + to) = Some w ->
  duration prov fb (m_index m) scale from to t = Val (v * scale)%Q /\
  distance prov fb (m_index m) from to t = Val w.
Proof. exact agnostic_exact. Qed.

(* the stride used for from*size+to is the side length of the supplied n*n matrices *)
Theorem C16_size_exact : forall M p m n,
  build M = Ok p -> In m M -> length (m_dur m) = (n * n)%nat -> psize p = n.
Proof. exact size_exact. Qed.

(* ---- clause 2: time-dependent routing.  Times are compared after `as u64` truncation ([ztrunc]); in particular
        t = ts_of m (an exact matrix timestamp) satisfies  ztrunc t = ts_key m. *)
Theorem C16_aware_at_timestamp : forall M prov fb m scale from to t v w,
  build M = Ok prov -> In m M -> has_ts m = true ->
  NoDup (map ts_key (group_raw M (m_index m))) ->
  ztrunc t = ts_key m ->
  nth_error (m_dur m) (from * psize prov + to) = Some v ->
  nth_error (m_dist m) (from * psize prov + to) = Some w ->
  duration prov fb (m_index m) scale from to t = Val (v * scale)%Q /\
  distance prov fb (m_index m) from to t = Val w.
Proof. exact aware_at_timestamp. Qed.

Theorem C16_aware_before_first : forall M prov fb m scale from to t v w,
  build M = Ok prov -> In m M -> has_ts m = true ->
  NoDup (map ts_key (group_raw M (m_index m))) ->
  (forall x, In x M -> m_index x = m_index m -> ts_key m <= ts_key x) ->
  ztrunc t < ts_key m ->
  nth_error (m_dur m) (from * psize prov + to) = Some v ->
  nth_error (m_dist m) (from * psize prov + to) = Some w ->
  duration prov fb (m_index m) scale from to t = Val (v * scale)%Q /\
  distance prov fb (m_index m) from to t = Val w.
Proof. exact aware_before_first. Qed.

Theorem C16_aware_after_last : forall M prov fb m scale from to t v w,
  build M = Ok prov -> In m M -> has_ts m = true ->
  NoDup (map ts_key (group_raw M (m_index m))) ->
  (forall x, In x M -> m_index x = m_index m -> ts_key x <= ts_key m) ->
  ts_key m < ztrunc t ->
  nth_error (m_dur m) (from * psize prov + to) = Some v ->
  nth_error (m_dist m) (from * psize prov + to) = Some w ->
  duration prov fb (m_index m) scale from to t = Val (v * scale)%Q /\
  distance prov fb (m_index m) from to t = Val w.
Proof. exact aware_after_last. Qed.

(* between two neighbouring matrices l, r of the profile: duration is the linear interpolant in the real time t
   (times the scale), distance is the left value *)
Theorem C16_aware_between : forall M prov fb l r scale from to t lv rv lw,
  build M = Ok prov -> In l M -> In r M -> has_ts l = true -> m_index r = m_index l ->
  NoDup (map ts_key (group_raw M (m_index l))) ->
  ts_key l < ztrunc t -> ztrunc t < ts_key r ->
  (forall x, In x M -> m_index x = m_index l -> ~ (ts_key l < ts_key x /\ ts_key x < ts_key r)) ->
  nth_error (m_dur l) (from * psize prov + to) = Some lv ->
  nth_error (m_dur r) (from * psize prov + to) = Some rv ->
  nth_error (m_dist l) (from * psize prov + to) = Some lw ->
  (0 <= lv)%Q -> (0 <= rv)%Q ->
  duration prov fb (m_index l) scale from to t = Val ((lv + (t - ts_of l) / (ts_of r - ts_of l) * (rv - lv)) * scale)%Q /\
  distance prov fb (m_index l) from to t = Val lw.
Proof. exact aware_between. Qed.

(* ... unless one of the two values is negative, the marker of an unreachable pair: then the LEFT value is returned, for the
   duration as for the distance (since repair d8f731f of /repo, finding C16-F5; before it the code interpolated through the
   marker: C16_doc_timed_unreachable_negative_prefix_refuted) *)
Theorem C16_aware_between_unreachable : forall M prov fb l r scale from to t lv rv lw,
  build M = Ok prov -> In l M -> In r M -> has_ts l = true -> m_index r = m_index l ->
  NoDup (map ts_key (group_raw M (m_index l))) ->
  ts_key l < ztrunc t -> ztrunc t < ts_key r ->
  (forall x, In x M -> m_index x = m_index l -> ~ (ts_key l < ts_key x /\ ts_key x < ts_key r)) ->
  nth_error (m_dur l) (from * psize prov + to) = Some lv ->
  nth_error (m_dur r) (from * psize prov + to) = Some rv ->
  nth_error (m_dist l) (from * psize prov + to) = Some lw ->
  (lv < 0)%Q \/ (rv < 0)%Q ->
  duration prov fb (m_index l) scale from to t = Val (lv * scale)%Q /\
  distance prov fb (m_index l) from to t = Val lw.
Proof. exact aware_between_unreachable. Qed.

(* ... and that interpolant lies between the two bracketing values, t lies strictly between the real timestamps *)
Theorem C16_aware_between_bounds : forall M prov fb l r scale from to t lv rv lw,
  build M = Ok prov -> In l M -> In r M -> has_ts l = true -> m_index r = m_index l ->
  NoDup (map ts_key (group_raw M (m_index l))) ->
  ts_key l < ztrunc t -> ztrunc t < ts_key r ->
  (forall x, In x M -> m_index x = m_index l -> ~ (ts_key l < ts_key x /\ ts_key x < ts_key r)) ->
  nth_error (m_dur l) (from * psize prov + to) = Some lv ->
  nth_error (m_dur r) (from * psize prov + to) = Some rv ->
  nth_error (m_dist l) (from * psize prov + to) = Some lw ->
  (0 <= lv)%Q -> (0 <= rv)%Q ->
  exists d, duration prov fb (m_index l) scale from to t = Val (d * scale)%Q /\
            (ts_of l < t)%Q /\ (t < ts_of r)%Q /\
            ((lv <= rv)%Q -> (lv <= d)%Q /\ (d <= rv)%Q) /\ ((rv <= lv)%Q -> (rv <= d)%Q /\ (d <= lv)%Q).
Proof. exact aware_between_bounds. Qed.

(* FINDING C16-F2.  The statement as written ("linear in time strictly between two matrix timestamps") quantifies over
   real t; the code truncates t, so C16_aware_between needs  ts_key l < ztrunc t.  Witness: stamps 10 and 18, t = 10.5
   returns 10 instead of 12.5.  (For whole-second query times and timestamps the two conditions coincide.) *)
Theorem C16_aware_linear_in_real_time_refuted :
  exists M prov l r t d,
    build M = Ok prov /\ In l M /\ In r M /\ m_index r = m_index l /\
    (ts_of l < t)%Q /\ (t < ts_of r)%Q /\
    (forall x, In x M -> m_index x = m_index l -> ~ ((ts_of l < ts_of x)%Q /\ (ts_of x < ts_of r)%Q)) /\
    nth_error (m_dur l) 1 = Some (10 # 1)%Q /\ nth_error (m_dur r) 1 = Some (50 # 1)%Q /\
    duration prov no_fallback (m_index l) 1%Q 0 1 t = Val d /\
    ~ (d == ((10 # 1) + (t - ts_of l) / (ts_of r - ts_of l) * ((50 # 1) - (10 # 1))) * 1)%Q.
Proof. exact aware_linear_in_real_time_refuted. Qed.

(* ---- clause 3: inconsistent matrix sets are rejected when the provider is built.
   FULL statement, proved for the code as it is since repair 17fc8e9 (finding C16-F1: before it, squareness / equal sizes
   were only tested through round(sqrt(len))).  `consistent` is the natural reading: non-empty, one n with n*n durations
   and n*n distances in every matrix, and either no timestamps with profile indices a permutation of 0..k-1, or
   timestamps everywhere with at least two matrices per profile. *)
Theorem C16_inconsistent_rejected : forall M,
  ~ (M <> [] /\
     (exists n, forall m, In m M -> length (m_dur m) = (n * n)%nat /\ length (m_dist m) = (n * n)%nat) /\
     (((forall m, In m M -> m_ts m = None) /\ Permutation (map m_index M) (seq 0 (length M)))
      \/ ((forall m, In m M -> m_ts m <> None) /\ (forall m, In m M -> length (group_raw M (m_index m)) <> 1%nat)))) ->
  exists e, build M = Err e.
Proof. exact inconsistent_rejected. Qed.

Theorem C16_accepted_is_consistent : forall M p, build M = Ok p -> consistent M.
Proof. exact build_ok_consistent. Qed.

(* every accepted matrix has exactly size() * size() durations and distances *)
Theorem C16_accepted_square : forall M p, build M = Ok p ->
  forall m, In m M -> length (m_dur m) = (psize p * psize p)%nat /\ length (m_dist m) = (psize p * psize p)%nat.
Proof. exact build_ok_square. Qed.

(* the former finding C16-F1, restated about the function BEFORE the repair (build_prefix): it accepted a 3-entry matrix
   with size 2 and the cell (1,1) panicked; the repaired build rejects that set, and on square data of one size both agree *)
Theorem C16_inconsistent_rejected_prefix_refuted :
  exists M p, ~ consistent M /\ build_prefix M = Ok p /\ psize p = 2%nat /\
              duration p no_fallback 0 1%Q 1 1 0%Q = Panic /\ build M = Err ENotSquare.
Proof. exact inconsistent_rejected_prefix_refuted. Qed.

Theorem C16_repair_changes_only_non_square : forall M n,
  (forall m, In m M -> length (m_dur m) = (n * n)%nat /\ length (m_dist m) = (n * n)%nat) -> build M = build_prefix M.
Proof. exact build_prefix_agrees. Qed.

(* ---- clause 4: entries flagged unreachable surface as negative values (pragmatic error codes) *)
Theorem C16_unreachable_negative : forall pm codes du di k e scale,
  pm_err pm = Some codes -> pm_data pm = Some (du, di) -> nth_error codes k = Some e -> e > 0 ->
  nth_error du k = Some (-1 # 1)%Q /\ nth_error di k = Some (-1 # 1)%Q /\
  ((0 < scale)%Q -> ((-1 # 1) * scale < 0)%Q) /\ ((-1 # 1) < 0)%Q.
Proof. exact unreachable_negative. Qed.

Theorem C16_reachable_exact : forall pm codes du di k e,
  pm_err pm = Some codes -> pm_data pm = Some (du, di) -> nth_error codes k = Some e -> e <= 0 ->
  exists tv dv, nth_error (pm_times pm) k = Some tv /\ nth_error (pm_dists pm) k = Some dv /\
                nth_error du k = Some (inject_Z tv) /\ nth_error di k = Some (inject_Z dv).
Proof. exact reachable_exact. Qed.

Theorem C16_no_codes_exact : forall pm du di k,
  pm_err pm = None -> pm_data pm = Some (du, di) ->
  nth_error du k = option_map inject_Z (nth_error (pm_times pm) k) /\
  nth_error di k = option_map inject_Z (nth_error (pm_dists pm) k).
Proof. exact no_codes_exact. Qed.

(* pragmatic mapping: every vehicle whose profile names [name] is answered from the matrix supplied under [name] *)
Theorem C16_prag_named_exact : forall profiles pms prov pm name sc k scale fb from to t du di v w,
  prag_build profiles pms = POk prov ->
  (forall x, In x pms -> pm_ts x = None) ->
  In pm pms -> pm_profile pm = Some name ->
  vehicle_profile profiles name sc = Some (k, scale) ->
  pm_data pm = Some (du, di) ->
  nth_error du (from * psize prov + to) = Some v ->
  nth_error di (from * psize prov + to) = Some w ->
  scale = match sc with Some s => s | None => 1%Q end /\
  duration prov fb k scale from to t = Val (v * scale)%Q /\
  distance prov fb k from to t = Val w.
Proof. exact prag_named_exact. Qed.

Theorem C16_simple_exact : forall du di n from to v,
  length du = (n * n)%nat -> length di = (n * n)%nat ->
  simple_new du di = Some n /\
  (nth_error du (from * n + to) = Some v -> simple_get du n from to = v).
Proof. exact simple_exact. Qed.

(* ---- clause 5: coordinate based approximation is symmetric with a zero diagonal *)
(* scientific format: rounded Euclidean distance, exact entry, symmetric, zero diagonal *)
Theorem C16_sci_exact_symmetric : forall locs i j a b,
  nth_error locs i = Some a -> nth_error locs j = Some b ->
  sci_new (sci_values locs) = Some (length locs) /\
  sci_get (sci_values locs) (length locs) i j = Some (euclid_rounded a b) /\
  sci_get (sci_values locs) (length locs) i j = sci_get (sci_values locs) (length locs) j i /\
  sci_get (sci_values locs) (length locs) i i = Some 0.
Proof. exact sci_exact_symmetric. Qed.

(* pragmatic get_approx_transportation, relative to an abstract symmetric distance function (haversine trigonometry is not
   modelled) and a rounding function: distances and durations of every speed are symmetric with zero diagonal *)
Theorem C16_approx_symmetric_zero_diag : forall (L : Type) (hav : L -> L -> Q) (rnd : Q -> Z),
  (forall a b, hav a b = hav b a) -> (forall a, (hav a a == 0)%Q) ->
  (forall x y, (x == y)%Q -> rnd x = rnd y) -> rnd 0%Q = 0 ->
  forall (locs : list L) speed i j a b,
    nth_error locs i = Some a -> nth_error locs j = Some b ->
    let n := length locs in
    nth_error (approx_distances hav rnd locs) (i * n + j) = nth_error (approx_distances hav rnd locs) (j * n + i) /\
    nth_error (approx_durations hav rnd speed locs) (i * n + j) = nth_error (approx_durations hav rnd speed locs) (j * n + i) /\
    nth_error (approx_distances hav rnd locs) (i * n + i) = Some 0 /\
    nth_error (approx_durations hav rnd speed locs) (i * n + i) = Some 0.
Proof. exact @approx_symmetric_zero_diag. Qed.

(* ---- non-vacuity: the hypotheses above are jointly satisfiable on consistent sets *)
Theorem C16_nonvacuous_agnostic :
  exists M prov m, consistent M /\ build M = Ok prov /\ (forall x, In x M -> m_ts x = None) /\ In m M /\
    m_index m = 1%nat /\ psize prov = 2%nat /\
    nth_error (m_dur m) (1 * psize prov + 0) = Some (3 # 1)%Q /\
    duration prov no_fallback 1 (3 # 2)%Q 1 0 0%Q = Val ((3 # 1) * (3 # 2))%Q.
Proof. exact nonvacuous_agnostic. Qed.

Theorem C16_nonvacuous_aware :
  exists M prov l r t,
    consistent M /\ build M = Ok prov /\ In l M /\ In r M /\ has_ts l = true /\ m_index r = m_index l /\
    NoDup (map ts_key (group_raw M (m_index l))) /\
    ts_key l < ztrunc t /\ ztrunc t < ts_key r /\
    (forall x, In x M -> m_index x = m_index l -> ~ (ts_key l < ts_key x /\ ts_key x < ts_key r)) /\
    nth_error (m_dur l) (0 * psize prov + 1) = Some (10 # 1)%Q /\
    nth_error (m_dur r) (0 * psize prov + 1) = Some (50 # 1)%Q /\
    exists d, duration prov no_fallback (m_index l) 1%Q 0 1 t = Val d /\ (d == 15 # 1)%Q.
Proof. exact nonvacuous_aware. Qed.

(* ====================================================================================================================
   SECOND PART: from pragmatic DOCUMENTS to provider answers (Model/RoutingDoc.v).
   doc_read d = validation (E1500..E1505) -> read_fleet (Profile{index, scale} per vehicle) -> create_transport_costs.
   ==================================================================================================================== *)

(* ---- clause 3, the other direction: every consistent set is accepted, hence "rejected exactly when inconsistent" *)
Theorem C16_consistent_accepted : forall M,
  M <> [] ->
  (exists n, forall m, In m M -> length (m_dur m) = (n * n)%nat /\ length (m_dist m) = (n * n)%nat) ->
  (((forall m, In m M -> m_ts m = None) /\ Permutation (map m_index M) (seq 0 (length M)))
   \/ ((forall m, In m M -> m_ts m <> None) /\ (forall m, In m M -> length (group_raw M (m_index m)) <> 1%nat))) ->
  exists p, build M = Ok p.
Proof. exact consistent_accepted_unfolded. Qed.

Theorem C16_accepted_iff_consistent : forall M, (exists p, build M = Ok p) <-> consistent M.
Proof. exact accepted_iff_consistent. Qed.

(* ---- the provider does not depend on the order in which the matrices are supplied (the builder sorts by profile index /
        by truncated timestamp); distinct truncated stamps per profile as in the time-aware theorems *)
Theorem C16_provider_permutation_invariant : forall M M' p,
  Permutation M M' -> build M = Ok p ->
  (forall k, NoDup (map ts_key (group_raw M k))) ->
  exists p', build M' = Ok p' /\ psize p' = psize p /\
    forall fb k scale from to t,
      duration p' fb k scale from to t = duration p fb k scale from to t /\
      distance p' fb k from to t = distance p fb k from to t.
Proof. exact provider_perm_invariant. Qed.

(* ---- the binary search: the loop of core::slice::binary_search_by (std_bsearch) returns, on EVERY strictly increasing
        list, what the contract model used in the provider returns; the stamp vector of a profile is such a list *)
Theorem C16_binary_search_refines : forall l x, StronglySorted Z.lt l -> std_bsearch l x = bsearch l x.
Proof. exact std_bsearch_refines. Qed.

Theorem C16_profile_stamps_strictly_increasing : forall g : list matrix,
  NoDup (map ts_key g) -> StronglySorted Z.lt (map ts_key (sort_by ts_key g)).
Proof. exact sorted_keys_strict. Qed.

Theorem C16_aware_lookup_with_std_search : forall (g : list matrix) (t : Q), NoDup (map ts_key g) ->
  std_bsearch (map ts_key (sort_by ts_key g)) (ztrunc t) = bsearch (map ts_key (sort_by ts_key g)) (ztrunc t).
Proof. exact aware_lookup_with_std_search. Qed.

(* ---- TravelTime: Arrival(t) and Departure(t) are looked up at the same time t (an arrival-based lookup does NOT go back
        by the travel duration) *)
Theorem C16_travel_time_variant_irrelevant : forall pr fb p scale from to t,
  duration_tt pr fb p scale from to (TArrival t) = duration_tt pr fb p scale from to (TDeparture t) /\
  distance_tt pr fb p from to (TArrival t) = distance_tt pr fb p from to (TDeparture t) /\
  duration_tt pr fb p scale from to (TArrival t) = duration pr fb p scale from to t.
Proof. exact travel_time_variant_irrelevant. Qed.

(* ---- interpolation is monotone in the query time between two stamps (direction given by the two values) *)
Theorem C16_interpolation_monotone : forall t1 t2 tl tr lv rv, (tl < tr)%Q -> (t1 <= t2)%Q ->
  ((lv <= rv)%Q -> (lv + (t1 - tl) / (tr - tl) * (rv - lv) <= lv + (t2 - tl) / (tr - tl) * (rv - lv))%Q) /\
  ((rv <= lv)%Q -> (lv + (t2 - tl) / (tr - tl) * (rv - lv) <= lv + (t1 - tl) / (tr - tl) * (rv - lv))%Q).
Proof. exact interp_monotone. Qed.

(* ---- clause 1 on documents: for EVERY vehicle v of an accepted document with untimed matrices and every matrix pm whose
        profile name equals v's profile name: the provider answers with pm's entry (duration times v's scale, default 1;
        distance unscaled), for both TravelTime variants; v's Profile is (index of the name, that scale) *)
Theorem C16_doc_vehicle_exact : forall d prov vs v pm du di from to tt x w,
  doc_read d = DOk prov vs ->
  (forall m, In m (d_matrices d) -> pm_ts m = None) ->
  In v (d_vehicles d) -> In pm (d_matrices d) -> pm_profile pm = Some (dv_profile v) ->
  pm_data2 pm = inr (du, di) ->
  nth_error du (from * psize prov + to) = Some x ->
  nth_error di (from * psize prov + to) = Some w ->
  exists k, vehicle_profile (prof_names d) (dv_profile v) (dv_scale v)
              = Some (k, match dv_scale v with Some s => s | None => 1%Q end) /\
            In (Some (k, dscale v)) vs /\
            duration_tt prov (doc_fallback d) k (dscale v) from to tt = Val (x * dscale v)%Q /\
            distance_tt prov (doc_fallback d) k from to tt = Val w.
Proof. exact doc_named_exact. Qed.

(* ... and it is THE matrix of that name: when every matrix name is a fleet profile, each fleet profile has a matrix and
   no two positions of the matrix list carry the same name *)
Theorem C16_doc_named_unique : forall d prov vs nm,
  doc_read d = DOk prov vs ->
  (forall m, In m (d_matrices d) -> pm_ts m = None) ->
  (forall pm, In pm (d_matrices d) -> exists nm, pm_profile pm = Some nm /\ In nm (prof_names d)) ->
  In nm (prof_names d) ->
  (exists pm, In pm (d_matrices d) /\ pm_profile pm = Some nm) /\
  (forall i j pm1 pm2, nth_error (d_matrices d) i = Some pm1 -> nth_error (d_matrices d) j = Some pm2 ->
                       pm_profile pm1 = Some nm -> pm_profile pm2 = Some nm -> i = j).
Proof. exact doc_named_unique. Qed.

(* matrices without profile names: the k-th fleet profile is served by the k-th matrix *)
Theorem C16_doc_positional_exact : forall d prov vs v pm k du di from to tt x w,
  doc_read d = DOk prov vs ->
  (forall m, In m (d_matrices d) -> pm_profile m = None) ->
  In v (d_vehicles d) ->
  index_of (dv_profile v) (profile_names (prof_names d)) = Some k ->
  nth_error (d_matrices d) k = Some pm ->
  pm_data2 pm = inr (du, di) ->
  nth_error du (from * psize prov + to) = Some x ->
  nth_error di (from * psize prov + to) = Some w ->
  vehicle_profile (prof_names d) (dv_profile v) (dv_scale v) = Some (k, dscale v) /\
  duration_tt prov (doc_fallback d) k (dscale v) from to tt = Val (x * dscale v)%Q /\
  distance_tt prov (doc_fallback d) k from to tt = Val w.
Proof. exact doc_positional_exact. Qed.

(* the data of a matrix: without errorCodes the supplied numbers; with errorCodes -1 where the code is positive, the
   supplied numbers elsewhere; the code list covers all distances (f7d2f27) *)
Theorem C16_doc_matrix_data : forall pm du di, pm_data2 pm = inr (du, di) ->
  (pm_err pm = None -> forall k, nth_error du k = option_map inject_Z (nth_error (pm_times pm) k) /\
                                 nth_error di k = option_map inject_Z (nth_error (pm_dists pm) k)) /\
  (forall codes, pm_err pm = Some codes ->
     (length (pm_dists pm) <= length codes)%nat /\ length du = length codes /\ length di = length codes /\
     forall k e, nth_error codes k = Some e ->
       (e > 0 -> nth_error du k = Some (-1 # 1)%Q /\ nth_error di k = Some (-1 # 1)%Q) /\
       (e <= 0 -> exists tv dv, nth_error (pm_times pm) k = Some tv /\ nth_error (pm_dists pm) k = Some dv /\
                                nth_error du k = Some (inject_Z tv) /\ nth_error di k = Some (inject_Z dv))).
Proof. exact doc_matrix_data. Qed.

(* ---- clause 4 on documents (untimed): an entry flagged unreachable surfaces as a negative duration and a negative
        distance for every vehicle of that profile (positive scale), for both TravelTime variants *)
Theorem C16_doc_unreachable_negative : forall d prov vs v pm codes du di from to tt e,
  doc_read d = DOk prov vs ->
  (forall m, In m (d_matrices d) -> pm_ts m = None) ->
  In v (d_vehicles d) -> In pm (d_matrices d) -> pm_profile pm = Some (dv_profile v) ->
  pm_err pm = Some codes -> pm_data2 pm = inr (du, di) ->
  nth_error codes (from * psize prov + to) = Some e -> e > 0 -> (0 < dscale v)%Q ->
  exists k q w, vehicle_profile (prof_names d) (dv_profile v) (dv_scale v) = Some (k, dscale v) /\
    duration_tt prov (doc_fallback d) k (dscale v) from to tt = Val q /\ (q < 0)%Q /\
    distance_tt prov (doc_fallback d) k from to tt = Val w /\ (w < 0)%Q.
Proof. exact doc_unreachable_negative. Qed.

(* ---- clause 2 on documents (timestamps are whole seconds; pm_key = the stamp after `as u64`).  names_known: every
        matrix name is a fleet profile (otherwise the positional fall-back mixes groups, finding C16-F3) *)
Theorem C16_doc_timed_at_timestamp : forall d prov vs v,
  doc_read d = DOk prov vs -> names_known d -> In v (d_vehicles d) ->
  NoDup (map pm_key (filter (pnamed (dv_profile v)) (d_matrices d))) ->
  forall pm ts du di from to tt x w,
    In pm (d_matrices d) -> pm_profile pm = Some (dv_profile v) -> pm_ts pm = Some ts ->
    ztrunc (tt_time tt) = pm_key pm ->
    pm_data2 pm = inr (du, di) ->
    nth_error du (from * psize prov + to) = Some x -> nth_error di (from * psize prov + to) = Some w ->
    exists k, vehicle_profile (prof_names d) (dv_profile v) (dv_scale v) = Some (k, dscale v) /\
              duration_tt prov (doc_fallback d) k (dscale v) from to tt = Val (x * dscale v)%Q /\
              distance_tt prov (doc_fallback d) k from to tt = Val w.
Proof. exact doc_timed_at. Qed.

Theorem C16_doc_timed_before_first : forall d prov vs v,
  doc_read d = DOk prov vs -> names_known d -> In v (d_vehicles d) ->
  NoDup (map pm_key (filter (pnamed (dv_profile v)) (d_matrices d))) ->
  forall pm ts du di from to tt x w,
    In pm (d_matrices d) -> pm_profile pm = Some (dv_profile v) -> pm_ts pm = Some ts ->
    (forall y, In y (d_matrices d) -> pm_profile y = Some (dv_profile v) -> pm_key pm <= pm_key y) ->
    ztrunc (tt_time tt) < pm_key pm ->
    pm_data2 pm = inr (du, di) ->
    nth_error du (from * psize prov + to) = Some x -> nth_error di (from * psize prov + to) = Some w ->
    exists k, vehicle_profile (prof_names d) (dv_profile v) (dv_scale v) = Some (k, dscale v) /\
              duration_tt prov (doc_fallback d) k (dscale v) from to tt = Val (x * dscale v)%Q /\
              distance_tt prov (doc_fallback d) k from to tt = Val w.
Proof. exact doc_timed_before_first. Qed.

Theorem C16_doc_timed_after_last : forall d prov vs v,
  doc_read d = DOk prov vs -> names_known d -> In v (d_vehicles d) ->
  NoDup (map pm_key (filter (pnamed (dv_profile v)) (d_matrices d))) ->
  forall pm ts du di from to tt x w,
    In pm (d_matrices d) -> pm_profile pm = Some (dv_profile v) -> pm_ts pm = Some ts ->
    (forall y, In y (d_matrices d) -> pm_profile y = Some (dv_profile v) -> pm_key y <= pm_key pm) ->
    pm_key pm < ztrunc (tt_time tt) ->
    pm_data2 pm = inr (du, di) ->
    nth_error du (from * psize prov + to) = Some x -> nth_error di (from * psize prov + to) = Some w ->
    exists k, vehicle_profile (prof_names d) (dv_profile v) (dv_scale v) = Some (k, dscale v) /\
              duration_tt prov (doc_fallback d) k (dscale v) from to tt = Val (x * dscale v)%Q /\
              distance_tt prov (doc_fallback d) k from to tt = Val w.
Proof. exact doc_timed_after_last. Qed.

Theorem C16_doc_timed_between : forall d prov vs v,
  doc_read d = DOk prov vs -> names_known d -> In v (d_vehicles d) ->
  NoDup (map pm_key (filter (pnamed (dv_profile v)) (d_matrices d))) ->
  forall l r tl tr dul dil dur dir from to tt lv rv lw,
    In l (d_matrices d) -> In r (d_matrices d) ->
    pm_profile l = Some (dv_profile v) -> pm_profile r = Some (dv_profile v) ->
    pm_ts l = Some tl -> pm_ts r = Some tr ->
    pm_key l < ztrunc (tt_time tt) -> ztrunc (tt_time tt) < pm_key r ->
    (forall y, In y (d_matrices d) -> pm_profile y = Some (dv_profile v) -> ~ (pm_key l < pm_key y /\ pm_key y < pm_key r)) ->
    pm_data2 l = inr (dul, dil) -> pm_data2 r = inr (dur, dir) ->
    nth_error dul (from * psize prov + to) = Some lv ->
    nth_error dur (from * psize prov + to) = Some rv ->
    nth_error dil (from * psize prov + to) = Some lw ->
    (0 <= lv)%Q -> (0 <= rv)%Q ->
    exists k, vehicle_profile (prof_names d) (dv_profile v) (dv_scale v) = Some (k, dscale v) /\
              duration_tt prov (doc_fallback d) k (dscale v) from to tt
                = Val ((lv + (tt_time tt - inject_Z tl) / (inject_Z tr - inject_Z tl) * (rv - lv)) * dscale v)%Q /\
              distance_tt prov (doc_fallback d) k from to tt = Val lw.
Proof. exact doc_timed_between. Qed.

(* ---- clause 4 on time-dependent documents (since repair d8f731f of /repo, finding C16-F5): strictly between two stamps an
        entry flagged unreachable by the LEFT matrix - the one in force, as for distances - is a negative duration AND a
        negative distance *)
Theorem C16_doc_timed_unreachable_negative : forall d prov vs v l r tl tr codes dul dil dur dir from to tt rv e,
  doc_read d = DOk prov vs -> names_known d -> In v (d_vehicles d) ->
  NoDup (map pm_key (filter (pnamed (dv_profile v)) (d_matrices d))) ->
  In l (d_matrices d) -> In r (d_matrices d) ->
  pm_profile l = Some (dv_profile v) -> pm_profile r = Some (dv_profile v) ->
  pm_ts l = Some tl -> pm_ts r = Some tr ->
  pm_key l < ztrunc (tt_time tt) -> ztrunc (tt_time tt) < pm_key r ->
  (forall y, In y (d_matrices d) -> pm_profile y = Some (dv_profile v) -> ~ (pm_key l < pm_key y /\ pm_key y < pm_key r)) ->
  pm_err l = Some codes -> nth_error codes (from * psize prov + to) = Some e -> e > 0 ->
  pm_data2 l = inr (dul, dil) -> pm_data2 r = inr (dur, dir) ->
  nth_error dur (from * psize prov + to) = Some rv -> (0 < dscale v)%Q ->
  exists k, vehicle_profile (prof_names d) (dv_profile v) (dv_scale v) = Some (k, dscale v) /\
    duration_tt prov (doc_fallback d) k (dscale v) from to tt = Val ((-1 # 1) * dscale v)%Q /\
    ((-1 # 1) * dscale v < 0)%Q /\
    distance_tt prov (doc_fallback d) k from to tt = Val (-1 # 1)%Q.
Proof. exact doc_timed_unreachable_negative. Qed.

(* only the RIGHT matrix flags the entry: the reachable left entry is returned unchanged (no value falling towards -1) *)
Theorem C16_doc_timed_right_unreachable_keeps_left : forall d prov vs v l r tl tr codes dul dil dur dir from to tt lv lw e,
  doc_read d = DOk prov vs -> names_known d -> In v (d_vehicles d) ->
  NoDup (map pm_key (filter (pnamed (dv_profile v)) (d_matrices d))) ->
  In l (d_matrices d) -> In r (d_matrices d) ->
  pm_profile l = Some (dv_profile v) -> pm_profile r = Some (dv_profile v) ->
  pm_ts l = Some tl -> pm_ts r = Some tr ->
  pm_key l < ztrunc (tt_time tt) -> ztrunc (tt_time tt) < pm_key r ->
  (forall y, In y (d_matrices d) -> pm_profile y = Some (dv_profile v) -> ~ (pm_key l < pm_key y /\ pm_key y < pm_key r)) ->
  pm_err r = Some codes -> nth_error codes (from * psize prov + to) = Some e -> e > 0 ->
  pm_data2 l = inr (dul, dil) -> pm_data2 r = inr (dur, dir) ->
  nth_error dul (from * psize prov + to) = Some lv -> nth_error dil (from * psize prov + to) = Some lw ->
  exists k, vehicle_profile (prof_names d) (dv_profile v) (dv_scale v) = Some (k, dscale v) /\
    duration_tt prov (doc_fallback d) k (dscale v) from to tt = Val (lv * dscale v)%Q /\
    distance_tt prov (doc_fallback d) k from to tt = Val lw.
Proof. exact doc_timed_right_unreachable_keeps_left. Qed.

(* the former finding C16-F5, restated about the lookup BEFORE repair d8f731f (duration_prefix): the left matrix flags (0,1),
   stamps 10 / 18, right value 100, t = 14: the pre-fix duration is the interpolant 49.5 >= 0 while the distance is -1; the
   repaired lookup returns -1 *)
Theorem C16_doc_timed_unreachable_negative_prefix_refuted :
  exists d prov vs l codes t q w,
    doc_read d = DOk prov vs /\ In l (d_matrices d) /\ pm_err l = Some codes /\ nth_error codes (0 * psize prov + 1) = Some 1 /\
    pm_ts l = Some 10 /\ (inject_Z 10 < t)%Q /\ (t < inject_Z 18)%Q /\
    duration_prefix prov (doc_fallback d) 0 1%Q 0 1 t = Val q /\ (0 <= q)%Q /\
    distance_tt prov (doc_fallback d) 0 0 1 (TDeparture t) = Val w /\ (w < 0)%Q /\
    duration_tt prov (doc_fallback d) 0 1%Q 0 1 (TDeparture t) = Val ((-1 # 1) * 1)%Q.
Proof. exact doc_timed_unreachable_negative_prefix_refuted. Qed.

(* ---- rejection exactly when inconsistent, on documents.  doc_consistent (Proofs/RoutingDocP.v), written out here:
        one side length n for travelTimes / distances / errorCodes of every matrix; the routing rules E1500..E1505;
        matrices attached to the fleet profiles by position (no names, no timestamps, one per profile), or by name with the
        names a permutation of the fleet profile names (untimed), or by name with >= 2 timestamped matrices per profile *)
Theorem C16_doc_consistent_accepted : forall d n,
  (forall pm, In pm (d_matrices d) ->
     length (pm_times pm) = (n * n)%nat /\ length (pm_dists pm) = (n * n)%nat /\
     (forall codes, pm_err pm = Some codes -> length codes = (n * n)%nat)) ->
  (NoDup (prof_names d) /\ d_profiles d <> [] /\
   (forall v, In v (d_vehicles d) -> In (dv_profile v) (prof_names d)) /\
   ~ (ci_has_coords (d_locs d) = true /\ ci_has_indices (d_locs d) = true) /\
   (ci_max_index (d_locs d) + 1 = n)%nat /\ (forall i, In (LRef i) (d_locs d) -> (i < n)%nat)) ->
  (((forall pm, In pm (d_matrices d) -> pm_profile pm = None /\ pm_ts pm = None) /\
    length (d_matrices d) = length (prof_names d))
   \/ ((forall pm, In pm (d_matrices d) -> pm_ts pm = None) /\
       Permutation (map pm_profile (d_matrices d)) (map Some (prof_names d)))
   \/ ((forall pm, In pm (d_matrices d) -> pm_ts pm <> None /\ exists nm, pm_profile pm = Some nm /\ In nm (prof_names d)) /\
       (forall nm, In nm (prof_names d) -> (2 <= length (filter (pnamed nm) (d_matrices d)))%nat))) ->
  exists prov vs, doc_read d = DOk prov vs.
Proof. exact doc_consistent_accepted_unfolded. Qed.

(* the converse holds when every matrix name is a fleet profile (since repair 7d3c5fe of /repo, finding C16-F4, the length
   condition on errorCodes / travelTimes is enforced by the reader and no longer a hypothesis); _partial: without the side
   condition on the names the converse is FALSE (open finding C16-F3, witness below) *)
Theorem C16_doc_accepted_consistent_partial : forall d prov vs,
  doc_read d = DOk prov vs ->
  (forall pm nm, In pm (d_matrices d) -> pm_profile pm = Some nm -> In nm (prof_names d)) ->
  doc_consistent d.
Proof. exact doc_accepted_consistent. Qed.

(* FINDING C16-F3.  A matrix whose profile name is no fleet profile is attached by its POSITION: in position 1 it serves the
   vehicles of fleet profile 2 (which has no matrix of its own); the same matrices in the other order are rejected *)
Theorem C16_doc_unknown_name_by_position_refuted :
  exists d d' prov vs v,
    doc_read d = DOk prov vs /\ ~ names_known d /\ In v (d_vehicles d) /\
    (forall pm, In pm (d_matrices d) -> pm_profile pm <> Some (dv_profile v)) /\
    duration_tt prov (doc_fallback d) 1 (dscale v) 0 1 (TDeparture 0) = Val (31 # 1)%Q /\
    Permutation (d_matrices d) (d_matrices d') /\ d_profiles d' = d_profiles d /\
    doc_read d' = DRejected DProfileCount.
Proof. exact doc_unknown_name_by_position_refuted. Qed.

(* the former finding C16-F4, restated about the reader BEFORE repair 7d3c5fe (doc_read_prefix): errorCodes longer than the
   data, positive surplus up to the next square: a 2x2 matrix with 9 codes on a document with 2 locations gave a provider of
   size 3, cell (1,0) (supplied: 12) answered 0, the supplied cell (1,1); the repaired reader rejects the document *)
Theorem C16_doc_error_codes_resize_prefix_refuted :
  exists d prov vs pm codes,
    doc_read_prefix d = DOk prov vs /\ d_matrices d = [pm] /\ pm_err pm = Some codes /\
    length (pm_dists pm) = 4%nat /\ length codes = 9%nat /\ ci_len (d_locs d) = 2%nat /\ psize prov = 3%nat /\
    nth_error (pm_times pm) (1 * 2 + 0) = Some 12 /\
    duration_tt prov (doc_fallback d) 0 1%Q 1 0 (TDeparture 0) = Val 0%Q /\
    doc_read d = DRejected DCodesLength.
Proof. exact doc_error_codes_resize_prefix_refuted. Qed.

(* an accepted matrix with errorCodes has the three lengths equal (repair 7d3c5fe) *)
Theorem C16_doc_error_codes_lengths : forall pm codes du di,
  pm_err pm = Some codes -> pm_data2 pm = inr (du, di) ->
  length codes = length (pm_dists pm) /\ length (pm_times pm) = length (pm_dists pm).
Proof. exact pm_data2_codes_fit. Qed.

(* ---- clause 5: coordinate documents read without matrices (map_to_problem_with_approx), relative to an abstract
        distance function hav on coordinate identifiers (haversine: libm trigonometry, not modelled).
        qround = f64::round; it stays within 1/2 of its argument *)
Theorem C16_round_within_half : forall x,
  (inject_Z (qround x) - (1 # 2) <= x)%Q /\ (x <= inject_Z (qround x) + (1 # 2))%Q.
Proof. exact qround_near. Qed.

(* create_approx_matrices: one matrix per fleet profile, named after it, distances = round(hav) for all ordered pairs of
   the unique locations, travel times = round(hav / speed of THAT profile) (default speed 10); the de-duplicated speed
   set of the code does not matter *)
Theorem C16_approx_matrices_structure : forall hav d,
  create_approx_matrices hav d =
  map (fun p => mkPM (Some (dp_name p)) None
                     (flat_map (fun a => map (fun b => qround (hav a b / speed_of p)%Q) (approx_locs d)) (approx_locs d))
                     (flat_map (fun a => map (fun b => qround (hav a b)) (approx_locs d)) (approx_locs d)) None)
      (d_profiles d).
Proof. exact create_approx_matrices_spec. Qed.

(* every vehicle of an accepted coordinate document: duration(i,j) = round(hav(loc_i, loc_j) / speed of its profile) times its
   scale, distance(i,j) = round(hav(loc_i, loc_j)); size() = number of unique coordinates *)
Theorem C16_doc_approx_exact : forall hav d prov vs v p i j a b tt,
  doc_read_approx hav d = DOk prov vs -> ci_has_indices (d_locs d) = false ->
  In v (d_vehicles d) -> In p (d_profiles d) -> dp_name p = dv_profile v ->
  nth_error (approx_locs d) i = Some a -> nth_error (approx_locs d) j = Some b ->
  psize prov = length (approx_locs d) /\
  exists k, vehicle_profile (prof_names d) (dv_profile v) (dv_scale v) = Some (k, dscale v) /\
    duration_tt prov (doc_fallback d) k (dscale v) i j tt
      = Val (inject_Z (qround (hav a b / speed_of p)) * dscale v)%Q /\
    distance_tt prov (doc_fallback d) k i j tt = Val (inject_Z (qround (hav a b))).
Proof. exact doc_approx_exact. Qed.

(* symmetric with a zero diagonal, given only: hav symmetric and zero on equal points *)
Theorem C16_doc_approx_symmetric_zero_diag : forall hav : nat -> nat -> Q,
  (forall a b, (hav a b == hav b a)%Q) -> (forall a, (hav a a == 0)%Q) ->
  forall d prov vs v p i j a b tt,
    doc_read_approx hav d = DOk prov vs -> ci_has_indices (d_locs d) = false ->
    In v (d_vehicles d) -> In p (d_profiles d) -> dp_name p = dv_profile v ->
    nth_error (approx_locs d) i = Some a -> nth_error (approx_locs d) j = Some b ->
    exists k, vehicle_profile (prof_names d) (dv_profile v) (dv_scale v) = Some (k, dscale v) /\
      duration_tt prov (doc_fallback d) k (dscale v) i j tt = duration_tt prov (doc_fallback d) k (dscale v) j i tt /\
      distance_tt prov (doc_fallback d) k i j tt = distance_tt prov (doc_fallback d) k j i tt /\
      duration_tt prov (doc_fallback d) k (dscale v) i i tt = Val (inject_Z 0 * dscale v)%Q /\
      distance_tt prov (doc_fallback d) k i i tt = Val (inject_Z 0).
Proof. exact doc_approx_symmetric_zero_diag. Qed.

(* the former finding C16-F6.  Before repair d74b2b6 the real haversine function evaluated
   sin^2(dlng/2) * cos(lat1) * cos(lat2) left to right, so swapping the points re-associated a binary64 product and the result
   could differ in the last bit: with the two values the PRE-FIX function returned for the points of corpus
   C16/c16_doc/approx-asymmetric-last-bit.json (2^-31 apart, one unit in the last place) cell (0,1) is 2270455 and cell (1,0)
   is 2270456 - symmetry of the ROUNDED matrix needs an exactly symmetric distance *)
Theorem C16_approx_symmetric_last_bit_prefix_refuted :
  exists (hav : nat -> nat -> Q) (a b : nat),
    (forall x y, (0 <= hav x y)%Q) /\ (forall x, (hav x x == 0)%Q) /\
    (hav b a - hav a b == 1 # 2147483648)%Q /\
    nth_error (approx_distances hav qround [a; b]) (0 * 2 + 1) = Some 2270455 /\
    nth_error (approx_distances hav qround [a; b]) (1 * 2 + 0) = Some 2270456.
Proof. exact approx_symmetric_last_bit_prefix_refuted. Qed.

(* since repair d74b2b6 the STRUCTURE of get_haversine_distance (Model/RoutingDoc.v `haversine true`: degree_rad, the two half-angle
   sines, the product of the two cosines taken FIRST, atan2 of the two roots, the WGS-84 radius at the latitude difference) is
   symmetric in its two points over ANY carrier whose operations obey the sign laws of binary64 arithmetic with an odd sine and an
   even cosine and whose multiplication is commutative - associativity, which binary64 lacks, is not used.  This is the
   hypothesis `hav a b == hav b a` of C16_doc_approx_symmetric_zero_diag, to the last bit, as far as the structure goes (the
   libm values themselves are not modelled) *)
Theorem C16_haversine_structure_symmetric : forall (F : Type)
    (fadd fsub fmul fdiv : F -> F -> F) (fneg fsin fcos fsqrt : F -> F) (fatan2 : F -> F -> F) (one two pi c180 wa wb : F),
  (forall a b, fmul a b = fmul b a) ->
  (forall a b, fsub a b = fneg (fsub b a)) ->
  (forall a b, fmul a (fneg b) = fneg (fmul a b)) ->
  (forall a b, fmul (fneg a) (fneg b) = fmul a b) ->
  (forall a b, fdiv (fneg a) b = fneg (fdiv a b)) ->
  (forall a, fsin (fneg a) = fneg (fsin a)) ->
  (forall a, fcos (fneg a) = fcos a) ->
  forall p1 p2,
    haversine F fadd fsub fmul fdiv fsin fcos fsqrt fatan2 one two pi c180 wa wb true p1 p2 =
    haversine F fadd fsub fmul fdiv fsin fcos fsqrt fatan2 one two pi c180 wa wb true p2 p1.
Proof. exact haversine_fixed_symmetric. Qed.

(* ---- non-vacuity of the document-level hypotheses *)
Theorem C16_nonvacuous_doc_named :
  exists d prov vs v pm codes du di,
    doc_consistent d /\ doc_read d = DOk prov vs /\ (forall m, In m (d_matrices d) -> pm_ts m = None) /\ names_known d /\
    In v (d_vehicles d) /\ In pm (d_matrices d) /\ pm_profile pm = Some (dv_profile v) /\
    pm_err pm = Some codes /\ pm_data2 pm = inr (du, di) /\ psize prov = 2%nat /\
    nth_error codes (1 * psize prov + 0) = Some 3 /\
    nth_error du (0 * psize prov + 1) = Some (31 # 1)%Q /\
    duration_tt prov (doc_fallback d) 1 (dscale v) 0 1 (TArrival (7 # 2)) = Val ((31 # 1) * dscale v)%Q /\
    duration_tt prov (doc_fallback d) 1 (dscale v) 1 0 (TDeparture 0) = Val ((-1 # 1) * dscale v)%Q.
Proof. exact nonvacuous_doc_named. Qed.

Theorem C16_nonvacuous_doc_timed :
  exists d prov vs v l r tt,
    doc_consistent d /\ doc_read d = DOk prov vs /\ names_known d /\ In v (d_vehicles d) /\
    NoDup (map pm_key (filter (pnamed (dv_profile v)) (d_matrices d))) /\
    In l (d_matrices d) /\ In r (d_matrices d) /\ pm_profile l = Some (dv_profile v) /\ pm_profile r = Some (dv_profile v) /\
    pm_key l < ztrunc (tt_time tt) /\ ztrunc (tt_time tt) < pm_key r /\
    (forall y, In y (d_matrices d) -> pm_profile y = Some (dv_profile v) -> ~ (pm_key l < pm_key y /\ pm_key y < pm_key r)) /\
    exists q, duration_tt prov (doc_fallback d) 0 (dscale v) 1 0 tt = Val q /\ (q == 12 # 1)%Q.
Proof. exact nonvacuous_doc_timed. Qed.
