(* C19 — The self-organising population keeps a well-formed map.
   All statements are about the executable model Model/Gsom.v (lattice part of rosomaxa's GSOM network, node storages, Rosomaxa
   phase machine); float-decided choices (best matching units, threshold decisions, re-training order) are universally
   quantified oracle arguments.  Finiteness of weights and error measures is NOT claimed here (floats are not modelled); it is
   monitored on the implementation by the check (exploration level). *)
From VRP Require Import Base.Tac Model.Gsom Proofs.GsomP.

(* after Network::new and after every later store_batch / smooth / compact, for every input stream, configuration and oracle:
   unique keys, key = node.coordinate, weights of the input dimension, capacity node_size, storage within capacity, >= 4 nodes *)
Theorem C19_wellformed_after_every_operation :
  forall cfg data assign rounds n ops n',
    network_new cfg data assign rounds = Created n -> run n ops = Ok n' ->
    (NoDup (map fst (nodes n')) /\
     forall c nd, In (c, nd) (nodes n') ->
       n_c nd = c /\ n_dim nd = dim n' /\ n_cap nd = fcap n' /\ (length (n_st nd) <= n_cap nd)%nat) /\
    (4 <= size n')%nat /\ fcap n' = node_size cfg /\ dim n' = length (it_w (hd (mkI 0 0 0 []) data)).
Proof. exact wf_history. Qed.

(* the invariant is inductive: any single operation on any well-formed network *)
Theorem C19_step_preserves_wellformed :
  forall n o n', wellformed n -> step n o = Ok n' -> wellformed n' /\ dim n' = dim n /\ fcap n' = fcap n.
Proof. exact wf_step. Qed.

(* lookup by coordinate finds exactly the node filed under it, and that node carries this coordinate; absent keys are not found *)
Theorem C19_lookup_exact :
  forall n c nd, wellformed n ->
    (lookup c (nodes n) = Some nd <-> In (c, nd) (nodes n)) /\ (lookup c (nodes n) = Some nd -> n_c nd = c).
Proof. exact wf_lookup. Qed.
Theorem C19_lookup_absent : forall n c, lookup c (nodes n) = None <-> ~ In c (map fst (nodes n)).
Proof. exact wf_lookup_absent. Qed.

(* a node storage (Elitism with max = capacity) never exceeds its capacity *)
Theorem C19_storage_within_capacity : forall cap l x, (length (st_add cap l x) <= cap)%nat.
Proof. exact st_add_cap. Qed.

(* growth never loses a node; smoothing never changes the lattice *)
Theorem C19_store_keeps_nodes :
  forall n data n', wellformed n -> store_batch n data = Ok n' ->
    (forall c, In c (map fst (nodes n)) -> In c (map fst (nodes n'))) /\ (size n <= size n')%nat.
Proof. exact wf_store. Qed.
Theorem C19_smooth_keeps_lattice :
  forall n rounds n', wellformed n -> smooth n rounds = Ok n' -> map fst (nodes n') = map fst (nodes n).
Proof. exact wf_smooth. Qed.

(* contraction: the coordinate shift with Rust's truncating division is injective on kept coordinates (per axis and on the map) *)
Theorem C19_remap_axis_injective :
  forall d mn mx x y, d = 3 \/ d = 4 -> Z.rem x d <> 0 -> Z.rem y d <> 0 -> shift x mn mx d = shift y mn mx d -> x = y.
Proof. exact shift_inj. Qed.
Theorem C19_remap_injective_on_kept :
  forall n a b, compact_keeps n a = true -> compact_keeps n b = true -> compact_map n a = compact_map n b -> a = b.
Proof. exact wf_compact_injective. Qed.

(* compaction never grows the map, never leaves fewer than four nodes (or leaves the network untouched), removes exactly the
   decimated coordinates and keeps every other node under its shifted coordinate *)
Theorem C19_compact_bounds :
  forall n os n', wellformed n -> compact n os = Ok n' ->
    wellformed n' /\ (size n' <= size n)%nat /\ ((4 <= size n')%nat \/ n' = n) /\
    (n' = n \/
     ((size n' + length (filter (fun c => negb (compact_keeps n c)) (map fst (nodes n))) = size n)%nat /\
      (forall c', In c' (map fst (nodes n')) <->
                  exists c, In c (map fst (nodes n)) /\ compact_keeps n c = true /\ c' = compact_map n c))).
Proof. exact wf_compact. Qed.

(* the population moves through its phases only forward and its elite never exceeds elite_size (for every dedup function) *)
Theorem C19_phases_forward_elite_bounded :
  forall dd c ops1 ops2 s1 s2,
    rrun dd (ro_new c) ops1 = Ok s1 -> rrun dd (ro_new c) (ops1 ++ ops2) = Ok s2 ->
    (phase_rank (ro_phase s1) <= phase_rank (ro_phase s2))%nat /\
    (length (ro_elite s1) <= r_elite c)%nat /\ (length (ro_elite s2) <= r_elite c)%nat.
Proof. exact ro_history. Qed.

(* CLAUSE NOT HOLDING: "error measures stay finite".  Network::distribute_error multiplies the accumulated error of every neighbour
   by (1 + distribution_factor / distance) and only retrain (smooth) resets errors, so along a stream of store_batch calls without
   smoothing the exact value of a neighbour's node.error grows geometrically past f64::MAX (the f64 value is then +inf).
   Witness on the implementation: corpus/C19/error-overflow.json (node.error = +inf at store_batch call 1753). *)
Theorem C19_error_measures_finite_refuted :
  exists k, let e := distribute_times k (1, 1024) 8 1 in f64_max_bound * snd e < fst e.
Proof. exact error_overflow_witness. Qed.

(* "all weights are finite", input side (finding C19-F2, fixed in /repo by 7897eb0): with the empty-slice guard in get_variance_mean
   the variance and standard deviation of no values are 0, so the twelve route-derived weights of a solution without routes are
   finite (all zero); on non-empty slices the guarded functions are the unguarded ones. *)
Theorem C19_route_less_weights_finite :
  f_variance [] = f_zero /\ f_stdev [] = f_zero /\
  forallb f_finite (f_route_less_features f_variance f_stdev) = true /\
  forallb f_is_zero (f_route_less_features f_variance f_stdev) = true /\
  (forall x l, f_variance (x :: l) = f_variance_prefix (x :: l)) /\ (forall x l, f_stdev (x :: l) = f_stdev_prefix (x :: l)).
Proof. exact empty_statistics_zero. Qed.
(* the PRE-FIX function (get_variance_mean without the guard; seeded mutant selftest/mutants/C19-9.diff) violates the clause:
   variance / stdev of an empty slice are NaN in IEEE arithmetic and the route-derived weights are not all finite.
   Witness on the pre-fix implementation: corpus/C19/nan-weights-route-less.json. *)
Theorem C19_route_less_weights_nan_refuted :
  PrimFloat.is_nan (f_variance_prefix []) = true /\ PrimFloat.is_nan (f_stdev_prefix []) = true /\
  forallb f_finite (f_route_less_features f_variance_prefix f_stdev_prefix) = false /\
  PrimFloat.is_nan (f_variance_prefix f_sample3) = false /\ PrimFloat.is_nan (f_stdev_prefix f_sample1) = false.
Proof. exact empty_statistics_nan_prefix. Qed.

(* non-vacuity: a concrete creation + growth history, a concrete compaction that really shrinks, a history through all phases *)
Theorem C19_nonvacuous_history : exists n n',
  network_new (mkCfg 2) w_data w_round (repeat w_round 8) = Created n /\
  run n [OStore [(mkI 9 0 9 [5; 5], (0, 0), true)]; OCompact []] = Ok n' /\ size n = 4%nat /\ size n' = 6%nat.
Proof. exact history_witness. Qed.
Theorem C19_nonvacuous_compact : exists n n', wellformed n /\ compact n [] = Ok n' /\ (size n' < size n)%nat /\ size n' = 16%nat.
Proof. exact compact_witness. Qed.
Theorem C19_nonvacuous_phases :
  exists s, rrun dedupf (ro_new (mkR 4 2 900)) [RAdd w_data; RGen 10 900; RGen 950 900] = Ok s /\ ro_phase s = PExploitation.
Proof. exact phase_witness. Qed.
