(* C19 — The self-organising population keeps a well-formed map. *)
From VRP Require Import Base.Tac Model.Gsom Proofs.GsomP.

Theorem C19_storage_within_capacity : forall cap l x, (length (st_add cap l x) <= cap)%nat.
Proof. exact st_add_cap. Qed.

Theorem C19_remap_axis_injective : forall d mn mx x y, d = 3 \/ d = 4 -> Z.rem x d <> 0 -> Z.rem y d <> 0 ->
  shift x mn mx d = shift y mn mx d -> x = y.
Proof. exact shift_inj. Qed.
