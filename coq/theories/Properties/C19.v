(* C19 — The self-organising population keeps a well-formed map.
   All statements are about the executable model Model/Gsom.v (lattice part of rosomaxa's GSOM network, node storages, Rosomaxa
   phase machine); float-decided choices (best matching units, threshold decisions, re-training order) are universally
   quantified oracle arguments.
   Second half (theorems C19_weights_..., C19_float_...): the NUMERIC model Model/GsomW.v (weights, errors, min/max tracking, distances, measures
   written once over an abstract arithmetic) at two instances: exact rationals `QN sq` (sq = the square root, only assumed
   non-negative) and IEEE binary64 `FN` = Coq primitive floats, the instance that is compared bit for bit with the real Network on
   every run (sub-stream c19_weights).  Finiteness is proved for Node::adjust and the euclidian distance under explicit bounds and
   REFUTED beyond them (finding C19-F3); node.error is not bounded (finding C19-F1). *)
From Coq Require Import QArith Qminmax Floats.
From VRP Require Import Base.Tac Model.Gsom Proofs.GsomP Model.SlotF Model.GsomW Model.GsomF Proofs.GsomWP Proofs.GsomFP.
Close Scope Q_scope.

(* after Network::new and after every later store_batch / smooth / compact, for every input stream, configuration and oracle:
   unique keys, key = node.coordinate, weights of the input dimension, capacity node_size, storage within capacity, >= 4 nodes *)
Theorem C19_wellformed_after_every_operation :
  forall cfg data assign rounds n ops n',
    network_new cfg data assign rounds = Created n -> run n ops = Ok n' ->
    (NoDup (map fst (nodes n')) /\
     forall c nd, In (c, nd) (nodes n') ->
       n_c nd = c /\ n_dim nd = dim n' /\ n_cap nd = fcap n' /\ (length (n_st nd) <= n_cap nd)%nat) /\
    (4 <= size n')%nat /\ fcap n' = node_size cfg /\ dim n' = length (it_w (hd (mkI 0 0 0 []) data)).
Proof. exact wf_history. Qed.

(* the invariant is inductive: any single operation on any well-formed network *)
Theorem C19_step_preserves_wellformed :
  forall n o n', wellformed n -> step n o = Ok n' -> wellformed n' /\ dim n' = dim n /\ fcap n' = fcap n.
Proof. exact wf_step. Qed.

(* lookup by coordinate finds exactly the node filed under it, and that node carries this coordinate; absent keys are not found *)
Theorem C19_lookup_exact :
  forall n c nd, wellformed n ->
    (lookup c (nodes n) = Some nd <-> In (c, nd) (nodes n)) /\ (lookup c (nodes n) = Some nd -> n_c nd = c).
Proof. exact wf_lookup. Qed.
Theorem C19_lookup_absent : forall n c, lookup c (nodes n) = None <-> ~ In c (map fst (nodes n)).
Proof. exact wf_lookup_absent. Qed.

(* a node storage (Elitism with max = capacity) never exceeds its capacity *)
Theorem C19_storage_within_capacity : forall cap l x, (length (st_add cap l x) <= cap)%nat.
Proof. exact st_add_cap. Qed.

(* growth never loses a node; smoothing never changes the lattice *)
Theorem C19_store_keeps_nodes :
  forall n data n', wellformed n -> store_batch n data = Ok n' ->
    (forall c, In c (map fst (nodes n)) -> In c (map fst (nodes n'))) /\ (size n <= size n')%nat.
Proof. exact wf_store. Qed.
Theorem C19_smooth_keeps_lattice :
  forall n rounds n', wellformed n -> smooth n rounds = Ok n' -> map fst (nodes n') = map fst (nodes n).
Proof. exact wf_smooth. Qed.

(* contraction: the coordinate shift with Rust's truncating division is injective on kept coordinates (per axis and on the map) *)
Theorem C19_remap_axis_injective :
  forall d mn mx x y, d = 3 \/ d = 4 -> Z.rem x d <> 0 -> Z.rem y d <> 0 -> shift x mn mx d = shift y mn mx d -> x = y.
Proof. exact shift_inj. Qed.
Theorem C19_remap_injective_on_kept :
  forall n a b, compact_keeps n a = true -> compact_keeps n b = true -> compact_map n a = compact_map n b -> a = b.
Proof. exact wf_compact_injective. Qed.

(* compaction never grows the map, never leaves fewer than four nodes (or leaves the network untouched), removes exactly the
   decimated coordinates and keeps every other node under its shifted coordinate *)
Theorem C19_compact_bounds :
  forall n os n', wellformed n -> compact n os = Ok n' ->
    wellformed n' /\ (size n' <= size n)%nat /\ ((4 <= size n')%nat \/ n' = n) /\
    (n' = n \/
     ((size n' + length (filter (fun c => negb (compact_keeps n c)) (map fst (nodes n))) = size n)%nat /\
      (forall c', In c' (map fst (nodes n')) <->
                  exists c, In c (map fst (nodes n)) /\ compact_keeps n c = true /\ c' = compact_map n c))).
Proof. exact wf_compact. Qed.

(* the population moves through its phases only forward and its elite never exceeds elite_size (for every dedup function) *)
Theorem C19_phases_forward_elite_bounded :
  forall dd c ops1 ops2 s1 s2,
    rrun dd (ro_new c) ops1 = Ok s1 -> rrun dd (ro_new c) (ops1 ++ ops2) = Ok s2 ->
    (phase_rank (ro_phase s1) <= phase_rank (ro_phase s2))%nat /\
    (length (ro_elite s1) <= r_elite c)%nat /\ (length (ro_elite s2) <= r_elite c)%nat.
Proof. exact ro_history. Qed.

(* CLAUSE NOT HOLDING: "error measures stay finite".  Network::distribute_error multiplies the accumulated error of every neighbour
   by (1 + distribution_factor / distance) and only retrain (smooth) resets errors, so along a stream of store_batch calls without
   smoothing the exact value of a neighbour's node.error grows geometrically past f64::MAX (the f64 value is then +inf).
   Witness on the implementation: corpus/C19/error-overflow.json (node.error = +inf at store_batch call 1753). *)
Theorem C19_error_measures_finite_refuted :
  exists k, let e := distribute_times k (1, 1024) 8 1 in f64_max_bound * snd e < fst e.
Proof. exact error_overflow_witness. Qed.

(* "all weights are finite", input side (finding C19-F2, fixed in /repo by 7897eb0): with the empty-slice guard in get_variance_mean
   the variance and standard deviation of no values are 0, so the twelve route-derived weights of a solution without routes are
   finite (all zero); on non-empty slices the guarded functions are the unguarded ones. *)
Theorem C19_route_less_weights_finite :
  f_variance [] = f_zero /\ f_stdev [] = f_zero /\
  forallb f_finite (f_route_less_features f_variance f_stdev) = true /\
  forallb f_is_zero (f_route_less_features f_variance f_stdev) = true /\
  (forall x l, f_variance (x :: l) = f_variance_prefix (x :: l)) /\ (forall x l, f_stdev (x :: l) = f_stdev_prefix (x :: l)).
Proof. exact empty_statistics_zero. Qed.
(* the PRE-FIX function (get_variance_mean without the guard; seeded mutant selftest/mutants/C19-9.diff) violates the clause:
   variance / stdev of an empty slice are NaN in IEEE arithmetic and the route-derived weights are not all finite.
   Witness on the pre-fix implementation: corpus/C19/nan-weights-route-less.json. *)
Theorem C19_route_less_weights_nan_refuted :
  PrimFloat.is_nan (f_variance_prefix []) = true /\ PrimFloat.is_nan (f_stdev_prefix []) = true /\
  forallb f_finite (f_route_less_features f_variance_prefix f_stdev_prefix) = false /\
  PrimFloat.is_nan (f_variance_prefix f_sample3) = false /\ PrimFloat.is_nan (f_stdev_prefix f_sample1) = false.
Proof. exact empty_statistics_nan_prefix. Qed.

(* non-vacuity: a concrete creation + growth history, a concrete compaction that really shrinks, a history through all phases *)
Theorem C19_nonvacuous_history : exists n n',
  network_new (mkCfg 2) w_data w_round (repeat w_round 8) = Created n /\
  run n [OStore [(mkI 9 0 9 [5; 5], (0, 0), true)]; OCompact []] = Ok n' /\ size n = 4%nat /\ size n' = 6%nat.
Proof. exact history_witness. Qed.
Theorem C19_nonvacuous_compact : exists n n', wellformed n /\ compact n [] = Ok n' /\ (size n' < size n)%nat /\ size n' = 16%nat.
Proof. exact compact_witness. Qed.
Theorem C19_nonvacuous_phases :
  exists s, rrun dedupf (ro_new (mkR 4 2 900)) [RAdd w_data; RGen 10 900; RGen 950 900] = Ok s /\ ro_phase s = PExploitation.
Proof. exact phase_witness. Qed.

(* ================= numeric half: Model/GsomW.v ================= *)

(* "all weights are ... of the input dimension", now from the arithmetic: for ANY arithmetic (rationals, binary64) and every history of
   store_batch / smooth / compact / set_learning_rate that the model accepts, every node's weight vector and the min/max vectors keep
   the dimension d (Node::adjust zips, the growth cases a-d zip two node vectors or map the min/max vector) *)
Theorem C19_weights_keep_dimension :
  forall (T : Type) (N : num T) (d : nat) (n : wnet (T := T)) (ops : list wop) (n' : wnet (T := T)),
    (Forall (fun kv => length (w_w (snd kv)) = d) (wn_nodes n) /\ length (mm_min (wn_mm n)) = d /\ length (mm_max (wn_mm n)) = d) ->
    runW N n ops = Ok n' ->
    Forall (fun kv => length (w_w (snd kv)) = d) (wn_nodes n') /\ length (mm_min (wn_mm n')) = d /\ length (mm_max (wn_mm n')) = d.
Proof. exact (fun T N d => runW_dim N d). Qed.

(* Node::adjust over exact arithmetic is the convex step (1 - rate) * w + rate * target: with 0 <= rate <= 1 the adjusted weight lies
   between the old weight and the target, hence inside every interval that contains both *)
Theorem C19_adjust_convex_step :
  forall (sq : Q -> Q) (lr w v lo hi : Q),
    (adjust1 (QN sq) lr w v == (1 - lr) * w + lr * v)%Q /\
    ((0 <= lr <= 1)%Q -> (Qmin w v <= adjust1 (QN sq) lr w v <= Qmax w v)%Q) /\
    ((0 <= lr <= 1)%Q -> (lo <= w <= hi)%Q -> (lo <= v <= hi)%Q -> (lo <= adjust1 (QN sq) lr w v <= hi)%Q).
Proof. exact adjust_convex_step_all. Qed.

(* what the code guarantees about the rate: Network::adjust_weights uses learning_rate * (1 - 3.8 / #nodes), a quarter of it for
   re-trained input, divided by the Manhattan distance for neighbours: all in [0, 1] when 0 <= learning_rate <= 1 and the map has at
   least 4 nodes (C19_wellformed_after_every_operation); Rosomaxa's cosine annealing supplies rates in [0.1, 1] *)
Theorem C19_learning_rates_in_unit_interval :
  forall (sq : Q -> Q) (lr : Q) (len : nat) (is_new : bool) (k : Z) (c : Q),
    ((0 <= lr <= 1)%Q -> (4 <= len)%nat -> (0 <= base_rate (QN sq) lr len is_new <= 1)%Q) /\
    ((0 <= lr <= 1)%Q -> (4 <= len)%nat -> 1 <= k -> (0 <= base_rate (QN sq) lr len is_new / inject_Z k <= 1)%Q) /\
    ((-1 <= c <= 1)%Q -> (1 # 10 <= learning_rate_of_cos c <= 1)%Q).
Proof. exact learning_rates_all. Qed.

(* the non-growing updates (smooth = retrain without growth, for any number of rounds and any order of the re-trained individuals;
   the re-training of compact = train_on_data(data, false)) keep every node weight inside any box that contains all node weights and
   all stored / re-trained individuals — per coordinate the hull [min, max] — when 0 <= learning rate <= 1 and the map has >= 4 nodes *)
Theorem C19_weights_stay_in_hull_when_not_growing :
  forall (sq : Q -> Q) (B : list (Q * Q)) (n n' : wnet (T := Q)),
    let inside := fun w : list Q => Forall2 (fun b v => (fst b <= v <= snd b)%Q) B w in
    let ok := fun m : wnet (T := Q) =>
      Forall (fun kv => inside (w_w (snd kv)) /\ Forall (fun x => inside (itw (QN sq) x)) (w_st (snd kv))) (wn_nodes m) /\
      (4 <= length (wn_nodes m))%nat /\ (0 <= wn_lr m <= 1)%Q in
    ok n ->
    (forall rounds, smoothW (QN sq) n rounds = Ok n' -> ok n') /\
    (forall data, Forall (fun x => inside (itw (QN sq) x)) data -> train_on_dataW (QN sq) n data false = Ok n' -> ok n').
Proof. exact hull_all. Qed.

(* the grown weights (Network::grow_nodes): case b is the midpoint of two nodes, case d the midpoint of min/max: inside the hull;
   cases a and c are 2 * w1 - w2 whichever branch of `if w2 > w1` is taken: inside the hull WIDENED BY ITS OWN WIDTH on both sides *)
Theorem C19_grown_weights_bounds :
  forall (sq : Q -> Q) (w1 w2 lo hi : Q), (lo <= w1 <= hi)%Q -> (lo <= w2 <= hi)%Q ->
    (lo <= grow_b (QN sq) w1 w2 <= hi)%Q /\ (lo <= grow_d (QN sq) (w1, w2) <= hi)%Q /\
    (grow_ac (QN sq) w1 w2 == 2 * w1 - w2)%Q /\ (lo - (hi - lo) <= grow_ac (QN sq) w1 w2 <= hi + (hi - lo))%Q.
Proof. exact grown_bounds_all. Qed.
(* ... and they do leave the hull: weights 1 and 0 extrapolate to 2 (not a violation of the property, which asks for finiteness) *)
Theorem C19_grown_weights_in_hull_refuted :
  exists w1 w2 lo hi : Q, (lo <= w1 <= hi)%Q /\ (lo <= w2 <= hi)%Q /\ ~ (grow_ac (QN (fun x => x)) w1 w2 <= hi)%Q.
Proof. exact grow_ac_leaves_hull. Qed.

(* find_bmu returns the FIRST node (iteration order of the map) of minimal distance: everything before it is strictly farther,
   everything after it at least as far (min_by keeps the earlier element on ties) *)
Theorem C19_bmu_is_first_argmin :
  forall (sq : Q -> Q) (l : wmap (T := Q)) (m : mm (T := Q)) (w : list Q) (nd : wnode (T := Q)) (dv : Q),
    find_bmu (QN sq) l m w = Some (nd, dv) ->
    dv = distance (QN sq) (w_w nd) w m /\
    exists pre k post, l = pre ++ (k, nd) :: post /\
      (forall kv, In kv pre -> (dv < distance (QN sq) (w_w (snd kv)) w m)%Q) /\
      (forall kv, In kv post -> (dv <= distance (QN sq) (w_w (snd kv)) w m)%Q).
Proof. exact find_bmu_argmin. Qed.

(* accumulated errors never become negative along any history (threshold, distribution factor >= 0, sqrt >= 0), and the growth /
   distribution test is exactly `growing_threshold <= node.error` — `>=` as coded, so an error EQUAL to the threshold triggers it *)
Theorem C19_errors_nonnegative_and_growth_test :
  forall (sq : Q -> Q) (n : wnet (T := Q)) (ops : list wop) (n' : wnet (T := Q)),
    (forall x, (0 <= sq x)%Q) ->
    (Forall (fun kv => (0 <= w_e (snd kv))%Q) (wn_nodes n) /\ (0 <= wn_thr n)%Q /\ (0 <= wn_df n)%Q) ->
    runW (QN sq) n ops = Ok n' ->
    (Forall (fun kv => (0 <= w_e (snd kv))%Q) (wn_nodes n') /\ (0 <= wn_thr n')%Q /\ (0 <= wn_df n')%Q) /\
    (forall nd, exceeds (QN sq) n' nd = true <-> (wn_thr n' <= w_e nd)%Q) /\
    (forall nd, (w_e nd == wn_thr n')%Q -> exceeds (QN sq) n' nd = true).
Proof. exact errors_growth_all. Qed.

(* squared distance, distance, Node::mse and Network::mse are non-negative over exact arithmetic (any state, any min/max) *)
Theorem C19_measures_nonnegative :
  forall (sq : Q -> Q) (n : wnet (T := Q)) (nd : wnode (T := Q)) (l r : list Q),
    (0 <= dist2 (QN sq) l r (wn_mm n))%Q /\ ((forall x, (0 <= sq x)%Q) -> (0 <= distance (QN sq) l r (wn_mm n))%Q) /\
    (0 <= node_mse (QN sq) (wn_mm n) nd)%Q /\ (0 <= net_mse (QN sq) n)%Q.
Proof. exact measures_all. Qed.

(* ----- IEEE binary64 (the twin that is compared bit for bit with the implementation) ----- *)

(* "all weights are finite", Node::adjust: weights and target within 2^1021 and a rate in [0, 1] give finite adjusted weights
   (within 2^1023); no NaN / infinity can be produced *)
Theorem C19_float_adjust_finite :
  forall (w t : list PrimFloat.float) (lr : PrimFloat.float),
    Forall (fun x => (abs x <=? 0x1p1021)%float = true) w -> Forall (fun x => (abs x <=? 0x1p1021)%float = true) t ->
    (0 <=? lr)%float = true -> (lr <=? 1)%float = true ->
    Forall (fun x => PrimFloat.is_finite x = true /\ (abs x <=? 0x1p1023)%float = true) (adjust FN w t lr).
Proof. exact float_adjust_finite. Qed.

(* "error measures stay finite", euclidian distance (the error that is accumulated, the summand of unified_distance): when both
   vectors lie coordinate-wise between the tracked min and max and these are within 2^1022, every normalised coordinate is in
   [0, 1] and the distance is finite and >= 0, for every dimension below 2^53 (also in the reset state min = 0, max = 1) *)
Theorem C19_float_distance_finite :
  forall (l r : list PrimFloat.float) (m : mm (T := PrimFloat.float)),
    (Z.of_nat (length l) < 2 ^ 53)%Z ->
    let ok := fun (v : PrimFloat.float) (p : PrimFloat.float * PrimFloat.float) =>
      ((abs (fst p) <=? 0x1p1022) && (abs (snd p) <=? 0x1p1022) && (fst p <=? v) && (v <=? snd p))%float = true in
    Forall2 ok l (mm_iter FN m) -> Forall2 ok r (mm_iter FN m) ->
    PrimFloat.is_finite (distance FN l r m) = true /\ (0 <=? distance FN l r m)%float = true.
Proof. exact float_distance_finite. Qed.

(* CLAUSES NOT HOLDING for finite inputs next to f64::MAX (finding C19-F3; witness on the implementation:
   corpus/C19/c19_weights/F3-nonfinite-near-f64-max.json): Node::adjust moves f64::MAX towards -f64::MAX with rate 1 to -inf ... *)
Theorem C19_float_adjust_finite_refuted :
  PrimFloat.is_finite (f_of_bits bMAX) = true /\ PrimFloat.is_finite (f_of_bits bNMAX) = true /\
  run_adjustF [bMAX] [bNMAX] 4607182418800017408 = [18442240474082181120] /\
  PrimFloat.is_finite (adjust1 FN 1%float (f_of_bits bMAX) (f_of_bits bNMAX)) = false.
Proof. exact float_adjust_overflow. Qed.
(* ... and with min = -f64::MAX, max = f64::MAX tracked, the range max - min overflows: the distance of the two extreme vectors is NaN
   (inf / inf) while ordinary vectors collapse to distance 0 *)
Theorem C19_float_distance_finite_refuted :
  let m := mkMM [f_of_bits bNMAX] [f_of_bits bMAX] false in
  PrimFloat.is_nan (distance FN [f_of_bits bMAX] [f_of_bits bNMAX] m) = true /\
  PrimFloat.is_nan (distance FN [1%float] [2%float] m) = false /\
  bits_of_f (distance FN [1%float] [2%float] m) = 0.
Proof. exact float_distance_nan. Qed.
(* the convexity of C19_adjust_convex_step does NOT carry over to binary64 literally: one rounding can leave the interval
   (w = 1, target = 5e-324, rate = 1 gives 0); not asked for by the property, recorded as the difference between the two instances *)
Theorem C19_float_adjust_between_refuted :
  let r := adjust1 FN 1%float 1%float (f_of_bits 1) in
  bits_of_f r = 0 /\ PrimFloat.ltb r (f_of_bits 1) = true /\ PrimFloat.ltb r 1%float = true.
Proof. exact float_adjust_leaves_hull. Qed.

(* non-vacuity of the numeric theorems: a concrete 2 x 2 network over Q satisfies the hull hypotheses and smoothing succeeds; a
   history smooth / store_batch / set_learning_rate / compact succeeds from a state with non-negative errors; the two instances
   agree on a dyadic adjustment (1.5 towards 4 with rate 0.25 = 2.125) *)
Theorem C19_nonvacuous_weights :
  (let inside := fun w : list Q => Forall2 (fun b v => (fst b <= v <= snd b)%Q) [(0%Q, 3%Q)] w in
   Forall (fun kv => inside (w_w (snd kv)) /\ Forall (fun x => inside (itw (QN wq_id) x)) (w_st (snd kv))) (wn_nodes wq_net) /\
   (4 <= length (wn_nodes wq_net))%nat /\ (0 <= wn_lr wq_net <= 1)%Q) /\
  (exists n', smoothW (QN wq_id) wq_net [[1; 2]] = Ok n') /\
  (Forall (fun kv => (0 <= w_e (snd kv))%Q) (wn_nodes wq_net) /\ (0 <= wn_thr wq_net)%Q /\ (0 <= wn_df wq_net)%Q) /\
  (exists n', runW (QN wq_id) wq_net wq_ops = Ok n' /\ length (wn_nodes n') = 4%nat) /\
  run_adjustF [4609434218613702656] [4616189618054758400] 4598175219545276416 = [4611967493404098560] /\
  run_adjustQ [4609434218613702656] [4616189618054758400] 4598175219545276416 = [(17, 8)].
Proof. exact nonvacuous_weights_all. Qed.
Theorem C19_nonvacuous_float_bounds :
  Forall (fun x => (abs x <=? 0x1p1021)%float = true) [1%float; 2%float] /\ (0 <=? 0.5)%float = true /\ (0.5 <=? 1)%float = true /\
  map bits_of_f (adjust FN [1%float; 2%float] [2%float; 1%float] 0.5%float) = [4609434218613702656; 4609434218613702656] /\
  (let m := mkMM [0%float] [4%float] false in
   let ok := fun (v : PrimFloat.float) (p : PrimFloat.float * PrimFloat.float) =>
     ((abs (fst p) <=? 0x1p1022) && (abs (snd p) <=? 0x1p1022) && (fst p <=? v) && (v <=? snd p))%float = true in
   Forall2 ok [1%float] (mm_iter FN m) /\ Forall2 ok [2%float] (mm_iter FN m) /\
   bits_of_f (distance FN [1%float] [2%float] m) = 4598175219545276416).
Proof. exact float_bounds_witness. Qed.
