(* C02 — Every job is accounted for exactly once.
   Statement (properties.jsonl): in every returned solution each job of the plan appears either completely in exactly one
   tour - all of its tasks exactly once, pickups before deliveries, on one vehicle shift - or exactly once in the unassigned
   list with at least one reason; no other job id appears, every tour names an existing vehicle and shift and serves at
   least one job, and no vehicle shift drives two tours.  Every break, reload or recharge stop that appears corresponds to a
   distinct one defined for that very vehicle shift, and none of these, nor clustering, ever displaces, duplicates or
   swallows a customer job.

   Shape of the result:
   (1) `Spec.Valid.Accounted P S` is that statement over the solution document, clause by clause (problem fragment without
       breaks / recharges / clustering: none is defined, so none may appear; RELOADS are in: clause acc_reloads = the reload
       activities of a tour are DISTINCT reloads defined for its vehicle shift, `Assign`); the executable checker
       `accounted_b` is proved sound and complete for it, and it is what runs (inside Coq) on every document the real
       solver returns.
   (2) Over the model of the solver's bookkeeping primitives (Model/Homes.v) every plan job has exactly one home after ANY
       history of guarded steps, and what Solution::from hands to the writer after finalize is an exact partition.
   (3) The clause "every tour serves at least one job" was FALSE of the code (finding C02-F1, fixed by commit 03c7b61):
       notify_failure of the tour-duration limit pushes an empty route; finalize_insertion_ctx now removes it, and the
       clause is proved for every history that ends with finalize_insertion_ctx. *)
From VRP Require Import Base.Tac Model.Core Spec.Valid Model.Homes Proofs.ValidP Proofs.HomesP.

(* ---- (1) the checker decides the statement *)
Theorem C02_accounted_b_sound : forall P S, accounted_b P S = [] -> Accounted P S.
Proof. exact accounted_b_sound. Qed.

Theorem C02_accounted_b_complete : forall P S, Accounted P S -> accounted_b P S = [].
Proof. exact accounted_b_complete. Qed.

(* reloads: the backtracking matcher finds an assignment of the tour's reload activities to distinct reloads defined for the
   tour's vehicle shift (same location, duration, a window that explains the reported start) iff one exists *)
Theorem C02_reloads_distinct_defined : forall P t, reloads_ok P t = true <-> ReloadsDefined P t.
Proof. exact reloads_ok_iff. Qed.

Theorem C02_accounted_reloads : forall P S t vt sh, Accounted P S -> In t (sl_tours S) -> shift_of P t = Some (vt, sh) ->
  Assign (reload_acts t) (sh_reloads sh).
Proof. intros P S t vt sh HA Hin Hs. exact (acc_reloads P S HA t Hin vt sh Hs). Qed.

(* breaks: likewise, the break activities of a tour can be assigned to DISTINCT optional breaks defined for the tour's vehicle
   shift (a place of the break with the reported service time and, when the place has one, the reported location; the break's
   time - relative to the tour's departure for an offset break - explains the reported start) iff the matcher says so *)
Theorem C02_breaks_distinct_defined : forall P t, breaks_ok P t = true <-> BreaksDefined P t.
Proof. exact breaks_ok_iff. Qed.

Theorem C02_accounted_breaks : forall P S t vt sh, Accounted P S -> In t (sl_tours S) -> shift_of P t = Some (vt, sh) ->
  GAssign (break_fits (tour_dep (flat_tour t))) (break_acts t) (sh_breaks sh).
Proof. intros P S t vt sh HA Hin Hs. exact (acc_breaks P S HA t Hin vt sh Hs). Qed.

(* so a tour never takes more breaks than its shift defines *)
Theorem C02_breaks_at_most_defined : forall P S t vt sh, Accounted P S -> In t (sl_tours S) -> shift_of P t = Some (vt, sh) ->
  (length (break_acts t) <= length (sh_breaks sh))%nat.
Proof. intros P S t vt sh HA Hin Hs. eapply GAssign_length. exact (acc_breaks P S HA t Hin vt sh Hs). Qed.

(* non-vacuity: a document with a break activity is accounted *)
Theorem C02_nonvacuous_break : Accounted ex_Pb ex_Sb /\ break_acts (hd ex_tour (sl_tours ex_Sb)) <> [].
Proof. exact ex_break_accounted. Qed.

(* an accounted document partitions the plan: exactly one tour and not unassigned, or no tour and exactly once unassigned *)
Theorem C02_accounted_partition : forall P S job, Accounted P S -> In job (pr_jobs P) ->
  (length (tours_with (pj_id job) S) = 1%nat /\ length (unassigned_of (pj_id job) S) = 0%nat)
  \/ (length (tours_with (pj_id job) S) = 0%nat /\ length (unassigned_of (pj_id job) S) = 1%nat).
Proof. exact accounted_partition. Qed.

(* ---- (2) bookkeeping: one home per job, after each primitive and after any history *)
Theorem C02_homes_step : forall jobs s o, Inv jobs s -> guard s o -> Inv jobs (step s o).
Proof. exact homes_step. Qed.

Theorem C02_homes_reach : forall jobs ops s, Inv jobs s -> guards s ops -> Inv jobs (run s ops).
Proof. exact homes_reach. Qed.

Theorem C02_homes_init : forall jobs, Inv jobs (init jobs).
Proof. exact homes_init. Qed.

(* the invariant evaluated on the real SolutionContext dumps is the proved one *)
Theorem C02_inv_b_iff : forall jobs s, inv_b jobs s = true <-> Inv jobs s.
Proof. exact inv_b_iff. Qed.

(* any guarded history that ends with finalize reports every plan job exactly once: on one route, or unassigned *)
Theorem C02_history_reported_partition : forall jobs ops,
  guards (init jobs) (ops ++ [HFinalize]) ->
  let s := run (init jobs) (ops ++ [HFinalize]) in
  forall j, In j jobs ->
     (count_occ Z.eq_dec (concat (h_routes s)) j = 1%nat /\ count_occ Z.eq_dec (reported_unassigned s) j = 0%nat)
     \/ (count_occ Z.eq_dec (concat (h_routes s)) j = 0%nat /\ count_occ Z.eq_dec (reported_unassigned s) j = 1%nat).
Proof. exact history_reported. Qed.

(* and nothing else is reported *)
Theorem C02_reported_no_foreign : forall jobs s, Inv jobs s -> h_required s = [] ->
  forall j, In j (concat (h_routes s)) \/ In j (reported_unassigned s) -> In j jobs.
Proof. intros jobs s HI Hr. exact (proj2 (reported_partition jobs s HI Hr)). Qed.

(* ---- (3) "every tour serves at least one job" *)
(* finalize_insertion_ctx = finalize_unassigned; remove_empty_routes (commit 03c7b61, finding C02-F1 fixed): after ANY
   history that ends with it no reported tour is empty ... *)
Theorem C02_tours_serve_a_job : forall jobs ops, ~ In [] (h_routes (run (init jobs) (ops ++ finalize_ctx))).
Proof. exact history_no_empty_tour. Qed.

(* ... and the jobs are still an exact partition *)
Theorem C02_history_reported_partition_ctx : forall jobs ops,
  guards (init jobs) (ops ++ finalize_ctx) ->
  let s := run (init jobs) (ops ++ finalize_ctx) in
  forall j, In j jobs ->
     (count_occ Z.eq_dec (concat (h_routes s)) j = 1%nat /\ count_occ Z.eq_dec (reported_unassigned s) j = 0%nat)
     \/ (count_occ Z.eq_dec (concat (h_routes s)) j = 0%nat /\ count_occ Z.eq_dec (reported_unassigned s) j = 1%nat).
Proof. exact history_reported_ctx. Qed.

(* the final remove_empty_routes is necessary: with finalize_unassigned alone (the code before 03c7b61, and mutant C02-5) a
   guarded history reports an empty tour, because notify_failure of the duration limit pushes a job-less route *)
Theorem C02_remove_empty_routes_needed :
  exists jobs ops, guards (init jobs) (ops ++ [HFinalize]) /\ In [] (h_routes (run (init jobs) (ops ++ [HFinalize]))).
Proof. exact empty_route_reported. Qed.

(* ---- non-vacuity *)
Theorem C02_nonvacuous_accounted : Accounted ex_P ex_S /\ sl_tours ex_S <> [] /\ sl_unassigned ex_S <> [].
Proof. exact ex_accounted. Qed.

Theorem C02_nonvacuous_rejects : accounted_b ex_P ex_S_dup = [AJobDuplicated 1] /\ ~ Accounted ex_P ex_S_dup.
Proof. exact ex_dup_rejected. Qed.

Theorem C02_nonvacuous_history :
  guards (init [1; 2; 3]) [HInsert 0 1; HInsert 0 2; HFail 3; HFinalize; HRemoveJob 0 1; HPrepare; HInsert 1 3; HInsert 1 1; HFinalize]
  /\ canon (run (init [1; 2; 3]) [HInsert 0 1; HInsert 0 2; HFail 3; HFinalize; HRemoveJob 0 1; HPrepare; HInsert 1 3; HInsert 1 1; HFinalize])
     = ([[2]; [1; 3]], [], []).
Proof. split; [cbn; intuition|vm_compute; reflexivity]. Qed.

(* ---------------------------------------------------------------------------------------------------------------------------
   ROUND FOUR (Spec/ValidX.v): features the end-to-end generator did not produce before.  The clauses above keep their meaning;
   the rules below are evaluated in addition (`ValidX.accounted4` = accounted_b ++ the new rules) on every returned document. *)
From VRP Require Import Spec.ValidX Proofs.ValidXP.

(* REPLACEMENT tasks / MIXED jobs (jobs.md "Mixing job tasks": "The order is not specified except pickups must be scheduled
   before any delivery, replacement or service"): the checker `mixed_viols` reports nothing iff in every tour, for every plan
   job, no pickup of the job is served after a delivery, replacement or service of that job *)
Theorem C02_mixed_order_checker_sound_complete : forall P S, mixed_viols P S = [] <-> MixedOrdered P S.
Proof. exact mixed_viols_nil. Qed.

Theorem C02_mixed_order_b_iff : forall acts, mixed_order_b acts = true <-> PickupsBeforeAll acts.
Proof. exact mixed_order_b_iff. Qed.

(* it contains the clause "pickups before deliveries" of the statement *)
Theorem C02_mixed_order_implies_pickups_first : forall acts, PickupsBeforeAll acts -> PickupsFirst acts.
Proof. exact mixed_implies_pickups_first. Qed.

(* non-vacuity: a document that serves a job with a pickup AND a replacement task (kind 3) is accepted by the whole checker;
   the same tour with the replacement served before the pickup of the same job is rejected with exactly [AJobMixedOrder 3] *)
Theorem C02_nonvacuous_replacement :
  valid_b ex_Pr ex_Sr ++ mixed_viols ex_Pr ex_Sr = []
  /\ valid_b ex_Pr ex_Sr_bad ++ mixed_viols ex_Pr ex_Sr_bad = [AJobMixedOrder 3]
  /\ MixedOrdered ex_Pr ex_Sr /\ ~ MixedOrdered ex_Pr ex_Sr_bad.
Proof. exact (conj (proj1 ex_replacement) (conj (proj1 (proj2 ex_replacement)) ex_replacement_mixed)). Qed.

(* REQUIRED BREAKS (vehicles.md; a problem's required breaks live in ValidX.xproblem next to the unchanged pproblem): the clause
   "every break ... that appears corresponds to a distinct one defined for that very vehicle shift" for the break activities and
   the stops without location of a tour whose shift defines required breaks: they can be assigned to DISTINCT required breaks of
   the shift (reported length = the break's duration, reported start inside [earliest, latest], relative to the tour's departure
   for an offset time) and their intervals do not overlap - iff the checker says so *)
Theorem C02_required_breaks_distinct_defined : forall X t, rbreaks_ok X t = true <-> RBreaksDefined X t.
Proof. exact rbreaks_ok_iff. Qed.

Theorem C02_required_breaks_checker_sound_complete : forall X S,
  rbreak_viols X S = [] <-> forall t, In t (sl_tours S) -> RBreaksDefined X t.
Proof. exact rbreak_viols_nil. Qed.

(* so such a tour never reports more breaks than its shift defines *)
Theorem C02_required_breaks_at_most_defined : forall X t, RBreaksDefined X t -> has_rb X t = true ->
  (length (break_acts t) <= length (rbreaks_of X t))%nat.
Proof. intros X t H Hrb. eapply GAssign_length. exact (proj1 (H Hrb)). Qed.

(* what runs on every document, `accounted4` = Valid.accounted_b on the document without its required-break activities and
   stops ++ the rule above ++ the rule for mixed jobs; for a problem without required breaks it is accounted_b itself plus the
   rule for mixed jobs: the clauses and theorems above keep their meaning *)
Theorem C02_no_required_breaks_is_accounted_b : forall P S, accounted4 X0 XS0 P S = accounted_b P S ++ mixed_viols P S.
Proof. exact accounted4_X0. Qed.

(* non-vacuity: a tour whose required break interrupts the service of a job (a break activity inside the stop) and one whose
   break is taken while driving (a stop without location) are accepted by the WHOLE round-four checker; the first document
   judged against another break definition, and the second with its break reported twice (finding C02-F3: as a stop without
   location and as an activity of the next stop) give exactly [ARequiredBreak 0] *)
Theorem C02_nonvacuous_required_break :
  valid4 ex_Xq XS0 ex_P ex_Sq = [] /\ valid4 ex_Xt XS0 ex_P ex_St = []
  /\ RBreaksDefined ex_Xq (hd ex_tour (sl_tours ex_Sq)) /\ break_acts (hd ex_tour (sl_tours ex_Sq)) <> []
  /\ accounted4 ex_Xt XS0 ex_P ex_Sq = [ARequiredBreak 0]
  /\ accounted4 ex_Xt XS0 ex_P ex_St_twice = [ARequiredBreak 0].
Proof.
  split; [exact (proj1 ex_required_break)|]. split; [exact (proj1 (proj2 ex_required_break))|].
  split; [exact (proj1 ex_required_break_defined)|]. split; [exact (proj1 (proj2 ex_required_break_defined))|].
  split; [exact (proj2 (proj2 (proj2 (proj2 ex_required_break))))|exact ex_required_break_twice].
Qed.

(* VICINITY CLUSTERING (clustering.md; the solution's commute / parking data live in ValidX.xsolution next to the unchanged
   ssolution): "nor clustering ever displaces, duplicates or swallows a customer job".  The clustered activities are ordinary
   activities of the document, each with its own location, so the per-job clause of `Accounted` above judges them as it is (a
   member that the cluster swallows is AJobLost, one that is served twice AJobDuplicated / AJobIncomplete).  Added rule: an
   activity that carries a commute field (it is served as a member of a cluster) belongs to a plan job with exactly one task
   that is not listed in filtering.excludeJobIds - iff the checker reports no AClusterMember *)
Theorem C02_cluster_members_checker_sound_complete : forall P X XS S,
  member_viols P X XS S = [] <-> forall n t, nth_error (sl_tours S) n = Some t -> ClusterMembersOk P X (xt_of XS (Z.of_nat n)) t.
Proof. exact member_viols_nil. Qed.

(* non-vacuity: a document with a clustered stop (parking, a member with a forward and a backward commute) passes the WHOLE
   round-four checker; the same document without the member is exactly [AJobLost 3]; with the member's job excluded from
   clustering by the plan exactly [AClusterMember 0 2] *)
Theorem C02_nonvacuous_cluster :
  valid4 ex_Xc ex_XSc ex_Pc ex_Sc = []
  /\ accounted4 ex_Xc ex_XSc_lost ex_Pc ex_Sc_lost = [AJobLost 3]
  /\ accounted4 ex_Xc_excl ex_XSc ex_Pc ex_Sc = [AClusterMember 0 2]
  /\ is_cluster_tour (xt_of ex_XSc 0) = true.
Proof.
  split; [exact (proj1 ex_cluster)|]. split; [exact (proj1 (proj2 ex_cluster))|].
  split; [exact (proj1 (proj2 (proj2 (proj2 ex_cluster))))|exact (proj2 (proj2 (proj2 (proj2 ex_cluster))))].
Qed.

(* ---------------------------------------------------------------------------------------------------------------------------
   ROUND FIVE (Spec/ValidY.v): RECHARGE STATIONS.  "Every break, reload or recharge stop that appears corresponds to a distinct one
   defined for that very vehicle shift": the recharge activities of a tour can be assigned to DISTINCT stations of the tour's
   vehicle shift (same location, duration = reported length, a time window of the station that explains the reported start) - iff
   the checker says so; a shift without recharges defines no station, so none may appear.  For every other clause the recharge
   activities are masked in place (`accounted5` = accounted4 on the masked document ++ this rule): "none of these ... ever
   displaces, duplicates or swallows a customer job" stays the per-job clause above. *)
From VRP Require Import Spec.ValidY Proofs.ValidYP.

Theorem C02_recharges_distinct_defined : forall Y t, recharges_ok Y t = true <-> RechargesDefined Y t.
Proof. exact recharges_ok_iff. Qed.

Theorem C02_recharges_checker_sound_complete : forall Y S,
  recharge_viols Y S = [] <-> forall t, In t (sl_tours S) -> RechargesDefined Y t.
Proof. exact recharge_viols_nil. Qed.

(* so a tour never visits more recharge stations than its shift defines (each "can be visited only once"), and none at all
   when the shift defines no recharges *)
Theorem C02_recharges_at_most_defined : forall Y t, RechargesDefined Y t -> (length (recharge_acts t) <= length (stations_of Y t))%nat.
Proof. exact recharges_at_most_defined. Qed.

Theorem C02_recharges_none_defined : forall Y t, recharge_of Y t = None -> RechargesDefined Y t -> recharge_acts t = [].
Proof. exact recharges_none_defined. Qed.

(* conservativity: on a document without recharge activities what runs (`accounted5`) IS the accounting of the earlier rounds,
   whatever the problem defines *)
Theorem C02_no_recharge_activity_is_accounted4 : forall Y X XS P S,
  no_rc_sol S = true -> accounted5 Y X XS P S = accounted4 X XS P S.
Proof. exact accounted5_no_recharge. Qed.

(* non-vacuity: a document with a recharge stop at a station of its shift passes the WHOLE round-five checker and satisfies the
   declarative clause; judged against a problem that defines no station the accounting is exactly [ARecharge 0] *)
Theorem C02_nonvacuous_recharge :
  all5 (ex_Yrc 30) ex_Prc ex_Src = [] /\ RechargesDefined (ex_Yrc 30) (hd ex_tour (sl_tours ex_Src))
  /\ recharge_acts (hd ex_tour (sl_tours ex_Src)) <> [] /\ accounted5 Y0 X0 XS0 ex_Prc ex_Src = [ARecharge 0].
Proof.
  split; [exact (proj1 ex_recharge)|]. split; [exact (proj1 ex_recharge_declarative)|].
  split; [exact (proj2 (proj2 (proj2 ex_recharge)))|exact (proj1 (proj2 (proj2 ex_recharge)))].
Qed.

(* REQUIRED BREAKS on a shift that also has RELOADS (round five, generator feature rbreload).  The clause "every ... reload ... stop
   corresponds to a distinct one defined for that very vehicle shift" reads the reported LENGTH of a reload activity; an activity that
   a required break interrupts is reported with the break inside.  For a tour whose shift defines required breaks the clause is
   evaluated on the tour without its break activities and with the NET length (the part of the reported interval outside the
   reported breaks) - the attribution ValidX uses for every activity of such a tour - iff the checker says so; `accounted6` replaces
   AReload by this version on those tours and is accounted5 for a problem without required breaks *)
Theorem C02_reloads_around_required_breaks_distinct_defined : forall X P t, reloads_ok_rb X P t = true <-> ReloadsDefinedRb X P t.
Proof. exact reloads_ok_rb_iff. Qed.

Theorem C02_reloads_around_required_breaks_checker_sound_complete : forall X P S,
  reload_rb_viols X P S = [] <-> forall t, In t (sl_tours S) -> has_rb X t = true -> ReloadsDefinedRb X P t.
Proof. exact reload_rb_viols_nil. Qed.

Theorem C02_reloads_without_required_breaks_is_reloads_ok : forall P t, reloads_ok_rb X0 P t = reloads_ok P t.
Proof. exact reloads_ok_rb_X0. Qed.

Theorem C02_no_required_breaks_is_accounted5 : forall Y XS P S, accounted6 Y X0 XS P S = accounted5 Y X0 XS P S.
Proof. exact accounted6_X0. Qed.
