(* C15 — Parallel evaluation results do not depend on how work is split. *)
From VRP Require Import Base.Tac Model.Reduce Proofs.ReduceP.

(* every reduction schedule (binary tree over contiguous chunks = anything rayon's fold/reduce can produce) returns a
   minimal-cost result, for every strict weak order on costs, provided route-level cost estimates are lower bounds of the
   full insertion costs (non-negative activity-level estimates) *)
Theorem C15_any_schedule_minimal : forall (C : Type) (lt : C -> C -> bool),
  (forall a, lt a a = false) ->
  (forall a b c, lt a b = true -> lt b c = true -> lt a c = true) ->
  (forall a b c, lt a b = false -> lt b c = false -> lt a c = false) ->
  forall t, lower_bound C lt (flatten C t) -> is_min C lt (flatten C t) (run_tree C lt t).
Proof. exact run_tree_min. Qed.

(* hence any two schedules over the same items (in particular the sequential scan = one leaf) agree on the cost *)
Theorem C15_parallel_eq_sequential : forall (C : Type) (lt : C -> C -> bool),
  (forall a, lt a a = false) ->
  (forall a b c, lt a b = true -> lt b c = true -> lt a c = true) ->
  (forall a b c, lt a b = false -> lt b c = false -> lt a c = false) ->
  forall t1 t2, flatten C t1 = flatten C t2 -> lower_bound C lt (flatten C t1) ->
  match run_tree C lt t1, run_tree C lt t2 with
  | None, None => True
  | Some a, Some b => lt a b = false /\ lt b a = false
  | _, _ => False
  end.
Proof. exact parallel_eq_sequential. Qed.

(* the hypothesis is needed: with an item whose full cost is below its route-level estimate the result depends on the split *)
Theorem C15_pruning_split_dependent_refuted :
  exists xs : list (item Z),
    run_tree Z Z.ltb (Leaf _ xs) = Some 10 /\ run_tree Z Z.ltb (Node _ (Leaf _ (firstn 1 xs)) (Leaf _ (skipn 1 xs))) = Some 5.
Proof. exact pruning_split_dependent. Qed.

(* ============================================================================================================================
   Second batch: the shapes the code really uses (Model/Reduce2.v, Proofs/Reduce2P.v)
   ============================================================================================================================ *)
From VRP Require Import Model.CostOrder Model.Core Model.Reduce2 Proofs.Reduce2P.
From Coq Require Import Permutation.

(* ---------- rosomaxa/src/utils/parallel.rs ---------- *)
(* cartesian_product(routes, jobs) is the row-major list of pairs *)
Theorem C15_cartesian_product_members : forall (T U : Type) (xs : list T) (ys : list U) a b,
  In (a, b) (cartesian_product xs ys) <-> In a xs /\ In b ys.
Proof. exact (@in_cartesian_product). Qed.

Theorem C15_cartesian_product_row_major : forall (T U : Type) (xs : list T) (ys : list U) i k da db,
  (i < length xs)%nat -> (k < length ys)%nat ->
  nth (i * length ys + k) (cartesian_product xs ys) (da, db) = (nth i xs da, nth k ys db).
Proof. exact (@cartesian_product_row_major). Qed.

(* parallel_collect / parallel_into_collect: whatever the chunking, slot i holds map_op(item i) *)
Theorem C15_parallel_collect_is_map : forall (T R : Type) (f : T -> R) (t : ptree T),
  parallel_collect f t = map f (pflatten t).
Proof. exact (@parallel_collect_eq_map). Qed.

(* fold_reduce: when the fold step is `reduce acc (g x)`, reduce is associative and identity a right unit, every schedule equals
   the sequential left fold (exactly) *)
Theorem C15_fold_reduce_any_schedule : forall (T R : Type) (identity : R) (fold : R -> T -> R) (reduce : R -> R -> R) (g : T -> R),
  (forall a b c, reduce (reduce a b) c = reduce a (reduce b c)) ->
  (forall a, reduce a identity = a) ->
  forall t : ptree T,
  (forall acc x, In x (pflatten t) -> fold acc x = reduce acc (g x)) ->
  fold_reduce identity fold reduce t = fold_left fold (pflatten t) identity.
Proof. exact (@fold_reduce_any_schedule). Qed.

Theorem C15_map_reduce_any_schedule : forall (T R : Type) (map_op : T -> R) (default : R) (reduce : R -> R -> R),
  (forall a b c, reduce (reduce a b) c = reduce a (reduce b c)) ->
  (forall a, reduce a default = a) ->
  forall t : ptree T,
  map_reduce map_op default reduce t = fold_left (fun acc x => reduce acc (map_op x)) (pflatten t) default.
Proof. exact (@map_reduce_any_schedule). Qed.

(* the first model (Reduce.v) is the instance fold_reduce None step best *)
Theorem C15_first_model_is_fold_reduce : forall C lt (t : tree C),
  run_tree C lt t = fold_reduce None (step C lt) (best C lt) (ptree_of t) /\ flatten C t = pflatten (ptree_of t).
Proof. exact run_tree_is_fold_reduce. Qed.

(* ---------- InsertionResult::choose_best_result as written ---------- *)
Theorem C15_choose_best_result_assoc : forall (S C : Type) (cost : S -> C) (lt : C -> C -> bool),
  (forall a b c, lt a b = true -> lt b c = true -> lt a c = true) ->
  (forall a b c, lt a b = false -> lt b c = false -> lt a c = false) ->
  forall a b c : result S,
  choose_best_result S C cost lt (choose_best_result S C cost lt a b) c =
  choose_best_result S C cost lt a (choose_best_result S C cost lt b c).
Proof. exact choose_assoc. Qed.

Theorem C15_choose_best_result_right_unit : forall (S C : Type) (cost : S -> C) (lt : C -> C -> bool) (a : result S),
  choose_best_result S C cost lt a (make_failure S) = a.
Proof. exact choose_id_r. Qed.

(* partial: make_failure() is a left unit except for a failure with the unknown code, which it absorbs (job / stopped lost) *)
Theorem C15_choose_best_result_left_unit_partial : forall (S C : Type) (cost : S -> C) (lt : C -> C -> bool) (a : result S),
  choose_best_result S C cost lt (make_failure S) a = a \/
  (exists f, a = RFailure f /\ f_code f = UNKNOWN /\ choose_best_result S C cost lt (make_failure S) a = make_failure S).
Proof. exact choose_id_l. Qed.

Theorem C15_choose_left_unit_drops_job_refuted :
  exists a : result unit, choose_best_result unit Z (fun _ => 0) Z.ltb (make_failure unit) a <> a.
Proof. exact choose_left_unit_drops_job. Qed.

(* commutative up to verdict class and cost equivalence ... *)
Theorem C15_choose_best_result_comm_cost : forall (S C : Type) (cost : S -> C) (lt : C -> C -> bool),
  (forall a, lt a a = false) ->
  (forall a b c, lt a b = true -> lt b c = true -> lt a c = true) ->
  forall a b : result S,
  res_equiv S C cost lt (choose_best_result S C cost lt a b) (choose_best_result S C cost lt b a).
Proof. exact choose_comm_cost. Qed.

(* ... but not exactly: of two failures with concrete codes the RIGHT one is kept (observation; the property speaks about costs) *)
Theorem C15_choose_failures_not_commutative_refuted :
  exists a b : result unit, choose_best_result unit Z (fun _ => 0) Z.ltb a b <> choose_best_result unit Z (fun _ => 0) Z.ltb b a.
Proof. exact choose_failures_not_commutative. Qed.

(* ---------- eval_job_insertion_in_route as the fold step ---------- *)
(* for a pair whose scan honours best_known_cost and whose route-level estimate is a lower bound of its full cost, the step
   (with its three shortcuts) is the reducer applied to the pair's own result *)
Theorem C15_eval_step_is_choose : forall (S C : Type) (cost : S -> C) (lt : C -> C -> bool),
  (forall a b c, lt a b = true -> lt b c = true -> lt a c = true) ->
  forall (acc : result S) (c : cell S C),
  cell_ok S C cost lt c ->
  eval_step S C cost lt acc c = choose_best_result S C cost lt acc (full_of S C c).
Proof. exact eval_step_is_choose. Qed.

(* ---------- PositionInsertionEvaluator::evaluate_all over the routes x jobs grid ---------- *)
(* every schedule returns EXACTLY (success with payload, or kept failure) the left-to-right reduction of the individually
   evaluated pairs in row-major order *)
Theorem C15_evaluate_all_exact : forall (S C : Type) (cost : S -> C) (lt : C -> C -> bool),
  (forall a b c, lt a b = true -> lt b c = true -> lt a c = true) ->
  (forall a b c, lt a b = false -> lt b c = false -> lt a c = false) ->
  forall (Rt Jb : Type) (ev : Rt -> Jb -> cell S C) (routes : list Rt) (jobs : list Jb) (t : ptree (Rt * Jb)),
  grid_ok S C cost lt Rt Jb ev routes jobs ->
  pflatten t = cartesian_product routes jobs ->
  evaluate_all S C cost lt Rt Jb ev t = best_of_all S C cost lt Rt Jb ev routes jobs.
Proof. exact evaluate_all_exact. Qed.

(* ... which is also what the nested sequential double loop (for route { for job { step } }) returns *)
Theorem C15_evaluate_all_eq_nested_loop : forall (S C : Type) (cost : S -> C) (lt : C -> C -> bool),
  (forall a b c, lt a b = true -> lt b c = true -> lt a c = true) ->
  (forall a b c, lt a b = false -> lt b c = false -> lt a c = false) ->
  forall (Rt Jb : Type) (ev : Rt -> Jb -> cell S C) (routes : list Rt) (jobs : list Jb) (t : ptree (Rt * Jb)),
  grid_ok S C cost lt Rt Jb ev routes jobs ->
  pflatten t = cartesian_product routes jobs ->
  evaluate_all S C cost lt Rt Jb ev t = nested_loop S C cost lt Rt Jb ev routes jobs.
Proof. exact evaluate_all_eq_nested_loop. Qed.

(* the result is a success of minimal cost over ALL pairs; if nothing succeeds, the failure kept is determined: the last failure
   with a concrete code in row-major order, else make_failure() *)
Theorem C15_evaluate_all_minimal : forall (S C : Type) (cost : S -> C) (lt : C -> C -> bool),
  (forall a, lt a a = false) ->
  (forall a b c, lt a b = true -> lt b c = true -> lt a c = true) ->
  (forall a b c, lt a b = false -> lt b c = false -> lt a c = false) ->
  forall (Rt Jb : Type) (ev : Rt -> Jb -> cell S C) (routes : list Rt) (jobs : list Jb) (t : ptree (Rt * Jb)),
  grid_ok S C cost lt Rt Jb ev routes jobs ->
  pflatten t = cartesian_product routes jobs ->
  match evaluate_all S C cost lt Rt Jb ev t with
  | RSuccess s =>
      (exists r j, In r routes /\ In j jobs /\ full_of S C (ev r j) = RSuccess s) /\
      (forall r j s', In r routes -> In j jobs -> full_of S C (ev r j) = RSuccess s' -> lt (cost s') (cost s) = false)
  | RFailure f =>
      (forall r j s', In r routes -> In j jobs -> full_of S C (ev r j) <> RSuccess s') /\
      f = kept_failure S (map (fun p : Rt * Jb => full_of S C (ev (fst p) (snd p))) (cartesian_product routes jobs))
  end.
Proof. exact evaluate_all_minimal. Qed.

Theorem C15_evaluate_all_failure_iff : forall (S C : Type) (cost : S -> C) (lt : C -> C -> bool),
  (forall a, lt a a = false) ->
  (forall a b c, lt a b = true -> lt b c = true -> lt a c = true) ->
  (forall a b c, lt a b = false -> lt b c = false -> lt a c = false) ->
  forall (Rt Jb : Type) (ev : Rt -> Jb -> cell S C) (routes : list Rt) (jobs : list Jb) (t : ptree (Rt * Jb)),
  grid_ok S C cost lt Rt Jb ev routes jobs ->
  pflatten t = cartesian_product routes jobs ->
  ((exists f, evaluate_all S C cost lt Rt Jb ev t = RFailure f) <->
   (forall r j, In r routes -> In j jobs -> exists f, full_of S C (ev r j) = RFailure f)).
Proof. exact evaluate_all_failure_iff. Qed.

(* ---------- evaluate_and_collect_all ---------- *)
Theorem C15_collect_split_independent : forall (S C : Type) (cost : S -> C) (lt : C -> C -> bool)
  (Rt Jb : Type) (ev : Rt -> Jb -> cell S C) (b : bool) (routes : list Rt) (jobs : list Jb) (tr tr' : ptree Rt) (tj tj' : ptree Jb),
  pflatten tr = pflatten tr' -> pflatten tj = pflatten tj' ->
  evaluate_and_collect_all S C cost lt Rt Jb ev b routes jobs tr tj =
  evaluate_and_collect_all S C cost lt Rt Jb ev b routes jobs tr' tj'.
Proof. exact collect_split_independent. Qed.

(* branch `else` (per route a sequential fold over the jobs): the minimum of the collected vector IS evaluate_all's result *)
Theorem C15_collect_by_route_reduced : forall (S C : Type) (cost : S -> C) (lt : C -> C -> bool),
  (forall a b c, lt a b = true -> lt b c = true -> lt a c = true) ->
  (forall a b c, lt a b = false -> lt b c = false -> lt a c = false) ->
  forall (Rt Jb : Type) (ev : Rt -> Jb -> cell S C) (routes : list Rt) (jobs : list Jb) (tr : ptree Rt) (t : ptree (Rt * Jb)),
  grid_ok S C cost lt Rt Jb ev routes jobs ->
  pflatten tr = routes ->
  pflatten t = cartesian_product routes jobs ->
  best_of S C cost lt (collect_by_route S C cost lt Rt Jb ev jobs tr) = evaluate_all S C cost lt Rt Jb ev t.
Proof. exact collect_by_route_reduced. Qed.

(* branch `is_fold_jobs` (per job a sequential fold over the routes): same verdict class and an equivalent cost *)
Theorem C15_collect_by_job_reduced : forall (S C : Type) (cost : S -> C) (lt : C -> C -> bool),
  (forall a, lt a a = false) ->
  (forall a b c, lt a b = true -> lt b c = true -> lt a c = true) ->
  (forall a b c, lt a b = false -> lt b c = false -> lt a c = false) ->
  forall (Rt Jb : Type) (ev : Rt -> Jb -> cell S C) (routes : list Rt) (jobs : list Jb) (tj : ptree Jb) (t : ptree (Rt * Jb)),
  grid_ok S C cost lt Rt Jb ev routes jobs ->
  pflatten tj = jobs ->
  pflatten t = cartesian_product routes jobs ->
  res_equiv S C cost lt (best_of S C cost lt (collect_by_job S C cost lt Rt Jb ev routes tj)) (evaluate_all S C cost lt Rt Jb ev t).
Proof. exact collect_by_job_reduced. Qed.

(* SkipBestInsertionEvaluator: the entry picked from the sorted collected vector is a function of the inputs only *)
Theorem C15_skip_best_pick_split_independent : forall (S C : Type) (cost : S -> C) (lt : C -> C -> bool)
  (Rt Jb : Type) (ev : Rt -> Jb -> cell S C) (k : nat) (b : bool) (routes : list Rt) (jobs : list Jb)
  (tr tr' : ptree Rt) (tj tj' : ptree Jb),
  pflatten tr = pflatten tr' -> pflatten tj = pflatten tj' ->
  skip_best_pick S C cost lt k (evaluate_and_collect_all S C cost lt Rt Jb ev b routes jobs tr tj) =
  skip_best_pick S C cost lt k (evaluate_and_collect_all S C cost lt Rt Jb ev b routes jobs tr' tj').
Proof. exact skip_best_pick_split_independent. Qed.

(* ---------- the lower-bound hypothesis on the concrete evaluator model (Model/Core.v) ---------- *)
(* the scan started from best_known_cost = a finds exactly the full result when that is cheaper than a, a failure otherwise *)
Theorem C15_concrete_scan_respects_known : forall (dur : Z -> Z -> Z) (est : list act -> nat -> act -> Z)
  (v : vehicle) (closed : bool) (t : list act) (j : single) (rc : Z),
  respects_known csucc Z ccost Z.ltb (fun known : option Z => result_of_sctx j (analyze_known dur est v closed t j rc known)).
Proof. exact concrete_scan_respects_known. Qed.

(* distance (or duration) objective: non-negative entries + triangle inequality => every activity-level estimate is >= 0 *)
Theorem C15_leg_estimate_nonneg : forall (m : Z -> Z -> Z),
  (forall a b, 0 <= m a b) -> (forall a b c, m a c <= m a b + m b c) ->
  forall t idx x, 0 <= leg_estimate m t idx x.
Proof. exact leg_estimate_nonneg. Qed.

(* hence the concrete pair honours best_known_cost and its route-level estimate is a lower bound of its full cost *)
Theorem C15_dist_cell_ok : forall (dur dist : Z -> Z -> Z) (r : route_desc) (j : single),
  (forall a b, 0 <= dist a b) ->
  (forall a b c, dist a c <= dist a b + dist b c) ->
  cell_ok csucc Z ccost Z.ltb (dist_cell dur dist r j).
Proof. exact dist_cell_ok. Qed.

(* corollary: the concrete evaluator's result over any routes x jobs grid is split-independent (exactly) and of minimal cost *)
Theorem C15_dist_evaluate_all_split_independent : forall (dur dist : Z -> Z -> Z) (routes : list route_desc) (jobs : list single)
  (t : ptree (route_desc * single)),
  (forall a b, 0 <= dist a b) ->
  (forall a b c, dist a c <= dist a b + dist b c) ->
  pflatten t = cartesian_product routes jobs ->
  evaluate_all csucc Z ccost Z.ltb route_desc single (dist_cell dur dist) t =
  best_of_all csucc Z ccost Z.ltb route_desc single (dist_cell dur dist) routes jobs.
Proof. exact dist_evaluate_all_split_independent. Qed.

Theorem C15_dist_evaluate_all_minimal : forall (dur dist : Z -> Z -> Z) (routes : list route_desc) (jobs : list single)
  (t : ptree (route_desc * single)),
  (forall a b, 0 <= dist a b) ->
  (forall a b c, dist a c <= dist a b + dist b c) ->
  pflatten t = cartesian_product routes jobs ->
  match evaluate_all csucc Z ccost Z.ltb route_desc single (dist_cell dur dist) t with
  | RSuccess s =>
      (exists r j, In r routes /\ In j jobs /\ full_of csucc Z (dist_cell dur dist r j) = RSuccess s) /\
      (forall r j s', In r routes -> In j jobs -> full_of csucc Z (dist_cell dur dist r j) = RSuccess s' -> ccost s <= ccost s')
  | RFailure _ =>
      forall r j s', In r routes -> In j jobs -> full_of csucc Z (dist_cell dur dist r j) <> RSuccess s'
  end.
Proof. exact dist_evaluate_all_minimal. Qed.

(* the concrete pair is Core's eval_single_gen (the function compared with the real evaluator by the C06 / C20 checks) *)
Theorem C15_concrete_cell_matches_core : forall (dur : Z -> Z -> Z) (est : route_desc -> list act -> nat -> act -> Z)
  (rcf : route_desc -> Z) (r : route_desc) (j : single),
  match eval_single_gen dur (est r) (rcf r) (r_veh r) (r_shift_start r) (r_closed r) (r_tour r) j PAny,
        full_of csucc Z (concrete_cell dur est rcf r j) with
  | ESuccess idx p c, RSuccess s => s = (c, idx, p)
  | EFailure code st, RFailure f => f_code f = code /\ f_stopped f = st /\ f_job f = Some (s_id j)
  | _, _ => False
  end.
Proof. exact concrete_cell_matches_core. Qed.

(* complementary witness (finding C15-F1 on the concrete model): a non-negative matrix that violates the triangle inequality
   gives a negative activity-level estimate, and then the sequential scan (-80) and a two-chunk schedule (-98) disagree *)
Theorem C15_nonmetric_estimate_negative_refuted :
  (forall a b, 0 <= nm_dist a b) /\
  leg_estimate nm_dist (r_tour nm_route) 0 (mkAct 7 2 0 0 INF dzero 0 0) = -98.
Proof. exact nonmetric_estimate_negative. Qed.

Theorem C15_nonmetric_dist_split_dependent_refuted :
  let ev := dist_cell (fun _ _ => 0) nm_dist in
  let jobs := [nm_job 8 3; nm_job 7 2] in
  let prod := cartesian_product [nm_route] jobs in
  exists c1 c2,
    evaluate_all csucc Z ccost Z.ltb route_desc single ev (PLeaf prod) = RSuccess c1 /\
    evaluate_all csucc Z ccost Z.ltb route_desc single ev (PNode (PLeaf (firstn 1 prod)) (PLeaf (skipn 1 prod))) = RSuccess c2 /\
    ccost c1 = -80 /\ ccost c2 = -98.
Proof. exact nonmetric_dist_split_dependent. Qed.

(* ---------- pool layout: thread_pool_execute / search_many ---------- *)
(* whatever the number of pools (none configured, or ANY n >= 0 — an empty vector of pools included) and whatever the chunking,
   result i is op(solution i) *)
Theorem C15_search_many_values : forall (A R : Type) (pools : option nat) (op : A -> R) (sols : list A) (t : ptree (nat * A)),
  pflatten t = enumerate sols ->
  values (search_many pools op t) = Some (map op sols).
Proof. exact (@search_many_values). Qed.

Theorem C15_search_many_pool_independent : forall (A R : Type) (p1 p2 : option nat) (op : A -> R) (sols : list A)
  (t1 t2 : ptree (nat * A)),
  pflatten t1 = enumerate sols -> pflatten t2 = enumerate sols ->
  values (search_many p1 op t1) = values (search_many p2 op t2).
Proof. exact (@search_many_pool_independent). Qed.

(* every task lands on an existing pool *)
Theorem C15_search_many_pools_exist : forall (A R : Type) (n : nat) (op : A -> R) (t : ptree (nat * A)),
  Forall (fun p => (p < S n)%nat) (pools_used (search_many (Some (S n)) op t)).
Proof. exact (@search_many_pools_exist). Qed.

(* Parallelism::new(0, _) (an empty vector of pools) behaves as no pools: every task runs inline (code as it is, /repo b5c201c) *)
Theorem C15_zero_pools_run_inline : forall (A R : Type) (op : A -> R) (t : ptree (nat * A)),
  search_many (Some 0%nat) op t = search_many None op t /\ pools_used (search_many (Some 0%nat) op t) = [].
Proof. exact (@search_many_zero_pools_inline). Qed.

(* the pre-fix function (finding C15-F2, repaired by /repo b5c201c): `idx % 0` — every dispatched task panicked; for every other
   setting it was the present function *)
Theorem C15_zero_pools_panics_prefix_refuted : forall (A R : Type) (op : A -> R) (t : ptree (nat * A)),
  pflatten t <> [] -> values (search_many_prefix (Some 0%nat) op t) = None.
Proof. exact (@search_many_zero_pools_panics_prefix). Qed.

Theorem C15_search_many_prefix_agrees : forall (A R : Type) (pools : option nat) (op : A -> R) (t : ptree (nat * A)),
  pools <> Some 0%nat -> search_many_prefix pools op t = search_many pools op t.
Proof. exact (@search_many_prefix_agrees). Qed.

(* ---------- decomposition search ---------- *)
(* the groups of route indices partition 0..n-1 (no route lost, none duplicated), for all proximity lists and all drawn group
   sizes >= 1; the number of pools does not occur in the function *)
Theorem C15_decompose_partition : forall (proximity : nat -> list nat) (size : nat -> nat),
  (forall o, (1 <= size o)%nat) ->
  forall n : nat,
  (forall o i, In i (proximity o) -> (i < n)%nat) ->
  NoDup (concat (decompose proximity size n)) /\
  (forall i, In i (concat (decompose proximity size n)) <-> (i < n)%nat).
Proof. exact decompose_partition. Qed.

(* refine + merge keeps every route exactly once when the inner search returns each group's own vehicles *)
Theorem C15_refine_decomposed_keeps_routes : forall (Rt : Type) (ids : Rt -> nat) (refine : list nat -> list Rt)
  (proximity : nat -> list nat) (size : nat -> nat) (n : nat) (t : ptree (list nat)),
  (forall o, (1 <= size o)%nat) ->
  (forall o i, In i (proximity o) -> (i < n)%nat) ->
  (forall g, Permutation (map ids (refine g)) g) ->
  pflatten t = decompose proximity size n ->
  Permutation (map ids (refine_decomposed refine t)) (seq 0 n).
Proof. exact refine_decomposed_keeps_routes. Qed.

(* keeping only as many groups as there are pools loses routes (what the partition theorem excludes) *)
Theorem C15_truncated_groups_lose_routes_refuted :
  exists proximity size n p, ~ (forall i, (i < n)%nat -> In i (concat (firstn p (decompose proximity size n)))).
Proof. exact truncated_groups_lose_routes. Qed.

(* ---------- the order used by the correspondence satisfies the hypotheses ---------- *)
Theorem C15_vlt_strict_weak_order :
  (forall a, vlt a a = false) /\
  (forall a b c, vlt a b = true -> vlt b c = true -> vlt a c = true) /\
  (forall a b c, vlt a b = false -> vlt b c = false -> vlt a c = false).
Proof. exact (conj vlt_irrefl (conj vlt_trans vlt_negtrans)). Qed.

(* ---------- non-vacuity ---------- *)
Theorem C15_nonvacuous_grid :
  grid_ok vsucc (list Z) fst vlt nat nat ex_grid [0%nat; 1%nat] [0%nat; 1%nat] /\
  evaluate_all vsucc (list Z) fst vlt nat nat ex_grid (PLeaf (cartesian_product [0%nat; 1%nat] [0%nat; 1%nat])) = RSuccess ([4], 2).
Proof. exact grid_example. Qed.

Theorem C15_nonvacuous_metric :
  (forall a b, 0 <= abs_dist a b) /\ (forall a b c, abs_dist a c <= abs_dist a b + abs_dist b c) /\
  exists s, evaluate_all csucc Z ccost Z.ltb route_desc single (dist_cell (fun _ _ => 0) abs_dist)
              (PNode (PLeaf [(nm_route, nm_job 8 3)]) (PLeaf [(nm_route, nm_job 7 2)])) = RSuccess s /\ ccost s = 2.
Proof. exact metric_example. Qed.

(* ---------- best_known_cost only prunes: the per-pair result fed to the reduction ---------- *)
From VRP Require Import Model.MultiPerm Proofs.MultiPermP.

(* general form: for a pair that is ok, the scan started from ANY best-known cost a (= the cost the fold accumulator holds) either
   returns the pair's own full result (when that is strictly cheaper than a) or a failure (when it is not, so the reducer keeps the
   accumulator): the accumulator can hide a pair's result only when that result could not have become the minimum *)
Theorem C15_best_known_only_prunes : forall (S C : Type) (cost : S -> C) (lt : C -> C -> bool)
  (rc : C) (run : option C -> result S),
  cell_ok S C cost lt (CEval rc run) -> forall a : C,
  (exists s, run None = RSuccess s /\ lt (cost s) a = true /\ run (Some a) = RSuccess s) \/
  ((forall s, run None = RSuccess s -> lt (cost s) a = false) /\ exists f, run (Some a) = RFailure f).
Proof. exact best_known_only_prunes. Qed.

(* eval_multi (outer fold over the allowed permutations, MultiContext::promote as written): for every list of permutation results
   without a stopped failure and every best-known cost a, the result is the one obtained without a best-known cost (ALL
   permutations analysed, the cheapest kept) when that is strictly cheaper than a, and a failure otherwise *)
Theorem C15_multi_respects_best_known : forall (S C : Type) (cost : S -> C) (lt : C -> C -> bool),
  (forall a b c, lt a b = true -> lt b c = true -> lt a c = true) ->
  (forall a b c, lt a b = false -> lt b c = false -> lt a c = false) ->
  forall (job : Z) (perms : list (perm_res S)), no_stopped S perms -> forall a : C,
  match multi_run S C cost lt job perms None with
  | RSuccess s => if lt (cost s) a then multi_run S C cost lt job perms (Some a) = RSuccess s
                  else exists f, multi_run S C cost lt job perms (Some a) = RFailure f
  | RFailure _ => exists f, multi_run S C cost lt job perms (Some a) = RFailure f
  end.
Proof. exact multi_respects_known. Qed.

(* hence a multi job is a pair the evaluate_all theorems apply to, whenever the route-level estimate is a lower bound of every
   permutation's cost *)
Theorem C15_multi_cell_ok : forall (S C : Type) (cost : S -> C) (lt : C -> C -> bool),
  (forall a b c, lt a b = true -> lt b c = true -> lt a c = true) ->
  (forall a b c, lt a b = false -> lt b c = false -> lt a c = false) ->
  forall (rc : C) (job : Z) (perms : list (perm_res S)), no_stopped S perms ->
  (forall s, In (PSucc s) perms -> lt (cost s) rc = false) ->
  cell_ok S C cost lt (multi_cell S C cost lt rc job perms).
Proof. exact multi_cell_ok. Qed.

(* the hypothesis `respects_known` is needed: an eval_multi that analyses only the first permutation when a best-known cost is passed
   (seeded change C15-5) makes evaluate_all depend on the split: one chunk keeps cost 10, two chunks find cost 0 = the minimum *)
Theorem C15_first_permutation_only_split_dependent_refuted :
  exists (ev : nat -> nat -> cell (Z * Z) Z),
    ev 0%nat 1%nat = CEval 0 (multi_run_first_only (Z * Z) Z fst Z.ltb 7 [PSucc (20, 1); PSucc (0, 2)]) /\
    evaluate_all (Z * Z) Z fst Z.ltb nat nat ev (PLeaf [(O, O); (O, 1%nat)]) = RSuccess (10, 0) /\
    evaluate_all (Z * Z) Z fst Z.ltb nat nat ev (PNode (PLeaf [(O, O)]) (PLeaf [(O, 1%nat)])) = RSuccess (0, 2) /\
    best_of_all (Z * Z) Z fst Z.ltb nat nat ev [O] [O; 1%nat] = RSuccess (0, 2).
Proof. exact (ex_intro _ w_ev (conj eq_refl first_permutation_only_split_dependent)). Qed.

Theorem C15_nonvacuous_multi :
  no_stopped (Z * Z) [PFail 2 false; PSucc (20, 1); PSucc (0, 2)] /\
  multi_run (Z * Z) Z fst Z.ltb 7 [PFail 2 false; PSucc (20, 1); PSucc (0, 2)] None = RSuccess (0, 2) /\
  multi_run (Z * Z) Z fst Z.ltb 7 [PFail 2 false; PSucc (20, 1); PSucc (0, 2)] (Some 10) = RSuccess (0, 2) /\
  multi_run (Z * Z) Z fst Z.ltb 7 [PFail 2 false; PSucc (20, 1); PSucc (0, 2)] (Some 0) = RFailure (mkFail UNKNOWN false (Some 7)).
Proof. exact multi_nonvacuous. Qed.
