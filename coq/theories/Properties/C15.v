(* C15 — Parallel evaluation results do not depend on how work is split. *)
From VRP Require Import Base.Tac Model.Reduce Proofs.ReduceP.

(* every reduction schedule (binary tree over contiguous chunks = anything rayon's fold/reduce can produce) returns a
   minimal-cost result, for every strict weak order on costs, provided route-level cost estimates are lower bounds of the
   full insertion costs (non-negative activity-level estimates) *)
Theorem C15_any_schedule_minimal : forall (C : Type) (lt : C -> C -> bool),
  (forall a, lt a a = false) ->
  (forall a b c, lt a b = true -> lt b c = true -> lt a c = true) ->
  (forall a b c, lt a b = false -> lt b c = false -> lt a c = false) ->
  forall t, lower_bound C lt (flatten C t) -> is_min C lt (flatten C t) (run_tree C lt t).
Proof. exact run_tree_min. Qed.

(* hence any two schedules over the same items (in particular the sequential scan = one leaf) agree on the cost *)
Theorem C15_parallel_eq_sequential : forall (C : Type) (lt : C -> C -> bool),
  (forall a, lt a a = false) ->
  (forall a b c, lt a b = true -> lt b c = true -> lt a c = true) ->
  (forall a b c, lt a b = false -> lt b c = false -> lt a c = false) ->
  forall t1 t2, flatten C t1 = flatten C t2 -> lower_bound C lt (flatten C t1) ->
  match run_tree C lt t1, run_tree C lt t2 with
  | None, None => True
  | Some a, Some b => lt a b = false /\ lt b a = false
  | _, _ => False
  end.
Proof. exact parallel_eq_sequential. Qed.

(* the hypothesis is needed: with an item whose full cost is below its route-level estimate the result depends on the split *)
Theorem C15_pruning_split_dependent_refuted :
  exists xs : list (item Z),
    run_tree Z Z.ltb (Leaf _ xs) = Some 10 /\ run_tree Z Z.ltb (Node _ (Leaf _ (firstn 1 xs)) (Leaf _ (skipn 1 xs))) = Some 5.
Proof. exact pruning_split_dependent. Qed.
