(* C10 — Problem validation is total and matches its documented rules.
   "Reading any syntactically well-formed problem and matrix documents either yields a problem or a list of documented error
    codes - never a crash - and a document is accepted exactly when it breaks none of the documented validation rules, each
    reported code naming a rule the input really breaks."

   read / validate : Model/Validation.v (the code as written); violates : Spec/Rules.v (the documentation page, readings R1-R10);
   known : Spec/Rules.v (three structural deviation classes K7, K9 and G2 - K6 and K8 were repaired in /repo -, each one a finding with a witness below; K1, K2, K3 were
   repaired in /repo by c324ed4, d5aa3e7, 89050ae and K4, K5, K10 by d67b161, 7653bff, 11fbd19: all six are covered by the
   theorems now);
   gen_* : Generated/RuleTable.v (re-extracted from the Rust sources and the documentation page on every run).
   The unrestricted statements
        forall d, read d <> RPanic
        forall d, read d = ROk <-> forall c, In c gen_doc_validation -> violates c d = false
        forall d cs, read d = RErr cs -> forall c, In c cs <-> In c gen_doc_validation /\ violates c d = true
   are FALSE for the code as written (the `_refuted` theorems); the `_partial` theorems prove them for every document outside
   the known classes.  Only property theorems here, each closed by `exact`. *)
From VRP Require Import Base.Tac Model.Validation Model.ValidationX Model.RulePins Model.Reader Spec.Rules Spec.RulesX Generated.RuleTable
  Proofs.ValidationP Proofs.ValidationXP Proofs.ReaderP.
From Coq Require Import String.

(* clause "never a crash" *)
Theorem C10_read_total_partial : forall d, known d = false -> read d <> RPanic.
Proof. exact read_total_l. Qed.

(* clause "accepted exactly when it breaks none of the documented rules" *)
Theorem C10_accept_iff_partial : forall d, known d = false ->
  (read d = ROk <-> forall c, In c gen_doc_validation -> violates c d = false).
Proof. exact accept_iff_l. Qed.

(* clause "each reported code names a rule the input really breaks" (and every broken rule is reported, once) *)
Theorem C10_codes_exact_partial : forall d cs, known d = false -> read d = RErr cs ->
  cs <> [] /\ NoDup cs /\ forall c, In c cs <-> In c gen_doc_validation /\ violates c d = true.
Proof. exact codes_exact_l. Qed.

(* the validation engine itself: outside the known classes it reports exactly the broken rules, in source order *)
Theorem C10_validate_is_spec_partial : forall d, known d = false ->
  validate d = match filter (fun c => violates c d) (map fst all_checks) with [] => VOk | cs => VErr cs end.
Proof. exact validate_spec. Qed.

(* what validation buys the reader: a validated document (no rule broken) outside the known classes passes every unwrap /
   assert of fleet_reader / job_reader / problem_reader that the model contains *)
Theorem C10_validated_reader_safe_partial : forall d, known d = false ->
  (forall c, In c (map fst all_checks) -> violates c d = false) -> reader_panics d = false.
Proof. exact reader_safe. Qed.

(* the step between read_fleet and the job reader, DynamicTransportCost::new over the required breaks of every shift (E0002 "check fleet
   definition"), cannot fail outside the known class G2 *)
Theorem C10_reserved_times_ok_partial : forall d, known d = false -> reserved_fails d = false.
Proof. exact reserved_ok_known. Qed.

(* the reader step create_transport_costs on a supplied matrix with `errorCodes`: since 7d3c5fe (finding C16-F4) it fails (E0002)
   exactly when errorCodes, travelTimes and distances do not have one common length ("not enough error codes specified" of f7d2f27, the
   repair of finding X15, is the case of fewer codes; "invalid matrix index" cannot occur any more); otherwise both cost vectors have that
   length; without errorCodes the data is taken as is.  The step has no panicking outcome in the model (`.get(i).ok_or_else(..)?`); that,
   and the remaining E0002 conditions (run_transport, xtransport_fails), are validated by the correspondence. *)
Theorem C10_matrix_step_spec : forall m,
  (matrix_data m = None <-> exists ec, m_errors m = Some ec /\
        (List.length ec <> List.length (m_dist m) \/ List.length (m_travel m) <> List.length (m_dist m)))
  /\ (forall ec x y, m_errors m = Some ec -> matrix_data m = Some (x, y) ->
        List.length x = List.length ec /\ List.length y = List.length ec /\ List.length (m_dist m) = List.length ec
        /\ List.length (m_travel m) = List.length ec)
  /\ (m_errors m = None -> matrix_data m = Some (m_travel m, m_dist m)).
Proof. exact matrix_step_spec_l. Qed.

(* former finding X15 (a short errorCodes array truncated the matrix, lookups beyond it panicked later): when the step succeeds there is
   one cost vector per matrix, every vector is a full size x size square (17fc8e9) and no matrix had more distances than that
   (f7d2f27): nothing is truncated *)
Theorem C10_transport_ok_is_square_and_covers_distances : forall profiles ms size lens,
  create_transport_costs profiles ms = TOk size lens ->
  List.length lens = List.length ms /\ (forall l, In l lens -> l = (size * size)%nat)
  /\ (forall m, In m ms -> (List.length (m_dist m) <= size * size)%nat).
Proof. exact transport_ok_square_l. Qed.

(* the step in front of validation when no routing matrix is supplied (map_to_problem_with_approx) can no longer panic: nothing is
   approximated with an index location, without a profile (repair 11fbd19 of K10: validation reports E1501) or with an explicit speed
   that is not positive (repair of X14: the matrix step then answers E0002); `approx_skipped` says when create_approx_matrices
   returns no matrix *)
Theorem C10_prevalidation_guard :
  (forall has_indices profiles speeds, pre_validation_panics has_indices profiles speeds = false)
  /\ (forall profiles speeds, approx_skipped profiles speeds = true <-> profiles = [] \/ exists s, In s speeds /\ s <= 0)
  /\ (forall d, approx_panics d = false).
Proof. exact prevalidation_l. Qed.

(* rule tables: every implemented rule is documented and vice versa, no rule is called twice, every defined rule is called,
   every rule function reports its own code *)
Theorem C10_rule_table_complete :
  (forall c, In c implemented_codes <-> In c gen_doc_validation)
  /\ NoDup implemented_codes
  /\ (forall c, In c defined_codes <-> In c implemented_codes)
  /\ (forall p, In p gen_emitted -> fst p = snd p).
Proof. exact rule_table_complete_l. Qed.

(* the model runs the rules of the source, in the order of the source (E1502/E1503 cannot fire on reduced documents) *)
Theorem C10_model_table_matches_source :
  gen_group_order = ["jobs"; "vehicles"; "objectives"; "routing"; "relations"]%string
  /\ map fst jobs_checks = gen_jobs_calls
  /\ map fst vehicles_checks = gen_vehicles_calls
  /\ map fst routing_checks = filter (fun c => negb (zmem c [1502; 1503])) gen_routing_calls
  /\ map fst spec_table = map fst all_checks.
Proof. exact model_table_matches_source_l. Qed.

(* non-vacuity: a document outside the known classes that is accepted, and one that is rejected with two codes *)
Theorem C10_nonvacuous : known w_base = false /\ breaks_no_rule w_base /\ read w_base = ROk.
Proof. exact nonvacuous_l. Qed.
Theorem C10_nonvacuous_rejected : exists d, known d = false /\ read d = RErr [1103; 1306].
Proof. exact nonvacuous_err_l. Qed.

(* ---- the unrestricted clauses fail: one witness per known class ---- *)
(* K1 (windows(2).any), K2 (E1103 skipped replacement/service tasks), K3 (check_e1303 -> panicking parse_time): repaired in /repo;
   the `_refuted` witnesses C10_accept_iff_K1_refuted, C10_accept_iff_K2_refuted, C10_read_total_K2_refuted, C10_read_total_K3_refuted
   no longer hold and were removed.  Their documents are outside `known` now and are rejected with the right codes: *)
Theorem C10_fixed_K1_K2_K3_regression :
  known w_k1 = false /\ read w_k1 = RErr [1103]
  /\ known w_k2_accept = false /\ read w_k2_accept = RErr [1103]
  /\ known w_k2_panic = false /\ read w_k2_panic = RErr [1103]
  /\ known w_k3 = false /\ read w_k3 = RErr [1302; 1303; 1307].
Proof. exact fixed_regression_l. Qed.
(* K4 (unparsable start.latest: no rule, read_fleet unwrapped), K5 (optional offset break that is not a pair: read_optional_breaks
   panicked), K10 (no profile and no matrix: the approximation asserted before validation): repaired in /repo by d67b161, 7653bff,
   11fbd19; the `_refuted` witnesses C10_read_total_K4_refuted, C10_read_total_K5_refuted, C10_read_total_K10_refuted no longer hold and
   were removed.  Their documents are outside `known` now; validation rejects them with the documented codes: *)
Theorem C10_fixed_K4_K5_K10_regression :
  known w_k4 = false /\ validate w_k4 = VErr [1302] /\ read w_k4 = RErr [1302]
  /\ known w_k5 = false /\ validate w_k5 = VErr [1303] /\ read w_k5 = RErr [1303]
  /\ known w_k10 = false /\ violates 1501 w_k10 = true /\ read w_k10 = RErr [1501; 1505].
Proof. exact fixed_regression2_l. Qed.
(* K7, K9: documents that break no documented rule, pass validation and panic in the reader *)
(* K6 (`capacity: []`: read_fleet unwrapped `first()`) and K8 (E1102 on empty demand vectors) were repaired in /repo: the former
   witnesses are outside `known` now, break no rule and are accepted *)
Theorem C10_fixed_K6_K8_regression :
  k6_capacity_empty w_k6 = true /\ known w_k6 = false /\ breaks_no_rule w_k6 /\ read w_k6 = ROk
  /\ k8_empty_demand_vectors w_k8 = true /\ known w_k8 = false /\ violates 1102 w_k8 = false /\ read w_k8 = ROk.
Proof. exact fixed_regression3_l. Qed.
Theorem C10_read_total_K7_refuted : exists d, k7_over8 d = true /\ breaks_no_rule d /\ validate d = VOk /\ read d = RPanic.
Proof. exists w_k7. exact k7_witness. Qed.
Theorem C10_read_total_K9_refuted : exists d, k9_no_vehicles d = true /\ breaks_no_rule d /\ validate d = VOk /\ read d = RPanic.
Proof. exists w_k9. exact k9_witness. Qed.
(* G2  required breaks of one shift of both kinds (exact + offset): no documented rule is broken, validation passes, the reader
   answers E0002 (found while the reader behind validation was modelled step by step; the first version of `read` lacked this step) *)
Theorem C10_accept_iff_G2_refuted : exists d, g2_required_breaks_of d = true /\ breaks_no_rule d /\ validate d = VOk /\ read d = RErr [2].
Proof. exists w_g2. exact g2_witness_base. Qed.


(* ====================================================================================================================== *)
(* The EXTENDED document (Model/ValidationX.v :: xdoc): relations, objectives, job values, task orders, coordinate / index /   *)
(* mixed locations with supplied (incl. timestamps, errorCodes) or approximated matrices, recharge stations, clustering       *)
(* profile, explicit speeds, resource capacities.  xvalidate / xread: Model/ValidationX.v, Model/Reader.v (the code as        *)
(* written); xviolates: Spec/RulesX.v (the documentation page, readings R1-R20); xknown: the recorded deviation classes        *)
(* K7, K9 (on the base document; K7 also for resource capacities), X11, X16, G1, G2 (K6, K8, X14: repaired).                                        *)
(* ====================================================================================================================== *)

(* every rule function of the relation / objective / routing groups as written IS its documented rule, for every document
   (no known class is needed for these three groups): `f d = Some b` reads "check_eNNNN reports an error iff b" *)
Theorem C10_x_relation_rules_spec : forall d c f, In (c, f) relations_checks -> f d = Some (xviolates c d).
Proof. exact relations_agree. Qed.
Theorem C10_x_objective_rules_spec : forall d c f, In (c, f) objectives_checks -> f d = Some (xviolates c d).
Proof. exact objectives_agree. Qed.
Theorem C10_x_routing_rules_spec : forall d c f, In (c, f) xrouting_checks -> f d = Some (xviolates c d).
Proof. exact routing_agree. Qed.
(* rule by rule, on a document that has relations / objectives (the `on_relations` / `on_objectives` wrappers of the table are the
   `if let Some(..)` of validate_relations / validate_objectives) *)
Theorem C10_x_check_e12xx_spec : forall d rels, x_relations d = Some rels ->
  check_e1200 d rels = viol_1200 d /\ check_e1201 d rels = viol_1201 d /\ check_e1202 rels = viol_1202 d
  /\ check_e1203 d rels = viol_1203 d /\ check_e1204 rels = viol_1204 d /\ check_e1205 d rels = viol_1205 d
  /\ check_e1206 d rels = viol_1206 d /\ check_e1207 d rels = viol_1207 d.
Proof.
  exact (fun d rels E => conj (e1200_ok d rels E) (conj (e1201_ok d rels E) (conj (e1202_ok d rels E) (conj (e1203_ok d rels E)
         (conj (e1204_ok d rels E) (conj (e1205_ok d rels E) (conj (e1206_ok d rels E) (e1207_ok d rels E)))))))).
Qed.
(* the routing rules in every location / matrix mode; E1504 with the overwriting reverse index of CoordIndex *)
Theorem C10_x_check_e15xx_spec : forall d,
  xcheck_e1500 d = xviol_1500 d /\ xcheck_e1501 d = xviol_1501 d /\ xcheck_e1502 d = xviol_1502 d
  /\ xcheck_e1503 d = xviol_1503 d /\ xcheck_e1504 d = xviol_1504 d /\ xcheck_e1505 d = xviol_1505 d.
Proof.
  exact (fun d => conj (x1500_ok d) (conj (x1501_ok d) (conj (x1502_ok d) (conj (x1503_ok d) (conj (x1504_ok d) (x1505_ok d)))))).
Qed.
(* CoordIndex keeps, per value, only the LAST location (a coordinate can replace an index location): whenever the number of
   distinct locations does not exceed the matrix size, `unique()` still shows an index outside the matrix iff the problem has one *)
Theorem C10_x_reverse_index_loses_nothing : forall ls size, (ndistinct ls <= size)%nat ->
  has_index_outside size (coord_index ls) = existsb (index_ge size) ls.
Proof. exact outside_spec. Qed.

(* the validation engine on the extended document: outside K6-K9 of the base document it reports exactly the broken rules, in
   source order (jobs, vehicles, objectives, routing, relations) *)
Theorem C10_x_validate_is_spec_partial : forall d, known (xbase d) = false ->
  xvalidate d = match filter (fun c => xviolates c d) (map fst xall_checks) with [] => VOk | cs => VErr cs end.
Proof. exact xvalidate_spec. Qed.

(* clause "never a crash" *)
Theorem C10_x_read_total_partial : forall d, xknown d = false -> xread d <> RPanic.
Proof. exact xread_total_l. Qed.

(* clause "accepted exactly when it breaks none of the documented rules"; the second conjunct is the reader step
   create_transport_costs on the supplied (or approximated) matrices, whose failure is the documented generic code E0002
   (C10_matrix_step_spec, C10_transport_ok_is_square_and_covers_distances describe it) *)
Theorem C10_x_accept_iff_partial : forall d, xknown d = false ->
  (xread d = ROk <-> (forall c, In c gen_doc_validation -> xviolates c d = false)
                     /\ xtransport_fails (x_profiles d) (seen_matrices d) = false).
Proof. exact xaccept_iff_l. Qed.

(* clause "each reported code names a rule the input really breaks": either the codes are exactly the broken validation rules
   (each once), or no validation rule is broken and the only code is E0002 of the matrix step *)
Theorem C10_x_codes_exact_partial : forall d cs, xknown d = false -> xread d = RErr cs ->
  (cs = [2] /\ (forall c, In c gen_doc_validation -> xviolates c d = false)
            /\ xtransport_fails (x_profiles d) (seen_matrices d) = true)
  \/ (cs <> [] /\ NoDup cs /\ forall c, In c cs <-> In c gen_doc_validation /\ xviolates c d = true).
Proof. exact xcodes_exact_l. Qed.

(* documents read WITHOUT routing matrices (String::read_pragmatic / ApiProblem::read_pragmatic) and without an explicit speed <= 0
   (then nothing is approximated and the matrix step answers E0002, C10_x_fixed_X14_regression): once E1500, E1501 and E1503 hold,
   the approximated matrices (one n x n matrix per profile) always become transport costs, so the two clauses carry no E0002 part *)
Theorem C10_x_approx_matrices_always_fit : forall d, x_matrices d = None -> existsb (fun s => s <=? 0) (x_speeds d) = false ->
  xviolates 1500 d = false -> xviolates 1501 d = false -> xviolates 1503 d = false ->
  xtransport_fails (x_profiles d) (seen_matrices d) = false.
Proof. exact approx_transport_ok. Qed.
Theorem C10_x_accept_iff_without_matrices_partial : forall d, xknown d = false -> x_matrices d = None ->
  existsb (fun s => s <=? 0) (x_speeds d) = false ->
  (xread d = ROk <-> forall c, In c gen_doc_validation -> xviolates c d = false).
Proof. exact xaccept_iff_nomatrix_l. Qed.
Theorem C10_x_codes_exact_without_matrices_partial : forall d cs, xknown d = false -> x_matrices d = None ->
  existsb (fun s => s <=? 0) (x_speeds d) = false -> xread d = RErr cs ->
  cs <> [] /\ NoDup cs /\ forall c, In c cs <-> In c gen_doc_validation /\ xviolates c d = true.
Proof. exact xcodes_exact_nomatrix_l. Qed.

(* the matrix step on supplied matrices: when it succeeds, the conditions the page states for E0002 hold - profiles set for all
   matrices or for none; with a timestamp all matrices have profile and timestamp; at least one matrix per distinct fleet profile;
   every matrix (after the errorCodes step) is a size x size square of one common size *)
Theorem C10_x_transport_ok_implies_documented_conditions : forall profiles ms, xtransport_fails profiles ms = false ->
  let named m := is_some (m_profile (xm_matrix m)) in
  let stamped m := is_some (xm_timestamp m) in
  (forallb named ms = true \/ forallb (fun m => negb (named m)) ms = true)
  /\ (existsb stamped ms = true -> forallb named ms = true /\ forallb stamped ms = true)
  /\ (List.length (dedup_from [] profiles) <= List.length ms)%nat
  /\ ms <> []
  /\ exists size, forall m, In m ms -> exists x y, xmatrix_data m = Some (x, y)
                                      /\ List.length x = (size * size)%nat /\ List.length y = (size * size)%nat.
Proof. exact xtransport_ok_implies. Qed.

(* what validation buys the reader on the extended document: no rule broken + outside the known classes -> none of the modelled
   unwraps / asserts / panics of problem_reader, fleet_reader, job_reader (incl. read_recharges, read_locks, Jobs::new) and
   goal_reader fires, and goal / cluster construction report no error *)
Theorem C10_x_validated_reader_safe_partial : forall d, xknown d = false ->
  (forall c, In c gen_doc_validation -> xviolates c d = false) ->
  fleet_panics (xbase d) = false /\ reserved_times_panic (xbase d) = false /\ reserved_fails (xbase d) = false
  /\ jobs_panic (xbase d) = false /\ conditional_panic (xbase d) = false /\ recharge_panics d = false
  /\ locks_panic d = false /\ goal_step d = SOk /\ cluster_step d = SOk
  /\ (xtransport_fails (x_profiles d) (seen_matrices d) = false -> jobs_index_panics d = false).
Proof. exact xreader_safe_l. Qed.

(* the extended model is conservative: on a base document (no relations, objectives, clustering, matrices, index locations) outside the
   known classes it answers what the base model `read` answers - the theorems of the first half are the special case *)
Theorem C10_x_conservative_over_base : forall d, is_base_document d = true -> xknown d = false -> xread d = read (xbase d).
Proof. exact xconservative_l. Qed.

(* the extended model runs the rules of the source, all five groups, in the order of the source *)
Theorem C10_x_model_table_matches_source :
  map fst objectives_checks = gen_objectives_calls
  /\ map fst xrouting_checks = gen_routing_calls
  /\ map fst relations_checks = gen_relations_calls
  /\ map fst xall_checks = implemented_codes
  /\ map fst xspec_table = map fst xall_checks.
Proof. exact xmodel_table_matches_source_l. Qed.

(* translator tie: the text of every rule function and of every helper in validation/*.rs (comments, white space and message texts
   aside) and the helper predicates each rule mentions are the pinned ones the model was written against (Model/RulePins.v):
   a rule that is added, removed, renumbered or whose code changes breaks this obligation *)
Theorem C10_rule_fingerprints :
  gen_rule_hash = pinned_rule_hash /\ gen_helper_hash = pinned_helper_hash /\ gen_rule_uses = pinned_rule_uses
  /\ map fst gen_rule_hash = defined_codes.
Proof. exact rule_fingerprints_l. Qed.

(* non-vacuity: an accepted document with index locations, a matrix, a relation and a multi-objective; a rejected one with one
   code of each new group *)
Theorem C10_x_nonvacuous : xknown xw_ok = false /\ xbreaks_no_rule xw_ok /\ xread xw_ok = ROk.
Proof. exact xnonvacuous_l. Qed.
Theorem C10_x_nonvacuous_rejected : xknown xw_rejected = false /\ xread xw_rejected = RErr [1602; 1502; 1200].
Proof. exact xnonvacuous_err_l. Qed.

(* ---- the unrestricted clauses fail on the extended document: one witness per class ---- *)
(* X11, X16: documents that break no documented rule and panic (in read_locks / in read_recharges) *)
Theorem C10_x_read_total_X11_refuted : exists d, x11_special_without_job d = true /\ xbreaks_no_rule d /\ xvalidate d = VOk /\ xread d = RPanic.
Proof. exists xw_x11. exact x11_witness. Qed.
(* X14 (speed <= 0 asserted before validation) was repaired in /repo: the former witness is outside `xknown`, breaks no rule, and the
   matrix step answers E0002 (no matrices were approximated) *)
Theorem C10_x_fixed_X14_regression :
  x14_speed_not_positive xw_x14 = true /\ xknown xw_x14 = false /\ xbreaks_no_rule xw_x14 /\ xvalidate_pre xw_x14 = VOk
  /\ xtransport_fails (x_profiles xw_x14) (seen_matrices xw_x14) = true /\ xread xw_x14 = RErr [2].
Proof. exact x14_fixed_l. Qed.
Theorem C10_x_read_total_X16_refuted : exists d, x16_recharge_times d = true /\ xbreaks_no_rule d /\ xvalidate d = VOk /\ xread d = RPanic.
Proof. exists xw_x16. exact x16_witness. Qed.
(* G1, G2: documents that break no documented rule, whose matrices are fine, and that are rejected with E0000 / E0002 *)
Theorem C10_x_accept_iff_G1_refuted : exists d, g1_goal_unbuildable d = true /\ xbreaks_no_rule d
  /\ xtransport_fails (x_profiles d) (seen_matrices d) = false /\ xread d = RErr [0].
Proof. exists xw_g1. exact g1_witness. Qed.
Theorem C10_x_accept_iff_G2_refuted : exists d, g2_required_breaks d = true /\ xbreaks_no_rule d
  /\ xtransport_fails (x_profiles d) (seen_matrices d) = false /\ xread d = RErr [2].
Proof. exists xw_g2. exact g2_witness. Qed.
