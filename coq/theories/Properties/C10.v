(* C10 — Problem validation is total and matches its documented rules. Only property theorems here. *)
From VRP Require Import Base.Tac Model.Validation Spec.Rules Generated.RuleTable Proofs.ValidationP.
From Coq Require Import String.

Theorem C10_rule_table_complete :
  (forall c, In c implemented_codes <-> In c gen_doc_validation)
  /\ NoDup implemented_codes
  /\ (forall c, In c defined_codes <-> In c implemented_codes)
  /\ (forall p, In p gen_emitted -> fst p = snd p).
Proof. exact rule_table_complete_l. Qed.

Theorem C10_model_table_matches_source :
  gen_group_order = ["jobs"; "vehicles"; "objectives"; "routing"; "relations"]%string
  /\ map fst jobs_checks = gen_jobs_calls
  /\ map fst vehicles_checks = gen_vehicles_calls
  /\ map fst routing_checks = filter (fun c => negb (zmem c [1502; 1503])) gen_routing_calls
  /\ map fst spec_table = map fst all_checks.
Proof. exact model_table_matches_source_l. Qed.
